import PetgraphModel.Proofs.Matrix
import PetgraphModel.Spec.MatrixMachine
import Mathlib.Data.List.Nodup
/-
C04 helper lemmas, second part: `IdStorage`, the invariant of the matrix graph, the effect of every
operation on the observation `getEdgeWeight`, refinement to `MatrixSpec.G`.
-/
namespace PetgraphModel.MatrixProofs
open PetgraphModel.Matrix PetgraphModel.MatrixSpec

/-! ### `IdStorage` -/

namespace Ids
open IdStorage

/-- representation invariant of `IdStorage` -/
structure Inv (s : IdStorage) : Prop where
  ubLe : s.upperBound ≤ s.elements.size
  nodup : s.removed.Nodup
  remLt : ∀ i ∈ s.removed, i < s.upperBound
  live : ∀ i, (s.get i).isSome = true ↔ (i < s.upperBound ∧ i ∉ s.removed)

theorem get_def (s : IdStorage) (i : Nat) : s.get i = s.elements[i]?.join := by
  unfold IdStorage.get
  cases h : s.elements[i]? with
  | none => rfl
  | some c => cases c <;> rfl

theorem inv_empty : Inv {} := by
  refine ⟨by simp, by simp, by simp, ?_⟩
  intro i; simp [get_def]

theorem removed_length_le {s : IdStorage} (h : Inv s) : s.removed.length ≤ s.upperBound := by
  have := h.nodup.length_le_of_subset (l₂ := List.range s.upperBound)
    (fun i hi => List.mem_range.2 (h.remLt i hi))
  simpa using this

theorem mem_ids (s : IdStorage) (i : Nat) : i ∈ s.ids ↔ (i < s.upperBound ∧ i ∉ s.removed) := by
  simp [IdStorage.ids]

theorem mem_ids_iff_live {s : IdStorage} (h : Inv s) (i : Nat) : i ∈ s.ids ↔ (s.get i).isSome = true := by
  rw [mem_ids, h.live]

theorem ids_sorted (s : IdStorage) : s.ids.Pairwise (· < ·) := by
  unfold IdStorage.ids
  exact List.Pairwise.filter _ List.pairwise_lt_range

theorem ids_nodup (s : IdStorage) : s.ids.Nodup := by
  unfold IdStorage.ids
  exact List.Nodup.sublist List.filter_sublist List.nodup_range

theorem len_eq_length_ids {s : IdStorage} (h : Inv s) : s.len = s.ids.length := by
  unfold IdStorage.len IdStorage.ids
  have hsplit := List.length_eq_countP_add_countP (l := List.range s.upperBound) (fun i => !s.removed.contains i)
  rw [List.countP_eq_length_filter, List.countP_eq_length_filter] at hsplit
  have hperm : ((List.range s.upperBound).filter fun i => decide (¬ (!s.removed.contains i) = true)).Perm s.removed := by
    rw [List.perm_ext_iff_of_nodup (List.Nodup.sublist List.filter_sublist List.nodup_range) h.nodup]
    intro a
    simp only [List.mem_filter, List.mem_range]
    constructor
    · intro x; simpa using x.2
    · intro x; exact ⟨h.remLt a x, by simpa using x⟩
  have := hperm.length_eq
  simp only [List.length_range] at hsplit
  omega

theorem get_set (els : Array (Option Int)) (i j : Nat) (v : Option Int) (hi : i < els.size) :
    (els.setIfInBounds i v)[j]?.join = if j = i then v else els[j]?.join := by
  rw [Array.getElem?_setIfInBounds]
  by_cases h : j = i
  · subst h; simp [hi]
  · have : ¬ i = j := fun e => h e.symm
    simp [h, this]

/-- `add`: never faults, hands out an id that is not live, changes nothing else -/
theorem add_spec {s : IdStorage} (h : Inv s) (w : Int) :
    ∃ s' id, s.add w = .ok (s', id) ∧ Inv s' ∧ s.get id = none ∧ s'.get id = some w ∧
      (∀ j, j ≠ id → s'.get j = s.get j) ∧ s'.len = s.len + 1 ∧ id < s'.upperBound ∧
      s.upperBound ≤ s'.upperBound ∧
      (s'.upperBound = s.upperBound ∨ (s.removed = [] ∧ s'.upperBound = s.upperBound + 1)) := by
  have hlen := removed_length_le h
  unfold IdStorage.add
  cases hr : s.removed with
  | cons id rest =>
    have hid : id < s.upperBound := h.remLt id (by rw [hr]; exact List.mem_cons_self ..)
    have hsz : id < s.elements.size := Nat.lt_of_lt_of_le hid h.ubLe
    have hnd := h.nodup
    rw [hr, List.nodup_cons] at hnd
    simp only [hsz, if_true]
    refine ⟨_, id, rfl, ?_, ?_, ?_, ?_, ?_, hid, Nat.le_refl _, Or.inl rfl⟩
    · refine ⟨by simpa using h.ubLe, hnd.2, ?_, ?_⟩
      · intro i hi; exact h.remLt i (by rw [hr]; exact List.mem_cons_of_mem _ hi)
      · intro i
        simp only [get_def, get_set _ _ _ _ hsz]
        by_cases hi : i = id
        · subst hi; simp [hid, hnd.1]
        · have := h.live i
          rw [get_def, hr] at this
          simp only [hi, if_false, this, List.mem_cons, not_or]
          tauto
    · have := (h.live id).not
      rw [hr] at this
      have h2 : ¬ (id < s.upperBound ∧ id ∉ id :: rest) := by simp
      have := this.2 h2
      simpa using this
    · simp [get_def, get_set _ _ _ _ hsz]
    · intro j hj
      simp [get_def, get_set _ _ _ _ hsz, hj]
    · simp only [IdStorage.len]
      rw [hr] at hlen
      simp only [List.length_cons] at hlen
      rw [hr]; simp only [List.length_cons]; omega
  | nil =>
    simp only
    have hsz : s.upperBound < (resizeWith s.elements (s.upperBound + 1) none).size := by
      rw [size_resizeWith]; omega
    have hres : ∀ j, j < s.upperBound → (resizeWith s.elements (s.upperBound + 1) none)[j]?.join = s.elements[j]?.join := by
      intro j hj
      by_cases hc : s.elements.size ≤ s.upperBound + 1
      · rw [getElem?_resizeWith_grow _ _ _ hc, if_pos (by have := h.ubLe; omega)]
      · rw [getElem?_resizeWith_shrink _ _ _ (by omega), if_pos (by omega)]
    have hnone : ∀ j, s.upperBound ≤ j → s.elements[j]?.join = none := by
      intro j hj
      have := (h.live j).not
      rw [get_def] at this
      have h2 : ¬ (j < s.upperBound ∧ j ∉ s.removed) := by omega
      simpa using this.2 h2
    have hres2 : ∀ j, s.upperBound < j → (resizeWith s.elements (s.upperBound + 1) none)[j]?.join = none := by
      intro j hj
      rw [Array.getElem?_eq_none (by rw [size_resizeWith]; omega)]; rfl
    refine ⟨_, s.upperBound, rfl, ?_, ?_, ?_, ?_, ?_, by simp, by simp, Or.inr ⟨by first | rfl | trivial, rfl⟩⟩
    · refine ⟨?_, by simp, by simp, ?_⟩
      · simp [size_resizeWith]
      · intro i
        simp only [get_def, get_set _ _ _ _ hsz]
        by_cases hi : i = s.upperBound
        · subst hi; simp
        · simp only [hi, if_false]
          by_cases hlt : i < s.upperBound
          · rw [hres i hlt]
            have := h.live i
            rw [get_def, hr] at this
            rw [this]; simp; omega
          · rw [hres2 i (by omega)]; simp; omega
    · rw [get_def]; exact hnone _ (Nat.le_refl _)
    · simp [get_def, get_set _ _ _ _ hsz]
    · intro j hj
      simp only [get_def, get_set _ _ _ _ hsz, hj, if_false]
      by_cases hlt : j < s.upperBound
      · exact hres j hlt
      · rw [hres2 j (by omega), hnone j (by omega)]
    · simp only [IdStorage.len, hr, List.length_nil]; omega

/-- `remove` of a live id: frees exactly that id -/
theorem remove_spec {s : IdStorage} (h : Inv s) (id : Nat) (w : Int) (hl : s.get id = some w) :
    ∃ s', s.remove id = .ok (some (s', w)) ∧ Inv s' ∧ s'.get id = none ∧
      (∀ j, j ≠ id → s'.get j = s.get j) ∧ s'.len + 1 = s.len ∧ s'.upperBound ≤ s.upperBound := by
  have hlen := removed_length_le h
  have hlive := (h.live id).1 (by rw [hl]; rfl)
  have hsz : id < s.elements.size := Nat.lt_of_lt_of_le hlive.1 h.ubLe
  have hel : s.elements[id]? = some (some w) := by
    rw [get_def] at hl
    cases he : s.elements[id]? with
    | none => rw [he] at hl; simp at hl
    | some c => rw [he] at hl; simp at hl; rw [hl]
  unfold IdStorage.remove
  rw [hel]
  simp only
  rw [if_neg (by omega)]
  by_cases htop : s.upperBound - id = 1
  · rw [if_pos htop]
    have hinv' : Inv { s with elements := s.elements.setIfInBounds id none, upperBound := s.upperBound - 1 } := by
      refine ⟨?_, h.nodup, ?_, ?_⟩
      · show s.upperBound - 1 ≤ (s.elements.setIfInBounds id none).size
        rw [Array.size_setIfInBounds]; have := h.ubLe; omega
      · intro i hi
        have := h.remLt i hi
        have : i ≠ id := fun e => hlive.2 (e ▸ hi)
        show i < s.upperBound - 1
        omega
      · intro i
        simp only [get_def, get_set _ _ _ _ hsz]
        by_cases hi : i = id
        · subst hi; simp; omega
        · have := h.live i
          rw [get_def] at this
          simp only [hi, if_false, this]
          constructor
          · intro ⟨h1, h2⟩; exact ⟨by omega, h2⟩
          · intro ⟨h1, h2⟩; exact ⟨by omega, h2⟩
    have hlen' := removed_length_le hinv'
    refine ⟨_, rfl, hinv', ?_, ?_, ?_, by simp⟩
    · simp [get_def, get_set _ _ _ _ hsz]
    · intro j hj; simp [get_def, get_set _ _ _ _ hsz, hj]
    · simp only [IdStorage.len] at hlen' ⊢; omega
  · rw [if_neg htop]
    have hnc : s.removed.contains id = false := by
      simpa using hlive.2
    rw [hnc]
    simp only [Bool.false_eq_true, if_false]
    have hinv' : Inv { s with elements := s.elements.setIfInBounds id none, removed := id :: s.removed } := by
      refine ⟨by simpa using h.ubLe, List.nodup_cons.2 ⟨hlive.2, h.nodup⟩, ?_, ?_⟩
      · intro i hi
        rcases List.mem_cons.1 hi with e | e
        · rw [e]; exact hlive.1
        · exact h.remLt i e
      · intro i
        simp only [get_def, get_set _ _ _ _ hsz]
        by_cases hi : i = id
        · subst hi; simp
        · have := h.live i
          rw [get_def] at this
          simp only [hi, if_false, this, List.mem_cons, not_or]
          tauto
    have hlen' := removed_length_le hinv'
    refine ⟨_, rfl, hinv', ?_, ?_, ?_, by simp⟩
    · simp [get_def, get_set _ _ _ _ hsz]
    · intro j hj; simp [get_def, get_set _ _ _ _ hsz, hj]
    · simp only [IdStorage.len, List.length_cons] at hlen' ⊢; omega

/-- `remove` of an id that is not live is the documented panic and changes nothing -/
theorem remove_dead {s : IdStorage} (id : Nat) (hl : s.get id = none) : s.remove id = .ok none := by
  rw [get_def] at hl
  unfold IdStorage.remove
  cases he : s.elements[id]? with
  | none => rfl
  | some c =>
    rw [he] at hl
    cases c with
    | none => rfl
    | some w => simp at hl

end Ids

/-! ### the matrix graph: invariant and the observation `getEdgeWeight` -/

def adjSize (dir : Bool) (cap : Nat) : Nat := if dir then cap * cap else tri cap

structure Inv (s : State) : Prop where
  ids : Ids.Inv s.nodes
  size : s.adj.size = adjSize s.dir s.cap
  nzOk : s.nz = true → ∀ x y, getEdgeWeight s x y ≠ some 0
  ubIx : s.nodes.upperBound ≤ s.ixMax

theorem getEdgeWeight_def (s : State) (x y : Nat) :
    getEdgeWeight s x y = if max x y ≥ s.cap then none else s.adj[linPos s.dir x y s.cap]?.join := by
  unfold getEdgeWeight edgePos
  by_cases h : max x y ≥ s.cap
  · rw [if_pos h, if_pos h]
  · rw [if_neg h, if_neg h]
    simp only
    cases s.adj[linPos s.dir x y s.cap]? <;> rfl

theorem linPos_lt (dir : Bool) {x y cap : Nat} (h : max x y < cap) :
    linPos dir x y cap < adjSize dir cap := by
  unfold linPos adjSize
  cases dir
  · simp only [Bool.false_eq_true, if_false]
    exact triPos_lt (by omega) (by omega)
  · simp only [if_true]
    exact flatPos_lt (by omega) (by omega)

theorem key_eq_iff (dir : Bool) (x y a b : Nat) :
    key dir x y = key dir a b ↔ (if dir then x = a ∧ y = b else (x = a ∧ y = b) ∨ (x = b ∧ y = a)) := by
  unfold key
  cases dir
  · simp only [Bool.false_eq_true, if_false, Prod.mk.injEq]
    omega
  · simp

theorem linPos_eq_iff (dir : Bool) {x y a b cap : Nat} (h1 : max x y < cap) (h2 : max a b < cap) :
    linPos dir x y cap = linPos dir a b cap ↔ key dir x y = key dir a b := by
  rw [key_eq_iff]
  unfold linPos
  cases dir
  · simp only [Bool.false_eq_true, if_false]
    constructor
    · intro e; exact triPos_inj e
    · rintro (⟨rfl, rfl⟩ | ⟨rfl, rfl⟩)
      · rfl
      · exact triPos_comm _ _
  · simp only [if_true]
    constructor
    · intro e; exact flatPos_inj (by omega) (by omega) e
    · rintro ⟨rfl, rfl⟩; rfl

/-- writing one cell changes exactly the edge with that key -/
theorem getEdgeWeight_setCell {s : State} (h : Inv s) {a b : Nat} (hab : max a b < s.cap) (c : Cell)
    (x y : Nat) :
    getEdgeWeight { s with adj := s.adj.setIfInBounds (linPos s.dir a b s.cap) c } x y =
      if key s.dir x y = key s.dir a b then c else getEdgeWeight s x y := by
  rw [getEdgeWeight_def, getEdgeWeight_def]
  simp only
  by_cases hxy : max x y ≥ s.cap
  · rw [if_pos hxy, if_pos hxy]
    have : ¬ key s.dir x y = key s.dir a b := by
      rw [key_eq_iff]; cases s.dir <;> simp <;> omega
    rw [if_neg this]
  · rw [if_neg hxy, if_neg hxy]
    have hlt := linPos_lt s.dir hab
    rw [← h.size] at hlt
    rw [Array.getElem?_setIfInBounds]
    by_cases hk : key s.dir x y = key s.dir a b
    · rw [if_pos hk, if_pos ((linPos_eq_iff s.dir hab (by omega)).2 hk.symm), if_pos hlt]; rfl
    · rw [if_neg hk, if_neg (fun e => hk ((linPos_eq_iff s.dir hab (by omega)).1 e).symm)]

theorem tri_le_triPos (x y : Nat) : tri (max x y) ≤ triPos x y := by
  rw [triPos_eq]
  split
  · rw [Nat.max_eq_left (by omega)]; omega
  · rw [Nat.max_eq_right (by omega)]; omega

/-- **growing never loses, moves or invents an edge**, in terms of positions: after
`extend_linearized_matrix` the cell of every pair below the new capacity is the old cell of that pair
if the pair was below the old capacity, and null otherwise — both layouts, every `old < want`. -/
theorem extendLin_spec (dir : Bool) (a : Array Cell) (old want : Nat) (exact : Bool)
    (hsz : a.size = adjSize dir old) (hw : old < want) :
    ∃ g new, extendLin dir none a old want exact = .ok (g, new) ∧ want ≤ new ∧ g.size = adjSize dir new ∧
      (∀ x y, max x y < new →
        g[linPos dir x y new]?.join = if max x y < old then a[linPos dir x y old]?.join else none) := by
  unfold extendLin
  rw [if_neg (by omega)]
  cases dir
  · -- lower triangular: no relocation
    simp only [Bool.false_eq_true, if_false, extendTri]
    have hd : triPos (want - 1) (want - 1) + 1 = tri want := by
      have := triPos_diag (want - 1)
      rw [show want - 1 + 1 = want by omega] at this; exact this
    simp only [adjSize, Bool.false_eq_true, if_false] at hsz ⊢
    refine ⟨_, _, rfl, Nat.le_refl _, by rw [size_resizeWith, hd], ?_⟩
    intro x y hxy
    have hmono : tri old ≤ tri want := tri_mono (by omega)
    simp only [linPos, Bool.false_eq_true, if_false]
    rw [hd, getElem?_resizeWith_grow _ _ _ (by omega), hsz]
    by_cases ho : max x y < old
    · rw [if_pos ho, if_pos (triPos_lt (by omega) (by omega))]
    · rw [if_neg ho]
      have h1 := tri_le_triPos x y
      have h2 : tri old ≤ tri (max x y) := tri_mono (by omega)
      have h3 : triPos x y < tri want := triPos_lt (by omega) (by omega)
      rw [if_neg (by omega), if_pos h3]; rfl
  · simp only [if_true]
    simp only [adjSize, if_true] at hsz ⊢
    obtain ⟨g, eg, _, hwn, sg, hin, hout⟩ := extendFlat_spec (none : Cell) a old want exact hw hsz
    refine ⟨g, _, eg, hwn, sg, ?_⟩
    intro x y hxy
    simp only [linPos, if_true, flatPos]
    by_cases ho : max x y < old
    · rw [if_pos ho]
      exact congrArg _ (hin x y (by omega) (by omega))
    · rw [if_neg ho]
      have hp := flatPos_lt (r := x) (c := y) (w := if exact = true then want else growCap want) (by omega) (by omega)
      have hdm := div_mod_of_form (r := x) (j := y) (w := if exact = true then want else growCap want) (by omega)
      unfold flatPos at hp
      rw [hout _ hp (by rw [hdm.1, hdm.2]; omega)]; rfl

/-- `extend_capacity_for_edge` is invisible: it never faults, makes room for the pair, keeps the
invariant and every observation -/
theorem extendForEdge_spec {s : State} (h : Inv s) (a b : Nat) :
    ∃ s1, extendForEdge s a b = .ok s1 ∧ Inv s1 ∧ max a b < s1.cap ∧ s.cap ≤ s1.cap ∧
      (∀ x y, getEdgeWeight s1 x y = getEdgeWeight s x y) ∧
      s1.nodes = s.nodes ∧ s1.nbEdges = s.nbEdges ∧ s1.dir = s.dir ∧ s1.nz = s.nz ∧ s1.ixMax = s.ixMax := by
  unfold extendForEdge
  simp only
  by_cases hm : max a b ≥ s.cap
  · rw [if_pos hm]
    obtain ⟨g, new, eg, hwn, sg, hcell⟩ := extendLin_spec s.dir s.adj s.cap (max a b + 1) false h.size (by omega)
    rw [eg]
    have hobs : ∀ x y, getEdgeWeight { s with adj := g, cap := new } x y = getEdgeWeight s x y := by
      intro x y
      rw [getEdgeWeight_def, getEdgeWeight_def]
      simp only
      by_cases hx : max x y ≥ new
      · rw [if_pos hx, if_pos (by omega)]
      · rw [if_neg hx, hcell x y (by omega)]
        by_cases ho : max x y < s.cap
        · rw [if_pos ho, if_neg (by omega)]
        · rw [if_neg ho, if_pos (by omega)]
    refine ⟨_, rfl, ⟨h.ids, sg, ?_, h.ubIx⟩, by simp only; omega, by simp only; omega, hobs, rfl, rfl, rfl, rfl, rfl⟩
    intro hnz x y
    rw [hobs]; exact h.nzOk hnz x y
  · rw [if_neg hm]
    exact ⟨s, rfl, h, by omega, Nat.le_refl _, fun _ _ => rfl, rfl, rfl, rfl, rfl, rfl⟩



/-! ### the simple-graph specification: lookups after each operation -/

theorem find?_congr' {α : Type} {p q : α → Bool} : ∀ {l : List α}, (∀ x ∈ l, p x = q x) → l.find? p = l.find? q
  | [], _ => rfl
  | a :: l, h => by
    rw [List.find?_cons, List.find?_cons, h a (List.mem_cons_self ..),
      find?_congr' (fun x hx => h x (List.mem_cons_of_mem _ hx))]

namespace Spec
open G

theorem live_iff (g : G) (x : Nat) : g.live x = (g.nodeWeight x).isSome := by
  unfold G.live G.nodeWeight
  rw [Option.isSome_map, Bool.eq_iff_iff, List.find?_isSome, List.any_eq_true]

theorem weight_setEdge (g : G) (a b : Nat) (w : Int) (x y : Nat) :
    (g.setEdge a b w).weight x y = if key g.directed x y = key g.directed a b then some w else g.weight x y := by
  unfold G.setEdge G.weight
  simp only
  by_cases hk : key g.directed x y = key g.directed a b
  · rw [if_pos hk, List.find?_cons_of_pos (by simp [hk])]; rfl
  · rw [if_neg hk, List.find?_cons_of_neg (by simpa using fun e => hk e.symm), List.find?_filter]
    congr 1
    apply find?_congr'
    intro e _
    by_cases he : e.1 = key g.directed x y
    · simp [he, hk]
    · simp [he]

theorem weight_removeEdge (g : G) (a b : Nat) (x y : Nat) :
    (g.removeEdge a b).weight x y = if key g.directed x y = key g.directed a b then none else g.weight x y := by
  unfold G.removeEdge G.weight
  simp only
  rw [List.find?_filter]
  by_cases hk : key g.directed x y = key g.directed a b
  · rw [if_pos hk]
    have : g.edges.find? (fun e => decide ((e.1 != key g.directed a b) = true ∧ (e.1 == key g.directed x y) = true)) = none := by
      rw [List.find?_eq_none]
      intro e _
      by_cases he : e.1 = key g.directed x y
      · simp [he, hk]
      · simp [he]
    rw [this]; rfl
  · rw [if_neg hk]
    congr 1
    apply find?_congr'
    intro e _
    by_cases he : e.1 = key g.directed x y
    · simp [he, hk]
    · simp [he]

/-- the two components of a key are the two endpoints -/
theorem key_fst_snd (dir : Bool) (x y a : Nat) :
    ((key dir x y).1 ≠ a ∧ (key dir x y).2 ≠ a) ↔ (x ≠ a ∧ y ≠ a) := by
  unfold key
  cases dir
  · simp only [Bool.false_eq_true, if_false]; omega
  · simp

theorem weight_removeNode (g : G) (a : Nat) (x y : Nat) :
    (g.removeNode a).weight x y = if x = a ∨ y = a then none else g.weight x y := by
  unfold G.removeNode G.weight
  simp only
  rw [List.find?_filter]
  by_cases hk : x = a ∨ y = a
  · rw [if_pos hk]
    have : g.edges.find? (fun e => decide ((e.1.1 != a && e.1.2 != a) = true ∧ (e.1 == key g.directed x y) = true)) = none := by
      rw [List.find?_eq_none]
      intro e _
      by_cases he : e.1 = key g.directed x y
      · have := (key_fst_snd g.directed x y a).not.2 (by tauto)
        rw [← he] at this
        simp [he]
        rw [← he]; tauto
      · simp [he]
    rw [this]; rfl
  · rw [if_neg hk]
    congr 1
    apply find?_congr'
    intro e _
    by_cases he : e.1 = key g.directed x y
    · have := (key_fst_snd g.directed x y a).2 (by tauto)
      rw [← he] at this
      simp [he]
      rw [← he]; exact this
    · simp [he]

theorem nodeWeight_addNode (g : G) (id : Nat) (w : Int) (h : g.nodeWeight id = none) (x : Nat) :
    (g.addNode id w).nodeWeight x = if x = id then some w else g.nodeWeight x := by
  unfold G.addNode G.nodeWeight at *
  simp only [List.find?_append]
  by_cases hx : x = id
  · subst hx
    rw [if_pos rfl]
    rw [Option.map_eq_none_iff] at h
    rw [h]; simp
  · rw [if_neg hx]
    have : [(id, w)].find? (fun p => p.1 == x) = none := by
      simp; exact fun e => hx e.symm
    rw [this]; simp

theorem nodeWeight_removeNode (g : G) (a : Nat) (x : Nat) :
    (g.removeNode a).nodeWeight x = if x = a then none else g.nodeWeight x := by
  unfold G.removeNode G.nodeWeight
  simp only
  rw [List.find?_filter]
  by_cases hx : x = a
  · subst hx
    rw [if_pos rfl]
    have : g.nodes.find? (fun p => decide ((p.1 != x) = true ∧ (p.1 == x) = true)) = none := by
      rw [List.find?_eq_none]; intro e _; simp
    rw [this]; rfl
  · rw [if_neg hx]
    congr 1
    apply find?_congr'
    intro e _
    by_cases he : e.1 = x
    · simp [he, hx]
    · simp [he]

theorem nodeWeight_setNodeWeight (g : G) (a : Nat) (w : Int) (x : Nat) :
    (g.setNodeWeight a w).nodeWeight x = if x = a then (g.nodeWeight a).map (fun _ => w) else g.nodeWeight x := by
  unfold G.setNodeWeight G.nodeWeight
  simp only
  rw [List.find?_map]
  have hp : (fun p : Nat × Int => p.1 == x) ∘ (fun p => if (p.1 == a) = true then (a, w) else p)
      = fun p => p.1 == x := by
    funext p
    simp only [Function.comp]
    by_cases h : p.1 = a
    · simp [h]
    · simp [h]
  rw [hp]
  by_cases hx : x = a
  · subst hx
    rw [if_pos rfl]
    cases hf : g.nodes.find? (fun p => p.1 == x) with
    | none => rfl
    | some e =>
      have := List.find?_some hf
      simp at this
      simp [this]
  · rw [if_neg hx]
    cases hf : g.nodes.find? (fun p => p.1 == x) with
    | none => rfl
    | some e =>
      have := List.find?_some hf
      simp at this
      have : ¬ e.1 = a := by rw [this]; exact hx
      simp [this]

/-! well-formedness and edge counts -/

theorem key_idem (dir : Bool) (a b : Nat) :
    key dir (key dir a b).1 (key dir a b).2 = key dir a b := by
  unfold key
  cases dir
  · simp only [Bool.false_eq_true, if_false, Prod.mk.injEq]; omega
  · simp

theorem key_endpoints (dir : Bool) (a b : Nat) :
    ((key dir a b).1 = a ∧ (key dir a b).2 = b) ∨ ((key dir a b).1 = b ∧ (key dir a b).2 = a) := by
  unfold key
  cases dir
  · simp only [Bool.false_eq_true, if_false]; omega
  · simp

theorem length_filter_ne_key :
    ∀ (l : List ((Nat × Nat) × Int)) (k : Nat × Nat), (l.map (·.1)).Nodup →
      (l.filter (fun e => e.1 != k)).length + (if (l.find? (fun e => e.1 == k)).isSome then 1 else 0) = l.length
  | [], _, _ => rfl
  | e :: l, k, h => by
    rw [List.map_cons, List.nodup_cons] at h
    have ih := length_filter_ne_key l k h.2
    by_cases he : e.1 = k
    · have hnone : l.find? (fun e => e.1 == k) = none := by
        rw [List.find?_eq_none]
        intro x hx hxk
        apply h.1
        rw [he]
        simp at hxk
        rw [← hxk]
        exact List.mem_map_of_mem hx
      rw [hnone] at ih
      rw [List.find?_cons_of_pos (by simp [he]), List.filter_cons_of_neg (by simp [he])]
      simp at ih ⊢
      omega
    · rw [List.find?_cons_of_neg (by simp [he]), List.filter_cons_of_pos (by simp [he])]
      simp only [List.length_cons]
      omega

theorem edgeCount_setEdge (g : G) (hwf : g.WF) (a b : Nat) (w : Int) :
    (g.setEdge a b w).edgeCount = g.edgeCount + (if (g.weight a b).isSome then 0 else 1) := by
  have := length_filter_ne_key g.edges (key g.directed a b) hwf.2.1
  unfold G.setEdge G.edgeCount G.weight
  simp only [List.length_cons, Option.isSome_map]
  by_cases h : (g.edges.find? (fun e => e.1 == key g.directed a b)).isSome = true
  · rw [if_pos h] at this ⊢; omega
  · rw [if_neg h] at this ⊢; omega

theorem edgeCount_removeEdge (g : G) (hwf : g.WF) (a b : Nat) :
    (g.removeEdge a b).edgeCount + (if (g.weight a b).isSome then 1 else 0) = g.edgeCount := by
  have := length_filter_ne_key g.edges (key g.directed a b) hwf.2.1
  unfold G.removeEdge G.edgeCount G.weight
  simp only [Option.isSome_map]
  exact this

theorem wf_empty (dir : Bool) : (G.empty dir).WF := by
  unfold G.WF G.empty; simp

theorem wf_clear (g : G) : g.clear.WF := by
  unfold G.WF G.clear; simp

theorem live_addNode (g : G) (id : Nat) (w : Int) (x : Nat) :
    (g.addNode id w).live x = (g.live x || id == x) := by
  unfold G.addNode G.live
  simp [List.any_append]

theorem wf_addNode (g : G) (hwf : g.WF) (id : Nat) (w : Int) (h : g.nodeWeight id = none) :
    (g.addNode id w).WF := by
  obtain ⟨h1, h2, h3⟩ := hwf
  have hl : g.live id = false := by rw [live_iff, h]; rfl
  refine ⟨?_, h2, ?_⟩
  · show ((g.nodes ++ [(id, w)]).map (·.1)).Nodup
    rw [List.map_append, List.nodup_append]
    refine ⟨h1, by simp, ?_⟩
    intro x hx y hy
    simp at hy
    subst hy
    intro e
    subst e
    have : g.live x = true := by
      unfold G.live
      rw [List.any_eq_true]
      obtain ⟨p, hp, e⟩ := List.mem_map.1 hx
      exact ⟨p, hp, by simp [e]⟩
    rw [hl] at this; contradiction
  · intro e he
    obtain ⟨l1, l2, k⟩ := h3 e he
    refine ⟨by rw [live_addNode, l1]; rfl, by rw [live_addNode, l2]; rfl, k⟩

theorem live_removeNode (g : G) (a x : Nat) : (g.removeNode a).live x = (g.live x && x != a) := by
  unfold G.removeNode G.live
  simp only [List.any_filter]
  rw [Bool.eq_iff_iff]
  simp only [List.any_eq_true, Bool.and_eq_true]
  constructor
  · rintro ⟨p, hp, h1, h2⟩
    simp at h1 h2
    exact ⟨⟨p, hp, by simp [h2]⟩, by simp; rw [← h2]; exact h1⟩
  · rintro ⟨⟨p, hp, h1⟩, h2⟩
    simp at h1 h2
    exact ⟨p, hp, by simp; rw [h1]; exact h2, by simp [h1]⟩

theorem wf_removeNode (g : G) (hwf : g.WF) (a : Nat) : (g.removeNode a).WF := by
  obtain ⟨h1, h2, h3⟩ := hwf
  refine ⟨?_, ?_, ?_⟩
  · exact List.Nodup.sublist (List.Sublist.map _ List.filter_sublist) h1
  · exact List.Nodup.sublist (List.Sublist.map _ List.filter_sublist) h2
  · intro e he
    have he' := List.mem_filter.1 he
    obtain ⟨l1, l2, k⟩ := h3 e he'.1
    have hne := he'.2
    simp at hne
    refine ⟨by rw [live_removeNode, l1]; simp [hne.1], by rw [live_removeNode, l2]; simp [hne.2], k⟩

theorem live_setNodeWeight (g : G) (a : Nat) (w : Int) (x : Nat) : (g.setNodeWeight a w).live x = g.live x := by
  rw [live_iff, live_iff, nodeWeight_setNodeWeight]
  by_cases hx : x = a
  · subst hx; simp
  · simp [hx]

theorem wf_setNodeWeight (g : G) (hwf : g.WF) (a : Nat) (w : Int) : (g.setNodeWeight a w).WF := by
  obtain ⟨h1, h2, h3⟩ := hwf
  refine ⟨?_, h2, ?_⟩
  · have : (g.setNodeWeight a w).nodes.map (·.1) = g.nodes.map (·.1) := by
      unfold G.setNodeWeight
      simp only [List.map_map]
      apply List.map_congr_left
      intro p _
      simp only [Function.comp]
      by_cases h : p.1 = a
      · simp [h]
      · simp [h]
    rw [this]; exact h1
  · intro e he
    obtain ⟨l1, l2, k⟩ := h3 e he
    exact ⟨by rw [live_setNodeWeight]; exact l1, by rw [live_setNodeWeight]; exact l2, k⟩

theorem wf_removeEdge (g : G) (hwf : g.WF) (a b : Nat) : (g.removeEdge a b).WF := by
  obtain ⟨h1, h2, h3⟩ := hwf
  refine ⟨h1, List.Nodup.sublist (List.Sublist.map _ List.filter_sublist) h2, ?_⟩
  intro e he
  exact h3 e (List.mem_filter.1 he).1

theorem wf_setEdge (g : G) (hwf : g.WF) (a b : Nat) (w : Int) (ha : g.live a = true) (hb : g.live b = true) :
    (g.setEdge a b w).WF := by
  obtain ⟨h1, h2, h3⟩ := hwf
  refine ⟨h1, ?_, ?_⟩
  · show (((key g.directed a b, w) :: g.edges.filter (fun e => e.1 != key g.directed a b)).map (·.1)).Nodup
    rw [List.map_cons, List.nodup_cons]
    refine ⟨?_, List.Nodup.sublist (List.Sublist.map _ List.filter_sublist) h2⟩
    intro hm
    obtain ⟨e, he, ek⟩ := List.mem_map.1 hm
    have := (List.mem_filter.1 he).2
    simp at this
    exact this ek
  · intro e he
    rcases List.mem_cons.1 he with e1 | e2
    · subst e1
      simp only
      rcases key_endpoints g.directed a b with ⟨p, q⟩ | ⟨p, q⟩
      · exact ⟨by rw [p]; exact ha, by rw [q]; exact hb, (key_idem _ _ _).symm⟩
      · exact ⟨by rw [p]; exact hb, by rw [q]; exact ha, (key_idem _ _ _).symm⟩
    · exact h3 e (List.mem_filter.1 e2).1

end Spec

/-! ### refinement: the matrix graph *is* the simple graph -/

/-- the abstraction relation between a matrix-graph state and a simple graph: same node weights,
same edge weights for **every** pair of ids (so: no edge at a pair that is not an edge of the
simple graph, in particular none touching an id that is not live), `edge_count` = number of edges -/
structure R (s : State) (g : G) : Prop where
  dir : g.directed = s.dir
  wf : g.WF
  nodes : ∀ x, g.nodeWeight x = s.nodes.get x
  edges : ∀ x y, g.weight x y = getEdgeWeight s x y
  count : g.edgeCount = s.nbEdges
  ncount : g.nodeCount = s.nodes.len

theorem cell_in_bounds {s : State} (h : Inv s) {a b : Nat} (hab : max a b < s.cap) :
    ∃ c, s.adj[linPos s.dir a b s.cap]? = some c ∧ getEdgeWeight s a b = c := by
  have hlt := linPos_lt s.dir hab
  rw [← h.size] at hlt
  refine ⟨s.adj[linPos s.dir a b s.cap], Array.getElem?_eq_getElem hlt, ?_⟩
  rw [getEdgeWeight_def, if_neg (by omega), Array.getElem?_eq_getElem hlt]; rfl

/-- writing a weight into the cell of a pair of live nodes = `setEdge` -/
theorem R_setCell {s : State} {g : G} (h : Inv s) (r : R s g) {a b : Nat} (hab : max a b < s.cap)
    (ha : g.live a = true) (hb : g.live b = true) (w : Int) (hw : s.nz = true → w ≠ 0) :
    let s' : State := { s with adj := s.adj.setIfInBounds (linPos s.dir a b s.cap) (some w),
                               nbEdges := if (getEdgeWeight s a b).isNone then s.nbEdges + 1 else s.nbEdges }
    Inv s' ∧ R s' (g.setEdge a b w) := by
  intro s'
  have hobs : ∀ x y, getEdgeWeight s' x y = if key s.dir x y = key s.dir a b then some w else getEdgeWeight s x y :=
    fun x y => getEdgeWeight_setCell h hab (some w) x y
  refine ⟨⟨h.ids, by show (s.adj.setIfInBounds _ _).size = _; rw [Array.size_setIfInBounds]; exact h.size, ?_, h.ubIx⟩, ?_⟩
  · intro hnz x y
    rw [hobs]
    split
    · intro e; exact hw hnz (by simpa using e)
    · exact h.nzOk hnz x y
  · refine ⟨r.dir, Spec.wf_setEdge g r.wf a b w ha hb, r.nodes, ?_, ?_, r.ncount⟩
    · intro x y
      rw [Spec.weight_setEdge, hobs, r.dir, r.edges]
    · rw [Spec.edgeCount_setEdge g r.wf, r.edges, r.count]
      show _ = if (getEdgeWeight s a b).isNone then s.nbEdges + 1 else s.nbEdges
      cases getEdgeWeight s a b <;> simp

/-- clearing the cell of a pair = `removeEdge` (whether or not there was an edge) -/
theorem R_clearCell {s : State} {g : G} (h : Inv s) (r : R s g) {a b : Nat} (hab : max a b < s.cap) :
    let s' : State := { s with adj := s.adj.setIfInBounds (linPos s.dir a b s.cap) none,
                               nbEdges := if (getEdgeWeight s a b).isSome then s.nbEdges - 1 else s.nbEdges }
    Inv s' ∧ R s' (g.removeEdge a b) ∧ ((getEdgeWeight s a b).isSome → 0 < s.nbEdges) := by
  intro s'
  have hobs : ∀ x y, getEdgeWeight s' x y = if key s.dir x y = key s.dir a b then none else getEdgeWeight s x y :=
    fun x y => getEdgeWeight_setCell h hab none x y
  have hcount := Spec.edgeCount_removeEdge g r.wf a b
  rw [r.edges, r.count] at hcount
  refine ⟨⟨h.ids, by show (s.adj.setIfInBounds _ _).size = _; rw [Array.size_setIfInBounds]; exact h.size, ?_, h.ubIx⟩, ?_, ?_⟩
  · intro hnz x y
    rw [hobs]
    split
    · simp
    · exact h.nzOk hnz x y
  · refine ⟨r.dir, Spec.wf_removeEdge g r.wf a b, r.nodes, ?_, ?_, r.ncount⟩
    · intro x y
      rw [Spec.weight_removeEdge, hobs, r.dir, r.edges]
    · show _ = if (getEdgeWeight s a b).isSome then s.nbEdges - 1 else s.nbEdges
      by_cases hc : (getEdgeWeight s a b).isSome = true
      · rw [if_pos hc] at hcount ⊢; omega
      · rw [if_neg hc] at hcount ⊢; omega
  · intro hs
    rw [if_pos hs] at hcount; omega

/-- removing an edge that is not there changes nothing the relation can see -/
theorem R_removeEdge_absent {s : State} {g : G} (r : R s g) {a b : Nat} (hn : g.weight a b = none) :
    R s (g.removeEdge a b) := by
  have hcount := Spec.edgeCount_removeEdge g r.wf a b
  rw [hn] at hcount
  refine ⟨r.dir, Spec.wf_removeEdge g r.wf a b, r.nodes, ?_, by rw [← r.count]; simpa using hcount, r.ncount⟩
  intro x y
  rw [Spec.weight_removeEdge, ← r.edges]
  split
  · rename_i hk
    unfold G.weight at hn ⊢
    rw [hk]; exact hn.symm
  · rfl

theorem R_of_obs {s s1 : State} {g : G} (r : R s g) (hd : s1.dir = s.dir) (hn : s1.nodes = s.nodes)
    (hc : s1.nbEdges = s.nbEdges) (ho : ∀ x y, getEdgeWeight s1 x y = getEdgeWeight s x y) : R s1 g :=
  ⟨by rw [hd]; exact r.dir, r.wf, by rw [hn]; exact r.nodes, fun x y => by rw [ho]; exact r.edges x y,
    by rw [hc]; exact r.count, by rw [hn]; exact r.ncount⟩

theorem live_eq {s : State} {g : G} (r : R s g) (x : Nat) : g.live x = (s.nodes.get x).isSome := by
  rw [Spec.live_iff, r.nodes]

/-- an id that is not live has no incident edge -/
theorem weight_none_of_dead {g : G} (hwf : g.WF) {a : Nat} (ha : g.live a = false) (x : Nat) :
    g.weight a x = none ∧ g.weight x a = none := by
  have key : ∀ u v, (u = a ∨ v = a) → g.weight u v = none := by
    intro u v huv
    unfold G.weight
    rw [Option.map_eq_none_iff, List.find?_eq_none]
    intro e he hk
    have hk' : e.1 = MatrixSpec.key g.directed u v := by simpa using hk
    obtain ⟨l1, l2, _⟩ := hwf.2.2 e he
    rw [hk'] at l1 l2
    have hu : g.live u = true ∧ g.live v = true := by
      rcases Spec.key_endpoints g.directed u v with ⟨p, q⟩ | ⟨p, q⟩
      · rw [p] at l1; rw [q] at l2; exact ⟨l1, l2⟩
      · rw [p] at l1; rw [q] at l2; exact ⟨l2, l1⟩
    rcases huv with e1 | e1
    · rw [e1, ha] at hu; exact Bool.false_ne_true hu.1
    · rw [e1, ha] at hu; exact Bool.false_ne_true hu.2
  exact ⟨key a x (Or.inl rfl), key x a (Or.inr rfl)⟩

theorem len_le_ixMax {s : State} (h : Inv s) : s.nodes.len ≤ s.ixMax := by
  have := h.ubIx
  unfold IdStorage.len; omega

/-- `try_add_node` -/
theorem tryAddNode_spec {s : State} {g : G} (h : Inv s) (r : R s g) (w : Int) :
    (g.nodeCount = s.ixMax → tryAddNode s w = (s, .resErr .nodeIxLimit)) ∧
    (g.nodeCount ≠ s.ixMax → ∃ s' id, tryAddNode s w = (s', .resIdOk id) ∧ g.live id = false ∧
      Inv s' ∧ R s' (g.addNode id w)) := by
  have hle := len_le_ixMax h
  have hmod : s.nodes.len % (s.ixMax + 1) = s.nodes.len := Nat.mod_eq_of_lt (by omega)
  unfold tryAddNode
  rw [hmod, ← r.ncount]
  constructor
  · intro hlim; rw [if_pos hlim]
  · intro hlim
    rw [if_neg hlim]
    obtain ⟨n, id, e, hinv, hdead, hnew, hframe, hlen, hidlt, hmono, hub⟩ := Ids.add_spec h.ids w
    rw [e]
    simp only
    have hub' : n.upperBound ≤ s.ixMax := by
      rcases hub with hu | ⟨hr, hu⟩
      · rw [hu]; exact h.ubIx
      · have : s.nodes.len = s.nodes.upperBound := by unfold IdStorage.len; rw [hr]; rfl
        rw [r.ncount] at hlim
        omega
    have hidmod : id % (s.ixMax + 1) = id := Nat.mod_eq_of_lt (by omega)
    rw [hidmod]
    have hgdead : g.nodeWeight id = none := by rw [r.nodes, hdead]
    refine ⟨_, id, rfl, by rw [Spec.live_iff, hgdead]; rfl, ⟨hinv, h.size, h.nzOk, hub'⟩, ?_⟩
    refine ⟨r.dir, Spec.wf_addNode g r.wf id w hgdead, ?_, r.edges, r.count, ?_⟩
    · intro x
      rw [Spec.nodeWeight_addNode g id w hgdead]
      by_cases hx : x = id
      · subst hx; rw [if_pos rfl]; exact hnew.symm
      · rw [if_neg hx, r.nodes]; exact (hframe x hx).symm
    · show (g.nodes ++ [(id, w)]).length = n.len
      rw [hlen, ← r.ncount]; simp [G.nodeCount]

/-- `add_node` -/
theorem addNode_spec {s : State} {g : G} (h : Inv s) (r : R s g) (w : Int) :
    (g.nodeCount = s.ixMax → addNode s w = (s, .panic)) ∧
    (g.nodeCount ≠ s.ixMax → ∃ s' id, addNode s w = (s', .id id) ∧ g.live id = false ∧
      Inv s' ∧ R s' (g.addNode id w)) := by
  obtain ⟨h1, h2⟩ := tryAddNode_spec h r w
  unfold addNode
  constructor
  · intro hl; rw [h1 hl]
  · intro hl
    obtain ⟨s', id, e, rest⟩ := h2 hl
    rw [e]; exact ⟨s', id, rfl, rest⟩

/-- a fresh or reused id starts with no incident edges -/
theorem fresh_id_isolated {s' : State} {g : G} {id : Nat} {w : Int} (hwf : g.WF) (hd : g.live id = false)
    (r : R s' (g.addNode id w)) (x : Nat) :
    getEdgeWeight s' id x = none ∧ getEdgeWeight s' x id = none := by
  have := weight_none_of_dead hwf hd x
  rw [← r.edges, ← r.edges]
  exact this

/-- `update_edge` between live nodes -/
theorem updateEdge_spec {s : State} {g : G} (h : Inv s) (r : R s g) {a b : Nat}
    (ha : g.live a = true) (hb : g.live b = true) (w : Int) :
    ((s.nz = true ∧ w = 0) → ∃ s1, updateEdge s a b w = (s1, .panic) ∧ Inv s1 ∧ R s1 g) ∧
    (¬ (s.nz = true ∧ w = 0) → ∃ s', updateEdge s a b w = (s', .optW (g.weight a b)) ∧ Inv s' ∧
      R s' (g.setEdge a b w)) := by
  obtain ⟨s1, e1, hinv1, hab, _, hobs, hn, hc, hd, hnz, _⟩ := extendForEdge_spec h a b
  have r1 : R s1 g := R_of_obs r hd hn hc hobs
  obtain ⟨c, hcell, hcw⟩ := cell_in_bounds hinv1 hab
  unfold updateEdge
  rw [e1]
  simp only [hcell]
  constructor
  · intro ⟨h1, h2⟩
    have : mkCell s1.nz w = none := by unfold mkCell; rw [hnz, h1, h2]; rfl
    rw [this]
    exact ⟨s1, rfl, hinv1, r1⟩
  · intro hz
    have hmk : mkCell s1.nz w = some (some w) := by
      unfold mkCell
      rw [hnz]
      by_cases h1 : s.nz = true
      · have : w ≠ 0 := fun e => hz ⟨h1, e⟩
        simp [h1, this]
      · simp [h1]
    rw [hmk]
    have hw : s1.nz = true → w ≠ 0 := by
      intro h1 e; rw [hnz] at h1; exact hz ⟨h1, e⟩
    have := R_setCell hinv1 r1 hab ha hb w hw
    simp only at this
    rw [hcw] at this
    refine ⟨_, ?_, this.1, this.2⟩
    rw [r.edges, ← hobs, hcw]

/-- `try_update_edge` between live nodes never reports `NodeMissed` -/
theorem assertNodeBounds_live {s : State} {g : G} (r : R s g) {a b : Nat}
    (ha : g.live a = true) (hb : g.live b = true) : assertNodeBounds s a b = none := by
  have h1 : nodeMissing s a = false := by
    unfold nodeMissing
    rw [live_eq r] at ha
    cases hg : s.nodes.get a with
    | none => rw [hg] at ha; simp at ha
    | some v => simp
  have h2 : nodeMissing s b = false := by
    unfold nodeMissing
    rw [live_eq r] at hb
    cases hg : s.nodes.get b with
    | none => rw [hg] at hb; simp at hb
    | some v => simp
  unfold assertNodeBounds
  simp [h1, h2]

theorem tryUpdateEdge_spec {s : State} {g : G} (h : Inv s) (r : R s g) {a b : Nat}
    (ha : g.live a = true) (hb : g.live b = true) (w : Int) :
    ((s.nz = true ∧ w = 0) → ∃ s1, tryUpdateEdge s a b w = (s1, .panic) ∧ Inv s1 ∧ R s1 g) ∧
    (¬ (s.nz = true ∧ w = 0) → ∃ s', tryUpdateEdge s a b w = (s', .resOk (g.weight a b)) ∧ Inv s' ∧
      R s' (g.setEdge a b w)) := by
  obtain ⟨u1, u2⟩ := updateEdge_spec h r ha hb w
  unfold tryUpdateEdge
  rw [assertNodeBounds_live r ha hb]
  constructor
  · intro hz; obtain ⟨s1, e, rest⟩ := u1 hz; rw [e]; exact ⟨s1, rfl, rest⟩
  · intro hz; obtain ⟨s1, e, rest⟩ := u2 hz; rw [e]; exact ⟨s1, rfl, rest⟩

theorem addOrUpdateEdge_spec {s : State} {g : G} (h : Inv s) (r : R s g) {a b : Nat}
    (ha : g.live a = true) (hb : g.live b = true) (w : Int) :
    ((s.nz = true ∧ w = 0) → ∃ s1, addOrUpdateEdge s a b w = (s1, .panic) ∧ Inv s1 ∧ R s1 g) ∧
    (¬ (s.nz = true ∧ w = 0) → ∃ s', addOrUpdateEdge s a b w = (s', .resOk (g.weight a b)) ∧ Inv s' ∧
      R s' (g.setEdge a b w)) := by
  obtain ⟨s1, e1, hinv1, hab, _, hobs, hn, hc, hd, hnz, _⟩ := extendForEdge_spec h a b
  have r1 : R s1 g := R_of_obs r hd hn hc hobs
  unfold addOrUpdateEdge
  rw [e1]
  simp only
  have := tryUpdateEdge_spec hinv1 r1 ha hb w
  rw [hnz] at this
  exact this

/-- `add_edge` between live nodes: the documented panic on an existing edge happens *after* the
weight was replaced -/
theorem addEdge_spec {s : State} {g : G} (h : Inv s) (r : R s g) {a b : Nat}
    (ha : g.live a = true) (hb : g.live b = true) (w : Int) :
    ((s.nz = true ∧ w = 0) → ∃ s1, addEdge s a b w = (s1, .panic) ∧ Inv s1 ∧ R s1 g) ∧
    (¬ (s.nz = true ∧ w = 0) → ∃ s', addEdge s a b w = (s', if (g.weight a b).isSome then .panic else .unit) ∧
      Inv s' ∧ R s' (g.setEdge a b w)) := by
  obtain ⟨u1, u2⟩ := updateEdge_spec h r ha hb w
  unfold addEdge
  constructor
  · intro hz; obtain ⟨s1, e, rest⟩ := u1 hz; rw [e]; exact ⟨s1, rfl, rest⟩
  · intro hz
    obtain ⟨s1, e, rest⟩ := u2 hz
    rw [e]
    cases g.weight a b <;> exact ⟨s1, rfl, rest⟩

theorem buildUpdateEdge_spec {s : State} {g : G} (h : Inv s) (r : R s g) {a b : Nat}
    (ha : g.live a = true) (hb : g.live b = true) (w : Int) :
    ((s.nz = true ∧ w = 0) → ∃ s1, buildUpdateEdge s a b w = (s1, .panic) ∧ Inv s1 ∧ R s1 g) ∧
    (¬ (s.nz = true ∧ w = 0) → ∃ s', buildUpdateEdge s a b w = (s', .unit) ∧ Inv s' ∧
      R s' (g.setEdge a b w)) := by
  obtain ⟨u1, u2⟩ := updateEdge_spec h r ha hb w
  unfold buildUpdateEdge
  constructor
  · intro hz; obtain ⟨s1, e, rest⟩ := u1 hz; rw [e]; exact ⟨s1, rfl, rest⟩
  · intro hz; obtain ⟨s1, e, rest⟩ := u2 hz; rw [e]; exact ⟨s1, rfl, rest⟩

theorem hasEdge_eq {s : State} (x y : Nat) : hasEdge s x y = (getEdgeWeight s x y).isSome := by
  unfold hasEdge getEdgeWeight
  cases edgePos s x y with
  | none => rfl
  | some p => simp only; cases s.adj[p]? <;> rfl

theorem buildAddEdge_spec {s : State} {g : G} (h : Inv s) (r : R s g) {a b : Nat}
    (ha : g.live a = true) (hb : g.live b = true) (w : Int) :
    ((g.weight a b).isSome → buildAddEdge s a b w = (s, .bool false)) ∧
    ((g.weight a b).isSome = false → (s.nz = true ∧ w = 0) →
      ∃ s1, buildAddEdge s a b w = (s1, .panic) ∧ Inv s1 ∧ R s1 g) ∧
    ((g.weight a b).isSome = false → ¬ (s.nz = true ∧ w = 0) →
      ∃ s', buildAddEdge s a b w = (s', .bool true) ∧ Inv s' ∧ R s' (g.setEdge a b w)) := by
  obtain ⟨u1, u2⟩ := updateEdge_spec h r ha hb w
  unfold buildAddEdge
  rw [hasEdge_eq, ← r.edges]
  refine ⟨?_, ?_, ?_⟩
  · intro hs; rw [if_pos hs]
  · intro hs hz
    rw [hs]; simp only [Bool.false_eq_true, if_false]
    obtain ⟨s1, e, rest⟩ := u1 hz; rw [e]; exact ⟨s1, rfl, rest⟩
  · intro hs hz
    rw [hs]; simp only [Bool.false_eq_true, if_false]
    obtain ⟨s1, e, rest⟩ := u2 hz; rw [e]; exact ⟨s1, rfl, rest⟩

/-- `remove_edge`: any arguments -/
theorem removeEdge_spec {s : State} {g : G} (h : Inv s) (r : R s g) (a b : Nat) :
    (∀ w, g.weight a b = some w → ∃ s', removeEdge s a b = (s', .w w) ∧ Inv s' ∧ R s' (g.removeEdge a b)) ∧
    (g.weight a b = none → removeEdge s a b = (s, .panic)) := by
  unfold removeEdge edgePos
  by_cases hm : max a b ≥ s.cap
  · have hn : g.weight a b = none := by rw [r.edges, getEdgeWeight_def, if_pos hm]
    rw [if_pos hm]
    exact ⟨fun w hw => by (rw [hn] at hw; cases hw), fun _ => rfl⟩
  · rw [if_neg hm]
    obtain ⟨c, hcell, hcw⟩ := cell_in_bounds h (by omega : max a b < s.cap)
    simp only [hcell]
    have hc := R_clearCell h r (by omega : max a b < s.cap)
    simp only at hc
    rw [r.edges, hcw]
    cases c with
    | none => exact ⟨fun w hw => by (cases hw), fun _ => rfl⟩
    | some v =>
      rw [hcw] at hc
      have hpos : 0 < s.nbEdges := hc.2.2 rfl
      simp only [Option.isSome_some, if_true] at hc
      refine ⟨fun w hw => ?_, fun hn => by (cases hn)⟩
      cases hw
      dsimp only
      rw [if_neg (by omega)]
      exact ⟨_, rfl, hc.1, hc.2.1⟩

/-- `try_remove_edge`: any arguments -/
theorem tryRemoveEdge_spec {s : State} {g : G} (h : Inv s) (r : R s g) (a b : Nat) :
    (∀ w, g.weight a b = some w → ∃ s', tryRemoveEdge s a b = (s', .optW (some w)) ∧ Inv s' ∧ R s' (g.removeEdge a b)) ∧
    (g.weight a b = none → tryRemoveEdge s a b = (s, .optW none)) := by
  unfold tryRemoveEdge edgePos
  by_cases hm : max a b ≥ s.cap
  · have hn : g.weight a b = none := by rw [r.edges, getEdgeWeight_def, if_pos hm]
    rw [if_pos hm]
    exact ⟨fun w hw => by (rw [hn] at hw; cases hw), fun _ => rfl⟩
  · rw [if_neg hm]
    obtain ⟨c, hcell, hcw⟩ := cell_in_bounds h (by omega : max a b < s.cap)
    simp only [hcell]
    have hc := R_clearCell h r (by omega : max a b < s.cap)
    simp only at hc
    rw [r.edges, hcw]
    cases c with
    | none => exact ⟨fun w hw => by (cases hw), fun _ => rfl⟩
    | some v =>
      rw [hcw] at hc
      have hpos : 0 < s.nbEdges := hc.2.2 rfl
      simp only [Option.isSome_some, if_true] at hc
      refine ⟨fun w hw => ?_, fun hn => by (cases hn)⟩
      cases hw
      dsimp only
      rw [if_neg (by omega)]
      exact ⟨_, rfl, hc.1, hc.2.1⟩

theorem live_of_edge {g : G} (hwf : g.WF) {a b : Nat} {v : Int} (he : g.weight a b = some v) :
    g.live a = true ∧ g.live b = true := by
  constructor
  · cases hl : g.live a with
    | true => rfl
    | false => have := (weight_none_of_dead hwf hl b).1; rw [he] at this; cases this
  · cases hl : g.live b with
    | true => rfl
    | false => have := (weight_none_of_dead hwf hl a).2; rw [he] at this; cases this

/-- `*edge_weight_mut(a, b) = w` (a non-zero `w` in a `NotZero` graph) -/
theorem setEdgeWeight_spec {s : State} {g : G} (h : Inv s) (r : R s g) (a b : Nat) (w : Int)
    (hw : s.nz = true → w ≠ 0) :
    ((g.weight a b).isSome → ∃ s', setEdgeWeight s a b w = (s', .unit) ∧ Inv s' ∧ R s' (g.setEdge a b w)) ∧
    (g.weight a b = none → setEdgeWeight s a b w = (s, .panic)) := by
  have hraw : rawCell s.nz w = some w := by
    unfold rawCell
    by_cases hz : s.nz = true
    · have := hw hz
      simp [hz, this]
    · simp [hz]
  unfold setEdgeWeight edgeWeight edgePos
  rw [hraw]
  by_cases hm : max a b ≥ s.cap
  · have hn : g.weight a b = none := by rw [r.edges, getEdgeWeight_def, if_pos hm]
    rw [if_pos hm]
    exact ⟨fun hs => by (rw [hn] at hs; cases hs), fun _ => rfl⟩
  · rw [if_neg hm]
    obtain ⟨c, hcell, hcw⟩ := cell_in_bounds h (by omega : max a b < s.cap)
    simp only [hcell]
    rw [r.edges, hcw]
    cases c with
    | none => exact ⟨fun hs => by (cases hs), fun _ => rfl⟩
    | some v =>
      have hl := live_of_edge r.wf (by rw [r.edges, hcw] : g.weight a b = some v)
      have hc := R_setCell h r (by omega : max a b < s.cap) hl.1 hl.2 w hw
      simp only [hcw, Option.isNone_some, Bool.false_eq_true, if_false] at hc
      exact ⟨fun _ => ⟨_, rfl, hc.1, hc.2⟩, fun hn => by (cases hn)⟩

namespace Ids
theorem setWeight_spec {s : IdStorage} (h : Inv s) (a : Nat) (v w : Int) (hl : s.get a = some v) :
    let s' : IdStorage := { s with elements := s.elements.setIfInBounds a (some w) }
    Inv s' ∧ (∀ x, s'.get x = if x = a then some w else s.get x) ∧ s'.len = s.len := by
  intro s'
  have hlive := (h.live a).1 (by rw [hl]; rfl)
  have hsz : a < s.elements.size := Nat.lt_of_lt_of_le hlive.1 h.ubLe
  have hget : ∀ x, s'.get x = if x = a then some w else s.get x := by
    intro x
    simp only [get_def, s', get_set _ _ _ _ hsz]
  refine ⟨⟨by simpa [s'] using h.ubLe, h.nodup, h.remLt, ?_⟩, hget, rfl⟩
  intro i
  rw [hget]
  by_cases hi : i = a
  · subst hi; simp; exact hlive
  · rw [if_neg hi]; exact h.live i
end Ids

/-- `*node_weight_mut(a) = w` -/
theorem setNodeWeight_spec {s : State} {g : G} (h : Inv s) (r : R s g) (a : Nat) (w : Int) :
    (g.live a = true → ∃ s', setNodeWeight s a w = (s', .unit) ∧ Inv s' ∧ R s' (g.setNodeWeight a w)) ∧
    (g.live a = false → setNodeWeight s a w = (s, .panic)) := by
  unfold setNodeWeight
  rw [live_eq r]
  cases hg : s.nodes.get a with
  | none => exact ⟨fun hl => by (cases hl), fun _ => rfl⟩
  | some v =>
    refine ⟨fun _ => ?_, fun hl => by (cases hl)⟩
    obtain ⟨hinv, hget, hlen⟩ := Ids.setWeight_spec h.ids a v w hg
    refine ⟨_, rfl, ⟨hinv, h.size, h.nzOk, h.ubIx⟩, ?_⟩
    refine ⟨r.dir, Spec.wf_setNodeWeight g r.wf a w, ?_, r.edges, r.count, ?_⟩
    · intro x
      rw [Spec.nodeWeight_setNodeWeight, hget]
      by_cases hx : x = a
      · subst hx; rw [if_pos rfl, if_pos rfl, r.nodes, hg]; rfl
      · rw [if_neg hx, if_neg hx, r.nodes]
    · show (g.nodes.map _).length = _
      rw [List.length_map]
      exact r.ncount.trans hlen.symm

/-- `clear` -/
theorem clear_spec {s : State} {g : G} (h : Inv s) (r : R s g) : Inv (clear s) ∧ R (clear s) g.clear := by
  have hobs : ∀ x y, getEdgeWeight (clear s) x y = none := by
    intro x y
    rw [getEdgeWeight_def]
    split
    · rfl
    · simp only [clear, Array.getElem?_replicate]
      split <;> rfl
  refine ⟨⟨Ids.inv_empty, by simp [clear, h.size], fun _ x y => by rw [hobs]; simp, by simp [clear, IdStorage.clear]⟩, ?_⟩
  refine ⟨r.dir, Spec.wf_clear g, ?_, ?_, rfl, rfl⟩
  · intro x
    show Option.map _ (List.find? _ []) = _
    simp [clear, IdStorage.clear, Ids.get_def]
  · intro x y
    rw [hobs]; rfl


/-! ### `remove_node` -/

theorem clearCounted_spec {s : State} {g : G} (h : Inv s) (r : R s g) {x y : Nat} (hxy : max x y < s.cap) :
    ∃ adj' nb', clearCounted s.adj s.nbEdges (linPos s.dir x y s.cap) = .ok (adj', nb') ∧
      Inv { s with adj := adj', nbEdges := nb' } ∧ R { s with adj := adj', nbEdges := nb' } (g.removeEdge x y) := by
  obtain ⟨c, hcell, hcw⟩ := cell_in_bounds h hxy
  have hc := R_clearCell h r hxy
  simp only at hc
  unfold clearCounted
  rw [hcell]
  cases c with
  | none =>
    rw [hcw] at hc
    simp only [Option.isSome_none, Bool.false_eq_true, if_false] at hc
    exact ⟨_, _, rfl, hc.1, hc.2.1⟩
  | some v =>
    rw [hcw] at hc
    have hpos : 0 < s.nbEdges := hc.2.2 rfl
    simp only [Option.isSome_some, if_true] at hc
    dsimp only
    rw [if_neg (by omega)]
    exact ⟨_, _, rfl, hc.1, hc.2.1⟩

/-- one pair of `remove_node`'s loop, guarded by `to_edge_position` -/
theorem clearPair_spec {s : State} {g : G} (h : Inv s) (r : R s g) (x y : Nat) :
    ∃ adj' nb', (if max x y ≥ s.cap then Except.ok (s.adj, s.nbEdges)
        else clearCounted s.adj s.nbEdges (linPos s.dir x y s.cap)) = .ok (adj', nb') ∧
      Inv { s with adj := adj', nbEdges := nb' } ∧ R { s with adj := adj', nbEdges := nb' } (g.removeEdge x y) := by
  by_cases hm : max x y ≥ s.cap
  · rw [if_pos hm]
    refine ⟨_, _, rfl, h, R_removeEdge_absent r ?_⟩
    rw [r.edges, getEdgeWeight_def, if_pos hm]
  · rw [if_neg hm]
    exact clearCounted_spec h r (by omega)

theorem removeNodeLoop_spec (a : Nat) : ∀ (l : List Nat) (s : State) (g : G), Inv s → R s g →
    ∃ adj' nb', removeNodeLoop s.dir s.cap a l s.adj s.nbEdges = .ok (adj', nb') ∧
      Inv { s with adj := adj', nbEdges := nb' } ∧
      R { s with adj := adj', nbEdges := nb' } (l.foldl (fun g id => (g.removeEdge a id).removeEdge id a) g) := by
  intro l
  induction l with
  | nil => intro s g h r; exact ⟨_, _, rfl, h, r⟩
  | cons id rest ih =>
    intro s g h r
    obtain ⟨adj1, nb1, e1, h1, r1⟩ := clearPair_spec h r a id
    unfold removeNodeLoop
    simp only [e1]
    -- second pair (directed only)
    have step2 : ∃ adj2 nb2,
        (if s.dir = true then
          (if max id a ≥ s.cap then Except.ok (adj1, nb1) else clearCounted adj1 nb1 (linPos s.dir id a s.cap))
         else Except.ok (adj1, nb1)) = .ok (adj2, nb2) ∧
        Inv { s with adj := adj2, nbEdges := nb2 } ∧
        R { s with adj := adj2, nbEdges := nb2 } ((g.removeEdge a id).removeEdge id a) := by
      by_cases hd : s.dir = true
      · rw [if_pos hd]
        exact clearPair_spec h1 r1 id a
      · rw [if_neg hd]
        refine ⟨_, _, rfl, h1, R_removeEdge_absent r1 ?_⟩
        rw [Spec.weight_removeEdge, if_pos]
        rw [r.dir]
        have : s.dir = false := by simpa using hd
        rw [this, key_eq_iff]; simp
    obtain ⟨adj2, nb2, e2, h2, r2⟩ := step2
    simp only [e2]
    exact ih { s with adj := adj2, nbEdges := nb2 } _ h2 r2

theorem fold_removeEdges (a : Nat) : ∀ (l : List Nat) (g : G),
    (l.foldl (fun g id => (g.removeEdge a id).removeEdge id a) g).directed = g.directed ∧
    (l.foldl (fun g id => (g.removeEdge a id).removeEdge id a) g).nodes = g.nodes ∧
    (l.foldl (fun g id => (g.removeEdge a id).removeEdge id a) g).edges =
      g.edges.filter (fun e => l.all (fun id => e.1 != key g.directed a id && e.1 != key g.directed id a)) := by
  intro l
  induction l with
  | nil => intro g; exact ⟨rfl, rfl, by simp only [List.all_nil]; exact (List.filter_eq_self.2 (fun _ _ => rfl)).symm⟩
  | cons id rest ih =>
    intro g
    obtain ⟨i1, i2, i3⟩ := ih ((g.removeEdge a id).removeEdge id a)
    simp only [List.foldl_cons]
    refine ⟨i1, i2, ?_⟩
    rw [i3]
    show List.filter _ (List.filter _ (List.filter _ g.edges)) = _
    rw [List.filter_filter, List.filter_filter]
    apply List.filter_congr
    intro e _
    simp only [List.all_cons, G.removeEdge]
    cases (e.1 != key g.directed a id) <;> cases (e.1 != key g.directed id a) <;> simp

theorem length_filter_ne_node :
    ∀ (l : List (Nat × Int)) (k : Nat), (l.map (·.1)).Nodup →
      (l.filter (fun e => e.1 != k)).length + (if (l.find? (fun e => e.1 == k)).isSome then 1 else 0) = l.length
  | [], _, _ => rfl
  | e :: l, k, h => by
    rw [List.map_cons, List.nodup_cons] at h
    have ih := length_filter_ne_node l k h.2
    by_cases he : e.1 = k
    · have hnone : l.find? (fun e => e.1 == k) = none := by
        rw [List.find?_eq_none]
        intro x hx hxk
        apply h.1
        rw [he]
        simp at hxk
        rw [← hxk]
        exact List.mem_map_of_mem hx
      rw [hnone] at ih
      rw [List.find?_cons_of_pos (by simp [he]), List.filter_cons_of_neg (by simp [he])]
      simp at ih ⊢
      omega
    · rw [List.find?_cons_of_neg (by simp [he]), List.filter_cons_of_pos (by simp [he])]
      simp only [List.length_cons]
      omega

/-- on the edges of a well-formed graph whose live ids are `ids`: "not one of the pairs
`(a, id)`, `(id, a)`" is "not incident to `a`" -/
theorem loop_filter_eq {g : G} (hwf : g.WF) (a : Nat) (ids : List Nat)
    (hids : ∀ x, x ∈ ids ↔ g.live x = true) :
    g.edges.filter (fun e => ids.all (fun id => e.1 != key g.directed a id && e.1 != key g.directed id a)) =
    g.edges.filter (fun e => e.1.1 != a && e.1.2 != a) := by
  apply List.filter_congr
  intro e he
  obtain ⟨l1, l2, hk⟩ := hwf.2.2 e he
  rw [Bool.eq_iff_iff]
  simp only [List.all_eq_true, Bool.and_eq_true, bne_iff_ne, ne_eq]
  constructor
  · intro hall
    constructor
    · intro e1
      have := (hall e.1.2 ((hids _).2 l2)).1
      apply this; rw [← e1]; exact hk
    · intro e2
      have := (hall e.1.1 ((hids _).2 l1)).2
      apply this; rw [← e2]; exact hk
  · intro ⟨n1, n2⟩ id _
    constructor
    · intro ek
      rcases Spec.key_endpoints g.directed a id with ⟨p, _⟩ | ⟨_, q⟩
      · exact n1 (by rw [ek]; exact p)
      · exact n2 (by rw [ek]; exact q)
    · intro ek
      rcases Spec.key_endpoints g.directed id a with ⟨_, q⟩ | ⟨p, _⟩
      · exact n2 (by rw [ek]; exact q)
      · exact n1 (by rw [ek]; exact p)

theorem G_ext {g1 g2 : G} (h1 : g1.directed = g2.directed) (h2 : g1.nodes = g2.nodes)
    (h3 : g1.edges = g2.edges) : g1 = g2 := by
  cases g1; cases g2
  simp only at h1 h2 h3
  subst h1 h2 h3
  rfl

/-- `remove_node` -/
theorem removeNode_spec {s : State} {g : G} (h : Inv s) (r : R s g) (a : Nat) :
    (∀ w, g.nodeWeight a = some w → ∃ s', removeNode s a = (s', .w w) ∧ Inv s' ∧ R s' (g.removeNode a)) ∧
    (g.nodeWeight a = none → ∃ s', removeNode s a = (s', .panic) ∧ Inv s' ∧ R s' g) := by
  obtain ⟨adj1, nb1, e1, h1, r1⟩ := removeNodeLoop_spec a s.nodes.ids s g h r
  obtain ⟨f1, f2, f3⟩ := fold_removeEdges a s.nodes.ids g
  have hids : ∀ x, x ∈ s.nodes.ids ↔ g.live x = true := by
    intro x; rw [Ids.mem_ids_iff_live h.ids, live_eq r]
  rw [loop_filter_eq r.wf a _ hids] at f3
  generalize hgl : (s.nodes.ids.foldl (fun g id => (g.removeEdge a id).removeEdge id a) g) = gl at r1 f1 f2 f3
  unfold removeNode
  rw [e1]
  dsimp only
  constructor
  · intro w hw
    have hget : s.nodes.get a = some w := by rw [← r.nodes]; exact hw
    obtain ⟨n', en, hinv', hdead, hframe, hlen, hub⟩ := Ids.remove_spec h.ids a w hget
    rw [en]
    dsimp only
    refine ⟨_, rfl, ⟨hinv', h1.size, h1.nzOk, Nat.le_trans hub h.ubIx⟩, ?_⟩
    -- the spec graph: `g.removeNode a` has the loop's edges and the remaining nodes
    have hedges : (g.removeNode a).edges = gl.edges := by rw [f3]; rfl
    refine ⟨by show g.directed = s.dir; exact r.dir, Spec.wf_removeNode g r.wf a, ?_, ?_, ?_, ?_⟩
    · intro x
      rw [Spec.nodeWeight_removeNode]
      by_cases hx : x = a
      · subst hx; rw [if_pos rfl]; exact hdead.symm
      · rw [if_neg hx, r.nodes]; exact (hframe x hx).symm
    · intro x y
      have : (g.removeNode a).weight x y = gl.weight x y := by
        unfold G.weight; rw [hedges]
        show _ = Option.map _ (List.find? (fun e => e.1 == key gl.directed x y) gl.edges)
        rw [f1]; rfl
      rw [this]; exact r1.edges x y
    · show (g.removeNode a).edges.length = nb1
      rw [hedges]; exact r1.count
    · show (g.nodes.filter (fun p => p.1 != a)).length = n'.len
      have hl := length_filter_ne_node g.nodes a r.wf.1
      have hs : (g.nodes.find? (fun e => e.1 == a)).isSome = true := by
        have : g.nodeWeight a = some w := hw
        unfold G.nodeWeight at this
        cases hf : g.nodes.find? (fun p => p.1 == a) with
        | none => rw [hf] at this; cases this
        | some v => rfl
      rw [if_pos hs] at hl
      have := r.ncount
      unfold G.nodeCount at this
      omega
  · intro hn
    have hget : s.nodes.get a = none := by rw [← r.nodes]; exact hn
    rw [Ids.remove_dead a hget]
    dsimp only
    refine ⟨_, rfl, h1, ?_⟩
    have hdead : g.live a = false := by rw [Spec.live_iff, hn]; rfl
    have : gl = g := by
      have he : gl.edges = g.edges := by
        rw [f3, List.filter_eq_self]
        intro e he
        obtain ⟨l1, l2, _⟩ := r.wf.2.2 e he
        have n1 : e.1.1 ≠ a := fun e1 => by rw [e1, hdead] at l1; cases l1
        have n2 : e.1.2 ≠ a := fun e2 => by rw [e2, hdead] at l2; cases l2
        simp [n1, n2]
      exact G_ext f1 f2 he
    rw [← this]; exact r1


/-! ### the abstract machine and the refinement of every call -/

/- `zeroRejected`, `specStep`, `Valid`, `idOf` (the abstract machine) are defined in the core-only file
`Spec/MatrixMachine.lean` (same namespace, same definitions) so that the driver runs the very functions the
theorems are about. -/

theorem zeroRejected_iff (nz : Bool) (w : Int) : zeroRejected nz w = true ↔ (nz = true ∧ w = 0) := by
  unfold zeroRejected; simp

/-- **Every call refines the simple graph**: under the invariant and the abstraction relation, a
call inside the property's quantifier answers exactly what the abstract machine answers, never
faults, and re-establishes invariant and relation; the id of a new node is not a live id. -/
theorem step_refines {s : State} {g : G} (h : Inv s) (r : R s g) (op : Op) (hv : Valid s.nz g op) :
    let id := idOf (step s op).2
    (step s op).2 = (specStep s.nz s.ixMax g op id).2 ∧
    Inv (step s op).1 ∧ R (step s op).1 (specStep s.nz s.ixMax g op id).1 ∧
    (∀ w, (op = .addNode w ∨ op = .tryAddNode w) → g.nodeCount ≠ s.ixMax → g.live id = false) := by
  intro id
  cases op with
  | addNode w =>
    obtain ⟨h1, h2⟩ := addNode_spec h r w
    by_cases hl : g.nodeCount = s.ixMax
    · have e := h1 hl
      simp only [step, specStep, e, if_pos hl]
      exact ⟨trivial, h, r, fun _ _ hn => absurd hl hn⟩
    · obtain ⟨s', i, e, hd, hi, hr⟩ := h2 hl
      have hid : id = i := by show idOf (step s (.addNode w)).2 = i; simp only [step, e, idOf]
      simp only [step, specStep, e, if_neg hl, hid]
      exact ⟨trivial, hi, hr, fun _ _ _ => hd⟩
  | tryAddNode w =>
    obtain ⟨h1, h2⟩ := tryAddNode_spec h r w
    by_cases hl : g.nodeCount = s.ixMax
    · have e := h1 hl
      simp only [step, specStep, e, if_pos hl]
      exact ⟨trivial, h, r, fun _ _ hn => absurd hl hn⟩
    · obtain ⟨s', i, e, hd, hi, hr⟩ := h2 hl
      have hid : id = i := by show idOf (step s (.tryAddNode w)).2 = i; simp only [step, e, idOf]
      simp only [step, specStep, e, if_neg hl, hid]
      exact ⟨trivial, hi, hr, fun _ _ _ => hd⟩
  | removeNode a =>
    obtain ⟨h1, h2⟩ := removeNode_spec h r a
    simp only [step, specStep]
    cases hw : g.nodeWeight a with
    | some w => obtain ⟨s', e, hi, hr⟩ := h1 w hw; rw [e]; exact ⟨rfl, hi, hr, by intro _ h; cases h <;> contradiction⟩
    | none => obtain ⟨s', e, hi, hr⟩ := h2 hw; rw [e]; exact ⟨rfl, hi, hr, by intro _ h; cases h <;> contradiction⟩
  | addEdge a b w =>
    obtain ⟨h1, h2⟩ := addEdge_spec h r hv.1 hv.2 w
    simp only [step, specStep]
    by_cases hz : zeroRejected s.nz w = true
    · obtain ⟨s', e, hi, hr⟩ := h1 ((zeroRejected_iff _ _).1 hz)
      rw [e, if_pos hz]; exact ⟨rfl, hi, hr, by intro _ h; cases h <;> contradiction⟩
    · obtain ⟨s', e, hi, hr⟩ := h2 (fun c => hz ((zeroRejected_iff _ _).2 c))
      rw [e, if_neg hz]; exact ⟨rfl, hi, hr, by intro _ h; cases h <;> contradiction⟩
  | updateEdge a b w =>
    obtain ⟨h1, h2⟩ := updateEdge_spec h r hv.1 hv.2 w
    simp only [step, specStep]
    by_cases hz : zeroRejected s.nz w = true
    · obtain ⟨s', e, hi, hr⟩ := h1 ((zeroRejected_iff _ _).1 hz)
      rw [e, if_pos hz]; exact ⟨rfl, hi, hr, by intro _ h; cases h <;> contradiction⟩
    · obtain ⟨s', e, hi, hr⟩ := h2 (fun c => hz ((zeroRejected_iff _ _).2 c))
      rw [e, if_neg hz]; exact ⟨rfl, hi, hr, by intro _ h; cases h <;> contradiction⟩
  | tryUpdateEdge a b w =>
    obtain ⟨h1, h2⟩ := tryUpdateEdge_spec h r hv.1 hv.2 w
    simp only [step, specStep]
    by_cases hz : zeroRejected s.nz w = true
    · obtain ⟨s', e, hi, hr⟩ := h1 ((zeroRejected_iff _ _).1 hz)
      rw [e, if_pos hz]; exact ⟨rfl, hi, hr, by intro _ h; cases h <;> contradiction⟩
    · obtain ⟨s', e, hi, hr⟩ := h2 (fun c => hz ((zeroRejected_iff _ _).2 c))
      rw [e, if_neg hz]; exact ⟨rfl, hi, hr, by intro _ h; cases h <;> contradiction⟩
  | addOrUpdateEdge a b w =>
    obtain ⟨h1, h2⟩ := addOrUpdateEdge_spec h r hv.1 hv.2 w
    simp only [step, specStep]
    by_cases hz : zeroRejected s.nz w = true
    · obtain ⟨s', e, hi, hr⟩ := h1 ((zeroRejected_iff _ _).1 hz)
      rw [e, if_pos hz]; exact ⟨rfl, hi, hr, by intro _ h; cases h <;> contradiction⟩
    · obtain ⟨s', e, hi, hr⟩ := h2 (fun c => hz ((zeroRejected_iff _ _).2 c))
      rw [e, if_neg hz]; exact ⟨rfl, hi, hr, by intro _ h; cases h <;> contradiction⟩
  | removeEdge a b =>
    obtain ⟨h1, h2⟩ := removeEdge_spec h r a b
    simp only [step, specStep]
    cases hw : g.weight a b with
    | some w => obtain ⟨s', e, hi, hr⟩ := h1 w hw; rw [e]; exact ⟨rfl, hi, hr, by intro _ h; cases h <;> contradiction⟩
    | none => rw [h2 hw]; exact ⟨rfl, h, r, by intro _ h; cases h <;> contradiction⟩
  | tryRemoveEdge a b =>
    obtain ⟨h1, h2⟩ := tryRemoveEdge_spec h r a b
    simp only [step, specStep]
    cases hw : g.weight a b with
    | some w => obtain ⟨s', e, hi, hr⟩ := h1 w hw; rw [e]; exact ⟨rfl, hi, hr, by intro _ h; cases h <;> contradiction⟩
    | none => rw [h2 hw]; exact ⟨rfl, h, r, by intro _ h; cases h <;> contradiction⟩
  | setNodeWeight a w =>
    obtain ⟨h1, h2⟩ := setNodeWeight_spec h r a w
    simp only [step, specStep]
    cases hl : g.live a with
    | true => obtain ⟨s', e, hi, hr⟩ := h1 hl; rw [e]; exact ⟨rfl, hi, hr, by intro _ h; cases h <;> contradiction⟩
    | false => rw [h2 hl]; exact ⟨rfl, h, r, by intro _ h; cases h <;> contradiction⟩
  | setEdgeWeight a b w =>
    obtain ⟨h1, h2⟩ := setEdgeWeight_spec h r a b w hv
    simp only [step, specStep]
    cases hw : g.weight a b with
    | some v =>
      obtain ⟨s', e, hi, hr⟩ := h1 (by rw [hw]; rfl)
      rw [e]; exact ⟨rfl, hi, hr, by intro _ h; cases h <;> contradiction⟩
    | none => rw [h2 hw]; exact ⟨rfl, h, r, by intro _ h; cases h <;> contradiction⟩
  | buildAddEdge a b w =>
    obtain ⟨h1, h2, h3⟩ := buildAddEdge_spec h r hv.1 hv.2 w
    simp only [step, specStep]
    by_cases hs : (g.weight a b).isSome = true
    · rw [h1 hs, if_pos hs]; exact ⟨rfl, h, r, by intro _ h; cases h <;> contradiction⟩
    · have hs' : (g.weight a b).isSome = false := by simpa using hs
      rw [if_neg hs]
      by_cases hz : zeroRejected s.nz w = true
      · obtain ⟨s', e, hi, hr⟩ := h2 hs' ((zeroRejected_iff _ _).1 hz)
        rw [e, if_pos hz]; exact ⟨rfl, hi, hr, by intro _ h; cases h <;> contradiction⟩
      · obtain ⟨s', e, hi, hr⟩ := h3 hs' (fun c => hz ((zeroRejected_iff _ _).2 c))
        rw [e, if_neg hz]; exact ⟨rfl, hi, hr, by intro _ h; cases h <;> contradiction⟩
  | buildUpdateEdge a b w =>
    obtain ⟨h1, h2⟩ := buildUpdateEdge_spec h r hv.1 hv.2 w
    simp only [step, specStep]
    by_cases hz : zeroRejected s.nz w = true
    · obtain ⟨s', e, hi, hr⟩ := h1 ((zeroRejected_iff _ _).1 hz)
      rw [e, if_pos hz]; exact ⟨rfl, hi, hr, by intro _ h; cases h <;> contradiction⟩
    · obtain ⟨s', e, hi, hr⟩ := h2 (fun c => hz ((zeroRejected_iff _ _).2 c))
      rw [e, if_neg hz]; exact ⟨rfl, hi, hr, by intro _ h; cases h <;> contradiction⟩
  | clear =>
    obtain ⟨hi, hr⟩ := clear_spec h r
    simp only [step, specStep]
    exact ⟨trivial, hi, hr, by intro _ h; cases h <;> contradiction⟩


/-! ### constructors, histories, observers -/

theorem withCapacity_spec (dir nz : Bool) (ixMax k : Nat) :
    ∃ s, withCapacity dir nz ixMax k = .ok s ∧ Inv s ∧ R s (G.empty dir) ∧ s.dir = dir ∧ s.nz = nz ∧
      s.ixMax = ixMax ∧ k ≤ s.cap := by
  have hempty : Inv { dir := dir, nz := nz, ixMax := ixMax } := by
    refine ⟨Ids.inv_empty, ?_, ?_, by simp⟩
    · show (#[] : Array Cell).size = adjSize dir 0
      unfold adjSize tri; cases dir <;> simp
    · intro _ x y
      rw [getEdgeWeight_def]; simp
  have rempty : ∀ s : State, s.dir = dir → s.nodes = {} → s.nbEdges = 0 →
      (∀ x y, getEdgeWeight s x y = none) → R s (G.empty dir) := by
    intro s hd hn hc ho
    refine ⟨hd.symm, Spec.wf_empty dir, ?_, ?_, by rw [hc]; rfl, by rw [hn]; rfl⟩
    · intro x; rw [hn]; simp [G.empty, G.nodeWeight, Ids.get_def]
    · intro x y; rw [ho]; rfl
  unfold withCapacity
  by_cases hk : k > 0
  · rw [if_pos hk]
    dsimp only
    have hsz : (#[] : Array Cell).size = adjSize dir 0 := by
      unfold adjSize tri; cases dir <;> simp
    obtain ⟨g, new, eg, hwn, sg, hcell⟩ := extendLin_spec dir #[] 0 (k - 1 + 1) true hsz (by omega)
    rw [eg]
    have hobs : ∀ x y, getEdgeWeight { dir := dir, nz := nz, ixMax := ixMax, adj := g, cap := new } x y = none := by
      intro x y
      rw [getEdgeWeight_def]
      split
      · rfl
      · rename_i hm
        have := hcell x y (by simp only at hm; omega)
        simpa using this
    refine ⟨_, rfl, ⟨Ids.inv_empty, sg, fun _ x y => by rw [hobs]; simp, by simp⟩,
      rempty _ rfl rfl rfl hobs, rfl, rfl, rfl, by simp only; omega⟩
  · rw [if_neg hk]
    refine ⟨_, rfl, hempty, rempty _ rfl rfl rfl ?_, rfl, rfl, rfl, by simp only; omega⟩
    intro x y; rw [getEdgeWeight_def]; simp

/-- the abstract graph after a history: the id of each `add_node` is the one the model hands out -/
def absRun (s : State) (g : G) : List Op → G
  | [] => g
  | op :: ops => absRun (step s op).1 (specStep s.nz s.ixMax g op (idOf (step s op).2)).1 ops

/-- the abstract machine's answers along a history -/
def absOuts (s : State) (g : G) : List Op → List Out
  | [] => []
  | op :: ops => (specStep s.nz s.ixMax g op (idOf (step s op).2)).2 ::
      absOuts (step s op).1 (specStep s.nz s.ixMax g op (idOf (step s op).2)).1 ops

/-- every call of the history is inside the property's quantifier -/
def ValidHist (s : State) (g : G) : List Op → Prop
  | [] => True
  | op :: ops => Valid s.nz g op ∧
      ValidHist (step s op).1 (specStep s.nz s.ixMax g op (idOf (step s op).2)).1 ops

theorem run_refines : ∀ (ops : List Op) (s : State) (g : G), Inv s → R s g → ValidHist s g ops →
    Inv (run s ops).1 ∧ R (run s ops).1 (absRun s g ops) ∧ (run s ops).2 = absOuts s g ops := by
  intro ops
  induction ops with
  | nil => intro s g h r _; exact ⟨h, r, rfl⟩
  | cons op ops ih =>
    intro s g h r hv
    obtain ⟨ho, hi, hr, _⟩ := step_refines h r op hv.1
    obtain ⟨i1, i2, i3⟩ := ih (step s op).1 _ hi hr hv.2
    simp only [run, absRun, absOuts]
    refine ⟨i1, i2, ?_⟩
    rw [i3, List.cons.injEq]
    exact ⟨ho, rfl⟩

theorem specStep_no_fault (nz : Bool) (ixMax : Nat) (g : G) (op : Op) (id : Nat) (f : Fault) :
    (specStep nz ixMax g op id).2 ≠ .fault f := by
  cases op <;> simp only [specStep] <;> (repeat' split) <;> simp

/-! observers -/

theorem cellAt_eq {s : State} {a c : Nat} (h : max a c < s.cap) : cellAt s a c = getEdgeWeight s a c := by
  rw [getEdgeWeight_def, if_neg (by omega)]
  unfold cellAt
  cases s.adj[linPos s.dir a c s.cap]? <;> rfl

theorem mem_edgesOut (s : State) (a : Nat) (t : Nat × Nat × Int) :
    t ∈ edgesOut s a ↔ t.1 = a ∧ getEdgeWeight s a t.2.1 = some t.2.2 := by
  obtain ⟨x, c, w⟩ := t
  unfold edgesOut
  by_cases ha : a ≥ s.cap
  · rw [if_pos ha]
    have : getEdgeWeight s a c = none := by rw [getEdgeWeight_def, if_pos (by omega)]
    simp [this]
  · rw [if_neg ha]
    simp only [List.mem_filterMap, List.mem_range, Option.map_eq_some_iff, Prod.mk.injEq]
    constructor
    · rintro ⟨c', hc', w', hw', rfl, rfl, rfl⟩
      exact ⟨rfl, by rw [← cellAt_eq (by omega)]; exact hw'⟩
    · rintro ⟨rfl, hw⟩
      have hc : c < s.cap := by
        rw [getEdgeWeight_def] at hw
        by_cases hm : max x c ≥ s.cap
        · rw [if_pos hm] at hw; cases hw
        · omega
      exact ⟨c, hc, w, by rw [cellAt_eq (by omega)]; exact hw, rfl, rfl, rfl⟩

theorem mem_edgesIn (s : State) (a : Nat) (t : Nat × Nat × Int) :
    t ∈ edgesIn s a ↔ t.1 = a ∧ getEdgeWeight s t.2.1 a = some t.2.2 := by
  obtain ⟨x, c, w⟩ := t
  unfold edgesIn
  by_cases ha : a ≥ s.cap
  · rw [if_pos ha]
    have : getEdgeWeight s c a = none := by rw [getEdgeWeight_def, if_pos (by omega)]
    simp [this]
  · rw [if_neg ha]
    simp only [List.mem_filterMap, List.mem_range, Option.map_eq_some_iff, Prod.mk.injEq]
    constructor
    · rintro ⟨c', hc', w', hw', rfl, rfl, rfl⟩
      exact ⟨rfl, by rw [← cellAt_eq (by omega)]; exact hw'⟩
    · rintro ⟨rfl, hw⟩
      have hc : c < s.cap := by
        rw [getEdgeWeight_def] at hw
        by_cases hm : max c x ≥ s.cap
        · rw [if_pos hm] at hw; cases hw
        · omega
      exact ⟨c, hc, w, by rw [cellAt_eq (by omega)]; exact hw, rfl, rfl, rfl⟩

theorem mem_edgeRefs (s : State) (t : Nat × Nat × Int) :
    t ∈ edgeRefs s ↔ (s.dir = true ∨ t.2.1 ≤ t.1) ∧ getEdgeWeight s t.1 t.2.1 = some t.2.2 := by
  obtain ⟨r, c, w⟩ := t
  unfold edgeRefs
  simp only [List.mem_flatMap, List.mem_range, List.mem_filterMap, Option.map_eq_some_iff, Prod.mk.injEq]
  constructor
  · rintro ⟨r', hr', c', hc', w', hw', rfl, rfl, rfl⟩
    have hc2 : c' < s.cap := by
      by_cases hd : s.dir = true
      · rw [if_pos hd] at hc'; exact hc'
      · rw [if_neg hd] at hc'; omega
    refine ⟨?_, by rw [← cellAt_eq (by omega)]; exact hw'⟩
    by_cases hd : s.dir = true
    · exact Or.inl hd
    · rw [if_neg hd] at hc'; exact Or.inr (by omega)
  · rintro ⟨hdc, hw⟩
    have hm : max r c < s.cap := by
      rw [getEdgeWeight_def] at hw
      by_cases hm : max r c ≥ s.cap
      · rw [if_pos hm] at hw; cases hw
      · omega
    refine ⟨r, by omega, c, ?_, w, by rw [cellAt_eq hm]; exact hw, rfl, rfl, rfl⟩
    by_cases hd : s.dir = true
    · rw [if_pos hd]; omega
    · rw [if_neg hd]
      rcases hdc with h1 | h1
      · exact absurd h1 hd
      · omega

/-- an undirected edge is the same edge from both endpoints -/
theorem getEdgeWeight_symm {s : State} (hd : s.dir = false) (a b : Nat) :
    getEdgeWeight s a b = getEdgeWeight s b a := by
  rw [getEdgeWeight_def, getEdgeWeight_def, Nat.max_comm]
  unfold linPos
  rw [hd]
  simp only [Bool.false_eq_true, if_false]
  rw [triPos_comm]


/-! ### `edge_references()` yields each edge exactly once -/

theorem weight_eq_some_iff {g : G} (hwf : g.WF) (a b : Nat) (w : Int) :
    g.weight a b = some w ↔ (key g.directed a b, w) ∈ g.edges := by
  unfold G.weight
  constructor
  · intro h
    rw [Option.map_eq_some_iff] at h
    obtain ⟨e, he, hw⟩ := h
    have h1 := List.find?_some he
    have h2 := List.mem_of_find?_eq_some he
    have : e = (key g.directed a b, w) := by
      obtain ⟨k, w'⟩ := e
      simp at h1 hw
      rw [h1, hw]
    rw [← this]; exact h2
  · intro h
    have hs : (g.edges.find? (fun e => e.1 == key g.directed a b)).isSome = true := by
      rw [List.find?_isSome]; exact ⟨_, h, by simp⟩
    cases hf : g.edges.find? (fun e => e.1 == key g.directed a b) with
    | none => rw [hf] at hs; cases hs
    | some e =>
      have h1 := List.find?_some hf
      have h2 := List.mem_of_find?_eq_some hf
      have : e = (key g.directed a b, w) :=
        List.inj_on_of_nodup_map hwf.2.1 h2 h (by simpa using h1)
      rw [this]; rfl

theorem edgeRefs_pairwise (s : State) :
    (edgeRefs s).Pairwise (fun t t' => ¬ (t.1 = t'.1 ∧ t.2.1 = t'.2.1)) := by
  unfold edgeRefs
  rw [List.pairwise_flatMap]
  constructor
  · intro r _
    rw [List.pairwise_filterMap]
    apply List.Pairwise.imp _ List.pairwise_lt_range
    intro c c' hlt b hb b' hb'
    rw [Option.map_eq_some_iff] at hb hb'
    obtain ⟨_, _, rfl⟩ := hb
    obtain ⟨_, _, rfl⟩ := hb'
    simp only; omega
  · apply List.Pairwise.imp _ List.pairwise_lt_range
    intro r r' hlt x hx y hy
    rw [List.mem_filterMap] at hx hy
    obtain ⟨_, _, hx⟩ := hx
    obtain ⟨_, _, hy⟩ := hy
    rw [Option.map_eq_some_iff] at hx hy
    obtain ⟨_, _, rfl⟩ := hx
    obtain ⟨_, _, rfl⟩ := hy
    simp only; omega

/-- **`edge_references()` yields exactly `edge_count()` items**: it lists the edges of the simple
graph, each exactly once -/
theorem edgeRefs_perm {s : State} {g : G} (r : R s g) :
    ((edgeRefs s).map fun t => (key s.dir t.1 t.2.1, t.2.2)).Perm g.edges := by
  have hnd : (edgeRefs s).Nodup := by
    apply List.Pairwise.imp _ (edgeRefs_pairwise s)
    intro t t' h e; exact h ⟨by rw [e], by rw [e]⟩
  have hinj : ∀ t ∈ edgeRefs s, ∀ t' ∈ edgeRefs s,
      (key s.dir t.1 t.2.1, t.2.2) = (key s.dir t'.1 t'.2.1, t'.2.2) → t = t' := by
    intro t ht t' ht' e
    obtain ⟨x, c, w⟩ := t
    obtain ⟨x', c', w'⟩ := t'
    have h1 := ((mem_edgeRefs s _).1 ht).1
    have h2 := ((mem_edgeRefs s _).1 ht').1
    simp only [Prod.mk.injEq] at e ⊢
    obtain ⟨ek, ew⟩ := e
    have := (key_eq_iff s.dir x c x' c').1 ek
    cases hd : s.dir
    · rw [hd] at this h1 h2
      simp only [Bool.false_eq_true, if_false, false_or] at this h1 h2
      omega
    · rw [hd] at this
      simp only [if_true] at this
      exact ⟨this.1, this.2, ew⟩
  rw [List.perm_ext_iff_of_nodup (List.Nodup.map_on hinj hnd) (List.Nodup.of_map _ r.wf.2.1)]
  intro ⟨k, w⟩
  rw [List.mem_map]
  constructor
  · rintro ⟨t, ht, e⟩
    have := ((mem_edgeRefs s t).1 ht).2
    rw [← r.edges, weight_eq_some_iff r.wf, r.dir] at this
    rw [← e]; exact this
  · intro hm
    obtain ⟨_, _, hk⟩ := r.wf.2.2 _ hm
    simp only at hk
    have hw : g.weight k.1 k.2 = some w := by
      rw [weight_eq_some_iff r.wf, ← hk]; exact hm
    rw [r.edges] at hw
    rw [r.dir] at hk
    refine ⟨(k.1, k.2, w), (mem_edgeRefs s _).2 ⟨?_, hw⟩, by simp only; rw [← hk]⟩
    cases hd : s.dir
    · right
      rw [hd] at hk
      unfold key at hk
      simp only [Bool.false_eq_true, if_false] at hk
      have h1 : k.1 = max k.1 k.2 := congrArg Prod.fst hk
      show k.2 ≤ k.1
      omega
    · left; rfl

theorem edgeRefs_length {s : State} {g : G} (r : R s g) : (edgeRefs s).length = s.nbEdges := by
  have := (edgeRefs_perm r).length_eq
  rw [List.length_map] at this
  rw [this]; exact r.count


theorem neighborsOut_nodup (s : State) (a : Nat) : (neighborsOut s a).Nodup := by
  unfold neighborsOut edgesOut
  split
  · exact List.nodup_nil
  · rw [List.Nodup, List.pairwise_map, List.pairwise_filterMap]
    apply List.Pairwise.imp _ List.pairwise_lt_range
    intro c c' hlt b hb b' hb'
    rw [Option.map_eq_some_iff] at hb hb'
    obtain ⟨_, _, rfl⟩ := hb
    obtain ⟨_, _, rfl⟩ := hb'
    simp only; omega

theorem neighborsIn_nodup (s : State) (a : Nat) : (neighborsIn s a).Nodup := by
  unfold neighborsIn edgesIn
  split
  · exact List.nodup_nil
  · rw [List.Nodup, List.pairwise_map, List.pairwise_filterMap]
    apply List.Pairwise.imp _ List.pairwise_lt_range
    intro c c' hlt b hb b' hb'
    rw [Option.map_eq_some_iff] at hb hb'
    obtain ⟨_, _, rfl⟩ := hb
    obtain ⟨_, _, rfl⟩ := hb'
    simp only; omega

end PetgraphModel.MatrixProofs
