import PetgraphModel.Proofs.SerdeLink
/-
Helper lemmas for C17 (part 3): the free-node loop of `StableGraph::link_edges` builds a well-formed doubly linked
list of exactly the vacant nodes and never indexes out of bounds.
-/
namespace PetgraphModel.SerdeProofs
open PetgraphModel.Serde

def freshNode (END : Nat) (nd : NodeSlot) : Prop := nd.n0 = END ∧ nd.n1 = END

structure FreeInv (END : Nat) (st : FreeNodesSt) : Prop where
  chain : DChain st.done END END st.free (vacantN st.done)
  count : st.count = (st.done.filter (fun (n : NodeSlot) => n.w.isSome)).length
  fresh : ∀ (i : Nat) (nd : NodeSlot), st.done[i]? = some nd → nd.w.isSome = true → freshNode END nd

theorem vacantN_set_n1 (nodes : List NodeSlot) (j : Nat) (p : NodeSlot) (v : Nat) (hp : nodes[j]? = some p) :
    vacantN (nodes.set j { p with n1 := v }) = vacantN nodes := by
  unfold vacantN
  rw [List.length_set]
  apply idxDesc_congr_hit
  intro e _
  unfold hit
  rw [List.getElem?_set]
  by_cases hje : j = e
  · subst hje
    have : j < nodes.length := (List.getElem?_eq_some_iff.1 hp).1
    have hpp : nodes[j] = p := (List.getElem?_eq_some_iff.1 hp).2
    simp [this, hpp]
  · simp [hje]

theorem DChain.head_END {nodes : List NodeSlot} {END p : Nat} {l : List Nat} (hlen : nodes.length ≤ END)
    (c : DChain nodes END p END l) : l = [] := by
  cases c with
  | nil => rfl
  | cons _ _ s l hs _ _ _ =>
    have := (List.getElem?_eq_some_iff.1 hs).1
    omega

theorem linkFreeNodes_inv (END : Nat) (rest : List NodeSlot) :
    ∀ (st : FreeNodesSt), FreeInv END st → (∀ nd, nd ∈ rest → freshNode END nd) → st.done.length + rest.length < END →
      ∃ st', linkFreeNodes END rest st = some st' ∧ FreeInv END st' ∧
        st'.done.map (fun (n : NodeSlot) => n.w) = st.done.map (fun (n : NodeSlot) => n.w) ++ rest.map (fun (n : NodeSlot) => n.w) := by
  induction rest with
  | nil =>
    intro st I _ _
    exact ⟨st, rfl, I, by simp⟩
  | cons nd rest ih =>
    intro st I hf hlen
    have hfnd : freshNode END nd := hf nd (List.mem_cons_self ..)
    have hfrest : ∀ x, x ∈ rest → freshNode END x := fun x hx => hf x (List.mem_cons_of_mem _ hx)
    simp only [List.length_cons] at hlen
    unfold linkFreeNodes
    by_cases hlive : nd.w.isSome = true
    · -- a live node: appended unchanged
      rw [if_pos hlive]
      have hwn : nd.w.isNone = false := by cases hh : nd.w <;> simp_all
      obtain ⟨st', h1, h2, h3⟩ := ih { st with done := st.done ++ [nd], count := st.count + 1 } (by
        constructor
        · show DChain (st.done ++ [nd]) END END st.free (vacantN (st.done ++ [nd]))
          rw [vacantN_snoc, hwn]
          exact I.chain.congr (fun i hi => List.getElem?_append_left (I.chain.lt i hi))
        · show st.count + 1 = _
          rw [List.filter_append]; simp [hlive, I.count]
        · intro i x hx hxl
          rcases getElem?_snoc_cases st.done nd i x hx with h | ⟨_, rfl⟩
          · exact I.fresh i x h hxl
          · exact hfnd) hfrest (by simp; omega)
      refine ⟨st', h1, h2, ?_⟩
      rw [h3]; simp
    · rw [if_neg hlive]
      have hw : nd.w = none := by cases hh : nd.w <;> simp_all
      have hwn : ∀ (a b : Nat), ({ nd with n0 := a, n1 := b } : NodeSlot).w.isNone = true := by simp [hw]
      by_cases hfree : st.free = END
      · -- first vacancy
        simp only [hfree, ne_eq, not_true_eq_false, if_false]
        have hnil : vacantN st.done = [] := by
          have c := I.chain; rw [hfree] at c
          exact c.head_END (by omega)
        obtain ⟨st', h1, h2, h3⟩ := ih { st with done := st.done ++ [{ nd with n0 := END, n1 := END }], free := st.done.length } (by
          constructor
          · show DChain (st.done ++ [_]) END END st.done.length (vacantN (st.done ++ [_]))
            rw [vacantN_snoc, hwn, if_pos rfl, hnil]
            exact .cons END st.done.length ({ nd with n0 := END, n1 := END } : NodeSlot) [] List.getElem?_concat_length hw rfl (.nil _)
          · show st.count = _
            rw [List.filter_append]; simp [hw, I.count]
          · intro i x hx hxl
            rcases getElem?_snoc_cases st.done _ i x hx with h | ⟨_, rfl⟩
            · exact I.fresh i x h hxl
            · simp [hw] at hxl) hfrest (by simp; omega)
        refine ⟨st', ?_, h2, ?_⟩
        · exact h1
        · rw [h3]; simp
      · -- a further vacancy: the previous head gets its back pointer
        rw [if_pos hfree]
        generalize hvl : vacantN st.done = l at *
        have c := I.chain
        rw [hvl] at c
        cases c with
        | nil => exact absurd rfl hfree
        | cons _ _ p l' hp hpw hpn ctail =>
          have hnd : (st.free :: l').Nodup := hvl ▸ nodup_idxDesc _ _ _
          have hfl : st.free < st.done.length := (List.getElem?_eq_some_iff.1 hp).1
          simp only [hp]
          obtain ⟨st', h1, h2, h3⟩ := ih { st with done := (st.done.set st.free { p with n1 := st.done.length }) ++ [{ nd with n0 := st.free, n1 := END }], free := st.done.length } (by
            constructor
            · show DChain (st.done.set st.free _ ++ [_]) END END st.done.length (vacantN (st.done.set st.free _ ++ [_]))
              rw [vacantN_snoc, hwn, if_pos rfl, List.length_set, vacantN_set_n1 _ _ _ _ hp, hvl]
              refine .cons END st.done.length ({ nd with n0 := st.free, n1 := END } : NodeSlot) _ ?_ hw rfl ?_
              · have := @List.getElem?_concat_length _ (st.done.set st.free { p with n1 := st.done.length }) { nd with n0 := st.free, n1 := END }
                rwa [List.length_set] at this
              · refine .cons st.done.length st.free { p with n1 := st.done.length } l' ?_ hpw rfl ?_
                · rw [List.getElem?_append_left (by rw [List.length_set]; exact hfl), List.getElem?_set]
                  simp [hfl]
                · refine ctail.congr ?_
                  intro j hj
                  have hjl : j < st.done.length := ctail.lt j hj
                  have hjf : st.free ≠ j := by
                    intro h; subst h
                    exact (List.nodup_cons.1 hnd).1 hj
                  rw [List.getElem?_append_left (by rw [List.length_set]; exact hjl), List.getElem?_set]
                  simp [hjf]
            · show st.count = _
              rw [List.filter_append]
              have : (st.done.set st.free { p with n1 := st.done.length }).filter (fun (n : NodeSlot) => n.w.isSome)
                  = st.done.filter (fun (n : NodeSlot) => n.w.isSome) := by
                have hpp : st.done[st.free] = p := (List.getElem?_eq_some_iff.1 hp).2
                have : st.done.set st.free { p with n1 := st.done.length } =
                    st.done.take st.free ++ { p with n1 := st.done.length } :: st.done.drop (st.free + 1) := by
                  rw [List.set_eq_take_append_cons_drop]; simp [hfl]
                rw [this]
                conv => rhs; rw [← List.take_append_drop st.free st.done, List.drop_eq_getElem_cons hfl, hpp]
                simp [List.filter_append, List.filter_cons, hpw]
              rw [this]; simp [hw, I.count]
            · intro i x hx hxl
              rcases getElem?_snoc_cases _ _ i x hx with h | ⟨_, rfl⟩
              · rw [List.getElem?_set] at h
                by_cases hfi : st.free = i
                · subst hfi
                  simp [hfl] at h
                  subst h
                  simp [hpw] at hxl
                · simp [hfi] at h
                  exact I.fresh i x h hxl
              · simp [hw] at hxl) hfrest (by simp; omega)
          refine ⟨st', h1, h2, ?_⟩
          rw [h3]
          have : (st.done.set st.free { p with n1 := st.done.length }).map (fun (n : NodeSlot) => n.w)
              = st.done.map (fun (n : NodeSlot) => n.w) := by
            rw [List.map_set]
            have hpp : st.done[st.free] = p := (List.getElem?_eq_some_iff.1 hp).2
            apply List.ext_getElem?
            intro j
            rw [List.getElem?_set]
            by_cases hfj : st.free = j
            · subst hfj; simp [hfl, hpp]
            · simp [hfj]
          simp [this]

end PetgraphModel.SerdeProofs
