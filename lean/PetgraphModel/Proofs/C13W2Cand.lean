import PetgraphModel.Proofs.C13W2State
/-
C13, wave 2 — the candidate lists (`Out` / `In` / `Other`): `next_candidate` returns the least element of
the chosen list on both sides, `next_from_ix` the least later one.
-/
namespace PetgraphModel.C13.Vf2
open PetgraphModel

theorem find_drop_range_some {p : Nat → Bool} {n start i : Nat}
    (h : ((List.range n).drop start).find? p = some i) :
    start ≤ i ∧ i < n ∧ p i = true ∧ ∀ j, start ≤ j → j < i → p j = false := by
  rw [List.find?_eq_some_iff_getElem] at h
  obtain ⟨hp, k, hk, hik, hlt⟩ := h
  simp only [List.length_drop, List.length_range] at hk
  simp only [List.getElem_drop, List.getElem_range] at hik hlt
  subst hik
  refine ⟨by omega, by omega, hp, ?_⟩
  intro j h1 h2
  have := hlt (j - start) (by omega)
  have e : start + (j - start) = j := by omega
  rw [e] at this
  simpa using this

theorem find_drop_range_none {p : Nat → Bool} {n start : Nat}
    (h : ((List.range n).drop start).find? p = none) : ∀ j, start ≤ j → j < n → p j = false := by
  rw [List.find?_eq_none] at h
  intro j h1 h2
  have := h j (by
    rw [List.mem_iff_getElem]
    refine ⟨j - start, by simp; omega, ?_⟩
    simp; omega)
  simpa using this

/-- `v` is an unmapped member of the open list `ol` of state `s` -/
def inList (g : CG) (s : St) (ol : OpenList) (v : Nat) : Bool :=
  match ol with
  | .out => decide (0 < stamp s.out v) && (s.map v).isNone
  | .inn => g.directed && (decide (0 < stamp s.ins v) && (s.map v).isNone)
  | .other => decide (v < s.mapping.length) && (s.map v).isNone

/-- the scan of list `ol` from index `start` -/
def nextOf (g : CG) (s : St) (ol : OpenList) (start : Nat) : Option Nat :=
  match ol with
  | .out => nextOut s start
  | .inn => nextIn g s start
  | .other => nextRest s start

theorem nextFromIx_eq (I : Inst) (m : M) (nx : Nat) (ol : OpenList) :
    nextFromIx I m nx ol = nextOf I.g1 m.s1 ol (nx + 1) := by
  cases ol <;> rfl

theorem nextStamped_eq (vec : List Nat) (s : St) (start : Nat) :
    nextStamped vec s start =
      ((List.range vec.length).drop start).find? fun i => decide (0 < stamp vec i) && (s.map i).isNone := rfl

theorem nextOf_some {g : CG} {s : St} {ol : OpenList} {start i : Nat} (h : nextOf g s ol start = some i) :
    start ≤ i ∧ inList g s ol i = true ∧ ∀ j, start ≤ j → j < i → inList g s ol j = false := by
  cases ol with
  | out =>
    simp only [nextOf, nextOut, nextStamped_eq] at h
    obtain ⟨h1, _, h3, h4⟩ := find_drop_range_some h
    exact ⟨h1, h3, h4⟩
  | inn =>
    simp only [nextOf, nextIn] at h
    split at h
    · rename_i hd
      rw [nextStamped_eq] at h
      obtain ⟨h1, _, h3, h4⟩ := find_drop_range_some h
      refine ⟨h1, by simp only [inList, hd, Bool.true_and]; exact h3, ?_⟩
      intro j hj1 hj2
      simp only [inList, hd, Bool.true_and]; exact h4 j hj1 hj2
    · cases h
  | other =>
    simp only [nextOf, nextRest] at h
    obtain ⟨h1, h2, h3, h4⟩ := find_drop_range_some h
    refine ⟨h1, by simp only [inList, h2, decide_true, Bool.true_and]; exact h3, ?_⟩
    intro j hj1 hj2
    have := h4 j hj1 hj2
    simp only [inList, this, Bool.and_false]

theorem nextOf_none {g : CG} {s : St} {ol : OpenList} {start : Nat} (h : nextOf g s ol start = none) :
    ∀ j, start ≤ j → inList g s ol j = false := by
  intro j hj
  cases ol with
  | out =>
    simp only [nextOf, nextOut, nextStamped_eq] at h
    by_cases hl : j < s.out.length
    · exact find_drop_range_none h j hj hl
    · simp [inList, stamp_of_ge (Nat.le_of_not_lt hl)]
  | inn =>
    simp only [nextOf, nextIn] at h
    split at h
    · rename_i hd
      rw [nextStamped_eq] at h
      by_cases hl : j < s.ins.length
      · simp only [inList, hd, Bool.true_and]; exact find_drop_range_none h j hj hl
      · simp [inList, stamp_of_ge (Nat.le_of_not_lt hl)]
    · rename_i hd
      simp [inList, hd]
  | other =>
    simp only [nextOf, nextRest] at h
    by_cases hl : j < s.mapping.length
    · have := find_drop_range_none h j hj hl
      simp only [inList, this, Bool.and_false]
    · simp [inList, hl]

theorem inList_unmapped {g : CG} {s : St} {ol : OpenList} {v : Nat} (h : inList g s ol v = true) : s.map v = none := by
  cases ol <;> simp only [inList, Bool.and_eq_true, Option.isNone_iff_eq_none] at h
  · exact h.2
  · exact h.2.2
  · exact h.2

/-- what `next_candidate` returns: the heads of the same list on both sides -/
theorem nextCandidate_some {I : Inst} {m : M} {a b : Nat} {ol : OpenList}
    (h : nextCandidate I m = some (a, b, ol)) :
    nextOf I.g0 m.s0 ol 0 = some a ∧ nextOf I.g1 m.s1 ol 0 = some b := by
  unfold nextCandidate at h
  simp only [] at h
  generalize hA0 : nextOut m.s0 0 = a0 at h
  generalize hB0 : nextIn I.g0 m.s0 0 = b0 at h
  generalize hC0 : nextRest m.s0 0 = c0 at h
  generalize hA1 : nextOut m.s1 0 = a1 at h
  generalize hB1 : nextIn I.g1 m.s1 0 = b1 at h
  generalize hC1 : nextRest m.s1 0 = c1 at h
  cases a0 <;> cases b0 <;> cases c0 <;> cases a1 <;> cases b1 <;> cases c1 <;>
    simp only [Option.isSome_some, Option.isSome_none, Option.isNone_some, Option.isNone_none, if_true, if_false,
      Bool.or_true, Bool.or_false, Bool.false_eq_true, reduceCtorEq, Option.some.injEq,
      Prod.mk.injEq] at h <;>
    (obtain ⟨rfl, rfl, rfl⟩ := h
     simp only [nextOf, hA0, hB0, hC0, hA1, hB1, hC1, and_self])

/-- `next_candidate` finds a pair whenever both graphs still have an unmapped node -/
theorem nextCandidate_none {I : Inst} {m : M} (h : nextCandidate I m = none) :
    nextRest m.s0 0 = none ∨ nextRest m.s1 0 = none := by
  unfold nextCandidate at h
  simp only [] at h
  generalize nextOut m.s0 0 = a0 at h
  generalize nextIn I.g0 m.s0 0 = b0 at h
  generalize nextRest m.s0 0 = c0 at h ⊢
  generalize nextOut m.s1 0 = a1 at h
  generalize nextIn I.g1 m.s1 0 = b1 at h
  generalize nextRest m.s1 0 = c1 at h ⊢
  cases a0 <;> cases b0 <;> cases c0 <;> cases a1 <;> cases b1 <;> cases c1 <;>
    simp only [Option.isSome_some, Option.isSome_none, Option.isNone_some, Option.isNone_none, if_true, if_false,
      Bool.or_true, Bool.or_false, Bool.false_eq_true, reduceCtorEq, or_true, true_or, or_self] at h ⊢

end PetgraphModel.C13.Vf2
