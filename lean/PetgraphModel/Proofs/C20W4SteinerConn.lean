import PetgraphModel.Proofs.C20W4Steiner
import PetgraphModel.Proofs.C12Heap
import PetgraphModel.Proofs.C11W3Floyd
/-
C20, wave 4 — the mirror model of `steiner_tree`, part 2: the answer is CONNECTED, for every hash
order.

* Kruskal's loop (`scan`) over ANY list that contains every closure edge leaves every closure edge's
  ends connected by accepted edges (the labelling is sound: equal labels ⇒ connected by accepted edges);
* every accepted closure edge is expanded into a chain of recorded pairs from its target back to its
  source (`walk`), and every recorded pair hangs on such a chain;
* every recorded pair `(prev[s][c], c)` is joined by an edge of the graph (`C11`: `prev[s][c]` is the
  tail of an arc into `c`), so chains of recorded pairs are walks of the retained subgraph;
* a round of `non_terminal_leaves` removes nodes all of whose remaining neighbours coincide; a walk
  between two remaining nodes can be rerouted around them.
-/
namespace PetgraphModel.C20.Steiner
open PetgraphModel PetgraphModel.MGraph PetgraphModel.C20 PetgraphModel.C11M PetgraphModel.MstModel
open PetgraphModel.C11W3 PetgraphModel.DistProofs

/-! ### chains of a symmetric relation -/

inductive Chain (R : Nat → Nat → Prop) : Nat → Nat → Prop
  | refl (a : Nat) : Chain R a a
  | step {a b c : Nat} : Chain R a b → R b c → Chain R a c

theorem Chain.trans {R : Nat → Nat → Prop} {a b c : Nat} (h1 : Chain R a b) (h2 : Chain R b c) : Chain R a c := by
  induction h2 with
  | refl => exact h1
  | step _ hr ih => exact Chain.step ih hr

theorem Chain.single {R : Nat → Nat → Prop} {a b : Nat} (h : R a b) : Chain R a b := Chain.step (Chain.refl a) h

theorem Chain.symm {R : Nat → Nat → Prop} (hs : ∀ a b, R a b → R b a) {a b : Nat} (h : Chain R a b) : Chain R b a := by
  induction h with
  | refl => exact Chain.refl _
  | step _ hr ih => exact (Chain.single (hs _ _ hr)).trans ih

theorem Chain.mono {R R' : Nat → Nat → Prop} (hm : ∀ a b, R a b → R' a b) {a b : Nat} (h : Chain R a b) : Chain R' a b := by
  induction h with
  | refl => exact Chain.refl _
  | step _ hr ih => exact Chain.step ih (hm _ _ hr)

theorem Chain.reach {g : MGraph} {a b : Nat} (h : Chain g.Adj a b) : Reach g a b := by
  induction h with
  | refl => exact Reach.refl _
  | step _ hr ih => exact Reach.step ih hr

/-- the recorded pair list links `a` and `b` -/
def Link (se : List (Nat × Nat)) (a b : Nat) : Prop := (a, b) ∈ se ∨ (b, a) ∈ se

theorem Link.symm {se : List (Nat × Nat)} (a b : Nat) (h : Link se a b) : Link se b a := Or.symm h

/-- an accepted closure edge links its ends -/
def ILink (A : List Item) (a b : Nat) : Prop := ∃ it ∈ A, (it.a = a ∧ it.b = b) ∨ (it.a = b ∧ it.b = a)

theorem ILink.symm {A : List Item} (a b : Nat) (h : ILink A a b) : ILink A b a := by
  obtain ⟨it, hit, h⟩ := h
  exact ⟨it, hit, Or.symm h⟩

/-! ### the expansion -/

theorem walk_spec {prev : Nat → Nat → Option Nat} {src : Nat} :
    ∀ (f cur : Nat) (acc acc' : List (Nat × Nat)), walk prev src f cur acc = some acc' →
      (∀ x ∈ acc, x ∈ acc') ∧ Chain (Link acc') cur src ∧
      (∀ pr ∈ acc', pr ∈ acc ∨ (prev src pr.2 = some pr.1 ∧ pr.2 ≠ src ∧
        Chain (Link acc') pr.1 src ∧ Chain (Link acc') pr.2 src)) := by
  intro f
  induction f with
  | zero => intro cur acc acc' h; simp [walk] at h
  | succ f ih =>
    intro cur acc acc' h
    simp only [walk] at h
    split at h
    · rename_i hc
      simp at h; subst h; subst hc
      exact ⟨fun _ hx => hx, Chain.refl _, fun pr hpr => Or.inl hpr⟩
    · rename_i hc
      split at h
      · rename_i p hp
        obtain ⟨h1, h2, h3⟩ := ih p ((p, cur) :: acc) acc' h
        have hmem : (p, cur) ∈ acc' := h1 _ (List.mem_cons_self ..)
        have hcur : Chain (Link acc') cur src := (Chain.single (Or.inr hmem : Link acc' cur p)).trans h2
        refine ⟨fun x hx => h1 x (List.mem_cons_of_mem _ hx), hcur, ?_⟩
        intro pr hpr
        rcases h3 pr hpr with h | h
        · rcases List.mem_cons.mp h with h | h
          · subst h
            exact Or.inr ⟨hp, hc, h2, hcur⟩
          · exact Or.inl h
        · exact Or.inr h
      · cases h

theorem link_mono {se se' : List (Nat × Nat)} (h : ∀ x ∈ se, x ∈ se') (a b : Nat) (hl : Link se a b) : Link se' a b :=
  hl.elim (fun h1 => Or.inl (h _ h1)) (fun h1 => Or.inr (h _ h1))

theorem expand_spec {prev : Nat → Nat → Option Nat} {n : Nat} :
    ∀ (items : List Item) (acc se : List (Nat × Nat)), expand prev n items acc = some se →
      (∀ x ∈ acc, x ∈ se) ∧ (∀ it ∈ items, Chain (Link se) it.b it.a) ∧
      (∀ pr ∈ se, pr ∈ acc ∨ ∃ it ∈ items, prev it.a pr.2 = some pr.1 ∧ pr.2 ≠ it.a ∧
        Chain (Link se) pr.1 it.a ∧ Chain (Link se) pr.2 it.a) := by
  intro items
  induction items with
  | nil =>
    intro acc se h
    simp [expand] at h; subst h
    exact ⟨fun _ hx => hx, fun _ h => (nomatch h), fun pr hpr => Or.inl hpr⟩
  | cons it rest ih =>
    intro acc se h
    simp only [expand] at h
    split at h
    · rename_i acc' hw
      obtain ⟨w1, w2, w3⟩ := walk_spec _ _ _ _ hw
      obtain ⟨e1, e2, e3⟩ := ih acc' se h
      have hm := link_mono e1
      refine ⟨fun x hx => e1 x (w1 x hx), ?_, ?_⟩
      · intro it' hit'
        rcases List.mem_cons.mp hit' with h | h
        · subst h; exact Chain.mono hm w2
        · exact e2 it' h
      · intro pr hpr
        rcases e3 pr hpr with h | ⟨it', hit', h⟩
        · rcases w3 pr h with h | ⟨h1, h2, h3, h4⟩
          · exact Or.inl h
          · exact Or.inr ⟨it, List.mem_cons_self .., h1, h2, Chain.mono hm h3, Chain.mono hm h4⟩
        · exact Or.inr ⟨it', List.mem_cons_of_mem _ hit', h⟩
    · cases h

/-! ### Kruskal's loop -/

theorem lookup_map_snd (lab : List (Nat × Nat)) (f : Nat → Nat) (x : Nat) :
    (lab.map fun p => (p.1, f p.2)).lookup x = (lab.lookup x).map f := by
  induction lab with
  | nil => rfl
  | cons p lab ih =>
    obtain ⟨k, l⟩ := p
    by_cases hx : x == k <;> simp [List.lookup_cons, hx, ih]

theorem lookup_isSome_of_key {lab : List (Nat × Nat)} {x : Nat} (h : x ∈ lab.map (·.1)) :
    ∃ l, lab.lookup x = some l := by
  induction lab with
  | nil => cases h
  | cons p lab ih =>
    obtain ⟨k, l0⟩ := p
    by_cases hx : x == k
    · exact ⟨l0, by simp [List.lookup_cons, hx]⟩
    · have : x ∈ lab.map (·.1) := by
        rcases List.mem_cons.mp h with h | h
        · exact absurd (by simp [h]) hx
        · exact h
      obtain ⟨l, hl⟩ := ih this
      exact ⟨l, by simp [List.lookup_cons, hx, hl]⟩

theorem lookup_mem {lab : List (Nat × Nat)} {x l : Nat} (h : lab.lookup x = some l) : (x, l) ∈ lab := by
  induction lab with
  | nil => simp at h
  | cons p lab ih =>
    obtain ⟨k, l0⟩ := p
    by_cases hx : x == k
    · simp [List.lookup_cons, hx] at h
      have : x = k := by simpa using hx
      rw [this, ← h]; exact List.mem_cons_self ..
    · simp [List.lookup_cons, hx] at h
      exact List.mem_cons_of_mem _ (ih h)

theorem find_union {lab : List (Nat × Nat)} {a b x : Nat} (hx : x ∈ lab.map (·.1)) :
    find (union lab a b) x = if find lab x = find lab b then find lab a else find lab x := by
  obtain ⟨l, hl⟩ := lookup_isSome_of_key hx
  have h1 : find lab x = l := by simp [find, hl]
  have h2 : find (union lab a b) x =
      (((lab.map fun p => (p.1, (fun q => if q = find lab b then find lab a else q) p.2)).lookup x).getD x) := rfl
  have h3 := lookup_map_snd lab (fun q => if q = find lab b then find lab a else q) x
  rw [h2]
  refine (congrArg (fun o => o.getD x) h3).trans ?_
  rw [hl, h1]
  simp

theorem keys_union (lab : List (Nat × Nat)) (a b : Nat) : (union lab a b).map (·.1) = lab.map (·.1) := by
  simp [union, List.map_map, Function.comp_def]

theorem ilink_mono {A A' : List Item} (h : ∀ x ∈ A, x ∈ A') (a b : Nat) (hl : ILink A a b) : ILink A' a b := by
  obtain ⟨it, hit, h1⟩ := hl
  exact ⟨it, h _ hit, h1⟩

/-- soundness of the labelling carries through the loop: every scanned edge ends up with its ends
connected by accepted edges -/
theorem scan_spec : ∀ (rest : List Item) (lab : List (Nat × Nat)) (A : List Item),
    (∀ it ∈ rest, it.a ∈ lab.map (·.1) ∧ it.b ∈ lab.map (·.1)) →
    (∀ x y, x ∈ lab.map (·.1) → y ∈ lab.map (·.1) → find lab x = find lab y → Chain (ILink A) x y) →
    (∀ it ∈ rest, Chain (ILink (A ++ scan lab rest)) it.a it.b) ∧ (∀ it ∈ scan lab rest, it ∈ rest) := by
  intro rest
  induction rest with
  | nil => intro lab A _ _; exact ⟨fun _ h => (nomatch h), fun _ h => by simp [scan] at h⟩
  | cons it rest ih =>
    intro lab A hkeys hinv
    have hk := hkeys it (List.mem_cons_self ..)
    have hkr : ∀ it' ∈ rest, it'.a ∈ lab.map (·.1) ∧ it'.b ∈ lab.map (·.1) :=
      fun it' h => hkeys it' (List.mem_cons_of_mem _ h)
    simp only [scan]
    split
    · rename_i heq
      obtain ⟨i1, i2⟩ := ih lab A hkr hinv
      refine ⟨?_, fun x hx => List.mem_cons_of_mem _ (i2 x hx)⟩
      intro it' hit'
      rcases List.mem_cons.mp hit' with h | h
      · subst h
        exact Chain.mono (ilink_mono (fun x hx => List.mem_append_left _ hx)) (hinv _ _ hk.1 hk.2 heq)
      · exact i1 it' h
    · rename_i hne
      have hsymA : ∀ a b, ILink (A ++ [it]) a b → ILink (A ++ [it]) b a := fun a b => ILink.symm a b
      have hmonoA : ∀ a b, ILink A a b → ILink (A ++ [it]) a b :=
        ilink_mono (fun x hx => List.mem_append_left _ hx)
      have hit : Chain (ILink (A ++ [it])) it.a it.b :=
        Chain.single ⟨it, by simp, Or.inl ⟨rfl, rfl⟩⟩
      have hinv' : ∀ x y, x ∈ (union lab it.a it.b).map (·.1) → y ∈ (union lab it.a it.b).map (·.1) →
          find (union lab it.a it.b) x = find (union lab it.a it.b) y → Chain (ILink (A ++ [it])) x y := by
        intro x y hx hy hxy
        rw [keys_union] at hx hy
        rw [find_union hx, find_union hy] at hxy
        by_cases h1 : find lab x = find lab it.b
        · by_cases h2 : find lab y = find lab it.b
          · exact Chain.mono hmonoA (hinv x y hx hy (h1.trans h2.symm))
          · simp only [h1, h2, if_true, if_false] at hxy
            -- x ~ b, a ~ y
            have c1 := Chain.mono hmonoA (hinv x it.b hx hk.2 h1)
            have c2 := Chain.mono hmonoA (hinv it.a y hk.1 hy hxy)
            exact c1.trans ((Chain.symm hsymA hit).trans c2)
        · by_cases h2 : find lab y = find lab it.b
          · simp only [h1, h2, if_true, if_false] at hxy
            have c1 := Chain.mono hmonoA (hinv x it.a hx hk.1 hxy)
            have c2 := Chain.mono hmonoA (hinv it.b y hk.2 hy h2.symm)
            exact c1.trans (hit.trans c2)
          · simp only [h1, h2, if_false] at hxy
            exact Chain.mono hmonoA (hinv x y hx hy hxy)
      have hkr' : ∀ it' ∈ rest, it'.a ∈ (union lab it.a it.b).map (·.1) ∧ it'.b ∈ (union lab it.a it.b).map (·.1) := by
        intro it' h; rw [keys_union]; exact hkr it' h
      obtain ⟨i1, i2⟩ := ih (union lab it.a it.b) (A ++ [it]) hkr' hinv'
      have happ : A ++ it :: scan (union lab it.a it.b) rest = (A ++ [it]) ++ scan (union lab it.a it.b) rest := by simp
      refine ⟨?_, ?_⟩
      · intro it' hit'
        rw [happ]
        rcases List.mem_cons.mp hit' with h | h
        · subst h
          exact Chain.mono (ilink_mono (fun x hx => List.mem_append_left _ hx)) hit
        · exact i1 it' h
      · intro x hx
        rcases List.mem_cons.mp hx with h | h
        · exact h ▸ List.mem_cons_self ..
        · exact List.mem_cons_of_mem _ (i2 x h)

theorem mem_initLab_keys {items : List Item} {it : Item} (h : it ∈ items) :
    it.a ∈ (initLab items).map (·.1) ∧ it.b ∈ (initLab items).map (·.1) := by
  have h1 : (it.a, it.a) ∈ initLab items := by
    simp only [initLab, List.mem_flatMap]; exact ⟨it, h, by simp⟩
  have h2 : (it.b, it.b) ∈ initLab items := by
    simp only [initLab, List.mem_flatMap]; exact ⟨it, h, by simp⟩
  exact ⟨List.mem_map.mpr ⟨_, h1, rfl⟩, List.mem_map.mpr ⟨_, h2, rfl⟩⟩

theorem find_initLab (items : List Item) (x : Nat) : find (initLab items) x = x := by
  unfold find
  cases hl : (initLab items).lookup x with
  | none => rfl
  | some l =>
    have hmem : (x, l) ∈ initLab items := lookup_mem hl
    simp only [initLab, List.mem_flatMap] at hmem
    obtain ⟨it, _, h⟩ := hmem
    simp at h
    rcases h with ⟨h1, h2⟩ | ⟨h1, h2⟩ <;> simp [h1, h2]

/-- **Kruskal's loop connects whatever it scans**: the ends of every scanned edge are connected by
accepted edges, and the accepted edges are scanned ones -/
theorem mstOf_spec (pops : List Item) :
    (∀ it ∈ pops, Chain (ILink (mstOf pops)) it.a it.b) ∧ (∀ it ∈ mstOf pops, it ∈ pops) := by
  have := scan_spec pops (initLab pops) [] (fun it h => mem_initLab_keys h)
    (fun x y _ _ h => by rw [find_initLab, find_initLab] at h; subst h; exact Chain.refl _)
  simpa [mstOf] using this

/-! ### the closure -/

theorem mem_dedup {l : List Item} {x : Item} : x ∈ dedup l ↔ x ∈ l := by
  induction l with
  | nil => simp [dedup]
  | cons y ys ih =>
    simp only [dedup]
    split
    · rename_i hc
      have hy : y ∈ dedup ys := by simpa using hc
      rw [ih, List.mem_cons]
      constructor
      · exact Or.inr
      · rintro (h | h)
        · subst h; exact ih.mp hy
        · exact h
    · simp [List.mem_cons, ih]

theorem closureAux_spec {v : View} : ∀ (ps : List (Nat × Nat)) (c : List Item), closureAux v ps = some c →
    (∀ p ∈ ps, ∃ it ∈ c, it.a = p.1 ∧ it.b = p.2) ∧ (∀ it ∈ c, (it.a, it.b) ∈ ps) := by
  intro ps
  induction ps with
  | nil => intro c h; simp [closureAux] at h; subst h; simp
  | cons p ps ih =>
    intro c h
    simp only [closureAux] at h
    split at h
    · rename_i d rest hd hrest
      simp at h; subst h
      obtain ⟨i1, i2⟩ := ih rest hrest
      refine ⟨?_, ?_⟩
      · intro q hq
        rcases List.mem_cons.mp hq with h | h
        · subst h; exact ⟨_, List.mem_cons_self .., rfl, rfl⟩
        · obtain ⟨it, hit, h1⟩ := i1 q h
          exact ⟨it, List.mem_cons_of_mem _ hit, h1⟩
      · intro it hit
        rcases List.mem_cons.mp hit with h | h
        · subst h; exact List.mem_cons_self ..
        · exact List.mem_cons_of_mem _ (i2 it h)
    · cases h

theorem mem_pairs {ts : List Nat} {a b : Nat} (h : (a, b) ∈ pairs ts) : a ∈ ts ∧ b ∈ ts := by
  induction ts with
  | nil => simp [pairs] at h
  | cons t ts ih =>
    simp only [pairs, List.mem_append, List.mem_map] at h
    rcases h with ⟨u, hu, h⟩ | h
    · simp at h; obtain ⟨h1, h2⟩ := h; subst h1; subst h2
      exact ⟨List.mem_cons_self .., List.mem_cons_of_mem _ hu⟩
    · exact ⟨List.mem_cons_of_mem _ (ih h).1, List.mem_cons_of_mem _ (ih h).2⟩

theorem pairs_complete {ts : List Nat} {a b : Nat} (ha : a ∈ ts) (hb : b ∈ ts) :
    a = b ∨ (a, b) ∈ pairs ts ∨ (b, a) ∈ pairs ts := by
  induction ts with
  | nil => cases ha
  | cons t ts ih =>
    simp only [pairs, List.mem_append, List.mem_map]
    rcases List.mem_cons.mp ha with h1 | h1 <;> rcases List.mem_cons.mp hb with h2 | h2
    · exact Or.inl (h1.trans h2.symm)
    · subst h1; exact Or.inr (Or.inl (Or.inl ⟨b, h2, rfl⟩))
    · subst h2; exact Or.inr (Or.inr (Or.inl ⟨a, h1, rfl⟩))
    · rcases ih h1 h2 with h | h | h
      · exact Or.inl h
      · exact Or.inr (Or.inl (Or.inr h))
      · exact Or.inr (Or.inr (Or.inr h))

/-- the closure holds an entry for every pair of distinct terminals (one orientation), between
terminals only -/
theorem closure_spec {v : View} {terms : List Nat} {c : List Item} (h : closure v terms = some c) :
    (∀ a ∈ terms, ∀ b ∈ terms, a ≠ b → ILink c a b) ∧ (∀ it ∈ c, it.a ∈ terms ∧ it.b ∈ terms) := by
  unfold closure at h
  cases hc : closureAux v (pairs terms) with
  | none => simp [hc] at h
  | some c0 =>
    simp [hc] at h; subst h
    obtain ⟨h1, h2⟩ := closureAux_spec _ _ hc
    refine ⟨?_, ?_⟩
    · intro a ha b hb hab
      rcases pairs_complete ha hb with h | h | h
      · exact absurd h hab
      · obtain ⟨it, hit, e1, e2⟩ := h1 _ h
        exact ⟨it, mem_dedup.mpr hit, Or.inl ⟨e1, e2⟩⟩
      · obtain ⟨it, hit, e1, e2⟩ := h1 _ h
        exact ⟨it, mem_dedup.mpr hit, Or.inr ⟨e1, e2⟩⟩
    · intro it hit
      exact mem_pairs (h2 it (mem_dedup.mp hit))

/-- the binary heap hands Kruskal's loop a rearrangement of what was pushed -/
theorem popOrder_perm (l : List Item) : (popOrder l).Perm l := by
  unfold popOrder
  refine (popAll_perm _ _ (Nat.lt_succ_self _)).trans ?_
  have := foldl_push_perm (fun x : Item => x) l []
  simp only [List.map_id', List.append_nil] at this
  exact this.trans (List.reverse_perm l)

/-! ### the retained subgraph -/

/-- the property of `prev` the expansion relies on: an entry is joined to its column by an edge -/
def PrevOk (g : MGraph) (prev : Nat → Nat → Option Nat) : Prop :=
  ∀ s ∈ g.nodes, ∀ c p, c ≠ s → prev s c = some p →
    ∃ e ∈ g.edges, (e.src = p ∧ e.tgt = c) ∨ (e.src = c ∧ e.tgt = p)

/-- the answer before pruning, and after the nodes `R` have gone -/
def sub (n0 : List Nat) (e0 : List Edge) (R : List Nat) : MGraph :=
  withEdges (n0.filter fun x => !R.contains x) (dropNodes R e0)

theorem adj_sub {n0 : List Nat} {e0 : List Edge} {R : List Nat} {a b : Nat} :
    (sub n0 e0 R).Adj a b ↔
      ∃ e ∈ e0, e.src ∉ R ∧ e.tgt ∉ R ∧ ((e.src = a ∧ e.tgt = b) ∨ (e.src = b ∧ e.tgt = a)) := by
  simp only [sub, withEdges, MGraph.Adj, dropNodes, List.mem_filter, Bool.and_eq_true,
    Bool.not_eq_true', List.contains_eq_mem, decide_eq_false_iff_not]
  constructor
  · rintro ⟨e, ⟨he, h1, h2⟩, h | ⟨_, h⟩⟩
    · exact ⟨e, he, h1, h2, Or.inl h⟩
    · exact ⟨e, he, h1, h2, Or.inr h⟩
  · rintro ⟨e, he, h1, h2, h | h⟩
    · exact ⟨e, ⟨he, h1, h2⟩, Or.inl h⟩
    · exact ⟨e, ⟨he, h1, h2⟩, Or.inr ⟨trivial, h⟩⟩

theorem adj_sub_symm {n0 : List Nat} {e0 : List Edge} {R : List Nat} {a b : Nat}
    (h : (sub n0 e0 R).Adj a b) : (sub n0 e0 R).Adj b a := by
  rw [adj_sub] at h ⊢
  obtain ⟨e, he, h1, h2, h⟩ := h
  exact ⟨e, he, h1, h2, Or.symm h⟩

theorem adj_sub_append {n0 : List Nat} {e0 : List Edge} {R L : List Nat} {a b : Nat} :
    (sub n0 e0 (R ++ L)).Adj a b ↔ (sub n0 e0 R).Adj a b ∧ a ∉ L ∧ b ∉ L := by
  simp only [adj_sub, List.mem_append, not_or]
  constructor
  · rintro ⟨e, he, ⟨h1, h1'⟩, ⟨h2, h2'⟩, h⟩
    refine ⟨⟨e, he, h1, h2, h⟩, ?_⟩
    rcases h with ⟨ha, hb⟩ | ⟨hb, ha⟩
    · exact ⟨ha ▸ h1', hb ▸ h2'⟩
    · exact ⟨ha ▸ h2', hb ▸ h1'⟩
  · rintro ⟨⟨e, he, h1, h2, h⟩, hal, hbl⟩
    refine ⟨e, he, ?_, ?_, h⟩
    · rcases h with ⟨ha, _⟩ | ⟨hb, _⟩
      · exact ⟨h1, ha ▸ hal⟩
      · exact ⟨h1, hb ▸ hbl⟩
    · rcases h with ⟨_, hb⟩ | ⟨_, ha⟩
      · exact ⟨h2, hb ▸ hbl⟩
      · exact ⟨h2, ha ▸ hal⟩

theorem mem_nbrs {es : List Edge} {x a : Nat} :
    a ∈ nbrs es x ↔ ∃ e ∈ es, (e.src = x ∧ e.tgt = a) ∨ (e.tgt = x ∧ e.src = a) := by
  simp only [nbrs, List.mem_filterMap]
  constructor
  · rintro ⟨e, he, h⟩
    refine ⟨e, he, ?_⟩
    split at h
    · rename_i h1; simp at h; exact Or.inl ⟨h1, h⟩
    · split at h
      · rename_i h2; simp at h; exact Or.inr ⟨h2, h⟩
      · cases h
  · rintro ⟨e, he, h⟩
    refine ⟨e, he, ?_⟩
    rcases h with ⟨h1, h2⟩ | ⟨h1, h2⟩
    · simp [h1, h2]
    · subst h1; subst h2
      by_cases hs : e.src = e.tgt
      · simp [hs]
      · simp [hs]

theorem single_unique : ∀ {l : List Nat}, single l = true → ∀ a ∈ l, ∀ b ∈ l, a = b
  | [], h, _, _, _, _ => by simp [single] at h
  | c :: rest, h, a, ha, b, hb => by
    simp only [single, List.all_eq_true, beq_iff_eq] at h
    have hc : ∀ x ∈ c :: rest, x = c := by
      intro x hx
      rcases List.mem_cons.mp hx with h1 | h1
      · exact h1
      · exact h x h1
    rw [hc a ha, hc b hb]

/-- a node removed in a round has all its remaining neighbours equal -/
theorem leaf_unique {n0 : List Nat} {e0 : List Edge} {terms R : List Nat} {l a b : Nat}
    (hl : l ∈ leafRound n0 e0 terms R) (ha : (sub n0 e0 R).Adj l a) (hb : (sub n0 e0 R).Adj l b) : a = b := by
  have hs := (mem_leafRound.mp hl).2.2.2
  have hmem : ∀ u, (sub n0 e0 R).Adj l u → u ∈ (nbrs e0 l).filter fun y => !R.contains y := by
    intro u hu
    rw [adj_sub] at hu
    obtain ⟨e, he, h1, h2, h⟩ := hu
    simp only [List.mem_filter, Bool.not_eq_true', List.contains_eq_mem, decide_eq_false_iff_not]
    rcases h with ⟨h3, h4⟩ | ⟨h3, h4⟩
    · exact ⟨mem_nbrs.mpr ⟨e, he, Or.inl ⟨h3, h4⟩⟩, h4 ▸ h2⟩
    · exact ⟨mem_nbrs.mpr ⟨e, he, Or.inr ⟨h4, h3⟩⟩, h3 ▸ h1⟩
  exact single_unique hs a (hmem a ha) b (hmem b hb)

/-- walks between remaining nodes can be rerouted around the nodes removed in one round -/
theorem reroute {n0 : List Nat} {e0 : List Edge} {terms R : List Nat} {x y : Nat}
    (hx : x ∉ leafRound n0 e0 terms R) (h : Reach (sub n0 e0 R) x y) :
    (y ∉ leafRound n0 e0 terms R → Reach (sub n0 e0 (R ++ leafRound n0 e0 terms R)) x y) ∧
    (y ∈ leafRound n0 e0 terms R → ∀ u, (sub n0 e0 R).Adj y u →
      Reach (sub n0 e0 (R ++ leafRound n0 e0 terms R)) x u) := by
  have F1 : ∀ c, Reach (sub n0 e0 (R ++ leafRound n0 e0 terms R)) x c → c ∉ leafRound n0 e0 terms R := by
    intro c hc
    induction hc with
    | refl => exact hx
    | step _ hadj _ => exact (adj_sub_append.mp hadj).2.2
  induction h with
  | refl => exact ⟨fun _ => Reach.refl _, fun h => absurd h hx⟩
  | step _ hadj ih =>
    rename_i b c _
    constructor
    · intro hc
      by_cases hb : b ∈ leafRound n0 e0 terms R
      · exact ih.2 hb c hadj
      · exact Reach.step (ih.1 hb) (adj_sub_append.mpr ⟨hadj, hb, hc⟩)
    · intro hc u hu
      have hub : u = b := leaf_unique hc hu (adj_sub_symm hadj)
      subst hub
      by_cases hb : u ∈ leafRound n0 e0 terms R
      · exact absurd hc (F1 c (ih.2 hb c hadj))
      · exact ih.1 hb

def Connected (h : MGraph) : Prop := ∀ x ∈ h.nodes, ∀ y ∈ h.nodes, Reach h x y

theorem connected_round {n0 : List Nat} {e0 : List Edge} {terms R : List Nat}
    (h : Connected (sub n0 e0 R)) : Connected (sub n0 e0 (R ++ leafRound n0 e0 terms R)) := by
  intro x hx y hy
  simp only [sub, withEdges, List.mem_filter, Bool.not_eq_true', List.contains_eq_mem,
    decide_eq_false_iff_not, List.mem_append, not_or] at hx hy
  have hxr : x ∈ (sub n0 e0 R).nodes := by
    simp only [sub, withEdges, List.mem_filter, Bool.not_eq_true', List.contains_eq_mem, decide_eq_false_iff_not]
    exact ⟨hx.1, hx.2.1⟩
  have hyr : y ∈ (sub n0 e0 R).nodes := by
    simp only [sub, withEdges, List.mem_filter, Bool.not_eq_true', List.contains_eq_mem, decide_eq_false_iff_not]
    exact ⟨hy.1, hy.2.1⟩
  exact (reroute hx.2.2 (h x hxr y hyr)).1 hy.2.2

theorem sub_nil (n0 : List Nat) (e0 : List Edge) : sub n0 e0 [] = withEdges n0 e0 := by
  have h1 : ∀ l : List Nat, l.filter (fun _ => true) = l := fun l => List.filter_eq_self.mpr (by simp)
  have h2 : ∀ l : List Edge, l.filter (fun _ => true) = l := fun l => List.filter_eq_self.mpr (by simp)
  simp [sub, dropNodes, h1, h2]

/-- **pruning keeps the answer connected** -/
theorem prune_connected {n0 : List Nat} {e0 : List Edge} {terms : List Nat} {f : Nat} {R : List Nat}
    (h0 : Connected (withEdges n0 e0)) (h : prune n0 e0 terms f [] = some R) : Connected (sub n0 e0 R) :=
  (prune_induct (nodes := n0) (es := e0) (terms := terms) (fun R => Connected (sub n0 e0 R))
    (fun _ hR _ => connected_round hR) f [] R (by rw [sub_nil]; exact h0) h).1

/-! ### before pruning: chains of recorded pairs are walks of the retained subgraph -/

theorem mem_seNodes {se : List (Nat × Nat)} {pr : Nat × Nat} (h : pr ∈ se) : pr.1 ∈ seNodes se ∧ pr.2 ∈ seNodes se := by
  simp only [seNodes, List.mem_flatMap]
  exact ⟨⟨pr, h, by simp⟩, ⟨pr, h, by simp⟩⟩

theorem link_adj {g : MGraph} (hwf : g.WellFormed) {se : List (Nat × Nat)} {terms : List Nat}
    (hj : ∀ pr ∈ se, ∃ e ∈ g.edges, (e.src = pr.1 ∧ e.tgt = pr.2) ∨ (e.src = pr.2 ∧ e.tgt = pr.1))
    (a b : Nat) (h : Link se a b) : (withEdges (keptNodes g se terms) (baseEdges g se terms)).Adj a b := by
  have key : ∀ pr ∈ se, ∃ e ∈ baseEdges g se terms, (e.src = pr.1 ∧ e.tgt = pr.2) ∨ (e.src = pr.2 ∧ e.tgt = pr.1) := by
    intro pr hpr
    obtain ⟨e, he, hor⟩ := hj pr hpr
    obtain ⟨n1, n2⟩ := mem_seNodes hpr
    have hin := hwf.2 e he
    have hk : ∀ z, z ∈ seNodes se → z ∈ g.nodes → z ∈ keptNodes g se terms := by
      intro z hz hzn
      simp [keptNodes, List.mem_filter, hz, hzn]
    refine ⟨e, ?_, hor⟩
    simp only [baseEdges, keptEdges, List.mem_filter, Bool.and_eq_true, List.contains_eq_mem, decide_eq_true_eq]
    rcases hor with ⟨h1, h2⟩ | ⟨h1, h2⟩
    · refine ⟨⟨he, ?_⟩, hk _ (h1 ▸ n1) hin.1, hk _ (h2 ▸ n2) hin.2⟩
      simp only [pairIn, Bool.or_eq_true, List.contains_eq_mem, decide_eq_true_eq]
      exact Or.inl (by rw [h1, h2]; exact hpr)
    · refine ⟨⟨he, ?_⟩, hk _ (h1 ▸ n2) hin.1, hk _ (h2 ▸ n1) hin.2⟩
      simp only [pairIn, Bool.or_eq_true, List.contains_eq_mem, decide_eq_true_eq]
      exact Or.inr (by rw [h1, h2]; exact hpr)
  simp only [withEdges, MGraph.Adj]
  rcases h with h | h
  · obtain ⟨e, he, hor⟩ := key _ h
    rcases hor with h1 | h1
    · exact ⟨e, he, Or.inl h1⟩
    · exact ⟨e, he, Or.inr ⟨trivial, h1⟩⟩
  · obtain ⟨e, he, hor⟩ := key _ h
    rcases hor with h1 | h1
    · exact ⟨e, he, Or.inr ⟨trivial, h1⟩⟩
    · exact ⟨e, he, Or.inl h1⟩

/-- **the retained subgraph is connected** (before pruning), for ANY list `pops` that contains an
entry for every pair of distinct terminals -/
theorem base_connected {g : MGraph} (hwf : g.WellFormed) {prev : Nat → Nat → Option Nat} (hprev : PrevOk g prev)
    {terms : List Nat} (hterms : ∀ t ∈ terms, t ∈ g.nodes) {pops : List Item}
    (hall : ∀ a ∈ terms, ∀ b ∈ terms, a ≠ b → ILink pops a b)
    (hends : ∀ it ∈ pops, it.a ∈ terms ∧ it.b ∈ terms)
    {n : Nat} {se : List (Nat × Nat)} (hse : expand prev n (mstOf pops) [] = some se) :
    Connected (withEdges (keptNodes g se terms) (baseEdges g se terms)) := by
  obtain ⟨_, e2, e3⟩ := expand_spec _ _ _ hse
  obtain ⟨m1, m2⟩ := mstOf_spec pops
  have hsym : ∀ a b, Link se a b → Link se b a := Link.symm
  -- every accepted closure edge: chain of recorded pairs between its ends
  have hmst : ∀ a b, ILink (mstOf pops) a b → Chain (Link se) a b := by
    rintro a b ⟨it, hit, h⟩
    rcases h with ⟨h1, h2⟩ | ⟨h1, h2⟩
    · rw [← h1, ← h2]; exact Chain.symm hsym (e2 it hit)
    · rw [← h1, ← h2]; exact e2 it hit
  have hflat : ∀ a b, Chain (ILink (mstOf pops)) a b → Chain (Link se) a b := by
    intro a b h
    induction h with
    | refl => exact Chain.refl _
    | step _ hr ih => exact ih.trans (hmst _ _ hr)
  -- terminals are pairwise chained
  have hterm : ∀ a ∈ terms, ∀ b ∈ terms, Chain (Link se) a b := by
    intro a ha b hb
    by_cases hab : a = b
    · subst hab; exact Chain.refl _
    · obtain ⟨it, hit, h⟩ := hall a ha b hb hab
      have := hflat _ _ (m1 it hit)
      rcases h with ⟨h1, h2⟩ | ⟨h1, h2⟩
      · rw [← h1, ← h2]; exact this
      · rw [← h1, ← h2]; exact Chain.symm hsym this
  -- every recorded node is chained to a terminal, every recorded pair is joined by an edge
  have hrec : ∀ pr ∈ se, (∃ t ∈ terms, Chain (Link se) pr.1 t ∧ Chain (Link se) pr.2 t) ∧
      ∃ e ∈ g.edges, (e.src = pr.1 ∧ e.tgt = pr.2) ∨ (e.src = pr.2 ∧ e.tgt = pr.1) := by
    intro pr hpr
    rcases e3 pr hpr with h | ⟨it, hit, h1, h2, h3, h4⟩
    · cases h
    · have hta := (hends it (m2 it hit)).1
      exact ⟨⟨it.a, hta, h3, h4⟩, hprev it.a (hterms _ hta) pr.2 pr.1 h2 h1⟩
  have hadj := link_adj hwf (terms := terms) (fun pr hpr => (hrec pr hpr).2)
  have hreach : ∀ a b, Chain (Link se) a b →
      Reach (withEdges (keptNodes g se terms) (baseEdges g se terms)) a b :=
    fun a b h => Chain.reach (Chain.mono hadj h)
  have hnode : ∀ x ∈ keptNodes g se terms, ∃ t ∈ terms, Chain (Link se) x t := by
    intro x hx
    simp only [keptNodes, List.mem_filter, Bool.or_eq_true, List.contains_eq_mem, decide_eq_true_eq] at hx
    rcases hx.2 with h | h
    · simp only [seNodes, List.mem_flatMap] at h
      obtain ⟨pr, hpr, hx'⟩ := h
      obtain ⟨⟨t, ht, c1, c2⟩, _⟩ := hrec pr hpr
      simp at hx'
      rcases hx' with h | h
      · exact ⟨t, ht, h ▸ c1⟩
      · exact ⟨t, ht, h ▸ c2⟩
    · exact ⟨x, h, Chain.refl _⟩
  intro x hx y hy
  obtain ⟨tx, htx, cx⟩ := hnode x hx
  obtain ⟨ty, hty, cy⟩ := hnode y hy
  exact hreach _ _ (cx.trans ((hterm tx htx ty hty).trans (Chain.symm hsym cy)))

/-! ### `prev` of Floyd–Warshall -/

theorem prevOk_of_floyd (B : Meas) (v : View) (hwf : v.g.WellFormed) (Wm : Int) (hWm : 0 ≤ Wm)
    (hW : ∀ e ∈ v.g.edges, -Wm ≤ e.w ∧ e.w ≤ Wm) (hfit : LinFit B v.g Wm)
    (fw : FW) (h : floydWarshall B v = some fw) : PrevOk v.g (prevOf fw) := by
  intro s hs c p hc hp
  unfold prevOf at hp
  obtain ⟨a, w, _, _, harc, _, _⟩ := (floydWarshall_prev_arc_lin B v hwf Wm hWm hW hfit fw h s hs c hc).2 p hp
  obtain ⟨e, he, _, hor⟩ := mem_arcs.mp harc
  rcases hor with h1 | ⟨_, h1⟩
  · exact ⟨e, he, Or.inl h1⟩
  · exact ⟨e, he, Or.inr h1⟩

/-- **the answer is connected**, for every pop order that contains an entry for every pair of distinct
terminals (as every run of the real code does) -/
theorem steinerFrom_connected (B : Meas) (v : View) (hwf : v.g.WellFormed) (Wm : Int) (hWm : 0 ≤ Wm)
    (hW : ∀ e ∈ v.g.edges, -Wm ≤ e.w ∧ e.w ≤ Wm) (hfit : LinFit B v.g Wm)
    {terms : List Nat} (hterms : ∀ t ∈ terms, t ∈ v.g.nodes) {pops : List Item}
    (hall : ∀ a ∈ terms, ∀ b ∈ terms, a ≠ b → ILink pops a b)
    (hends : ∀ it ∈ pops, it.a ∈ terms ∧ it.b ∈ terms)
    {N E : List Nat} (h : steinerFrom B v terms pops = .ok N E) :
    ∃ es : List Edge, es.Sublist v.g.edges ∧ E = es.map (·.id) ∧ Connected (withEdges N es) := by
  obtain ⟨fw, se, removed, hfw, hse, hrem, hN, hE⟩ := steinerFrom_ok h
  refine ⟨answerEdges v.g se terms removed, answerEdges_sublist _ _ _ _, hE, ?_⟩
  have hbase := base_connected hwf (prevOk_of_floyd B v hwf Wm hWm hW hfit fw hfw) hterms hall hends hse
  have := prune_connected hbase hrem
  rw [hN]
  exact this

/-- the same for the function itself, every hash order -/
theorem steiner_connected (B : Meas) (v : View) (hwf : v.g.WellFormed) (Wm : Int) (hWm : 0 ≤ Wm)
    (hW : ∀ e ∈ v.g.edges, -Wm ≤ e.w ∧ e.w ≤ Wm) (hfit : LinFit B v.g Wm)
    {terms : List Nat} (hterms : ∀ t ∈ terms, t ∈ v.g.nodes) (o : Oracle) (ho : o.Valid)
    {N E : List Nat} (h : steiner B v terms o = .ok N E) :
    ∃ es : List Edge, es.Sublist v.g.edges ∧ E = es.map (·.id) ∧ Connected (withEdges N es) := by
  unfold steiner at h
  split at h
  · cases h
  · rename_i c hc
    obtain ⟨c1, c2⟩ := closure_spec hc
    have hperm : (popOrder (o.hashOrder c)).Perm c := (popOrder_perm _).trans (ho c)
    refine steinerFrom_connected B v hwf Wm hWm hW hfit hterms ?_ ?_ h
    · intro a ha b hb hab
      obtain ⟨it, hit, h1⟩ := c1 a ha b hb hab
      exact ⟨it, hperm.mem_iff.mpr hit, h1⟩
    · intro it hit
      exact c2 it (hperm.mem_iff.mp hit)

end PetgraphModel.C20.Steiner
