import PetgraphModel.Proofs.C15W2AugSpec
/-
C15 wave 2 — after `mate[other] = outer; augment_path(outer, other)` the `mate` array is again a
valid matching, with one more edge.
-/
namespace PetgraphModel.C15W2
open PetgraphModel PetgraphModel.C15 PetgraphModel.C15M PetgraphModel.C15P

/-- along a re-matched path everybody has a partner, joined by an edge -/
theorem core_sym (cf : Nat → Option Nat) (μ : Nat → Option Nat) (J : Nat → Nat → Prop)
    (hJ : ∀ a b, J a b → J b a) :
    ∀ (l : PL) (w z : Nat), Core cf w l z → cf z = some (lastSnd l w) → cf w = some (fstOr l z) →
      Alt μ J l z → J w (fstOr l z) →
      ∀ a ∈ w :: verts l ++ [z], ∃ b ∈ w :: verts l ++ [z], cf a = some b ∧ cf b = some a ∧ J a b
  | [], w, z, _, hz, hw, _, hj => by
    intro a ha
    simp only [verts_nil, List.cons_append, List.nil_append, List.mem_cons, List.not_mem_nil,
      or_false] at ha
    rcases ha with rfl | rfl
    · exact ⟨z, by simp, hw, hz, hj⟩
    · exact ⟨w, by simp, hz, hw, hJ _ _ hj⟩
  | (p, q) :: r, w, z, hc, hz, hw, ha, hj => by
    obtain ⟨h1, h2, h3⟩ := hc
    obtain ⟨_, _, a3, a4⟩ := ha
    have ih := core_sym cf μ J hJ r q z h3 hz h2 a4 a3
    intro a hmem
    simp only [verts_cons, List.cons_append, List.mem_cons] at hmem
    simp only [fstOr_cons] at hw hj
    rcases hmem with e | e | hmem
    · rw [e]; exact ⟨p, by simp, hw, h1, hj⟩
    · rw [e]; exact ⟨w, by simp, h1, hw, hJ _ _ hj⟩
    · obtain ⟨b, hb, e1, e2, e3⟩ := ih a (by simpa using hmem)
      refine ⟨b, ?_, e1, e2, e3⟩
      simp only [List.cons_append, List.mem_cons] at hb
      simp only [verts_cons, List.cons_append, List.mem_cons]
      rcases hb with h | h
      · exact Or.inr (Or.inr (Or.inl h))
      · exact Or.inr (Or.inr (Or.inr h))

/-- the vertices of an alternating path are matched among themselves -/
theorem Alt_closed (μ : Nat → Option Nat) (J : Nat → Nat → Prop) : ∀ (l : PL) (z : Nat), Alt μ J l z →
    ∀ a ∈ verts l, ∃ b ∈ verts l, μ a = some b
  | [], _, _, _, h => by cases h
  | (p, q) :: r, z, hA, a, h => by
    simp only [verts_cons, List.mem_cons] at h
    rcases h with rfl | rfl | h
    · exact ⟨q, by simp, hA.1⟩
    · exact ⟨p, by simp, hA.2.1⟩
    · obtain ⟨b, hb, e⟩ := Alt_closed μ J r z hA.2.2.2 a h
      exact ⟨b, by simp [hb], e⟩

theorem tau_lt_nb {c : Ctx} (hv : VHyp c.v c.mode) {A : AS} (hA : AInv c A) {x : Nat}
    (hx : x ∈ c.v.g.nodes) (hox : A.out x = true) : A.tau x < c.v.nb := by
  have hxo : x ∈ A.ord := (hA.ordMem x).mpr ⟨hx, hox⟩
  have h1 : A.tau x < A.ord.length := List.idxOf_lt_length_of_mem hxo
  have h2 : A.ord.length ≤ c.v.g.nodes.length :=
    List.Nodup.length_le_of_subset hA.ordNodup (fun y hy => ((hA.ordMem y).mp hy).1)
  have := hv.nodes_le
  omega

theorem augment_valid (c : Ctx) (hv : VHyp c.v c.mode) (A : AS) (hA : AInv c A) (n : Nat)
    (hm : MateInv c.v c.m0 n) (lab : List Label)
    (hL : ∀ a ∈ c.v.g.nodes, A.out a = true → labI lab (c.v.toIndex a) = A.L a)
    (x other : Nat) (hx : x ∈ c.v.g.nodes) (hox : A.out x = true) (ho : other ∈ c.v.g.nodes)
    (hfree : c.μ other = none) (hne : other ≠ c.sv) (hJ : c.J x other)
    (s0 : GS) (hs : s0.mate = c.m0.set (c.v.toIndex other) (some x)) (hlab : s0.label = lab)
    (hfault : s0.fault = false) :
    (augmentPath c.v (4 * (c.v.nb + 2)) x other s0).fault = false ∧
    (augmentPath c.v (4 * (c.v.nb + 2)) x other s0).label = s0.label ∧
    (augmentPath c.v (4 * (c.v.nb + 2)) x other s0).fi = s0.fi ∧
    MateInv c.v (augmentPath c.v (4 * (c.v.nb + 2)) x other s0).mate (n + 1) := by
  have hpx := hA.path x hx hox
  have hoi : c.v.toIndex other < c.m0.length := by rw [hm.len]; have := hv.ix.lt other ho; omega
  have hJs : ∀ a b, c.J a b → c.J b a := fun a b h => joined_symm h
  -- `other` is not on the path
  have hclosed := Alt_closed c.μ c.J (A.P x) c.sv hpx.alt
  have honp : other ∉ verts (A.P x) := by
    intro h
    obtain ⟨b, _, e⟩ := hclosed other h
    rw [hfree] at e; cases e
  have hsvn := hpx.svMem
  have hsvfree : c.μ c.sv = none := (hA.svFree hsvn).2
  have hcur0 : ∀ a ∈ c.v.g.nodes, cur c s0 a = if a = other then some x else c.μ a := by
    intro a ha
    show getM s0.mate (c.v.toIndex a) = _
    rw [hs, getM_set_node hv _ _ _ _ ho ha hoi]; rfl
  have hpre : AugPre c A s0 x other (A.P x) [] := by
    refine ⟨hfault, by simp [hs, hm.len], ?_, ?_, ?_, ?_, ?_⟩
    · rw [hs, getM_set _ _ _ _ hoi]
      simp [hv.idx_ne_nb ho, hm.dummy hv]
    · intro p q hpq
      have hv' := mem_verts_of_mem hpq
      have := Alt_mem c.μ c.J _ _ hpx.alt p q hpq
      rw [hcur0 p (hpx.mem p hv'.1), hcur0 q (hpx.mem q hv'.2)]
      have hp : p ≠ other := fun e => honp (e ▸ hv'.1)
      have hq : q ≠ other := fun e => honp (e ▸ hv'.2)
      simp only [hp, hq, if_false]
      exact this
    · intro _
      rw [hcur0 c.sv hsvn]
      simp [Ne.symm hne, hsvfree]
    · intro p q r h; cases h
    · intro p q r h e
      apply honp
      rw [h, e]; simp
  have hfuel : A.tau x < 4 * (c.v.nb + 2) := by have := tau_lt_nb hv hA hx hox; omega
  have post := augment_spec c hv A hA lab hL _ x other s0 (A.P x) [] hx hox (by simp) hfuel hlab hpre
  simp only [fstOr_nil] at post
  generalize augmentPath c.v (4 * (c.v.nb + 2)) x other s0 = s' at post ⊢
  refine ⟨post.fault, post.label, post.fi, ?_⟩
  -- the new matching
  have hother' : cur c s' other = some x := by
    rw [post.rest other ho honp hne, hcur0 other ho]; simp
  have hfx : fstOr (A.P x) c.sv = x := hpx.hd
  have hsym := core_sym _ c.μ c.J hJs (A.P x) other c.sv post.core post.zval (by rw [hfx]; exact hother')
    hpx.alt (by rw [hfx]; exact hJs _ _ hJ)
  have hWmem : ∀ a ∈ other :: verts (A.P x) ++ [c.sv], a ∈ c.v.g.nodes := by
    intro a ha
    simp only [List.cons_append, List.mem_cons, List.mem_append, List.not_mem_nil, or_false] at ha
    rcases ha with e | h | e
    · rw [e]; exact ho
    · exact hpx.mem a h
    · rw [e]; exact hsvn
  have hout : ∀ a ∈ c.v.g.nodes, a ∉ other :: verts (A.P x) ++ [c.sv] → cur c s' a = c.μ a := by
    intro a ha hna
    simp only [List.cons_append, List.mem_cons, List.mem_append, List.not_mem_nil, or_false, not_or] at hna
    rw [post.rest a ha hna.2.1 hna.2.2, hcur0 a ha]
    simp [hna.1]
  -- partners of vertices off the path stay off the path
  have hoff : ∀ a ∈ c.v.g.nodes, a ∉ other :: verts (A.P x) ++ [c.sv] → ∀ b, c.μ a = some b →
      b ∉ other :: verts (A.P x) ++ [c.sv] := by
    intro a ha hna b hab hb
    have hba : c.μ b = some a := hm.symm a ha b hab
    simp only [List.cons_append, List.mem_cons, List.mem_append, List.not_mem_nil, or_false] at hb
    rcases hb with e | h | e
    · rw [e, hfree] at hba; cases hba
    · obtain ⟨b', hb', e⟩ := hclosed b h
      rw [hba] at e
      have : a = b' := Option.some.inj e
      subst this
      apply hna
      simp [hb']
    · rw [e, hsvfree] at hba; cases hba
  have hcurall : ∀ a ∈ c.v.g.nodes, ∀ b, cur c s' a = some b →
      b ∈ c.v.g.nodes ∧ c.J a b ∧ cur c s' b = some a := by
    intro a ha b hab
    by_cases hw : a ∈ other :: verts (A.P x) ++ [c.sv]
    · obtain ⟨b', hb', e1, e2, e3⟩ := hsym a hw
      rw [e1] at hab
      have : b' = b := Option.some.inj hab
      subst this
      exact ⟨hWmem _ hb', e3, e2⟩
    · rw [hout a ha hw] at hab
      have hb : b ∈ c.v.g.nodes := hm.mate_mem hab
      have hbw := hoff a ha hw b hab
      refine ⟨hb, hm.joined a ha b hab, ?_⟩
      rw [hout b hb hbw]
      exact hm.symm a ha b hab
  refine ⟨by rw [post.len]; simp [hs, hm.len], ?_, ?_, ?_, ?_⟩
  · intro i y hy
    by_cases hi : ∃ a ∈ c.v.g.nodes, c.v.toIndex a = i
    · obtain ⟨a, ha, rfl⟩ := hi
      have : cur c s' a = some y := (getM_some_iff _ _ _).mpr hy
      exact ⟨(hcurall a ha y this).1, a, ha, rfl⟩
    · have hi' : ∀ a ∈ c.v.g.nodes, c.v.toIndex a ≠ i := fun a ha e => hi ⟨a, ha, e⟩
      rw [post.other i hi', hs, List.getElem?_set_ne (hi' other ho)] at hy
      exact hm.live i y hy
  · intro a ha b hab
    exact (hcurall a ha b hab).2.2
  · intro a ha b hab
    exact (hcurall a ha b hab).2.1
  · -- two more matched nodes
    have hc := countP_two (fun a => (c.μ a).isSome) (fun a => (cur c s' a).isSome) other c.sv hne
      (isSome_eq_false_of_none hfree) (isSome_eq_false_of_none hsvfree) c.v.g.nodes hv.nodup
      (by
        intro a ha h1 h2
        by_cases hw : a ∈ verts (A.P x)
        · obtain ⟨b, _, e⟩ := hclosed a hw
          obtain ⟨b', _, e1, _, _⟩ := hsym a (by simp [hw])
          simp only [e, e1]; rfl
        · simp only [hout a ha (by simp [h1, h2, hw])])
    have hcnt := hm.cnt
    rw [← List.countP_eq_length_filter] at hcnt ⊢
    have e1 : (cur c s' other).isSome = true := by rw [hother']; rfl
    have e2 : (cur c s' c.sv).isSome = true := by rw [post.zval]; rfl
    simp only [e1, e2, ho, hsvn, and_self, if_true] at hc
    have h3 : c.v.g.nodes.countP (fun a => (getM s'.mate (c.v.toIndex a)).isSome) =
        c.v.g.nodes.countP (fun a => (cur c s' a).isSome) := rfl
    have h4 : c.v.g.nodes.countP (fun a => (c.μ a).isSome) =
        c.v.g.nodes.countP (fun a => (getM c.m0 (c.v.toIndex a)).isSome) := rfl
    omega

end PetgraphModel.C15W2
