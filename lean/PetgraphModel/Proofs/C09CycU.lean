import PetgraphModel.Proofs.C09CC
/-
`is_cyclic_undirected` over the union–find model decides `CyclicU`: it answers `true` exactly when
some edge joins two endpoints that are already connected by the EARLIER edges (C19), and that happens
for some edge exactly when some edge's endpoints stay connected without that one edge occurrence
(the forest argument).  Core Lean only.
-/
namespace PetgraphModel.C09P
open PetgraphModel PetgraphModel.MGraph PetgraphModel.C09J PetgraphModel.C09M
open PetgraphModel.UF PetgraphModel.UFProofs PetgraphModel.UFBase PetgraphModel.UFSpec PetgraphModel.PartitionSpec

/-! ### reachability in `pairGraph` is `Connected` of the raw pair list -/

theorem reach_iff_connected (nb : Nat) (ps : List (Nat × Nat)) (x y : Nat) :
    Reach (pairGraph nb ps).undirect x y ↔ Connected ps x y := by
  constructor
  · intro h
    induction h with
    | refl => exact Connected.refl _
    | step _ hadj ih =>
      refine Connected.trans ih ?_
      obtain ⟨e, he, hc⟩ := hadj
      obtain ⟨p, hp, hpe⟩ := List.mem_map.mp he
      subst hpe
      rcases hc with ⟨h1, h2⟩ | ⟨_, h1, h2⟩
      · simp only at h1 h2
        subst h1; subst h2
        exact Connected.edge hp
      · simp only at h1 h2
        subst h1; subst h2
        exact Connected.symm (Connected.edge hp)
  · intro h
    exact connected_reach (fun p hp => hp) h

/-- with endpoints in range, dropping the `x = x` pairs (as `unionsOf` does) changes nothing -/
theorem connected_unionsOf_iff {nb : Nat} {ps : List (Nat × Nat)} (hin : ∀ p ∈ ps, p.1 < nb ∧ p.2 < nb)
    (x y : Nat) : Connected (unionsOf nb (unionOps ps)) x y ↔ Connected ps x y := by
  constructor
  · exact connected_mono (fun p hp => unionsOf_sub nb ps p hp)
  · intro h
    induction h with
    | refl => exact Connected.refl _
    | edge he =>
      rename_i a b
      by_cases hab : a = b
      · subst hab; exact Connected.refl _
      · exact Connected.edge (mem_unionsOf nb ps (a, b) he hab (hin _ he).1 (hin _ he).2)
    | symm _ ih => exact Connected.symm ih
    | trans _ _ ih1 ih2 => exact Connected.trans ih1 ih2

/-! ### adding one edge -/

theorem connected_cons_cases {H : List (Nat × Nat)} {a b u v : Nat} (h : Connected ((a, b) :: H) u v) :
    Connected H u v ∨ (Connected H u a ∧ Connected H b v) ∨ (Connected H u b ∧ Connected H a v) := by
  induction h with
  | refl x => exact Or.inl (Connected.refl x)
  | edge he =>
    cases List.mem_cons.mp he with
    | inl h =>
      have h1 := congrArg Prod.fst h
      have h2 := congrArg Prod.snd h
      simp only at h1 h2
      subst h1; subst h2
      exact Or.inr (Or.inl ⟨Connected.refl _, Connected.refl _⟩)
    | inr h => exact Or.inl (Connected.edge h)
  | symm _ ih =>
    rcases ih with h | ⟨h1, h2⟩ | ⟨h1, h2⟩
    · exact Or.inl h.symm
    · exact Or.inr (Or.inr ⟨h2.symm, h1.symm⟩)
    · exact Or.inr (Or.inl ⟨h2.symm, h1.symm⟩)
  | trans _ _ ih1 ih2 =>
    rcases ih1 with h | ⟨h1, h2⟩ | ⟨h1, h2⟩ <;> rcases ih2 with k | ⟨k1, k2⟩ | ⟨k1, k2⟩
    · exact Or.inl (h.trans k)
    · exact Or.inr (Or.inl ⟨h.trans k1, k2⟩)
    · exact Or.inr (Or.inr ⟨h.trans k1, k2⟩)
    · exact Or.inr (Or.inl ⟨h1, h2.trans k⟩)
    · exact Or.inr (Or.inl ⟨h1, k2⟩)
    · exact Or.inl (h1.trans k2)
    · exact Or.inr (Or.inr ⟨h1, h2.trans k⟩)
    · exact Or.inl (h1.trans k2)
    · exact Or.inr (Or.inr ⟨h1, k2⟩)

/-! ### forests: every edge joins two components of the edges added before it (head = added last) -/

def Forest : List (Nat × Nat) → Prop
  | [] => True
  | e :: es => Forest es ∧ ¬ Connected es e.1 e.2

/-- in a forest every edge is a bridge -/
theorem forest_bridge : ∀ (es : List (Nat × Nat)), Forest es → ∀ (l1 : List (Nat × Nat)) (e : Nat × Nat)
    (l2 : List (Nat × Nat)), es = l1 ++ e :: l2 → ¬ Connected (l1 ++ l2) e.1 e.2 := by
  intro es
  induction es with
  | nil => intro _ l1 e l2 h; simp at h
  | cons hd t ih =>
    intro hf l1 e l2 h
    cases l1 with
    | nil =>
      simp only [List.nil_append, List.cons.injEq] at h
      obtain ⟨h1, h2⟩ := h
      subst h1; subst h2
      exact hf.2
    | cons x l1' =>
      simp only [List.cons_append, List.cons.injEq] at h
      obtain ⟨h1, h2⟩ := h
      subst h1
      have hbridge := ih hf.1 l1' e l2 h2
      intro hc
      have hsub : ∀ p, p ∈ l1' ++ l2 → p ∈ t := by
        intro p hp
        rw [h2]
        cases List.mem_append.mp hp with
        | inl h => exact List.mem_append_left _ h
        | inr h => exact List.mem_append_right _ (List.mem_cons_of_mem _ h)
      have he : Connected t e.1 e.2 := Connected.edge (by rw [h2]; exact List.mem_append_right _ (List.mem_cons_self ..))
      have hc' : Connected ((hd.1, hd.2) :: (l1' ++ l2)) e.1 e.2 := hc
      rcases connected_cons_cases hc' with h | ⟨k1, k2⟩ | ⟨k1, k2⟩
      · exact hbridge h
      · -- hd.1 ~ e.1 ~ e.2 ~ hd.2 inside t
        exact hf.2 (((connected_mono hsub k1).symm.trans he).trans (connected_mono hsub k2).symm)
      · exact hf.2 (((connected_mono hsub k2).trans he.symm).trans (connected_mono hsub k1))

theorem forest_of_noClose : ∀ (es : List (Nat × Nat)),
    (∀ l1 e l2, es = l1 ++ e :: l2 → ¬ Connected l2 e.1 e.2) → Forest es := by
  intro es
  induction es with
  | nil => intro _; trivial
  | cons hd t ih =>
    intro h
    refine ⟨ih fun l1 e l2 ht => h (hd :: l1) e l2 (by rw [ht]; rfl), h [] hd t rfl⟩

/-- no edge closes a cycle when added ⇒ no edge lies on a cycle at all -/
theorem noClose_bridge (ps : List (Nat × Nat))
    (hno : ∀ l1 p l2, ps = l1 ++ p :: l2 → ¬ Connected l1 p.1 p.2) :
    ∀ l1 p l2, ps = l1 ++ p :: l2 → ¬ Connected (l1 ++ l2) p.1 p.2 := by
  have hf : Forest ps.reverse := by
    apply forest_of_noClose
    intro l1 e l2 h
    have : ps = l2.reverse ++ e :: l1.reverse := by
      have := congrArg List.reverse h
      simpa using this
    intro hc
    exact hno _ _ _ this (connected_mono (fun p hp => List.mem_reverse.mpr hp) hc)
  intro l1 p l2 h hc
  have hrev : ps.reverse = l2.reverse ++ p :: l1.reverse := by rw [h]; simp
  refine forest_bridge _ hf _ _ _ hrev (connected_mono ?_ hc)
  intro q hq
  cases List.mem_append.mp hq with
  | inl h => exact List.mem_append_right _ (List.mem_reverse.mpr h)
  | inr h => exact List.mem_append_left _ (List.mem_reverse.mpr h)

/-! ### `CyclicU` of `pairGraph` in terms of splits of the pair list -/

theorem eraseEdge_pairGraph (nb : Nat) (l1 l2 : List (Nat × Nat)) (p : Nat × Nat) :
    eraseEdge (pairGraph nb (l1 ++ p :: l2)) l1.length = pairGraph nb (l1 ++ l2) := by
  simp only [eraseEdge, pairGraph, List.map_append, List.map_cons]
  congr 1
  rw [List.eraseIdx_append_of_length_le (by simp)]
  simp

theorem cyclicU_pairGraph_iff (nb : Nat) (ps : List (Nat × Nat)) :
    CyclicU (pairGraph nb ps) ↔ ∃ l1 p l2, ps = l1 ++ p :: l2 ∧ Connected (l1 ++ l2) p.1 p.2 := by
  constructor
  · rintro ⟨i, e, he, hr⟩
    have he' : (ps.map fun p => (⟨0, p.1, p.2, 0⟩ : Edge))[i]? = some e := he
    rw [List.getElem?_map] at he'
    cases hp : ps[i]? with
    | none => simp [hp] at he'
    | some p =>
      simp [hp] at he'
      have hi : i < ps.length := (List.getElem?_eq_some_iff.mp hp).1
      have hpi : ps[i] = p := (List.getElem?_eq_some_iff.mp hp).2
      have hsplit : ps = ps.take i ++ p :: ps.drop (i + 1) := by
        rw [← hpi, List.getElem_cons_drop hi, List.take_append_drop]
      refine ⟨ps.take i, p, ps.drop (i + 1), hsplit, ?_⟩
      have hlen : (ps.take i).length = i := by simp; omega
      have hg := eraseEdge_pairGraph nb (ps.take i) (ps.drop (i + 1)) p
      rw [← hsplit, hlen] at hg
      rw [hg, ← he'] at hr
      exact (reach_iff_connected nb _ _ _).mp hr
  · rintro ⟨l1, p, l2, hsplit, hc⟩
    refine ⟨l1.length, ⟨0, p.1, p.2, 0⟩, ?_, ?_⟩
    · show (ps.map fun p => (⟨0, p.1, p.2, 0⟩ : Edge))[l1.length]? = _
      rw [hsplit]; simp
    · rw [hsplit, eraseEdge_pairGraph]
      exact (reach_iff_connected nb _ _ _).mpr hc

/-! ### the model -/

theorem run_append_fst : ∀ (ops1 ops2 : List Op) (s : State),
    (run s (ops1 ++ ops2)).1 = (run (run s ops1).1 ops2).1 := by
  intro ops1
  induction ops1 with
  | nil => intro ops2 s; rfl
  | cons op ops ih =>
    intro ops2 s
    rw [List.cons_append, run_cons_fst, run_cons_fst, ih]

/-- state after the unions of `done`: invariant, size, and roots = `Connected done` -/
theorem run_unions_conn (nb : Nat) (done : List (Nat × Nat)) (hin : ∀ p ∈ done, p.1 < nb ∧ p.2 < nb) :
    let s := (run (UF.new 0 nb) (unionOps done)).1
    Inv s ∧ s.len = nb ∧ ∀ x y, x < nb → y < nb → (rootOf s x = rootOf s y ↔ Connected done x y) := by
  intro s
  obtain ⟨inv, hlen, hrel⟩ := all_histories 0 nb (unionOps done) (Or.inl rfl) (fits_unionOps 0 nb done)
  have hqlen : (specRun (QF.new nb) (unionOps done)).len = nb := by
    rw [specRun_len_unionOps, len_new]
  have hslen : s.len = nb := hlen.trans hqlen
  refine ⟨inv, hslen, ?_⟩
  intro x y hx hy
  have hx' : x < s.len := by rw [hslen]; exact hx
  have hy' : y < s.len := by rw [hslen]; exact hy
  rw [← tryFind_eq_iff inv hx' hy', hrel x y hx' hy', ← connected_unionsOf_iff hin]
  exact qf_connected nb (unionOps done) x y (by rw [hqlen]; exact hx) (by rw [hqlen]; exact hy)

theorem cyclicUndirected_loop (nb : Nat) : ∀ (rest done : List (Nat × Nat)) (b : Bool),
    (∀ p ∈ done ++ rest, p.1 < nb ∧ p.2 < nb) →
    cyclicUndirected nb rest (run (UF.new 0 nb) (unionOps done)).1 = some b →
    (b = true ↔ ∃ l1 p l2, rest = l1 ++ p :: l2 ∧ Connected (done ++ l1) p.1 p.2) := by
  intro rest
  induction rest with
  | nil =>
    intro done b _ h
    simp [cyclicUndirected] at h
    subst h
    simp
  | cons p rest ih =>
    intro done b hin h
    have hdone : ∀ q ∈ done, q.1 < nb ∧ q.2 < nb := fun q hq => hin q (List.mem_append_left _ hq)
    have hp : p.1 < nb ∧ p.2 < nb := hin p (List.mem_append_right _ (List.mem_cons_self ..))
    obtain ⟨inv, hslen, hconn⟩ := run_unions_conn nb done hdone
    simp only [cyclicUndirected] at h
    by_cases hpp : p.1 = p.2
    · rw [hpp, tryUnion_same] at h
      simp at h; subst h
      refine ⟨fun _ => ⟨[], p, rest, rfl, ?_⟩, fun _ => rfl⟩
      rw [hpp]; exact Connected.refl _
    · obtain ⟨s', htu, _, _, _, _⟩ := tryUnion_good inv hpp (by rw [hslen]; exact hp.1) (by rw [hslen]; exact hp.2)
      rw [htu] at h
      by_cases hroots : rootOf (run (UF.new 0 nb) (unionOps done)).1 p.1 = rootOf (run (UF.new 0 nb) (unionOps done)).1 p.2
      · simp [hroots] at h; subst h
        refine ⟨fun _ => ⟨[], p, rest, rfl, ?_⟩, fun _ => rfl⟩
        simpa using (hconn p.1 p.2 hp.1 hp.2).mp hroots
      · have hne : (rootOf (run (UF.new 0 nb) (unionOps done)).1 p.1 == rootOf (run (UF.new 0 nb) (unionOps done)).1 p.2) = false := by
          simpa using hroots
        simp only [hne, Bool.not_false] at h
        have hs' : s' = (run (UF.new 0 nb) (unionOps (done ++ [p]))).1 := by
          have e1 := (step_union_fst htu).1
          rw [unionOps, List.map_append, run_append_fst]
          show s' = (step (run (UF.new 0 nb) (unionOps done)).1 (Op.union p.1 p.2)).1
          exact e1.symm
        rw [hs'] at h
        have hin' : ∀ q ∈ (done ++ [p]) ++ rest, q.1 < nb ∧ q.2 < nb := by
          intro q hq; apply hin q; simpa using hq
        rw [ih (done ++ [p]) b hin' h]
        constructor
        · rintro ⟨l1, q, l2, hsplit, hc⟩
          exact ⟨p :: l1, q, l2, by rw [hsplit]; rfl, by simpa using hc⟩
        · rintro ⟨l1, q, l2, hsplit, hc⟩
          cases l1 with
          | nil =>
            simp only [List.nil_append, List.cons.injEq] at hsplit
            obtain ⟨h1, _⟩ := hsplit
            subst h1
            exact absurd ((hconn p.1 p.2 hp.1 hp.2).mpr (by simpa using hc)) hroots
          | cons x l1' =>
            simp only [List.cons_append, List.cons.injEq] at hsplit
            obtain ⟨h1, h2⟩ := hsplit
            subst h1
            exact ⟨l1', q, l2, h2, by simpa using hc⟩

/-- **`is_cyclic_undirected` decides "direction ignored, the multigraph has a cycle"** (mirror model over
the C19 union–find model, every edge sequence with in-range endpoints, self-loops and parallel edges
included). -/
theorem cyclicUndirected_spec (nb : Nat) (pairs : List (Nat × Nat)) (b : Bool)
    (hin : ∀ p ∈ pairs, p.1 < nb ∧ p.2 < nb) (h : cyclicUndirected nb pairs (UF.new 0 nb) = some b) :
    b = true ↔ CyclicU (pairGraph nb pairs) := by
  have h0 : (run (UF.new 0 nb) (unionOps [])).1 = UF.new 0 nb := rfl
  have := cyclicUndirected_loop nb pairs [] b (by simpa using hin) (by rw [h0]; exact h)
  rw [this, cyclicU_pairGraph_iff]
  constructor
  · rintro ⟨l1, p, l2, hsplit, hc⟩
    refine ⟨l1, p, l2, hsplit, connected_mono (fun q hq => List.mem_append_left _ ?_) hc⟩
    simpa using hq
  · intro hcyc
    apply Classical.byContradiction
    intro hno
    obtain ⟨l1, p, l2, hsplit, hc⟩ := hcyc
    refine noClose_bridge pairs ?_ l1 p l2 hsplit hc
    intro l1' p' l2' hs' hc'
    exact hno ⟨l1', p', l2', hs', by simpa using hc'⟩

end PetgraphModel.C09P
