import PetgraphModel.Proofs.C15W2Step
/-
C15 wave 2 — the search invariant is preserved when `find_join` labels the inner vertices of the two
paths up to the join with an `Edge` label (a blossom).  Part 1: the data of a blossom step and what
follows from it in the old state.
-/
namespace PetgraphModel.C15W2
open PetgraphModel PetgraphModel.C15 PetgraphModel.C15M PetgraphModel.C15P

/-- the non-outer vertices of a path, in order -/
def innerNodes (A : AS) : PL → List Nat
  | [] => []
  | (_, u) :: r => if A.out u then innerNodes A r else u :: innerNodes A r

theorem mem_innerNodes (A : AS) : ∀ (l : PL) (u : Nat),
    u ∈ innerNodes A l ↔ (∃ p, (p, u) ∈ l) ∧ A.out u = false
  | [], u => by simp [innerNodes]
  | (p, q) :: r, u => by
    unfold innerNodes
    by_cases hq : A.out q = true
    · rw [if_pos hq, mem_innerNodes A r u]
      constructor
      · rintro ⟨⟨p', hp'⟩, h2⟩; exact ⟨⟨p', List.mem_cons_of_mem _ hp'⟩, h2⟩
      · rintro ⟨⟨p', hp'⟩, h2⟩
        cases List.mem_cons.mp hp' with
        | inl e =>
          have : u = q := (Prod.mk.inj e).2
          rw [this, hq] at h2; cases h2
        | inr e => exact ⟨⟨p', e⟩, h2⟩
    · rw [if_neg hq, List.mem_cons, mem_innerNodes A r u]
      have hq' : A.out q = false := by simpa using hq
      constructor
      · rintro (e | ⟨⟨p', hp'⟩, h2⟩)
        · subst e; exact ⟨⟨p, List.mem_cons_self ..⟩, hq'⟩
        · exact ⟨⟨p', List.mem_cons_of_mem _ hp'⟩, h2⟩
      · rintro ⟨⟨p', hp'⟩, h2⟩
        cases List.mem_cons.mp hp' with
        | inl e => exact Or.inl (Prod.mk.inj e).2
        | inr e => exact Or.inr ⟨⟨p', e⟩, h2⟩

theorem innerNodes_append (A : AS) : ∀ (l1 l2 : PL), innerNodes A (l1 ++ l2) = innerNodes A l1 ++ innerNodes A l2
  | [], _ => rfl
  | (p, u) :: r, l2 => by
    simp only [List.cons_append, innerNodes, innerNodes_append A r l2]
    split <;> rfl

/-- the data of a blossom step `find_join(a, b)`: the two paths up to the join -/
structure BD (c : Ctx) (A : AS) (a b : Nat) (preA sufA preB sufB : PL) (join : Nat) : Prop where
  ha : a ∈ c.v.g.nodes
  hb : b ∈ c.v.g.nodes
  hoa : A.out a = true
  hob : A.out b = true
  hJ : c.J a b
  hPa : A.P a = preA ++ sufA
  hPb : A.P b = preB ++ sufB
  hjoin : (sufA = [] ∧ sufB = [] ∧ join = c.v.nb) ∨
    ∃ pj uj r, sufA = (pj, uj) :: r ∧ sufB = (pj, uj) :: r ∧ A.out uj = false ∧ join = c.v.toIndex uj
  hdisj : ∀ u ∈ innerNodes A preA, u ∉ innerNodes A preB

/-- the two sides can be exchanged -/
theorem BD.swap {c : Ctx} {A : AS} {a b : Nat} {preA sufA preB sufB : PL} {join : Nat}
    (D : BD c A a b preA sufA preB sufB join) : BD c A b a preB sufB preA sufA join := by
  refine ⟨D.hb, D.ha, D.hob, D.hoa, joined_symm D.hJ, D.hPb, D.hPa, ?_, fun u hu h => D.hdisj u h hu⟩
  rcases D.hjoin with ⟨h1, h2, h3⟩ | ⟨pj, uj, r, h1, h2, h3, h4⟩
  · exact Or.inl ⟨h2, h1, h3⟩
  · exact Or.inr ⟨pj, uj, r, h2, h1, h3, h4⟩

/-- suffix determinism: the part of a path after a non-outer vertex depends on that vertex only -/
theorem suffix_det {c : Ctx} {A : AS} (hA : AInv c A) {x x' : Nat} (hx : x ∈ c.v.g.nodes)
    (hox : A.out x = true) (hx' : x' ∈ c.v.g.nodes) (hox' : A.out x' = true)
    {pre pre' rest rest' : PL} {p p' u : Nat} (h1 : A.P x = pre ++ (p, u) :: rest)
    (h2 : A.P x' = pre' ++ (p', u) :: rest') (hu : A.out u = false) : p = p' ∧ rest = rest' := by
  have hpx := hA.path x hx hox
  have hpx' := hA.path x' hx' hox'
  have m1 := Alt_mem _ _ _ _ hpx.alt p u (by rw [h1]; simp)
  have m2 := Alt_mem _ _ _ _ hpx'.alt p' u (by rw [h2]; simp)
  have hpp : p = p' := by
    have := m1.2; rw [m2.2] at this; exact (Option.some.inj this).symm
  subst hpp
  obtain ⟨y, hy1, hy2⟩ := hpx.inner pre p u rest h1 hu
  obtain ⟨y', hy1', hy2'⟩ := hpx'.inner pre' p u rest' h2 hu
  rw [hy1] at hy1'
  have : y = y' := by cases hy1'; rfl
  subst this
  exact ⟨rfl, hy2.trans hy2'.symm⟩

/-- the first inner vertex of a list of pairs, if any -/
theorem fin_mem (c : Ctx) (A : AS) (l : PL) :
    A.fin c l = c.v.nb ∨ ∃ l1 p u rest, l = l1 ++ (p, u) :: rest ∧ A.out u = false ∧
      A.fin c l = c.v.toIndex u ∧ ∀ p' u', (p', u') ∈ l1 → A.out u' = true := by
  unfold AS.fin
  rcases firstInner_split c.v.nb c.v.toIndex A.out l with h | ⟨l1, p, u, rest, h1, h2, h3, h4⟩
  · exact Or.inl h.1
  · exact Or.inr ⟨l1, p, u, rest, h1, h2, h3, h4⟩

theorem mem_split {α : Type} {x : α} {l : List α} (h : x ∈ l) : ∃ l1 l2, l = l1 ++ x :: l2 :=
  List.append_of_mem h

section
variable {c : Ctx} {A : AS} {a b : Nat} {preA sufA preB sufB : PL} {join : Nat}

/-- a new vertex of side `a` lies on `P a` as an inner vertex -/
theorem BD.newA_split (_D : BD c A a b preA sufA preB sufB join) {u : Nat} (hu : u ∈ innerNodes A preA) :
    A.out u = false ∧ ∃ pre z0 post, preA = pre ++ (z0, u) :: post := by
  obtain ⟨⟨p, hp⟩, h2⟩ := (mem_innerNodes A preA u).mp hu
  obtain ⟨l1, l2, e⟩ := mem_split hp
  exact ⟨h2, l1, p, l2, e⟩

theorem BD.newA_node (hA : AInv c A) (D : BD c A a b preA sufA preB sufB join) {u : Nat}
    (hu : u ∈ innerNodes A preA) : u ∈ c.v.g.nodes ∧ u ∈ verts (A.P a) := by
  obtain ⟨⟨p, hp⟩, _⟩ := (mem_innerNodes A preA u).mp hu
  have hm : u ∈ verts (A.P a) := by
    rw [D.hPa, verts_append]
    exact List.mem_append_left _ (mem_verts_of_mem hp).2
  exact ⟨(hA.path a D.ha D.hoa).mem u hm, hm⟩

/-- the vertex of the join is not new -/
theorem BD.join_not_new (hA : AInv c A) (D : BD c A a b preA sufA preB sufB join) {pj uj : Nat} {r : PL}
    (h : sufA = (pj, uj) :: r) : uj ∉ innerNodes A preA := by
  intro hu
  obtain ⟨⟨p, hp⟩, _⟩ := (mem_innerNodes A preA uj).mp hu
  have hnd := (hA.path a D.ha D.hoa).nodup
  rw [D.hPa, h, verts_append] at hnd
  have h1 : uj ∈ verts preA := (mem_verts_of_mem hp).2
  have h2 : uj ∈ verts ((pj, uj) :: r) := by simp
  exact disj_of_nodup_append (List.nodup_append.mp hnd).1 h1 h2

/-- a new vertex of side `a` does not lie on `P b` -/
theorem BD.newA_notin (hA : AInv c A) (D : BD c A a b preA sufA preB sufB join) {u : Nat}
    (hu : u ∈ innerNodes A preA) : u ∉ verts (A.P b) := by
  intro hin
  have hou := ((mem_innerNodes A preA u).mp hu).2
  obtain ⟨p, hp, _, _⟩ := (hA.path b D.hb D.hob).inner_pair hin hou
  rw [D.hPb] at hp
  cases List.mem_append.mp hp with
  | inl h => exact D.hdisj u hu ((mem_innerNodes A preB u).mpr ⟨⟨p, h⟩, hou⟩)
  | inr h =>
    rcases D.hjoin with ⟨_, h2, _⟩ | ⟨pj, uj, r, h1, h2, _, _⟩
    · rw [h2] at h; cases h
    · rw [h2, ← h1] at h
      obtain ⟨⟨p0, hp0⟩, _⟩ := (mem_innerNodes A preA u).mp hu
      have hnd := (hA.path a D.ha D.hoa).nodup
      rw [D.hPa, verts_append] at hnd
      exact disj_of_nodup_append (List.nodup_append.mp hnd).1 (mem_verts_of_mem hp0).2 (mem_verts_of_mem h).2

end

end PetgraphModel.C15W2
