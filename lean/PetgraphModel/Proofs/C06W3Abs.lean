import PetgraphModel.Proofs.C06W2Base
import PetgraphModel.Proofs.C06W2Graph
import PetgraphModel.Proofs.C06W2GraphMap
import PetgraphModel.Proofs.C06W3Stable
import PetgraphModel.Proofs.C01W2Base
/-
C06 wave 3 — the abstract graph `abs (<type>Table s)` a table denotes IS the abstract graph of the type's storage
specification (C01 `CGS.Spec` for `Graph`, C03 `SimpleGraphSpec.SG` for `GraphMap`, C02 `SGSpec.Spec` for
`StableGraph`): the tables cannot all agree with each other on a wrong graph.
-/
namespace PetgraphModel.Visit
open PetgraphModel

/-! ### `Graph` against the C01 reference multigraph -/

/-- the abstract graph (in the harness's identifier code) of a C01 reference state: nodes `0..n`, the edge at position
`i` is `(i, src, tgt, weight)` -/
def agraphOfCGS (sp : CGS.Spec) : AGraph :=
  { directed := sp.directed
    nodes := List.range sp.nodes.length
    edges := List.zipWith (fun i (e : CGS.SEdge) => (⟨i, e.src, e.tgt, (e.weight : Int)⟩ : ERef))
      (List.range sp.edges.length) sp.edges }

/-- `node_references` of a C01 reference state -/
def refsOfCGS (sp : CGS.Spec) : List (Nat × Int) :=
  List.zipWith (fun i (w : Nat) => (i, (w : Int))) (List.range sp.nodes.length) sp.nodes

/-- for every ghost stamp assignment `st` and clock `ck` (the stamps only order the adjacency lists), the graph the
table of `Graph` denotes is the graph of the C01 abstraction, and its node references are the reference node weights -/
theorem graphTable_abs (s : G.State) (st : Nat → Nat) (ck : Nat) :
    abs (graphTable s) = agraphOfCGS (GProofs.absG s st ck) ∧
    (graphTable s).refs = some (refsOfCGS (GProofs.absG s st ck)) := by
  constructor
  · simp only [abs, graphTable, Option.getD_some, agraphOfCGS, GProofs.absG_nodes_length, GProofs.absG_edges_length]
    congr 1
    apply List.ext_getElem?
    intro i
    change (gERefs s)[i]? = _
    rw [gERefs_getElem?]
    have h2 := GProofs.absG_edges_get s st ck i
    have hl : (GProofs.absG s st ck).edges.length = s.edges.length := GProofs.absG_edges_length s st ck
    rw [← hl, GProofs.zipWith_range_getElem?, h2]
    cases s.edges[i]? <;> rfl
  · simp only [graphTable, refsOfCGS, GView.nodeRefs, GProofs.absG, List.length_map, List.zipWith_map_right]

/-! ### `GraphMap` against the C03 simple graph on node values -/

open PetgraphModel.GM PetgraphModel.GMProofs PetgraphModel.SimpleGraphSpec in
/-- the abstract multigraph `ag` (what a table denotes) IS the simple graph `g` on node values: same kind, the node
list enumerates the node set once, and the edge list enumerates the weighted pairs — one reference per ordered pair
(per unordered pair when undirected, in either orientation) -/
structure DenotesSG (ag : AGraph) (g : SG) : Prop where
  directed : ag.directed = g.directed
  nodesNodup : ag.nodes.Nodup
  nodes : ∀ n, n ∈ ag.nodes ↔ g.node n = true
  onePerPair : (ag.edges.map fun e => edgeKey g.directed e.src e.tgt).Nodup
  edges : ∀ a b w, g.w a b = some w ↔
    ∃ e ∈ ag.edges, e.w = (w : Int) ∧ ((e.src = a ∧ e.tgt = b) ∨ (g.directed = false ∧ e.src = b ∧ e.tgt = a))

open PetgraphModel.GM PetgraphModel.GMProofs PetgraphModel.SimpleGraphSpec PetgraphModel.Visit.GMView in
theorem graphMapTable_abs (s : GM.State) (h : GMProofs.Inv s) : DenotesSG (abs (graphMapTable s)) (GMProofs.abs s) := by
  have habs : abs (graphMapTable s) = ⟨s.directed, nodesOf s, gmERefs s⟩ := rfl
  rw [habs]
  have canon : ∀ a b w, IMap.get? s.edges (a, b) = some w → edgeKey s.directed a b = (a, b) := by
    intro a b w hg
    rcases (edge_facts s h hg).1 with hd | hle
    · rw [hd, edgeKey_true]
    · unfold edgeKey; simp [hle]
  refine ⟨rfl, h.nodesNodup, fun n => mem_nodesOf s n, ?_, ?_⟩
  · show ((gmERefs s).map fun e => edgeKey s.directed e.src e.tgt).Nodup
    have e1 : (gmERefs s).map (fun e => edgeKey s.directed e.src e.tgt) = (allEdges s).map fun e => (e.1, e.2.1) := by
      unfold gmERefs
      rw [List.map_map]
      apply List.map_congr_left
      rintro ⟨a, b, w⟩ hm
      exact canon a b w ((mem_allEdges s h a b w).1 hm)
    rw [e1]
    have e2 : (allEdges s).map (fun e => (e.1, e.2.1)) = IMap.keys s.edges := by
      unfold allEdges IMap.keys
      rw [List.map_map]
      rfl
    rw [e2]
    exact h.edgesNodup
  · intro a b w
    show IMap.get? s.edges (edgeKey s.directed a b) = some w ↔ ∃ e ∈ gmERefs s, _
    constructor
    · intro hg
      by_cases hc : s.directed = true ∨ a ≤ b
      · have hk : edgeKey s.directed a b = (a, b) := by
          rcases hc with hd | hle
          · rw [hd, edgeKey_true]
          · unfold edgeKey; simp [hle]
        rw [hk] at hg
        exact ⟨_, (mem_gmERefs s h _).2 ⟨a, b, w, hg, rfl⟩, rfl, .inl ⟨rfl, rfl⟩⟩
      · have hd : s.directed = false := by
          cases hdd : s.directed
          · rfl
          · exact absurd (.inl hdd) hc
        have hlt : b < a := by
          have : ¬ a ≤ b := fun hle => hc (.inr hle)
          omega
        rw [hd, edgeKey_false_gt hlt] at hg
        exact ⟨_, (mem_gmERefs s h _).2 ⟨b, a, w, hg, rfl⟩, rfl, .inr ⟨hd, rfl, rfl⟩⟩
    · rintro ⟨e, he, hw, hor⟩
      obtain ⟨a', b', w', hg, rfl⟩ := (mem_gmERefs s h e).1 he
      have hww : w' = w := int_inj hw
      subst hww
      rcases hor with ⟨rfl, rfl⟩ | ⟨hd, rfl, rfl⟩
      · rw [canon _ _ _ hg]; exact hg
      · have hd : s.directed = false := hd
        simp only at hg ⊢
        rcases (edge_facts s h hg).1 with hdd | hle
        · rw [hd] at hdd; cases hdd
        · rw [hd]
          by_cases hlt : a' < b'
          · rw [edgeKey_false_gt hlt]; exact hg
          · have : a' = b' := by omega
            subst this
            rw [edgeKey_false_le (Nat.le_refl _)]; exact hg

/-! ### `StableGraph` against the C02 reference multigraph -/

/-- the abstract graph of a C02 reference state: the live node indices, the live edges `(id, a, b, w)` -/
def agraphOfSGSpec (sp : SGSpec.Spec) : AGraph :=
  { directed := sp.directed
    nodes := sp.nodeIds
    edges := sp.edgeRefs.map fun x => (⟨x.1, x.2.a, x.2.b, x.2.w⟩ : ERef) }

theorem stableTable_abs (s : SG.State) :
    abs (stableTable s) = agraphOfSGSpec (SGProofs.abs s) ∧
    (stableTable s).refs = some (SGProofs.abs s).nodeRefs := by
  constructor
  · simp only [abs, stableTable, Option.getD_some, agraphOfSGSpec]
    have h1 : SG.nodeIndices s = (SGProofs.abs s).nodeIds := SGProofs.nodeIndices_abs s
    have h2 := SGProofs.edgeReferences_abs s
    have h3 : (SGProofs.abs s).directed = s.directed := rfl
    rw [h1, ← h2, h3, List.map_map]
    rfl
  · simp only [stableTable]
    rw [SGProofs.nodeReferences_abs s]

end PetgraphModel.Visit
