import PetgraphModel.Model.C13Vf2
import PetgraphModel.Spec.C13Iso
import Mathlib.Data.List.Nodup
import Mathlib.Data.List.Perm.Subperm
/-
Soundness of the VF2 mirror model (`Model/C13Vf2.lean`): whatever the frame-stack machine yields is a total,
injective mapping of the nodes of g0 into the nodes of g1 that preserves adjacency and non-adjacency and
satisfies the semantic predicates — for all concrete graphs, fuel, and both modes.  (Completeness of the
search — every embedding is yielded, exactly once — is not proved; see `Theorems/C13.lean`.)
-/
namespace PetgraphModel.C13.Vf2
open PetgraphModel

/-! ### the state vectors -/

theorem map_set (mp : List (Option Nat)) (a : Nat) (v : Option Nat) (i : Nat) :
    ((mp.set a v)[i]?).getD none = if a = i ∧ a < mp.length then v else (mp[i]?).getD none := by
  rw [List.getElem?_set]
  by_cases h : a = i
  · subst h
    by_cases h2 : a < mp.length
    · simp [h2]
    · simp [h2]
  · simp [h]

theorem markAll_length (gen : Nat) (nb vec : List Nat) (size : Nat) :
    (markAll gen nb vec size).1.length = vec.length := by
  unfold markAll
  induction nb generalizing vec size with
  | nil => rfl
  | cons x xs ih =>
    simp only [List.foldl_cons]
    split
    · rw [ih]; simp
    · rw [ih]

theorem unmarkAll_length (gen : Nat) (nb vec : List Nat) (size : Nat) :
    (unmarkAll gen nb vec size).1.length = vec.length := by
  unfold unmarkAll
  induction nb generalizing vec size with
  | nil => rfl
  | cons x xs ih =>
    simp only [List.foldl_cons]
    split
    · rw [ih]; simp
    · rw [ih]

theorem pushMapping_mapping (g : CG) (s : St) (a b : Nat) :
    (pushMapping g s a b).mapping = s.mapping.set a (some b) := by
  unfold pushMapping; rfl

theorem pushMapping_gen (g : CG) (s : St) (a b : Nat) : (pushMapping g s a b).gen = s.gen + 1 := by
  unfold pushMapping; rfl

theorem pushMapping_out (g : CG) (s : St) (a b : Nat) : (pushMapping g s a b).out.length = s.out.length := by
  unfold pushMapping; simp [markAll_length]

theorem pushMapping_ins (g : CG) (s : St) (a b : Nat) : (pushMapping g s a b).ins.length = s.ins.length := by
  unfold pushMapping
  by_cases h : g.directed <;> simp [h, markAll_length]

theorem popMapping_mapping (g : CG) (s : St) (a : Nat) :
    (popMapping g s a).mapping = s.mapping.set a none := by
  unfold popMapping; rfl

theorem popMapping_gen (g : CG) (s : St) (a : Nat) : (popMapping g s a).gen = s.gen - 1 := by
  unfold popMapping; rfl

theorem popMapping_out (g : CG) (s : St) (a : Nat) : (popMapping g s a).out.length = s.out.length := by
  unfold popMapping; simp [unmarkAll_length]

theorem popMapping_ins (g : CG) (s : St) (a : Nat) : (popMapping g s a).ins.length = s.ins.length := by
  unfold popMapping
  by_cases h : g.directed <;> simp [h, unmarkAll_length]

theorem pushMapping_map (g : CG) (s : St) (a b i : Nat) :
    (pushMapping g s a b).map i = if a = i ∧ a < s.mapping.length then some b else s.map i := by
  unfold St.map; rw [pushMapping_mapping, map_set]

theorem popMapping_map (g : CG) (s : St) (a i : Nat) :
    (popMapping g s a).map i = if a = i ∧ a < s.mapping.length then none else s.map i := by
  unfold St.map; rw [popMapping_mapping, map_set]

theorem map_some_lt {s : St} {i j : Nat} (h : s.map i = some j) : i < s.mapping.length := by
  unfold St.map at h
  by_contra hn
  rw [List.getElem?_eq_none (Nat.le_of_not_lt hn)] at h
  simp at h

/-! ### candidates are unmapped and in range -/

theorem nextStamped_spec {vec : List Nat} {s : St} {start i : Nat} (h : nextStamped vec s start = some i) :
    i < vec.length ∧ s.map i = none := by
  unfold nextStamped at h
  have hm := List.mem_range.mp (List.mem_of_mem_drop (List.mem_of_find?_eq_some h))
  have hp := List.find?_some h
  simp only [Bool.and_eq_true, Option.isNone_iff_eq_none] at hp
  exact ⟨hm, hp.2⟩

theorem nextRest_spec {s : St} {start i : Nat} (h : nextRest s start = some i) :
    i < s.mapping.length ∧ s.map i = none := by
  unfold nextRest at h
  have hm := List.mem_range.mp (List.mem_of_mem_drop (List.mem_of_find?_eq_some h))
  have hp := List.find?_some h
  simp only [Option.isNone_iff_eq_none] at hp
  exact ⟨hm, hp⟩

theorem nextIn_spec {g : CG} {s : St} {start i : Nat} (h : nextIn g s start = some i) :
    i < s.ins.length ∧ s.map i = none := by
  unfold nextIn at h
  split at h
  · exact nextStamped_spec h
  · simp at h

/-- `P` holds of the content of an option, if any -/
def OptAll (P : Nat → Prop) (o : Option Nat) : Prop := ∀ x, o = some x → P x

theorem OptAll.none {P : Nat → Prop} : OptAll P none := by intro x h; simp at h

theorem nextCandidate_spec {I : Inst} {m : M} {P0 P1 : Nat → Prop}
    (o0 : OptAll P0 (nextOut m.s0 0)) (i0 : OptAll P0 (nextIn I.g0 m.s0 0)) (r0 : OptAll P0 (nextRest m.s0 0))
    (o1 : OptAll P1 (nextOut m.s1 0)) (i1 : OptAll P1 (nextIn I.g1 m.s1 0)) (r1 : OptAll P1 (nextRest m.s1 0))
    {n k : Nat} {ol : OpenList} (h : nextCandidate I m = some (n, k, ol)) : P0 n ∧ P1 k := by
  unfold nextCandidate at h
  simp only [] at h
  generalize nextOut m.s0 0 = a0 at *
  generalize nextIn I.g0 m.s0 0 = b0 at *
  generalize nextRest m.s0 0 = c0 at *
  generalize nextOut m.s1 0 = a1 at *
  generalize nextIn I.g1 m.s1 0 = b1 at *
  generalize nextRest m.s1 0 = c1 at *
  cases a0 <;> cases b0 <;> cases c0 <;> cases a1 <;> cases b1 <;> cases c1 <;>
    simp only [Option.isSome_some, Option.isSome_none, Option.isNone_some, Option.isNone_none, if_true, if_false,
      Bool.or_true, Bool.or_false, Bool.false_eq_true, reduceCtorEq, Option.some.injEq,
      Prod.mk.injEq] at h <;>
    (obtain ⟨rfl, rfl, _⟩ := h
     exact ⟨by first | exact o0 _ rfl | exact i0 _ rfl | exact r0 _ rfl,
            by first | exact o1 _ rfl | exact i1 _ rfl | exact r1 _ rfl⟩)

theorem nextFromIx_spec {I : Inst} {m : M} {nx : Nat} {ol : OpenList} {i : Nat}
    (h : nextFromIx I m nx ol = some i) :
    m.s1.map i = none ∧ (i < m.s1.out.length ∨ i < m.s1.ins.length ∨ i < m.s1.mapping.length) := by
  unfold nextFromIx at h
  cases ol
  · have := nextStamped_spec h; exact ⟨this.2, Or.inl this.1⟩
  · have := nextIn_spec h; exact ⟨this.2, Or.inr (Or.inl this.1)⟩
  · have := nextRest_spec h; exact ⟨this.2, Or.inr (Or.inr this.1)⟩

/-! ### what a mapping must satisfy, and why `is_feasible` keeps it -/

/-- consistency of a concrete graph: `Incoming` lists mirror `Outgoing` lists (directed), neighbour lists and
edge weights are symmetric (undirected).  Checked per run by `cgOkB`. -/
structure CGOk (g : CG) : Prop where
  lenOut : g.outE.length = g.n
  outLt : ∀ i j, j ∈ g.outN i → i < g.n ∧ j < g.n
  simple : ∀ i, (g.outN i).Nodup
  dirIn : g.directed = true → ∀ i j, i ∈ g.inNb j ↔ j ∈ g.outN i
  undirSym : g.directed = false → ∀ i j, g.adj i j = g.adj j i
  undirEw : g.directed = false → ∀ i j, g.ew i j = g.ew j i

theorem adj_iff (g : CG) (a b : Nat) : g.adj a b = true ↔ b ∈ g.outN a := by
  simp [CG.adj]

/-- the pairs of a (partial) mapping respect adjacency and non-adjacency and the semantic predicates -/
structure PartialOk (I : Inst) (mp : Nat → Option Nat) : Prop where
  adj : ∀ i j i' j', mp i = some j → mp i' = some j' → I.g0.adj i i' = I.g1.adj j j'
  node : I.semantic = true → ∀ i j, mp i = some j →
    I.nm ((I.g0.nw[i]?).getD 0) ((I.g1.nw[j]?).getD 0) = true
  edge : I.semantic = true → ∀ i j i' j', mp i = some j → mp i' = some j' → I.g0.adj i i' = true →
    edgeEq I i i' j j' = true

theorem succOk_spec {g h : CG} {s : St} {n m : Nat} (hs : succOk g h s n m = true) :
    (n ∈ g.outN n → h.adj m m = true) ∧
    (∀ nb x, nb ≠ n → nb ∈ g.outN n → s.map nb = some x → h.adj m x = true) := by
  unfold succOk at hs
  rw [List.all_eq_true] at hs
  constructor
  · intro hn
    have := hs n hn
    simpa using this
  · intro nb x hne hnb hx
    have := hs nb hnb
    have hne' : (n != nb) = true := by simpa using (Ne.symm hne)
    simpa [hne', hx] using this

theorem predOk_spec {g h : CG} {s : St} {n m : Nat} (hs : predOk g h s n m = true) :
    ∀ nb x, nb ∈ g.inNb n → s.map nb = some x → h.adj x m = true := by
  unfold predOk at hs
  rw [List.all_eq_true] at hs
  intro nb x hnb hx
  have := hs nb hnb
  simpa [hx] using this

theorem Bool.eq_of_iff' {a b : Bool} (h : a = true ↔ b = true) : a = b := by
  cases a <;> cases b <;> simp_all

theorem edgeFeas_spec {I : Inst} {s : St} {n m : Nat} (hs : edgeFeas I false I.g0 s n m = true) :
    (n ∈ I.g0.outN n → edgeEq I n n m m = true) ∧
    (∀ nb x, nb ≠ n → nb ∈ I.g0.outN n → s.map nb = some x → edgeEq I n nb m x = true) ∧
    (I.g0.directed = true → ∀ nb x, nb ∈ I.g0.inNb n → s.map nb = some x → edgeEq I nb n x m = true) := by
  unfold edgeFeas at hs
  simp only [Bool.and_eq_true, Bool.or_eq_true, Bool.not_eq_true', List.all_eq_true, Bool.false_eq_true,
    if_false] at hs
  obtain ⟨h1, h2⟩ := hs
  refine ⟨?_, ?_, ?_⟩
  · intro hn
    have := h1 n hn
    simpa using this
  · intro nb x hne hnb hx
    have := h1 nb hnb
    have hne' : (n != nb) = true := by simpa using (Ne.symm hne)
    simpa [hne', hx] using this
  · intro hd nb x hnb hx
    rcases h2 with h2 | h2
    · rw [hd] at h2; cases h2
    · have := h2 nb hnb
      simpa [hx] using this

theorem feasible_extends {I : Inst} (ok0 : CGOk I.g0) (ok1 : CGOk I.g1) (hd : I.g0.directed = I.g1.directed)
    {m : M} (inv : ∀ i j, m.s0.map i = some j ↔ m.s1.map j = some i)
    (pok : PartialOk I m.s0.map) {a b : Nat} (hb : m.s1.map b = none)
    (hf : isFeasible I m a b = true) :
    PartialOk I (fun i => if a = i then some b else m.s0.map i) := by
  unfold isFeasible at hf
  simp only [Bool.and_eq_true, Bool.or_eq_true, Bool.not_eq_true'] at hf
  obtain ⟨⟨⟨⟨⟨hs0, hs1⟩, _⟩, hpred⟩, hnm⟩, hem⟩ := hf
  have S0 := succOk_spec hs0
  have S1 := succOk_spec hs1
  -- the new node on the left
  have c2 : ∀ i' j', a ≠ i' → m.s0.map i' = some j' → I.g0.adj a i' = I.g1.adj b j' := by
    intro i' j' hne hi'
    apply Bool.eq_of_iff'
    constructor
    · intro h
      exact S0.2 i' j' (Ne.symm hne) ((adj_iff _ _ _).mp h) hi'
    · intro h
      have hj' : m.s1.map j' = some i' := (inv i' j').mp hi'
      have hne' : j' ≠ b := by rintro rfl; rw [hb] at hj'; cases hj'
      exact S1.2 j' i' hne' ((adj_iff _ _ _).mp h) hj'
  -- the new node on the right
  have c3 : ∀ i j, a ≠ i → m.s0.map i = some j → I.g0.adj i a = I.g1.adj j b := by
    intro i j hne hi
    cases hdir : I.g0.directed with
    | true =>
      rcases hpred with hpred | hpred
      · rw [hdir] at hpred; cases hpred
      · obtain ⟨⟨hp0, hp1⟩, _⟩ := hpred
        have P0 := predOk_spec hp0
        have P1 := predOk_spec hp1
        apply Bool.eq_of_iff'
        constructor
        · intro h
          exact P0 i j ((ok0.dirIn hdir i a).mpr ((adj_iff _ _ _).mp h)) hi
        · intro h
          have hj : m.s1.map j = some i := (inv i j).mp hi
          exact P1 j i ((ok1.dirIn (hd ▸ hdir) j b).mpr ((adj_iff _ _ _).mp h)) hj
    | false =>
      rw [ok0.undirSym hdir i a, ok1.undirSym (hd ▸ hdir) j b]
      exact c2 i j hne hi
  refine ⟨?_, ?_, ?_⟩
  · intro i j i' j' hi hi'
    by_cases h1 : a = i <;> by_cases h2 : a = i'
    · subst h1; subst h2
      simp only [if_true, Option.some.injEq] at hi hi'
      subst hi; subst hi'
      apply Bool.eq_of_iff'
      exact ⟨fun h => S0.1 ((adj_iff _ _ _).mp h), fun h => S1.1 ((adj_iff _ _ _).mp h)⟩
    · subst h1
      simp only [if_true, Option.some.injEq, h2, if_false] at hi hi'
      subst hi
      exact c2 i' j' h2 hi'
    · subst h2
      simp only [if_true, Option.some.injEq, h1, if_false] at hi hi'
      subst hi'
      exact c3 i j h1 hi
    · simp only [h1, h2, if_false] at hi hi'
      exact pok.adj i j i' j' hi hi'
  · intro hsem i j hi
    by_cases h1 : a = i
    · subst h1
      simp only [if_true, Option.some.injEq] at hi
      subst hi
      rcases hnm with hnm | hnm
      · rw [hsem] at hnm; cases hnm
      · exact hnm
    · simp only [h1, if_false] at hi
      exact pok.node hsem i j hi
  · intro hsem i j i' j' hi hi' hadj
    rcases hem with hem | hem
    · rw [hsem] at hem; cases hem
    obtain ⟨E1, E2, E3⟩ := edgeFeas_spec hem.1
    by_cases h1 : a = i <;> by_cases h2 : a = i'
    · subst h1; subst h2
      simp only [if_true, Option.some.injEq] at hi hi'
      subst hi; subst hi'
      exact E1 ((adj_iff _ _ _).mp hadj)
    · subst h1
      simp only [if_true, Option.some.injEq, h2, if_false] at hi hi'
      subst hi
      exact E2 i' j' (Ne.symm h2) ((adj_iff _ _ _).mp hadj) hi'
    · subst h2
      simp only [if_true, Option.some.injEq, h1, if_false] at hi hi'
      subst hi'
      cases hdir : I.g0.directed with
      | true =>
        exact E3 hdir i j ((ok0.dirIn hdir i a).mpr ((adj_iff _ _ _).mp hadj)) hi
      | false =>
        have hadj' : I.g0.adj a i = true := by rw [← ok0.undirSym hdir i a]; exact hadj
        have := E2 i j (Ne.symm h1) ((adj_iff _ _ _).mp hadj') hi
        unfold edgeEq at this ⊢
        rw [ok0.undirEw hdir i a, ok1.undirEw (hd ▸ hdir) j b]
        exact this
    · simp only [h1, h2, if_false] at hi hi'
      exact pok.edge hsem i j i' j' hi hi' hadj

theorem PartialOk.mono {I : Inst} {mp mp' : Nat → Option Nat} (h : ∀ i j, mp' i = some j → mp i = some j)
    (p : PartialOk I mp) : PartialOk I mp' :=
  ⟨fun i j i' j' hi hi' => p.adj i j i' j' (h _ _ hi) (h _ _ hi'),
   fun hs i j hi => p.node hs i j (h _ _ hi),
   fun hs i j i' j' hi hi' ha => p.edge hs i j i' j' (h _ _ hi) (h _ _ hi') ha⟩

/-! ### the invariant of the two `Vf2State`s -/

structure Core (I : Inst) (s0 s1 : St) : Prop where
  len0 : s0.mapping.length = I.g0.n
  len1 : s1.mapping.length = I.g1.n
  out0 : s0.out.length = I.g0.n
  out1 : s1.out.length = I.g1.n
  ins0 : s0.ins.length ≤ I.g0.n
  ins1 : s1.ins.length ≤ I.g1.n
  inv : ∀ i j, s0.map i = some j ↔ s1.map j = some i
  ok : PartialOk I s0.map
  gen : s0.gen = s0.mapping.countP Option.isSome

theorem getElem_of_map_none {s : St} {a : Nat} (h : s.map a = none) (ha : a < s.mapping.length) :
    s.mapping[a] = none := by
  unfold St.map at h
  rw [List.getElem?_eq_getElem ha] at h
  simpa using h

theorem getElem_of_map_some {s : St} {a b : Nat} (h : s.map a = some b) :
    s.mapping[a]'(map_some_lt h) = some b := by
  have ha := map_some_lt h
  unfold St.map at h
  rw [List.getElem?_eq_getElem ha] at h
  simpa using h

theorem Core.push {I : Inst} (ok0 : CGOk I.g0) (ok1 : CGOk I.g1) (hd : I.g0.directed = I.g1.directed)
    {m : M} (c : Core I m.s0 m.s1) {a b : Nat} (ha : m.s0.map a = none) (hb : m.s1.map b = none)
    (ha' : a < I.g0.n) (hb' : b < I.g1.n) (hf : isFeasible I m a b = true) :
    Core I (pushMapping I.g0 m.s0 a b) (pushMapping I.g1 m.s1 b a) := by
  have la : a < m.s0.mapping.length := by rw [c.len0]; exact ha'
  have lb : b < m.s1.mapping.length := by rw [c.len1]; exact hb'
  have e0 : ∀ i, (pushMapping I.g0 m.s0 a b).map i = if a = i then some b else m.s0.map i := by
    intro i; rw [pushMapping_map]; simp [la]
  have e1 : ∀ j, (pushMapping I.g1 m.s1 b a).map j = if b = j then some a else m.s1.map j := by
    intro j; rw [pushMapping_map]; simp [lb]
  refine ⟨?_, ?_, ?_, ?_, ?_, ?_, ?_, ?_, ?_⟩
  · rw [pushMapping_mapping, List.length_set]; exact c.len0
  · rw [pushMapping_mapping, List.length_set]; exact c.len1
  · rw [pushMapping_out]; exact c.out0
  · rw [pushMapping_out]; exact c.out1
  · rw [pushMapping_ins]; exact c.ins0
  · rw [pushMapping_ins]; exact c.ins1
  · intro i j
    rw [e0, e1]
    by_cases h1 : a = i <;> by_cases h2 : b = j
    · subst h1; subst h2; simp
    · subst h1
      simp only [if_true, h2, if_false, Option.some.injEq]
      constructor
      · intro h; exact h.elim
      · intro h
        have := (c.inv a j).mpr h
        rw [ha] at this; cases this
    · subst h2
      simp only [if_true, h1, if_false, Option.some.injEq]
      constructor
      · intro h
        have := (c.inv i b).mp h
        rw [hb] at this; cases this
      · intro h; exact h.elim
    · simp only [h1, h2, if_false]
      exact c.inv i j
  · have := feasible_extends ok0 ok1 hd c.inv c.ok hb hf
    have fe : (pushMapping I.g0 m.s0 a b).map = fun i => if a = i then some b else m.s0.map i := funext e0
    rw [fe]; exact this
  · rw [pushMapping_gen, pushMapping_mapping, List.countP_set la, c.gen, getElem_of_map_none ha la]
    simp

theorem Core.pop {I : Inst} {s0 s1 : St} (c : Core I s0 s1) {a b : Nat} (hab : s0.map a = some b) :
    Core I (popMapping I.g0 s0 a) (popMapping I.g1 s1 b) := by
  have hba : s1.map b = some a := (c.inv a b).mp hab
  have la := map_some_lt hab
  have lb := map_some_lt hba
  have e0 : ∀ i, (popMapping I.g0 s0 a).map i = if a = i then none else s0.map i := by
    intro i; rw [popMapping_map]; simp [la]
  have e1 : ∀ j, (popMapping I.g1 s1 b).map j = if b = j then none else s1.map j := by
    intro j; rw [popMapping_map]; simp [lb]
  refine ⟨?_, ?_, ?_, ?_, ?_, ?_, ?_, ?_, ?_⟩
  · rw [popMapping_mapping, List.length_set]; exact c.len0
  · rw [popMapping_mapping, List.length_set]; exact c.len1
  · rw [popMapping_out]; exact c.out0
  · rw [popMapping_out]; exact c.out1
  · rw [popMapping_ins]; exact c.ins0
  · rw [popMapping_ins]; exact c.ins1
  · intro i j
    rw [e0, e1]
    by_cases h1 : a = i <;> by_cases h2 : b = j
    · simp [h1, h2]
    · subst h1
      simp only [if_true, h2, if_false]
      constructor
      · intro h; cases h
      · intro h
        have := (c.inv a j).mpr h
        rw [hab] at this
        exact absurd (Option.some.inj this) h2
    · subst h2
      simp only [if_true, h1, if_false]
      constructor
      · intro h
        have := (c.inv i b).mp h
        rw [hba] at this
        exact absurd (Option.some.inj this) h1
      · intro h; cases h
    · simp only [h1, h2, if_false]
      exact c.inv i j
  · refine c.ok.mono ?_
    intro i j h
    rw [e0] at h
    by_cases h1 : a = i
    · simp [h1] at h
    · simpa [h1] using h
  · rw [popMapping_gen, popMapping_mapping, List.countP_set la, c.gen, getElem_of_map_some hab]
    simp

/-- a yielded vector: total on the nodes of g0, into the nodes of g1, injective, adjacency- and
non-adjacency-preserving, predicates satisfied -/
structure Final (I : Inst) (mp : List (Option Nat)) : Prop where
  len : mp.length = I.g0.n
  total : ∀ i, i < I.g0.n → ∃ j, mp[i]? = some (some j) ∧ j < I.g1.n
  inj : ∀ i i' j : Nat, mp[i]? = some (some j) → mp[i']? = some (some j) → i = i'
  ok : PartialOk I (fun i => (mp[i]?).getD none)

theorem map_of_getElem? {s : St} {i j : Nat} (h : s.mapping[i]? = some (some j)) : s.map i = some j := by
  unfold St.map; rw [h]; rfl

theorem Core.final {I : Inst} {s0 s1 : St} (c : Core I s0 s1) (hc : s0.isComplete = true) :
    Final I s0.mapping := by
  have hall : ∀ x ∈ s0.mapping, Option.isSome x = true := by
    apply List.countP_eq_length.mp
    unfold St.isComplete at hc
    rw [← c.gen]; simpa using hc
  refine ⟨c.len0, ?_, ?_, c.ok⟩
  · intro i hi
    have li : i < s0.mapping.length := by rw [c.len0]; exact hi
    have := hall _ (List.getElem_mem li)
    obtain ⟨j, hj⟩ := Option.isSome_iff_exists.mp this
    have h1 : s0.mapping[i]? = some (some j) := by rw [List.getElem?_eq_getElem li, hj]
    refine ⟨j, h1, ?_⟩
    have := map_some_lt ((c.inv i j).mp (map_of_getElem? h1))
    rw [← c.len1]; exact this
  · intro i i' j h h'
    have a1 := (c.inv i j).mp (map_of_getElem? h)
    have a2 := (c.inv i' j).mp (map_of_getElem? h')
    rw [a1] at a2
    exact Option.some.inj a2

/-! ### the frame stack -/

def Frame.key : Frame → Option Nat
  | .unwind a _ _ => some a
  | _ => none

def unwKeys (st : List Frame) : List Nat := st.filterMap Frame.key

theorem mem_unwKeys {st : List Frame} {a : Nat} : a ∈ unwKeys st ↔ ∃ b ol, Frame.unwind a b ol ∈ st := by
  simp only [unwKeys, List.mem_filterMap]
  constructor
  · rintro ⟨fr, hfr, hk⟩
    cases fr <;> simp [Frame.key] at hk
    subst hk; exact ⟨_, _, hfr⟩
  · rintro ⟨b, ol, h⟩; exact ⟨_, h, rfl⟩

/-- invariant of a machine state whose stack holds no `Inner` frame -/
structure Inv0 (I : Inst) (m : M) : Prop where
  core : Core I m.s0 m.s1
  unw : ∀ a b ol, Frame.unwind a b ol ∈ m.stack → m.s0.map a = some b
  distinct : (unwKeys m.stack).Nodup
  noInner : ∀ a b ol, Frame.inner a b ol ∉ m.stack

/-- invariant of a machine state: an `Inner` frame can only be on top, and then names two unmapped nodes -/
structure Inv (I : Inst) (m : M) : Prop where
  core : Core I m.s0 m.s1
  unw : ∀ a b ol, Frame.unwind a b ol ∈ m.stack → m.s0.map a = some b
  distinct : (unwKeys m.stack).Nodup
  noInner : ∀ a b ol, Frame.inner a b ol ∉ m.stack.tail
  innerHead : ∀ a b ol rest, m.stack = Frame.inner a b ol :: rest →
    m.s0.map a = none ∧ m.s1.map b = none ∧ a < I.g0.n ∧ b < I.g1.n

theorem Inv0.toInv {I : Inst} {m : M} (h : Inv0 I m) : Inv I m :=
  ⟨h.core, h.unw, h.distinct, fun a b ol hm => h.noInner a b ol (List.mem_of_mem_tail hm),
   fun a b ol rest hs => absurd (by rw [hs]; simp) (h.noInner a b ol)⟩

/-- popping the top frame -/
theorem Inv.popFrame {I : Inst} {m : M} (h : Inv I m) {fr : Frame} {rest : List Frame} (hs : m.stack = fr :: rest) :
    Inv0 I { m with stack := rest } := by
  refine ⟨h.core, ?_, ?_, ?_⟩
  · intro a b ol hm; exact h.unw a b ol (by rw [hs]; exact List.mem_cons_of_mem _ hm)
  · have := h.distinct
    rw [hs] at this
    unfold unwKeys at this ⊢
    rw [List.filterMap_cons] at this
    split at this
    · exact this
    · exact (List.nodup_cons.mp this).2
  · intro a b ol hm
    have := h.noInner a b ol
    rw [hs] at this
    exact this hm

/-- pushing an `Inner` frame that names two unmapped nodes -/
theorem Inv0.pushInner {I : Inst} {m : M} (h : Inv0 I m) {a b : Nat} (ol : OpenList)
    (ha : m.s0.map a = none) (hb : m.s1.map b = none) (ha' : a < I.g0.n) (hb' : b < I.g1.n) :
    Inv I { m with stack := Frame.inner a b ol :: m.stack } := by
  refine ⟨h.core, ?_, ?_, ?_, ?_⟩
  · intro a' b' ol' hm
    rcases List.mem_cons.mp hm with h1 | h1
    · cases h1
    · exact h.unw a' b' ol' h1
  · have : unwKeys (Frame.inner a b ol :: m.stack) = unwKeys m.stack := by
      unfold unwKeys; rw [List.filterMap_cons]; rfl
    show (unwKeys (Frame.inner a b ol :: m.stack)).Nodup
    rw [this]; exact h.distinct
  · intro a' b' ol' hm
    exact h.noInner a' b' ol' hm
  · intro a' b' ol' rest hs
    simp only [List.cons.injEq, Frame.inner.injEq] at hs
    obtain ⟨⟨rfl, rfl, _⟩, _⟩ := hs
    exact ⟨ha, hb, ha', hb'⟩

/-- `pop_state` on the pair of the `Unwind` frame just popped -/
theorem Inv0.popState {I : Inst} {m : M} (h : Inv0 I m) {a b : Nat} (hab : m.s0.map a = some b)
    (hk : a ∉ unwKeys m.stack) :
    Inv0 I (popState I m a b) ∧ (popState I m a b).s0.map a = none ∧ (popState I m a b).s1.map b = none := by
  have hba : m.s1.map b = some a := (h.core.inv a b).mp hab
  have la := map_some_lt hab
  have lb := map_some_lt hba
  refine ⟨⟨h.core.pop hab, ?_, h.distinct, h.noInner⟩, ?_, ?_⟩
  · intro a' b' ol hm
    have hne : a ≠ a' := by
      rintro rfl
      exact hk (mem_unwKeys.mpr ⟨b', ol, hm⟩)
    show (popMapping I.g0 m.s0 a).map a' = some b'
    rw [popMapping_map]
    simp only [hne, false_and, if_false]
    exact h.unw a' b' ol hm
  · show (popMapping I.g0 m.s0 a).map a = none
    rw [popMapping_map]; simp [la]
  · show (popMapping I.g1 m.s1 b).map b = none
    rw [popMapping_map]; simp [lb]

/-- `push_state` on a feasible pair of unmapped nodes, followed by pushing `Unwind` and `Outer` -/
theorem Inv0.pushState {I : Inst} (ok0 : CGOk I.g0) (ok1 : CGOk I.g1) (hd : I.g0.directed = I.g1.directed)
    {m : M} (h : Inv0 I m) {a b : Nat} (ol : OpenList)
    (ha : m.s0.map a = none) (hb : m.s1.map b = none) (ha' : a < I.g0.n) (hb' : b < I.g1.n)
    (hf : isFeasible I m a b = true) :
    Inv0 I { pushState I m a b with stack := Frame.outer :: Frame.unwind a b ol :: m.stack } ∧
    (pushState I m a b).s0.map a = some b ∧ a ∉ unwKeys m.stack ∧ Inv0 I (pushState I m a b) := by
  have la : a < m.s0.mapping.length := by rw [h.core.len0]; exact ha'
  have hmap : ∀ i, (pushMapping I.g0 m.s0 a b).map i = if a = i then some b else m.s0.map i := by
    intro i; rw [pushMapping_map]; simp [la]
  have hk : a ∉ unwKeys m.stack := by
    intro hk
    obtain ⟨b', ol', hm⟩ := mem_unwKeys.mp hk
    have := h.unw a b' ol' hm
    rw [ha] at this; cases this
  have hold : ∀ a' b' ol', Frame.unwind a' b' ol' ∈ m.stack → (pushMapping I.g0 m.s0 a b).map a' = some b' := by
    intro a' b' ol' hm
    have hne : a ≠ a' := by
      rintro rfl
      exact hk (mem_unwKeys.mpr ⟨b', ol', hm⟩)
    rw [hmap]; simp only [hne, if_false]
    exact h.unw a' b' ol' hm
  have hc := h.core.push ok0 ok1 hd ha hb ha' hb' hf
  refine ⟨⟨hc, ?_, ?_, ?_⟩, ?_, hk, ⟨hc, hold, h.distinct, h.noInner⟩⟩
  · intro a' b' ol' hm
    rcases List.mem_cons.mp hm with h1 | h1
    · cases h1
    rcases List.mem_cons.mp h1 with h2 | h2
    · cases h2
      show (pushMapping I.g0 m.s0 a b).map a = some b
      rw [hmap]; simp
    · exact hold a' b' ol' h2
  · show (unwKeys (Frame.outer :: Frame.unwind a b ol :: m.stack)).Nodup
    have : unwKeys (Frame.outer :: Frame.unwind a b ol :: m.stack) = a :: unwKeys m.stack := by
      unfold unwKeys; rw [List.filterMap_cons, List.filterMap_cons]; rfl
    rw [this]
    exact List.nodup_cons.mpr ⟨hk, h.distinct⟩
  · intro a' b' ol' hm
    rcases List.mem_cons.mp hm with h1 | h1
    · cases h1
    rcases List.mem_cons.mp h1 with h2 | h2
    · cases h2
    · exact h.noInner a' b' ol' h2
  · show (pushMapping I.g0 m.s0 a b).map a = some b
    rw [hmap]; simp

/-! ### one loop iteration, the loop, `isomorphisms()` -/

/-- a result, if present, is a valid complete mapping -/
def Good (I : Inst) (r : Result) : Prop := ∀ mp, r = some mp → Final I mp

theorem advance_inv {I : Inst} {m : M} {a b : Nat} {ol : OpenList} {result : Result} {m2 : M} {r2 : Result}
    {chk : Bool} (h0 : Inv0 I m) (ha : m.s0.map a = none) (ha' : a < I.g0.n) (hg : Good I result)
    (h : advance I m a b ol result = (m2, r2, chk)) : Inv I m2 ∧ Good I r2 := by
  unfold advance at h
  split at h
  · cases h; exact ⟨h0.toInv, hg⟩
  · rename_i nx hnx
    cases h
    obtain ⟨h1, h2⟩ := nextFromIx_spec hnx
    have : nx < I.g1.n := by
      have c := h0.core
      rcases h2 with h2 | h2 | h2
      · rw [← c.out1]; exact h2
      · exact Nat.lt_of_lt_of_le h2 c.ins1
      · rw [← c.len1]; exact h2
    exact ⟨h0.pushInner ol ha h1 ha' this, hg⟩

theorem frameStep_inv {I : Inst} (ok0 : CGOk I.g0) (ok1 : CGOk I.g1) (hd : I.g0.directed = I.g1.directed)
    {sub : Bool} {m : M} {fr : Frame} {rest : List Frame} {result : Result}
    (hinv : Inv I m) (hs : m.stack = fr :: rest) (hg : Good I result)
    {m2 : M} {r2 : Result} {chk : Bool}
    (h : frameStep I sub { m with stack := rest } fr result = (m2, r2, chk)) : Inv I m2 ∧ Good I r2 := by
  have h0 : Inv0 I { m with stack := rest } := hinv.popFrame hs
  have c := h0.core
  cases fr with
  | unwind a b ol =>
    have hab : m.s0.map a = some b := hinv.unw a b ol (by rw [hs]; simp)
    have hk : a ∉ unwKeys rest := by
      have := hinv.distinct
      rw [hs] at this
      have e : unwKeys (Frame.unwind a b ol :: rest) = a :: unwKeys rest := by
        unfold unwKeys; rw [List.filterMap_cons]; rfl
      rw [e] at this
      exact (List.nodup_cons.mp this).1
    obtain ⟨p0, pa, _⟩ := h0.popState (a := a) (b := b) hab hk
    have la : a < I.g0.n := by rw [← c.len0]; exact map_some_lt hab
    simp only [frameStep] at h
    exact advance_inv p0 pa la hg h
  | outer =>
    simp only [frameStep] at h
    split at h
    · cases h; exact ⟨h0.toInv, hg⟩
    · rename_i nx mx ol hc
      cases h
      have sp := nextCandidate_spec (I := I) (m := { m with stack := rest })
        (P0 := fun n => m.s0.map n = none ∧ n < I.g0.n) (P1 := fun n => m.s1.map n = none ∧ n < I.g1.n)
        (fun x hx => by have := nextStamped_spec hx; exact ⟨this.2, by rw [← c.out0]; exact this.1⟩)
        (fun x hx => by have := nextIn_spec hx; exact ⟨this.2, Nat.lt_of_lt_of_le this.1 c.ins0⟩)
        (fun x hx => by have := nextRest_spec hx; exact ⟨this.2, by rw [← c.len0]; exact this.1⟩)
        (fun x hx => by have := nextStamped_spec hx; exact ⟨this.2, by rw [← c.out1]; exact this.1⟩)
        (fun x hx => by have := nextIn_spec hx; exact ⟨this.2, Nat.lt_of_lt_of_le this.1 c.ins1⟩)
        (fun x hx => by have := nextRest_spec hx; exact ⟨this.2, by rw [← c.len1]; exact this.1⟩)
        hc
      exact ⟨h0.pushInner ol sp.1.1 sp.2.1 sp.1.2 sp.2.2, hg⟩
  | inner a b ol =>
    obtain ⟨ha, hb, ha', hb'⟩ := hinv.innerHead a b ol rest hs
    simp only [frameStep] at h
    split at h
    · rename_i hf
      obtain ⟨q1, q2, q3, q4⟩ := h0.pushState ok0 ok1 hd ol (a := a) (b := b) ha hb ha' hb' hf
      have hg' : Good I (if (pushState I { m with stack := rest } a b).s0.isComplete = true then
          some (pushState I { m with stack := rest } a b).s0.mapping else result) := by
        intro mp hmp
        split at hmp
        · rename_i hcpl
          cases hmp
          exact q4.core.final hcpl
        · exact hg mp hmp
      split at h
      · cases h
        exact ⟨q1.toInv, hg'⟩
      · obtain ⟨p0, pa, _⟩ := q4.popState (a := a) (b := b) q2 q3
        exact advance_inv p0 pa ha' hg' h
    · exact advance_inv h0 ha ha' hg h

theorem isoLoop_sound {I : Inst} (ok0 : CGOk I.g0) (ok1 : CGOk I.g1) (hd : I.g0.directed = I.g1.directed)
    (sub : Bool) : ∀ (fuel : Nat) (m : M) (result : Result) (m' : M) (r : Result),
      Inv I m → Good I result → isoLoop I sub fuel m result = some (m', r) → Inv I m' ∧ Good I r := by
  intro fuel
  induction fuel with
  | zero => intro m result m' r _ _ h; simp [isoLoop] at h
  | succ fuel ih =>
    intro m result m' r hinv hg h
    rw [isoLoop] at h
    split at h
    · cases h; exact ⟨hinv, hg⟩
    · rename_i fr rest hs
      split at h
      rename_i m2 r2 chk hstep
      have := frameStep_inv ok0 ok1 hd hinv hs hg hstep
      split at h
      · cases h; exact this
      · exact ih _ _ _ _ this.1 this.2 h

theorem init_inv (I : Inst) : Inv I (M.init I) := by
  have hm : ∀ (g : CG) i, (St.new g).map i = none := by
    intro g i
    unfold St.map St.new
    simp only [List.getElem?_replicate]
    split <;> rfl
  refine ⟨⟨?_, ?_, ?_, ?_, ?_, ?_, ?_, ⟨?_, ?_, ?_⟩, ?_⟩, ?_, ?_, ?_, ?_⟩
  · simp [M.init, St.new]
  · simp [M.init, St.new]
  · simp [M.init, St.new]
  · simp [M.init, St.new]
  · simp only [M.init, St.new, List.length_replicate]; split <;> simp
  · simp only [M.init, St.new, List.length_replicate]; split <;> simp
  · intro i j; simp only [M.init, hm]; simp
  · intro i j i' j' h; simp only [M.init, hm] at h; cases h
  · intro _ i j h; simp only [M.init, hm] at h; cases h
  · intro _ i j i' j' h; simp only [M.init, hm] at h; cases h
  · simp [M.init, St.new, List.countP_replicate]
  · intro a b ol h; simp [M.init] at h
  · show (unwKeys [Frame.outer]).Nodup
    unfold unwKeys; rw [List.filterMap_cons]; simp [Frame.key]
  · intro a b ol h; simp [M.init] at h
  · intro a b ol rest h; simp [M.init] at h

/-- `isomorphisms()`: from a state satisfying the invariant, the state returned satisfies it again and
the vector returned (if any) is a valid complete mapping — so every call of the iterator's `next()` is covered -/
theorem isomorphisms_sound {I : Inst} (ok0 : CGOk I.g0) (ok1 : CGOk I.g1) (hd : I.g0.directed = I.g1.directed)
    (sub : Bool) (fuel : Nat) (m m' : M) (r : Result) (hinv : Inv I m)
    (h : isomorphisms I sub fuel m = some (m', r)) : Inv I m' ∧ Good I r := by
  unfold isomorphisms at h
  split at h
  · rename_i hc
    split at h
    · cases h
      exact ⟨hinv, fun mp hmp => by cases hmp⟩
    · rename_i fr rest hs
      cases h
      exact ⟨(hinv.popFrame hs).toInv, fun mp hmp => by cases hmp; exact hinv.core.final hc⟩
  · exact isoLoop_sound ok0 ok1 hd sub fuel m none m' r hinv (fun mp hmp => by cases hmp) h

/-! ### the public wrappers of the model -/

/-- the vector the model reports is the image of a valid complete mapping -/
def Reported (I : Inst) (v : List Nat) : Prop := ∃ mp, Final I mp ∧ v = toAbstract I mp

theorem iterLoop_sound {I : Inst} (ok0 : CGOk I.g0) (ok1 : CGOk I.g1) (hd : I.g0.directed = I.g1.directed) :
    ∀ (k : Nat) (m : M) (acc : List (List Nat)), Inv I m → (∀ v ∈ acc, Reported I v) →
      ∀ v ∈ (iterLoop I k m acc).1, Reported I v := by
  intro k
  induction k with
  | zero =>
    intro m acc _ hacc v hv
    unfold iterLoop at hv
    split at hv <;> exact hacc v (by simpa using hv)
  | succ k ih =>
    intro m acc hinv hacc v hv
    unfold iterLoop at hv
    split at hv
    · rename_i m' mp hiso
      have := isomorphisms_sound ok0 ok1 hd true bigFuel m m' (some mp) hinv hiso
      refine ih m' _ this.1 ?_ v hv
      intro w hw
      rcases List.mem_cons.mp hw with rfl | hw
      · exact ⟨mp, this.2 mp rfl, rfl⟩
      · exact hacc w hw
    · exact hacc v (by simpa using hv)

theorem iterModel_sound {I : Inst} (ok0 : CGOk I.g0) (ok1 : CGOk I.g1) (hd : I.g0.directed = I.g1.directed)
    {vs : List (List Nat)} {fin : Bool} (h : iterModel I = some (vs, fin)) : ∀ v ∈ vs, Reported I v := by
  unfold iterModel at h
  split at h
  · cases h
  · simp only [Option.some.injEq] at h
    intro v hv
    have := iterLoop_sound ok0 ok1 hd (fallingFact I.g1.n I.g0.n + 2) (M.init I) [] (init_inv I)
      (fun _ h => by cases h) v (by rw [h]; exact hv)
    exact this

theorem tryMatch_sound {I : Inst} (ok0 : CGOk I.g0) (ok1 : CGOk I.g1) (hd : I.g0.directed = I.g1.directed)
    {sub : Bool} (h : tryMatch I sub = true) : ∃ mp, Final I mp := by
  unfold tryMatch at h
  split at h
  · rename_i m' mp hiso
    exact ⟨mp, (isomorphisms_sound ok0 ok1 hd sub bigFuel _ m' (some mp) (init_inv I) hiso).2 mp rfl⟩
  · cases h

/-- a total injective mapping into `0..n1-1` needs `n0 ≤ n1`, and is onto when `n0 = n1` -/
theorem Final.image {I : Inst} {mp : List (Option Nat)} (f : Final I mp) :
    ∃ L : List Nat, L.length = I.g0.n ∧ L.Nodup ∧ (∀ j ∈ L, j < I.g1.n) ∧
      ∀ j, j ∈ L ↔ ∃ i, i < I.g0.n ∧ mp[i]? = some (some j) := by
  refine ⟨(List.range I.g0.n).map (fun i => ((mp[i]?).getD none).getD 0), by simp, ?_, ?_, ?_⟩
  · refine List.Nodup.map_on ?_ List.nodup_range
    intro i hi i' hi' heq
    obtain ⟨j, hj, _⟩ := f.total i (List.mem_range.mp hi)
    obtain ⟨j', hj', _⟩ := f.total i' (List.mem_range.mp hi')
    simp only [hj, hj', Option.getD_some] at heq
    subst heq
    exact f.inj i i' j hj hj'
  · intro j hj
    obtain ⟨i, hi, rfl⟩ := List.mem_map.mp hj
    obtain ⟨j', hj', hlt⟩ := f.total i (List.mem_range.mp hi)
    simpa [hj'] using hlt
  · intro j
    constructor
    · intro hj
      obtain ⟨i, hi, rfl⟩ := List.mem_map.mp hj
      obtain ⟨j', hj', _⟩ := f.total i (List.mem_range.mp hi)
      exact ⟨i, List.mem_range.mp hi, by simp [hj']⟩
    · rintro ⟨i, hi, hj⟩
      exact List.mem_map.mpr ⟨i, List.mem_range.mpr hi, by simp [hj]⟩

theorem Final.node_count_le {I : Inst} {mp : List (Option Nat)} (f : Final I mp) : I.g0.n ≤ I.g1.n := by
  obtain ⟨L, hlen, hnd, hlt, _⟩ := f.image
  have : L ⊆ List.range I.g1.n := fun j hj => List.mem_range.mpr (hlt j hj)
  have := (List.subperm_of_subset hnd this).length_le
  simpa [hlen] using this

theorem Final.onto {I : Inst} {mp : List (Option Nat)} (f : Final I mp) (hn : I.g0.n = I.g1.n) :
    ∀ j, j < I.g1.n → ∃ i, i < I.g0.n ∧ mp[i]? = some (some j) := by
  obtain ⟨L, hlen, hnd, hlt, hmem⟩ := f.image
  have hsub : L ⊆ List.range I.g1.n := fun j hj => List.mem_range.mpr (hlt j hj)
  have pm := (List.subperm_of_subset hnd hsub).perm_of_length_le (by simp [hlen, hn])
  intro j hj
  exact (hmem j).mp (pm.symm.subset (List.mem_range.mpr hj))

/-! ### the executable consistency check implies `CGOk` -/

theorem outN_nil_of_ge {g : CG} (hl : g.outE.length = g.n) {i : Nat} (hi : g.n ≤ i) : g.outN i = [] := by
  unfold CG.outN
  rw [List.getElem?_eq_none (by rw [hl]; exact hi)]
  rfl

theorem inNb_nil_of_ge {g : CG} (hl : g.inN.length = g.n) {i : Nat} (hi : g.n ≤ i) : g.inNb i = [] := by
  unfold CG.inNb
  rw [List.getElem?_eq_none (by rw [hl]; exact hi)]
  rfl

theorem ew_none_of_not_mem {g : CG} {a b : Nat} (h : b ∉ g.outN a) : g.ew a b = none := by
  unfold CG.ew
  unfold CG.outN at h
  rw [Option.map_eq_none_iff, List.find?_eq_none]
  intro x hx hxb
  apply h
  exact List.mem_map.mpr ⟨x, hx, by simpa using hxb⟩

theorem cgOkB_sound {g : CG} (h : cgOkB g = true) : CGOk g := by
  unfold cgOkB at h
  simp only [Bool.and_eq_true, beq_iff_eq, List.all_eq_true, List.mem_range, decide_eq_true_eq] at h
  obtain ⟨⟨⟨⟨hlo, hli⟩, hrange⟩, hnd⟩, hsym⟩ := h
  have outLt : ∀ i j, j ∈ g.outN i → i < g.n ∧ j < g.n := by
    intro i j hj
    by_cases hi : i < g.n
    · exact ⟨hi, (hrange i hi).1 j hj⟩
    · rw [outN_nil_of_ge hlo (Nat.le_of_not_lt hi)] at hj; cases hj
  have inLt : ∀ i j, j ∈ g.inNb i → i < g.n ∧ j < g.n := by
    intro i j hj
    by_cases hi : i < g.n
    · exact ⟨hi, (hrange i hi).2 j hj⟩
    · rw [inNb_nil_of_ge hli (Nat.le_of_not_lt hi)] at hj; cases hj
  refine ⟨hlo, outLt, ?_, ?_, ?_, ?_⟩
  · intro i
    by_cases hi : i < g.n
    · exact hnd i hi
    · rw [outN_nil_of_ge hlo (Nat.le_of_not_lt hi)]; exact List.nodup_nil
  · intro hd i j
    constructor
    · intro hij
      obtain ⟨hj, hi⟩ := inLt j i hij
      have e : (g.inNb j).contains i = (g.outN i).contains j := by simpa [hd] using hsym i hi j hj
      have h2 : (g.inNb j).contains i = true := List.contains_iff_mem.mpr hij
      rw [h2] at e
      exact List.contains_iff_mem.mp e.symm
    · intro hij
      obtain ⟨hi, hj⟩ := outLt i j hij
      have e : (g.inNb j).contains i = (g.outN i).contains j := by simpa [hd] using hsym i hi j hj
      have h2 : (g.outN i).contains j = true := List.contains_iff_mem.mpr hij
      rw [h2] at e
      exact List.contains_iff_mem.mp e
  · intro hd i j
    by_cases hi : i < g.n <;> by_cases hj : j < g.n
    · have := hsym i hi j hj
      simp only [hd, Bool.false_eq_true, if_false, Bool.and_eq_true, beq_iff_eq] at this
      exact this.1
    · apply Bool.eq_of_iff'
      simp only [adj_iff]
      exact ⟨fun h => absurd (outLt i j h).2 hj, fun h => absurd (outLt j i h).1 hj⟩
    · apply Bool.eq_of_iff'
      simp only [adj_iff]
      exact ⟨fun h => absurd (outLt i j h).1 hi, fun h => absurd (outLt j i h).2 hi⟩
    · apply Bool.eq_of_iff'
      simp only [adj_iff]
      exact ⟨fun h => absurd (outLt i j h).1 hi, fun h => absurd (outLt j i h).1 hj⟩
  · intro hd i j
    by_cases hi : i < g.n <;> by_cases hj : j < g.n
    · have := hsym i hi j hj
      simp only [hd, Bool.false_eq_true, if_false, Bool.and_eq_true, beq_iff_eq] at this
      exact this.2
    · rw [ew_none_of_not_mem (fun h => hj (outLt i j h).2), ew_none_of_not_mem (fun h => hj (outLt j i h).1)]
    · rw [ew_none_of_not_mem (fun h => hi (outLt i j h).1), ew_none_of_not_mem (fun h => hi (outLt j i h).2)]
    · rw [ew_none_of_not_mem (fun h => hi (outLt i j h).1), ew_none_of_not_mem (fun h => hj (outLt j i h).1)]

/-! ### from concrete mappings to the specification -/

/-- the abstract graph a concrete graph stands for (its nodes are the concrete indices) -/
def CG.toMGraph (g : CG) : MGraph :=
  { directed := g.directed, nodes := List.range g.n,
    edges := (List.range g.n).flatMap fun i => ((g.outE[i]?).getD []).map fun p => ⟨0, i, p.1, p.2⟩ }

/-- the specification-level problem an instance of the model poses (the plain functions ignore the predicates) -/
def Inst.problem (I : Inst) : Problem :=
  { g0 := I.g0.toMGraph, g1 := I.g1.toMGraph,
    nw0 := fun i => (I.g0.nw[i]?).getD 0, nw1 := fun j => (I.g1.nw[j]?).getD 0,
    nm := fun x y => !I.semantic || I.nm x y, em := fun x y => !I.semantic || I.em x y }

theorem mem_toMGraph_edges {g : CG} {e : Edge} :
    e ∈ g.toMGraph.edges ↔ ∃ i, i < g.n ∧ ∃ p ∈ (g.outE[i]?).getD [], e = ⟨0, i, p.1, p.2⟩ := by
  simp only [CG.toMGraph, List.mem_flatMap, List.mem_range, List.mem_map]
  constructor
  · rintro ⟨i, hi, p, hp, rfl⟩; exact ⟨i, hi, p, hp, rfl⟩
  · rintro ⟨i, hi, p, hp, rfl⟩; exact ⟨i, hi, p, hp, rfl⟩

theorem mem_outN {g : CG} {i b : Nat} : b ∈ g.outN i ↔ ∃ p ∈ (g.outE[i]?).getD [], p.1 = b := by
  simp [CG.outN]

theorem adj_toMGraph {g : CG} (ok : CGOk g) (a b : Nat) : g.toMGraph.Adj a b ↔ g.adj a b = true := by
  rw [adj_iff]
  constructor
  · rintro ⟨e, he, hc⟩
    obtain ⟨i, _, p, hp, rfl⟩ := mem_toMGraph_edges.mp he
    rcases hc with ⟨h1, h2⟩ | ⟨hd, h1, h2⟩
    · simp only at h1 h2
      subst h1; subst h2
      exact mem_outN.mpr ⟨p, hp, rfl⟩
    · simp only at h1 h2
      subst h1; subst h2
      have : g.adj i p.1 = true := (adj_iff _ _ _).mpr (mem_outN.mpr ⟨p, hp, rfl⟩)
      rw [ok.undirSym hd] at this
      exact (adj_iff _ _ _).mp this
  · intro h
    obtain ⟨p, hp, rfl⟩ := mem_outN.mp h
    exact ⟨⟨0, a, p.1, p.2⟩, mem_toMGraph_edges.mpr ⟨a, (ok.outLt a p.1 h).1, p, hp, rfl⟩, Or.inl ⟨rfl, rfl⟩⟩

theorem find_of_nodup {L : List (Nat × Int)} (hnd : (L.map (·.1)).Nodup) {p : Nat × Int} (hp : p ∈ L) :
    L.find? (·.1 == p.1) = some p := by
  induction L with
  | nil => cases hp
  | cons q L ih =>
    simp only [List.map_cons, List.nodup_cons] at hnd
    rcases List.mem_cons.mp hp with rfl | hp
    · simp
    · have : q.1 ≠ p.1 := by
        intro h
        exact hnd.1 (List.mem_map.mpr ⟨p, hp, h.symm⟩)
      rw [List.find?_cons]
      have hb : (q.1 == p.1) = false := by simpa using this
      rw [hb]
      exact ih hnd.2 hp

theorem ew_of_mem {g : CG} (ok : CGOk g) {i : Nat} {p : Nat × Int} (hp : p ∈ (g.outE[i]?).getD []) :
    g.ew i p.1 = some p.2 := by
  unfold CG.ew
  have := ok.simple i
  unfold CG.outN at this
  rw [find_of_nodup this hp]
  rfl

/-- every complete mapping the model can yield is an embedding in the sense of the specification -/
theorem Final.embeds {I : Inst} (ok0 : CGOk I.g0) (ok1 : CGOk I.g1)
    {mp : List (Option Nat)} (f : Final I mp) :
    Embeds I.problem (fun i => ((mp[i]?).getD none).getD 0) := by
  have hmap : ∀ i, i < I.g0.n → ∃ j, (fun i => (mp[i]?).getD none) i = some j ∧
      ((mp[i]?).getD none).getD 0 = j ∧ j < I.g1.n := by
    intro i hi
    obtain ⟨j, hj, hlt⟩ := f.total i hi
    exact ⟨j, by simp [hj], by simp [hj], hlt⟩
  refine ⟨?_, ?_, ?_, ?_, ?_⟩
  · intro a ha
    simp only [Inst.problem, CG.toMGraph, List.mem_range] at ha ⊢
    obtain ⟨j, _, h2, h3⟩ := hmap a ha
    rw [h2]; exact h3
  · intro a ha b hb hab
    simp only [Inst.problem, CG.toMGraph, List.mem_range] at ha hb
    obtain ⟨j, hj, _⟩ := f.total a ha
    obtain ⟨j', hj', _⟩ := f.total b hb
    simp only [hj, hj', Option.getD_some] at hab
    subst hab
    exact f.inj a b j hj hj'
  · intro a ha b hb
    simp only [Inst.problem, CG.toMGraph, List.mem_range] at ha hb
    obtain ⟨j, h1, h2, _⟩ := hmap a ha
    obtain ⟨j', h1', h2', _⟩ := hmap b hb
    show I.g0.toMGraph.Adj a b ↔ I.g1.toMGraph.Adj _ _
    rw [h2, h2', adj_toMGraph ok0, adj_toMGraph ok1, f.ok.adj a j b j' h1 h1']
  · intro a ha
    simp only [Inst.problem, CG.toMGraph, List.mem_range] at ha
    obtain ⟨j, h1, h2, _⟩ := hmap a ha
    show (!I.semantic || I.nm _ _) = true
    cases hs : I.semantic with
    | false => rfl
    | true =>
      rw [h2]
      simpa [Inst.problem] using f.ok.node hs a j h1
  · intro e0 he0 e1 he1 hc
    show (!I.semantic || I.em e0.w e1.w) = true
    cases hs : I.semantic with
    | false => rfl
    | true =>
      obtain ⟨i, hi, p, hp, rfl⟩ := mem_toMGraph_edges.mp he0
      obtain ⟨k, _, q, hq, rfl⟩ := mem_toMGraph_edges.mp he1
      have hpi : p.1 ∈ I.g0.outN i := mem_outN.mpr ⟨p, hp, rfl⟩
      obtain ⟨j, h1, h2, _⟩ := hmap i hi
      obtain ⟨j', h1', h2', _⟩ := hmap p.1 (ok0.outLt i p.1 hpi).2
      have he := f.ok.edge hs i j p.1 j' h1 h1' ((adj_iff _ _ _).mpr hpi)
      unfold edgeEq at he
      rw [ew_of_mem ok0 hp] at he
      have hw1 : I.g1.ew j j' = some q.2 := by
        rcases hc with ⟨c1, c2⟩ | ⟨hdd, c1, c2⟩
        · simp only at c1 c2
          rw [h2] at c1; rw [h2'] at c2
          rw [← c1, ← c2]; exact ew_of_mem ok1 hq
        · simp only at c1 c2
          rw [h2'] at c1; rw [h2] at c2
          have hdd' : I.g1.directed = false := hdd
          rw [ok1.undirEw hdd' j j', ← c1, ← c2]; exact ew_of_mem ok1 hq
      rw [hw1] at he
      simpa using he

end PetgraphModel.C13.Vf2
