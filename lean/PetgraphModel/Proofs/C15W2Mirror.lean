import PetgraphModel.Proofs.C15W2Base
/-
C15 wave 2 — the `Id.run do` blocks of `Model/C15Matching.lean` (`findJoin`, `gabowSearch`,
`maximumMatching`) written with named loop bodies; the equalities hold by `rfl`.
-/
namespace PetgraphModel.C15W2
open PetgraphModel PetgraphModel.C15 PetgraphModel.C15M PetgraphModel.C15P


abbrev JSt := GS × Nat × Nat × Nat × Bool

/-- what one iteration of the join search does once `left`/`right` are fixed -/
def joinAdvance (v : View) (k : Key) (s : GS) (join : Nat) (found : Bool) (left right : Nat) : ForInStep JSt :=
  match s.getMate left with
  | (lm, b) =>
    match lm with
    | none => .done ({ s with fault := true }, left, right, join, found)
    | some lmv =>
      match s.getLabel (v.toIndex lmv) with
      | (ll, b') =>
        match ll with
        | .vertex nextInner =>
          match (s.flt (b || b')).getFi (v.toIndex nextInner) with
          | (nl, b'') =>
            match ((s.flt (b || b')).flt b'').getLabel nl with
            | (lab, b3) =>
              if (!lab.isFlagged k) = true then
                .yield ((((s.flt (b || b')).flt b'').flt b3).setLabel nl (.flag k), nl, right, join, found)
              else .done ((((s.flt (b || b')).flt b'').flt b3), nl, right, nl, true)
        | _ => .done ({ (s.flt (b || b')) with fault := true }, left, right, join, found)

def joinStep (v : View) (k : Key) (st : JSt) : ForInStep JSt :=
  if st.1.fault = true then .done (st.1, st.2.1, st.2.2.1, st.2.2.2.1, st.2.2.2.2)
  else if (st.2.2.1 != v.nb) = true then joinAdvance v k st.1 st.2.2.2.1 st.2.2.2.2 st.2.2.1 st.2.1
  else joinAdvance v k st.1 st.2.2.2.1 st.2.2.2.2 st.2.1 st.2.2.1

abbrev LSt := GS × List Nat × Nat

def labelAdvance (v : View) (k : Key) (esrc etgt join : Nat) (s : GS) (inner : Nat) (calls : List Nat) : ForInStep LSt :=
  match ((s.setLabel inner (.edge k esrc etgt)).setFi inner join).getMate inner with
  | (im, b) =>
    match im with
    | none => .done ({ ((s.setLabel inner (.edge k esrc etgt)).setFi inner join) with fault := true }, calls, inner)
    | some imv =>
      match ((s.setLabel inner (.edge k esrc etgt)).setFi inner join).getLabel (v.toIndex imv) with
      | (ll, b') =>
        match ll with
        | .vertex nextInner =>
          match (((s.setLabel inner (.edge k esrc etgt)).setFi inner join).flt (b || b')).getFi (v.toIndex nextInner) with
          | (ni, b'') => .yield (((((s.setLabel inner (.edge k esrc etgt)).setFi inner join).flt (b || b')).flt b''), calls, ni)
        | _ => .done ({ (((s.setLabel inner (.edge k esrc etgt)).setFi inner join).flt (b || b')) with fault := true }, calls, inner)

def labelStep (v : View) (k : Key) (esrc etgt join : Nat) (st : LSt) : ForInStep LSt :=
  if st.1.fault = true then .done (st.1, st.2.1, st.2.2)
  else if (st.2.2 == join) = true then .done (st.1, st.2.1, st.2.2)
  else if (st.2.2 != v.nb) = true then labelAdvance v k esrc etgt join st.1 st.2.2 (st.2.1 ++ [fromIndex v st.2.2])
  else labelAdvance v k esrc etgt join st.1 st.2.2 st.2.1

def endpointStep (v : View) (k : Key) (esrc etgt join fuel : Nat) (endpoint : Nat) (st : GS × List Nat) :
    ForInStep (GS × List Nat) :=
  match st.1.getFi endpoint with
  | (i0, b) =>
    let r := (forIn (m := Id) [:fuel] ((st.1.flt b, st.2, i0) : LSt) (fun _ st => pure (labelStep v k esrc etgt join st))).run
    .yield (r.1, r.2.1)

def fixStep (v : View) (lab : List Label) (join : Nat) (idx : Nat) (s : GS) : ForInStep GS :=
  if (idx != v.nb) = true then
    if (lab.getD idx Label.none).isOuter = true then
      match s.getFi idx with
      | (f, b) =>
        match lab[f]? with
        | some lf => if lf.isOuter = true then .yield ((s.flt b).setFi idx join) else .yield (s.flt b)
        | none => .yield { (s.flt b) with fault := true }
    else .yield s
  else .yield s

def findJoin' (v : View) (k : Key) (esrc etgt : Nat) (s0 : GS) : GS × List Nat :=
  match s0.getFi (v.toIndex esrc) with
  | (l0, b0) =>
    match s0.getFi (v.toIndex etgt) with
    | (r0, b1) =>
      if (l0 == r0) = true then (s0.flt (b0 || b1), [])
      else
        let rA := (forIn (m := Id) [:4 * (v.nb + 2)]
          (((((s0.flt (b0 || b1)).setLabel l0 (.flag k)).setLabel r0 (.flag k)), l0, r0, v.nb, false) : JSt)
          (fun _ st => pure (joinStep v k st))).run
        if (!rA.2.2.2.2) = true then ({ rA.1 with fault := true }, [])
        else
          let rB := (forIn (m := Id) [v.toIndex esrc, v.toIndex etgt] ((rA.1, []) : GS × List Nat)
            (fun endpoint st => pure (endpointStep v k esrc etgt rA.2.2.2.1 (4 * (v.nb + 2)) endpoint st))).run
          let rC := (forIn (m := Id) [:rB.1.label.length] rB.1
            (fun idx s => pure (fixStep v rB.1.label rA.2.2.2.1 idx s))).run
          (rC, rB.2)

theorem findJoin_eq (v : View) (k : Key) (esrc etgt : Nat) (s0 : GS) :
    findJoin v k esrc etgt s0 = findJoin' v k esrc etgt s0 := by
  rfl



abbrev SSt := GS × Nat × List Nat × List Nat × Bool

def pushCall (c : Nat) (st : List Nat × List Nat) : ForInStep (List Nat × List Nat) :=
  if (!st.2.contains c) = true then .yield (st.1 ++ [c], c :: st.2) else .yield (st.1, st.2)

/-- the `else` branch: the mate of a non-outer vertex becomes outer -/
def scanElse (v : View) (outerVertex otherVertex : Nat) (mo : Option Nat) (s : GS) (nEdges : Nat)
    (queue visited : List Nat) (done : Bool) : ForInStep SSt :=
  match s.getLabel (match mo with | some m => v.toIndex m | none => v.nb) with
  | (lm, b) =>
    if (!lm.isOuter) = true then
      match mo with
      | some m =>
        if (!visited.contains m) = true then
          .yield ((((s.flt b).setLabel (match mo with | some m => v.toIndex m | none => v.nb) (.vertex outerVertex)).setFi
            (match mo with | some m => v.toIndex m | none => v.nb) (v.toIndex otherVertex)), nEdges, queue ++ [m], m :: visited, done)
        else .yield ((((s.flt b).setLabel (match mo with | some m => v.toIndex m | none => v.nb) (.vertex outerVertex)).setFi
            (match mo with | some m => v.toIndex m | none => v.nb) (v.toIndex otherVertex)), nEdges, queue, visited, done)
      | none => .yield ((((s.flt b).setLabel (match mo with | some m => v.toIndex m | none => v.nb) (.vertex outerVertex)).setFi
            (match mo with | some m => v.toIndex m | none => v.nb) (v.toIndex otherVertex)), nEdges, queue, visited, done)
    else
      match mo with
      | some m =>
        if (!visited.contains m) = true then .yield (s.flt b, nEdges, queue ++ [m], m :: visited, done)
        else .yield (s.flt b, nEdges, queue, visited, done)
      | none => .yield (s.flt b, nEdges, queue, visited, done)

def scanStep (v : View) (mode : Nat) (start outerVertex : Nat) (x : Nat × Nat) (st : SSt) : ForInStep SSt :=
  if st.1.fault = true then .done (st.1, st.2.1, st.2.2.1, st.2.2.2.1, st.2.2.2.2)
  else if (outerVertex == x.1) = true then .yield (st.1, st.2.1, st.2.2.1, st.2.2.2.1, st.2.2.2.2)
  else
    match st.1.getMate (v.toIndex x.1) with
    | (mo, b) =>
      match st.1.getLabel (v.toIndex x.1) with
      | (lo, b') =>
        if (mo.isNone && x.1 != start) = true then
          .done (augmentPath v (4 * (v.nb + 2)) outerVertex x.1 ((st.1.flt (b || b')).setMate (v.toIndex x.1) (some outerVertex)),
            st.2.1 + 1, st.2.2.1, st.2.2.2.1, true)
        else if lo.isOuter = true then
          match findJoin v (edgeKey mode x.2 outerVertex x.1) outerVertex x.1 (st.1.flt (b || b')) with
          | (s', calls) =>
            let r := (forIn (m := Id) calls ((st.2.2.1, st.2.2.2.1) : List Nat × List Nat) (fun c st => pure (pushCall c st))).run
            .yield (s', st.2.1, r.1, r.2, st.2.2.2.2)
        else scanElse v outerVertex x.1 mo (st.1.flt (b || b')) st.2.1 st.2.2.1 st.2.2.2.1 st.2.2.2.2

def outerStep (v : View) (mode : Nat) (start : Nat) (st : SSt) : ForInStep SSt :=
  if (st.2.2.2.2 || st.1.fault) = true then .done (st.1, st.2.1, st.2.2.1, st.2.2.2.1, st.2.2.2.2)
  else
    match st.2.2.1 with
    | [] => .done (st.1, st.2.1, st.2.2.1, st.2.2.2.1, st.2.2.2.2)
    | outerVertex :: q =>
      let r := (forIn (m := Id) (v.outOf outerVertex) ((st.1, st.2.1, q, st.2.2.2.1, st.2.2.2.2) : SSt)
        (fun x st => pure (scanStep v mode start outerVertex x st))).run
      .yield (r.1, r.2.1, r.2.2.1, r.2.2.2.1, r.2.2.2.2)

def gabowSearch' (v : View) (mode : Nat) (startIdx : Nat) (s0 : GS) (nEdges0 : Nat) : GS × Nat :=
  let r := (forIn (m := Id) [:v.nb + 2]
    ((((s0.setLabel startIdx .start).setFi startIdx v.nb), nEdges0, [fromIndex v startIdx], [fromIndex v startIdx], false) : SSt)
    (fun _ st => pure (outerStep v mode (fromIndex v startIdx) st))).run
  ({ r.1 with label := r.1.label.map fun _ => Label.none }, r.2.1)

theorem gabowSearch_eq (v : View) (mode : Nat) (startIdx : Nat) (s0 : GS) (nEdges0 : Nat) :
    gabowSearch v mode startIdx s0 nEdges0 = gabowSearch' v mode startIdx s0 nEdges0 := by
  rfl

def mainStep (v : View) (mode : Nat) (start : Nat) (st : GS × Nat) : ForInStep (GS × Nat) :=
  if st.1.fault = true then .done (st.1, st.2)
  else if (st.1.getMate start).1.isSome = true then .yield (st.1, st.2)
  else .yield (gabowSearch v mode start st.1 st.2)

def maximumMatching' (v : View) (mode : Nat) : Matching :=
  let r := (forIn (m := Id) [:v.nb]
    (({ mate := (greedyInner v).mate ++ [none], label := List.replicate (v.nb + 1) .none,
        fi := List.replicate (v.nb + 1) usizeMax, fault := (greedyInner v).fault } : GS), (greedyInner v).nEdges)
    (fun start st => pure (mainStep v mode start st))).run
  { mate := r.1.mate.take v.nb, nEdges := r.2, fault := r.1.fault }

theorem maximumMatching_eq (v : View) (mode : Nat) : maximumMatching v mode = maximumMatching' v mode := by
  rfl

end PetgraphModel.C15W2
