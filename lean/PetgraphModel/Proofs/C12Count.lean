import PetgraphModel.Proofs.C12Forest
/-
Counting: the number of connected components is well defined (any two systems of representatives
have the same size), and a forest on `V` with `c` components has exactly `|V| − c` edges.  Hence the
count clause of C12 follows from "acyclic + spanning", for every spanning forest.
-/
namespace PetgraphModel.MST
open PetgraphModel MGraph

theorem repSystem_length_le {E : List Edge} {V reps1 reps2 : List Nat}
    (h1 : IsRepSystem E V reps1) (h2 : IsRepSystem E V reps2) : reps1.length ≤ reps2.length := by
  have hex : ∀ r, ∃ s, r ∈ reps1 → s ∈ reps2 ∧ Conn E r s := by
    intro r
    by_cases hr : r ∈ reps1
    · obtain ⟨s, hs, hc⟩ := h2.cover r (h1.sub r hr)
      exact ⟨s, fun _ => ⟨hs, hc⟩⟩
    · exact ⟨0, fun h => absurd h hr⟩
  let f : Nat → Nat := fun r => Classical.choose (hex r)
  have hf : ∀ r, r ∈ reps1 → f r ∈ reps2 ∧ Conn E r (f r) := fun r => Classical.choose_spec (hex r)
  have hnd : (reps1.map f).Nodup := by
    unfold List.Nodup
    rw [List.pairwise_map]
    refine h1.nodup.imp_of_mem ?_
    intro a b ha hb hne heq
    refine hne (h1.apart a ha b hb ((hf a ha).2.trans ?_))
    rw [heq]; exact (hf b hb).2.symm
  have hsub : reps1.map f ⊆ reps2 := by
    intro x hx
    obtain ⟨r, hr, rfl⟩ := List.mem_map.mp hx
    exact (hf r hr).1
  have := hnd.length_le_of_subset hsub
  simpa using this

/-- the number of connected components does not depend on the choice of representatives -/
theorem repSystem_length_unique {E : List Edge} {V reps1 reps2 : List Nat}
    (h1 : IsRepSystem E V reps1) (h2 : IsRepSystem E V reps2) : reps1.length = reps2.length :=
  Nat.le_antisymm (repSystem_length_le h1 h2) (repSystem_length_le h2 h1)

theorem repSystem_exists (E : List Edge) : ∀ V : List Nat, ∃ reps, IsRepSystem E V reps
  | [] => ⟨[], fun _ h => (nomatch h), List.nodup_nil, fun _ h => (nomatch h), fun _ h => (nomatch h)⟩
  | x :: xs => by
    obtain ⟨reps, hr⟩ := repSystem_exists E xs
    by_cases h : ∃ r ∈ reps, Conn E x r
    · refine ⟨reps, fun r h' => List.mem_cons_of_mem _ (hr.sub r h'), hr.nodup, ?_, hr.apart⟩
      intro y hy
      rcases List.mem_cons.mp hy with rfl | hy
      · exact h
      · exact hr.cover y hy
    · refine ⟨x :: reps, ?_, ?_, ?_, ?_⟩
      · intro r h'
        rcases List.mem_cons.mp h' with rfl | h'
        · exact List.mem_cons_self ..
        · exact List.mem_cons_of_mem _ (hr.sub r h')
      · refine List.nodup_cons.mpr ⟨fun hx => h ⟨x, hx, Conn.refl _ _⟩, hr.nodup⟩
      · intro y hy
        rcases List.mem_cons.mp hy with rfl | hy
        · exact ⟨y, List.mem_cons_self .., Conn.refl _ _⟩
        · obtain ⟨r, hrm, hc⟩ := hr.cover y hy
          exact ⟨r, List.mem_cons_of_mem _ hrm, hc⟩
      · intro r hr0 s hs0 hc
        rcases List.mem_cons.mp hr0 with rfl | hr1 <;> rcases List.mem_cons.mp hs0 with rfl | hs1
        · rfl
        · exact absurd ⟨s, hs1, hc⟩ h
        · exact absurd ⟨r, hr1, hc.symm⟩ h
        · exact hr.apart r hr1 s hs1 hc

/-- a rep system only depends on the connectivity relation -/
theorem IsRepSystem.congr {E E' : List Edge} {V reps : List Nat} (h : IsRepSystem E V reps)
    (hc : ∀ a b, Conn E a b ↔ Conn E' a b) : IsRepSystem E' V reps :=
  ⟨h.sub, h.nodup, fun x hx => by obtain ⟨r, hr, c⟩ := h.cover x hx; exact ⟨r, hr, (hc _ _).mp c⟩,
   fun r hr s hs c => h.apart r hr s hs ((hc _ _).mpr c)⟩

theorem repSystem_nil {V reps : List Nat} (hV : V.Nodup) (h : IsRepSystem [] V reps) :
    reps.length = V.length := by
  apply Nat.le_antisymm
  · exact h.nodup.length_le_of_subset fun r hr => h.sub r hr
  · refine hV.length_le_of_subset fun x hx => ?_
    obtain ⟨r, hr, hc⟩ := h.cover x hx
    rw [conn_nil hc]; exact hr

/-- **a forest on `V` with `c` components has `|V| − c` edges** -/
theorem forest_count : ∀ (F : List Edge) (V reps : List Nat), V.Nodup →
    (∀ e ∈ F, e.src ∈ V ∧ e.tgt ∈ V) → Acyclic F → IsRepSystem F V reps →
    F.length + reps.length = V.length
  | [], V, reps, hV, _, _, hr => by simpa using repSystem_nil hV hr
  | e :: F0, V, reps, hV, hends, hac, hr => by
    have hne : ¬ Conn F0 e.src e.tgt := hac.head
    obtain ⟨reps0, hr0⟩ := repSystem_exists F0 V
    have ih := forest_count F0 V reps0 hV (fun x hx => hends x (List.mem_cons_of_mem _ hx)) hac.tail hr0
    obtain ⟨ha, hb⟩ := hends e (List.mem_cons_self ..)
    obtain ⟨ra, hra, hca⟩ := hr0.cover _ ha
    obtain ⟨rb, hrb, hcb⟩ := hr0.cover _ hb
    have hab : ra ≠ rb := by
      intro heq; subst heq
      exact hne (hca.trans hcb.symm)
    have hm : ∀ {a b}, Conn F0 a b → Conn (e :: F0) a b := fun h => h.mono fun _ h => List.mem_cons_of_mem _ h
    have hrs' : IsRepSystem (e :: F0) V (reps0.erase rb) := by
      refine ⟨fun r h => hr0.sub r (List.mem_of_mem_erase h), hr0.nodup.erase rb, ?_, ?_⟩
      · intro x hx
        obtain ⟨r, hrm, hc⟩ := hr0.cover x hx
        by_cases hrb' : r = rb
        · subst hrb'
          refine ⟨ra, (hr0.nodup.mem_erase_iff).mpr ⟨hab, hra⟩, ?_⟩
          -- x ~ rb ~ e.tgt - e.src ~ ra
          exact (hm hc).trans ((hm hcb.symm).trans
            ((Conn.edge (List.mem_cons_self ..) : Conn (e :: F0) e.src e.tgt).symm.trans (hm hca)))
        · exact ⟨r, (hr0.nodup.mem_erase_iff).mpr ⟨hrb', hrm⟩, hm hc⟩
      · intro r hr1 s hs1 hc
        obtain ⟨hrne, hrm⟩ := (hr0.nodup.mem_erase_iff).mp hr1
        obtain ⟨hsne, hsm⟩ := (hr0.nodup.mem_erase_iff).mp hs1
        rcases conn_cons hc with h | ⟨_, h2⟩ | ⟨h1, _⟩
        · exact hr0.apart r hrm s hsm h
        · exact absurd (hr0.apart s hsm rb hrb (h2.symm.trans hcb)) hsne
        · exact absurd (hr0.apart r hrm rb hrb (h1.trans hcb)) hrne
    have hlen : (reps0.erase rb).length = reps0.length - 1 := List.length_erase_of_mem hrb
    have hpos : 0 < reps0.length := List.length_pos_of_mem hrb
    have := repSystem_length_unique hr hrs'
    simp only [List.length_cons]
    omega

theorem SubMulti.mem {F E : List Edge} (h : SubMulti F E) {e : Edge} (he : e ∈ F) : e ∈ E := by
  obtain ⟨R, hR⟩ := h
  exact hR.mem_iff.mp (List.mem_append_left _ he)

/-- a spanning forest connects exactly what the graph connects -/
theorem SpanningForest.conn_iff {E F : List Edge} (h : SpanningForest E F) (a b : Nat) :
    Conn E a b ↔ Conn F a b :=
  ⟨h.spanning a b, Conn.mono fun _ he => h.sub.mem he⟩

/-- **every spanning forest of `(V, E)` has exactly `|V| − c` edges** (`c` = number of connected
components): the count clause follows from the other clauses. -/
theorem spanningForest_count {E F : List Edge} {V reps : List Nat} (hV : V.Nodup)
    (hends : ∀ e ∈ E, e.src ∈ V ∧ e.tgt ∈ V) (hF : SpanningForest E F) (hr : IsRepSystem E V reps) :
    F.length + reps.length = V.length :=
  forest_count F V reps hV (fun e he => hends e (hF.sub.mem he)) hF.acyclic (hr.congr hF.conn_iff)

end PetgraphModel.MST
