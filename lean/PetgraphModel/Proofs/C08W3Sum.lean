import PetgraphModel.Proofs.C08W3Total
import PetgraphModel.GraphProto
/-
C08 (wave 3): counting lemmas that compare `walkFuel v` (stated in terms of the neighbour lists of
the view) with the number of nodes and edges of the abstract graph, for views whose neighbour lists
are no longer than those of the abstract graph (`SuccLe`), in particular for the views accepted by
the drivers (`sameSet` = equality of the sorted lists).
-/
namespace PetgraphModel.TravProofs
open PetgraphModel PetgraphModel.Trav PetgraphModel.MGraph

theorem sum_map_add (l : List Nat) (f g : Nat → Nat) :
    (l.map fun a => f a + g a).sum = (l.map f).sum + (l.map g).sum := by
  induction l with
  | nil => rfl
  | cons a l ih => simp only [List.map_cons, List.sum_cons, ih]; omega

theorem sum_map_le (l : List Nat) (f g : Nat → Nat) (h : ∀ a, a ∈ l → f a ≤ g a) :
    (l.map f).sum ≤ (l.map g).sum := by
  induction l with
  | nil => simp
  | cons a l ih =>
    simp only [List.map_cons, List.sum_cons]
    have := h a (List.mem_cons_self ..)
    have := ih (fun b hb => h b (List.mem_cons_of_mem _ hb))
    omega

theorem sum_map_const (l : List Nat) (c : Nat) : (l.map fun _ => c).sum = c * l.length := by
  induction l with
  | nil => rfl
  | cons a l ih => simp only [List.map_cons, List.sum_cons, ih, List.length_cons, Nat.mul_succ]; omega

theorem sum_ind_eq_count (l : List Nat) (s : Nat) :
    (l.map fun a => if a = s then 1 else 0).sum = l.count s := by
  induction l with
  | nil => rfl
  | cons a l ih =>
    simp only [List.map_cons, List.sum_cons, ih, List.count_cons]
    by_cases h : a = s <;> simp [h] <;> omega

theorem sum_ind_le_one (l : List Nat) (hl : l.Nodup) (s : Nat) :
    (l.map fun a => if a = s then 1 else 0).sum ≤ 1 := by
  rw [sum_ind_eq_count]; exact List.nodup_iff_count.mp hl s

/-- a per-node selection of edge endpoints that only ever selects edges incident to the node has at
most `2 |E|` entries in total -/
theorem sum_filterMap_le (l : List Nat) (hl : l.Nodup) (f : Nat → Edge → Option Nat)
    (hf : ∀ a e, (f a e).isSome = true → a = e.src ∨ a = e.tgt) (es : List Edge) :
    (l.map fun a => (es.filterMap (f a)).length).sum ≤ 2 * es.length := by
  induction es with
  | nil =>
    simp only [List.filterMap_nil, List.length_nil]
    rw [sum_map_const]; omega
  | cons e es ih =>
    refine Nat.le_trans (sum_map_le l _ (fun a => ((if a = e.src then 1 else 0) +
      (if a = e.tgt then 1 else 0)) + (es.filterMap (f a)).length) ?_) ?_
    · intro a _
      simp only [List.filterMap_cons]
      cases hfa : f a e with
      | none => simp
      | some b =>
        have := hf a e (by rw [hfa]; rfl)
        simp only [List.length_cons]
        rcases this with h | h
        · simp [h]; omega
        · simp [h]; omega
    · rw [sum_map_add, sum_map_add]
      have h1 := sum_ind_le_one l hl e.src
      have h2 := sum_ind_le_one l hl e.tgt
      simp only [List.length_cons]
      omega

theorem sum_gsucc_le (g : MGraph) (hl : g.nodes.Nodup) :
    (g.nodes.map fun a => (g.succ a).length).sum ≤ 2 * g.edges.length := by
  unfold MGraph.succ
  apply sum_filterMap_le g.nodes hl
    (fun a e => if e.src = a then some e.tgt else if g.directed = false ∧ e.tgt = a then some e.src else none)
  intro a e h
  by_cases h1 : e.src = a
  · exact Or.inl h1.symm
  · by_cases h2 : g.directed = false ∧ e.tgt = a
    · exact Or.inr h2.2.symm
    · simp [h1, h2] at h

theorem sum_gpred_le (g : MGraph) (hl : g.nodes.Nodup) :
    (g.nodes.map fun a => (g.pred a).length).sum ≤ 2 * g.edges.length := by
  unfold MGraph.pred
  apply sum_filterMap_le g.nodes hl
    (fun a e => if e.tgt = a then some e.src else if g.directed = false ∧ e.src = a then some e.tgt else none)
  intro a e h
  by_cases h1 : e.tgt = a
  · exact Or.inr h1.symm
  · by_cases h2 : g.directed = false ∧ e.src = a
    · exact Or.inl h2.2.symm
    · simp [h1, h2] at h

theorem wsum_nil_eq (v : View) : ∀ us, wsum v [] us = (us.map fun a => (v.succ a).length + 1).sum := by
  intro us
  induction us with
  | nil => rfl
  | cons u us ih => simp only [wsum, List.not_mem_nil, ↓reduceIte, List.map_cons, List.sum_cons, ih]

/-- the neighbour lists of the nodes are no longer than those of the abstract graph -/
def SuccLe (v : View) : Prop := ∀ a, a ∈ v.g.nodes → (v.succ a).length ≤ (v.g.succ a).length
def PredLe (v : View) : Prop := ∀ a, a ∈ v.g.nodes → (v.pred a).length ≤ (v.g.pred a).length

theorem wsum_le_of_succLe (v : View) (hwf : v.g.WellFormed) (hb : SuccLe v) :
    wsum v [] v.g.nodes ≤ 2 * v.g.edges.length + v.g.nodes.length := by
  rw [wsum_nil_eq]
  have h1 : (v.g.nodes.map fun a => (v.succ a).length + 1).sum ≤
      (v.g.nodes.map fun a => (v.g.succ a).length + 1).sum :=
    sum_map_le _ _ _ (fun a ha => by have := hb a ha; omega)
  have h2 := sum_map_add v.g.nodes (fun a => (v.g.succ a).length) (fun _ => 1)
  have h3 := sum_gsucc_le v.g hwf.1
  have h4 := sum_map_const v.g.nodes 1
  omega

/-- under the length bound, `walkFuel` is at most `2|E| + 2|V| + 2` -/
theorem walkFuel_le_of_succLe (v : View) (hwf : v.g.WellFormed) (hb : SuccLe v) :
    walkFuel v ≤ 2 * v.g.edges.length + 2 * v.g.nodes.length + 2 := by
  have := wsum_le_of_succLe v hwf hb
  unfold walkFuel
  omega

/-! ### `sameSet` (equality of the insertion-sorted lists) gives a permutation -/

theorem span_loop_append (p : Nat → Bool) : ∀ (l acc : List Nat),
    (List.span.loop p l acc).1 ++ (List.span.loop p l acc).2 = acc.reverse ++ l := by
  intro l
  induction l with
  | nil => intro acc; simp [List.span.loop]
  | cons a t ih =>
    intro acc
    unfold List.span.loop
    split
    · rw [ih]; simp
    · simp

theorem span_append (p : Nat → Bool) (l : List Nat) : (l.span p).1 ++ (l.span p).2 = l := by
  have := span_loop_append p l []
  simpa [List.span] using this

theorem sortNats_foldl_perm : ∀ (l acc : List Nat),
    (l.foldl (fun acc x => let (a, b) := acc.span (· ≤ x); a ++ x :: b) acc).Perm (acc ++ l) := by
  intro l
  induction l with
  | nil => intro acc; simp
  | cons x t ih =>
    intro acc
    simp only [List.foldl_cons]
    refine (ih _).trans ?_
    have h1 : ((acc.span (· ≤ x)).1 ++ x :: (acc.span (· ≤ x)).2).Perm (acc ++ [x]) := by
      refine List.perm_middle.trans ?_
      rw [span_append]
      exact (List.perm_append_singleton x acc).symm
    have : (acc ++ x :: t) = (acc ++ [x]) ++ t := by simp
    rw [this]
    exact List.Perm.append_right t h1

theorem sortNats_perm (l : List Nat) : (sortNats l).Perm l := by
  have := sortNats_foldl_perm l []
  simpa [sortNats] using this

theorem sameSet_perm {a b : List Nat} (h : sameSet a b = true) : a.Perm b := by
  have : sortNats a = sortNats b := by simpa [sameSet] using h
  exact (sortNats_perm a).symm.trans (this ▸ sortNats_perm b)

theorem sameSet_length {a b : List Nat} (h : sameSet a b = true) : a.length = b.length :=
  (sameSet_perm h).length_eq

theorem mem_gsucc {g : MGraph} {a b : Nat} : b ∈ g.succ a ↔ g.Adj a b := MGraph.mem_succ

theorem mem_gpred {g : MGraph} {a b : Nat} : b ∈ g.pred a ↔ g.Adj b a := by
  unfold MGraph.pred MGraph.Adj
  simp only [List.mem_filterMap]
  constructor
  · rintro ⟨e, he, h⟩
    refine ⟨e, he, ?_⟩
    split at h
    · rename_i h1; simp at h; exact Or.inl ⟨h, h1⟩
    · split at h
      · rename_i h1 h2; simp at h; exact Or.inr ⟨h2.1, h2.2, h⟩
      · simp at h
  · rintro ⟨e, he, h⟩
    refine ⟨e, he, ?_⟩
    rcases h with ⟨h1, h2⟩ | ⟨h0, h1, h2⟩
    · simp [h1, h2]
    · by_cases hs : e.tgt = a
      · simp [hs]; rw [← h2, hs, ← h1]
      · have hba : ¬ b = a := fun hba => hs (h2.trans hba)
        simp [h0, h2, h1, hba]

theorem adj_mem_nodes {g : MGraph} (hwf : g.WellFormed) {a b : Nat} (h : g.Adj a b) :
    a ∈ g.nodes ∧ b ∈ g.nodes := by
  obtain ⟨e, he, h | h⟩ := h
  · exact ⟨h.1 ▸ (hwf.2 e he).1, h.2 ▸ (hwf.2 e he).2⟩
  · exact ⟨h.2.2 ▸ (hwf.2 e he).2, h.2.1 ▸ (hwf.2 e he).1⟩

end PetgraphModel.TravProofs
