import PetgraphModel.Proofs.C18W5Built
import PetgraphModel.Theorems.C01
/-
C18 (wave 5) — `Graph::from_graph6_string` on the C01 storage model: what it builds (`Built 1`), and when it panics.
-/
namespace PetgraphModel.G6V
open PetgraphModel PetgraphModel.Visit

/-! ### `run` over a concatenation -/

theorem gRun_append (s : G.State) (a b : List G.Op) :
    G.run s (a ++ b) = ((G.run (G.run s a).1 b).1, (G.run s a).2 ++ (G.run (G.run s a).1 b).2) := by
  induction a generalizing s with
  | nil => simp [G.run]
  | cons op ops ih =>
    simp only [List.cons_append, G.run]
    rw [ih]

/-! ### `add_node(())` × k -/

/-- with room for `k` more nodes, the `k` calls answer indices (no panic) and append `k` nodes; nothing else moves -/
theorem addNodes_ok : ∀ (k : Nat) (s : G.State), s.nodes.length + k ≤ s.endv →
    ((G.run s (List.replicate k (.addNode 0))).2.any gPanicked = false) ∧
    (G.run s (List.replicate k (.addNode 0))).1.nodes.length = s.nodes.length + k ∧
    (G.run s (List.replicate k (.addNode 0))).1.edges = s.edges ∧
    (G.run s (List.replicate k (.addNode 0))).1.endv = s.endv ∧
    (G.run s (List.replicate k (.addNode 0))).1.directed = s.directed
  | 0, s, _ => by simp [G.run]
  | k+1, s, h => by
    have hroom : s.nodes.length ≠ s.endv := by omega
    obtain ⟨h1, h2, h3, h4, h5⟩ := addNodes_ok k { s with nodes := s.nodes ++ [⟨0, s.endv, s.endv⟩] }
      (by simp only [List.length_append, List.length_singleton]; omega)
    simp only [List.replicate_succ, G.run, G.step, GProofs.tryAddNode_room 0 hroom]
    refine ⟨?_, ?_, h3, h4, h5⟩
    · simp only [List.any_cons, gPanicked, Bool.false_or]
      exact h1
    · rw [h2]
      simp only [List.length_append, List.length_singleton]
      omega

/-- a panicking first part makes the whole panic -/
theorem addNodes_panic : ∀ (k : Nat) (s : G.State), s.nodes.length ≤ s.endv → s.endv < s.nodes.length + k →
    (G.run s (List.replicate k (.addNode 0))).2.any gPanicked = true
  | 0, s, h1, h2 => by omega
  | k+1, s, h1, h2 => by
    by_cases hfull : s.nodes.length = s.endv
    · simp only [List.replicate_succ, G.run, G.step, GProofs.tryAddNode_full 0 hfull, List.any_cons, gPanicked,
        Bool.true_or]
    · have ih := addNodes_panic k { s with nodes := s.nodes ++ [⟨0, s.endv, s.endv⟩] }
        (by simp only [List.length_append, List.length_singleton]; omega)
        (by simp only [List.length_append, List.length_singleton]; omega)
      simp only [List.replicate_succ, G.run, G.step, GProofs.tryAddNode_room 0 hfull, List.any_cons, gPanicked,
        Bool.false_or]
      exact ih

/-! ### `extend_with_edges` when every endpoint is a node already -/

theorem growTo_id (nx f : Nat) (s : G.State) (h : nx < s.nodes.length) : G.growTo nx f s = (s, true) := by
  cases f with
  | zero => rfl
  | succ f =>
    have : ¬ (nx ≥ s.nodes.length) := by omega
    simp only [G.growTo, this, if_false]

/-- `add_edge(a, b, w)` between two distinct nodes, with room: the edge is appended, the node count stays -/
theorem tryAddEdge_append (s : G.State) (a b w : Nat) (ha : a < s.nodes.length) (hb : b < s.nodes.length)
    (hab : a ≠ b) (hl : s.edges.length ≠ s.endv) :
    ∃ s' x y, G.tryAddEdge s a b w = (s', .ok s.edges.length) ∧ s'.nodes.length = s.nodes.length ∧
      s'.edges = s.edges ++ [⟨w, x, y, a, b⟩] ∧ s'.endv = s.endv ∧ s'.directed = s.directed := by
  have hg : G.canGrow s s.edges.length = true := by
    simp only [G.canGrow, bne_iff_ne, ne_eq]; omega
  have hm : ¬ (max a b ≥ s.nodes.length) := by omega
  unfold G.tryAddEdge
  simp only [hg, Bool.not_true, Bool.false_eq_true, if_false, hm, hab, List.getElem?_eq_getElem ha,
    List.getElem?_eq_getElem hb]
  exact ⟨_, _, _, rfl, by simp, rfl, rfl, rfl⟩

def ends (e : G.Edge) : Nat × Nat := (e.src, e.tgt)

theorem extend_ok : ∀ (es : List (Nat × Nat)) (s : G.State),
    (∀ e ∈ es, e.1 < e.2 ∧ e.2 < s.nodes.length) → s.edges.length + es.length ≤ s.endv →
    ∃ s', G.extendWithEdges s (unitEdgesN es) = (s', true) ∧ s'.nodes.length = s.nodes.length ∧
      s'.edges.map ends = s.edges.map ends ++ es ∧ s'.endv = s.endv ∧ s'.directed = s.directed
  | [], s, _, _ => ⟨s, rfl, rfl, by simp, rfl, rfl⟩
  | (a, b) :: es, s, hes, hl => by
    have hab := hes (a, b) (List.mem_cons_self ..)
    simp only at hab
    simp only [List.length_cons] at hl
    obtain ⟨s1, x, y, h1, h2, h3, h4, h5⟩ := tryAddEdge_append s a b 0 (by omega) hab.2 (by omega) (by omega)
    obtain ⟨s', g1, g2, g3, g4, g5⟩ := extend_ok es s1
      (by intro e he; rw [h2]; exact hes e (List.mem_cons_of_mem _ he))
      (by rw [h3, h4]; simp only [List.length_append, List.length_singleton]; omega)
    refine ⟨s', ?_, by rw [g2, h2], ?_, by rw [g4, h4], by rw [g5, h5]⟩
    · simp only [unitEdgesN, List.map_cons, G.extendWithEdges]
      rw [growTo_id _ _ _ (by omega)]
      simp only [h1]
      exact g1
    · rw [g3, h3]
      simp [ends]

theorem extend_panic : ∀ (es : List (Nat × Nat)) (s : G.State),
    (∀ e ∈ es, e.1 < e.2 ∧ e.2 < s.nodes.length) → s.edges.length ≤ s.endv → s.endv < s.edges.length + es.length →
    (G.extendWithEdges s (unitEdgesN es)).2 = false
  | [], s, _, h1, h2 => by simp only [List.length_nil] at h2; omega
  | (a, b) :: es, s, hes, hl1, hl2 => by
    have hab := hes (a, b) (List.mem_cons_self ..)
    simp only at hab
    simp only [List.length_cons] at hl2
    simp only [unitEdgesN, List.map_cons, G.extendWithEdges]
    rw [growTo_id _ _ _ (by omega)]
    by_cases hfull : s.edges.length = s.endv
    · simp only [GProofs.tryAddEdge_full a b 0 hfull]
    · obtain ⟨s1, x, y, h1, h2, h3, h4, h5⟩ := tryAddEdge_append s a b 0 (by omega) hab.2 (by omega) hfull
      simp only [h1]
      exact extend_panic es s1
        (by intro e he; rw [h2]; exact hes e (List.mem_cons_of_mem _ he))
        (by rw [h3, h4]; simp only [List.length_append, List.length_singleton]; omega)
        (by rw [h3, h4]; simp only [List.length_append, List.length_singleton]; omega)

/-! ### the table of the result -/

theorem zipWith_ignore {α β γ : Type} (h : β → γ) : ∀ (xs : List α) (l : List β), l.length ≤ xs.length →
    List.zipWith (fun _ e => h e) xs l = l.map h
  | _, [], _ => by simp
  | [], _ :: _, hl => by simp at hl
  | _ :: xs, e :: l, hl => by
    simp only [List.zipWith_cons_cons, List.map_cons]
    rw [zipWith_ignore h xs l (by simpa using hl)]

theorem allERefs_ends (s : G.State) :
    ((G.allERefs s).map GView.eref).map (fun e => (min e.src e.tgt, max e.src e.tgt)) =
      (s.edges.map ends).map fun e => (min e.1 e.2, max e.1 e.2) := by
  simp only [G.allERefs, List.map_zipWith, List.map_map]
  rw [show (fun (x : Nat) (y : G.Edge) =>
        (fun e : Visit.ERef => (min e.src e.tgt, max e.src e.tgt)) (GView.eref ⟨x, y.src, y.tgt, y.weight⟩)) =
      (fun (_ : Nat) (y : G.Edge) => ((fun e : Nat × Nat => (min e.1 e.2, max e.1 e.2)) ∘ ends) y) from rfl]
  exact zipWith_ignore _ _ _ (by simp)

theorem flatMap_replicate_one {α : Type} (l : List α) : (l.flatMap fun e => List.replicate 1 e) = l := by
  induction l with
  | nil => rfl
  | cons x l ih => simp only [List.flatMap_cons, ih]; rfl

theorem map_minmax_id (es : List (Nat × Nat)) (hes : ∀ e ∈ es, e.1 < e.2) :
    es.map (fun e => (min e.1 e.2, max e.1 e.2)) = es := by
  induction es with
  | nil => rfl
  | cons x es ih =>
    have hx := hes x (List.mem_cons_self ..)
    rw [List.map_cons, ih (fun e he => hes e (List.mem_cons_of_mem _ he))]
    congr 1
    rw [Nat.min_eq_left (by omega), Nat.max_eq_right (by omega)]

/-! ### the theorems -/

/-- `Graph::from_graph6_string`: if the decoder answers `(n, es)` and the index type has room (`endv = Ix::max()`), the
call does not panic and builds the nodes `0..n` and exactly the decoded edges (in the decoder's order). -/
theorem fromGraph6Graph_built (endv : Nat) (str : List Char) (n : Nat) (es : List (Nat × Nat))
    (hd : G6.decode str = some (n, es)) (hes : ∀ e ∈ es, e.1 < e.2 ∧ e.2 < n) (hnd : es.Nodup)
    (hfit : n ≤ endv ∧ es.length ≤ endv) :
    ∃ s, fromGraph6Graph endv str = some s ∧ C01T.Inv s ∧ s.directed = false ∧ s.nodes.length = n ∧
      Built 1 (graphTable s) n es := by
  have _ := hnd
  obtain ⟨a1, a2, a3, a4, a5⟩ := addNodes_ok n (G.empty endv false) (by simp only [G.empty, List.length_nil]; omega)
  generalize hs1 : (G.run (G.empty endv false) (List.replicate n (.addNode 0))).1 = s1 at a2 a3 a4 a5
  simp only [G.empty, List.length_nil, Nat.zero_add] at a2 a3 a4 a5
  obtain ⟨s', b1, b2, b3, b4, b5⟩ := extend_ok es s1 (by intro e he; rw [a2]; exact hes e he)
    (by rw [a3, a4]; simp only [List.length_nil]; omega)
  have hrun : G.run (G.empty endv false) (graphOps n es) =
      (s', (G.run (G.empty endv false) (List.replicate n (.addNode 0))).2 ++ [G.Out.unit]) := by
    unfold graphOps
    rw [gRun_append, hs1]
    simp only [G.run, G.step, b1]
  have hinv : C01T.Inv s' := by
    have := C01T.C01_inv_all_histories endv false (graphOps n es)
    rwa [hrun] at this
  refine ⟨s', ?_, hinv, by rw [b5, a5], by rw [b2, a2], ?_⟩
  · unfold fromGraph6Graph
    simp only [hd, hrun, List.any_append, a1, List.any_cons, gPanicked, List.any_nil, Bool.or_false,
      Bool.false_eq_true, if_false]
  · have hedges : s'.edges.map ends = es := by rw [b3, a3]; rfl
    refine ⟨?_, ?_, ?_, ?_, ?_⟩
    · show s'.directed = false
      rw [b5, a5]
    · show some (List.range s'.nodes.length) = some (List.range n)
      rw [b2, a2]
    · show some s'.nodes.length = some n
      rw [b2, a2]
    · show some s'.edges.length = some es.length
      rw [← hedges, List.length_map]
    · refine ⟨(G.allERefs s').map GView.eref, rfl, ?_⟩
      rw [allERefs_ends, hedges, flatMap_replicate_one, map_minmax_id es (fun e he => (hes e he).1)]

/-- … and panics (the documented capacity panic of `add_node` / `add_edge`) exactly when the index type is too small -/
theorem fromGraph6Graph_panics (endv : Nat) (str : List Char) (n : Nat) (es : List (Nat × Nat))
    (hd : G6.decode str = some (n, es)) (hes : ∀ e ∈ es, e.1 < e.2 ∧ e.2 < n)
    (hfit : ¬ (n ≤ endv ∧ es.length ≤ endv)) : fromGraph6Graph endv str = none := by
  have hpan : (G.run (G.empty endv false) (graphOps n es)).2.any gPanicked = true := by
    unfold graphOps
    rw [gRun_append]
    simp only [List.any_append, Bool.or_eq_true]
    by_cases hn : n ≤ endv
    · right
      have hl : ¬ es.length ≤ endv := fun h => hfit ⟨hn, h⟩
      obtain ⟨a1, a2, a3, a4, a5⟩ := addNodes_ok n (G.empty endv false)
        (by simp only [G.empty, List.length_nil]; omega)
      generalize hs1 : (G.run (G.empty endv false) (List.replicate n (.addNode 0))).1 = s1 at a2 a3 a4 a5
      simp only [G.empty, List.length_nil, Nat.zero_add] at a2 a3 a4 a5
      have hp := extend_panic es s1 (by intro e he; rw [a2]; exact hes e he)
        (by rw [a3, a4]; simp only [List.length_nil]; omega)
        (by rw [a3, a4]; simp only [List.length_nil]; omega)
      rcases hx : G.extendWithEdges s1 (unitEdgesN es) with ⟨s2, ok⟩
      rw [hx] at hp
      simp only at hp
      subst hp
      simp only [G.run, G.step, hx, List.any_cons, gPanicked, List.any_nil, Bool.or_false]
    · left
      exact addNodes_panic n (G.empty endv false) (by simp only [G.empty, List.length_nil]; omega)
        (by simp only [G.empty, List.length_nil]; omega)
  unfold fromGraph6Graph
  simp only [hd, hpan, if_true]

theorem fromGraph6Graph_decode_none (endv : Nat) (str : List Char) (hd : G6.decode str = none) :
    fromGraph6Graph endv str = none := by
  unfold fromGraph6Graph
  simp only [hd]

end PetgraphModel.G6V
