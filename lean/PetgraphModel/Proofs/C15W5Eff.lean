import PetgraphModel.Proofs.C15W2Search
import PetgraphModel.Proofs.C15W5Defs
/-
C15 wave 5 — what the steps of one search do to the outer vertices and their `first_inner` entries,
in the form the completeness proof needs: the structure of an outer vertex (its mate is outer with
the same `first_inner`, or is its `first_inner`), and the effect of `find_join` (outer vertices stay
outer, equal `first_inner` entries stay equal, the two endpoints of the scanned edge get the same
entry, every new outer vertex is handed to the visitor).
-/
namespace PetgraphModel.C15W5
open PetgraphModel PetgraphModel.C15 PetgraphModel.C15M PetgraphModel.C15P PetgraphModel.C15W2

/-- `first_inner` of a node -/
def Fn (c : Ctx) (s : GS) (a : Nat) : Nat := fiI s.fi (c.v.toIndex a)

section
variable {c : Ctx} {s : GS} {P : Nat → PL} {ord : List Nat}

/-- the `first_inner` entry of an outer node is the dummy or the index of a non-outer node -/
theorem fi_cases (_hv : VHyp c.v c.mode) (I : SInv c s P ord) (x : Nat) (hx : x ∈ c.v.g.nodes)
    (hox : outerAt c s x = true) :
    Fn c s x = c.v.nb ∨ ∃ u ∈ c.v.g.nodes, outerAt c s u = false ∧ Fn c s x = c.v.toIndex u := by
  have hpx := I.abs.path x hx hox
  have hFx : fiI s.fi (c.v.toIndex x) = (absOf c s.label s.fi P ord).fin c (P x) := hpx.fiHead
  rcases fin_mem c (absOf c s.label s.fi P ord) (P x) with e | ⟨l1, p, u, rest, e1, e2, e3, _⟩
  · left; unfold Fn; rw [hFx, e]
  · right
    refine ⟨u, hpx.mem u ?_, e2, by unfold Fn; rw [hFx, e3]⟩
    show u ∈ verts (P x)
    rw [e1, verts_append]
    exact List.mem_append_right _ (by simp)

/-- the `first_inner` entry of an outer node is not the index of an outer vertex -/
theorem fi_not_outer (hv : VHyp c.v c.mode) (I : SInv c s P ord) (x : Nat) (hx : x ∈ c.v.g.nodes)
    (hox : outerAt c s x = true) : (labI s.label (Fn c s x)).isOuter = false := by
  rcases fi_cases hv I x hx hox with e | ⟨u, _, hu, e⟩
  · rw [e]; exact I.dummyLab
  · rw [e]; exact hu

/-- **the structure of an outer vertex**: the start vertex is free and its entry is the dummy; every
other outer vertex is matched, and its mate is outer with the same entry, or is non-outer and *is*
the entry -/
theorem outer_struct (_hv : VHyp c.v c.mode) (I : SInv c s P ord) (a : Nat) (ha : a ∈ c.v.g.nodes)
    (hoa : outerAt c s a = true) :
    (a = c.sv ∧ Fn c s a = c.v.nb ∧ c.μ a = none) ∨
    (a ≠ c.sv ∧ ∃ u, c.μ a = some u ∧ c.μ u = some a ∧ u ∈ c.v.g.nodes ∧
      (outerAt c s u = true → Fn c s u = Fn c s a) ∧
      (outerAt c s u = false → Fn c s a = c.v.toIndex u)) := by
  have hpa := I.abs.path a ha hoa
  cases hP : P a with
  | nil =>
    left
    have hd := hpa.hd
    have hP' : (absOf c s.label s.fi P ord).P a = [] := hP
    rw [hP'] at hd
    have hsv : c.sv = a := hd
    refine ⟨hsv.symm, ?_, ?_⟩
    · have := hpa.fiHead
      rw [hP'] at this
      exact this
    · rw [← hsv]; exact (I.abs.svFree hpa.svMem).2
  | cons pq rest =>
    obtain ⟨p, u⟩ := pq
    have hP' : (absOf c s.label s.fi P ord).P a = (p, u) :: rest := hP
    have hpe : p = a := hpa.cons_fst hP'
    subst hpe
    right
    have hnd := hpa.nodup
    rw [hP'] at hnd
    have hasv : p ≠ c.sv := by
      intro e
      simp [e] at hnd
    have halt := hpa.alt
    rw [hP'] at halt
    have hun : u ∈ c.v.g.nodes := hpa.mem u (by rw [hP']; simp)
    obtain ⟨f1, f2⟩ := hpa.fi [] p u rest hP'
    refine ⟨hasv, u, halt.1, halt.2.1, hun, ?_, ?_⟩
    · intro hou
      have h2 := f2 hou
      have h1 : (absOf c s.label s.fi P ord).F p = (absOf c s.label s.fi P ord).fin c rest := by
        rw [f1]
        have : (absOf c s.label s.fi P ord).out u = true := hou
        show firstInner _ _ _ ((p, u) :: rest) = firstInner _ _ _ rest
        simp only [firstInner, this, if_true]
      show (absOf c s.label s.fi P ord).F u = (absOf c s.label s.fi P ord).F p
      rw [h1, h2]
    · intro hou
      show (absOf c s.label s.fi P ord).F p = c.v.toIndex u
      rw [f1]
      have : (absOf c s.label s.fi P ord).out u = false := hou
      show firstInner _ _ _ ((p, u) :: rest) = _
      simp [firstInner, this]

end

/-! ### the effect of `find_join` -/

/-- what the completeness proof needs to know about a call `find_join(a, b)` -/
structure FJEff (c : Ctx) (s r : GS) (a b : Nat) (calls : List Nat) : Prop where
  mono : ∀ x ∈ c.v.g.nodes, outerAt c s x = true → outerAt c r x = true
  eqF : ∀ x ∈ c.v.g.nodes, ∀ y ∈ c.v.g.nodes, outerAt c s x = true → outerAt c s y = true →
    Fn c s x = Fn c s y → Fn c r x = Fn c r y
  ab : Fn c r a = Fn c r b
  calls : ∀ q ∈ c.v.g.nodes, outerAt c s q = false → outerAt c r q = true → q ∈ calls

section
variable {c : Ctx} {s : GS} {P : Nat → PL} {ord : List Nat}

theorem findJoin_eff_ne (hv : VHyp c.v c.mode) (n0 : Nat) (hm : MateInv c.v c.m0 n0) (I : SInv c s P ord)
    (a b eid : Nat) (hab : (b, eid) ∈ c.v.outOf a)
    (hoa : outerAt c s a = true) (hob : outerAt c s b = true)
    (hF : fiI s.fi (c.v.toIndex a) ≠ fiI s.fi (c.v.toIndex b)) :
    FJEff c s (findJoin c.v (edgeKey c.mode eid a b) a b s).1 a b
      (findJoin c.v (edgeKey c.mode eid a b) a b s).2 := by
  obtain ⟨han, hbn, _⟩ := hv.out a b eid hab
  have hoa' : (absOf c s.label s.fi P ord).out a = true := hoa
  have hob' : (absOf c s.label s.fi P ord).out b = true := hob
  obtain ⟨hUaOK, ra, hUa0⟩ := innerSeq_chainOK hv n0 hm I a han hoa'
  obtain ⟨hUbOK, rb, hUb0⟩ := innerSeq_chainOK hv n0 hm I b hbn hob'
  have hnoflag : ∀ j, labI s.label j ≠ Label.flag (edgeKey c.mode eid a b) := by
    intro j hj
    obtain ⟨a', b', eid', h1, h2, _, _, h5⟩ := I.flags j _ hj
    rcases hv.key a b eid a' b' eid' hab h1 h2 with ⟨e1, e2⟩ | ⟨e1, e2⟩
    · exact hF (by rw [e1, e2]; exact h5)
    · exact hF (by rw [e1, e2]; exact h5.symm)
  have post := findJoin_arrays c (edgeKey c.mode eid a b) a b s (hm.dummy hv) hm.len I.mate I.fault I.labLen I.fiLen
    _ _ ra rb hUaOK hUbOK hUa0 hUb0 (by have := hv.ix.lt a han; omega) (by have := hv.ix.lt b hbn; omega)
    hoa hob hF hnoflag I.fiBound
  generalize findJoin c.v (edgeKey c.mode eid a b) a b s = r at post ⊢
  obtain ⟨join, LA, LB, R, labA, hUaS, hUbS, hdis, hlabAo, hlabAf, hlabAj, rmate, rfault, rlabLen, rfiLen,
    rlab, rfi, rcalls⟩ := post.ex
  have hlabA_outer : ∀ j, (labA j).isOuter = (labI s.label j).isOuter := by
    intro j
    rcases hlabAf j with e | ⟨e1, e2⟩
    · rw [e]
    · rw [e1, e2]; rfl
  -- the new outer indices are not outer before
  have hnew_inner : ∀ j, (j ∈ LA ∨ j ∈ LB) → (labI s.label j).isOuter = false := by
    rintro j (h | h)
    · exact hUaOK.inner j (by rw [hUaS]; simp [h])
    · exact hUbOK.inner j (by rw [hUbS]; simp [h])
  have hout_r : ∀ j, (labI r.1.label j).isOuter = true ↔
      ((labI s.label j).isOuter = true ∨ (j ∈ LA ∨ j ∈ LB)) := by
    intro j
    rw [rlab]
    by_cases h : (j ∈ LA ∨ j ∈ LB)
    · rw [if_pos h]
      exact ⟨fun _ => Or.inr h, fun _ => rfl⟩
    · rw [if_neg h, hlabA_outer]
      exact ⟨fun h' => Or.inl h', fun h' => h'.resolve_right h⟩
  have hmono : ∀ x ∈ c.v.g.nodes, outerAt c s x = true → outerAt c r.1 x = true :=
    fun x _ hox => (hout_r _).mpr (Or.inl hox)
  -- the new entry of an old outer node
  have hFold : ∀ x ∈ c.v.g.nodes, outerAt c s x = true →
      Fn c r.1 x = if (Fn c s x ∈ LA ∨ Fn c s x ∈ LB) then join else Fn c s x := by
    intro x hx hox
    have hnot : ¬ (c.v.toIndex x ∈ LA ∨ c.v.toIndex x ∈ LB) := by
      intro h
      have := hnew_inner _ h
      have hox' : (labI s.label (c.v.toIndex x)).isOuter = true := hox
      rw [hox'] at this; cases this
    unfold Fn
    rw [rfi]
    simp only [if_neg hnot]
    have hfo := fi_not_outer hv I x hx hox
    unfold Fn at hfo
    by_cases hin : (fiI s.fi (c.v.toIndex x) ∈ LA ∨ fiI s.fi (c.v.toIndex x) ∈ LB)
    · rw [if_pos hin, if_pos]
      exact ⟨hv.idx_ne_nb hx, hmono x hx hox, (hout_r _).mpr (Or.inr hin)⟩
    · rw [if_neg hin, if_neg]
      rintro ⟨_, _, h3⟩
      rcases (hout_r _).mp h3 with h | h
      · rw [hfo] at h; cases h
      · exact hin h
  have hFa : Fn c r.1 a = join := by
    rw [hFold a han hoa]
    have h0 : LA ++ join :: R = Fn c s a :: ra := by rw [← hUaS, hUa0]; rfl
    cases LA with
    | nil =>
      simp only [List.nil_append, List.cons.injEq] at h0
      rw [← h0.1]; split <;> rfl
    | cons h t =>
      simp only [List.cons_append, List.cons.injEq] at h0
      rw [if_pos (Or.inl (by rw [← h0.1]; simp))]
  have hFb : Fn c r.1 b = join := by
    rw [hFold b hbn hob]
    have h0 : LB ++ join :: R = Fn c s b :: rb := by rw [← hUbS, hUb0]; rfl
    cases LB with
    | nil =>
      simp only [List.nil_append, List.cons.injEq] at h0
      rw [← h0.1]; split <;> rfl
    | cons h t =>
      simp only [List.cons_append, List.cons.injEq] at h0
      rw [if_pos (Or.inr (by rw [← h0.1]; simp))]
  refine ⟨hmono, ?_, hFa.trans hFb.symm, ?_⟩
  · intro x hx y hy hox hoy e
    rw [hFold x hx hox, hFold y hy hoy, e]
  · intro q hq hoq hoq'
    rcases (hout_r _).mp hoq' with h | h
    · have : (labI s.label (c.v.toIndex q)).isOuter = false := hoq
      rw [this] at h; cases h
    · rw [rcalls]
      refine List.mem_map.mpr ⟨c.v.toIndex q, ?_, hv.ix.from_to q hq⟩
      rcases h with h | h
      · exact List.mem_append_left _ h
      · exact List.mem_append_right _ h

/-- the effect of `find_join`, whether or not the two entries differ -/
theorem findJoin_eff (hv : VHyp c.v c.mode) (n0 : Nat) (hm : MateInv c.v c.m0 n0) (I : SInv c s P ord)
    (a b eid : Nat) (hab : (b, eid) ∈ c.v.outOf a)
    (hoa : outerAt c s a = true) (hob : outerAt c s b = true) :
    FJEff c s (findJoin c.v (edgeKey c.mode eid a b) a b s).1 a b
      (findJoin c.v (edgeKey c.mode eid a b) a b s).2 := by
  by_cases hF : fiI s.fi (c.v.toIndex a) = fiI s.fi (c.v.toIndex b)
  · obtain ⟨han, hbn, _⟩ := hv.out a b eid hab
    rw [findJoin_same c.v _ a b s (by rw [I.fiLen]; have := hv.ix.lt a han; omega)
      (by rw [I.fiLen]; have := hv.ix.lt b hbn; omega) hF]
    refine ⟨fun _ _ h => h, fun _ _ _ _ _ _ e => e, hF, ?_⟩
    intro q _ h1 h2
    rw [h1] at h2; cases h2
  · exact findJoin_eff_ne hv n0 hm I a b eid hab hoa hob hF

end

end PetgraphModel.C15W5
