import PetgraphModel.Spec.C03Ordered
import PetgraphModel.Proofs.GraphMap
/-
C03 (wave 4) — the mirror model of graphmap.rs refines the ORDERED specification machine
(`Spec/C03Ordered.lean`) for all histories: same nodes / edges / incidence sequences in the same order,
the same answer to every call (`ordered_step`, `ordered_run`); the ordered machine forgets to the
unordered one (`toSG_oabs`).
-/
namespace PetgraphModel.C03W4
open PetgraphModel PetgraphModel.GM PetgraphModel.SimpleGraphSpec PetgraphModel.OrderedGraphSpec
open PetgraphModel.GMProofs

/-! ### the ordered-set primitives against `Vec::swap_remove` / `IndexMap` of the model -/

theorem swapRemoveAt_zero {α : Type} (x : α) (t : List α) :
    swapRemoveAt (x :: t) 0 = match t.getLast? with | none => [] | some z => z :: t.dropLast := by
  unfold swapRemoveAt
  cases t with
  | nil => simp
  | cons y r =>
    have hne : (y :: r) ≠ [] := by simp
    simp only [List.length_cons, Nat.zero_lt_succ, if_true, List.getLast?_cons_cons]
    cases hl : (y :: r).getLast? with
    | none => simp at hl
    | some z => simp [List.set]

theorem swapRemoveAt_succ {α : Type} (x : α) (t : List α) (i : Nat) (hi : i < t.length) :
    swapRemoveAt (x :: t) (i + 1) = x :: swapRemoveAt t i := by
  unfold swapRemoveAt
  cases t with
  | nil => simp at hi
  | cons y r =>
    simp only [List.length_cons] at hi
    have h1 : i + 1 < (x :: y :: r).length := by simp; omega
    have h2 : i < (y :: r).length := by simp; omega
    simp only [h1, h2, if_true, List.getLast?_cons_cons]
    cases hl : (y :: r).getLast? with
    | none => simp at hl
    | some z =>
      simp only [List.set_cons_succ]
      have : (y :: r).set i z ≠ [] := by
        intro h; have := congrArg List.length h; simp at this
      rw [List.dropLast_cons_of_ne_nil this]

/-- `swapDel` is `iter().position(p)` followed by `swap_remove` -/
theorem swapDel_eq_position {α : Type} (p : α → Bool) : ∀ (l : List α),
    swapDel p l = match position p l with | some i => swapRemoveAt l i | none => l
  | [] => by simp [swapDel, position]
  | x :: t => by
    simp only [swapDel, position]
    by_cases hp : p x = true
    · simp only [hp, if_true]
      exact (swapRemoveAt_zero x t).symm
    · simp only [hp, Bool.false_eq_true, if_false]
      rw [swapDel_eq_position p t]
      cases hpos : position p t with
      | none => simp
      | some i =>
        simp only [Option.map_some]
        exact (swapRemoveAt_succ x t i (position_lt p t i hpos)).symm

theorem swapDel_map {α β : Type} (f : α → β) (p : β → Bool) : ∀ (l : List α),
    (swapDel (fun x => p (f x)) l).map f = swapDel p (l.map f)
  | [] => by simp [swapDel]
  | x :: t => by
    simp only [swapDel, List.map_cons]
    by_cases hp : p (f x) = true
    · simp only [hp, if_true, List.getLast?_map]
      cases t.getLast? <;> simp [List.map_dropLast]
    · simp only [hp, Bool.false_eq_true, if_false, List.map_cons, swapDel_map f p t]

theorem swapDel_nil_fold {α β : Type} (f : β → Option (α → Bool)) (ls : List β) :
    ls.foldl (fun acc l => match f l with | some p => swapDel p acc | none => acc) ([] : List α) = [] := by
  induction ls with
  | nil => rfl
  | cons l t ih =>
    simp only [List.foldl_cons]
    cases f l <;> simpa [swapDel] using ih

section imap
variable {κ ν : Type} [DecidableEq κ]

theorem indexOf?_eq_position (m : IMap κ ν) (k : κ) :
    IMap.indexOf? m k = position (fun e => decide (e.1 = k)) m := by
  induction m with
  | nil => rfl
  | cons e t ih =>
    obtain ⟨k', v⟩ := e
    simp only [IMap.indexOf?, position, ih, decide_eq_true_eq]

/-- `IndexMap::swap_remove(k)` is `swapDel` on the entries … -/
theorem swapRemove_eq_swapDel (m : IMap κ ν) (k : κ) :
    (IMap.swapRemove m k).1 = swapDel (fun e => decide (e.1 = k)) m := by
  rw [swapDel_eq_position]
  unfold IMap.swapRemove
  rw [indexOf?_eq_position]
  cases position (fun e : κ × ν => decide (e.1 = k)) m <;> rfl

/-- … and on the keys -/
theorem keys_swapRemove (m : IMap κ ν) (k : κ) :
    IMap.keys (IMap.swapRemove m k).1 = swapDel (fun x => decide (x = k)) (IMap.keys m) := by
  rw [swapRemove_eq_swapDel]
  exact swapDel_map (fun e : κ × ν => e.1) (fun x => decide (x = k)) m

theorem pos_keys (m : IMap κ ν) (k : κ) : pos (IMap.keys m) k = IMap.indexOf? m k := by
  induction m with
  | nil => rfl
  | cons e t ih =>
    obtain ⟨k', v⟩ := e
    simp only [IMap.keys, List.map_cons, pos, IMap.indexOf?] at *
    rw [ih]
end imap

theorem lookup_eq (m : IMap GM.EKey Nat) (p : GM.EKey) : lookup m p = IMap.get? m p := by
  induction m with
  | nil => rfl
  | cons e t ih =>
    obtain ⟨q, w⟩ := e
    simp only [lookup, IMap.get?, ih]

theorem set_eq_overwrite (m : IMap GM.EKey Nat) (hn : (IMap.keys m).Nodup) (p : GM.EKey) (w : Nat) :
    IMap.set m p w = overwrite m p w := by
  induction m with
  | nil => rfl
  | cons e t ih =>
    obtain ⟨q, v⟩ := e
    simp only [IMap.keys, List.map_cons, List.nodup_cons] at hn
    simp only [IMap.set, overwrite, List.map_cons]
    by_cases hq : q = p
    · subst hq
      simp only [if_true, List.cons.injEq, true_and]
      conv => lhs; rw [← List.map_id t]
      apply List.map_congr_left
      intro e he
      have : e.1 ≠ q := by
        intro h; exact hn.1 (h ▸ List.mem_map.2 ⟨e, he, rfl⟩)
      simp [this]
    · simp only [hq, if_false, List.cons.injEq, true_and]
      exact ih hn.2

theorem okey_eq (d : Bool) (a b : Nat) : okey d a b = edgeKey d a b := rfl
theorem isEntry_eq (d : Bool) (b : Nat) (dir : Dir) : isEntry d b dir = rmPred d b dir := rfl

theorem pushNew_mem {α : Type} [DecidableEq α] (l : List α) (x : α) : x ∈ pushNew l x := by
  unfold pushNew; split <;> simp_all

theorem pushNew_idem {α : Type} [DecidableEq α] (l : List α) (x : α) : pushNew (pushNew l x) x = pushNew l x := by
  have := pushNew_mem l x
  generalize pushNew l x = m at this
  unfold pushNew; simp [this]

/-! ### the abstraction -/

/-- the ordered graph a concrete state denotes: the keys of the node map, the edge map as it is, the
adjacency vectors -/
def oabs (s : State) : OSG := ⟨s.directed, IMap.keys s.nodes, s.edges, adjF s.nodes⟩

theorem osg_ext {g g' : OSG} (hd : g.directed = g'.directed) (hn : g.ns = g'.ns) (he : g.es = g'.es)
    (hi : ∀ x, g.inc x = g'.inc x) : g = g' := by
  cases g; cases g'; simp only at hd hn he hi; subst hd; subst hn; subst he
  have := funext hi; subst this; rfl

theorem oabs_w (s : State) (a b : Nat) : (oabs s).w a b = IMap.get? s.edges (edgeKey s.directed a b) := by
  simp only [OSG.w, oabs, lookup_eq, okey_eq]

theorem oabs_hasEdge (s : State) (a b : Nat) : (oabs s).hasEdge a b = containsEdge s a b := by
  simp only [OSG.hasEdge, oabs_w, containsEdge, IMap.contains]

theorem mem_keys_iff (s : State) (n : Nat) : n ∈ (oabs s).ns ↔ IMap.contains s.nodes n = true := by
  simp only [oabs, contains_eq]; exact (get?_isSome_iff _ _).symm

/-- forgetting the order gives the abstraction of `Proofs/GraphMap.lean` -/
theorem toSG_oabs (s : State) : (oabs s).toSG = abs s := by
  apply sg_ext
  · rfl
  · intro x
    simp only [OSG.toSG, abs]
    cases h : IMap.contains s.nodes x
    · simpa using fun hm => by rw [(mem_keys_iff s x).1 hm] at h; cases h
    · simpa using (mem_keys_iff s x).2 h
  · intro a b; simp only [OSG.toSG, abs, oabs_w]

/-! ### mutators -/

theorem keys_pushAdj (nodes : IMap Nat Adj) (a : Nat) (e : Nat × Dir) :
    IMap.keys (pushAdj nodes a e) = pushNew (IMap.keys nodes) a := by
  unfold pushAdj pushNew
  cases h : IMap.get? nodes a with
  | some l =>
    have : a ∈ IMap.keys nodes := (get?_isSome_iff _ _).1 (by simp [h])
    simp [keys_set, this]
  | none =>
    have : a ∉ IMap.keys nodes := (get?_eq_none_iff _ _).1 h
    simp [keys_append, this]

theorem addNode_ordered (s : State) (n : Nat) : oabs (addNode s n) = (oabs s).addNode n := by
  unfold addNode OSG.addNode pushNew
  cases h : IMap.contains s.nodes n with
  | true =>
    have := (mem_keys_iff s n).2 h
    simp only [if_true, this]
  | false =>
    have hm : n ∉ (oabs s).ns := fun hm => by rw [(mem_keys_iff s n).1 hm] at h; cases h
    simp only [Bool.false_eq_true, if_false, hm]
    apply osg_ext
    · rfl
    · simp [oabs, keys_append]
    · rfl
    · intro x
      simp only [oabs, adjF, get?_append]
      have hg : IMap.get? s.nodes n = none := by
        simp only [contains_eq] at h; cases hh : IMap.get? s.nodes n <;> simp_all
      cases hx : IMap.get? s.nodes x with
      | some y => rfl
      | none => simp only []; split <;> rfl

theorem addEdge_ordered (s : State) (a b w : Nat) (h : Inv s) :
    oabs (addEdge s a b w).1 = (oabs s).addEdge a b w := by
  unfold addEdge IMap.insert OSG.addEdge
  simp only [oabs, lookup_eq, okey_eq]
  cases hg : IMap.get? s.edges (edgeKey s.directed a b) with
  | some old =>
    simp only [Option.isSome_some, if_true]
    exact osg_ext rfl rfl (set_eq_overwrite _ h.edgesNodup _ _) (fun _ => rfl)
  | none =>
    simp only [Option.isSome_none, Bool.false_eq_true, if_false]
    apply osg_ext
    · rfl
    · show IMap.keys (if a ≠ b then pushAdj (pushAdj s.nodes a (b, Dir.out)) b (a, Dir.inc)
          else pushAdj s.nodes a (b, Dir.out)) = _
      by_cases hab : a = b
      · subst hab
        simp only [ne_eq, not_true_eq_false, if_false, keys_pushAdj, pushNew_idem]
      · simp only [ne_eq, hab, not_false_eq_true, if_true, keys_pushAdj]
    · rfl
    · intro x
      show adjF (if a ≠ b then pushAdj (pushAdj s.nodes a (b, Dir.out)) b (a, Dir.inc)
          else pushAdj s.nodes a (b, Dir.out)) x = _
      by_cases hab : a = b
      · subst hab
        simp only [ne_eq, not_true_eq_false, if_false, adjF_pushAdj]
        split <;> simp_all
      · simp only [ne_eq, hab, not_false_eq_true, if_true, adjF_pushAdj]
        by_cases hxa : x = a
        · subst hxa; simp [hab]
        · by_cases hxb : x = b
          · subst hxb; simp [hxa]
          · simp [hxa, hxb]

/-- `remove_single_edge` exactly: the keys stay, and the entry is swap-removed from `a`'s sequence -/
theorem removeSingleEdge_exact (d : Bool) (nodes : IMap Nat Adj) (a b : Nat) (dir : Dir) :
    IMap.keys (removeSingleEdge d nodes a b dir).1 = IMap.keys nodes ∧
    ∀ x, adjF (removeSingleEdge d nodes a b dir).1 x =
      if x = a then swapDel (isEntry d b dir) (adjF nodes a) else adjF nodes x := by
  unfold removeSingleEdge
  cases hg : IMap.get? nodes a with
  | none =>
    dsimp only
    refine ⟨rfl, fun x => ?_⟩
    by_cases hx : x = a
    · subst hx; simp [adjF, hg, swapDel]
    · simp [hx]
  | some sus =>
    dsimp only
    have hpos : (if d = true then position (fun e => decide (e = (b, dir))) sus
        else position (fun e => decide (e.1 = b)) sus) = position (isEntry d b dir) sus := by
      cases d <;> rfl
    rw [hpos]
    have hsd := swapDel_eq_position (isEntry d b dir) sus
    cases hp : position (isEntry d b dir) sus with
    | none =>
      simp only [hp] at hsd
      dsimp only
      refine ⟨rfl, fun x => ?_⟩
      by_cases hx : x = a
      · subst hx; simp [adjF, hg, hsd]
      · simp [hx]
    | some i =>
      simp only [hp] at hsd
      dsimp only
      refine ⟨keys_set _ _ _, fun x => ?_⟩
      simp only [adjF, get?_set, hg]
      by_cases hx : x = a
      · simp [hx, hsd]
      · simp [hx]

theorem removeEdge_fst (s : State) (a b : Nat) :
    (removeEdge s a b).1 =
      { s with
        nodes := if a ≠ b then
            (removeSingleEdge s.directed (removeSingleEdge s.directed s.nodes a b .out).1 b a .inc).1
          else (removeSingleEdge s.directed s.nodes a b .out).1
        edges := (IMap.swapRemove s.edges (edgeKey s.directed a b)).1 } := by
  unfold removeEdge
  simp only [apply_ite Prod.fst, ite_self]

theorem removeEdge_ordered (s : State) (a b : Nat) :
    oabs (removeEdge s a b).1 = (oabs s).removeEdge a b := by
  have e1 := removeSingleEdge_exact s.directed s.nodes a b .out
  have e2 := removeSingleEdge_exact s.directed (removeSingleEdge s.directed s.nodes a b .out).1 b a .inc
  rw [removeEdge_fst]
  apply osg_ext
  · rfl
  · show IMap.keys (if a ≠ b then _ else _) = IMap.keys s.nodes
    by_cases hab : a = b
    · subst hab; simp only [ne_eq, not_true_eq_false, if_false]; exact e1.1
    · simp only [ne_eq, hab, not_false_eq_true, if_true]
      rw [e2.1, e1.1]
  · show (IMap.swapRemove s.edges (edgeKey s.directed a b)).1 = _
    rw [swapRemove_eq_swapDel]; rfl
  · intro x
    show adjF (if a ≠ b then _ else _) x = _
    simp only [OSG.removeEdge, oabs]
    by_cases hab : a = b
    · subst hab; simp only [ne_eq, not_true_eq_false, if_false]
      rw [e1.2 x]
      by_cases hx : x = a <;> simp [hx]
    · simp only [ne_eq, hab, not_false_eq_true, if_true]
      rw [e2.2 x, e1.2 b, e1.2 x]
      by_cases hxa : x = a
      · subst hxa; simp [hab]
      · by_cases hxb : x = b
        · subst hxb; simp [hxa]
        · simp [hxa, hxb]

/-- the loop of `remove_node` exactly -/
theorem removeLinks_exact (d : Bool) (n : Nat) : ∀ (links : List (Nat × Dir)) (nodes : IMap Nat Adj)
    (edges : IMap GM.EKey Nat),
    IMap.keys (removeLinks d n links nodes edges).1 = IMap.keys nodes ∧
    (∀ x, adjF (removeLinks d n links nodes edges).1 x =
      links.foldl (fun acc l => if l.1 = x then swapDel (isEntry d n l.2.opposite) acc else acc) (adjF nodes x)) ∧
    (removeLinks d n links nodes edges).2 =
      links.foldl (fun es l => swapDel (fun e : GM.EKey × Nat => decide (e.1 = OrderedGraphSpec.linkKey d n l)) es) edges
  | [], nodes, edges => ⟨rfl, fun _ => rfl, rfl⟩
  | (succ, dir) :: rest, nodes, edges => by
    simp only [removeLinks, List.foldl_cons]
    have e1 := removeSingleEdge_exact d nodes succ n dir.opposite
    have ih := removeLinks_exact d n rest (removeSingleEdge d nodes succ n dir.opposite).1
      (IMap.swapRemove edges (if dir = .out then edgeKey d n succ else edgeKey d succ n)).1
    refine ⟨by rw [ih.1, e1.1], fun x => ?_, ?_⟩
    · rw [ih.2.1 x, e1.2 x]
      by_cases hx : succ = x
      · subst hx; simp
      · have hx' : ¬ x = succ := fun h => hx h.symm
        simp [hx, hx']
    · rw [ih.2.2, swapRemove_eq_swapDel]; rfl

theorem foldl_swapDel_nil (d : Bool) (n x : Nat) (links : List (Nat × Dir)) :
    links.foldl (fun acc l => if l.1 = x then swapDel (isEntry d n l.2.opposite) acc else acc) ([] : Adj) = [] := by
  induction links with
  | nil => rfl
  | cons l t ih => simp only [List.foldl_cons]; split <;> simpa [swapDel] using ih

theorem removeNode_ordered (s : State) (n : Nat) (h : Inv s) :
    oabs (removeNode s n).1 = (oabs s).removeNode n := by
  unfold removeNode OSG.removeNode
  cases hg : IMap.get? s.nodes n with
  | none =>
    have hi : IMap.indexOf? s.nodes n = none := (indexOf?_none _ _).2 hg
    have hm : n ∉ (oabs s).ns := (get?_eq_none_iff _ _).1 hg
    simp only [IMap.swapRemove, hi, hm, if_false]
  | some links =>
    have hm : n ∈ (oabs s).ns := (get?_isSome_iff _ _).1 (by simp [hg])
    have hsr : IMap.swapRemove s.nodes n = ((IMap.swapRemove s.nodes n).1, some links) := by
      have := swapRemove_snd s.nodes n
      rw [hg] at this
      exact Prod.ext rfl this
    rw [hsr]
    simp only [hm, if_true]
    have ex := removeLinks_exact s.directed n links (IMap.swapRemove s.nodes n).1 s.edges
    have hl : (oabs s).inc n = links := by simp [oabs, adjF, hg]
    apply osg_ext
    · rfl
    · show IMap.keys (removeLinks s.directed n links (IMap.swapRemove s.nodes n).1 s.edges).1 = _
      rw [ex.1, keys_swapRemove]; rfl
    · show (removeLinks s.directed n links (IMap.swapRemove s.nodes n).1 s.edges).2 = _
      rw [ex.2.2, hl]; rfl
    · intro x
      show adjF (removeLinks s.directed n links (IMap.swapRemove s.nodes n).1 s.edges).1 x = _
      rw [ex.2.1 x]
      simp only [hl]
      have hgx : adjF (IMap.swapRemove s.nodes n).1 x = if x = n then [] else adjF s.nodes x := by
        simp only [adjF, get?_swapRemove _ h.nodesNodup]
        split <;> rfl
      rw [hgx]
      by_cases hx : x = n
      · simp only [hx, if_true]; exact foldl_swapDel_nil _ _ _ _
      · simp only [hx, if_false]; rfl

theorem setWeight_ordered (s : State) (a b w : Nat) (h : Inv s) :
    oabs (setWeight s a b w).1 = (oabs s).setWeight a b w := by
  unfold setWeight OSG.setWeight
  rw [oabs_hasEdge]
  simp only [containsEdge, IMap.contains, edgeWeight]
  split
  · rename_i old hg
    simp only [hg, Option.isSome_some, if_true]
    exact osg_ext rfl rfl (set_eq_overwrite _ h.edgesNodup _ _) (fun _ => rfl)
  · rename_i hg; simp [hg]

theorem extend_ordered (s : State) (es : List (Nat × Nat × Nat)) (h : Inv s) :
    oabs (extend s es) = (oabs s).extend es := by
  induction es generalizing s with
  | nil => rfl
  | cons e t ih =>
    obtain ⟨a, b, w⟩ := e
    simp only [extend, OSG.extend]
    rw [ih _ (addEdge_inv s a b w h), addEdge_ordered s a b w h]

theorem addNodes_ordered (s : State) (ws : List Nat) : oabs (addNodes s ws) = (oabs s).addNodes ws := by
  induction ws generalizing s with
  | nil => rfl
  | cons n t ih => simp only [addNodes, OSG.addNodes]; rw [ih, addNode_ordered]

theorem fromGraphEdges_ordered (s : State) (ws : List Nat) (es : List (Nat × Nat × Nat)) (h : Inv s) :
    (fromGraphEdges s ws es).map oabs = OSG.fromGraphEdges (oabs s) ws es := by
  induction es generalizing s with
  | nil => rfl
  | cons e t ih =>
    obtain ⟨i, j, w⟩ := e
    simp only [fromGraphEdges, OSG.fromGraphEdges]
    cases ws[i]? <;> cases ws[j]? <;> try rfl
    rename_i a b
    simp only []
    rw [ih _ (addEdge_inv s a b w h), addEdge_ordered s a b w h]

theorem oabs_empty (d : Bool) : oabs (State.empty d) = OSG.empty d := rfl

theorem fromGraph_ordered (d : Bool) (ws : List Nat) (es : List (Nat × Nat × Nat)) :
    (fromGraph d ws es).map oabs = OSG.fromGraph d ws es := by
  unfold fromGraph OSG.fromGraph
  rw [fromGraphEdges_ordered _ _ _ (addNodes_spec _ ws (inv_empty d)).1, addNodes_ordered, oabs_empty]

/-! ### one call -/

theorem roundTrip_ordered (s : State) (h : Inv s) :
    ∃ s', roundTrip s = some s' ∧ oabs s' = (oabs s).roundTrip := by
  refine ⟨_, roundTrip_eq s h, ?_⟩
  rw [extend_ordered _ _ (addNodes_spec _ _ (inv_empty _)).1, addNodes_ordered]
  rfl

/-- the state after a call is the ordered machine's -/
theorem ordered_state (s : State) (op : Op) (h : Inv s) : oabs (step s op).1 = ospecStep (oabs s) op := by
  cases op with
  | addNode n => exact addNode_ordered s n
  | addEdge a b w => exact addEdge_ordered s a b w h
  | removeNode n => exact removeNode_ordered s n h
  | removeEdge a b => exact removeEdge_ordered s a b
  | setWeight a b w => exact setWeight_ordered s a b w h
  | indexSet a b w => exact setWeight_ordered s a b w h
  | bumpAll k => rfl
  | clear => rfl
  | extend es => exact extend_ordered s es h
  | buildAddEdge a b w =>
    simp only [step, ospecStep, buildAddEdge, oabs_hasEdge]
    cases containsEdge s a b
    · simp only [Bool.false_eq_true, if_false]; exact addEdge_ordered s a b w h
    · simp
  | buildUpdateEdge a b w => exact addEdge_ordered s a b w h
  | roundTrip =>
    obtain ⟨s', h1, h2⟩ := roundTrip_ordered s h
    simp only [step, ospecStep, h1, h2]
  | fromGraph ws es =>
    have := fromGraph_ordered s.directed ws es
    simp only [step, ospecStep]
    show oabs (match fromGraph s.directed ws es with | some s' => (s', Out.unit) | none => (s, Out.panic)).1 =
      (OSG.fromGraph s.directed ws es).getD (oabs s)
    rw [← this]
    cases fromGraph s.directed ws es <;> rfl
  | fromEdges es =>
    simp only [step, ospecStep]
    exact extend_ordered _ es (inv_empty _)
  | _ => rfl

theorem edges_ordered (s : State) (a : Nat) : edgesOf s a = (oabs s).edges a := by
  unfold edgesOf OSG.edges
  show (neighbors s a).map _ = (neighbors s a).map _
  apply List.map_congr_left
  intro b _
  rw [oabs_w]

theorem edgesDirected_ordered (s : State) (a : Nat) (d : Dir) :
    edgesDirected s a d = (oabs s).edgesDirected a d := by
  unfold edgesDirected OSG.edgesDirected
  show (neighborsDirected s a d).map _ = (neighborsDirected s a d).map _
  apply List.map_congr_left
  intro b _
  cases d <;> simp [oabs_w]

/-- the answer of a call is the ordered machine's exact answer -/
theorem ordered_out (s : State) (op : Op) (h : Inv s) : (step s op).2 = ospecOut (oabs s) op := by
  cases op with
  | addNode n => rfl
  | addEdge a b w => simp only [step, ospecOut, oabs_w]; rw [addEdge_out]; rfl
  | removeNode n =>
    simp only [step, ospecOut]
    rw [(removeNode_spec s n h).2.1]
    simp only [abs]
    cases hc : IMap.contains s.nodes n
    · have : n ∉ (oabs s).ns := fun hm => by rw [(mem_keys_iff s n).1 hm] at hc; cases hc
      simp [this]
    · simp [(mem_keys_iff s n).2 hc]
  | removeEdge a b =>
    simp only [step, ospecOut, oabs_w]
    rw [(removeEdge_spec s a b h).2.1]; rfl
  | setWeight a b w =>
    simp only [step, ospecOut, oabs_w, setWeight, edgeWeight]
    cases IMap.get? s.edges (edgeKey s.directed a b) <;> rfl
  | indexSet a b w =>
    simp only [step, ospecOut, oabs_w, setWeight, edgeWeight]
    cases IMap.get? s.edges (edgeKey s.directed a b) <;> rfl
  | bumpAll k => rfl
  | clear => rfl
  | extend es => rfl
  | buildAddEdge a b w =>
    simp only [step, ospecOut, buildAddEdge, oabs_hasEdge]
    cases containsEdge s a b <;> simp
  | buildUpdateEdge a b w => rfl
  | roundTrip =>
    obtain ⟨s', h1, _⟩ := roundTrip_ordered s h
    simp only [step, ospecOut, h1]
  | fromGraph ws es =>
    have := fromGraph_ordered s.directed ws es
    simp only [step, ospecOut]
    show (match fromGraph s.directed ws es with | some s' => (s', Out.unit) | none => (s, Out.panic)).2 =
      if (OSG.fromGraph s.directed ws es).isSome = true then Out.unit else Out.panic
    rw [← this]
    cases fromGraph s.directed ws es <;> rfl
  | fromEdges es => rfl
  | clone => rfl
  | containsNode n =>
    simp only [step, ospecOut, containsNode]
    cases hc : IMap.contains s.nodes n
    · have : n ∉ (oabs s).ns := fun hm => by rw [(mem_keys_iff s n).1 hm] at hc; cases hc
      simp [this]
    · simp [(mem_keys_iff s n).2 hc]
  | containsEdge a b => simp only [step, ospecOut, oabs_hasEdge]
  | isAdjacent a b => simp only [step, ospecOut, oabs_hasEdge]
  | edgeWeight a b => simp only [step, ospecOut, oabs_w, edgeWeight]
  | index a b =>
    simp only [step, ospecOut, oabs_w, edgeWeight]
    cases IMap.get? s.edges (edgeKey s.directed a b) <;> rfl
  | neighbors a => rfl
  | neighborsDirected a d => rfl
  | edges a => simp only [step, ospecOut, edges_ordered]
  | edgesDirected a d => simp only [step, ospecOut, edgesDirected_ordered]
  | nodes => rfl
  | allEdges => rfl
  | nodeCount => simp [step, ospecOut, nodeCount, oabs, IMap.keys]
  | edgeCount => rfl
  | toIndex n =>
    simp only [step, ospecOut, oabs, pos_keys]
    cases IMap.indexOf? s.nodes n <;> rfl
  | fromIndex i =>
    simp only [step, ospecOut, oabs, IMap.keys, List.getElem?_map]
    cases s.nodes[i]? <;> rfl
  | edgeToIndex a b =>
    simp only [step, ospecOut, oabs]
    rw [show s.edges.map (·.1) = IMap.keys s.edges from rfl, pos_keys, okey_eq]
    cases IMap.indexOf? s.edges (edgeKey s.directed a b) <;> rfl
  | edgeFromIndex i => rfl
  | intoGraph =>
    simp only [step, ospecOut, intoGraph, oabs, nodesOf, pos_keys]

/-! ### all histories -/

theorem ordered_run (s : State) (ops : List Op) (h : Inv s) :
    oabs (run s ops).1 = ospecRun (oabs s) ops ∧ (run s ops).2 = ospecOuts (oabs s) ops := by
  induction ops generalizing s with
  | nil => exact ⟨rfl, rfl⟩
  | cons op ops ih =>
    have h1 := (step_spec s op h).1
    have h2 := ih (step s op).1 h1
    simp only [run, ospecRun, ospecOuts]
    rw [← ordered_state s op h, ← ordered_out s op h]
    exact ⟨h2.1, by rw [h2.2]⟩

end PetgraphModel.C03W4
