import PetgraphModel.Model.C15Matching
import PetgraphModel.Oracle.C15Matching
/-
C15 — the mirror model of `greedy_matching` returns a valid matching for every view, and the
`Matching` accessors of the model are consistent functions of the `mate` vector.
-/
namespace PetgraphModel.C15P
open PetgraphModel PetgraphModel.C15 PetgraphModel.C15M

/-! ### hypotheses on the view -/

/-- `to_index` is injective on the live nodes, below `node_bound`, and `from_index` inverts it -/
structure IxOk (v : View) : Prop where
  lt : ∀ a ∈ v.g.nodes, v.toIndex a < v.nb
  inj : ∀ a ∈ v.g.nodes, ∀ b ∈ v.g.nodes, v.toIndex a = v.toIndex b → a = b
  from_to : ∀ a ∈ v.g.nodes, fromIndex v (v.toIndex a) = a

theorem ixOkB_sound (v : View) (h : ixOkB v = true) : IxOk v := by
  unfold ixOkB at h
  simp only [List.all_eq_true, Bool.and_eq_true, decide_eq_true_eq, beq_iff_eq, Bool.or_eq_true,
    bne_iff_ne, ne_eq] at h
  refine ⟨fun a ha => (h a ha).1.1, ?_, fun a ha => (h a ha).1.2⟩
  intro a ha b hb hab
  cases (h a ha).2 b hb with
  | inl h1 => exact absurd hab h1
  | inr h1 => exact h1

/-- every listed neighbour is a neighbour in the abstract graph -/
def ViewSound (v : View) : Prop := ∀ a b, b ∈ v.succ a → v.g.Adj a b

theorem mem_of_lookup {β : Type} : ∀ (l : List (Nat × β)) (a : Nat) (r : β), l.lookup a = some r → (a, r) ∈ l
  | [], _, _, h => by simp at h
  | (k, x) :: rest, a, r, h => by
    simp only [List.lookup_cons] at h
    by_cases hk : a = k
    · subst hk; simp at h; subst h; exact List.mem_cons_self ..
    · have : (a == k) = false := by simpa using hk
      rw [this] at h
      exact List.mem_cons_of_mem _ (mem_of_lookup rest a r h)

theorem viewSoundB_sound (v : View) (h : viewSoundB v = true) : ViewSound v := by
  intro a b hb
  unfold View.succ View.outOf at hb
  cases hl : v.out.lookup a with
  | none => simp [hl] at hb
  | some row =>
    simp only [hl, Option.getD_some, List.mem_map] at hb
    obtain ⟨p, hp, rfl⟩ := hb
    have hmem : (a, row) ∈ v.out := mem_of_lookup v.out a row hl
    unfold viewSoundB at h
    have := List.all_eq_true.mp h (a, row) hmem
    have := List.all_eq_true.mp this p hp
    simpa using this

theorem wfB_sound (g : MGraph) (h : wfB g = true) : g.WellFormed := by
  unfold wfB at h
  simp only [Bool.and_eq_true, List.all_eq_true, beq_iff_eq, List.contains_eq_mem, decide_eq_true_eq] at h
  refine ⟨?_, fun e he => h.2 e he⟩
  rw [List.nodup_iff_count]
  intro a
  by_cases ha : a ∈ g.nodes
  · rw [h.1 a ha]; exact Nat.le_refl _
  · rw [List.count_eq_zero_of_not_mem ha]; omega

/-! ### reading and writing the `mate` vector -/

def getM (l : List (Option Nat)) (i : Nat) : Option Nat :=
  match l[i]? with
  | some x => x
  | none => none

theorem mateOf_eq (v : View) (m : Matching) (a : Nat) : m.mateOf v a = getM m.mate (v.toIndex a) := rfl

theorem getM_set (l : List (Option Nat)) (i j : Nat) (x : Option Nat) (hi : i < l.length) :
    getM (l.set i x) j = if i = j then x else getM l j := by
  unfold getM
  rw [List.getElem?_set]
  by_cases hij : i = j
  · subst hij; simp [hi]
  · simp [hij]

theorem getM_some_iff (l : List (Option Nat)) (i x : Nat) : getM l i = some x ↔ l[i]? = some (some x) := by
  unfold getM
  cases h : l[i]? with
  | none => simp
  | some y => simp

/-- counting over a duplicate-free list when a predicate changes at two points only -/
theorem countP_two {α : Type} [DecidableEq α] (P P' : α → Bool) (x y : α) (hxy : x ≠ y)
    (hPx : P x = false) (hPy : P y = false) :
    ∀ (l : List α), l.Nodup → (∀ z ∈ l, z ≠ x → z ≠ y → P' z = P z) →
      l.countP P' = l.countP P + (if x ∈ l ∧ P' x = true then 1 else 0) + (if y ∈ l ∧ P' y = true then 1 else 0)
  | [], _, _ => by simp
  | z :: l, hn, hoth => by
    have hz : z ∉ l := (List.nodup_cons.mp hn).1
    have ih := countP_two P P' x y hxy hPx hPy l (List.nodup_cons.mp hn).2
      (fun w hw => hoth w (List.mem_cons_of_mem _ hw))
    rw [List.countP_cons, List.countP_cons, ih]
    by_cases hzx : z = x
    · subst hzx
      have hyz : ¬ y = z := fun h => hxy h.symm
      have : (y ∈ z :: l) = (y ∈ l) := by simp [hyz]
      simp only [List.mem_cons, true_or, true_and, hz, false_and, if_false, hPx, hyz, false_or]
      by_cases hp : P' z = true <;> simp [hp] <;> omega
    · by_cases hzy : z = y
      · subst hzy
        have hxz : ¬ x = z := hxy
        simp only [List.mem_cons, true_or, true_and, hz, false_and, if_false, hPy, hxz, false_or]
        by_cases hp : P' z = true <;> simp [hp] <;> omega
      · have hpz := hoth z (List.mem_cons_self ..) hzx hzy
        have hxz : ¬ x = z := fun h => hzx h.symm
        have hyz : ¬ y = z := fun h => hzy h.symm
        simp only [List.mem_cons, hxz, hyz, false_or, hpz]
        omega

theorem length_filterMap_eq_countP {α β : Type} (f : α → Option β) (l : List α) :
    (l.filterMap f).length = l.countP (fun a => (f a).isSome) := by
  induction l with
  | nil => rfl
  | cons a l ih =>
    rw [List.filterMap_cons, List.countP_cons]
    cases h : f a <;> simp [ih]

/-! ### the well-formedness invariant of a `Matching` -/

/-- the entry of `MatchedEdges` at position `cur` -/
def edgeAt (v : View) (l : List (Option Nat)) (cur : Nat) : Option (Nat × Nat) :=
  match l[cur]? with
  | some (some mt) => if v.toIndex mt > cur then some (fromIndex v cur, mt) else none
  | _ => none

theorem edges_eq (v : View) (m : Matching) :
    m.edges v = (List.range m.mate.length).filterMap (edgeAt v m.mate) := rfl

structure MWF (v : View) (m : Matching) : Prop where
  len : m.mate.length = v.nb
  nofault : m.fault = false
  live : ∀ i x, m.mate[i]? = some (some x) → x ∈ v.g.nodes ∧ ∃ a ∈ v.g.nodes, v.toIndex a = i
  symm : ∀ a ∈ v.g.nodes, ∀ b, m.mateOf v a = some b → m.mateOf v b = some a
  irrefl : ∀ a ∈ v.g.nodes, m.mateOf v a ≠ some a
  cntE : m.nEdges = (m.edges v).length
  cntN : 2 * m.nEdges = (v.g.nodes.filter fun a => (m.mateOf v a).isSome).length

theorem MWF.mate_mem {v : View} {m : Matching} (h : MWF v m) {a b : Nat} (hab : m.mateOf v a = some b) :
    b ∈ v.g.nodes :=
  (h.live _ _ ((getM_some_iff _ _ _).mp hab)).1

/-- one step of the greedy visitor: `mate[pred] = next; mate[next] = pred; n_edges += 1` -/
def pairStep (v : View) (m : Matching) (pred next : Nat) : Matching :=
  { mate := (m.mate.set (v.toIndex pred) (some next)).set (v.toIndex next) (some pred),
    nEdges := m.nEdges + 1, fault := m.fault }

theorem pairStep_mateOf (v : View) (hix : IxOk v) (m : Matching) (hm : MWF v m) (pred next : Nat)
    (hp : pred ∈ v.g.nodes) (hn : next ∈ v.g.nodes) (c : Nat) (hc : c ∈ v.g.nodes) :
    (pairStep v m pred next).mateOf v c =
      if c = next then some pred else if c = pred then some next else m.mateOf v c := by
  have h1 : v.toIndex pred < m.mate.length := by rw [hm.len]; exact hix.lt _ hp
  have h2 : v.toIndex next < (m.mate.set (v.toIndex pred) (some next)).length := by
    rw [List.length_set, hm.len]; exact hix.lt _ hn
  rw [mateOf_eq, mateOf_eq]
  simp only [pairStep]
  rw [getM_set _ _ _ _ h2, getM_set _ _ _ _ h1]
  by_cases hcn : c = next
  · subst hcn; simp
  · have : ¬ v.toIndex next = v.toIndex c := fun h => hcn (hix.inj _ hc _ hn h.symm)
    simp only [this, if_false, hcn]
    by_cases hcp : c = pred
    · subst hcp; simp
    · have : ¬ v.toIndex pred = v.toIndex c := fun h => hcp (hix.inj _ hc _ hp h.symm)
      simp [this, hcp]

theorem isSome_eq_false_of_none {o : Option Nat} (h : o = none) : o.isSome = false := by simp [h]

theorem pairStep_MWF (v : View) (hix : IxOk v) (hnd : v.g.nodes.Nodup) (m : Matching) (hm : MWF v m)
    (pred next : Nat) (hp : pred ∈ v.g.nodes) (hn : next ∈ v.g.nodes) (hne : pred ≠ next)
    (hpn : m.mateOf v pred = none) (hnn : m.mateOf v next = none) : MWF v (pairStep v m pred next) := by
  have hmo := pairStep_mateOf v hix m hm pred next hp hn
  have h1 : v.toIndex pred < m.mate.length := by rw [hm.len]; exact hix.lt _ hp
  have h2 : v.toIndex next < m.mate.length := by rw [hm.len]; exact hix.lt _ hn
  have hi12 : v.toIndex pred ≠ v.toIndex next := fun h => hne (hix.inj _ hp _ hn h)
  -- raw entries of the new vector
  have hraw : ∀ i, (pairStep v m pred next).mate[i]? =
      if v.toIndex next = i then some (some pred) else if v.toIndex pred = i then some (some next) else m.mate[i]? := by
    intro i
    simp only [pairStep]
    rw [List.getElem?_set, List.getElem?_set]
    by_cases e1 : v.toIndex next = i
    · subst e1; simp [h2]
    · by_cases e2 : v.toIndex pred = i
      · subst e2; simp [e1, h1]
      · simp [e1, e2]
  have hrawp : m.mate[v.toIndex pred]? = some none := by
    have : m.mate[v.toIndex pred]? = some (m.mate[v.toIndex pred]) := List.getElem?_eq_getElem h1
    rw [mateOf_eq] at hpn; unfold getM at hpn; rw [this] at hpn; rw [this]; simp at hpn; rw [hpn]
  have hrawn : m.mate[v.toIndex next]? = some none := by
    have : m.mate[v.toIndex next]? = some (m.mate[v.toIndex next]) := List.getElem?_eq_getElem h2
    rw [mateOf_eq] at hnn; unfold getM at hnn; rw [this] at hnn; rw [this]; simp at hnn; rw [hnn]
  refine ⟨?_, hm.nofault, ?_, ?_, ?_, ?_, ?_⟩
  · simp [pairStep, hm.len]
  · intro i x hx
    rw [hraw] at hx
    by_cases e1 : v.toIndex next = i
    · simp [e1] at hx; subst hx; exact ⟨hp, next, hn, e1⟩
    · by_cases e2 : v.toIndex pred = i
      · simp [e1, e2] at hx; subst hx; exact ⟨hn, pred, hp, e2⟩
      · simp [e1, e2] at hx; exact hm.live i x hx
  · intro a ha b hab
    rw [hmo a ha] at hab
    by_cases e1 : a = next
    · subst e1; simp at hab; subst hab; rw [hmo _ hp]; simp [hne]
    · by_cases e2 : a = pred
      · subst e2; simp [e1] at hab; subst hab; rw [hmo _ hn]; simp
      · simp [e1, e2] at hab
        have hb : b ∈ v.g.nodes := hm.mate_mem hab
        have hba := hm.symm a ha b hab
        have hbn : b ≠ next := fun h => by subst h; rw [hnn] at hba; cases hba
        have hbp : b ≠ pred := fun h => by subst h; rw [hpn] at hba; cases hba
        rw [hmo b hb]; simp [hbn, hbp, hba]
  · intro a ha
    rw [hmo a ha]
    by_cases e1 : a = next
    · subst e1; simp; exact hne
    · by_cases e2 : a = pred
      · subst e2; simp [e1]; exact fun h => hne h.symm
      · simp [e1, e2]; exact hm.irrefl a ha
  · -- one more entry in `edges()`
    rw [edges_eq, length_filterMap_eq_countP]
    have hlen : (pairStep v m pred next).mate.length = m.mate.length := by simp [pairStep]
    rw [hlen]
    have e1 : (edgeAt v (pairStep v m pred next).mate (v.toIndex pred)).isSome
        = decide (v.toIndex pred < v.toIndex next) := by
      simp only [edgeAt, hraw (v.toIndex pred)]
      simp only [Ne.symm hi12, if_false, if_true]
      by_cases hh : v.toIndex pred < v.toIndex next <;> simp [hh]
    have e2 : (edgeAt v (pairStep v m pred next).mate (v.toIndex next)).isSome
        = decide (v.toIndex next < v.toIndex pred) := by
      simp only [edgeAt, hraw (v.toIndex next)]
      simp only [if_true]
      by_cases hh : v.toIndex next < v.toIndex pred <;> simp [hh]
    have hc := countP_two (fun cur => (edgeAt v m.mate cur).isSome)
      (fun cur => (edgeAt v (pairStep v m pred next).mate cur).isSome) (v.toIndex pred) (v.toIndex next) hi12
      (by simp [edgeAt, hrawp]) (by simp [edgeAt, hrawn]) (List.range m.mate.length) List.nodup_range
      (by
        intro z _ hz1 hz2
        simp only [edgeAt]
        rw [hraw z]
        simp [Ne.symm hz1, Ne.symm hz2])
    rw [hc]
    have := hm.cntE
    rw [edges_eq, length_filterMap_eq_countP] at this
    simp only [e1, e2, List.mem_range, h1, h2, true_and, decide_eq_true_eq]
    have hn1 : (pairStep v m pred next).nEdges = m.nEdges + 1 := rfl
    rw [hn1, this]
    by_cases hh : v.toIndex pred < v.toIndex next
    · have : ¬ v.toIndex next < v.toIndex pred := by omega
      simp [hh, this]
    · have : v.toIndex next < v.toIndex pred := by omega
      simp [hh, this]
  · -- two more matched nodes
    have hc := countP_two (fun a => (m.mateOf v a).isSome)
      (fun a => ((pairStep v m pred next).mateOf v a).isSome) pred next hne
      (isSome_eq_false_of_none hpn) (isSome_eq_false_of_none hnn) v.g.nodes hnd
      (by
        intro z hz hz1 hz2
        rw [hmo z hz]; simp [hz1, hz2])
    rw [← List.countP_eq_length_filter, hc]
    have := hm.cntN
    rw [← List.countP_eq_length_filter] at this
    rw [hmo pred hp, hmo next hn]
    simp [hp, hn, hne, pairStep]
    omega

/-! ### `non_backtracking_dfs` walks a fresh path -/

/-- consecutive elements are neighbours in the view -/
def Chain (v : View) : List Nat → Prop
  | [] => True
  | [_] => True
  | a :: b :: r => b ∈ v.succ a ∧ Chain v (b :: r)

theorem Chain.tail {v : View} {a : Nat} {l : List Nat} (h : Chain v (a :: l)) : Chain v l := by
  cases l with
  | nil => trivial
  | cons b r => exact h.2

theorem nbDfs_spec (v : View) (hcl : ∀ a ∈ v.g.nodes, ∀ b ∈ v.succ a, b ∈ v.g.nodes) :
    ∀ (f source : Nat) (vis acc vis' out : List Nat), source ∈ v.g.nodes → vis.Nodup →
      (∀ x ∈ vis, x ∈ v.g.nodes) → v.g.nodes.length + 1 ≤ f + vis.length →
      nbDfs v f source vis acc = (vis', out) →
      ∃ calls, out = acc ++ calls ∧ Chain v (source :: calls) ∧ (source :: calls).Nodup ∧
        (calls ≠ [] → source ∉ vis) ∧ (∀ x ∈ calls, x ∉ vis ∧ x ∈ v.g.nodes) ∧
        vis'.Nodup ∧ (∀ x ∈ vis', x ∈ v.g.nodes) ∧ (∀ x ∈ vis, x ∈ vis') ∧ (∀ x ∈ calls, x ∈ vis') ∧
        source ∈ vis' := by
  intro f
  induction f with
  | zero =>
    intro source vis acc vis' out _ hn hsub hfuel _
    have := List.Nodup.length_le_of_subset hn (fun x hx => hsub x hx)
    omega
  | succ f ih =>
    intro source vis acc vis' out hsrc hn hsub hfuel h
    simp only [nbDfs] at h
    split at h
    · rename_i hc
      have hc' : source ∈ vis := by simpa using hc
      obtain ⟨rfl, rfl⟩ := Prod.mk.inj h
      exact ⟨[], by simp, trivial, by simp, by simp, by simp, hn, hsub, fun x hx => hx, by simp, hc'⟩
    · rename_i hc
      have hc' : source ∉ vis := by simpa using hc
      have hn1 : (source :: vis).Nodup := List.nodup_cons.mpr ⟨hc', hn⟩
      have hsub1 : ∀ x ∈ source :: vis, x ∈ v.g.nodes := by
        intro x hx
        cases List.mem_cons.mp hx with
        | inl h => exact h ▸ hsrc
        | inr h => exact hsub x h
      split at h
      · obtain ⟨rfl, rfl⟩ := Prod.mk.inj h
        exact ⟨[], by simp, trivial, by simp, by simp, by simp, hn1, hsub1,
          fun x hx => List.mem_cons_of_mem _ hx, by simp, List.mem_cons_self ..⟩
      · rename_i t ht
        have htm : t ∈ v.succ source := List.mem_of_find?_eq_some ht
        have htp := List.find?_some ht
        have htv : t ∉ source :: vis := by simpa using htp
        have htn : t ∈ v.g.nodes := hcl source hsrc t htm
        obtain ⟨calls, ho, hch, hnd, _, hfresh, hvn, hvs, hvsub, hcv, htv'⟩ :=
          ih t (source :: vis) (acc ++ [t]) vis' out htn hn1 hsub1 (by simp; omega) h
        refine ⟨t :: calls, by simp [ho], ⟨htm, hch⟩, ?_, fun _ => hc', ?_, hvn, hvs,
          fun x hx => hvsub x (List.mem_cons_of_mem _ hx), ?_, hvsub _ (List.mem_cons_self ..)⟩
        · refine List.nodup_cons.mpr ⟨?_, hnd⟩
          intro hmem
          cases List.mem_cons.mp hmem with
          | inl h => exact htv (h ▸ List.mem_cons_self ..)
          | inr h => exact (hfresh source h).1 (List.mem_cons_self ..)
        · intro x hx
          cases List.mem_cons.mp hx with
          | inl h => subst h; exact ⟨fun h' => htv (List.mem_cons_of_mem _ h'), htn⟩
          | inr h => exact ⟨fun h' => (hfresh x h).1 (List.mem_cons_of_mem _ h'), (hfresh x h).2⟩
        · intro x hx
          cases List.mem_cons.mp hx with
          | inl h => exact h ▸ htv'
          | inr h => exact hcv x h

/-! ### the visitor pairs up consecutive path nodes -/

def JoinedOK (v : View) (m : Matching) : Prop :=
  ∀ a ∈ v.g.nodes, ∀ b, m.mateOf v a = some b → Joined v.g a b

theorem joined_of_adj {g : MGraph} {a b : Nat} (h : g.Adj a b) (hne : a ≠ b) : Joined g a b := by
  obtain ⟨e, he, hh⟩ := h
  refine ⟨hne, e, he, ?_⟩
  rcases hh with h1 | ⟨_, h2, h3⟩
  · exact Or.inl h1
  · exact Or.inr ⟨h2, h3⟩

theorem joined_symm {g : MGraph} {a b : Nat} (h : Joined g a b) : Joined g b a := by
  obtain ⟨hne, e, he, hh⟩ := h
  exact ⟨fun h => hne h.symm, e, he, hh.symm⟩

theorem pairUp_nil (v : View) (last : Option Nat) (m : Matching) : pairUp v last [] m = m := by
  cases last <;> simp [pairUp]

theorem pairUp_none_cons (v : View) (next : Nat) (rest : List Nat) (m : Matching) :
    pairUp v none (next :: rest) m = pairUp v (some next) rest m := by
  simp [pairUp]

theorem pairUp_some_cons (v : View) (m : Matching) (pred next : Nat) (rest : List Nat)
    (h1 : v.toIndex pred < m.mate.length) (h2 : v.toIndex next < m.mate.length) (hf : m.fault = false) :
    pairUp v (some pred) (next :: rest) m = pairUp v none rest (pairStep v m pred next) := by
  simp [pairUp, setMate, h1, h2, pairStep, hf]

theorem pairUp_spec (v : View) (hix : IxOk v) (hnd : v.g.nodes.Nodup) (hs : ViewSound v) :
    ∀ (calls : List Nat) (last : Option Nat) (m : Matching), MWF v m → JoinedOK v m →
      (last.toList ++ calls).Nodup →
      (∀ x ∈ last.toList ++ calls, x ∈ v.g.nodes ∧ m.mateOf v x = none) →
      Chain v (last.toList ++ calls) →
      MWF v (pairUp v last calls m) ∧ JoinedOK v (pairUp v last calls m) ∧
      ∀ c ∈ v.g.nodes, c ∉ last.toList ++ calls → (pairUp v last calls m).mateOf v c = m.mateOf v c := by
  intro calls
  induction calls with
  | nil =>
    intro last m hm hj _ _ _
    rw [pairUp_nil]
    exact ⟨hm, hj, fun _ _ _ => rfl⟩
  | cons next rest ih =>
    intro last m hm hj hnodup hfresh hchain
    cases last with
    | none =>
      rw [pairUp_none_cons]
      exact ih (some next) m hm hj (by simpa using hnodup) (by simpa using hfresh) (by simpa using hchain)
    | some pred =>
      simp only [Option.toList_some, List.singleton_append] at hnodup hfresh hchain
      have hp := (hfresh pred (List.mem_cons_self ..)).1
      have hpn := (hfresh pred (List.mem_cons_self ..)).2
      have hn := (hfresh next (List.mem_cons_of_mem _ (List.mem_cons_self ..))).1
      have hnn := (hfresh next (List.mem_cons_of_mem _ (List.mem_cons_self ..))).2
      have hne : pred ≠ next := by
        intro h
        exact (List.nodup_cons.mp hnodup).1 (h ▸ List.mem_cons_self ..)
      have h1 : v.toIndex pred < m.mate.length := by rw [hm.len]; exact hix.lt _ hp
      have h2 : v.toIndex next < m.mate.length := by rw [hm.len]; exact hix.lt _ hn
      rw [pairUp_some_cons v m pred next rest h1 h2 hm.nofault]
      have hm1 := pairStep_MWF v hix hnd m hm pred next hp hn hne hpn hnn
      have hmo := pairStep_mateOf v hix m hm pred next hp hn
      have hadj : Joined v.g pred next := joined_of_adj (hs pred next hchain.1) hne
      have hj1 : JoinedOK v (pairStep v m pred next) := by
        intro a ha b hab
        rw [hmo a ha] at hab
        by_cases e1 : a = next
        · subst e1; simp at hab; subst hab; exact joined_symm hadj
        · by_cases e2 : a = pred
          · subst e2; simp [e1] at hab; subst hab; exact hadj
          · simp [e1, e2] at hab; exact hj a ha b hab
      have hnd' := (List.nodup_cons.mp (List.nodup_cons.mp hnodup).2)
      have hrest : ∀ x ∈ rest, x ≠ pred ∧ x ≠ next := by
        intro x hx
        constructor
        · intro h; exact (List.nodup_cons.mp hnodup).1 (h ▸ List.mem_cons_of_mem _ hx)
        · intro h; exact hnd'.1 (h ▸ hx)
      obtain ⟨r1, r2, r3⟩ := ih none (pairStep v m pred next) hm1 hj1 (by simpa using hnd'.2)
        (by
          intro x hx
          have hx' : x ∈ rest := by simpa using hx
          have hxn := (hfresh x (List.mem_cons_of_mem _ (List.mem_cons_of_mem _ hx'))).1
          refine ⟨hxn, ?_⟩
          rw [hmo x hxn]
          simp [(hrest x hx').1, (hrest x hx').2]
          exact (hfresh x (List.mem_cons_of_mem _ (List.mem_cons_of_mem _ hx'))).2)
        (by simpa using hchain.2.tail)
      refine ⟨r1, r2, ?_⟩
      intro c hc hcn
      simp only [Option.toList_some, List.singleton_append, List.mem_cons, not_or] at hcn
      rw [r3 c hc (by simpa using hcn.2.2), hmo c hc]
      simp [hcn.1, hcn.2.1]

/-! ### the loop over the start nodes -/

structure GInv (v : View) (vis : List Nat) (m : Matching) : Prop where
  wf : MWF v m
  joined : JoinedOK v m
  visNodup : vis.Nodup
  visSub : ∀ x ∈ vis, x ∈ v.g.nodes
  matchedVis : ∀ a ∈ v.g.nodes, (m.mateOf v a).isSome = true → a ∈ vis

theorem greedyLoop_spec (v : View) (hix : IxOk v) (hnd : v.g.nodes.Nodup) (hs : ViewSound v)
    (hcl : ∀ a ∈ v.g.nodes, ∀ b ∈ v.succ a, b ∈ v.g.nodes) :
    ∀ (starts vis : List Nat) (m : Matching), (∀ s ∈ starts, s ∈ v.g.nodes) → GInv v vis m →
      GInv v (greedyLoop v (greedyFuel v) starts vis m).1 (greedyLoop v (greedyFuel v) starts vis m).2 := by
  intro starts
  induction starts with
  | nil => intro vis m _ h; exact h
  | cons start rest ih =>
    intro vis m hst h
    simp only [greedyLoop]
    cases hr : nbDfs v (greedyFuel v) start vis [] with
    | mk vis' calls =>
      simp only []
      have hsn := hst start (List.mem_cons_self ..)
      obtain ⟨calls', ho, hch, hnodup, hsv, hfresh, hvn, hvs, hvsub, hcv, hsv'⟩ :=
        nbDfs_spec v hcl (greedyFuel v) start vis [] vis' calls hsn h.visNodup h.visSub
          (by unfold greedyFuel; omega) hr
      simp only [List.nil_append] at ho
      subst ho
      apply ih vis' _ (fun s hs' => hst s (List.mem_cons_of_mem _ hs'))
      cases hcalls : calls with
      | nil =>
        rw [pairUp_nil]
        exact ⟨h.wf, h.joined, hvn, hvs, fun a ha hsome => hvsub a (h.matchedVis a ha hsome)⟩
      | cons c cs =>
        rw [← hcalls]
        have hne : calls ≠ [] := by rw [hcalls]; simp
        have hunm : ∀ x ∈ (some start).toList ++ calls, x ∈ v.g.nodes ∧ m.mateOf v x = none := by
          intro x hx
          simp only [Option.toList_some, List.singleton_append, List.mem_cons] at hx
          have hxv : x ∉ vis ∧ x ∈ v.g.nodes := by
            cases hx with
            | inl h' => subst h'; exact ⟨hsv hne, hsn⟩
            | inr h' => exact hfresh x h'
          refine ⟨hxv.2, ?_⟩
          cases hmo : m.mateOf v x with
          | none => rfl
          | some y => exact absurd (h.matchedVis x hxv.2 (by simp [hmo])) hxv.1
        obtain ⟨r1, r2, r3⟩ := pairUp_spec v hix hnd hs calls (some start) m h.wf h.joined
          (by simpa using hnodup) hunm (by simpa using hch)
        refine ⟨r1, r2, hvn, hvs, ?_⟩
        intro a ha hsome
        by_cases hap : a ∈ (some start).toList ++ calls
        · simp only [Option.toList_some, List.singleton_append, List.mem_cons] at hap
          cases hap with
          | inl h' => exact h' ▸ hsv'
          | inr h' => exact hcv a h'
        · rw [r3 a ha hap] at hsome
          exact hvsub a (h.matchedVis a ha hsome)

theorem getM_replicate (n i : Nat) : getM (List.replicate n none) i = none := by
  unfold getM
  rw [List.getElem?_replicate]
  split <;> simp_all

theorem MWF_init (v : View) : MWF v { mate := List.replicate v.nb none } := by
  have hm : ∀ a, ({ mate := List.replicate v.nb none } : Matching).mateOf v a = none := by
    intro a; rw [mateOf_eq]; exact getM_replicate _ _
  refine ⟨by simp, rfl, ?_, ?_, ?_, ?_, ?_⟩
  · intro i x hx
    have := (getM_some_iff _ _ _).mpr hx
    rw [getM_replicate] at this; cases this
  · intro a _ b hab; rw [hm] at hab; cases hab
  · intro a _; rw [hm]; simp
  · rw [edges_eq, length_filterMap_eq_countP]
    have : ∀ cur, edgeAt v (List.replicate v.nb none) cur = none := by
      intro cur
      unfold edgeAt
      rw [List.getElem?_replicate]
      split <;> simp_all
    simp [this]
  · simp only [hm]
    induction v.g.nodes with
    | nil => rfl
    | cons a l ih => simpa [List.filter_cons] using ih

/-- the `mate` table of a model matching, as the list of its entries at live nodes -/
def mateTable (v : View) (m : Matching) : List (Nat × Nat) :=
  v.g.nodes.filterMap fun a => (m.mateOf v a).map fun b => (a, b)

theorem mem_mateTable (v : View) (m : Matching) (a b : Nat) :
    (a, b) ∈ mateTable v m ↔ a ∈ v.g.nodes ∧ m.mateOf v a = some b := by
  unfold mateTable
  simp only [List.mem_filterMap, Option.map_eq_some_iff, Prod.mk.injEq]
  constructor
  · rintro ⟨x, hx, y, hy, rfl, rfl⟩; exact ⟨hx, hy⟩
  · rintro ⟨ha, hb⟩; exact ⟨a, ha, b, hb, rfl, rfl⟩

theorem mateTable_keys_sublist (v : View) (m : Matching) :
    ((mateTable v m).map (·.1)).Sublist v.g.nodes := by
  unfold mateTable
  induction v.g.nodes with
  | nil => simp
  | cons a l ih =>
    rw [List.filterMap_cons]
    cases h : m.mateOf v a with
    | none => simp only [Option.map_none]; exact ih.cons _
    | some b => simp only [Option.map_some, List.map_cons]; exact ih.cons_cons _

/-- a well-formed model matching whose pairs are joined is a valid `mate` table -/
theorem mateValid_of_MWF (v : View) (hnd : v.g.nodes.Nodup) (m : Matching) (hm : MWF v m)
    (hj : JoinedOK v m) : MateValid v.g (mateTable v m) := by
  refine ⟨hnd.sublist (mateTable_keys_sublist v m), ?_, ?_⟩
  · intro a b hab
    obtain ⟨ha, hb⟩ := (mem_mateTable v m a b).mp hab
    exact (mem_mateTable v m b a).mpr ⟨hm.mate_mem hb, hm.symm a ha b hb⟩
  · intro a b hab
    obtain ⟨ha, hb⟩ := (mem_mateTable v m a b).mp hab
    exact hj a ha b hb

/-- **`greedy_matching` returns a valid matching**, for every view whose neighbour lists are sound
and whose index map is injective: no fault (no out-of-bounds access), well-formed `Matching`, and
its `mate` table is symmetric, functional, every pair joined by a non-loop edge -/
theorem greedy_valid (v : View) (hix : IxOk v) (hwf : v.g.WellFormed) (hs : ViewSound v) :
    MWF v (greedyInner v) ∧ MateValid v.g (mateTable v (greedyInner v)) := by
  have hcl : ∀ a ∈ v.g.nodes, ∀ b ∈ v.succ a, b ∈ v.g.nodes := by
    intro a _ b hb
    obtain ⟨e, he, hh⟩ := hs a b hb
    rcases hh with ⟨_, h2⟩ | ⟨_, h2, _⟩
    · exact h2 ▸ (hwf.2 e he).2
    · exact h2 ▸ (hwf.2 e he).1
  have hinit : GInv v [] { mate := List.replicate v.nb none } := by
    refine ⟨MWF_init v, ?_, List.nodup_nil, by simp, ?_⟩
    · intro a _ b hab
      rw [mateOf_eq, getM_replicate] at hab; cases hab
    · intro a _ h
      rw [mateOf_eq, getM_replicate] at h; cases h
  have h := greedyLoop_spec v hix hwf.1 hs hcl v.g.nodes [] _ (fun s hs' => hs') hinit
  exact ⟨h.wf, mateValid_of_MWF v hwf.1 _ h.wf h.joined⟩

/-! ### the accessors are consistent functions of `mate` -/

theorem raw_of_mateOf (v : View) (_hix : IxOk v) (m : Matching) (_hm : MWF v m) (a b : Nat)
    (h : m.mateOf v a = some b) : m.mate[v.toIndex a]? = some (some b) :=
  (getM_some_iff _ _ _).mp h

/-- `nodes()` lists exactly the live nodes that have a mate -/
theorem mem_nodes (v : View) (hix : IxOk v) (m : Matching) (hm : MWF v m) (a : Nat) :
    a ∈ m.nodes v ↔ a ∈ v.g.nodes ∧ (m.mateOf v a).isSome = true := by
  unfold Matching.nodes
  simp only [List.mem_filterMap, List.mem_range]
  constructor
  · rintro ⟨cur, hcur, h⟩
    split at h
    · rename_i x hx
      obtain ⟨_, a', ha', hia⟩ := hm.live cur x hx
      have : fromIndex v cur = a' := by rw [← hia]; exact hix.from_to a' ha'
      simp only [Option.some.injEq] at h
      rw [← h, this]
      refine ⟨ha', ?_⟩
      rw [mateOf_eq, hia]
      have := (getM_some_iff m.mate cur x).mpr hx
      simp [this]
    · cases h
  · rintro ⟨ha, hsome⟩
    obtain ⟨b, hb⟩ := Option.isSome_iff_exists.mp hsome
    refine ⟨v.toIndex a, by rw [hm.len]; exact hix.lt a ha, ?_⟩
    rw [raw_of_mateOf v hix m hm a b hb]
    simp [hix.from_to a ha]

/-- `edges()` lists exactly the pairs `(a, mate a)` with `to_index a < to_index (mate a)` -/
theorem mem_edges (v : View) (hix : IxOk v) (m : Matching) (hm : MWF v m) (a b : Nat) :
    (a, b) ∈ m.edges v ↔ a ∈ v.g.nodes ∧ m.mateOf v a = some b ∧ v.toIndex a < v.toIndex b := by
  rw [edges_eq]
  simp only [List.mem_filterMap, List.mem_range]
  constructor
  · rintro ⟨cur, hcur, h⟩
    unfold edgeAt at h
    split at h
    · rename_i x hx
      obtain ⟨_, a', ha', hia⟩ := hm.live cur x hx
      have hf : fromIndex v cur = a' := by rw [← hia]; exact hix.from_to a' ha'
      split at h
      · rename_i hgt
        simp only [Option.some.injEq, Prod.mk.injEq] at h
        obtain ⟨h1, h2⟩ := h
        rw [← h1, ← h2, hf]
        refine ⟨ha', ?_, by rw [hia]; exact hgt⟩
        rw [mateOf_eq, hia]
        exact (getM_some_iff m.mate cur x).mpr hx
      · cases h
    · cases h
  · rintro ⟨ha, hb, hlt⟩
    refine ⟨v.toIndex a, by rw [hm.len]; exact hix.lt a ha, ?_⟩
    unfold edgeAt
    rw [raw_of_mateOf v hix m hm a b hb]
    simp [hix.from_to a ha, hlt]

/-- every matched pair is reported by `edges()` (in one of the two orientations) -/
theorem edges_complete (v : View) (hix : IxOk v) (m : Matching) (hm : MWF v m) (a b : Nat)
    (ha : a ∈ v.g.nodes) (h : m.mateOf v a = some b) : (a, b) ∈ m.edges v ∨ (b, a) ∈ m.edges v := by
  have hb : b ∈ v.g.nodes := hm.mate_mem h
  have hba := hm.symm a ha b h
  have hne : a ≠ b := fun e => hm.irrefl a ha (e ▸ h)
  have hi : v.toIndex a ≠ v.toIndex b := fun e => hne (hix.inj a ha b hb e)
  by_cases hlt : v.toIndex a < v.toIndex b
  · exact Or.inl ((mem_edges v hix m hm a b).mpr ⟨ha, h, hlt⟩)
  · exact Or.inr ((mem_edges v hix m hm b a).mpr ⟨hb, hba, by omega⟩)

theorem filter_length_eq_iff {α : Type} (p : α → Bool) (l : List α) :
    (l.filter p).length = l.length ↔ ∀ a ∈ l, p a = true := by
  induction l with
  | nil => simp
  | cons a l ih =>
    have hle := List.length_filter_le p l
    by_cases hp : p a = true
    · simp [hp, ih]
    · have hp' : p a = false := by simpa using hp
      constructor
      · intro h; rw [List.filter_cons] at h; simp [hp'] at h; omega
      · intro h; exact absurd (h a (List.mem_cons_self ..)) hp

/-- `is_perfect()` says that every node of the graph is matched -/
theorem isPerfect_iff (v : View) (m : Matching) (hm : MWF v m) :
    m.isPerfect v = true ↔ ∀ a ∈ v.g.nodes, (m.mateOf v a).isSome = true := by
  rw [← filter_length_eq_iff, ← hm.cntN]
  unfold Matching.isPerfect
  simp only [Bool.and_eq_true, beq_iff_eq]
  omega

end PetgraphModel.C15P
