import PetgraphModel.Proofs.Graph
/-
Stage 2: `remove_edge` (unlink + swap_remove + relink of the moved edge), `remove_node`, `retain_*`
preserve the invariant.  Architecture of DESIGN Appendix D: **unlink** (a duplicate-free list
containing `e` becomes `l.erase e`, exactly one pointer is written) and **rename** (after
`swap_remove` the moved slot `L` is re-linked under its new index `e`: every list is mapped through
`L ↦ e`).
-/
namespace PetgraphModel.GProofs
open PetgraphModel PetgraphModel.G

/-! ### array level: unlink -/

theorem Edge.setNext_next (ed : Edge) (k : Bool) (v : Nat) : (ed.setNext k v).next k = v := by
  cases k <;> simp [Edge.setNext, Edge.next]

theorem Edge.setNext_next_ne (ed : Edge) (k : Bool) (v : Nat) : (ed.setNext k v).next (!k) = ed.next (!k) := by
  cases k <;> simp [Edge.setNext, Edge.next]

theorem Edge.setNext_node (ed : Edge) (k k' : Bool) (v : Nat) : (ed.setNext k v).node k' = ed.node k' := by
  cases k <;> cases k' <;> simp [Edge.setNext, Edge.node]

/-- **unlink**: the walk of `change_edge_links` on a duplicate-free list that contains `e` (not at its
head) writes exactly one pointer — the predecessor's — and the list becomes `l.erase e` -/
theorem relink_spec {edges : List Edge} {k : Bool} {endv e enext : Nat} (ed : Edge)
    (hed : edges[e]? = some ed) (hnext : ed.next k = enext) :
    ∀ (fuel h : Nat) (l : List Nat), IsList edges k endv h l → l.Nodup → e ∈ l → h ≠ e → l.length < fuel →
      ∃ p pd, p ∈ l ∧ p ≠ e ∧ edges[p]? = some pd ∧ pd.next k = e ∧
        relink edges k e enext fuel h = .ok (edges.set p (pd.setNext k enext)) ∧
        IsList (edges.set p (pd.setNext k enext)) k endv h (l.erase e) := by
  intro fuel
  induction fuel with
  | zero => intro h l _ _ _ _ hlen; omega
  | succ f ih =>
    intro h l hl hnd he hne hlen
    cases hl with
    | nil => cases he
    | @cons _ t hd hh htl =>
      have het : e ∈ t := by
        rcases List.mem_cons.mp he with h' | h'
        · exact absurd h'.symm hne
        · exact h'
      have hnd' := List.nodup_cons.mp hnd
      have herase : (h :: t).erase e = h :: t.erase e := by
        rw [List.erase_cons_tail]; simpa using hne
      have hhlt := lt_of_getElem? hh
      by_cases hnx : hd.next k = e
      · -- the head slot is the predecessor
        rw [hnx] at htl
        cases htl with
        | nil => cases het
        | @cons _ t' ed' he' htl' =>
          have : ed' = ed := by rw [hed] at he'; exact (Option.some.inj he').symm
          subst this
          rw [hnext] at htl'
          refine ⟨h, hd, List.mem_cons_self .., hne, hh, hnx, by simp [relink, hh, hnx], ?_⟩
          rw [herase]
          have herase2 : (e :: t').erase e = t' := by simp
          rw [herase2]
          have hnotin : h ∉ t' := fun hm => hnd'.1 (List.mem_cons_of_mem _ hm)
          refine IsList.cons (hd.setNext k enext) (by simp [List.getElem?_set, hhlt]) ?_
          rw [Edge.setNext_next]
          refine htl'.congr ?_
          intro x xd hx hxd
          have : h ≠ x := fun hxh => hnotin (hxh ▸ hx)
          exact ⟨xd, by simp [List.getElem?_set, this, hxd], rfl⟩
      · obtain ⟨p, pd, hp, hpe, hpd, hpn, hr, hres⟩ :=
          ih (hd.next k) t htl hnd'.2 het hnx (by simp at hlen; omega)
        have hph : h ≠ p := fun hhp => hnd'.1 (hhp ▸ hp)
        refine ⟨p, pd, List.mem_cons_of_mem _ hp, hpe, hpd, hpn, by simp [relink, hh, hnx, hr], ?_⟩
        rw [herase]
        refine IsList.cons hd (by simp [List.getElem?_set, hph.symm, hh]) hres

/-! ### state level: the invariant with an edge unlinked -/

/-- `Inv`, except that the edge `ex k` (if any) is in no direction-`k` list -/
structure InvEx (s : State) (ex : Bool → Option Nat) : Prop where
  szN : s.nodes.length ≤ s.endv
  szE : s.edges.length ≤ s.endv
  ends : ∀ (e : Nat) (ed : Edge), s.edges[e]? = some ed → ed.src < s.nodes.length ∧ ed.tgt < s.nodes.length
  lists : ∃ adj : Bool → Nat → List Nat,
    (∀ k i nd, s.nodes[i]? = some nd → IsList s.edges k s.endv (nd.next k) (adj k i)) ∧
    (∀ k i, (adj k i).Nodup) ∧
    (∀ k i x, x ∈ adj k i ↔ ex k ≠ some x ∧ ∃ xd, s.edges[x]? = some xd ∧ xd.node k = i)

theorem invEx_of_inv {s : State} (h : Inv s) : InvEx s (fun _ => none) := by
  obtain ⟨adj, hl, hn, hm⟩ := h.lists
  exact ⟨h.szN, h.szE, h.ends, adj, hl, hn, fun k i x => by rw [hm k i x]; simp⟩

theorem inv_of_invEx {s : State} (h : InvEx s (fun _ => none)) : Inv s := by
  obtain ⟨adj, hl, hn, hm⟩ := h.lists
  exact ⟨h.szN, h.szE, h.ends, adj, hl, hn, fun k i x => by rw [hm k i x]; simp⟩

def edgeEnds (e : Edge) : Nat × Nat × Nat := (e.src, e.tgt, e.weight)

/-- the (src, tgt, weight) content of `s'` equals that of `s`, slot by slot, and nodes keep weights -/
structure SameContent (s s' : State) : Prop where
  endv : s'.endv = s.endv
  directed : s'.directed = s.directed
  nodes : s'.nodes.map (·.weight) = s.nodes.map (·.weight)
  edges : s'.edges.map edgeEnds = s.edges.map edgeEnds

theorem SameContent.refl (s : State) : SameContent s s := ⟨rfl, rfl, rfl, rfl⟩
theorem SameContent.trans {a b c : State} (h1 : SameContent a b) (h2 : SameContent b c) : SameContent a c :=
  ⟨h2.endv.trans h1.endv, h2.directed.trans h1.directed, h2.nodes.trans h1.nodes, h2.edges.trans h1.edges⟩

theorem SameContent.nlen {s s' : State} (h : SameContent s s') : s'.nodes.length = s.nodes.length := by
  simpa using congrArg List.length h.nodes
theorem SameContent.elen {s s' : State} (h : SameContent s s') : s'.edges.length = s.edges.length := by
  simpa using congrArg List.length h.edges

theorem SameContent.incident {s s' : State} (h : SameContent s s') (k : Bool) (i x : Nat) :
    (∃ xd, s'.edges[x]? = some xd ∧ xd.node k = i) ↔ (∃ xd, s.edges[x]? = some xd ∧ xd.node k = i) := by
  constructor
  · rintro ⟨xd', hx', hk⟩
    obtain ⟨xd, hx, hf⟩ := map_eq_getElem? h.edges x hx'
    simp only [edgeEnds, Prod.mk.injEq] at hf
    exact ⟨xd, hx, by cases k <;> simp [Edge.node, ← hf.1, ← hf.2.1] at hk ⊢ <;> exact hk⟩
  · rintro ⟨xd, hx, hk⟩
    obtain ⟨xd', hx', hf⟩ := map_eq_getElem? h.edges.symm x hx
    simp only [edgeEnds, Prod.mk.injEq] at hf
    exact ⟨xd', hx', by cases k <;> simp [Edge.node, ← hf.1, ← hf.2.1] at hk ⊢ <;> exact hk⟩

/-- assembling `InvEx` for a state with the same content -/
theorem invEx_transfer {s s' : State} {ex ex' : Bool → Option Nat} (h : InvEx s ex) (hc : SameContent s s')
    (adj' : Bool → Nat → List Nat)
    (hl : ∀ k i nd, s'.nodes[i]? = some nd → IsList s'.edges k s'.endv (nd.next k) (adj' k i))
    (hn : ∀ k i, (adj' k i).Nodup)
    (hm : ∀ k i x, x ∈ adj' k i ↔ ex' k ≠ some x ∧ ∃ xd, s.edges[x]? = some xd ∧ xd.node k = i) :
    InvEx s' ex' := by
  refine ⟨by rw [hc.nlen, hc.endv]; exact h.szN, by rw [hc.elen, hc.endv]; exact h.szE, ?_, adj', hl, hn, ?_⟩
  · intro e ed' he'
    obtain ⟨ed, he, hf⟩ := map_eq_getElem? hc.edges e he'
    simp only [edgeEnds, Prod.mk.injEq] at hf
    have := h.ends e ed he
    rw [hc.nlen, hf.1, hf.2.1]; exact this
  · intro k i x
    rw [hm k i x, hc.incident k i x]

theorem Node.setNext_next (nd : Node) (k : Bool) (v : Nat) : (nd.setNext k v).next k = v := by
  cases k <;> simp [Node.setNext, Node.next]
theorem Node.setNext_next_ne (nd : Node) (k : Bool) (v : Nat) : (nd.setNext k v).next (!k) = nd.next (!k) := by
  cases k <;> simp [Node.setNext, Node.next]
theorem Node.setNext_weight (nd : Node) (k : Bool) (v : Nat) : (nd.setNext k v).weight = nd.weight := by
  cases k <;> simp [Node.setNext]
theorem Edge.setNext_ends (ed : Edge) (k : Bool) (v : Nat) : edgeEnds (ed.setNext k v) = edgeEnds ed := by
  cases k <;> simp [Edge.setNext, edgeEnds]

theorem bool_ne_not {k k' : Bool} (h : k' ≠ k) : k' = !k := by cases k <;> cases k' <;> simp at h ⊢

/-- **unlink, one direction**: `change_edge_links`'s direction-`k` half, called for edge `e` with
its own `next[k]`, removes `e` from the direction-`k` list of its endpoint and touches nothing else -/
theorem unlink1 {s : State} {ex : Bool → Option Nat} {k : Bool} {e : Nat} {ed : Edge}
    (h : InvEx s ex) (hex : ex k = none) (hed : s.edges[e]? = some ed) :
    ∃ s', changeLinks1 s k (ed.node k) e (ed.next k) = .ok s' ∧
      InvEx s' (fun k' => if k' = k then some e else ex k') ∧ SameContent s s' ∧ s'.edges[e]? = some ed := by
  obtain ⟨adj, hl, hn, hm⟩ := h.lists
  have hu : ed.node k < s.nodes.length := by
    have := h.ends e ed hed; cases k <;> simp [Edge.node] <;> omega
  have hnd := List.getElem?_eq_getElem hu
  have hmem : e ∈ adj k (ed.node k) := (hm k _ e).mpr ⟨by rw [hex]; simp, ed, hed, rfl⟩
  have hlist := hl k _ _ hnd
  -- the new ghost lists
  let adj' : Bool → Nat → List Nat := fun k' i => if k' = k then (adj k' i).erase e else adj k' i
  have hn' : ∀ k' i, (adj' k' i).Nodup := by
    intro k' i; simp only [adj']; split
    · exact (hn k' i).erase e
    · exact hn k' i
  have hm' : ∀ k' i x, x ∈ adj' k' i ↔ (if k' = k then some e else ex k') ≠ some x ∧
      ∃ xd, s.edges[x]? = some xd ∧ xd.node k' = i := by
    intro k' i x
    simp only [adj']
    by_cases hk : k' = k
    · subst hk
      simp only [if_true]
      rw [(hn k' i).mem_erase_iff, hm k' i x, hex]
      simp only [ne_eq, Option.some.injEq, reduceCtorEq, not_false_eq_true, true_and]
      constructor
      · rintro ⟨h1, h2⟩; exact ⟨fun h' => h1 h'.symm, h2⟩
      · rintro ⟨h1, h2⟩; exact ⟨fun h' => h1 h'.symm, h2⟩
    · simp only [hk, if_false]
      exact hm k' i x
  unfold changeLinks1
  rw [hnd]
  by_cases hhead : (s.nodes[ed.node k]).next k = e
  · -- `e` is the head
    simp only [hhead, if_true]
    let s' : State := { s with nodes := s.nodes.set (ed.node k) ((s.nodes[ed.node k]).setNext k (ed.next k)) }
    have hc : SameContent s s' := ⟨rfl, rfl, by
      apply map_set_same (fun (n : Node) => n.weight) _ _ _ _ hnd
      exact Node.setNext_weight _ _ _, rfl⟩
    refine ⟨s', rfl, invEx_transfer h hc adj' ?_ hn' hm', hc, hed⟩
    intro k' i nd' hi
    simp only [s', List.getElem?_set] at hi
    rw [hhead] at hlist
    generalize hadj : adj k (ed.node k) = l at hlist hmem
    cases hlist with
    | nil => cases hmem
    | @cons _ t ed' he' htl =>
      have : ed' = ed := by rw [hed] at he'; exact (Option.some.inj he').symm
      subst this
      by_cases hiu : ed'.node k = i
      · subst hiu
        simp only [if_true, hu] at hi
        cases hi
        by_cases hk : k' = k
        · subst hk
          simp only [adj', if_true, Node.setNext_next, hadj]
          simpa using htl
        · have hk' := bool_ne_not hk
          subst hk'
          simp only [adj', hk, if_false, Node.setNext_next_ne]
          exact hl _ _ _ hnd
      · simp only [hiu, if_false] at hi
        by_cases hk : k' = k
        · subst hk
          have hnot : e ∉ adj k' i := by
            intro hmem'
            obtain ⟨_, xd, hxd, hxk⟩ := (hm k' i e).mp hmem'
            rw [hed] at hxd; cases hxd; exact hiu hxk
          simp only [adj', if_true, List.erase_of_not_mem hnot]
          exact hl _ _ _ hi
        · simp only [adj', hk, if_false]
          exact hl _ _ _ hi
  · -- walk to the predecessor
    simp only [hhead, if_false]
    have hlen : (adj k (ed.node k)).length < s.fuel := by
      have : (adj k (ed.node k)).length ≤ s.edges.length :=
        nodup_length_le (hn k _) (fun x hx => by
          obtain ⟨_, xd, hxd, _⟩ := (hm k _ x).mp hx; exact lt_of_getElem? hxd)
      simp [State.fuel]; omega
    obtain ⟨p, pd, hp, hpe, hpd, hpn, hr, hres⟩ :=
      relink_spec (endv := s.endv) ed hed rfl s.fuel _ _ hlist (hn k _) hmem hhead hlen
    rw [hr]
    let s' : State := { s with edges := s.edges.set p (pd.setNext k (ed.next k)) }
    have hc : SameContent s s' := ⟨rfl, rfl, rfl, by
      apply map_set_same edgeEnds _ _ _ _ hpd
      exact Edge.setNext_ends _ _ _⟩
    have hpk : pd.node k = ed.node k := by
      obtain ⟨_, xd, hxd, hxk⟩ := (hm k _ p).mp hp
      rw [hpd] at hxd; cases hxd; exact hxk
    refine ⟨s', rfl, invEx_transfer h hc adj' ?_ hn' hm', hc, ?_⟩
    · intro k' i nd' hi
      have hi' : s.nodes[i]? = some nd' := hi
      by_cases hk : k' = k
      · subst hk
        simp only [adj', if_true]
        by_cases hiu : ed.node k' = i
        · subst hiu
          rw [hnd] at hi'; cases hi'
          exact hres
        · have hnot : e ∉ adj k' i := by
            intro hmem'
            obtain ⟨_, xd, hxd, hxk⟩ := (hm k' i e).mp hmem'
            rw [hed] at hxd; cases hxd; exact hiu hxk
          rw [List.erase_of_not_mem hnot]
          refine (hl _ _ _ hi').congr ?_
          intro x xd hx hxd
          have hxp : p ≠ x := by
            intro hpx; subst hpx
            obtain ⟨_, xd', hxd', hxk⟩ := (hm k' i p).mp hx
            rw [hpd] at hxd'; cases hxd'
            exact hiu (hpk ▸ hxk)
          exact ⟨xd, by simp [s', List.getElem?_set, hxp, hxd], rfl⟩
      · have hk' := bool_ne_not hk
        subst hk'
        simp only [adj', hk, if_false]
        refine (hl _ _ _ hi').congr ?_
        intro x xd hx hxd
        by_cases hxp : p = x
        · subst hxp
          rw [hpd] at hxd; cases hxd
          exact ⟨pd.setNext k (ed.next k), by simp [s', List.getElem?_set, lt_of_getElem? hpd], Edge.setNext_next_ne _ _ _⟩
        · exact ⟨xd, by simp [s', List.getElem?_set, hxp, hxd], rfl⟩
    · simp [s', List.getElem?_set, hpe, hed]

/-- both directions: after `change_edge_links(edge.node, e, edge.next)` the edge `e` is in no list -/
theorem unlink_both {s : State} {e : Nat} {ed : Edge} (h : Inv s) (hed : s.edges[e]? = some ed) :
    ∃ sb, changeEdgeLinks s ed.src ed.tgt e ed.next0 ed.next1 = .ok sb ∧
      InvEx sb (fun _ => some e) ∧ SameContent s sb ∧ sb.edges[e]? = some ed := by
  obtain ⟨s1, h1, hi1, hc1, hed1⟩ := unlink1 (k := false) (invEx_of_inv h) rfl hed
  obtain ⟨s2, h2, hi2, hc2, hed2⟩ := unlink1 (k := true) hi1 (by simp) hed1
  simp only [Edge.node, Edge.next, Bool.false_eq_true, if_false] at h1
  simp only [Edge.node, Edge.next, if_true] at h2
  refine ⟨s2, by simp [changeEdgeLinks, h1, h2], ?_, hc1.trans hc2, hed2⟩
  have : (fun k' => if k' = true then some e else if k' = false then some e else none) = fun _ => some e := by
    funext k'; cases k' <;> simp
  rw [← this]; exact hi2

/-! ### array level: rename -/

/-- the renumbering caused by `swap_remove(e)`: the last index `L` becomes `e` -/
def ren (L e x : Nat) : Nat := if x = L then e else x

theorem map_ren_of_not_mem {L e : Nat} {l : List Nat} (h : L ∉ l) : l.map (ren L e) = l := by
  conv => rhs; rw [← List.map_id l]
  apply List.map_congr_left
  intro x hx
  have : x ≠ L := fun hxl => h (hxl ▸ hx)
  simp [ren, this]

/-- **rename**: in the array after `swap_remove` (`es`: slot `e` now holds the old last slot, slot `L`
is gone, every other slot keeps its `next[k]`), the walk of `change_edge_links(_, L, [e, e])` over a
list that contained `L` (not at its head) rewrites the predecessor's pointer and the list becomes
`l.map (L ↦ e)` -/
theorem relink_rename {edges es : List Edge} {k : Bool} {endv L e : Nat}
    (hag : ∀ (x : Nat) (xd : Edge), x ≠ L → x ≠ e → edges[x]? = some xd → ∃ xd', es[x]? = some xd' ∧ xd'.next k = xd.next k)
    (ld ld' : Edge) (hL : edges[L]? = some ld) (hese : es[e]? = some ld') (hldn : ld'.next k = ld.next k) :
    ∀ (fuel h : Nat) (l : List Nat), IsList edges k endv h l → l.Nodup → e ∉ l → L ∈ l → h ≠ L → l.length < fuel →
      ∃ p pd, p ∈ l ∧ p ≠ L ∧ p ≠ e ∧ es[p]? = some pd ∧
        relink es k L e fuel h = .ok (es.set p (pd.setNext k e)) ∧
        IsList (es.set p (pd.setNext k e)) k endv h (l.map (ren L e)) := by
  intro fuel
  induction fuel with
  | zero => intro h l _ _ _ _ _ hlen; omega
  | succ f ih =>
    intro h l hl hnd hne hLm hhL hlen
    cases hl with
    | nil => cases hLm
    | @cons _ t hd hh htl =>
      have hLt : L ∈ t := by
        rcases List.mem_cons.mp hLm with h' | h'
        · exact absurd h'.symm hhL
        · exact h'
      have hnd' := List.nodup_cons.mp hnd
      have hhe : h ≠ e := fun hhe => hne (hhe ▸ List.mem_cons_self ..)
      have het : e ∉ t := fun hm => hne (List.mem_cons_of_mem _ hm)
      obtain ⟨hd', hh', hhn⟩ := hag h hd hhL hhe hh
      have hhlt := lt_of_getElem? hh'
      have hrenh : ren L e h = h := by simp [ren, hhL]
      by_cases hnx : hd.next k = L
      · rw [hnx] at htl
        cases htl with
        | nil => cases hLt
        | @cons _ t' ld0 hL0 htl' =>
          have : ld0 = ld := by rw [hL] at hL0; exact (Option.some.inj hL0).symm
          subst this
          have hnd'' := List.nodup_cons.mp hnd'.2
          have hLt' : L ∉ t' := hnd''.1
          have het' : e ∉ t' := fun hm => het (List.mem_cons_of_mem _ hm)
          have hht' : h ∉ t' := fun hm => hnd'.1 (List.mem_cons_of_mem _ hm)
          refine ⟨h, hd', List.mem_cons_self .., hhL, hhe, hh', by simp [relink, hh', hhn, hnx], ?_⟩
          simp only [List.map_cons, hrenh]
          have hrenL : ren L e L = e := by simp [ren]
          rw [hrenL, map_ren_of_not_mem hLt']
          refine IsList.cons (hd'.setNext k e) (by simp [List.getElem?_set, hhlt]) ?_
          rw [Edge.setNext_next]
          refine IsList.cons ld' (by simp [List.getElem?_set, hhe, hese]) ?_
          rw [hldn]
          refine htl'.congr ?_
          intro x xd hx hxd
          have hxL : x ≠ L := fun hxl => hLt' (hxl ▸ hx)
          have hxe : x ≠ e := fun hxe => het' (hxe ▸ hx)
          have hxh : h ≠ x := fun hxh => hht' (hxh ▸ hx)
          obtain ⟨xd', hxd', hxn⟩ := hag x xd hxL hxe hxd
          exact ⟨xd', by simp [List.getElem?_set, hxh, hxd'], hxn⟩
      · obtain ⟨p, pd, hp, hpL, hpe, hpd, hr, hres⟩ :=
          ih (hd.next k) t htl hnd'.2 het hLt hnx (by simp at hlen; omega)
        have hph : h ≠ p := fun hhp => hnd'.1 (hhp ▸ hp)
        have hnx' : ¬ hd'.next k = L := by rw [hhn]; exact hnx
        refine ⟨p, pd, List.mem_cons_of_mem _ hp, hpL, hpe, hpd, by simp [relink, hh', hhn, hnx, hr], ?_⟩
        simp only [List.map_cons, hrenh]
        refine IsList.cons hd' (by simp [List.getElem?_set, hph.symm, hh']) ?_
        rw [hhn]; exact hres

/-! ### state level: rename -/

theorem swapRemove_length {α : Type} (l : List α) (i : Nat) (hi : i < l.length) :
    (swapRemove l i).length = l.length - 1 := by
  unfold swapRemove
  cases hl : l.getLast? with
  | none =>
    have : l = [] := by simpa using hl
    subst this; simp at hi
  | some last => simp

theorem swapRemove_get {α : Type} (l : List α) (i : Nat) (hi : i < l.length) (x : Nat) :
    (swapRemove l i)[x]? = if x < l.length - 1 then (if x = i then l[l.length - 1]? else l[x]?) else none := by
  unfold swapRemove
  cases hl : l.getLast? with
  | none =>
    have : l = [] := by simpa using hl
    subst this; simp at hi
  | some last =>
    have hlast : l[l.length - 1]? = some last := by rw [← List.getLast?_eq_getElem?]; exact hl
    simp only [List.getElem?_dropLast, List.length_set]
    split
    · rename_i hx
      rw [List.getElem?_set]
      by_cases hxi : x = i
      · subst hxi; simp [hi, hlast]
      · have : ¬ i = x := fun h => hxi h.symm
        simp [this, hxi]
    · rfl

/-- facts about the state `sb` in which `e` has been unlinked and `L = m - 1 ≠ e` is about to move -/
structure RenCtx (sb : State) (adj' : Bool → Nat → List Nat) (e L : Nat) (ld : Edge) : Prop where
  szN : sb.nodes.length ≤ sb.endv
  szE : L + 1 ≤ sb.endv
  elen : sb.edges.length = L + 1
  he : e < L
  hL : sb.edges[L]? = some ld
  ends : ∀ (x : Nat) (xd : Edge), sb.edges[x]? = some xd → xd.src < sb.nodes.length ∧ xd.tgt < sb.nodes.length
  hl : ∀ (k : Bool) (i : Nat) (nd : Node), sb.nodes[i]? = some nd → IsList sb.edges k sb.endv (nd.next k) (adj' k i)
  hn : ∀ k i, (adj' k i).Nodup
  hm : ∀ (k : Bool) (i x : Nat), x ∈ adj' k i ↔ x ≠ e ∧ ∃ xd : Edge, sb.edges[x]? = some xd ∧ xd.node k = i

/-- status of direction `k` in an intermediate state `t` of `remove_edge_adjust_indices`:
`b = true`: already renamed; `b = false`: pointers still as in `sb` (slot `e` holds the moved edge) -/
def DirOk (sb : State) (adj' : Bool → Nat → List Nat) (e L : Nat) (ld : Edge) (t : State) (k : Bool) (b : Bool) : Prop :=
  if b then
    ∀ (i : Nat) (nd' : Node), t.nodes[i]? = some nd' → IsList t.edges k t.endv (nd'.next k) ((adj' k i).map (ren L e))
  else
    (∀ (i : Nat) (nd' : Node), t.nodes[i]? = some nd' → ∃ nd : Node, sb.nodes[i]? = some nd ∧ nd'.next k = nd.next k) ∧
    (∃ ld', t.edges[e]? = some ld' ∧ ld'.next k = ld.next k) ∧
    (∀ (x : Nat) (xd : Edge), x ≠ L → x ≠ e → sb.edges[x]? = some xd → ∃ xd', t.edges[x]? = some xd' ∧ xd'.next k = xd.next k)

structure Mid (sb : State) (adj' : Bool → Nat → List Nat) (e L : Nat) (ld : Edge) (t : State) (done : Bool → Bool) : Prop where
  endv : t.endv = sb.endv
  directed : t.directed = sb.directed
  nodesW : t.nodes.map (·.weight) = sb.nodes.map (·.weight)
  elen : t.edges.length = L
  cont : ∀ x, x < L → (t.edges[x]?).map edgeEnds = (sb.edges[if x = e then L else x]?).map edgeEnds
  dirs : ∀ k, DirOk sb adj' e L ld t k (done k)

/-- a direction's status survives a change that leaves that direction's pointers alone -/
theorem dirOk_preserved {sb : State} {adj' : Bool → Nat → List Nat} {e L : Nat} {ld : Edge} {t t' : State} {k' b : Bool}
    (h : DirOk sb adj' e L ld t k' b) (hendv : t'.endv = t.endv)
    (hN : ∀ (i : Nat) (nd'' : Node), t'.nodes[i]? = some nd'' → ∃ nd' : Node, t.nodes[i]? = some nd' ∧ nd''.next k' = nd'.next k')
    (hE : ∀ (x : Nat) (xd : Edge), t.edges[x]? = some xd → ∃ xd'', t'.edges[x]? = some xd'' ∧ xd''.next k' = xd.next k') :
    DirOk sb adj' e L ld t' k' b := by
  unfold DirOk at h ⊢
  cases b with
  | true =>
    simp only [if_true] at h ⊢
    intro i nd'' hi
    obtain ⟨nd', hnd', hnx⟩ := hN i nd'' hi
    rw [hnx, hendv]
    exact (h i nd' hnd').congr (fun x xd _ hxd => hE x xd hxd)
  | false =>
    simp only [Bool.false_eq_true, if_false] at h ⊢
    obtain ⟨h1, ⟨ld', hld', hldn⟩, h3⟩ := h
    refine ⟨?_, ?_, ?_⟩
    · intro i nd'' hi
      obtain ⟨nd', hnd', hnx⟩ := hN i nd'' hi
      obtain ⟨nd, hnd, hnx2⟩ := h1 i nd' hnd'
      exact ⟨nd, hnd, hnx.trans hnx2⟩
    · obtain ⟨x'', hx'', hn''⟩ := hE e ld' hld'
      exact ⟨x'', hx'', hn''.trans hldn⟩
    · intro x xd hxL hxe hxd
      obtain ⟨xd', hxd', hn'⟩ := h3 x xd hxL hxe hxd
      obtain ⟨x'', hx'', hn''⟩ := hE x xd' hxd'
      exact ⟨x'', hx'', hn''.trans hn'⟩

theorem RenCtx.len_lt {sb : State} {adj' : Bool → Nat → List Nat} {e L : Nat} {ld : Edge}
    (c : RenCtx sb adj' e L ld) (k : Bool) (i : Nat) : (adj' k i).length < L + 1 := by
  have hnd : (e :: adj' k i).Nodup := List.nodup_cons.mpr ⟨fun hm => ((c.hm k i e).mp hm).1 rfl, c.hn k i⟩
  have hlt : ∀ x ∈ e :: adj' k i, x < L + 1 := by
    intro x hx
    rcases List.mem_cons.mp hx with rfl | hx
    · have := c.he; omega
    · obtain ⟨_, xd, hxd, _⟩ := (c.hm k i x).mp hx
      have := lt_of_getElem? hxd; rw [c.elen] at this; exact this
  have := nodup_length_le hnd hlt
  simp at this; omega

theorem RenCtx.transfer {sb : State} {adj' : Bool → Nat → List Nat} {e L : Nat} {ld : Edge} {k : Bool}
    (c : RenCtx sb adj' e L ld) {es : List Edge}
    (hag : ∀ (x : Nat) (xd : Edge), x ≠ L → x ≠ e → sb.edges[x]? = some xd → ∃ xd', es[x]? = some xd' ∧ xd'.next k = xd.next k)
    {h : Nat} {l : List Nat} (hl : IsList sb.edges k sb.endv h l) (hL : L ∉ l) (he : e ∉ l) :
    IsList es k sb.endv h l :=
  hl.congr (fun x xd hx hxd =>
    hag x xd (fun hxl => hL (hxl ▸ hx)) (fun hxe => he (hxe ▸ hx)) hxd)

/-- **rename, one direction**: `change_edge_links(moved.node, L, [e, e])`, direction `k` -/
theorem rename1 {sb : State} {adj' : Bool → Nat → List Nat} {e L : Nat} {ld : Edge} {t : State}
    {done : Bool → Bool} {k : Bool} (c : RenCtx sb adj' e L ld) (hmid : Mid sb adj' e L ld t done)
    (hk : done k = false) :
    ∃ t', changeLinks1 t k (ld.node k) L e = .ok t' ∧
      Mid sb adj' e L ld t' (fun k' => if k' = k then true else done k') := by
  have hdk := hmid.dirs k
  unfold DirOk at hdk
  simp only [hk, Bool.false_eq_true, if_false] at hdk
  obtain ⟨hheads, ⟨ld', hlde, hldn⟩, hag⟩ := hdk
  have hnl : t.nodes.length = sb.nodes.length := by simpa using congrArg List.length hmid.nodesW
  have hw : ld.node k < sb.nodes.length := by
    have := c.ends L ld c.hL; cases k <;> simp [Edge.node] <;> omega
  have hwt : ld.node k < t.nodes.length := by omega
  have hndt := List.getElem?_eq_getElem hwt
  obtain ⟨nd, hnd, hnx⟩ := hheads _ _ hndt
  have hlst := c.hl k _ nd hnd
  have hLmem : L ∈ adj' k (ld.node k) := (c.hm k _ L).mpr ⟨by have := c.he; omega, ld, c.hL, rfl⟩
  have hemem : e ∉ adj' k (ld.node k) := fun hm => ((c.hm k _ e).mp hm).1 rfl
  have hLnot : ∀ i, i ≠ ld.node k → L ∉ adj' k i := by
    intro i hi hm
    obtain ⟨_, xd, hxd, hxk⟩ := (c.hm k i L).mp hm
    rw [c.hL] at hxd; cases hxd; exact hi hxk.symm
  have henot : ∀ k' i, e ∉ adj' k' i := fun k' i hm => ((c.hm k' i e).mp hm).1 rfl
  -- the other direction keeps its status
  have hother : ∀ (t' : State), t'.endv = t.endv →
      (∀ (k' : Bool), k' ≠ k → ∀ (i : Nat) (nd'' : Node), t'.nodes[i]? = some nd'' →
        ∃ nd' : Node, t.nodes[i]? = some nd' ∧ nd''.next k' = nd'.next k') →
      (∀ (k' : Bool), k' ≠ k → ∀ (x : Nat) (xd : Edge), t.edges[x]? = some xd →
        ∃ xd'', t'.edges[x]? = some xd'' ∧ xd''.next k' = xd.next k') →
      ∀ k', k' ≠ k → DirOk sb adj' e L ld t' k' (done k') := by
    intro t' hendv hN hE k' hk'
    exact dirOk_preserved (hmid.dirs k') hendv (hN k' hk') (hE k' hk')
  unfold changeLinks1
  rw [hndt]
  by_cases hhead : (t.nodes[ld.node k]).next k = L
  · -- the moved edge is the head of its list
    simp only [hhead, if_true]
    let t' : State := { t with nodes := t.nodes.set (ld.node k) ((t.nodes[ld.node k]).setNext k e) }
    refine ⟨t', rfl, ?_⟩
    have hNodes : ∀ (i : Nat) (nd'' : Node), t'.nodes[i]? = some nd'' →
        (i = ld.node k ∧ nd'' = (t.nodes[ld.node k]).setNext k e) ∨ (i ≠ ld.node k ∧ t.nodes[i]? = some nd'') := by
      intro i nd'' hi
      simp only [t', List.getElem?_set] at hi
      by_cases hiw : ld.node k = i
      · subst hiw; simp [hwt] at hi; exact Or.inl ⟨rfl, hi.symm⟩
      · simp [hiw] at hi; exact Or.inr ⟨fun h => hiw h.symm, hi⟩
    refine ⟨hmid.endv, hmid.directed, ?_, hmid.elen, hmid.cont, ?_⟩
    · rw [← hmid.nodesW]
      exact map_set_same (fun (n : Node) => n.weight) _ _ _ _ hndt (Node.setNext_weight _ _ _)
    · intro k'
      by_cases hkk : k' = k
      · subst hkk
        simp only [if_true, DirOk]
        intro i nd'' hi
        rw [show t'.endv = sb.endv from hmid.endv]
        rcases hNodes i nd'' hi with ⟨rfl, rfl⟩ | ⟨hiw, hi'⟩
        · rw [Node.setNext_next]
          rw [← hnx, hhead] at hlst
          generalize hadj : adj' k' (ld.node k') = lst at hlst hLmem hemem
          cases hlst with
          | nil => cases hLmem
          | @cons _ tl ld0 hL0 htl =>
            have : ld0 = ld := by rw [c.hL] at hL0; exact (Option.some.inj hL0).symm
            subst this
            have hnd' := List.nodup_cons.mp (hadj ▸ c.hn k' (ld0.node k'))
            have hetl : e ∉ tl := fun hm => hemem (List.mem_cons_of_mem _ hm)
            have hrenL : ren L e L = e := by simp [ren]
            rw [List.map_cons, hrenL, map_ren_of_not_mem hnd'.1]
            refine IsList.cons ld' hlde ?_
            rw [hldn]
            exact c.transfer hag htl hnd'.1 hetl
        · obtain ⟨nd0, hnd0, hnx0⟩ := hheads i nd'' hi'
          rw [hnx0, map_ren_of_not_mem (hLnot i hiw)]
          exact c.transfer hag (c.hl k' i nd0 hnd0) (hLnot i hiw) (henot k' i)
      · simp only [hkk, if_false]
        refine hother t' rfl ?_ ?_ k' hkk
        · intro k'' hk'' i nd'' hi
          rcases hNodes i nd'' hi with ⟨rfl, rfl⟩ | ⟨_, hi'⟩
          · refine ⟨_, hndt, ?_⟩
            have := bool_ne_not hk''; subst this
            exact Node.setNext_next_ne _ _ _
          · exact ⟨nd'', hi', rfl⟩
        · intro k'' _ x xd hxd
          exact ⟨xd, hxd, rfl⟩
  · -- walk to the predecessor of `L`
    simp only [hhead, if_false]
    have hhead' : nd.next k ≠ L := by rw [← hnx]; exact hhead
    have hfuel : (adj' k (ld.node k)).length < t.fuel := by
      have := c.len_lt k (ld.node k)
      simp [State.fuel, hmid.elen]; omega
    obtain ⟨p, pd, hp, hpL, hpe, hpd, hr, hres⟩ :=
      relink_rename (endv := sb.endv) hag ld ld' c.hL hlde hldn t.fuel _ _ hlst (c.hn k _) hemem hLmem hhead' hfuel
    rw [hnx, hr]
    let t' : State := { t with edges := t.edges.set p (pd.setNext k e) }
    refine ⟨t', rfl, ?_⟩
    have hplt := lt_of_getElem? hpd
    have hpk : ∀ i, i ≠ ld.node k → p ∉ adj' k i := by
      intro i hi hm
      obtain ⟨_, xd, hxd, hxk⟩ := (c.hm k i p).mp hm
      obtain ⟨_, xd2, hxd2, hxk2⟩ := (c.hm k _ p).mp hp
      rw [hxd] at hxd2; cases hxd2
      exact hi (hxk.symm.trans hxk2)
    refine ⟨hmid.endv, hmid.directed, hmid.nodesW, by simp [t', hmid.elen], ?_, ?_⟩
    · intro x hx
      rw [← hmid.cont x hx]
      simp only [t']
      by_cases hpx : p = x
      · subst hpx
        rw [List.getElem?_set_self hplt, hpd]
        simp [Edge.setNext_ends]
      · rw [List.getElem?_set_ne hpx]
    · intro k'
      by_cases hkk : k' = k
      · subst hkk
        simp only [if_true, DirOk]
        intro i nd'' hi
        have hi' : t.nodes[i]? = some nd'' := hi
        rw [show t'.endv = sb.endv from hmid.endv]
        by_cases hiw : i = ld.node k'
        · subst hiw
          rw [hndt] at hi'; cases hi'
          rw [hnx]; exact hres
        · obtain ⟨nd0, hnd0, hnx0⟩ := hheads i nd'' hi'
          rw [hnx0, map_ren_of_not_mem (hLnot i hiw)]
          refine (c.hl k' i nd0 hnd0).congr ?_
          intro x xd hx hxd
          have hxL : x ≠ L := fun hxl => hLnot i hiw (hxl ▸ hx)
          have hxe : x ≠ e := fun hxe => henot k' i (hxe ▸ hx)
          have hxp : p ≠ x := fun hpx => hpk i hiw (hpx ▸ hx)
          obtain ⟨xd', hxd', hxn⟩ := hag x xd hxL hxe hxd
          exact ⟨xd', by simp [t', List.getElem?_set, hxp, hxd'], hxn⟩
      · simp only [hkk, if_false]
        refine hother t' rfl ?_ ?_ k' hkk
        · intro k'' _ i nd'' hi
          exact ⟨nd'', hi, rfl⟩
        · intro k'' hk'' x xd hxd
          have := bool_ne_not hk''; subst this
          by_cases hpx : p = x
          · subst hpx
            rw [hpd] at hxd; cases hxd
            exact ⟨pd.setNext k e, by simp [t', List.getElem?_set, hplt], Edge.setNext_next_ne _ _ _⟩
          · exact ⟨xd, by simp [t', List.getElem?_set, hpx, hxd], rfl⟩

theorem ren_inj_on {L e : Nat} {l : List Nat} (he : e ∉ l) :
    ∀ x ∈ l, ∀ y ∈ l, ren L e x = ren L e y → x = y := by
  intro x hx y hy hxy
  unfold ren at hxy
  by_cases hxL : x = L <;> by_cases hyL : y = L <;> simp [hxL, hyL] at hxy
  · rw [hxL, hyL]
  · exact absurd (hxy ▸ hy) he
  · exact absurd (hxy ▸ hx) he
  · exact hxy

/-- when both directions are renamed the invariant is back -/
theorem inv_of_mid {sb : State} {adj' : Bool → Nat → List Nat} {e L : Nat} {ld : Edge} {t : State}
    (c : RenCtx sb adj' e L ld) (hmid : Mid sb adj' e L ld t (fun _ => true)) : Inv t := by
  have hnl : t.nodes.length = sb.nodes.length := by simpa using congrArg List.length hmid.nodesW
  -- slot x of `t` has the content of slot `y` of `sb`
  have hslot : ∀ x, x < L → ∃ xd' yd, t.edges[x]? = some xd' ∧ sb.edges[if x = e then L else x]? = some yd ∧
      edgeEnds xd' = edgeEnds yd := by
    intro x hx
    have hc := hmid.cont x hx
    have hxlt : x < t.edges.length := by rw [hmid.elen]; exact hx
    have hylt : (if x = e then L else x) < sb.edges.length := by rw [c.elen]; split <;> omega
    rw [List.getElem?_eq_getElem hxlt, List.getElem?_eq_getElem hylt] at hc
    simp only [Option.map_some, Option.some.injEq] at hc
    exact ⟨_, _, List.getElem?_eq_getElem hxlt, List.getElem?_eq_getElem hylt, hc⟩
  refine ⟨by rw [hnl, hmid.endv]; exact c.szN, by rw [hmid.elen, hmid.endv]; have := c.szE; omega, ?_,
    fun k i => (adj' k i).map (ren L e), ?_, ?_, ?_⟩
  · intro x xd' hx
    have hxL : x < L := by have := lt_of_getElem? hx; rw [hmid.elen] at this; exact this
    obtain ⟨xd'', yd, hx'', hy, hends⟩ := hslot x hxL
    rw [hx] at hx''; cases hx''
    have := c.ends _ yd hy
    simp only [edgeEnds, Prod.mk.injEq] at hends
    rw [hnl, hends.1, hends.2.1]; exact this
  · intro k i nd' hi
    have := hmid.dirs k
    simp only [DirOk, if_true] at this
    exact this i nd' hi
  · intro k i
    exact (c.hn k i).map_on (ren_inj_on (fun hm => ((c.hm k i e).mp hm).1 rfl))
  · intro k i x
    simp only [List.mem_map]
    constructor
    · rintro ⟨y, hy, rfl⟩
      obtain ⟨hye, yd, hyd, hyk⟩ := (c.hm k i y).mp hy
      have hylt : y < L + 1 := by have := lt_of_getElem? hyd; rw [c.elen] at this; exact this
      have hxL : ren L e y < L := by
        unfold ren; split
        · exact c.he
        · omega
      obtain ⟨xd', yd', hx', hy', hends⟩ := hslot _ hxL
      have hyy : (if ren L e y = e then L else ren L e y) = y := by
        unfold ren
        by_cases hyL : y = L
        · simp [hyL]
        · simp [hyL, hye]
      rw [hyy, hyd] at hy'; cases hy'
      refine ⟨xd', hx', ?_⟩
      simp only [edgeEnds, Prod.mk.injEq] at hends
      cases k <;> simp [Edge.node, hends.1, hends.2.1] at hyk ⊢ <;> exact hyk
    · rintro ⟨xd', hx', hxk⟩
      have hxL : x < L := by have := lt_of_getElem? hx'; rw [hmid.elen] at this; exact this
      obtain ⟨xd'', yd, hx'', hy, hends⟩ := hslot x hxL
      rw [hx'] at hx''; cases hx''
      refine ⟨if x = e then L else x, ?_, ?_⟩
      · refine (c.hm k i _).mpr ⟨?_, yd, hy, ?_⟩
        · split
          · have := c.he; omega
          · assumption
        · simp only [edgeEnds, Prod.mk.injEq] at hends
          cases k <;> simp [Edge.node, ← hends.1, ← hends.2.1] at hxk ⊢ <;> exact hxk
      · unfold ren
        by_cases hxe : x = e
        · simp [hxe]
        · have : x ≠ L := by omega
          simp [hxe, this]

/-- effect of a removal on the content: `swap_remove` of the (src, tgt, weight) list, nodes untouched -/
structure EdgeRemoved (s s' : State) (e : Nat) : Prop where
  endv : s'.endv = s.endv
  directed : s'.directed = s.directed
  nodes : s'.nodes.map (·.weight) = s.nodes.map (·.weight)
  edges : s'.edges.map edgeEnds = swapRemove (s.edges.map edgeEnds) e

theorem swapRemove_map {α β : Type} (f : α → β) (l : List α) (i : Nat) :
    swapRemove (l.map f) i = (swapRemove l i).map f := by
  unfold swapRemove
  cases hl : l.getLast? with
  | none =>
    have : l = [] := by simpa using hl
    subst this; simp
  | some last =>
    simp only [List.getLast?_map, hl, Option.map_some]
    rw [← List.map_set, List.map_dropLast]

/-- `remove_edge_adjust_indices` on a state where `e` is unlinked -/
theorem removeEdgeAdjust_spec {sb : State} {e : Nat} {ed : Edge} (h : InvEx sb (fun _ => some e))
    (hed : sb.edges[e]? = some ed) :
    ∃ s', removeEdgeAdjust sb e = .ok s' ∧ Inv s' ∧ EdgeRemoved sb s' e := by
  obtain ⟨adj', hl, hn, hm⟩ := h.lists
  have hm' : ∀ (k : Bool) (i x : Nat), x ∈ adj' k i ↔ x ≠ e ∧ ∃ xd : Edge, sb.edges[x]? = some xd ∧ xd.node k = i := by
    intro k i x
    rw [hm k i x]
    simp only [ne_eq, Option.some.injEq]
    constructor
    · rintro ⟨h1, h2⟩; exact ⟨fun h' => h1 h'.symm, h2⟩
    · rintro ⟨h1, h2⟩; exact ⟨fun h' => h1 h'.symm, h2⟩
  have helt := lt_of_getElem? hed
  unfold removeEdgeAdjust
  simp only
  have hlen := swapRemove_length sb.edges e helt
  have hget := swapRemove_get sb.edges e helt
  by_cases heL : e = sb.edges.length - 1
  · -- the removed edge is the last one: nothing moves
    have hnone : (swapRemove sb.edges e)[e]? = none := by rw [hget e]; simp [heL]
    rw [hnone]
    refine ⟨_, rfl, ?_, ⟨rfl, rfl, rfl, by simp only; rw [swapRemove_map]⟩⟩
    have hgx : ∀ x, x ≠ e → (swapRemove sb.edges e)[x]? = sb.edges[x]? := by
      intro x hx
      rw [hget x]
      by_cases hxl : x < sb.edges.length - 1
      · simp [hxl, hx]
      · simp only [hxl, if_false]
        symm; apply List.getElem?_eq_none; omega
    refine ⟨h.szN, by simp only; rw [hlen]; have := h.szE; omega, ?_, adj', ?_, hn, ?_⟩
    · intro x xd hx
      have hxe : x ≠ e := by
        intro hxe; subst hxe; simp only at hx; rw [hnone] at hx; cases hx
      simp only at hx
      rw [hgx x hxe] at hx
      exact h.ends x xd hx
    · intro k i nd hi
      refine (hl k i nd hi).congr ?_
      intro x xd hx hxd
      have hxe : x ≠ e := ((hm' k i x).mp hx).1
      exact ⟨xd, by simp only; rw [hgx x hxe]; exact hxd, rfl⟩
    · intro k i x
      rw [hm' k i x]
      simp only
      constructor
      · rintro ⟨hxe, xd, hxd, hxk⟩
        exact ⟨xd, by rw [hgx x hxe]; exact hxd, hxk⟩
      · rintro ⟨xd, hxd, hxk⟩
        have hxe : x ≠ e := by
          intro hxe; subst hxe; rw [hnone] at hxd; cases hxd
        exact ⟨hxe, xd, by rw [← hgx x hxe]; exact hxd, hxk⟩
  · -- the last edge `L` moves to `e`
    have heL' : e < sb.edges.length - 1 := by omega
    have hLlt : sb.edges.length - 1 < sb.edges.length := by omega
    have hLget := List.getElem?_eq_getElem hLlt
    have hsome : (swapRemove sb.edges e)[e]? = some (sb.edges[sb.edges.length - 1]) := by
      rw [hget e]; simp [heL', hLget]
    rw [hsome]
    simp only
    generalize hL : sb.edges.length - 1 = L at *
    generalize hld : sb.edges[L] = ld at *
    have hmlen : sb.edges.length = L + 1 := by omega
    have c : RenCtx sb adj' e L ld :=
      ⟨h.szN, by have := h.szE; omega, hmlen, heL', hLget, h.ends, hl, hn, hm'⟩
    let t0 : State := { sb with edges := swapRemove sb.edges e }
    have hmid0 : Mid sb adj' e L ld t0 (fun _ => false) := by
      refine ⟨rfl, rfl, rfl, hlen, ?_, ?_⟩
      · intro x hx
        simp only [t0]
        rw [hget x]
        simp only [hx, if_true]
        split
        · rfl
        · rfl
      · intro k
        simp only [DirOk, Bool.false_eq_true, if_false]
        refine ⟨fun i nd' hi => ⟨nd', hi, rfl⟩, ⟨ld, hsome, rfl⟩, ?_⟩
        intro x xd hxL hxe hxd
        have hxlt : x < L := by have := lt_of_getElem? hxd; omega
        exact ⟨xd, by simp only [t0]; rw [hget x]; simp [hxlt, hxe, hxd], rfl⟩
    obtain ⟨t1, ht1, hmid1⟩ := rename1 (k := false) c hmid0 rfl
    obtain ⟨t2, ht2, hmid2⟩ := rename1 (k := true) c hmid1 (by simp)
    simp only [Edge.node, Bool.false_eq_true, if_false] at ht1
    simp only [Edge.node, if_true] at ht2
    have hdone : (fun k' => if k' = true then true else if k' = false then true else false) = fun _ => true := by
      funext k'; cases k' <;> simp
    rw [hdone] at hmid2
    refine ⟨t2, ?_, inv_of_mid c hmid2, ⟨hmid2.endv, hmid2.directed, hmid2.nodesW, ?_⟩⟩
    · simp only [changeEdgeLinks]
      rw [hlen]
      have : ({ sb with edges := swapRemove sb.edges e } : State) = t0 := rfl
      rw [this, ht1]
      simp only
      rw [ht2]
    · rw [swapRemove_map]
      apply List.ext_getElem?
      intro x
      simp only [List.getElem?_map]
      rw [hget x]
      by_cases hx : x < L
      · rw [hmid2.cont x hx]
        simp only [hx, if_true]
        split <;> rfl
      · simp only [hx, if_false]
        have : t2.edges[x]? = none := List.getElem?_eq_none (by rw [hmid2.elen]; omega)
        simp [this]

/-- `remove_edge(e)` for a live `e`: never faults, returns the weight, re-establishes the invariant,
and its effect on the content is exactly `swap_remove(e)` -/
theorem removeEdge_spec {s : State} {e : Nat} {ed : Edge} (h : Inv s) (hed : s.edges[e]? = some ed) :
    ∃ s', removeEdge s e = .ok (s', some ed.weight) ∧ Inv s' ∧ EdgeRemoved s s' e := by
  obtain ⟨sb, hsb, hi, hc, hedb⟩ := unlink_both h hed
  obtain ⟨s', hs', hinv, hrem⟩ := removeEdgeAdjust_spec hi hedb
  refine ⟨s', ?_, hinv, ⟨hrem.endv.trans hc.endv, hrem.directed.trans hc.directed, hrem.nodes.trans hc.nodes, ?_⟩⟩
  · unfold removeEdge
    simp only [hed, hsb, hs']
  · rw [hrem.edges, hc.edges]

theorem removeEdge_absent {s : State} {e : Nat} (he : s.edges.length ≤ e) : removeEdge s e = .ok (s, none) := by
  simp [removeEdge, List.getElem?_eq_none he]

/-! ### `retain_edges` -/

theorem sameLinks_bumpEdgeAt (s : State) (bump : List Bool) (i : Nat) : SameLinks s (bumpEdgeAt s bump i) := by
  unfold bumpEdgeAt
  split
  · split
    · rename_i ed hed; exact sameLinks_setEdgeWeight hed _
    · exact SameLinks.refl s
  · exact SameLinks.refl s

theorem sameLinks_bumpNodeAt (s : State) (bump : List Bool) (i : Nat) : SameLinks s (bumpNodeAt s bump i) := by
  unfold bumpNodeAt
  split
  · split
    · rename_i nd hnd; exact sameLinks_setNodeWeight hnd _
    · exact SameLinks.refl s
  · exact SameLinks.refl s

theorem inv_retainEdges (mask bump : List Bool) :
    ∀ (i : Nat) (s s' : State), Inv s → retainEdges mask bump i s = .ok s' → Inv s' := by
  intro i
  induction i with
  | zero => intro s s' h he; simp [retainEdges] at he; subst he; exact h
  | succ i ih =>
    intro s s' h he
    unfold retainEdges at he
    simp only at he
    have h1 : Inv (bumpEdgeAt s bump i) := inv_of_sameLinks h (sameLinks_bumpEdgeAt s bump i)
    split at he
    · exact ih _ s' h1 he
    · split at he
      · simp at he
      · simp at he
      · rename_i s2 w heq
        have hinv2 : Inv s2 := by
          by_cases hlt : i < (bumpEdgeAt s bump i).edges.length
          · obtain ⟨s'', hs'', hinv, _⟩ := removeEdge_spec h1 (List.getElem?_eq_getElem hlt)
            rw [hs''] at heq
            simp only [Except.ok.injEq, Prod.mk.injEq] at heq
            rw [← heq.1]; exact hinv
          · rw [removeEdge_absent (by omega)] at heq
            simp at heq
        exact ih s2 s' hinv2 he

/-! ### `remove_node` -/

theorem mem_swapRemove {α : Type} {l : List α} {i : Nat} (hi : i < l.length) {x : α}
    (hx : x ∈ swapRemove l i) : x ∈ l := by
  obtain ⟨j, hj⟩ := List.mem_iff_getElem?.mp hx
  rw [swapRemove_get l i hi j] at hj
  split at hj
  · split at hj
    · exact List.mem_iff_getElem?.mpr ⟨_, hj⟩
    · exact List.mem_iff_getElem?.mpr ⟨_, hj⟩
  · cases hj

/-- every edge of `s'` has the content of some edge of `s`; nodes keep their weights -/
structure Shrunk (s s' : State) : Prop where
  endv : s'.endv = s.endv
  directed : s'.directed = s.directed
  nodes : s'.nodes.map (·.weight) = s.nodes.map (·.weight)
  sub : ∀ (x : Nat) (xd' : Edge), s'.edges[x]? = some xd' → ∃ (y : Nat) (yd : Edge), s.edges[y]? = some yd ∧ edgeEnds yd = edgeEnds xd'
  elen : s'.edges.length ≤ s.edges.length

theorem Shrunk.refl (s : State) : Shrunk s s := ⟨rfl, rfl, rfl, fun x xd' h => ⟨x, xd', h, rfl⟩, Nat.le_refl _⟩

theorem Shrunk.trans {a b c : State} (h1 : Shrunk a b) (h2 : Shrunk b c) : Shrunk a c :=
  ⟨h2.endv.trans h1.endv, h2.directed.trans h1.directed, h2.nodes.trans h1.nodes,
   fun x xd' hx => by
     obtain ⟨y, yd, hy, he⟩ := h2.sub x xd' hx
     obtain ⟨z, zd, hz, he'⟩ := h1.sub y yd hy
     exact ⟨z, zd, hz, he'.trans he⟩, Nat.le_trans h2.elen h1.elen⟩

theorem Shrunk.nlen {s s' : State} (h : Shrunk s s') : s'.nodes.length = s.nodes.length := by
  simpa using congrArg List.length h.nodes

theorem shrunk_of_edgeRemoved {s s' : State} {e : Nat} (he : e < s.edges.length) (h : EdgeRemoved s s' e) :
    Shrunk s s' := by
  refine ⟨h.endv, h.directed, h.nodes, ?_, ?_⟩
  · intro x xd' hx
    have hmem : edgeEnds xd' ∈ s'.edges.map edgeEnds :=
      List.mem_map.mpr ⟨xd', List.mem_iff_getElem?.mpr ⟨x, hx⟩, rfl⟩
    rw [h.edges] at hmem
    have := mem_swapRemove (by simpa using he) hmem
    obtain ⟨yd, hyd, hye⟩ := List.mem_map.mp this
    obtain ⟨y, hy⟩ := List.mem_iff_getElem?.mp hyd
    exact ⟨y, yd, hy, hye⟩
  · have := congrArg List.length h.edges
    rw [swapRemove_length _ e (by simpa using he)] at this
    simp at this; omega

/-- no edge has `a` at end `k` -/
def NoInc (s : State) (k : Bool) (a : Nat) : Prop := ∀ (e : Nat) (ed : Edge), s.edges[e]? = some ed → ed.node k ≠ a

theorem NoInc.shrunk {s s' : State} {k : Bool} {a : Nat} (h : NoInc s k a) (hs : Shrunk s s') : NoInc s' k a := by
  intro x xd' hx hk
  obtain ⟨y, yd, hy, he⟩ := hs.sub x xd' hx
  simp only [edgeEnds, Prod.mk.injEq] at he
  exact h y yd hy (by cases k <;> simp [Edge.node, he.1, he.2.1] at hk ⊢ <;> exact hk)

/-- the draining loop of `remove_node`: fault-free given enough fuel is not needed for the invariant;
whenever it returns, the invariant holds, nothing but edges disappeared, and no edge is left at `a` -/
theorem drain_spec (k : Bool) (a : Nat) :
    ∀ (f : Nat) (s s' : State), Inv s → drain k a f s = .ok s' → Inv s' ∧ Shrunk s s' ∧ NoInc s' k a := by
  intro f
  induction f with
  | zero => intro s s' _ he; simp [drain] at he
  | succ f ih =>
    intro s s' h he
    unfold drain at he
    split at he
    · simp at he
    · rename_i nd hnd
      split at he
      · rename_i hend
        simp only [Except.ok.injEq] at he
        subst he
        exact ⟨h, Shrunk.refl s, fun e ed hed => (h.head_end_iff k hnd).mp hend e ed hed⟩
      · split at he
        · simp at he
        · simp at he
        · rename_i s1 w heq
          by_cases hlt : nd.next k < s.edges.length
          · obtain ⟨s'', hs'', hinv, hrem⟩ := removeEdge_spec h (List.getElem?_eq_getElem hlt)
            rw [hs''] at heq
            simp only [Except.ok.injEq, Prod.mk.injEq] at heq
            obtain ⟨rfl, _⟩ := heq
            obtain ⟨h1, h2, h3⟩ := ih s'' s' hinv he
            exact ⟨h1, (shrunk_of_edgeRemoved hlt hrem).trans h2, h3⟩
          · rw [removeEdge_absent (by omega)] at heq
            simp at heq

theorem Edge.setNode_next (ed : Edge) (k k' : Bool) (v : Nat) : (ed.setNode k v).next k' = ed.next k' := by
  cases k <;> cases k' <;> simp [Edge.setNode, Edge.next]

theorem Edge.setNode_node (ed : Edge) (k : Bool) (v : Nat) : (ed.setNode k v).node k = v := by
  cases k <;> simp [Edge.setNode, Edge.node]

theorem Edge.setNode_node_ne (ed : Edge) (k : Bool) (v : Nat) : (ed.setNode k v).node (!k) = ed.node (!k) := by
  cases k <;> simp [Edge.setNode, Edge.node]

/-- the re-pointing walk: exactly the slots of the list get `node[k] := new`; links are untouched -/
theorem renode_spec {k : Bool} {old new endv : Nat} :
    ∀ (fuel : Nat) (edges : List Edge) (h : Nat) (l : List Nat), edges.length ≤ endv →
      IsList edges k endv h l → l.Nodup →
      (∀ x ∈ l, ∀ (xd : Edge), edges[x]? = some xd → xd.node k = old) → l.length < fuel →
      ∃ es', renode k old new fuel edges h = .ok es' ∧ es'.length = edges.length ∧
        ∀ x, es'[x]? = (edges[x]?).map (fun xd => if x ∈ l then xd.setNode k new else xd) := by
  intro fuel
  induction fuel with
  | zero => intro edges h l _ _ _ _ hlen; omega
  | succ f ih =>
    intro edges h l hsz hl hnd hold hlen
    cases hl with
    | nil =>
      have hnone : edges[endv]? = none := List.getElem?_eq_none hsz
      exact ⟨edges, by simp [renode, hnone], rfl, fun x => by simp⟩
    | @cons _ t hd hh htl =>
      have hnd' := List.nodup_cons.mp hnd
      have hhlt := lt_of_getElem? hh
      have hko : hd.node k = old := hold h (List.mem_cons_self ..) hd hh
      let edges1 := edges.set h (hd.setNode k new)
      have htl1 : IsList edges1 k endv (hd.next k) t := by
        refine htl.congr ?_
        intro x xd hx hxd
        have hxh : h ≠ x := fun hxh => hnd'.1 (hxh ▸ hx)
        exact ⟨xd, by simp [edges1, List.getElem?_set, hxh, hxd], rfl⟩
      have hold1 : ∀ x ∈ t, ∀ (xd : Edge), edges1[x]? = some xd → xd.node k = old := by
        intro x hx xd hxd
        have hxh : h ≠ x := fun hxh => hnd'.1 (hxh ▸ hx)
        simp only [edges1, List.getElem?_set_ne hxh] at hxd
        exact hold x (List.mem_cons_of_mem _ hx) xd hxd
      obtain ⟨es', hr, hlen', hget⟩ := ih edges1 (hd.next k) t (by simpa [edges1] using hsz) htl1 hnd'.2 hold1
        (by simp at hlen; omega)
      refine ⟨es', ?_, by rw [hlen']; simp [edges1], ?_⟩
      · unfold renode
        simp only [hh, hko, ne_eq, not_true_eq_false, if_false]
        exact hr
      · intro x
        rw [hget x]
        by_cases hxh : h = x
        · subst hxh
          simp only [edges1, List.getElem?_set_self hhlt, hh, Option.map_some, List.mem_cons, true_or, if_true]
          simp [hnd'.1]
        · simp only [edges1, List.getElem?_set_ne hxh]
          have : (x ∈ h :: t) ↔ x ∈ t := by
            simp only [List.mem_cons]
            constructor
            · rintro (h' | h')
              · exact absurd h'.symm hxh
              · exact h'
            · exact Or.inr
          simp only [this]

/-- content of an edge after the node renumbering `Ln ↦ a` -/
def renEnds (Ln a : Nat) (ed : Edge) : Nat × Nat × Nat :=
  ((if ed.src = Ln then a else ed.src), (if ed.tgt = Ln then a else ed.tgt), ed.weight)

/-- last step of `remove_node`: `a` has no incident edges left; `swap_remove(a)` and re-pointing of
the moved node's edges -/
theorem inv_removeNode_tail {s2 : State} {a : Nat} (h : Inv s2) (ha : a < s2.nodes.length)
    (hno : ∀ k, NoInc s2 k a) :
    let ns := swapRemove s2.nodes a
    (ns[a]? = none → Inv { s2 with nodes := ns }) ∧
    (∀ moved, ns[a]? = some moved →
      ∃ es1 es2, renode false ns.length a s2.fuel s2.edges moved.next0 = .ok es1 ∧
        renode true ns.length a s2.fuel es1 moved.next1 = .ok es2 ∧
        Inv { s2 with nodes := ns, edges := es2 } ∧
        es2.map edgeEnds = s2.edges.map (renEnds ns.length a)) := by
  intro ns
  obtain ⟨adj, hl, hn, hm⟩ := h.lists
  have hnslen : ns.length = s2.nodes.length - 1 := swapRemove_length s2.nodes a ha
  have hnsget := swapRemove_get s2.nodes a ha
  have hlenlt : ∀ k i, (adj k i).length < s2.fuel := by
    intro k i
    have : (adj k i).length ≤ s2.edges.length :=
      nodup_length_le (hn k i) (fun x hx => by
        obtain ⟨xd, hxd, _⟩ := (hm k i x).mp hx; exact lt_of_getElem? hxd)
    simp [State.fuel]; omega
  constructor
  · -- `a` was the last node
    intro hnone
    have haL : a = s2.nodes.length - 1 := by
      by_contra hne
      have : a < s2.nodes.length - 1 := by omega
      rw [hnsget a] at hnone
      simp [this] at hnone
      omega
    refine ⟨by simp only; rw [hnslen]; have := h.szN; omega, h.szE, ?_, adj, ?_, hn, hm⟩
    · intro e ed hed
      have h1 := h.ends e ed hed
      have h2 := hno false e ed hed
      have h3 := hno true e ed hed
      simp only [Edge.node, Bool.false_eq_true, if_false] at h2
      simp only [Edge.node, if_true] at h3
      simp only; rw [hnslen]; omega
    · intro k i nd hi
      simp only at hi
      have hilt : i < s2.nodes.length - 1 := by have := lt_of_getElem? hi; omega
      rw [hnsget i] at hi
      have hia : i ≠ a := by omega
      simp only [hilt, if_true, hia, if_false] at hi
      exact hl k i nd hi
  · -- the last node `Ln` moves to `a`
    intro moved hmoved
    have haL : a < s2.nodes.length - 1 := by
      by_contra hne
      rw [hnsget a] at hmoved
      simp [hne] at hmoved
    have hLlt : s2.nodes.length - 1 < s2.nodes.length := by omega
    have hmv : s2.nodes[s2.nodes.length - 1]? = some moved := by
      rw [hnsget a] at hmoved
      simpa [haL] using hmoved
    rw [hnslen]
    generalize hLn : s2.nodes.length - 1 = Ln at *
    -- first pass: sources
    have hl0 := hl false Ln moved hmv
    simp only [Node.next, Bool.false_eq_true, if_false] at hl0
    have hold0 : ∀ x ∈ adj false Ln, ∀ (xd : Edge), s2.edges[x]? = some xd → xd.node false = Ln := by
      intro x hx xd hxd
      obtain ⟨xd', hxd', hk⟩ := (hm false Ln x).mp hx
      rw [hxd] at hxd'; cases hxd'; exact hk
    obtain ⟨es1, hr1, hlen1, hget1⟩ :=
      renode_spec (new := a) s2.fuel s2.edges _ _ h.szE hl0 (hn false Ln) hold0 (hlenlt false Ln)
    -- second pass: targets
    have hl1 := hl true Ln moved hmv
    simp only [Node.next, if_true] at hl1
    have hl1' : IsList es1 true s2.endv moved.next1 (adj true Ln) := by
      refine hl1.congr ?_
      intro x xd _ hxd
      refine ⟨if x ∈ adj false Ln then xd.setNode false a else xd, by rw [hget1 x, hxd]; rfl, ?_⟩
      split
      · exact Edge.setNode_next _ _ _ _
      · rfl
    have hold1 : ∀ x ∈ adj true Ln, ∀ (xd : Edge), es1[x]? = some xd → xd.node true = Ln := by
      intro x hx xd hxd
      obtain ⟨xd', hxd', hk⟩ := (hm true Ln x).mp hx
      rw [hget1 x, hxd'] at hxd
      simp only [Option.map_some, Option.some.injEq] at hxd
      rw [← hxd]
      split
      · rw [show true = !false from rfl, Edge.setNode_node_ne]; exact hk
      · exact hk
    obtain ⟨es2, hr2, hlen2, hget2⟩ :=
      renode_spec (new := a) s2.fuel es1 _ _ (by rw [hlen1]; exact h.szE) hl1' (hn true Ln) hold1 (hlenlt true Ln)
    -- slot x of the result
    let rn : Nat → Nat := fun v => if v = Ln then a else v
    have hslot : ∀ (x : Nat) (xd : Edge), s2.edges[x]? = some xd →
        ∃ xd'', es2[x]? = some xd'' ∧ (∀ k, xd''.next k = xd.next k) ∧ (∀ k, xd''.node k = rn (xd.node k)) ∧
          xd''.weight = xd.weight := by
      intro x xd hxd
      have h0 : x ∈ adj false Ln ↔ xd.node false = Ln := by
        rw [hm false Ln x]
        constructor
        · rintro ⟨xd', hxd', hk⟩; rw [hxd] at hxd'; cases hxd'; exact hk
        · intro hk; exact ⟨xd, hxd, hk⟩
      have h1 : x ∈ adj true Ln ↔ xd.node true = Ln := by
        rw [hm true Ln x]
        constructor
        · rintro ⟨xd', hxd', hk⟩; rw [hxd] at hxd'; cases hxd'; exact hk
        · intro hk; exact ⟨xd, hxd, hk⟩
      refine ⟨_, by rw [hget2 x, hget1 x, hxd]; rfl, ?_, ?_, ?_⟩
      · intro k
        by_cases c0 : x ∈ adj false Ln <;> by_cases c1 : x ∈ adj true Ln <;>
          simp [c0, c1, Edge.setNode_next]
      · intro k
        by_cases c0 : x ∈ adj false Ln <;> by_cases c1 : x ∈ adj true Ln <;>
          cases k <;> simp [c0, c1, rn, Edge.setNode, Edge.node] <;>
          simp [Edge.node] at h0 h1 <;> simp_all
      · by_cases c0 : x ∈ adj false Ln <;> by_cases c1 : x ∈ adj true Ln <;>
          simp [c0, c1, Edge.setNode]
    have hslot' : ∀ (x : Nat) (xd'' : Edge), es2[x]? = some xd'' → ∃ xd, s2.edges[x]? = some xd := by
      intro x xd'' hx
      have hxlt : x < s2.edges.length := by have := lt_of_getElem? hx; rw [hlen2, hlen1] at this; exact this
      exact ⟨_, List.getElem?_eq_getElem hxlt⟩
    let adj'' : Bool → Nat → List Nat := fun k i => if i = a then adj k Ln else if i = Ln then [] else adj k i
    refine ⟨es1, es2, hr1, hr2, ?_, ?_⟩
    rotate_left
    · apply List.ext_getElem?
      intro x
      simp only [List.getElem?_map]
      cases hxd : s2.edges[x]? with
      | none =>
        have : es2[x]? = none := by
          apply List.getElem?_eq_none
          rw [hlen2, hlen1]
          exact List.getElem?_eq_none_iff.mp hxd
        simp [this]
      | some xd =>
        obtain ⟨xd'', hx'', _, hnode, hw⟩ := hslot x xd hxd
        have hs := hnode false
        have ht := hnode true
        simp only [Edge.node, Bool.false_eq_true, if_false, rn] at hs
        simp only [Edge.node, if_true, rn] at ht
        simp [hx'', edgeEnds, renEnds, hs, ht, hw]
    refine ⟨by simp only; rw [hnslen]; have := h.szN; omega, by simp only; rw [hlen2, hlen1]; exact h.szE, ?_,
      adj'', ?_, ?_, ?_⟩
    · intro x xd'' hx
      simp only at hx
      obtain ⟨xd, hxd⟩ := hslot' x xd'' hx
      obtain ⟨xd2, hx2, _, hnode, _⟩ := hslot x xd hxd
      rw [hx] at hx2; cases hx2
      have hb := h.ends x xd hxd
      have hs := hnode false
      have ht := hnode true
      simp only [Edge.node, Bool.false_eq_true, if_false, rn] at hs
      simp only [Edge.node, if_true, rn] at ht
      simp only; rw [hnslen, hs, ht]
      constructor
      · split <;> omega
      · split <;> omega
    · intro k i nd' hi
      simp only at hi
      have hilt : i < Ln := by have := lt_of_getElem? hi; rw [hnslen] at this; exact this
      have hcongr : ∀ {h0 : Nat} {l : List Nat}, IsList s2.edges k s2.endv h0 l → IsList es2 k s2.endv h0 l := by
        intro h0 l hl'
        refine hl'.congr ?_
        intro x xd _ hxd
        obtain ⟨xd'', hx'', hnx, _, _⟩ := hslot x xd hxd
        exact ⟨xd'', hx'', hnx k⟩
      rw [hnsget i] at hi
      simp only [hilt, if_true] at hi
      simp only [adj'']
      by_cases hia : i = a
      · subst hia
        simp only [if_true] at hi ⊢
        rw [hmv] at hi; cases hi
        exact hcongr (hl k Ln moved hmv)
      · have hiL : i ≠ Ln := by omega
        simp only [hia, hiL, if_false] at hi ⊢
        exact hcongr (hl k i nd' hi)
    · intro k i
      simp only [adj'']
      split
      · exact hn k Ln
      · split
        · exact List.nodup_nil
        · exact hn k i
    · intro k i x
      simp only [adj'']
      constructor
      · intro hx
        have hxd : ∃ xd, s2.edges[x]? = some xd ∧ ((i = a ∧ xd.node k = Ln) ∨ (i ≠ a ∧ i ≠ Ln ∧ xd.node k = i)) := by
          by_cases hia : i = a
          · simp only [hia, if_true] at hx
            obtain ⟨xd, hxd, hk⟩ := (hm k Ln x).mp hx
            exact ⟨xd, hxd, Or.inl ⟨hia, hk⟩⟩
          · by_cases hiL : i = Ln
            · exfalso
              simp [hia, hiL] at hx
              omega
            · simp only [hia, hiL, if_false] at hx
              obtain ⟨xd, hxd, hk⟩ := (hm k i x).mp hx
              exact ⟨xd, hxd, Or.inr ⟨hia, hiL, hk⟩⟩
        obtain ⟨xd, hxd, hcase⟩ := hxd
        obtain ⟨xd'', hx'', _, hnode, _⟩ := hslot x xd hxd
        refine ⟨xd'', hx'', ?_⟩
        rw [hnode k]
        rcases hcase with ⟨hia, hk⟩ | ⟨hia, hiL, hk⟩
        · simp [rn, hk, hia]
        · simp [rn, hk, hiL]
      · rintro ⟨xd'', hx'', hk⟩
        obtain ⟨xd, hxd⟩ := hslot' x xd'' hx''
        obtain ⟨xd2, hx2, _, hnode, _⟩ := hslot x xd hxd
        rw [hx''] at hx2; cases hx2
        rw [hnode k] at hk
        have hna := hno k x xd hxd
        by_cases hL : xd.node k = Ln
        · simp only [rn, hL, if_true] at hk
          subst hk
          simp only [if_true]
          exact (hm k Ln x).mpr ⟨xd, hxd, hL⟩
        · simp only [rn, hL, if_false] at hk
          subst hk
          simp only [hna, hL, if_false]
          exact (hm k _ x).mpr ⟨xd, hxd, rfl⟩

theorem inv_removeNode {s s' : State} {a : Nat} {o : Option Nat} (h : Inv s)
    (he : removeNode s a = .ok (s', o)) : Inv s' := by
  unfold removeNode at he
  split at he
  · simp at he; rw [← he.1]; exact h
  · rename_i nd0 hnd0
    split at he
    · simp at he
    · rename_i s1 hd1
      obtain ⟨hi1, hs1, hno1⟩ := drain_spec false a _ s s1 h hd1
      split at he
      · simp at he
      · rename_i s2 hd2
        obtain ⟨hi2, hs2, hno2⟩ := drain_spec true a _ s1 s2 hi1 hd2
        have hno : ∀ k, NoInc s2 k a := by
          intro k; cases k
          · exact hno1.shrunk hs2
          · exact hno2
        have ha : a < s2.nodes.length := by
          rw [hs2.nlen, hs1.nlen]; exact lt_of_getElem? hnd0
        have htail := inv_removeNode_tail hi2 ha hno
        simp only at htail
        split at he
        · simp at he
        · rename_i nd hnd
          simp only at he
          split at he
          · rename_i hnone
            simp at he
            rw [← he.1]
            exact htail.1 hnone
          · rename_i moved hmoved
            obtain ⟨es1, es2, hr1, hr2, hinv, _⟩ := htail.2 moved hmoved
            rw [hr1] at he
            simp only at he
            rw [hr2] at he
            simp at he
            rw [← he.1]
            exact hinv

theorem inv_retainNodes (mask bump : List Bool) :
    ∀ (i : Nat) (s s' : State), Inv s → retainNodes mask bump i s = .ok s' → Inv s' := by
  intro i
  induction i with
  | zero => intro s s' h he; simp [retainNodes] at he; subst he; exact h
  | succ i ih =>
    intro s s' h he
    unfold retainNodes at he
    simp only at he
    have h1 : Inv (bumpNodeAt s bump i) := inv_of_sameLinks h (sameLinks_bumpNodeAt s bump i)
    split at he
    · exact ih _ s' h1 he
    · split at he
      · simp at he
      · simp at he
      · rename_i s2 w heq
        exact ih s2 s' (inv_removeNode h1 heq) he

/-- **every public call preserves the invariant** -/
theorem inv_step {s : State} (h : Inv s) (op : Op) : Inv (step s op).1 := by
  by_cases hop : isRemoval op = false
  · exact inv_step_stage1 h op hop
  · cases op <;> simp [isRemoval] at hop <;> simp only [step]
    case removeNode a =>
      refine inv_liftF h _ _ ?_
      intro v hv
      obtain ⟨s', o⟩ := v
      exact inv_removeNode h hv
    case removeEdge e =>
      refine inv_liftF h _ _ ?_
      intro v hv
      obtain ⟨s', o⟩ := v
      by_cases hlt : e < s.edges.length
      · obtain ⟨s'', hs'', hinv, _⟩ := removeEdge_spec h (List.getElem?_eq_getElem hlt)
        rw [hs''] at hv
        simp only [Except.ok.injEq, Prod.mk.injEq] at hv
        rw [← hv.1]; exact hinv
      · rw [removeEdge_absent (by omega)] at hv
        simp only [Except.ok.injEq, Prod.mk.injEq] at hv
        rw [← hv.1]; exact h
    case retainNodes m b =>
      refine inv_liftF h _ _ ?_
      intro v hv
      exact inv_retainNodes m b _ s v h hv
    case retainEdges m b =>
      refine inv_liftF h _ _ ?_
      intro v hv
      exact inv_retainEdges m b _ s v h hv

theorem inv_run : ∀ (ops : List Op) (s : State), Inv s → Inv (run s ops).1 := by
  intro ops
  induction ops with
  | nil => intro s h; exact h
  | cons op rest ih =>
    intro s h
    simp only [run]
    exact ih _ (inv_step h op)

/-! ### the abstract effect of `remove_node` -/

theorem swapRemove_cons_succ {α : Type} (a : α) (l : List α) (i : Nat) (hi : i < l.length) :
    swapRemove (a :: l) (i + 1) = a :: swapRemove l i := by
  unfold swapRemove
  cases l with
  | nil => simp at hi
  | cons b t =>
    have h1 : (a :: b :: t).getLast? = (b :: t).getLast? := by simp [List.getLast?_cons_cons]
    rw [h1]
    cases hl : (b :: t).getLast? with
    | none => simp at hl
    | some last =>
      simp only [List.set_cons_succ]
      rw [List.dropLast_cons_of_ne_nil]
      simp

theorem swapRemove_zero {α : Type} (a b : α) (t : List α) :
    swapRemove (a :: b :: t) 0 = (b :: t).getLast (by simp) :: (b :: t).dropLast := by
  unfold swapRemove
  have h1 : (a :: b :: t).getLast? = some ((b :: t).getLast (by simp)) := by
    rw [List.getLast?_cons_cons, List.getLast?_eq_some_getLast]
  rw [h1]
  simp only [List.set_cons_zero]
  rw [List.dropLast_cons_of_ne_nil (by simp)]

theorem swapRemove_perm {α : Type} : ∀ (l : List α) (i : Nat), i < l.length → (swapRemove l i).Perm (l.eraseIdx i) := by
  intro l
  induction l with
  | nil => intro i hi; simp at hi
  | cons a l ih =>
    intro i hi
    cases i with
    | zero =>
      cases l with
      | nil => simp [swapRemove]
      | cons b t =>
        rw [swapRemove_zero]
        simp only [List.eraseIdx_cons_zero]
        have : (b :: t) = (b :: t).dropLast ++ [(b :: t).getLast (by simp)] := (List.dropLast_append_getLast _).symm
        conv => rhs; rw [this]
        exact (List.perm_append_comm (l₁ := (b :: t).dropLast) (l₂ := [(b :: t).getLast (by simp)])).symm
    | succ i =>
      have hi' : i < l.length := by simpa using hi
      rw [swapRemove_cons_succ a l i hi']
      simp only [List.eraseIdx_cons_succ]
      exact (ih i hi').cons a

theorem filter_eraseIdx {α : Type} (p : α → Bool) : ∀ (l : List α) (i : Nat) (hi : i < l.length),
    p l[i] = false → (l.eraseIdx i).filter p = l.filter p := by
  intro l
  induction l with
  | nil => intro i hi; simp at hi
  | cons a l ih =>
    intro i hi hp
    cases i with
    | zero => simp at hp; simp [hp]
    | succ i =>
      simp only [List.eraseIdx_cons_succ, List.filter_cons]
      have := ih i (by simpa using hi) (by simpa using hp)
      rw [this]

theorem filter_swapRemove {α : Type} (p : α → Bool) (l : List α) (i : Nat) (hi : i < l.length)
    (hp : p l[i] = false) : ((swapRemove l i).filter p).Perm (l.filter p) := by
  have := (swapRemove_perm l i hi).filter p
  rw [filter_eraseIdx p l i hi hp] at this
  exact this

/-- an edge content triple that does not touch node `a` -/
def notAt (a : Nat) (t : Nat × Nat × Nat) : Bool := t.1 != a && t.2.1 != a

theorem notAt_false_of_node {a : Nat} {ed : Edge} {k : Bool} (h : ed.node k = a) : notAt a (edgeEnds ed) = false := by
  cases k <;> simp [Edge.node] at h <;> simp [notAt, edgeEnds, h]

/-- the head of a node's list is an edge at that node -/
theorem Inv.head_incident {s : State} (h : Inv s) (k : Bool) {i : Nat} {nd : Node} (hnd : s.nodes[i]? = some nd)
    (hne : nd.next k ≠ s.endv) : ∃ ed, s.edges[nd.next k]? = some ed ∧ ed.node k = i := by
  obtain ⟨adj, hl, _, hm⟩ := h.lists
  have hlist := hl k i nd hnd
  generalize hadj : adj k i = l at hlist
  generalize hh : nd.next k = hd at hlist hne
  cases hlist with
  | nil => exact absurd rfl hne
  | @cons _ t ed he _ =>
    have : hd ∈ adj k i := by rw [hadj]; exact List.mem_cons_self ..
    exact (hm k i _).mp this

/-- the draining loop removes only edges at `a`: the other edges survive, as a multiset -/
theorem drain_perm (k : Bool) (a : Nat) :
    ∀ (f : Nat) (s s' : State), Inv s → drain k a f s = .ok s' →
      ((s'.edges.map edgeEnds).filter (notAt a)).Perm ((s.edges.map edgeEnds).filter (notAt a)) := by
  intro f
  induction f with
  | zero => intro s s' _ he; simp [drain] at he
  | succ f ih =>
    intro s s' h he
    unfold drain at he
    split at he
    · simp at he
    · rename_i nd hnd
      split at he
      · simp only [Except.ok.injEq] at he
        subst he
        exact List.Perm.refl _
      · rename_i hne
        split at he
        · simp at he
        · simp at he
        · rename_i s1 w heq
          obtain ⟨ed, hed, hk⟩ := h.head_incident k hnd hne
          obtain ⟨s'', hs'', hinv, hrem⟩ := removeEdge_spec h hed
          rw [hs''] at heq
          simp only [Except.ok.injEq, Prod.mk.injEq] at heq
          obtain ⟨rfl, _⟩ := heq
          refine (ih s'' s' hinv he).trans ?_
          rw [hrem.edges]
          have hlt := lt_of_getElem? hed
          apply filter_swapRemove _ _ _ (by simpa using hlt)
          simp only [List.getElem_map]
          rw [List.getElem?_eq_getElem hlt] at hed
          cases hed
          exact notAt_false_of_node hk

/-- the draining loop never faults: every round removes one edge -/
theorem drain_ok (k : Bool) (a : Nat) :
    ∀ (f : Nat) (s : State), Inv s → a < s.nodes.length → s.edges.length < f → ∃ s', drain k a f s = .ok s' := by
  intro f
  induction f with
  | zero => intro s _ _ hf; omega
  | succ f ih =>
    intro s h ha hf
    have hnd := List.getElem?_eq_getElem ha
    unfold drain
    rw [hnd]
    simp only
    by_cases hend : (s.nodes[a]).next k = s.endv
    · simp [hend]
    · simp only [hend, if_false]
      obtain ⟨ed, hed, _⟩ := h.head_incident k hnd hend
      obtain ⟨s'', hs'', hinv, hrem⟩ := removeEdge_spec h hed
      rw [hs'']
      simp only
      have hlt := lt_of_getElem? hed
      have hsh := shrunk_of_edgeRemoved hlt hrem
      have hlen : s''.edges.length = s.edges.length - 1 := by
        have := congrArg List.length hrem.edges
        rw [swapRemove_length _ _ (by simpa using hlt)] at this
        simpa using this
      exact ih s'' hinv (by rw [hsh.nlen]; exact ha) (by omega)

/-- the node renumbering `Ln ↦ a` on a content triple -/
def renT (Ln a : Nat) (t : Nat × Nat × Nat) : Nat × Nat × Nat :=
  ((if t.1 = Ln then a else t.1), (if t.2.1 = Ln then a else t.2.1), t.2.2)

theorem renEnds_eq (Ln a : Nat) (ed : Edge) : renEnds Ln a ed = renT Ln a (edgeEnds ed) := rfl

theorem filter_notAt_self {s : State} {a : Nat} (hno : ∀ k, NoInc s k a) :
    (s.edges.map edgeEnds).filter (notAt a) = s.edges.map edgeEnds := by
  apply List.filter_eq_self.mpr
  intro t ht
  obtain ⟨ed, hed, rfl⟩ := List.mem_map.mp ht
  obtain ⟨e, he⟩ := List.mem_iff_getElem?.mp hed
  have h0 := hno false e ed he
  have h1 := hno true e ed he
  simp only [Edge.node, Bool.false_eq_true, if_false] at h0
  simp only [Edge.node, if_true] at h1
  simp [notAt, edgeEnds, h0, h1]

/-- `remove_node(a)` for a live `a`, in any state satisfying the invariant: no fault, returns the
node's weight, re-establishes the invariant; the node list is `swap_remove(a)`; the edges that survive
are exactly those not incident with `a` (as a multiset — their new numbering is that of successive
`remove_edge` calls), with the moved node `n - 1` renamed to `a`. -/
theorem removeNode_spec {s : State} {a : Nat} {nd : Node} (h : Inv s) (hnd : s.nodes[a]? = some nd) :
    ∃ s', removeNode s a = .ok (s', some nd.weight) ∧ Inv s' ∧
      s'.nodes.map (·.weight) = swapRemove (s.nodes.map (·.weight)) a ∧
      s'.endv = s.endv ∧ s'.directed = s.directed ∧
      (s'.edges.map edgeEnds).Perm
        (((s.edges.map edgeEnds).filter (notAt a)).map (renT (s.nodes.length - 1) a)) := by
  have ha := lt_of_getElem? hnd
  obtain ⟨s1, hd1⟩ := drain_ok false a s.fuel s h ha (by simp [State.fuel])
  obtain ⟨hi1, hs1, hno1⟩ := drain_spec false a _ s s1 h hd1
  have hp1 := drain_perm false a _ s s1 h hd1
  have ha1 : a < s1.nodes.length := by rw [hs1.nlen]; exact ha
  obtain ⟨s2, hd2⟩ := drain_ok true a s1.fuel s1 hi1 ha1 (by simp [State.fuel])
  obtain ⟨hi2, hs2, hno2⟩ := drain_spec true a _ s1 s2 hi1 hd2
  have hp2 := drain_perm true a _ s1 s2 hi1 hd2
  have hno : ∀ k, NoInc s2 k a := by
    intro k; cases k
    · exact hno1.shrunk hs2
    · exact hno2
  have ha2 : a < s2.nodes.length := by rw [hs2.nlen]; exact ha1
  have hnd2 := List.getElem?_eq_getElem ha2
  have hw2 : (s2.nodes[a]).weight = nd.weight := by
    have hnodes := hs2.nodes.trans hs1.nodes
    obtain ⟨x, hx, hf⟩ := map_eq_getElem? hnodes a hnd2
    rw [hnd] at hx; cases hx; exact hf
  have hcont : (s2.edges.map edgeEnds).Perm ((s.edges.map edgeEnds).filter (notAt a)) := by
    rw [← filter_notAt_self hno]
    exact hp2.trans hp1
  have hnodesW : (swapRemove s2.nodes a).map (·.weight) = swapRemove (s.nodes.map (·.weight)) a := by
    rw [← swapRemove_map, hs2.nodes, hs1.nodes]
  have hnlen : s2.nodes.length = s.nodes.length := by rw [hs2.nlen, hs1.nlen]
  have htail := inv_removeNode_tail hi2 ha2 hno
  simp only at htail
  unfold removeNode
  simp only [hnd, hd1, hd2, hnd2]
  cases hns : (swapRemove s2.nodes a)[a]? with
  | none =>
    simp only
    refine ⟨_, by rw [hw2], htail.1 hns, hnodesW, hs2.endv.trans hs1.endv, hs2.directed.trans hs1.directed, ?_⟩
    simp only
    -- `a` is the last node: the renaming is the identity
    have haL : a = s.nodes.length - 1 := by
      by_contra hne
      have hlt : a < s2.nodes.length - 1 := by omega
      rw [swapRemove_get s2.nodes a ha2 a] at hns
      simp [hlt] at hns
      omega
    have hid : ∀ t : Nat × Nat × Nat, renT (s.nodes.length - 1) a t = t := by
      intro t; rw [← haL]
      obtain ⟨u, v, w⟩ := t
      simp only [renT]
      congr 1
      · split <;> simp_all
      · congr 1
        split <;> simp_all
    rw [List.map_congr_left (fun t _ => hid t)]
    simpa using hcont
  | some moved =>
    obtain ⟨es1, es2, hr1, hr2, hinv, hes⟩ := htail.2 moved hns
    simp only [hr1, hr2]
    refine ⟨_, by rw [hw2], hinv, hnodesW, hs2.endv.trans hs1.endv, hs2.directed.trans hs1.directed, ?_⟩
    simp only
    rw [hes]
    have hlen : (swapRemove s2.nodes a).length = s.nodes.length - 1 := by
      rw [swapRemove_length _ _ ha2, hnlen]
    rw [hlen]
    have : s2.edges.map (renEnds (s.nodes.length - 1) a) =
        (s2.edges.map edgeEnds).map (renT (s.nodes.length - 1) a) := by
      rw [List.map_map]; rfl
    rw [this]
    exact hcont.map _

/-! ### `retain_*` never fault -/

theorem SameLinks.nlen {s s' : State} (h : SameLinks s s') : s'.nodes.length = s.nodes.length := by
  simpa using congrArg List.length h.nodes
theorem SameLinks.elen {s s' : State} (h : SameLinks s s') : s'.edges.length = s.edges.length := by
  simpa using congrArg List.length h.edges

theorem retainEdges_ok (mask bump : List Bool) :
    ∀ (i : Nat) (s : State), Inv s → i ≤ s.edges.length → ∃ s', retainEdges mask bump i s = .ok s' ∧ Inv s' := by
  intro i
  induction i with
  | zero => intro s h _; exact ⟨s, rfl, h⟩
  | succ i ih =>
    intro s h hi
    unfold retainEdges
    simp only
    have hsl := sameLinks_bumpEdgeAt s bump i
    have h1 : Inv (bumpEdgeAt s bump i) := inv_of_sameLinks h hsl
    have hlen1 := hsl.elen
    split
    · exact ih _ h1 (by omega)
    · have hlt : i < (bumpEdgeAt s bump i).edges.length := by omega
      obtain ⟨s'', hs'', hinv, hrem⟩ := removeEdge_spec h1 (List.getElem?_eq_getElem hlt)
      rw [hs'']
      simp only
      have hlen : s''.edges.length = (bumpEdgeAt s bump i).edges.length - 1 := by
        have := congrArg List.length hrem.edges
        rw [swapRemove_length _ _ (by simpa using hlt)] at this
        simpa using this
      exact ih s'' hinv (by omega)

theorem retainNodes_ok (mask bump : List Bool) :
    ∀ (i : Nat) (s : State), Inv s → i ≤ s.nodes.length → ∃ s', retainNodes mask bump i s = .ok s' ∧ Inv s' := by
  intro i
  induction i with
  | zero => intro s h _; exact ⟨s, rfl, h⟩
  | succ i ih =>
    intro s h hi
    unfold retainNodes
    simp only
    have hsl := sameLinks_bumpNodeAt s bump i
    have h1 : Inv (bumpNodeAt s bump i) := inv_of_sameLinks h hsl
    have hlen1 := hsl.nlen
    split
    · exact ih _ h1 (by omega)
    · have hlt : i < (bumpNodeAt s bump i).nodes.length := by omega
      obtain ⟨s'', hs'', hinv, hnodes, _⟩ := removeNode_spec h1 (List.getElem?_eq_getElem hlt)
      rw [hs'']
      simp only
      have hlen : s''.nodes.length = (bumpNodeAt s bump i).nodes.length - 1 := by
        have := congrArg List.length hnodes
        rw [swapRemove_length _ _ (by simpa using hlt)] at this
        simpa using this
      exact ih s'' hinv (by omega)

/-- the four removal calls never fault in a state satisfying the invariant -/
theorem removal_no_fault {s : State} (h : Inv s) (op : Op) (hop : isRemoval op = true) (f : Fault) :
    (step s op).2 ≠ .fault f := by
  cases op <;> simp [isRemoval] at hop <;> simp only [step, liftF]
  case removeNode a =>
    by_cases ha : a < s.nodes.length
    · obtain ⟨s', hs', _⟩ := removeNode_spec h (List.getElem?_eq_getElem ha)
      rw [hs']; simp
    · simp [removeNode, List.getElem?_eq_none (Nat.le_of_not_lt ha)]
  case removeEdge e =>
    by_cases he : e < s.edges.length
    · obtain ⟨s', hs', _⟩ := removeEdge_spec h (List.getElem?_eq_getElem he)
      rw [hs']; simp
    · rw [removeEdge_absent (Nat.le_of_not_lt he)]; simp
  case retainNodes m b =>
    obtain ⟨s', hs', _⟩ := retainNodes_ok m b s.nodes.length s h (Nat.le_refl _)
    rw [hs']; simp
  case retainEdges m b =>
    obtain ⟨s', hs', _⟩ := retainEdges_ok m b s.edges.length s h (Nat.le_refl _)
    rw [hs']; simp

end PetgraphModel.GProofs
