import PetgraphModel.Proofs.Acyclic
/-
The Pearce–Kelly reorder lemma for the mirror model of `Acyclic::update_ordering`:
after an accepted insertion `a → b` every old edge and the new edge go forward in the new order.

Part A: what the two cone searches return (exactly the window-bounded future of `b` and past of `a`).
Part B: sorted-list facts about `all_positions` (merge of the two key lists).
Part C: the case analysis over the edges.
-/
namespace PetgraphModel.AcyPK
open PetgraphModel PetgraphModel.MGraph PetgraphModel.Oracle PetgraphModel.Dag PetgraphModel.Acy
open PetgraphModel.AcyProofs

/-! ## Part A -/

theorem inj_of_inv {L : List Nat} {om : OrderMap} (h : OMInv L om) {x y p : Nat} (hx : x ∈ L) (hy : y ∈ L)
    (h1 : om.n2p[x]? = some p) (h2 : om.n2p[y]? = some p) : x = y := by
  obtain ⟨q, hq1, hq2⟩ := h.live_p2n x hx
  obtain ⟨q', hq1', hq2'⟩ := h.live_p2n y hy
  rw [h1] at hq1; cases hq1
  rw [h2] at hq1'; cases hq1'
  exact sorted_fun h.sorted hq2 hq2'

/-- the result map of a search: old entries stay, new entries are exactly the newly discovered nodes -/
structure ResRel (s s' : DS) (r : DRes) : Prop where
  mono : ∀ p x, (p, x) ∈ s.res → (p, x) ∈ s'.res
  new : ∀ p x, (p, x) ∈ s'.res → (p, x) ∈ s.res ∨ (x ∈ s'.disc ∧ x ∉ s.disc)
  all : (∀ e, r ≠ .panic e) → ∀ x, x ∈ s'.disc → x ∈ s.disc ∨ ∃ p, (p, x) ∈ s'.res

theorem resRel_refl (s : DS) (r : DRes) : ResRel s s r :=
  ⟨fun _ _ h => h, fun _ _ h => Or.inl h, fun _ _ h => Or.inl h⟩

theorem resRel_trans {s s1 s2 : DS} {r : DRes} (hd1 : ∀ x, x ∈ s.disc → x ∈ s1.disc)
    (hd2 : ∀ x, x ∈ s1.disc → x ∈ s2.disc) (h1 : ResRel s s1 .ok) (h2 : ResRel s1 s2 r) : ResRel s s2 r := by
  refine ⟨fun p x h => h2.mono p x (h1.mono p x h), ?_, ?_⟩
  · intro p x h
    rcases h2.new p x h with h | ⟨h3, h4⟩
    · rcases h1.new p x h with h | ⟨h5, h6⟩
      · exact Or.inl h
      · exact Or.inr ⟨hd2 x h5, h6⟩
    · exact Or.inr ⟨h3, fun hx => h4 (hd1 x hx)⟩
  · intro hr x hx
    rcases h2.all hr x hx with hx | ⟨p, hp⟩
    · rcases h1.all (by intro e h; cases h) x hx with hx | ⟨p, hp⟩
      · exact Or.inl hx
      · exact Or.inr ⟨p, h2.mono p x hp⟩
    · exact Or.inr ⟨p, hp⟩

theorem dfs_res (v : View) (hc : Closed v) (om : OrderMap) (hinv : OMInv v.g.nodes om) (cap : Nat)
    (dir : Dir) (minP maxP : Nat) :
    ∀ f,
      (∀ u s s' r, u ∈ v.g.nodes → ConeOk v.g.nodes om s.res →
        dfsV v om cap dir minP maxP f u s = (s', r) → ResRel s s' r) ∧
      (∀ u ws s s' r, (∀ w ∈ ws, w ∈ v.g.nodes) → ConeOk v.g.nodes om s.res →
        dfsN v om cap dir minP maxP f u ws s = (s', r) → ResRel s s' r) := by
  intro f
  induction f with
  | zero =>
    constructor
    · intro u s s' r _ _ h
      simp only [dfsV] at h
      cases h; exact resRel_refl ..
    · intro u ws s s' r _ _ h
      simp only [dfsN] at h
      cases h; exact resRel_refl ..
  | succ f ih =>
    obtain ⟨ihV, ihN⟩ := ih
    constructor
    · intro u s s' r hu hk h
      simp only [dfsV] at h
      split at h
      · cases h; exact resRel_refl ..
      split at h
      · cases h; exact resRel_refl ..
      rename_i hnd
      split at h
      · cases h
        exact ⟨fun _ _ h => h, fun _ _ h => Or.inl h, fun hh => absurd rfl (hh _)⟩
      rename_i p hp
      have hnd' : u ∉ s.disc := by simpa using hnd
      have hk1 : ConeOk v.g.nodes om (pmInsert s.res p u) := by
        refine ⟨sorted_pmInsert hk.sorted, ?_⟩
        intro q n hm
        rcases (mem_pmInsert hk.sorted).mp hm with ⟨rfl, rfl⟩ | ⟨_, hm⟩
        · exact ⟨hu, getPos_ok hp⟩
        · exact hk.sub q n hm
      -- the step that discovers `u`
      have h0 : ResRel s { disc := u :: s.disc, fin := s.fin, res := pmInsert s.res p u } .ok := by
        refine ⟨?_, ?_, ?_⟩
        · intro q x hm
          refine (mem_pmInsert hk.sorted).mpr ?_
          by_cases hq : q = p
          · subst hq
            have hx := hk.sub q x hm
            exact Or.inl ⟨rfl, inj_of_inv hinv hx.1 hu hx.2 (getPos_ok hp)⟩
          · exact Or.inr ⟨hq, hm⟩
        · intro q x hm
          rcases (mem_pmInsert hk.sorted).mp hm with ⟨rfl, rfl⟩ | ⟨_, hm⟩
          · exact Or.inr ⟨List.mem_cons_self .., hnd'⟩
          · exact Or.inl hm
        · intro _ x hx
          rcases List.mem_cons.mp hx with rfl | hx
          · exact Or.inr ⟨p, (mem_pmInsert hk.sorted).mpr (Or.inl ⟨rfl, rfl⟩)⟩
          · exact Or.inl hx
      cases hr : dfsN v om cap dir minP maxP f u (nbrs dir v u)
          { disc := u :: s.disc, fin := s.fin, res := pmInsert s.res p u } with
      | mk s2 r2 =>
        have hrel := ihN u _ _ s2 r2 (fun w hw => closed_nbrs hc dir hu hw) hk1 hr
        have hst := ((dfs_complete v om cap dir minP maxP f).2 u _ _ s2 r2 hr).1
        have htr : ResRel s s2 r2 :=
          resRel_trans (fun x hx => List.mem_cons_of_mem _ hx) hst.discMono h0 hrel
        rw [hr] at h
        cases r2 with
        | ok => simp only at h; cases h; exact ⟨htr.mono, htr.new, htr.all⟩
        | cycle => simp only at h; cases h; exact htr
        | panic e => simp only at h; cases h; exact htr
    · intro u ws s s' r hws hk h
      cases ws with
      | nil => simp only [dfsN] at h; cases h; exact resRel_refl ..
      | cons w ws =>
        have hw : w ∈ v.g.nodes := hws w (List.mem_cons_self ..)
        have hws' : ∀ x ∈ ws, x ∈ v.g.nodes := fun x hx => hws x (List.mem_cons_of_mem _ hx)
        simp only [dfsN] at h
        split at h
        · exact ihN u ws s s' r hws' hk h
        split at h
        · cases h; exact ⟨fun _ _ h => h, fun _ _ h => Or.inl h, fun _ _ h => Or.inl h⟩
        split at h
        · cases hr : dfsV v om cap dir minP maxP f w s with
          | mk s1 r1 =>
            have hrel1 := ihV w s s1 r1 hw hk hr
            have hst1 := ((dfs_complete v om cap dir minP maxP f).1 w s s1 r1 hr).1
            have hk1 := (dfs_cone v hc om cap dir minP maxP f).1 w s s1 r1 hw hk hr
            rw [hr] at h
            cases r1 with
            | ok =>
              simp only at h
              have hrel2 := ihN u ws s1 s' r hws' hk1 h
              have hst2 := ((dfs_complete v om cap dir minP maxP f).2 u ws s1 s' r h).1
              exact resRel_trans hst1.discMono hst2.discMono hrel1 hrel2
            | cycle => simp only at h; cases h; exact hrel1
            | panic e => simp only at h; cases h; exact hrel1
        · exact ihN u ws s s' r hws' hk h
        · cases h; exact ⟨fun _ _ h => h, fun _ _ h => Or.inl h, fun _ _ h => Or.inl h⟩
        · cases h; exact ⟨fun _ _ h => h, fun _ _ h => Or.inl h, fun _ _ h => Or.inl h⟩

/-- finished nodes are discovered -/
theorem dfs_fin_disc (v : View) (om : OrderMap) (cap : Nat) (dir : Dir) (minP maxP : Nat) :
    ∀ f,
      (∀ u s s' r, (∀ x, x ∈ s.fin → x ∈ s.disc) → dfsV v om cap dir minP maxP f u s = (s', r) →
        ∀ x, x ∈ s'.fin → x ∈ s'.disc) ∧
      (∀ u ws s s' r, (∀ x, x ∈ s.fin → x ∈ s.disc) → dfsN v om cap dir minP maxP f u ws s = (s', r) →
        ∀ x, x ∈ s'.fin → x ∈ s'.disc) := by
  intro f
  induction f with
  | zero =>
    constructor
    · intro u s s' r hi h
      simp only [dfsV] at h
      cases h; exact hi
    · intro u ws s s' r hi h
      simp only [dfsN] at h
      cases h; exact hi
  | succ f ih =>
    obtain ⟨ihV, ihN⟩ := ih
    constructor
    · intro u s s' r hi h
      simp only [dfsV] at h
      split at h
      · cases h; exact hi
      split at h
      · cases h; exact hi
      split at h
      · cases h
        intro x hx; exact List.mem_cons_of_mem _ (hi x hx)
      rename_i p hp
      cases hr : dfsN v om cap dir minP maxP f u (nbrs dir v u)
          { disc := u :: s.disc, fin := s.fin, res := pmInsert s.res p u } with
      | mk s2 r2 =>
        have hi1 : ∀ x, x ∈ s.fin → x ∈ u :: s.disc := fun x hx => List.mem_cons_of_mem _ (hi x hx)
        have h2 := ihN u _ _ s2 r2 hi1 hr
        have hst := ((dfs_complete v om cap dir minP maxP f).2 u _ _ s2 r2 hr).1
        rw [hr] at h
        cases r2 with
        | ok =>
          simp only at h; cases h
          intro x hx
          rcases List.mem_cons.mp hx with rfl | hx
          · exact hst.discMono _ (List.mem_cons_self ..)
          · exact h2 x hx
        | cycle => simp only at h; cases h; exact h2
        | panic e => simp only at h; cases h; exact h2
    · intro u ws s s' r hi h
      cases ws with
      | nil => simp only [dfsN] at h; cases h; exact hi
      | cons w ws =>
        simp only [dfsN] at h
        split at h
        · exact ihN u ws s s' r hi h
        split at h
        · cases h; exact hi
        split at h
        · cases hr : dfsV v om cap dir minP maxP f w s with
          | mk s1 r1 =>
            have h1 := ihV w s s1 r1 hi hr
            rw [hr] at h
            cases r1 with
            | ok => simp only at h; exact ihN u ws s1 s' r h1 h
            | cycle => simp only at h; cases h; exact h1
            | panic e => simp only at h; cases h; exact h1
        · exact ihN u ws s s' r hi h
        · cases h; exact hi
        · cases h; exact hi

theorem validOrder_past_go {minP maxP p : Nat} (h : validOrder .past minP maxP p = .go) : minP < p ∧ p ≤ maxP := by
  unfold validOrder at h
  simp only at h
  split at h
  · cases h
  split at h
  · cases h
  split at h
  · cases h
  · omega

theorem validOrder_past_prune {minP maxP p : Nat} (h : validOrder .past minP maxP p = .prune) : p < minP := by
  unfold validOrder at h
  simp only at h
  split at h
  · cases h
  split at h
  · assumption
  split at h <;> cases h

/-- reachability with the first step exposed -/
inductive ReachR (g : MGraph) : Nat → Nat → Prop
  | refl (a : Nat) : ReachR g a a
  | head {a b c : Nat} : Adj g a b → ReachR g b c → ReachR g a c

theorem reachR_tail {g : MGraph} {a b c : Nat} (h : ReachR g a b) (hadj : Adj g b c) : ReachR g a c := by
  induction h with
  | refl => exact ReachR.head hadj (ReachR.refl _)
  | head h1 _ ih => exact ReachR.head h1 (ih hadj)

theorem reachR_of_reach {g : MGraph} {a c : Nat} (h : Reach g a c) : ReachR g a c := by
  induction h with
  | refl => exact ReachR.refl _
  | step _ hadj ih => exact reachR_tail ih hadj

theorem reach_of_reachR {g : MGraph} {a c : Nat} (h : ReachR g a c) : Reach g a c := by
  induction h with
  | refl => exact Reach.refl _
  | head hadj _ ih => exact reach_trans (Reach.step (Reach.refl _) hadj) ih

/-- the situation after both cone searches returned normally -/
structure Cones2 (v : View) (om : OrderMap) (a b pa pb cap : Nat) (d1 d2 : DS) : Prop where
  hv : ViewOk v
  hc : Closed v
  hinv : OMInv v.g.nodes om
  hov : OrderValid v om
  ha : a ∈ v.g.nodes
  hb : b ∈ v.g.nodes
  hab : a ≠ b
  hpa : om.getPos a = .ok pa
  hpb : om.getPos b = .ok pb
  hlt : pb < pa
  h1 : dfsV v om cap .fut pb pa (dfsFuel v) b {} = (d1, .ok)
  h2 : dfsV v om cap .past pb pa (dfsFuel v) a { disc := d1.disc, fin := d1.fin, res := [] } = (d2, .ok)

namespace Cones2
variable {v : View} {om : OrderMap} {a b pa pb cap : Nat} {d1 d2 : DS}

theorem noPath (c : Cones2 v om a b pa pb cap d1 d2) : ¬ Reach v.g b a :=
  fut_ok_no_path c.hv c.hc c.hinv c.hov c.ha c.hb c.hab c.hpa c.h1

/-- the future cone is exactly what `b` reaches below `max_position` -/
theorem fut_char (c : Cones2 v om a b pa pb cap d1 d2) (x : Nat) :
    x ∈ d1.disc ↔ Reach v.g b x ∧ ∃ px, om.getPos x = .ok px ∧ px < pa := by
  obtain ⟨hst, hbd, hgo⟩ := (dfs_complete v om cap .fut pb pa (dfsFuel v)).1 b {} d1 .ok c.h1
  constructor
  · intro hx
    have hr : Reach v.g b x := by
      rcases ((dfs_sound v c.hv om cap .fut pb pa (dfsFuel v)).1 b {} d1 .ok c.h1).1 x hx with h | h
      · cases h
      · exact h
    refine ⟨hr, ?_⟩
    rcases hgo x hx with h | rfl | ⟨p, hp, hg⟩
    · cases h
    · exact ⟨pb, c.hpb, c.hlt⟩
    · exact ⟨p, hp, validOrder_fut_go hg⟩
  · rintro ⟨hr, px, hpx, hlt⟩
    have hfin : ∀ x, x ∈ d1.disc → x ∈ d1.fin := by
      intro x hx
      rcases hst.newFin rfl x hx with h | h
      · cases h
      · exact h
    have hcl : FinClosed v om .fut pb pa [] d1 := hst.closed rfl [] (by intro x hx; cases hx)
    have claim : ∀ y, Reach v.g b y → (∀ py, om.getPos y = .ok py → py ≤ pa) → y ∈ d1.disc := by
      intro y hy
      induction hy with
      | refl => intro _; exact hbd rfl
      | step hby' hadj ih =>
        rename_i y' y
        intro hle
        obtain ⟨hy'live, _⟩ := reach_pos c.hv c.hc c.hinv c.hov c.hb hby'
        have hsucc : y ∈ v.succ y' := (c.hv.1 y' y).mpr hadj
        have hylive : y ∈ v.g.nodes := (c.hc y' hy'live).1 y hsucc
        obtain ⟨py, hpy, _⟩ := c.hinv.getPos hylive
        have hy'd : y' ∈ d1.disc := by
          apply ih
          intro py' hpy'
          have := c.hov y' y hsucc py' py hpy' hpy
          have := hle py hpy
          omega
        rcases hcl y' (hfin y' hy'd) (by simp) y hsucc with h | ⟨p, hp, hpr⟩
        · exact h
        · rw [hpy] at hp; cases hp
          have := validOrder_fut_prune hpr
          have := hle py hpy
          omega
    exact claim x hr (by intro py hpy; rw [hpx] at hpy; cases hpy; omega)

/-- the past cone (what the second search adds) is exactly what reaches `a` above `min_position` -/
theorem past_char (c : Cones2 v om a b pa pb cap d1 d2) (x : Nat) :
    (x ∈ d2.disc ∧ x ∉ d1.disc) ↔ Reach v.g x a ∧ ∃ px, om.getPos x = .ok px ∧ pb < px := by
  obtain ⟨hst, had, hgo⟩ := (dfs_complete v om cap .past pb pa (dfsFuel v)).1 a _ d2 .ok c.h2
  have hnot1 : ∀ z, Reach v.g z a → z ∉ d1.disc := by
    intro z hz hzd
    exact c.noPath (reach_trans ((c.fut_char z).mp hzd).1 hz)
  constructor
  · rintro ⟨hx, hnx⟩
    have hr : Reach v.g x a := by
      rcases ((dfs_sound v c.hv om cap .past pb pa (dfsFuel v)).1 a _ d2 .ok c.h2).1 x hx with h | h
      · exact absurd h hnx
      · exact h
    refine ⟨hr, ?_⟩
    rcases hgo x hx with h | rfl | ⟨p, hp, hg⟩
    · exact absurd h hnx
    · exact ⟨pa, c.hpa, c.hlt⟩
    · exact ⟨p, hp, (validOrder_past_go hg).1⟩
  · rintro ⟨hr, px, hpx, hlt⟩
    refine ⟨?_, hnot1 x hr⟩
    have hfd1 : ∀ z, z ∈ d1.fin → z ∈ d1.disc :=
      (dfs_fin_disc v om cap .fut pb pa (dfsFuel v)).1 b {} d1 .ok (by intro z hz; cases hz) c.h1
    have hcl : FinClosed v om .past pb pa d1.fin d2 :=
      hst.closed rfl d1.fin (by intro z hz hzb; exact absurd hz hzb)
    have claim : ∀ y z, ReachR v.g y z → z = a → (∀ py, om.getPos y = .ok py → pb < py) → y ∈ d2.disc := by
      intro y z hyz
      induction hyz with
      | refl => intro hz _; subst hz; exact had rfl
      | head hadj hrest ih =>
        rename_i y y' z
        intro hz hlt'
        subst hz
        have hy'a : Reach v.g y' z := reach_of_reachR hrest
        -- y' is live: it reaches the live node a ... we get liveness from the predecessor closure instead
        have hpred : y ∈ v.pred y' := (c.hv.2 y' y).mpr hadj
        have hsucc : y' ∈ v.succ y := (c.hv.1 y y').mpr hadj
        by_cases hylive : y ∈ v.g.nodes
        · have hy'live : y' ∈ v.g.nodes := (c.hc y hylive).1 y' hsucc
          obtain ⟨py, hpy, _⟩ := c.hinv.getPos hylive
          obtain ⟨py', hpy', _⟩ := c.hinv.getPos hy'live
          have hlt2 := c.hov y y' hsucc py py' hpy hpy'
          have hy'd : y' ∈ d2.disc := by
            apply ih rfl
            intro q hq
            rw [hpy'] at hq; cases hq
            have := hlt' py hpy
            omega
          have hy'n1 : y' ∉ d1.disc := hnot1 y' hy'a
          have hy'fin : y' ∈ d2.fin := by
            rcases hst.newFin rfl y' hy'd with h | h
            · exact absurd h hy'n1
            · exact h
          have hy'nb : y' ∉ d1.fin := fun h => hy'n1 (hfd1 y' h)
          rcases hcl y' hy'fin hy'nb y hpred with h | ⟨p, hp, hpr⟩
          · exact h
          · rw [hpy] at hp; cases hp
            have := validOrder_past_prune hpr
            have := hlt' py hpy
            omega
        · -- a dead node has no position entry that is constrained; but it cannot be a predecessor of a live node
          exfalso
          -- y' reaches a (live) hence y' ... we only know liveness forwards; use the closure of predecessors
          have hzlive : z ∈ v.g.nodes := c.ha
          -- every node on a walk INTO a live node is live (predecessor closure)
          have back : ∀ u w, ReachR v.g u w → w ∈ v.g.nodes → u ∈ v.g.nodes := by
            intro u w huw
            induction huw with
            | refl => intro h; exact h
            | @head u u' w hadj' _ ih' =>
              intro hw
              have hu' := ih' hw
              exact (c.hc u' hu').2 u ((c.hv.2 u' u).mpr hadj')
          exact hylive (back y z (ReachR.head hadj hrest) hzlive)
    exact claim x a (reachR_of_reach hr) rfl (by intro py hpy; rw [hpx] at hpy; cases hpy; exact hlt)

end Cones2

/-! ## Part B — sorted lists -/

abbrev SortedN (l : List Nat) : Prop := l.Pairwise (· < ·)

theorem sortedN_lt {l : List Nat} (hs : SortedN l) {i j : Nat} (hij : i < j) (hj : j < l.length) :
    l[i]'(by omega) < l[j] :=
  (List.pairwise_iff_getElem.mp hs) i j (by omega) hj hij

theorem sortedN_le {l : List Nat} (hs : SortedN l) {i j : Nat} (hij : i ≤ j) (hj : j < l.length) :
    l[i]'(by omega) ≤ l[j] := by
  rcases Nat.lt_or_eq_of_le hij with h | h
  · exact Nat.le_of_lt (sortedN_lt hs h hj)
  · subst h; exact Nat.le_refl _

/-- index order follows value order in a strictly sorted list -/
theorem sortedN_idx_lt {l : List Nat} (hs : SortedN l) {i j : Nat} (hi : i < l.length) (hj : j < l.length)
    (h : l[i] < l[j]) : i < j := by
  rcases Nat.lt_or_ge i j with h' | h'
  · exact h'
  · have := sortedN_le hs h' hi
    omega

/-- a sorted list drawn from a sorted list lies pointwise above its prefix … -/
theorem sub_le : ∀ (S A : List Nat), SortedN S → SortedN A → (∀ x, x ∈ A → x ∈ S) →
    A.length ≤ S.length ∧ ∀ i (hi : i < A.length) (hs : i < S.length), S[i] ≤ A[i] := by
  intro S
  induction S with
  | nil =>
    intro A _ _ hsub
    cases A with
    | nil => exact ⟨Nat.le_refl _, fun i hi => absurd hi (by simp)⟩
    | cons a A' => exact absurd (hsub a (List.mem_cons_self ..)) (by simp)
  | cons s S' ih =>
    intro A hS hA hsub
    have hS' : SortedN S' := (List.pairwise_cons.mp hS).2
    have hsl : ∀ x, x ∈ S' → s < x := (List.pairwise_cons.mp hS).1
    cases A with
    | nil => exact ⟨by simp, fun i hi => absurd hi (by simp)⟩
    | cons a A' =>
      have hA' : SortedN A' := (List.pairwise_cons.mp hA).2
      have hal : ∀ x, x ∈ A' → a < x := (List.pairwise_cons.mp hA).1
      by_cases has : a = s
      · subst has
        have hsub' : ∀ x, x ∈ A' → x ∈ S' := by
          intro x hx
          rcases List.mem_cons.mp (hsub x (List.mem_cons_of_mem _ hx)) with h | h
          · have := hal x hx; omega
          · exact h
        obtain ⟨hlen, hle⟩ := ih A' hS' hA' hsub'
        refine ⟨by simp; omega, ?_⟩
        intro i hi hs
        cases i with
        | zero => simp
        | succ k =>
          simp only [List.getElem_cons_succ]
          exact hle k (by simpa using hi) (by simpa using hs)
      · have ha' : a ∈ S' := by
          rcases List.mem_cons.mp (hsub a (List.mem_cons_self ..)) with h | h
          · exact absurd h has
          · exact h
        have hsa : s < a := hsl a ha'
        have hsub' : ∀ x, x ∈ a :: A' → x ∈ S' := by
          intro x hx
          rcases List.mem_cons.mp (hsub x hx) with h | h
          · rcases List.mem_cons.mp hx with h' | h'
            · omega
            · have := hal x h'; omega
          · exact h
        obtain ⟨hlen, hle⟩ := ih (a :: A') hS' hA hsub'
        refine ⟨by simp at hlen ⊢; omega, ?_⟩
        intro i hi hs
        have hi' : i < S'.length := by omega
        have h1 := hle i hi hi'
        -- (s :: S')[i] ≤ S'[i]
        have h2 : (s :: S')[i] ≤ S'[i] := by
          cases i with
          | zero =>
            simp only [List.getElem_cons_zero]
            exact Nat.le_of_lt (hsl _ (List.getElem_mem hi'))
          | succ k =>
            simp only [List.getElem_cons_succ]
            exact sortedN_le hS' (Nat.le_succ k) hi'
        omega

/-- … and pointwise below its suffix of the same length -/
theorem sub_ge : ∀ (S A : List Nat), SortedN S → SortedN A → (∀ x, x ∈ A → x ∈ S) →
    ∀ j k (hj : j < A.length) (hk : k < S.length), k = S.length - A.length + j → A[j] ≤ S[k] := by
  intro S
  induction S with
  | nil => intro A _ _ _ j k _ hk; exact absurd hk (by simp)
  | cons s S' ih =>
    intro A hS hA hsub j k hj hk hkeq
    have hS' : SortedN S' := (List.pairwise_cons.mp hS).2
    have hsl : ∀ x, x ∈ S' → s < x := (List.pairwise_cons.mp hS).1
    cases A with
    | nil => exact absurd hj (by simp)
    | cons a A' =>
      have hA' : SortedN A' := (List.pairwise_cons.mp hA).2
      have hal : ∀ x, x ∈ A' → a < x := (List.pairwise_cons.mp hA).1
      by_cases has : a = s
      · subst has
        have hsub' : ∀ x, x ∈ A' → x ∈ S' := by
          intro x hx
          rcases List.mem_cons.mp (hsub x (List.mem_cons_of_mem _ hx)) with h | h
          · have := hal x hx; omega
          · exact h
        have hlen := (sub_le S' A' hS' hA' hsub').1
        cases j with
        | zero =>
          simp only [List.getElem_cons_zero]
          have : (a :: S')[0] ≤ (a :: S')[k] := sortedN_le hS (Nat.zero_le k) hk
          simpa using this
        | succ j' =>
          simp only [List.length_cons] at hkeq hj hk
          cases k with
          | zero => omega
          | succ k' =>
            simp only [List.getElem_cons_succ]
            exact ih A' hS' hA' hsub' j' k' (by omega) (by omega) (by omega)
      · have ha' : a ∈ S' := by
          rcases List.mem_cons.mp (hsub a (List.mem_cons_self ..)) with h | h
          · exact absurd h has
          · exact h
        have hsa : s < a := hsl a ha'
        have hsub' : ∀ x, x ∈ a :: A' → x ∈ S' := by
          intro x hx
          rcases List.mem_cons.mp (hsub x hx) with h | h
          · rcases List.mem_cons.mp hx with h' | h'
            · omega
            · have := hal x h'; omega
          · exact h
        have hlen := (sub_le S' (a :: A') hS' hA hsub').1
        simp only [List.length_cons] at hkeq hk hlen
        cases k with
        | zero => omega
        | succ k' =>
          simp only [List.getElem_cons_succ]
          exact ih (a :: A') hS' hA hsub' j k' hj (by omega) (by simp only [List.length_cons]; omega)

/-! ## Part C — the reorder keeps every edge going forward -/

theorem getPos_of_n2p {om : OrderMap} {x p : Nat} (h : om.n2p[x]? = some p) : om.getPos x = .ok p := by
  simp [OrderMap.getPos, h]

namespace Cones2
variable {v : View} {om : OrderMap} {a b pa pb cap : Nat} {d1 d2 : DS}

theorem coneF (c : Cones2 v om a b pa pb cap d1 d2) : ConeOk v.g.nodes om d1.res :=
  (dfs_cone v c.hc om cap .fut pb pa (dfsFuel v)).1 b {} d1 .ok c.hb (coneOk_nil _ _) c.h1

theorem coneP (c : Cones2 v om a b pa pb cap d1 d2) : ConeOk v.g.nodes om d2.res :=
  (dfs_cone v c.hc om cap .past pb pa (dfsFuel v)).1 a _ d2 .ok c.ha (coneOk_nil _ _) c.h2

theorem memF (c : Cones2 v om a b pa pb cap d1 d2) (p x : Nat) :
    (p, x) ∈ d1.res ↔ x ∈ d1.disc ∧ om.getPos x = .ok p := by
  have hr := (dfs_res v c.hc om c.hinv cap .fut pb pa (dfsFuel v)).1 b {} d1 .ok c.hb (coneOk_nil _ _) c.h1
  constructor
  · intro hm
    rcases hr.new p x hm with h | ⟨h, _⟩
    · cases h
    · exact ⟨h, getPos_of_n2p (c.coneF.sub p x hm).2⟩
  · rintro ⟨hx, hp⟩
    rcases hr.all (by intro e h; cases h) x hx with h | ⟨q, hq⟩
    · cases h
    · have := getPos_of_n2p (c.coneF.sub q x hq).2
      rw [hp] at this; cases this; exact hq

theorem memP (c : Cones2 v om a b pa pb cap d1 d2) (p x : Nat) :
    (p, x) ∈ d2.res ↔ (x ∈ d2.disc ∧ x ∉ d1.disc) ∧ om.getPos x = .ok p := by
  have hr := (dfs_res v c.hc om c.hinv cap .past pb pa (dfsFuel v)).1 a _ d2 .ok c.ha (coneOk_nil _ _) c.h2
  constructor
  · intro hm
    rcases hr.new p x hm with h | ⟨h, h'⟩
    · cases h
    · exact ⟨⟨h, h'⟩, getPos_of_n2p (c.coneP.sub p x hm).2⟩
  · rintro ⟨⟨hx, hnx⟩, hp⟩
    rcases hr.all (by intro e h; cases h) x hx with h | ⟨q, hq⟩
    · exact absurd h hnx
    · have := getPos_of_n2p (c.coneP.sub q x hq).2
      rw [hp] at this; cases this; exact hq

/-- positions of the future cone lie in `[pb, pa)` -/
theorem boundsF (c : Cones2 v om a b pa pb cap d1 d2) {p x : Nat} (h : (p, x) ∈ d1.res) : pb ≤ p ∧ p < pa := by
  obtain ⟨hx, hp⟩ := (c.memF p x).mp h
  obtain ⟨hr, px, hpx, hlt⟩ := (c.fut_char x).mp hx
  rw [hp] at hpx; cases hpx
  refine ⟨?_, hlt⟩
  rcases (reach_pos c.hv c.hc c.hinv c.hov c.hb hr).2 with h' | h'
  · subst h'; rw [c.hpb] at hp; cases hp; exact Nat.le_refl _
  · exact Nat.le_of_lt (h' pb p c.hpb hp)

/-- positions of the past cone lie in `(pb, pa]` -/
theorem boundsP (c : Cones2 v om a b pa pb cap d1 d2) {p x : Nat} (h : (p, x) ∈ d2.res) : pb < p ∧ p ≤ pa := by
  obtain ⟨hx, hp⟩ := (c.memP p x).mp h
  obtain ⟨hr, px, hpx, hlt⟩ := (c.past_char x).mp hx
  rw [hp] at hpx; cases hpx
  refine ⟨hlt, ?_⟩
  have hxl := (c.coneP.sub p x h).1
  rcases (reach_pos c.hv c.hc c.hinv c.hov hxl hr).2 with h' | h'
  · subst h'; rw [c.hpa] at hp; cases hp; exact Nat.le_refl _
  · exact Nat.le_of_lt (h' p pa hp c.hpa)

end Cones2

theorem sorted_keys {m : PMap} (hs : Sorted m) : SortedN (pmKeys m) := by
  unfold pmKeys SortedN
  exact List.pairwise_map.mpr hs

/-- THE REORDER LEMMA (Pearce–Kelly): after the positions of both cones have been reassigned, every
edge of the graph — and the new edge `a → b` — goes from an earlier to a later position. -/
theorem reorder_valid {v : View} {om om' : OrderMap} {a b pa pb cap : Nat} {d1 d2 : DS}
    (c : Cones2 v om a b pa pb cap d1 d2) (hsrc : ∀ x y, y ∈ v.succ x → x ∈ v.g.nodes)
    (hlen : (allPositions d1.res d2.res).length = d1.res.length + d2.res.length)
    (hassign : assign om ((allPositions d1.res d2.res).zip (pmVals d2.res ++ pmVals d1.res)) = .ok om') :
    OrderValid v om' ∧ ∀ pa' pb', om'.getPos a = .ok pa' → om'.getPos b = .ok pb' → pa' < pb' := by
  -- abbreviations
  generalize hS : allPositions d1.res d2.res = S at hlen hassign
  have hkF := c.coneF
  have hkP := c.coneP
  have hSsorted : SortedN S := by
    rw [← hS]
    exact sorted_keys (sorted_insKeys sorted_nil)
  have hSmem : ∀ q, q ∈ S ↔ q ∈ pmKeys d1.res ∨ q ∈ pmKeys d2.res := by
    intro q
    rw [← hS]
    show q ∈ pmKeys (insKeys [] (pmKeys d1.res ++ pmKeys d2.res)) ↔ _
    rw [mem_keys_insKeys sorted_nil]
    simp [pmKeys]
  have hSbounds : ∀ q, q ∈ S → pb ≤ q ∧ q ≤ pa := by
    intro q hq
    rcases (hSmem q).mp hq with h | h
    · obtain ⟨x, hx⟩ := mem_pmKeys.mp h
      have := c.boundsF hx; omega
    · obtain ⟨x, hx⟩ := mem_pmKeys.mp h
      have := c.boundsP hx; omega
  -- the node list has no duplicates
  have hNnodup : (pmVals d2.res ++ pmVals d1.res).Nodup := by
    refine List.nodup_append.mpr ⟨cone_vals_nodup hkP, cone_vals_nodup hkF, ?_⟩
    intro x hx1 y hx2 hxy
    subst hxy
    obtain ⟨p, hp⟩ := mem_pmVals.mp hx1
    obtain ⟨q, hq⟩ := mem_pmVals.mp hx2
    exact ((c.memP p x).mp hp).1.2 ((c.memF q x).mp hq).1
  have hNlen : (pmVals d2.res ++ pmVals d1.res).length = S.length := by
    rw [hlen]; simp [pmVals]; omega
  obtain ⟨_, hn2p⟩ := assign_ok hassign
  have hsnd : (S.zip (pmVals d2.res ++ pmVals d1.res)).map (·.2) = pmVals d2.res ++ pmVals d1.res :=
    List.map_snd_zip (by omega)
  -- new position of the k-th node of the list
  have hnew : ∀ k (hk : k < S.length) (hk' : k < (pmVals d2.res ++ pmVals d1.res).length),
      (pmVals d2.res ++ pmVals d1.res)[k] ∈ v.g.nodes →
      om'.getPos (pmVals d2.res ++ pmVals d1.res)[k] = .ok S[k] := by
    intro k hk hk' hlive
    have hm : (S[k], (pmVals d2.res ++ pmVals d1.res)[k]) ∈ S.zip (pmVals d2.res ++ pmVals d1.res) := by
      refine List.mem_iff_getElem.mpr ⟨k, by rw [List.length_zip]; omega, ?_⟩
      simp [List.getElem_zip]
    obtain ⟨p0, hp0, _⟩ := c.hinv.live_p2n _ hlive
    have hlt : (pmVals d2.res ++ pmVals d1.res)[k] < om.n2p.length := by
      rcases Nat.lt_or_ge ((pmVals d2.res ++ pmVals d1.res)[k]) om.n2p.length with h | h
      · exact h
      · rw [List.getElem?_eq_none h] at hp0; cases hp0
    apply getPos_of_n2p
    rw [hn2p]
    exact assignN_mem (by rw [hsnd]; exact hNnodup) hm hlt
  -- past-cone nodes
  have hnewP : ∀ p x, (p, x) ∈ d2.res → ∃ i, ∃ (hi : i < d2.res.length) (hiS : i < S.length),
      d2.res[i] = (p, x) ∧ om'.getPos x = .ok S[i] := by
    intro p x hm
    obtain ⟨i, hi, heq⟩ := List.mem_iff_getElem.mp hm
    have hiS : i < S.length := by omega
    have hiN : i < (pmVals d2.res ++ pmVals d1.res).length := by omega
    have hNi : (pmVals d2.res ++ pmVals d1.res)[i] = x := by
      rw [List.getElem_append_left (by simp [pmVals]; exact hi)]
      simp [pmVals, heq]
    refine ⟨i, hi, hiS, heq, ?_⟩
    have := hnew i hiS hiN (by rw [hNi]; exact (hkP.sub p x hm).1)
    rw [hNi] at this; exact this
  -- future-cone nodes
  have hnewF : ∀ p x, (p, x) ∈ d1.res → ∃ j, ∃ (hj : j < d1.res.length) (hjS : d2.res.length + j < S.length),
      d1.res[j] = (p, x) ∧ om'.getPos x = .ok S[d2.res.length + j] := by
    intro p x hm
    obtain ⟨j, hj, heq⟩ := List.mem_iff_getElem.mp hm
    have hjS : d2.res.length + j < S.length := by omega
    have hjN : d2.res.length + j < (pmVals d2.res ++ pmVals d1.res).length := by omega
    have hNj : (pmVals d2.res ++ pmVals d1.res)[d2.res.length + j] = x := by
      rw [List.getElem_append_right (by simp [pmVals])]
      simp [pmVals, heq]
    refine ⟨j, hj, hjS, heq, ?_⟩
    have := hnew _ hjS hjN (by rw [hNj]; exact (hkF.sub p x hm).1)
    rw [hNj] at this; exact this
  -- unmoved nodes
  have hnewU : ∀ x, x ∉ d1.disc → ¬ (x ∈ d2.disc ∧ x ∉ d1.disc) → om'.getPos x = om.getPos x := by
    intro x h1 h2
    have hx : x ∉ (S.zip (pmVals d2.res ++ pmVals d1.res)).map (·.2) := by
      rw [hsnd]
      intro hx
      rcases List.mem_append.mp hx with hx | hx
      · obtain ⟨p, hp⟩ := mem_pmVals.mp hx
        exact h2 ((c.memP p x).mp hp).1
      · obtain ⟨p, hp⟩ := mem_pmVals.mp hx
        exact h1 ((c.memF p x).mp hp).1
    simp only [OrderMap.getPos, hn2p, assignN_not_mem hx]
  -- key lists are sub-lists of S
  have hKP : SortedN (pmKeys d2.res) := sorted_keys hkP.sorted
  have hKF : SortedN (pmKeys d1.res) := sorted_keys hkF.sorted
  have hKPsub : ∀ q, q ∈ pmKeys d2.res → q ∈ S := fun q hq => (hSmem q).mpr (Or.inr hq)
  have hKFsub : ∀ q, q ∈ pmKeys d1.res → q ∈ S := fun q hq => (hSmem q).mpr (Or.inl hq)
  -- moving down / up
  have hdown : ∀ i (hi : i < d2.res.length) (hiS : i < S.length), S[i] ≤ d2.res[i].1 := by
    intro i hi hiS
    have := (sub_le S (pmKeys d2.res) hSsorted hKP hKPsub).2 i (by simp [pmKeys]; exact hi) hiS
    simpa [pmKeys] using this
  have hup : ∀ j (hj : j < d1.res.length) (hjS : d2.res.length + j < S.length), d1.res[j].1 ≤ S[d2.res.length + j] := by
    intro j hj hjS
    have := sub_ge S (pmKeys d1.res) hSsorted hKF hKFsub j (d2.res.length + j) (by simp [pmKeys]; exact hj) hjS
      (by simp [pmKeys]; omega)
    simpa [pmKeys] using this
  -- order of indices inside a cone follows the old positions
  have hidxP : ∀ i i' (hi : i < d2.res.length) (hi' : i' < d2.res.length), d2.res[i].1 < d2.res[i'].1 → i < i' := by
    intro i i' hi hi' h
    have := sortedN_idx_lt hKP (i := i) (j := i') (by simp [pmKeys]; exact hi) (by simp [pmKeys]; exact hi')
      (by simpa [pmKeys] using h)
    exact this
  have hidxF : ∀ j j' (hj : j < d1.res.length) (hj' : j' < d1.res.length), d1.res[j].1 < d1.res[j'].1 → j < j' := by
    intro j j' hj hj' h
    have := sortedN_idx_lt hKF (i := j) (j := j') (by simp [pmKeys]; exact hj) (by simp [pmKeys]; exact hj')
      (by simpa [pmKeys] using h)
    exact this
  -- classification of a live node
  have hclass : ∀ x, x ∈ v.g.nodes → ∀ px, om.getPos x = .ok px →
      (px, x) ∈ d1.res ∨ (px, x) ∈ d2.res ∨ (x ∉ d1.disc ∧ ¬ (x ∈ d2.disc ∧ x ∉ d1.disc)) := by
    intro x _ px hpx
    by_cases h1 : x ∈ d1.disc
    · exact Or.inl ((c.memF px x).mpr ⟨h1, hpx⟩)
    · by_cases h2 : x ∈ d2.disc
      · exact Or.inr (Or.inl ((c.memP px x).mpr ⟨⟨h2, h1⟩, hpx⟩))
      · exact Or.inr (Or.inr ⟨h1, fun h => h2 h.1⟩)
  constructor
  · -- every old edge
    intro x y hxy px' py' hpx' hpy'
    have hxl : x ∈ v.g.nodes := hsrc x y hxy
    have hyl : y ∈ v.g.nodes := (c.hc x hxl).1 y hxy
    obtain ⟨px, hpx, _⟩ := c.hinv.getPos hxl
    obtain ⟨py, hpy, _⟩ := c.hinv.getPos hyl
    have hlt : px < py := c.hov x y hxy px py hpx hpy
    have hadj : Adj v.g x y := (c.hv.1 x y).mp hxy
    rcases hclass x hxl px hpx with hxF | hxP | hxU
    · -- x in the future cone
      obtain ⟨j, hj, hjS, hjeq, hjpos⟩ := hnewF px x hxF
      rw [hjpos] at hpx'; cases hpx'
      have hbx : Reach v.g b x := ((c.fut_char x).mp ((c.memF px x).mp hxF).1).1
      rcases hclass y hyl py hpy with hyF | hyP | hyU
      · obtain ⟨j', hj', hj'S, hj'eq, hj'pos⟩ := hnewF py y hyF
        rw [hj'pos] at hpy'; cases hpy'
        have : j < j' := hidxF j j' hj hj' (by rw [hjeq, hj'eq]; exact hlt)
        exact sortedN_lt hSsorted (by omega) hj'S
      · exfalso
        have hya : Reach v.g y a := ((c.past_char y).mp ((c.memP py y).mp hyP).1).1
        exact c.noPath (reach_trans (Reach.step hbx hadj) hya)
      · rw [hnewU y hyU.1 hyU.2, hpy] at hpy'; cases hpy'
        have hby : Reach v.g b y := Reach.step hbx hadj
        have hge : pa ≤ py' := by
          rcases Nat.lt_or_ge py' pa with h | h
          · exact absurd ((c.fut_char y).mpr ⟨hby, py', hpy, h⟩) hyU.1
          · exact h
        have hne : py' ≠ pa := by
          intro he
          subst he
          have hya : y = a := by
            apply Classical.byContradiction
            intro hne
            have := c.hinv.pos_inj hyl c.ha hne
            rw [hpy, c.hpa] at this
            exact this rfl
          subst hya
          exact hyU.2 ((c.past_char y).mpr ⟨Reach.refl _, py', hpy, c.hlt⟩)
        have := (hSbounds _ (List.getElem_mem hjS)).2
        omega
    · -- x in the past cone
      obtain ⟨i, hi, hiS, hieq, hipos⟩ := hnewP px x hxP
      rw [hipos] at hpx'; cases hpx'
      rcases hclass y hyl py hpy with hyF | hyP | hyU
      · obtain ⟨j', hj', hj'S, hj'eq, hj'pos⟩ := hnewF py y hyF
        rw [hj'pos] at hpy'; cases hpy'
        exact sortedN_lt hSsorted (by omega) hj'S
      · obtain ⟨i', hi', hi'S, hi'eq, hi'pos⟩ := hnewP py y hyP
        rw [hi'pos] at hpy'; cases hpy'
        have : i < i' := hidxP i i' hi hi' (by rw [hieq, hi'eq]; exact hlt)
        exact sortedN_lt hSsorted this hi'S
      · rw [hnewU y hyU.1 hyU.2, hpy] at hpy'; cases hpy'
        have := hdown i hi hiS
        rw [hieq] at this
        simp only at this
        omega
    · -- x not moved
      rw [hnewU x hxU.1 hxU.2, hpx] at hpx'; cases hpx'
      rcases hclass y hyl py hpy with hyF | hyP | hyU
      · obtain ⟨j', hj', hj'S, hj'eq, hj'pos⟩ := hnewF py y hyF
        rw [hj'pos] at hpy'; cases hpy'
        have := hup j' hj' hj'S
        rw [hj'eq] at this
        simp only at this
        omega
      · obtain ⟨i', hi', hi'S, hi'eq, hi'pos⟩ := hnewP py y hyP
        rw [hi'pos] at hpy'; cases hpy'
        have hya : Reach v.g y a := ((c.past_char y).mp ((c.memP py y).mp hyP).1).1
        have hxa : Reach v.g x a := reach_trans (Reach.step (Reach.refl _) hadj) hya
        have hle : px' ≤ pb := by
          rcases Nat.lt_or_ge pb px' with h | h
          · exact absurd ((c.past_char x).mpr ⟨hxa, px', hpx, h⟩) hxU.2
          · exact h
        have hne : px' ≠ pb := by
          intro he
          subst he
          have hxb : x = b := by
            apply Classical.byContradiction
            intro hne
            have := c.hinv.pos_inj hxl c.hb hne
            rw [hpx, c.hpb] at this
            exact this rfl
          subst hxb
          exact c.noPath hxa
        have := (hSbounds _ (List.getElem_mem hi'S)).1
        omega
      · rw [hnewU y hyU.1 hyU.2, hpy] at hpy'; cases hpy'
        exact hlt
  · -- the new edge
    intro pa' pb' hpa' hpb'
    have haP : (pa, a) ∈ d2.res :=
      (c.memP pa a).mpr ⟨(c.past_char a).mpr ⟨Reach.refl _, pa, c.hpa, c.hlt⟩, c.hpa⟩
    have hbF : (pb, b) ∈ d1.res :=
      (c.memF pb b).mpr ⟨(c.fut_char b).mpr ⟨Reach.refl _, pb, c.hpb, c.hlt⟩, c.hpb⟩
    obtain ⟨i, hi, hiS, _, hipos⟩ := hnewP pa a haP
    obtain ⟨j, hj, hjS, _, hjpos⟩ := hnewF pb b hbF
    rw [hipos] at hpa'; cases hpa'
    rw [hjpos] at hpb'; cases hpb'
    exact sortedN_lt hSsorted (by omega) hjS

/-! ## Part D — `try_add_edge` keeps the order valid; histories -/

theorem tryAddEdge_accepted_inv {v : View} {s s' : AState} {a b : Nat}
    (h : tryAddEdge v s a b = .ok (s', .accepted)) : a ≠ b ∧ updateOrdering v s a b = .ok (s', true) := by
  unfold tryAddEdge at h
  split at h
  · cases h
  rename_i hab
  refine ⟨hab, ?_⟩
  cases hu : updateOrdering v s a b with
  | error e => simp [hu] at h
  | ok sr =>
    obtain ⟨s1, okb⟩ := sr
    simp only [hu] at h
    cases okb with
    | false => simp only at h; cases h
    | true =>
      simp only at h
      split at h
      · cases h; rfl
      · cases h

theorem updateOrdering_true_inv {v : View} {s s' : AState} {a b : Nat}
    (h : updateOrdering v s a b = .ok (s', true)) :
    ∃ pa pb, s.om.getPos a = .ok pa ∧ s.om.getPos b = .ok pb ∧
      ((pa ≤ pb ∧ s' = s) ∨
       (pb < pa ∧ ∃ s1 bf ap om2, causalCones v s b a = .ok (s1, some (bf, ap)) ∧
          (allPositions bf ap).length = bf.length + ap.length ∧
          assign s1.om ((allPositions bf ap).zip (pmVals ap ++ pmVals bf)) = .ok om2 ∧
          s' = { s1 with om := om2 })) := by
  unfold updateOrdering at h
  split at h
  · cases h
  rename_i pb hpb
  split at h
  · cases h
  rename_i pa hpa
  refine ⟨pa, pb, hpa, hpb, ?_⟩
  split at h
  · rename_i hge
    cases h
    exact Or.inl ⟨hge, rfl⟩
  rename_i hlt
  refine Or.inr ⟨by omega, ?_⟩
  cases hcc : causalCones v s b a with
  | error e => simp [hcc] at h
  | ok sc =>
    obtain ⟨s1, c⟩ := sc
    simp only [hcc] at h
    cases c with
    | none => simp only at h; cases h
    | some bc =>
      obtain ⟨bf, ap⟩ := bc
      simp only at h
      split at h
      · cases h
      rename_i hlen
      split at h
      · cases h
      · rename_i om2 hassign
        cases h
        exact ⟨s1, bf, ap, om2, rfl, by simpa using hlen, hassign, rfl⟩

/-- `C14_order_valid`: an accepted insertion leaves an order in which every old edge and the new
edge go forward -/
theorem order_valid_accept {v : View} {s s' : AState} {a b : Nat} (hv : ViewOk v) (hinv : Inv v s)
    (hov : OrderValid v s.om) (hsrc : ∀ x y, y ∈ v.succ x → x ∈ v.g.nodes)
    (ha : a ∈ v.g.nodes) (hb : b ∈ v.g.nodes)
    (h : tryAddEdge v s a b = .ok (s', .accepted)) :
    OrderValid v s'.om ∧ ∀ pa' pb', s'.om.getPos a = .ok pa' → s'.om.getPos b = .ok pb' → pa' < pb' := by
  obtain ⟨hom, hclr, hcl⟩ := hinv
  obtain ⟨hab, hu⟩ := tryAddEdge_accepted_inv h
  obtain ⟨pa, pb, hpa, hpb, hcase⟩ := updateOrdering_true_inv hu
  rcases hcase with ⟨hle, rfl⟩ | ⟨hlt, s1, bf, ap, om2, hcc, hlen, hassign, rfl⟩
  · refine ⟨hov, ?_⟩
    intro pa' pb' hpa' hpb'
    rw [hpa] at hpa'; cases hpa'
    rw [hpb] at hpb'; cases hpb'
    have := hom.pos_inj ha hb hab
    rw [hpa, hpb] at this
    have hne : pa ≠ pb := fun he => this (by rw [he])
    omega
  · obtain ⟨hom1, _, _, _, _⟩ := causalCones_spec hcl hb ha hcc
    obtain ⟨minP, maxP, cap, hmin, hmax, hcase⟩ := causalCones_inv hcc
    rw [hpb] at hmin; cases hmin
    rw [hpa] at hmax; cases hmax
    rcases hcase with ⟨hnone, _⟩ | ⟨d1, d2, hd1, hd2, hsome⟩
    · cases hnone
    · cases hsome
      have c : Cones2 v s.om a b pa pb cap d1 d2 :=
        ⟨hv, hcl, hom, hov, ha, hb, hab, hpa, hpb, hlt, hd1, hd2⟩
      rw [hom1] at hassign
      exact reorder_valid c hsrc hlen hassign

/-- the stronger invariant: order map, scratch sets, well-formed view AND a valid order -/
def Inv2 (v : View) (s : AState) : Prop :=
  Inv v s ∧ OrderValid v s.om ∧ ViewOk v ∧ (∀ x y, y ∈ v.succ x → x ∈ v.g.nodes)

/-- the renaming `Graph::remove_node(n)` applies when it moves its last node into `n` -/
def rho (v v' : View) (n : Nat) (z : Nat) : Nat :=
  if z = n ∧ n ∈ v'.g.nodes then v.nb - 1 else z

/-- the inner-graph contract about EDGES, per call (on top of `Call.InnerOk`) -/
def EdgesOk (v : View) : Call → Prop
  | .addNode _ v' => (∀ x y, y ∈ v'.succ x → y ∈ v.succ x) ∧ ViewOk v' ∧ (∀ x y, y ∈ v'.succ x → x ∈ v'.g.nodes)
  | .edge a b v' => (∀ x y, y ∈ v'.succ x → y ∈ v.succ x ∨ (x = a ∧ y = b)) ∧ ViewOk v' ∧
      (∀ x y, y ∈ v'.succ x → x ∈ v'.g.nodes)
  | .removeNode n v' => (∀ x y, y ∈ v'.succ x → rho v v' n y ∈ v.succ (rho v v' n x)) ∧ ViewOk v' ∧
      (∀ x y, y ∈ v'.succ x → x ∈ v'.g.nodes)
  | .removeEdge v' => (∀ x y, y ∈ v'.succ x → y ∈ v.succ x) ∧ ViewOk v' ∧ (∀ x y, y ∈ v'.succ x → x ∈ v'.g.nodes)
  | .isValid _ _ => True

theorem addNode_getPos {v' : View} {s s' : AState} {i : Nat} (h : Acy.addNode v' s i = .ok s')
    (x : Nat) (hx : x ≠ i) (px : Nat) (hpx : s'.om.getPos x = .ok px) : s.om.getPos x = .ok px ∨ s.om.n2p.length ≤ x := by
  unfold Acy.addNode at h
  split at h
  · cases h
  rename_i om' hom'
  cases h
  unfold OrderMap.addNode at hom'
  simp only at hom'
  generalize hn1 : (if i ≥ s.om.n2p.length then resize0 s.om.n2p v'.nb else s.om.n2p) = n2p1 at hom'
  split at hom'
  case isFalse => cases hom'
  rename_i hlen
  cases hom'
  simp only [OrderMap.getPos] at hpx ⊢
  rw [List.getElem?_set_ne (Ne.symm hx)] at hpx
  rcases Nat.lt_or_ge x s.om.n2p.length with hlt | hge
  · left
    have hkeep : n2p1[x]? = s.om.n2p[x]? := by
      subst hn1
      by_cases hge' : i ≥ s.om.n2p.length
      · rw [if_pos hge', resize0_length] at hlen
        rw [if_pos hge', resize0_getElem? _ _ _ hlt (by omega)]
      · rw [if_neg hge']
    rw [hkeep] at hpx
    exact hpx
  · exact Or.inr hge

theorem inv2_step {v : View} {s : AState} {c : Call} {v1 : View} {s1 : AState} (hinv : Inv2 v s)
    (hok : c.InnerOk v) (hek : EdgesOk v c) (h : stepCall v s c = .ok (v1, s1)) : Inv2 v1 s1 := by
  obtain ⟨hi, hov, hv, hsrc⟩ := hinv
  have hi1 : Inv v1 s1 := inv_step hi hok h
  obtain ⟨hom, hclr, hcl⟩ := hi
  cases c with
  | addNode i v' =>
    obtain ⟨hni, hL, hcl'⟩ := hok
    obtain ⟨hsub, hv', hsrc'⟩ := hek
    simp only [stepCall] at h
    split at h
    · rename_i s' hs
      cases h
      refine ⟨hi1, ?_, hv', hsrc'⟩
      intro x y hxy px py hpx hpy
      have hxy0 := hsub x y hxy
      have hxl : x ∈ v.g.nodes := hsrc x y hxy0
      have hyl : y ∈ v.g.nodes := (hcl x hxl).1 y hxy0
      have hxi : x ≠ i := fun he => hni (he ▸ hxl)
      have hyi : y ≠ i := fun he => hni (he ▸ hyl)
      obtain ⟨qx, hqx, _⟩ := hom.getPos hxl
      obtain ⟨qy, hqy, _⟩ := hom.getPos hyl
      have hx' : s.om.getPos x = .ok px := by
        rcases addNode_getPos hs x hxi px hpx with h' | h'
        · exact h'
        · simp only [OrderMap.getPos, List.getElem?_eq_none h'] at hqx; cases hqx
      have hy' : s.om.getPos y = .ok py := by
        rcases addNode_getPos hs y hyi py hpy with h' | h'
        · exact h'
        · simp only [OrderMap.getPos, List.getElem?_eq_none h'] at hqy; cases hqy
      exact hov x y hxy0 px py hx' hy'
    · cases h
  | edge a b v' =>
    obtain ⟨ha, hb, hL, hcl'⟩ := hok
    obtain ⟨hsub, hv', hsrc'⟩ := hek
    simp only [stepCall] at h
    cases hs : tryAddEdge v s a b with
    | error e => simp [hs] at h
    | ok sr =>
      obtain ⟨s', r⟩ := sr
      simp only [hs] at h
      cases r with
      | accepted =>
        simp only at h
        cases h
        obtain ⟨hov', hnew⟩ := order_valid_accept hv ⟨hom, hclr, hcl⟩ hov hsrc ha hb hs
        refine ⟨hi1, ?_, hv', hsrc'⟩
        intro x y hxy px py hpx hpy
        rcases hsub x y hxy with h0 | ⟨rfl, rfl⟩
        · exact hov' x y h0 px py hpx hpy
        · exact hnew px py hpx hpy
      | selfLoop =>
        simp only at h
        cases h
        have hrej := (tryAddEdge_spec hcl hom hclr ha hb hs).2.2.2 (by intro he; cases he)
        refine ⟨hi1, ?_, hv, hsrc⟩
        rw [hrej.1]; exact hov
      | cycle n =>
        simp only at h
        cases h
        have hrej := (tryAddEdge_spec hcl hom hclr ha hb hs).2.2.2 (by intro he; cases he)
        refine ⟨hi1, ?_, hv, hsrc⟩
        rw [hrej.1]; exact hov
  | removeNode n v' =>
    obtain ⟨hct, hcl'⟩ := hok
    obtain ⟨hsub, hv', hsrc'⟩ := hek
    simp only [stepCall] at h
    by_cases hn : n ∈ v.g.nodes
    · split at h
      · rename_i s' hs
        cases h
        refine ⟨hi1, ?_, hv', hsrc'⟩
        obtain ⟨hoth, hmoved⟩ := removeNode_positions hs
        intro x y hxy px py hpx hpy
        have hxl' : x ∈ v1.g.nodes := hsrc' x y hxy
        have hyl' : y ∈ v1.g.nodes := (hcl' x hxl').1 y hxy
        have h0 := hsub x y hxy
        -- old positions of the renamed endpoints
        have key : ∀ z pz, z ∈ v1.g.nodes → s1.om.getPos z = .ok pz → s.om.getPos (rho v v1 n z) = .ok pz := by
          intro z pz hz hpz
          unfold rho
          by_cases hzn : z = n
          · subst hzn
            simp only [true_and, hz, ↓reduceIte]
            rcases hct hn with ⟨hdead, _⟩ | ⟨_, _, hne, _⟩
            · exact absurd hz hdead
            · rw [← hmoved hn hz hne]; exact hpz
          · simp only [hzn, false_and, ↓reduceIte]
            rw [← hoth z hzn]; exact hpz
        exact hov _ _ h0 px py (key x px hxl' hpx) (key y py hyl' hpy)
      · rename_i s' hs
        have := (inv_removeNode hom hn (hct hn) hs).2
        cases this
      · cases h
    · rw [removeNode_absent v v' s n hn] at h
      cases h
      exact ⟨hi1, hov, hv, hsrc⟩
  | removeEdge v' =>
    obtain ⟨hL, hcl'⟩ := hok
    obtain ⟨hsub, hv', hsrc'⟩ := hek
    simp only [stepCall] at h
    cases h
    refine ⟨hi1, ?_, hv', hsrc'⟩
    intro x y hxy px py hpx hpy
    exact hov x y (hsub x y hxy) px py hpx hpy
  | isValid a b =>
    obtain ⟨ha, hb⟩ := hok
    simp only [stepCall] at h
    split at h
    · rename_i s' r hs
      cases h
      obtain ⟨h1, _, _⟩ := isValidEdge_spec hcl ha hb hclr hs
      refine ⟨hi1, ?_, hv, hsrc⟩
      rw [h1]; exact hov
    · cases h

/-- the full inner-graph contract along a history -/
def HistoryOk2 : View → AState → List Call → Prop
  | _, _, [] => True
  | v, s, c :: cs => c.InnerOk v ∧ EdgesOk v c ∧ ∀ v1 s1, stepCall v s c = .ok (v1, s1) → HistoryOk2 v1 s1 cs

theorem inv2_history : ∀ (cs : List Call) (v : View) (s : AState) (vn : View) (sn : AState), Inv2 v s →
    HistoryOk2 v s cs → runCalls v s cs = .ok (vn, sn) → Inv2 vn sn := by
  intro cs
  induction cs with
  | nil => intro v s vn sn hinv _ h; simp only [runCalls] at h; cases h; exact hinv
  | cons c cs ih =>
    intro v s vn sn hinv hok h
    simp only [runCalls] at h
    split at h
    · rename_i v1 s1 hs
      exact ih v1 s1 vn sn (inv2_step hinv hok.1 hok.2.1 hs) (hok.2.2 v1 s1 hs) h
    · cases h

/-- a valid order makes the maintained `nodes_iter` a topological order of the inner graph -/
theorem inv2_topo {v : View} {s : AState} (h : Inv2 v s)
    (hwf : ∀ e ∈ v.g.edges, e.src ∈ v.g.nodes ∧ e.tgt ∈ v.g.nodes) :
    ∀ e ∈ v.g.edges, ∃ ps pt, s.om.getPos e.src = .ok ps ∧ s.om.getPos e.tgt = .ok pt ∧ ps < pt := by
  obtain ⟨⟨hom, _, _⟩, hov, hv, _⟩ := h
  intro e he
  obtain ⟨hs, ht⟩ := hwf e he
  obtain ⟨ps, hps, _⟩ := hom.getPos hs
  obtain ⟨pt, hpt, _⟩ := hom.getPos ht
  have hadj : Adj v.g e.src e.tgt := ⟨e, he, Or.inl ⟨rfl, rfl⟩⟩
  exact ⟨ps, pt, hps, hpt, hov _ _ ((hv.1 _ _).mpr hadj) ps pt hps hpt⟩

end PetgraphModel.AcyPK
