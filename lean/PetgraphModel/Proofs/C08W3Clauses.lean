import PetgraphModel.Proofs.C08W3Total
import PetgraphModel.Proofs.C08W2Topo
/-
C08 (wave 3): clauses that were not covered so far —
reverse post-order of a DAG is a topological order, `Topo` emits every node iff the graph is
acyclic, the order property of `Topo.withInitials`.
-/
namespace PetgraphModel.TravProofs
open PetgraphModel PetgraphModel.Trav PetgraphModel.MGraph

theorem idxOf_reverse {l : List Nat} (hl : l.Nodup) {x : Nat} (hx : x ∈ l) :
    l.reverse.idxOf x + l.idxOf x + 1 = l.length := by
  induction l with
  | nil => cases hx
  | cons a t ih =>
    have hat : a ∉ t := (List.nodup_cons.mp hl).1
    have htn : t.Nodup := (List.nodup_cons.mp hl).2
    rw [List.reverse_cons]
    by_cases hxa : x = a
    · subst hxa
      rw [idxOf_snoc_new (by simpa using hat)]
      simp
    · have hxt : x ∈ t := by
        rcases List.mem_cons.mp hx with h | h
        · exact absurd h hxa
        · exact h
      rw [idxOf_snoc_mem (by simpa using hxt)]
      have := ih htn hxt
      have h2 : (a :: t).idxOf x = t.idxOf x + 1 := by
        rw [List.idxOf_cons]
        have : (a == x) = false := by simpa using fun h : a = x => hxa h.symm
        simp [this]
      rw [h2]
      simp only [List.length_cons]
      omega

/-- the end node of a walk with at least one edge is a node of a well-formed graph -/
theorem reach1_mem_nodes {g : MGraph} (hwf : g.WellFormed) {a b : Nat} (h : Reach1 g a b) : b ∈ g.nodes := by
  have adj : ∀ {a b : Nat}, g.Adj a b → b ∈ g.nodes := by
    intro a b h
    obtain ⟨e, he, h | h⟩ := h
    · exact h.2 ▸ (hwf.2 e he).2
    · exact h.2.1 ▸ (hwf.2 e he).1
  cases h with
  | single h => exact adj h
  | step _ h => exact adj h

theorem reach1_of_adj_reach {g : MGraph} {a b c : Nat} (h1 : g.Adj a b) (h2 : Reach g b c) : Reach1 g a c := by
  induction h2 with
  | refl => exact Reach1.single h1
  | step _ hadj ih => exact Reach1.step ih hadj

/-- on a graph without cycles the reverse of the `DfsPostOrder` output is a topological order of the
reachable part: it lists exactly the reachable nodes, each once, and every edge out of a listed node
points forward -/
theorem post_reverse_topo (v : View) (hv : ViewOk v) (s : Nat) (inner outer : Nat) (out : List Nat)
    (d' : Trav.Post) (h : postAll v inner outer { stack := [s] } [] = some (out, d'))
    (hdag : ∀ c, ¬ Reach1 v.g c c) :
    out.reverse.Nodup ∧ (∀ x, x ∈ out.reverse ↔ Reach v.g s x) ∧
    ∀ x y, x ∈ out.reverse → v.g.Adj x y →
      y ∈ out.reverse ∧ out.reverse.idxOf x < out.reverse.idxOf y := by
  obtain ⟨hnd, hset⟩ := post_set v hv s inner outer out d' h
  refine ⟨List.nodup_reverse.mpr hnd, fun x => by rw [List.mem_reverse]; exact hset x, ?_⟩
  intro x y hx hxy
  rw [List.mem_reverse] at hx
  have hy : y ∈ out := (hset y).mpr (Reach.step ((hset x).mp hx) hxy)
  have hback : ¬ Reach v.g y x := fun hyx => hdag x (reach1_of_adj_reach hxy hyx)
  have hlt := post_order v hv s inner outer out d' h x y hx hxy hback
  have h1 := idxOf_reverse hnd hx
  have h2 := idxOf_reverse hnd hy
  refine ⟨List.mem_reverse.mpr hy, ?_⟩
  omega

/-- `Topo` (from `Topo.new`) emits every node exactly when the graph has no cycle -/
theorem topo_all_iff_acyclic (v : View) (hv : ViewOk v) (hp : PredOk v) (hwf : v.g.WellFormed)
    (inner outer : Nat) (out : List Nat) (h : topoAll v inner outer (Topo.new v) [] = some out) :
    (∀ x, x ∈ v.g.nodes → x ∈ out) ↔ ∀ c, ¬ Reach1 v.g c c := by
  constructor
  · intro hall c hc
    have hcn : c ∈ v.g.nodes := reach1_mem_nodes hwf hc
    exact topo_no_cyclic v hv hp inner outer out h c c hc (Reach.refl c) (hall c hcn)
  · intro hac x hx
    exact topo_complete v hv hp hwf inner outer out h x hx (fun c hc _ => hac c hc)

/-- `Topo.withInitials`: whatever initial list is given, no node is emitted twice and every emitted
node comes after all its predecessors (which were all emitted) -/
theorem topo_withInitials_order (v : View) (hp : PredOk v) (l : List Nat) (inner outer : Nat) (out : List Nat)
    (h : topoAll v inner outer (Topo.withInitials v l) [] = some out) :
    out.Nodup ∧ ∀ x ∈ out, ∀ p, v.g.Adj p x → p ∈ out ∧ out.idxOf p < out.idxOf x := by
  refine topoAll_inv v hp inner outer _ [] out ⟨List.nodup_nil, by simp [Topo.withInitials], ?_, by simp⟩ h
  intro x hx p hpx
  simp only [Topo.withInitials, Topo.initials, List.mem_reverse, List.mem_filter, List.isEmpty_iff] at hx
  have := (hp x p).mpr hpx
  rw [hx.2] at this
  cases this

/-- consequently `Topo.withInitials` never emits a node on or downstream of a cycle -/
theorem topo_withInitials_no_cyclic (v : View) (hp : PredOk v) (l : List Nat) (inner outer : Nat) (out : List Nat)
    (h : topoAll v inner outer (Topo.withInitials v l) [] = some out) (c x : Nat)
    (hc : Reach1 v.g c c) (hcx : Reach v.g c x) : x ∉ out := by
  have ho := (topo_withInitials_order v hp l inner outer out h).2
  intro hx
  have hcout : c ∈ out := by
    induction hcx with
    | refl => exact hx
    | step _ hadj ih => exact ih (ho _ hx _ hadj).1
  have key : ∀ a b, Reach1 v.g a b → b ∈ out → a ∈ out ∧ out.idxOf a < out.idxOf b := by
    intro a b hab
    induction hab with
    | single hadj => exact fun hb => ho _ hb _ hadj
    | step _ hadj ih =>
      intro hc'
      have h1 := ho _ hc' _ hadj
      have h2 := ih h1.1
      exact ⟨h2.1, Nat.lt_trans h2.2 h1.2⟩
  exact Nat.lt_irrefl _ (key c c hc hcout).2

/-- every node `Topo.withInitials` emits is one of the given initial nodes without predecessor or
is reachable from one -/
theorem topo_withInitials_sound (v : View) (hv : ViewOk v) (l : List Nat) (inner : Nat) :
    ∀ (k : Nat) (t : Topo) (acc out : List Nat),
      (∀ x, x ∈ t.tovisit → ∃ i, i ∈ l ∧ v.pred i = [] ∧ Reach v.g i x) →
      (∀ x, x ∈ acc → ∃ i, i ∈ l ∧ v.pred i = [] ∧ Reach v.g i x) →
      topoAll v inner k t acc = some out →
      ∀ x, x ∈ out → ∃ i, i ∈ l ∧ v.pred i = [] ∧ Reach v.g i x := by
  have step : ∀ (f : Nat) (t : Topo) (r : Option Nat) (t' : Topo),
      (∀ x, x ∈ t.tovisit → ∃ i, i ∈ l ∧ v.pred i = [] ∧ Reach v.g i x) →
      topoNext v f t = some (r, t') →
      (∀ x, x ∈ t'.tovisit → ∃ i, i ∈ l ∧ v.pred i = [] ∧ Reach v.g i x) ∧
      (∀ x, r = some x → ∃ i, i ∈ l ∧ v.pred i = [] ∧ Reach v.g i x) := by
    intro f
    induction f with
    | zero => intro t r t' _ h; simp [topoNext] at h
    | succ f ih =>
      intro t r t' hst h
      rw [topoNext] at h
      split at h
      · simp only [Option.some.injEq, Prod.mk.injEq] at h
        obtain ⟨rfl, rfl⟩ := h
        exact ⟨hst, fun x hx => by cases hx⟩
      · rename_i y rest hs
        rw [hs] at hst
        split at h
        · exact ih _ r t' (fun x hx => hst x (List.mem_cons_of_mem _ hx)) h
        · simp only [Option.some.injEq, Prod.mk.injEq] at h
          obtain ⟨rfl, rfl⟩ := h
          obtain ⟨i, hi, hi0, hiy⟩ := hst y (List.mem_cons_self ..)
          refine ⟨?_, fun x hx => by cases hx; exact ⟨i, hi, hi0, hiy⟩⟩
          intro x hx
          simp only [List.mem_append, List.mem_reverse, List.mem_filter] at hx
          rcases hx with ⟨hx, _⟩ | hx
          · exact ⟨i, hi, hi0, Reach.step hiy ((hv y x).mp hx)⟩
          · exact hst x (List.mem_cons_of_mem _ hx)
  intro k
  induction k with
  | zero => intro t acc out _ _ h; simp [topoAll] at h
  | succ k ih =>
    intro t acc out hst hacc h
    rw [topoAll] at h
    split at h
    · cases h
    · simp only [Option.some.injEq] at h
      subst h
      exact hacc
    · rename_i x t1 hn
      obtain ⟨h1, h2⟩ := step inner t (some x) t1 hst hn
      refine ih t1 _ out h1 ?_ h
      intro y hy
      rcases List.mem_append.mp hy with hy | hy
      · exact hacc y hy
      · simp at hy; subst hy; exact h2 y rfl

end PetgraphModel.TravProofs
