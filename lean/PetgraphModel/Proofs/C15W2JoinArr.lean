import PetgraphModel.Proofs.C15W2JoinC
/-
C15 wave 2 — `find_join` on the arrays: the three phases put together.
-/
namespace PetgraphModel.C15W2
open PetgraphModel PetgraphModel.C15 PetgraphModel.C15M PetgraphModel.C15P

section
variable {c : Ctx} {k : Key} {esrc etgt : Nat} {lab0 : List Label} {fi0 : List Nat}

theorem endpoint_spec (hm0 : c.m0.length = c.v.nb + 1) (U R L : List Nat) (join : Nat)
    (hU : ChainOK c lab0 fi0 U) (hUL : U = L ++ join :: R)
    (st : GS × List Nat) (endpoint : Nat) (he : endpoint < st.1.fi.length)
    (hhead : fiI st.1.fi endpoint = hdOr L join)
    (hmate : st.1.mate = c.m0) (hfault : st.1.fault = false)
    (hlabLen : st.1.label.length = c.v.nb + 1) (hfiLen : st.1.fi.length = c.v.nb + 1)
    (hlabO : ∀ j, (labI lab0 j).isOuter = true → labI st.1.label j = labI lab0 j)
    (hfiO : ∀ j, (labI lab0 j).isOuter = true → fiI st.1.fi j = fiI fi0 j) :
    ∃ r : LSt, endpointStep c.v k esrc etgt join (4 * (c.v.nb + 2)) endpoint st = .yield (r.1, r.2.1) ∧
      LPost c k esrc etgt st.1 st.2 L join r := by
  unfold endpointStep
  rw [getFi_eq _ _ he]
  simp only [flt_false]
  refine ⟨_, rfl, labelLoop_spec hm0 U R hU hUL hlabO hfiO _ ?_⟩
  exact ⟨hmate, hfault, hlabLen, hfiLen, [], L, rfl, rfl, hhead, fun j => by simp, fun j => by simp, by simp⟩

end

/-- what `find_join` has done to the arrays -/
structure FJPost (c : Ctx) (k : Key) (esrc etgt : Nat) (s0 : GS) (Ua Ub : List Nat) (r : GS × List Nat) : Prop where
  ex : ∃ (join : Nat) (LA LB R : List Nat) (labA : Nat → Label),
    Ua = LA ++ join :: R ∧ Ub = LB ++ join :: R ∧ (∀ j ∈ LA, j ∉ LB) ∧
    (∀ j, (labI s0.label j).isOuter = true → labA j = labI s0.label j) ∧
    (∀ j, labA j = labI s0.label j ∨ (labA j = Label.flag k ∧ (labI s0.label j).isOuter = false)) ∧
    labA join = Label.flag k ∧
    r.1.mate = c.m0 ∧ r.1.fault = false ∧ r.1.label.length = c.v.nb + 1 ∧ r.1.fi.length = c.v.nb + 1 ∧
    (∀ j, labI r.1.label j = if (j ∈ LA ∨ j ∈ LB) then Label.edge k esrc etgt else labA j) ∧
    (∀ j, fiI r.1.fi j =
      if (j ≠ c.v.nb ∧ (labI r.1.label j).isOuter = true ∧
          (labI r.1.label (if (j ∈ LA ∨ j ∈ LB) then join else fiI s0.fi j)).isOuter = true)
      then join else (if (j ∈ LA ∨ j ∈ LB) then join else fiI s0.fi j)) ∧
    r.2 = (LA ++ LB).map (fromIndex c.v)

theorem findJoin_arrays (c : Ctx) (k : Key) (esrc etgt : Nat) (s0 : GS)
    (hd : getM c.m0 c.v.nb = none) (hm0 : c.m0.length = c.v.nb + 1)
    (hmate : s0.mate = c.m0) (hfault : s0.fault = false)
    (hlabLen : s0.label.length = c.v.nb + 1) (hfiLen : s0.fi.length = c.v.nb + 1)
    (Ua Ub ra rb : List Nat) (hUa : ChainOK c s0.label s0.fi Ua) (hUb : ChainOK c s0.label s0.fi Ub)
    (hUa0 : Ua = fiI s0.fi (c.v.toIndex esrc) :: ra) (hUb0 : Ub = fiI s0.fi (c.v.toIndex etgt) :: rb)
    (hsi : c.v.toIndex esrc ≤ c.v.nb) (hti : c.v.toIndex etgt ≤ c.v.nb)
    (_hso : (labI s0.label (c.v.toIndex esrc)).isOuter = true)
    (hto : (labI s0.label (c.v.toIndex etgt)).isOuter = true)
    (hne : fiI s0.fi (c.v.toIndex esrc) ≠ fiI s0.fi (c.v.toIndex etgt))
    (hnoflag : ∀ j, labI s0.label j ≠ Label.flag k)
    (hbound0 : ∀ i, (labI s0.label i).isOuter = true → fiI s0.fi i ≤ c.v.nb) :
    FJPost c k esrc etgt s0 Ua Ub (findJoin c.v k esrc etgt s0) := by
  rw [findJoin_eq]
  unfold findJoin'
  rw [getFi_eq s0 _ (by rw [hfiLen]; omega), getFi_eq s0 _ (by rw [hfiLen]; omega)]
  simp only [Bool.or_self, flt_false]
  rw [if_neg (by simpa using hne)]
  have hl0 : fiI s0.fi (c.v.toIndex esrc) ≤ c.v.nb := hUa.le _ (by rw [hUa0]; simp)
  have hr0 : fiI s0.fi (c.v.toIndex etgt) ≤ c.v.nb := hUb.le _ (by rw [hUb0]; simp)
  -- phase A
  have hA := joinLoop_spec (c := c) (k := k) (lab0 := s0.label) (fi0 := s0.fi) (Ua := Ua) (Ub := Ub)
    hd hm0 hfiLen hnoflag hUa hUb
    (((s0.setLabel (fiI s0.fi (c.v.toIndex esrc)) (Label.flag k)).setLabel (fiI s0.fi (c.v.toIndex etgt)) (Label.flag k)),
      fiI s0.fi (c.v.toIndex esrc), fiI s0.fi (c.v.toIndex etgt), c.v.nb, false)
    (by
      rw [setLabel_eq s0 _ _ (by rw [hlabLen]; omega)]
      rw [setLabel_eq _ _ _ (by simp [hlabLen]; omega)]
      refine ⟨rfl, hmate, rfl, hfault, by simp [hlabLen], Ua, Ub, [], ra, [], rb, Or.inl ⟨rfl, rfl⟩,
        by simpa using hUa0, by simpa using hUb0, rfl, ?_, ?_⟩
      · intro j
        show labI ((s0.label.set _ _).set _ _) j = _
        rw [labI_set _ _ _ _ (by simp [hlabLen]; omega), labI_set _ _ _ _ (by rw [hlabLen]; omega)]
        by_cases h1 : fiI s0.fi (c.v.toIndex etgt) = j
        · simp [h1]
        · by_cases h2 : fiI s0.fi (c.v.toIndex esrc) = j
          · simp [h2]
          · have h1' : ¬ j = fiI s0.fi (c.v.toIndex etgt) := fun e => h1 e.symm
            have h2' : ¬ j = fiI s0.fi (c.v.toIndex esrc) := fun e => h2 e.symm
            simp [h1, h2, h1', h2']
      · intro j hj hj'
        simp at hj hj'
        exact hne (hj ▸ hj'))
  generalize (forIn (m := Id) [:4 * (c.v.nb + 2)] _ (fun x st => pure (joinStep c.v k st))).run = rA at hA ⊢
  obtain ⟨sA, leftA, rightA, join, foundA⟩ := rA
  have hfound : foundA = true := hA.found
  subst hfound
  simp only [Bool.not_true, Bool.false_eq_true, if_false]
  obtain ⟨LA, LB, R, hUaS, hUbS, hdis⟩ := hA.split
  simp only [] at hUaS hUbS
  have hAfi : sA.fi = s0.fi := hA.fi
  have hAmate : sA.mate = c.m0 := hA.mate
  have hAfault : sA.fault = false := hA.fault
  have hAlabLen : sA.label.length = c.v.nb + 1 := hA.labLen
  have hAlabOuter : ∀ j, (labI s0.label j).isOuter = true → labI sA.label j = labI s0.label j := hA.labOuter
  have hAlabFlag : ∀ j, labI sA.label j = labI s0.label j ∨
      (labI sA.label j = Label.flag k ∧ (labI s0.label j).isOuter = false) := hA.labFlag
  have hAjoinFlag : labI sA.label join = Label.flag k := hA.joinFlag
  have hjoin_le : join ≤ c.v.nb := hUa.le join (by rw [hUaS]; simp)
  have hLAin : ∀ j ∈ LA, (labI s0.label j).isOuter = false := fun j hj => hUa.inner j (by rw [hUaS]; simp [hj])
  have hLBin : ∀ j ∈ LB, (labI s0.label j).isOuter = false := fun j hj => hUb.inner j (by rw [hUbS]; simp [hj])
  have hheadA : fiI s0.fi (c.v.toIndex esrc) = hdOr LA join := by
    cases LA with
    | nil => rw [hUa0] at hUaS; simp at hUaS; simpa using hUaS.1
    | cons x t => rw [hUa0] at hUaS; simp at hUaS; simpa using hUaS.1
  have hheadB : fiI s0.fi (c.v.toIndex etgt) = hdOr LB join := by
    cases LB with
    | nil => rw [hUb0] at hUbS; simp at hUbS; simpa using hUbS.1
    | cons x t => rw [hUb0] at hUbS; simp at hUbS; simpa using hUbS.1
  -- phase B, first endpoint
  obtain ⟨r1, hr1, hp1⟩ := endpoint_spec (k := k) (esrc := esrc) (etgt := etgt) hm0 Ua R LA join hUa hUaS
    ((sA, []) : GS × List Nat) (c.v.toIndex esrc) (by show _ < sA.fi.length; rw [hAfi, hfiLen]; omega)
    (by show fiI sA.fi _ = _; rw [hAfi]; exact hheadA) hAmate hAfault hAlabLen
    (by show sA.fi.length = _; rw [hAfi, hfiLen])
    hAlabOuter (fun j _ => by show fiI sA.fi j = _; rw [hAfi])
  -- phase B, second endpoint
  have hr1fi : ∀ j, (labI s0.label j).isOuter = true → fiI r1.1.fi j = fiI s0.fi j := by
    intro j hj
    rw [hp1.fi j, if_neg (fun h => by have := hLAin j h; rw [hj] at this; cases this)]
    show fiI sA.fi j = _
    rw [hAfi]
  have hr1lab : ∀ j, (labI s0.label j).isOuter = true → labI r1.1.label j = labI s0.label j := by
    intro j hj
    rw [hp1.lab j, if_neg (fun h => by have := hLAin j h; rw [hj] at this; cases this)]
    exact hAlabOuter j hj
  obtain ⟨r2, hr2, hp2⟩ := endpoint_spec (k := k) (esrc := esrc) (etgt := etgt) hm0 Ub R LB join hUb hUbS
    ((r1.1, r1.2.1) : GS × List Nat) (c.v.toIndex etgt) (by simp [hp1.fiLen]; omega)
    (by simp only []; rw [hr1fi _ hto]; exact hheadB) hp1.mate hp1.fault hp1.labLen hp1.fiLen hr1lab hr1fi
  rw [forIn_two_yield _ _ _ _ _ _ hr1 hr2]
  simp only []
  -- phase C
  have hlabB : ∀ j, labI r2.1.label j = if (j ∈ LA ∨ j ∈ LB) then Label.edge k esrc etgt else labI sA.label j := by
    intro j
    rw [hp2.lab j]
    simp only []
    rw [hp1.lab j]
    by_cases h1 : j ∈ LB
    · simp [h1]
    · by_cases h2 : j ∈ LA
      · simp [h1, h2]
      · simp [h1, h2]
  have hfiB : ∀ j, fiI r2.1.fi j = if (j ∈ LA ∨ j ∈ LB) then join else fiI s0.fi j := by
    intro j
    rw [hp2.fi j]
    simp only []
    rw [hp1.fi j]
    by_cases h1 : j ∈ LB
    · simp [h1]
    · by_cases h2 : j ∈ LA
      · simp [h1, h2]
      · simp only [h1, h2, if_false, or_self]
        show fiI sA.fi j = _
        rw [hAfi]
  have hC := fixLoop_spec (v := c.v) (lab := r2.1.label) (join := join) (sB := r2.1) hp2.labLen hp2.fiLen hp2.fault
    (by
      intro i _ hio
      rw [hfiB i]
      by_cases h : (i ∈ LA ∨ i ∈ LB)
      · rw [if_pos h]; exact hjoin_le
      · rw [if_neg h]
        rw [hlabB i, if_neg h] at hio
        rcases hAlabFlag i with e | ⟨e, _⟩
        · rw [e] at hio; exact hbound0 i hio
        · rw [e] at hio; cases hio)
  generalize (forIn (m := Id) [:r2.1.label.length] r2.1 (fun idx s => pure (fixStep c.v r2.1.label join idx s))).run = rC at hC ⊢
  refine ⟨join, LA, LB, R, fun j => labI sA.label j, hUaS, hUbS, hdis, hAlabOuter, hAlabFlag, hAjoinFlag,
    by rw [hC.mate]; exact hp2.mate, hC.fault, by rw [hC.label]; exact hp2.labLen, hC.fiLen, ?_, ?_, ?_⟩
  · intro j
    show labI rC.label j = _
    rw [hC.label]; exact hlabB j
  · intro j
    show fiI rC.fi j = _
    rw [hC.fi j, hC.label]
    have hjlt : j ≠ c.v.nb → (labI r2.1.label j).isOuter = true → j < c.v.nb + 1 := by
      intro _ h
      have := labI_outer_lt _ _ h
      rw [hp2.labLen] at this; exact this
    rw [hfiB j]
    by_cases hcond : (j ≠ c.v.nb ∧ (labI r2.1.label j).isOuter = true ∧
        (labI r2.1.label (if (j ∈ LA ∨ j ∈ LB) then join else fiI s0.fi j)).isOuter = true)
    · rw [if_pos ⟨hjlt hcond.1 hcond.2.1, hcond⟩, if_pos hcond]
    · rw [if_neg (fun h => hcond h.2), if_neg hcond]
  · show r2.2.1 = _
    rw [hp2.calls]
    simp only []
    rw [hp1.calls]
    simp

end PetgraphModel.C15W2
