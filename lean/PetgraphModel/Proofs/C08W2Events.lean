import PetgraphModel.Proofs.C08W2Machine
/-
C08 (wave 2): facts about accepted event streams of the reference machine, in the vocabulary the
`C08_dfsv_*` theorems are stated in (`discOf`, `finOf`, `openOf`, `nestRun` of a *forward* event
list, i.e. `s'.evs.reverse`).
-/
namespace PetgraphModel.TravProofs
open PetgraphModel PetgraphModel.Trav

/-! ### vocabulary on event lists -/

/-- nodes with a `Discover` event in `l` (same order as `l`) -/
def discOf (l : List Ev) : List Nat := l.filterMap fun e => match e with | .discover n _ => some n | _ => none
/-- nodes with a `Finish` event in `l` -/
def finOf (l : List Ev) : List Nat := l.filterMap fun e => match e with | .finish n _ => some n | _ => none

/-- effect of one event on the stack of open (discovered, unfinished) calls -/
def openStep (st : List Nat) : Ev → List Nat
  | .discover n _ => n :: st
  | .finish _ _ => st.tail
  | _ => st
/-- the open calls after the (forward) event list `L`, innermost first -/
def openOf (L : List Ev) : List Nat := L.foldl openStep []

/-- strict bracket matching: `Discover n` opens `n`, `Finish n` must close the innermost open `n` -/
def nestStep (st : List Nat) : Ev → Option (List Nat)
  | .discover n _ => some (n :: st)
  | .finish n _ => match st with
    | m :: st' => if m = n then some st' else none
    | [] => none
  | _ => some st
def nestRun (st : List Nat) : List Ev → Option (List Nat)
  | [] => some st
  | e :: l => (nestStep st e).bind fun st' => nestRun st' l

/-- the `(source, target)` of an edge event -/
def edgeOf : Ev → Option (Nat × Nat)
  | .tree u w => some (u, w)
  | .back u w => some (u, w)
  | .cross u w => some (u, w)
  | _ => none

theorem openOf_snoc (L : List Ev) (e : Ev) : openOf (L ++ [e]) = openStep (openOf L) e := by
  simp [openOf, List.foldl_append]

theorem nestRun_append (st : List Nat) (a b : List Ev) :
    nestRun st (a ++ b) = (nestRun st a).bind fun st' => nestRun st' b := by
  induction a generalizing st with
  | nil => simp [nestRun]
  | cons e a ih =>
    simp only [List.cons_append, nestRun]
    cases nestStep st e with
    | none => rfl
    | some st' => simp [ih]

/-! ### elimination lemmas for `step` -/

theorem step_discover {v : View} {starts : List Nat} {c : Ctl} {m m' : MS} {n t : Nat}
    (h : step v starts c m (.discover n t) = some m') :
    t = m.time ∧ n ∉ m.disc ∧ (m.mode = .expectDisc n ∨ (m.mode = .run ∧ m.stack = [] ∧ n ∈ starts)) ∧
    m' = { stack := (n, v.succ n) :: m.stack, disc := n :: m.disc, fin := m.fin,
           time := m.time + 1, mode := afterDiscover c } := by
  simp only [step] at h
  split at h
  · rename_i hc
    simp only [Option.some.injEq] at h
    exact ⟨hc.1, hc.2.1, hc.2.2, h.symm⟩
  · cases h

theorem step_finish {v : View} {starts : List Nat} {c : Ctl} {m m' : MS} {n t : Nat}
    (h : step v starts c m (.finish n t) = some m') :
    ∃ ws rest, m.stack = (n, ws) :: rest ∧ t = m.time ∧
      ((m.mode = .run ∧ ws = []) ∨ m.mode = .expectFin) ∧
      m' = { stack := rest, disc := m.disc, fin := n :: m.fin, time := m.time + 1,
             mode := afterFinish c } := by
  simp only [step] at h
  split at h
  · rename_i u ws rest hst
    split at h
    · rename_i hc
      simp only [Option.some.injEq] at h
      obtain ⟨h1, h2, h3⟩ := hc
      subst h2
      exact ⟨ws, rest, hst, h1, h3, h.symm⟩
    · cases h
  · cases h

theorem step_tree {v : View} {starts : List Nat} {c : Ctl} {m m' : MS} {a w : Nat}
    (h : step v starts c m (.tree a w) = some m') :
    ∃ ws rest, m.stack = (a, w :: ws) :: rest ∧ m.mode = .run ∧ w ∉ m.disc ∧
      m' = { m with stack := (a, ws) :: rest, mode := afterTree w c } := by
  simp only [step] at h
  split at h
  · rename_i u x ws rest hst
    split at h
    · rename_i hc
      simp only [Option.some.injEq] at h
      obtain ⟨h1, h2, h3, h4⟩ := hc
      subst h1; subst h2
      exact ⟨ws, rest, hst, h3, h4, h.symm⟩
    · cases h
  · cases h

theorem step_back {v : View} {starts : List Nat} {c : Ctl} {m m' : MS} {a w : Nat}
    (h : step v starts c m (.back a w) = some m') :
    ∃ ws rest, m.stack = (a, w :: ws) :: rest ∧ m.mode = .run ∧ w ∈ m.disc ∧ w ∉ m.fin ∧
      m' = { m with stack := (a, ws) :: rest, mode := afterEdge c } := by
  simp only [step] at h
  split at h
  · rename_i u x ws rest hst
    split at h
    · rename_i hc
      simp only [Option.some.injEq] at h
      obtain ⟨h1, h2, h3, h4, h5⟩ := hc
      subst h1; subst h2
      exact ⟨ws, rest, hst, h3, h4, h5, h.symm⟩
    · cases h
  · cases h

theorem step_cross {v : View} {starts : List Nat} {c : Ctl} {m m' : MS} {a w : Nat}
    (h : step v starts c m (.cross a w) = some m') :
    ∃ ws rest, m.stack = (a, w :: ws) :: rest ∧ m.mode = .run ∧ w ∈ m.disc ∧ w ∈ m.fin ∧
      m' = { m with stack := (a, ws) :: rest, mode := afterEdge c } := by
  simp only [step] at h
  split at h
  · rename_i u x ws rest hst
    split at h
    · rename_i hc
      simp only [Option.some.injEq] at h
      obtain ⟨h1, h2, h3, h4, h5⟩ := hc
      subst h1; subst h2
      exact ⟨ws, rest, hst, h3, h4, h5, h.symm⟩
    · cases h
  · cases h

/-- the mode after an accepted event is determined by the event kind and the control value -/
def modeAfter (c : Ctl) : Ev → Mode
  | .discover _ _ => afterDiscover c
  | .finish _ _ => afterFinish c
  | .tree _ w => afterTree w c
  | _ => afterEdge c

theorem step_mode {v : View} {starts : List Nat} {c : Ctl} {m m' : MS} {e : Ev}
    (h : step v starts c m e = some m') : m'.mode = modeAfter c e := by
  cases e with
  | discover n t => obtain ⟨_, _, _, rfl⟩ := step_discover h; rfl
  | finish n t => obtain ⟨_, _, _, _, _, rfl⟩ := step_finish h; rfl
  | tree a w => obtain ⟨_, _, _, _, _, rfl⟩ := step_tree h; rfl
  | back a w => obtain ⟨_, _, _, _, _, _, rfl⟩ := step_back h; rfl
  | cross a w => obtain ⟨_, _, _, _, _, _, rfl⟩ := step_cross h; rfl

/-- no event is accepted after `Break` or after the panic -/
theorem step_alive {v : View} {starts : List Nat} {c : Ctl} {m m' : MS} {e : Ev}
    (h : step v starts c m e = some m') : m.mode ≠ .dead ∧ m.mode ≠ .panic := by
  cases e with
  | discover n t =>
    obtain ⟨_, _, h3, _⟩ := step_discover h
    rcases h3 with h3 | ⟨h3, _⟩ <;> simp [h3]
  | finish n t =>
    obtain ⟨_, _, _, _, h3, _⟩ := step_finish h
    rcases h3 with ⟨h3, _⟩ | h3 <;> simp [h3]
  | tree a w => obtain ⟨_, _, _, h3, _⟩ := step_tree h; simp [h3]
  | back a w => obtain ⟨_, _, _, h3, _⟩ := step_back h; simp [h3]
  | cross a w => obtain ⟨_, _, _, h3, _⟩ := step_cross h; simp [h3]

/-! ### forward runs -/

/-- run the machine forward over `L`, the first event having index `k` -/
def run (v : View) (starts : List Nat) (script : List Ctl) (m : MS) (k : Nat) : List Ev → Option MS
  | [] => some m
  | e :: l => (step v starts (ctlAt script k) m e).bind fun m' => run v starts script m' (k + 1) l

theorem run_append (v : View) (starts : List Nat) (script : List Ctl) (m : MS) (k : Nat)
    (a b : List Ev) :
    run v starts script m k (a ++ b) =
      (run v starts script m k a).bind fun m' => run v starts script m' (k + a.length) b := by
  induction a generalizing m k with
  | nil => simp [run]
  | cons e a ih =>
    simp only [List.cons_append, run, List.length_cons]
    cases step v starts (ctlAt script k) m e with
    | none => rfl
    | some m' =>
      simp only [Option.bind_some, ih]
      have : k + 1 + a.length = k + (a.length + 1) := by omega
      rw [this]

theorem replay_eq_run (v : View) (starts : List Nat) (script : List Ctl) (l : List Ev) :
    replay v starts script l = run v starts script MS.init 0 l.reverse := by
  induction l with
  | nil => rfl
  | cons e l ih =>
    rw [replay, List.reverse_cons, run_append, ← ih]
    cases replay v starts script l with
    | none => rfl
    | some m =>
      simp only [Option.bind_some, List.length_reverse, Nat.zero_add, run]
      cases step v starts (ctlAt script l.length) m e <;> rfl

/-- splitting an accepted forward run at an event -/
theorem run_split {v : View} {starts : List Nat} {script : List Ctl} {m : MS}
    {pre post : List Ev} {e : Ev}
    (h : run v starts script MS.init 0 (pre ++ e :: post) = some m) :
    ∃ m1 m2, run v starts script MS.init 0 pre = some m1 ∧
      step v starts (ctlAt script pre.length) m1 e = some m2 ∧
      run v starts script m2 (pre.length + 1) post = some m := by
  rw [run_append] at h
  cases h1 : run v starts script MS.init 0 pre with
  | none => rw [h1] at h; cases h
  | some m1 =>
    rw [h1] at h
    simp only [Option.bind_some, Nat.zero_add, run] at h
    cases h2 : step v starts (ctlAt script pre.length) m1 e with
    | none => rw [h2] at h; cases h
    | some m2 =>
      rw [h2] at h
      exact ⟨m1, m2, rfl, h2, h⟩


/-! ### invariants of accepted histories -/

structure Inv (v : View) (m : MS) (L : List Ev) : Prop where
  discEq : m.disc = (discOf L).reverse
  finEq : m.fin = (finOf L).reverse
  openEq : m.stack.map Prod.fst = openOf L
  nest : nestRun [] L = some (openOf L)
  discNodup : m.disc.Nodup
  finNodup : m.fin.Nodup
  stackNodup : (m.stack.map Prod.fst).Nodup
  stackOpen : ∀ x, x ∈ m.stack.map Prod.fst ↔ (x ∈ m.disc ∧ x ∉ m.fin)
  finDisc : ∀ x, x ∈ m.fin → x ∈ m.disc
  succOk : ∀ u ws, (u, ws) ∈ m.stack → ∃ done, v.succ u = done ++ ws

theorem discOf_snoc (L : List Ev) (e : Ev) : discOf (L ++ [e]) = discOf L ++ discOf [e] := by
  simp [discOf, List.filterMap_append]
theorem finOf_snoc (L : List Ev) (e : Ev) : finOf (L ++ [e]) = finOf L ++ finOf [e] := by
  simp [finOf, List.filterMap_append]

theorem nestRun_snoc {L : List Ev} {st : List Nat} (h : nestRun [] L = some st) (e : Ev) :
    nestRun [] (L ++ [e]) = nestStep st e := by
  rw [nestRun_append, h]
  simp only [Option.bind_some, nestRun]
  cases nestStep st e <;> rfl

theorem inv_init (v : View) : Inv v MS.init [] := by
  refine ⟨rfl, rfl, rfl, rfl, List.nodup_nil, List.nodup_nil, List.nodup_nil, ?_, ?_, ?_⟩ <;>
    simp [MS.init]

theorem inv_edge {v : View} {m1 : MS} {L : List Ev} {e : Ev} {a w : Nat} {ws : List Nat}
    {rest : List (Nat × List Nat)} {md : Mode}
    (inv : Inv v m1 L) (hst : m1.stack = (a, w :: ws) :: rest)
    (he : e = .tree a w ∨ e = .back a w ∨ e = .cross a w) :
    Inv v { m1 with stack := (a, ws) :: rest, mode := md } (L ++ [e]) := by
  have hd : discOf [e] = [] := by rcases he with h | h | h <;> subst h <;> rfl
  have hf : finOf [e] = [] := by rcases he with h | h | h <;> subst h <;> rfl
  have ho : openStep (openOf L) e = openOf L := by rcases he with h | h | h <;> subst h <;> rfl
  have hn : nestStep (openOf L) e = some (openOf L) := by rcases he with h | h | h <;> subst h <;> rfl
  have hmap : ((a, ws) :: rest).map Prod.fst = m1.stack.map Prod.fst := by rw [hst]; rfl
  refine ⟨?_, ?_, ?_, ?_, inv.discNodup, inv.finNodup, ?_, ?_, inv.finDisc, ?_⟩
  · rw [discOf_snoc, hd, List.append_nil]; exact inv.discEq
  · rw [finOf_snoc, hf, List.append_nil]; exact inv.finEq
  · rw [openOf_snoc, ho]; dsimp only; rw [hmap]; exact inv.openEq
  · rw [nestRun_snoc inv.nest, openOf_snoc, ho]; exact hn
  · dsimp only; rw [hmap]; exact inv.stackNodup
  · dsimp only; rw [hmap]; exact inv.stackOpen
  · intro u ws' hmem
    dsimp only at hmem
    rcases List.mem_cons.mp hmem with h | h
    · simp only [Prod.mk.injEq] at h
      obtain ⟨rfl, rfl⟩ := h
      obtain ⟨done, hdone⟩ := inv.succOk u (w :: ws') (by rw [hst]; exact List.mem_cons_self ..)
      exact ⟨done ++ [w], by rw [hdone]; simp⟩
    · exact inv.succOk u ws' (by rw [hst]; exact List.mem_cons_of_mem _ h)

theorem inv_snoc {v : View} {starts : List Nat} {c : Ctl} {m1 m : MS} {L : List Ev} {e : Ev}
    (inv : Inv v m1 L) (h : step v starts c m1 e = some m) : Inv v m (L ++ [e]) := by
  cases e with
  | tree a w =>
    obtain ⟨ws, rest, hst, _, _, rfl⟩ := step_tree h
    exact inv_edge inv hst (Or.inl rfl)
  | back a w =>
    obtain ⟨ws, rest, hst, _, _, _, rfl⟩ := step_back h
    exact inv_edge inv hst (Or.inr (Or.inl rfl))
  | cross a w =>
    obtain ⟨ws, rest, hst, _, _, _, rfl⟩ := step_cross h
    exact inv_edge inv hst (Or.inr (Or.inr rfl))
  | discover n t =>
    obtain ⟨_, hn, _, rfl⟩ := step_discover h
    have hnf : n ∉ m1.fin := fun hf => hn (inv.finDisc n hf)
    refine ⟨?_, ?_, ?_, ?_, ?_, inv.finNodup, ?_, ?_, ?_, ?_⟩
    · rw [discOf_snoc]; simp [discOf, inv.discEq]
    · rw [finOf_snoc]; simp [finOf, inv.finEq]
    · rw [openOf_snoc]; simp [openStep, inv.openEq]
    · rw [nestRun_snoc inv.nest, openOf_snoc]; rfl
    · exact List.nodup_cons.mpr ⟨hn, inv.discNodup⟩
    · simp only [List.map_cons]
      exact List.nodup_cons.mpr ⟨fun hm => hn ((inv.stackOpen n).mp hm).1, inv.stackNodup⟩
    · intro x
      simp only [List.map_cons, List.mem_cons, inv.stackOpen x]
      constructor
      · rintro (h1 | h1)
        · subst h1; exact ⟨Or.inl rfl, hnf⟩
        · exact ⟨Or.inr h1.1, h1.2⟩
      · rintro ⟨h1 | h1, h2⟩
        · exact Or.inl h1
        · exact Or.inr ⟨h1, h2⟩
    · intro x hx; exact List.mem_cons_of_mem _ (inv.finDisc x hx)
    · intro u ws hmem
      rcases List.mem_cons.mp hmem with h1 | h1
      · simp only [Prod.mk.injEq] at h1
        obtain ⟨rfl, rfl⟩ := h1
        exact ⟨[], rfl⟩
      · exact inv.succOk u ws h1
  | finish n t =>
    obtain ⟨ws, rest, hst, _, _, rfl⟩ := step_finish h
    have hmap : m1.stack.map Prod.fst = n :: rest.map Prod.fst := by rw [hst]; rfl
    have hnd := inv.stackNodup
    rw [hmap] at hnd
    have hnrest : n ∉ rest.map Prod.fst := (List.nodup_cons.mp hnd).1
    have hn := (inv.stackOpen n).mp (by rw [hmap]; exact List.mem_cons_self ..)
    have hopen : openOf L = n :: rest.map Prod.fst := by rw [← inv.openEq, hmap]
    refine ⟨?_, ?_, ?_, ?_, inv.discNodup, ?_, ?_, ?_, ?_, ?_⟩
    · rw [discOf_snoc]; simp [discOf, inv.discEq]
    · rw [finOf_snoc]; simp [finOf, inv.finEq]
    · rw [openOf_snoc, hopen]; rfl
    · rw [nestRun_snoc inv.nest, openOf_snoc, hopen]; simp [nestStep, openStep]
    · exact List.nodup_cons.mpr ⟨hn.2, inv.finNodup⟩
    · exact (List.nodup_cons.mp hnd).2
    · intro x
      have h1 := inv.stackOpen x
      rw [hmap] at h1
      simp only [List.mem_cons] at h1 ⊢
      constructor
      · intro hx
        have h2 := h1.mp (Or.inr hx)
        refine ⟨h2.1, ?_⟩
        rintro (h3 | h3)
        · exact hnrest (h3 ▸ hx)
        · exact h2.2 h3
      · rintro ⟨h2, h3⟩
        rcases h1.mpr ⟨h2, fun hf => h3 (Or.inr hf)⟩ with h4 | h4
        · exact absurd (Or.inl h4) h3
        · exact h4
    · intro x hx
      rcases List.mem_cons.mp hx with h1 | h1
      · exact h1 ▸ hn.1
      · exact inv.finDisc x h1
    · intro u ws' hmem
      exact inv.succOk u ws' (by rw [hst]; exact List.mem_cons_of_mem _ hmem)

theorem inv_of_replay (v : View) (starts : List Nat) (script : List Ctl) :
    ∀ (l : List Ev) (m : MS), replay v starts script l = some m → Inv v m l.reverse := by
  intro l
  induction l with
  | nil =>
    intro m h
    simp only [replay, Option.some.injEq] at h
    subst h
    exact inv_init v
  | cons e l ih =>
    intro m h
    rw [replay] at h
    cases h1 : replay v starts script l with
    | none => rw [h1] at h; cases h
    | some m1 =>
      rw [h1] at h
      rw [List.reverse_cons]
      exact inv_snoc (ih m1 h1) h

theorem inv_of_run {v : View} {starts : List Nat} {script : List Ctl} {L : List Ev} {m : MS}
    (h : run v starts script MS.init 0 L = some m) : Inv v m L := by
  have := inv_of_replay v starts script L.reverse m (by rw [replay_eq_run, List.reverse_reverse]; exact h)
  rwa [List.reverse_reverse] at this

end PetgraphModel.TravProofs
