import PetgraphModel.Spec.C02W4Queries
import PetgraphModel.Proofs.StableGraphCompact
/-
C02 wave 4, part 1: list lemmas and facts about the reference multigraph (`edgeRefs`, `nodeIds`, `incRaw`) that the
refinement proofs of the queries need.
-/
namespace PetgraphModel.SGProofs
open PetgraphModel PetgraphModel.SG PetgraphModel.SGSpec

/-! ### generic -/

theorem join_getElem?_eq_some {α : Type} {l : List (Option α)} {i : Nat} {x : α} :
    (l[i]?).join = some x ↔ l[i]? = some (some x) := by
  cases h : l[i]? with
  | none => simp
  | some o => cases o <;> simp

/-- a `filterMap` whose function is a two-way case distinction splits (up to order) into the two one-way `filterMap`s -/
theorem filterMap_split_perm {α β : Type} (g g0 g1 : α → Option β) :
    ∀ l : List α, (∀ x ∈ l, (g x = g0 x ∧ g1 x = none) ∨ (g x = g1 x ∧ g0 x = none)) →
      (l.filterMap g).Perm (l.filterMap g0 ++ l.filterMap g1) := by
  intro l
  induction l with
  | nil => intro _; simp
  | cons x t ih =>
    intro h
    have iht := ih fun y hy => h y (List.mem_cons_of_mem _ hy)
    rcases h x List.mem_cons_self with ⟨h1, h2⟩ | ⟨h1, h2⟩
    · cases hg : g x with
      | none =>
        have : g0 x = none := by rw [← h1, hg]
        simp only [List.filterMap_cons, hg, this, h2]; exact iht
      | some y =>
        have : g0 x = some y := by rw [← h1, hg]
        simp only [List.filterMap_cons, hg, this, h2, List.cons_append]; exact iht.cons y
    · cases hg : g x with
      | none =>
        have : g1 x = none := by rw [← h1, hg]
        simp only [List.filterMap_cons, hg, this, h2]; exact iht
      | some y =>
        have : g1 x = some y := by rw [← h1, hg]
        simp only [List.filterMap_cons, hg, this, h2]
        exact (iht.cons y).trans List.perm_middle.symm

/-- a `filterMap` only sees the elements on which the function is defined -/
theorem filterMap_filter_isSome {α β : Type} (f : α → Option β) (l : List α) :
    (l.filter fun x => (f x).isSome).filterMap f = l.filterMap f := by
  rw [List.filterMap_filter]
  apply filterMap_congr'
  intro x _
  cases h : f x <;> simp

theorem nodup_filter {α : Type} {l : List α} (p : α → Bool) (h : l.Nodup) : (l.filter p).Nodup :=
  List.Nodup.sublist List.filter_sublist h

/-- two duplicate-free index lists that cover the support of `f` yield the same items, up to order -/
theorem filterMap_perm_of_support {β : Type} (f : Nat → Option β) {L1 L2 : List Nat} (h1 : L1.Nodup) (h2 : L2.Nodup)
    (c1 : ∀ e, (f e).isSome → e ∈ L1) (c2 : ∀ e, (f e).isSome → e ∈ L2) :
    (L1.filterMap f).Perm (L2.filterMap f) := by
  rw [← filterMap_filter_isSome f L1, ← filterMap_filter_isSome f L2]
  apply List.Perm.filterMap
  rw [List.perm_ext_iff_of_nodup (nodup_filter _ h1) (nodup_filter _ h2)]
  intro e
  simp only [List.mem_filter]
  constructor
  · rintro ⟨_, h⟩; exact ⟨c2 e h, h⟩
  · rintro ⟨_, h⟩; exact ⟨c1 e h, h⟩

theorem nodup_of_pairwise_lt {l : List Nat} (h : l.Pairwise (· < ·)) : l.Nodup :=
  List.Pairwise.imp (fun hab => Nat.ne_of_lt hab) h

/-! ### `edgeRefs`, `edgeIds`, `nodeIds` of the reference -/

theorem edgeList_ge (l : List (Option SEdge)) : ∀ (o : Nat), ∀ p ∈ edgeList l o, o ≤ p.1 := by
  induction l with
  | nil => intro o p hp; simp [edgeList] at hp
  | cons x t ih =>
    intro o p hp
    cases x with
    | none => simp only [edgeList] at hp; have := ih (o + 1) p hp; omega
    | some e =>
      simp only [edgeList, List.mem_cons] at hp
      rcases hp with rfl | hp
      · exact Nat.le_refl _
      · have := ih (o + 1) p hp; omega

theorem mem_edgeList (l : List (Option SEdge)) : ∀ (o id : Nat) (x : SEdge),
    (id, x) ∈ edgeList l o ↔ o ≤ id ∧ l[id - o]? = some (some x) := by
  induction l with
  | nil => intro o id x; simp [edgeList]
  | cons y t ih =>
    intro o id x
    have hstep : (id, x) ∈ edgeList t (o + 1) ↔ o + 1 ≤ id ∧ t[id - (o + 1)]? = some (some x) := ih (o + 1) id x
    by_cases hio : id = o
    · subst hio
      have hnot : (id, x) ∉ edgeList t (id + 1) := fun h => by have := edgeList_ge t (id + 1) _ h; simp at this; omega
      cases y with
      | none => simp [edgeList, hnot]
      | some e =>
        simp only [edgeList, List.mem_cons, Prod.mk.injEq, true_and, hnot, or_false, Nat.sub_self,
          List.getElem?_cons_zero, Option.some.injEq, Nat.le_refl]
        exact eq_comm
    · have hrw : ∀ (h : o ≤ id), (y :: t)[id - o]? = t[id - (o + 1)]? := by
        intro h
        have : id - o = (id - (o + 1)) + 1 := by omega
        rw [this, List.getElem?_cons_succ]
      cases y with
      | none =>
        simp only [edgeList]
        rw [hstep]
        constructor
        · rintro ⟨h1, h2⟩; exact ⟨by omega, by rw [hrw (by omega)]; exact h2⟩
        · rintro ⟨h1, h2⟩; exact ⟨by omega, by rw [hrw h1] at h2; exact h2⟩
      | some e =>
        simp only [edgeList, List.mem_cons, Prod.mk.injEq]
        rw [hstep]
        constructor
        · rintro (⟨h, _⟩ | ⟨h1, h2⟩)
          · exact absurd h hio
          · exact ⟨by omega, by rw [hrw (by omega)]; exact h2⟩
        · rintro ⟨h1, h2⟩
          exact .inr ⟨by omega, by rw [hrw h1] at h2; exact h2⟩

/-- the live edges of the reference are exactly the entries of `edgeRefs` -/
theorem mem_edgeRefs (sp : Spec) (id : Nat) (x : SEdge) : (id, x) ∈ sp.edgeRefs ↔ sp.edge id = some x := by
  unfold Spec.edgeRefs Spec.edge
  rw [mem_edgeList, join_getElem?_eq_some]
  simp

theorem edgeList_sorted (l : List (Option SEdge)) : ∀ o, (edgeList l o).Pairwise (fun p q => p.1 < q.1) := by
  induction l with
  | nil => intro o; simp [edgeList]
  | cons y t ih =>
    intro o
    cases y with
    | none => simp only [edgeList]; exact ih (o + 1)
    | some e =>
      simp only [edgeList, List.pairwise_cons]
      exact ⟨fun p hp => by have := edgeList_ge t (o + 1) p hp; simp; omega, ih (o + 1)⟩

theorem edgeRefs_ids_nodup (sp : Spec) : (sp.edgeRefs.map (·.1)).Nodup := by
  apply nodup_of_pairwise_lt
  rw [List.pairwise_map]
  exact edgeList_sorted sp.edges 0

theorem liveIds_sorted {α : Type} (l : List (Option α)) : ∀ o, (liveIds l o).Pairwise (· < ·) := by
  induction l with
  | nil => intro o; simp [liveIds]
  | cons y t ih =>
    intro o
    simp only [liveIds]
    split
    · rw [List.pairwise_cons]
      exact ⟨fun i hi => by have := liveIds_ge t (o + 1) i hi; omega, ih (o + 1)⟩
    · exact ih (o + 1)

theorem mem_liveIds {α : Type} (l : List (Option α)) : ∀ (o i : Nat),
    i ∈ liveIds l o ↔ o ≤ i ∧ ((l[i - o]?).join).isSome := by
  induction l with
  | nil => intro o i; simp [liveIds]
  | cons y t ih =>
    intro o i
    have hstep := ih (o + 1) i
    by_cases hio : i = o
    · subst hio
      have hnot : i ∉ liveIds t (i + 1) := fun h => by have := liveIds_ge t (i + 1) i h; omega
      simp only [liveIds]
      split
      · rename_i h; simp [h]
      · rename_i h; simp [hnot, h]
    · have hrw : ∀ (h : o ≤ i), (y :: t)[i - o]? = t[i - (o + 1)]? := by
        intro h
        have : i - o = (i - (o + 1)) + 1 := by omega
        rw [this, List.getElem?_cons_succ]
      simp only [liveIds]
      split
      · simp only [List.mem_cons, hio, false_or]
        rw [hstep]
        constructor
        · rintro ⟨h1, h2⟩; exact ⟨by omega, by rw [hrw (by omega)]; exact h2⟩
        · rintro ⟨h1, h2⟩; exact ⟨by omega, by rw [hrw h1] at h2; exact h2⟩
      · rw [hstep]
        constructor
        · rintro ⟨h1, h2⟩; exact ⟨by omega, by rw [hrw (by omega)]; exact h2⟩
        · rintro ⟨h1, h2⟩; exact ⟨by omega, by rw [hrw h1] at h2; exact h2⟩

theorem mem_nodeIds (sp : Spec) (i : Nat) : i ∈ sp.nodeIds ↔ sp.nodeLive i = true := by
  unfold Spec.nodeIds Spec.nodeLive Spec.node
  rw [mem_liveIds]; simp

theorem nodeIds_nodup (sp : Spec) : sp.nodeIds.Nodup := nodup_of_pairwise_lt (liveIds_sorted sp.nodes 0)

/-- **the generic step**: the items of the live edges can be collected along ANY duplicate-free list of edge indices that
covers the edges yielding an item -/
theorem edgeRefs_filterMap_perm {β : Type} (sp : Spec) (F : Nat → SEdge → Option β) {L : List Nat} (hL : L.Nodup)
    (hcov : ∀ e x, sp.edge e = some x → (F e x).isSome → e ∈ L) :
    (L.filterMap fun e => (sp.edge e).bind (F e)).Perm (sp.edgeRefs.filterMap fun p => F p.1 p.2) := by
  have h1 : sp.edgeRefs.filterMap (fun p => F p.1 p.2) =
      (sp.edgeRefs.map (·.1)).filterMap (fun e => (sp.edge e).bind (F e)) := by
    rw [List.filterMap_map]
    apply filterMap_congr'
    intro p hp
    have := (mem_edgeRefs sp p.1 p.2).1 hp
    simp [this]
  rw [h1]
  apply filterMap_perm_of_support _ hL (edgeRefs_ids_nodup sp)
  · intro e he
    cases hx : sp.edge e with
    | none => rw [hx] at he; simp at he
    | some x => rw [hx] at he; exact hcov e x hx (by simpa using he)
  · intro e he
    cases hx : sp.edge e with
    | none => rw [hx] at he; simp at he
    | some x => exact List.mem_map.2 ⟨(e, x), (mem_edgeRefs sp e x).2 hx, rfl⟩

end PetgraphModel.SGProofs
