import PetgraphModel.Oracle.C15Flow
/-
C15 — soundness of the max-flow certificate checker `judgeFlow` (weak duality over integers).
-/
namespace PetgraphModel.C15P
open PetgraphModel PetgraphModel.C15 PetgraphModel.Oracle PetgraphModel.MGraph

/-! ### sums -/

theorem esum_add (φ ψ : Edge → Int) (es : List Edge) :
    esum (fun e => φ e + ψ e) es = esum φ es + esum ψ es := by
  induction es with
  | nil => simp [esum]
  | cons e es ih => simp only [esum, ih]; omega

theorem esum_sub (φ ψ : Edge → Int) (es : List Edge) :
    esum (fun e => φ e - ψ e) es = esum φ es - esum ψ es := by
  induction es with
  | nil => simp [esum]
  | cons e es ih => simp only [esum, ih]; omega

theorem esum_congr {φ ψ : Edge → Int} {es : List Edge} (h : ∀ e ∈ es, φ e = ψ e) :
    esum φ es = esum ψ es := by
  induction es with
  | nil => rfl
  | cons e es ih =>
    simp only [esum]
    rw [h e (List.mem_cons_self ..), ih (fun x hx => h x (List.mem_cons_of_mem _ hx))]

theorem esum_le {φ ψ : Edge → Int} {es : List Edge} (h : ∀ e ∈ es, φ e ≤ ψ e) :
    esum φ es ≤ esum ψ es := by
  induction es with
  | nil => simp [esum]
  | cons e es ih =>
    simp only [esum]
    have h1 := h e (List.mem_cons_self ..)
    have h2 := ih (fun x hx => h x (List.mem_cons_of_mem _ hx))
    omega

theorem esum_zero (es : List Edge) : esum (fun _ => 0) es = 0 := by
  induction es with
  | nil => rfl
  | cons e es ih => simp [esum, ih]

theorem nsum_sub (φ ψ : Nat → Int) (S : List Nat) :
    nsum (fun x => φ x - ψ x) S = nsum φ S - nsum ψ S := by
  induction S with
  | nil => simp [nsum]
  | cons x S ih => simp only [nsum, ih]; omega

theorem nsum_congr {φ ψ : Nat → Int} {S : List Nat} (h : ∀ x ∈ S, φ x = ψ x) : nsum φ S = nsum ψ S := by
  induction S with
  | nil => rfl
  | cons x S ih =>
    simp only [nsum]
    rw [h x (List.mem_cons_self ..), ih (fun y hy => h y (List.mem_cons_of_mem _ hy))]

/-- exchange of the two finite sums -/
theorem nsum_esum_comm (F : Nat → Edge → Int) (S : List Nat) (es : List Edge) :
    nsum (fun x => esum (F x) es) S = esum (fun e => nsum (fun x => F x e) S) es := by
  induction S with
  | nil => simp [nsum, esum_zero]
  | cons x S ih =>
    simp only [nsum]
    rw [ih, ← esum_add]

/-- summing an indicator over a duplicate-free list -/
theorem nsum_ite_eq (S : List Nat) (hS : S.Nodup) (a : Nat) (c : Int) :
    nsum (fun x => if a = x then c else 0) S = if a ∈ S then c else 0 := by
  induction S with
  | nil => simp [nsum]
  | cons x S ih =>
    have hx : x ∉ S := (List.nodup_cons.mp hS).1
    have ih := ih (List.nodup_cons.mp hS).2
    simp only [nsum, ih, List.mem_cons]
    by_cases hax : a = x
    · subst hax; simp [hx]
    · simp [hax]

/-- only one term of the sum is non-zero -/
theorem nsum_single (S : List Nat) (hS : S.Nodup) (s : Nat) (hs : s ∈ S) (ψ : Nat → Int)
    (h0 : ∀ x ∈ S, x ≠ s → ψ x = 0) : nsum ψ S = ψ s := by
  induction S with
  | nil => cases hs
  | cons x S ih =>
    have hx : x ∉ S := (List.nodup_cons.mp hS).1
    have hS' := (List.nodup_cons.mp hS).2
    simp only [nsum]
    by_cases hxs : x = s
    · subst hxs
      have : nsum ψ S = 0 := by
        rw [nsum_congr (ψ := fun _ => 0)]
        · clear ih h0 hS hS' hs hx; induction S with
          | nil => rfl
          | cons y S ih => simp [nsum, ih]
        · intro y hy
          exact h0 y (List.mem_cons_of_mem _ hy) (fun h => hx (h ▸ hy))
      omega
    · have hsS : s ∈ S := by
        cases List.mem_cons.mp hs with
        | inl h => exact absurd h.symm hxs
        | inr h => exact h
      have := ih hS' hsS (fun y hy hne => h0 y (List.mem_cons_of_mem _ hy) hne)
      have hx0 := h0 x (List.mem_cons_self ..) hxs
      omega

/-! ### the flow across a cut -/

/-- net flow out of a duplicate-free node set = flow over the edges leaving minus entering it -/
theorem nsum_excess (g : MGraph) (f : Nat → Int) (S : List Nat) (hS : S.Nodup) :
    nsum (excess g f) S =
      esum (fun e => (if e.src ∈ S then f e.id else 0) - (if e.tgt ∈ S then f e.id else 0)) g.edges := by
  have h1 : ∀ x, excess g f x =
      esum (fun e => (if e.src = x then f e.id else 0) - (if e.tgt = x then f e.id else 0)) g.edges := by
    intro x; unfold excess outflow inflow; rw [esum_sub]
  rw [nsum_congr (fun x _ => h1 x), nsum_esum_comm]
  apply esum_congr
  intro e _
  rw [nsum_sub, nsum_ite_eq S hS, nsum_ite_eq S hS]

/-- the per-edge bound behind weak duality -/
theorem edge_term_le (S : List Nat) (e : Edge) (x : Int) (h0 : 0 ≤ x) (h1 : x ≤ e.w) :
    (if e.src ∈ S then x else 0) - (if e.tgt ∈ S then x else 0) ≤
      (if e.src ∈ S ∧ e.tgt ∉ S then e.w else 0) := by
  by_cases ha : e.src ∈ S <;> by_cases hb : e.tgt ∈ S <;> simp [ha, hb] <;> omega

/-- **weak duality**: the value of a feasible flow is at most the capacity of any `s`-`t` cut -/
theorem value_le_cut (g : MGraph) (s t : Nat) (f : Nat → Int) (S : List Nat) (hf : Feasible g s t f)
    (hS : S.Nodup) (hs : s ∈ S) (ht : t ∉ S) : excess g f s ≤ cutCap g S := by
  have h1 : nsum (excess g f) S = excess g f s := by
    apply nsum_single S hS s hs
    intro x hx hne
    have := hf.cons x hne (fun h => ht (h ▸ hx))
    unfold excess; omega
  rw [← h1, nsum_excess g f S hS]
  unfold cutCap
  apply esum_le
  intro e he
  exact edge_term_le S e (f e.id) (hf.cap e he).1 (hf.cap e he).2

/-- a cut whose forward edges are saturated and whose backward edges are empty is tight -/
theorem value_eq_cut (g : MGraph) (s t : Nat) (f : Nat → Int) (S : List Nat) (hf : Feasible g s t f)
    (hS : S.Nodup) (hs : s ∈ S) (ht : t ∉ S)
    (hfw : ∀ e ∈ g.edges, e.src ∈ S → e.tgt ∉ S → f e.id = e.w)
    (hbw : ∀ e ∈ g.edges, e.tgt ∈ S → e.src ∉ S → f e.id = 0) : excess g f s = cutCap g S := by
  have h1 : nsum (excess g f) S = excess g f s := by
    apply nsum_single S hS s hs
    intro x hx hne
    have := hf.cons x hne (fun h => ht (h ▸ hx))
    unfold excess; omega
  rw [← h1, nsum_excess g f S hS]
  unfold cutCap
  apply esum_congr
  intro e he
  by_cases ha : e.src ∈ S <;> by_cases hb : e.tgt ∈ S <;> simp [ha, hb]
  · exact hfw e he ha hb
  · have := hbw e he hb ha; omega

/-! ### duplicate-free representatives of arbitrary node lists -/

def dedup : List Nat → List Nat
  | [] => []
  | x :: xs => if x ∈ dedup xs then dedup xs else x :: dedup xs

theorem mem_dedup (l : List Nat) (x : Nat) : x ∈ dedup l ↔ x ∈ l := by
  induction l with
  | nil => simp [dedup]
  | cons y l ih =>
    simp only [dedup]
    split
    · rename_i h
      simp only [List.mem_cons, ih]
      constructor
      · exact Or.inr
      · rintro (h' | h')
        · subst h'; exact ih.mp h
        · exact h'
    · simp [List.mem_cons, ih]

theorem nodup_dedup (l : List Nat) : (dedup l).Nodup := by
  induction l with
  | nil => simp [dedup]
  | cons y l ih =>
    simp only [dedup]
    split
    · exact ih
    · rename_i h; exact List.nodup_cons.mpr ⟨h, ih⟩

theorem cutCap_congr (g : MGraph) (S S' : List Nat) (h : ∀ x, x ∈ S ↔ x ∈ S') : cutCap g S = cutCap g S' := by
  unfold cutCap
  apply esum_congr
  intro e _
  simp [h]

/-- weak duality for arbitrary (not necessarily duplicate-free) cut lists -/
theorem value_le_cut' (g : MGraph) (s t : Nat) (f : Nat → Int) (S : List Nat) (hf : Feasible g s t f)
    (hs : s ∈ S) (ht : t ∉ S) : excess g f s ≤ cutCap g S := by
  rw [cutCap_congr g S (dedup S) (fun x => (mem_dedup S x).symm)]
  exact value_le_cut g s t f (dedup S) hf (nodup_dedup S) ((mem_dedup S s).mpr hs)
    (fun h => ht ((mem_dedup S t).mp h))

/-! ### the checker -/

theorem residual_adj_fw (g : MGraph) (f : Nat → Int) (e : Edge) (he : e ∈ g.edges) (h : f e.id < e.w) :
    (residual g f).Adj e.src e.tgt := by
  refine ⟨{ id := e.id, src := e.src, tgt := e.tgt, w := 0 }, ?_, Or.inl ⟨rfl, rfl⟩⟩
  simp only [residual, List.mem_flatMap]
  exact ⟨e, he, by simp [h]⟩

theorem residual_adj_bw (g : MGraph) (f : Nat → Int) (e : Edge) (he : e ∈ g.edges) (h : 0 < f e.id) :
    (residual g f).Adj e.tgt e.src := by
  refine ⟨{ id := e.id, src := e.tgt, tgt := e.src, w := 0 }, ?_, Or.inl ⟨rfl, rfl⟩⟩
  simp only [residual, List.mem_flatMap]
  exact ⟨e, he, by simp [h]⟩

/-- what an accepted answer guarantees -/
structure FlowCertified (g : MGraph) (s t : Nat) (f : Nat → Int) (v : Int) : Prop where
  distinct : s ≠ t
  feasible : Feasible g s t f
  value : v = excess g f s
  /-- the value is the capacity of an `s`-`t` cut … -/
  cut : ∃ S : List Nat, S.Nodup ∧ IsCut s t S ∧ cutCap g S = v
  /-- … which is therefore a minimum cut … -/
  minCut : ∀ S : List Nat, IsCut s t S → v ≤ cutCap g S
  /-- … and the flow is a maximum flow -/
  maxFlow : ∀ f' : Nat → Int, Feasible g s t f' → excess g f' s ≤ v

theorem judgeFlow_sound (g : MGraph) (s t : Nat) (fl : List (Nat × Int)) (v : Int)
    (h : judgeFlow g s t fl v = none) : FlowCertified g s t (flowFn fl) v := by
  unfold judgeFlow at h
  simp only at h
  split at h
  · cases h
  rename_i hst
  split at h
  · cases h
  split at h
  · cases h
  rename_i hcap
  split at h
  · cases h
  rename_i hcons
  split at h
  · cases h
  rename_i hval
  split at h
  · cases h
  rename_i S hS
  split at h
  · cases h
  rename_i htS
  -- unpack
  have hcapP : ∀ e ∈ g.edges, 0 ≤ flowFn fl e.id ∧ flowFn fl e.id ≤ e.w := by
    intro e he
    have := List.find?_eq_none.mp hcap e he
    simpa using this
  have hconsP : ∀ x, x ≠ s → x ≠ t → inflow g (flowFn fl) x = outflow g (flowFn fl) x := by
    intro x hxs hxt
    by_cases hx : x ∈ consNodes g
    · have := List.find?_eq_none.mp hcons x hx
      simp [hxs, hxt] at this
      exact this
    · -- no edge touches `x`
      have hno : ∀ e ∈ g.edges, e.src ≠ x ∧ e.tgt ≠ x := by
        intro e he
        constructor
        · intro h'; apply hx
          simp only [consNodes, List.mem_append, List.mem_flatMap]
          exact Or.inr ⟨e, he, by simp [h']⟩
        · intro h'; apply hx
          simp only [consNodes, List.mem_append, List.mem_flatMap]
          exact Or.inr ⟨e, he, by simp [h']⟩
      have hi : inflow g (flowFn fl) x = 0 := by
        unfold inflow
        rw [esum_congr (ψ := fun _ => 0) (fun e he => by simp [(hno e he).2]), esum_zero]
      have ho : outflow g (flowFn fl) x = 0 := by
        unfold outflow
        rw [esum_congr (ψ := fun _ => 0) (fun e he => by simp [(hno e he).1]), esum_zero]
      rw [hi, ho]
  have hfeas : Feasible g s t (flowFn fl) := ⟨hcapP, hconsP⟩
  have hv : v = excess g (flowFn fl) s := by simpa using hval
  have hspec := reachFrom_spec (residual g (flowFn fl)) s S hS
  have hsS : s ∈ S := (hspec.2 s).mpr (Reach.refl s)
  have htS' : t ∉ S := by simpa using htS
  have hclosed : ∀ a b, a ∈ S → (residual g (flowFn fl)).Adj a b → b ∈ S := by
    intro a b ha hab
    exact (hspec.2 b).mpr (Reach.step ((hspec.2 a).mp ha) hab)
  have heq : excess g (flowFn fl) s = cutCap g S := by
    apply value_eq_cut g s t (flowFn fl) S hfeas hspec.1 hsS htS'
    · intro e he ha hb
      have := hcapP e he
      by_cases hlt : flowFn fl e.id < e.w
      · exact absurd (hclosed _ _ ha (residual_adj_fw g _ e he hlt)) hb
      · omega
    · intro e he ha hb
      have := hcapP e he
      by_cases hlt : 0 < flowFn fl e.id
      · exact absurd (hclosed _ _ ha (residual_adj_bw g _ e he hlt)) hb
      · omega
  refine ⟨hst, hfeas, hv, ⟨S, hspec.1, ⟨hsS, htS'⟩, by rw [hv, heq]⟩, ?_, ?_⟩
  · intro S' hS'
    rw [hv]
    exact value_le_cut' g s t _ S' hfeas hS'.1 hS'.2
  · intro f' hf'
    rw [hv, heq]
    exact value_le_cut g s t f' S hf' hspec.1 hsS htS'

end PetgraphModel.C15P
