import PetgraphModel.Proofs.CsrReaders
set_option linter.style.nameCheck false
namespace PetgraphModel.CsrProofs
open PetgraphModel.CsrM PetgraphModel.AppendSpec

/-! ### the representation is canonical: insertion order cannot matter -/

/-- two abstract graphs that answer alike (the order of `edges` is *not* compared) -/
def SGEquiv (g1 g2 : SG) : Prop :=
  g1.nodes = g2.nodes ∧ (∀ a b, g1.lookup a b = g2.lookup a b) ∧ g1.edgeCount = g2.edgeCount

theorem rows_ext {R1 R2 : List Row} (ok1 : RowsOK R1) (ok2 : RowsOK R2) (hl : R1.length = R2.length)
    (h : ∀ a b, look R1 a b = look R2 a b) : R1 = R2 := by
  apply List.ext_getElem hl
  intro a h1 h2
  apply row_ext _ _ (ok1 _ (List.getElem_mem h1)).1 (ok2 _ (List.getElem_mem h2)).1
  intro b
  rw [← look_of_lt R1 a b h1, ← look_of_lt R2 a b h2]; exact h a b

/-- a `Csr` value is determined by the abstract graph it represents -/
theorem canonical {s1 s2 : State} {R1 R2 : List Row} {g1 g2 : SG}
    (good1 : Good s1 R1) (good2 : Good s2 R2) (abs1 : Abs s1 R1 g1) (abs2 : Abs s2 R2 g2)
    (sp : SameParams s1 s2) (hg : SGEquiv g1 g2) : s1 = s2 := by
  have hl : R1.length = R2.length := by
    rw [← Abs.n good1 abs1, ← Abs.n good2 abs2, SG.n, SG.n, hg.1]
  have hR : R1 = R2 := rows_ext good1.ok good2.ok hl (fun a b => by rw [abs1.look, abs2.look, hg.2.1])
  subst hR
  have hcol : s1.column = s2.column := by rw [good1.rep.col, good2.rep.col]
  have hwts : s1.edges = s2.edges := by rw [good1.rep.wts, good2.rep.wts]
  have hrow : s1.row = s2.row := by rw [good1.rep.row, good2.rep.row]
  have hnw : s1.nodeWeights = s2.nodeWeights := by rw [← abs1.nodes, ← abs2.nodes, hg.1]
  have hec : s1.edgeCount = s2.edgeCount := by
    cases hd : s1.directed with
    | true =>
      rw [good1.dcount hd, good2.dcount (by rw [← sp.1]; exact hd)]
    | false =>
      have hd2 : s2.directed = false := by rw [← sp.1]; exact hd
      have h1 := abs1.count
      have h2 := abs2.count
      simp only [State.edgeCountQ, hd, hd2] at h1 h2
      simp only [Bool.false_eq_true, if_false] at h1 h2
      rw [h1, h2, hg.2.2]
  obtain ⟨hd, hm, hc, hdb⟩ := sp
  cases s1; cases s2
  simp_all

/-- **insertion-order independence**: two histories after which the specification holds the same
abstract graph leave the *same* `Csr` value (same vectors, bit for bit). -/
theorem order_independent {s : State} {R : List Row} {g : SG} (good : Good s R) (abs : Abs s R g)
    (ops1 ops2 : List Op)
    (heq : SGEquiv (specRun s.modulus g ops1).1 (specRun s.modulus g ops2).1) :
    (run s ops1).1 = (run s ops2).1 := by
  obtain ⟨R1, good1, abs1, _, sp1⟩ := run_refines good abs ops1
  obtain ⟨R2, good2, abs2, _, sp2⟩ := run_refines good abs ops2
  exact canonical good1 good2 abs1 abs2
    ⟨sp1.1.trans sp2.1.symm, sp1.2.1.trans sp2.2.1.symm, sp1.2.2.1.trans sp2.2.2.1.symm,
      sp1.2.2.2.trans sp2.2.2.2.symm⟩ heq

/-! ### the invariant in elementary terms -/

theorem offsets_ge {α : Type} (acc : Nat) (R : List (List α)) : ∀ x ∈ offsets acc R, acc ≤ x := by
  induction R generalizing acc with
  | nil => simp [offsets]
  | cons r rs ih =>
    intro x hx
    simp only [offsets, List.mem_cons] at hx
    rcases hx with rfl | hx
    · exact Nat.le_refl _
    · have := ih _ x hx; omega

theorem offsets_sorted {α : Type} (acc : Nat) (R : List (List α)) : (offsets acc R).Pairwise (· ≤ ·) := by
  induction R generalizing acc with
  | nil => simp [offsets]
  | cons r rs ih =>
    simp only [offsets, List.pairwise_cons]
    refine ⟨?_, ih _⟩
    intro x hx
    have := offsets_ge _ rs x hx; omega

/-- the invariant in the terms of `csr.rs`'s own comments: `row` has `node_count + 1` nondecreasing
entries, starts at 0 and ends in `column.len()`; `edges` is in lock step with `column`; every row slice
is strictly ascending with entries below `node_count`; for `Undirected` the rows are symmetric. -/
theorem Good.elementary {s : State} {R : List Row} (good : Good s R) :
    s.row.length = s.nodeCount + 1 ∧ s.nodeWeights.length = s.nodeCount ∧
    s.row.Pairwise (· ≤ ·) ∧ s.row[0]? = some 0 ∧ s.row[s.nodeCount]? = some s.column.length ∧
    s.edges.length = s.column.length ∧
    (∀ a, a < s.nodeCount → ∃ nb, neighborsSlice s a = some nb ∧ nb.Pairwise (· < ·) ∧ ∀ x ∈ nb, x < s.nodeCount) ∧
    (s.directed = false → ∀ a b, a < s.nodeCount → b < s.nodeCount → containsEdge s a b = containsEdge s b a) ∧
    (s.directed = true → s.edgeCount = 0) := by
  have hn := good.rep.nodeCount
  refine ⟨?_, ?_, ?_, ?_, ?_, ?_, ?_, ?_, good.dcount⟩
  · rw [hn, good.rep.row, offsets_length]
  · rw [hn, good.rep.nw]
  · rw [good.rep.row]; exact offsets_sorted 0 R
  · rw [good.rep.row, offsets_getElem? 0 R 0 (by omega)]; simp
  · rw [hn, good.rep.row, offsets_getElem? 0 R R.length (by omega), start_length, good.rep.column_length]; simp
  · rw [good.rep.edges_length, good.rep.column_length]
  · intro a ha
    rw [hn] at ha
    have hok := good.ok _ (List.getElem_mem ha)
    refine ⟨keys R[a], ?_, hok.1, ?_⟩
    · simp only [neighborsSlice, good.rep.neighborsOf_lt a ha, Option.map_some]
    · rw [hn]; exact hok.2
  · intro hd a b ha hb
    rw [hn] at ha hb
    have hsym := good.sym hd
    simp only [containsEdge, good.rep.findEdgePos_lt good.ok a b ha, good.rep.findEdgePos_lt good.ok b a hb,
      Option.map_some]
    congr 1
    have h1 := look_none_iff R a b ha
    have h2 := look_none_iff R b a hb
    rw [hsym a b] at h1
    by_cases hab : b ∈ keys R[a]
    · have hba : a ∈ keys R[b] := by
        by_contra hc; exact (h1.mp (h2.mpr hc)) hab
      simp [hab, hba, Pos.isFound]
    · have hba : a ∉ keys R[b] := h2.mp (h1.mpr hab)
      simp [hab, hba, Pos.isFound]

end PetgraphModel.CsrProofs
