import PetgraphModel.Proofs.C09Topo
/-
`kosaraju_scc` (mirror model) returns the classes of mutual reachability, listed so that no component
reaches a later one.

* first phase = `DfsPostOrder` on `Reversed(g)`: the same explicit-stack DFS as toposort's first pass,
  so the invariant `TInv` of `Proofs/C09Topo.lean` applies; it yields the finish list `L` with: no
  duplicates, exactly the nodes, and `sccLate`: if `x` finished before `y` and reaches `y`, some node
  of the class of `x` finished after `y` or is `y`.
* second phase = forward `Dfs` in decreasing finish time: a restart at `i` collects everything
  reachable from `i` through undiscovered nodes; by `sccLate` that is exactly the class of `i`.
Core Lean only.
-/
namespace PetgraphModel.C09P
open PetgraphModel PetgraphModel.MGraph PetgraphModel.C09J PetgraphModel.C09M PetgraphModel.Trav

/-! ### the reversed graph -/

theorem adj_reverse {g : MGraph} {a b : Nat} : g.reverse.Adj a b ↔ g.Adj b a := by
  unfold MGraph.Adj MGraph.reverse
  simp only [List.mem_map]
  constructor
  · rintro ⟨e, ⟨e0, he0, rfl⟩, hc⟩
    refine ⟨e0, he0, ?_⟩
    rcases hc with ⟨h1, h2⟩ | ⟨h0, h1, h2⟩
    · exact Or.inl ⟨h2, h1⟩
    · exact Or.inr ⟨h0, h2, h1⟩
  · rintro ⟨e0, he0, hc⟩
    refine ⟨_, ⟨e0, he0, rfl⟩, ?_⟩
    rcases hc with ⟨h1, h2⟩ | ⟨h0, h1, h2⟩
    · exact Or.inl ⟨h2, h1⟩
    · exact Or.inr ⟨h0, h2, h1⟩

theorem reach_reverse_of {g : MGraph} {a b : Nat} (h : Reach g a b) : Reach g.reverse b a := by
  induction h with
  | refl => exact Reach.refl _
  | step _ hadj ih => exact reach_trans (reach_of_adj (adj_reverse.mpr hadj)) ih

theorem reach_of_reverse {g : MGraph} {a b : Nat} (h : Reach g.reverse a b) : Reach g b a := by
  induction h with
  | refl => exact Reach.refl _
  | step _ hadj ih => exact reach_trans (reach_of_adj (adj_reverse.mp hadj)) ih

theorem reach_reverse {g : MGraph} {a b : Nat} : Reach g.reverse a b ↔ Reach g b a :=
  ⟨reach_of_reverse, reach_reverse_of⟩

theorem sc_reverse {g : MGraph} {a b : Nat} : SC g.reverse a b ↔ SC g a b := by
  unfold SC
  rw [reach_reverse, reach_reverse]
  exact And.comm

theorem viewOk_rev {v : View} (hp : ∀ a b, b ∈ v.pred a ↔ v.g.Adj b a) : ViewOk (rev v) := by
  intro a b
  show b ∈ v.pred a ↔ v.g.reverse.Adj a b
  rw [adj_reverse]
  exact hp a b

/-! ### first phase: `DfsPostOrder` as the explicit-stack DFS of `TInv` -/

def toTS (d : Post) (acc : List Nat) : TS := ⟨d.stack, d.disc, d.fin, acc⟩

theorem postNext_spec (w : View) (hw : ViewOk w) (N : List Nat) (hN : ∀ x ∈ N, ∀ y ∈ w.succ x, y ∈ N) (i : Nat) :
    ∀ (f : Nat) (d : Post) (acc : List Nat) (r : Option Nat) (d' : Post),
    TInv w false N (toTS d acc) → (i ∈ d.disc ∨ i ∈ d.stack) → postNext w f d = some (r, d') →
    (∀ x ∈ d.disc, x ∈ d'.disc) ∧ (i ∈ d'.disc ∨ i ∈ d'.stack) ∧
    (r = none → d'.stack = [] ∧ TInv w false N (toTS d' acc)) ∧
    (∀ x, r = some x → TInv w false N (toTS d' (acc ++ [x]))) := by
  intro f
  induction f with
  | zero => intro d acc r d' _ _ h; simp [postNext] at h
  | succ f ih =>
    intro d acc r d' inv hi h
    unfold postNext at h
    split at h
    · rename_i hst
      simp at h
      obtain ⟨h1, h2⟩ := h
      subst h1; subst h2
      exact ⟨fun _ h => h, hi, fun _ => ⟨hst, inv⟩, fun x hx => by cases hx⟩
    · rename_i nx st hst
      have hst' : (toTS d acc).stack = nx :: st := hst
      split at h
      · rename_i hnd
        have hnd' : nx ∉ d.disc := by simpa using hnd
        have inv' := tinv_discover hw hN inv hst' hnd' (fun h => by cases h)
          (P := ((w.succ nx).filter fun y => !(nx :: d.disc).contains y).reverse)
          (by
            intro y hy
            have := List.mem_filter.mp (List.mem_reverse.mp hy)
            refine ⟨this.1, ?_⟩
            show y ∉ nx :: d.disc
            simpa using this.2)
          (by
            intro y hy
            show y ∈ nx :: d.disc ∨ _
            by_cases hyd : y ∈ nx :: d.disc
            · exact Or.inl hyd
            · exact Or.inr (List.mem_reverse.mpr (List.mem_filter.mpr ⟨hy, by simpa using hyd⟩)))
        have := ih { d with stack := ((w.succ nx).filter fun y => !(nx :: d.disc).contains y).reverse ++ (nx :: st),
                            disc := nx :: d.disc } acc r d' inv'
          (by
            cases hi with
            | inl h => exact Or.inl (List.mem_cons_of_mem _ h)
            | inr h =>
              rw [hst] at h
              exact Or.inr (List.mem_append_right _ h))
          h
        exact ⟨fun x hx => this.1 x (List.mem_cons_of_mem _ hx), this.2⟩
      · rename_i hnd
        have hnd' : nx ∈ d.disc := by simpa using hnd
        have hi' : i ∈ d.disc ∨ i ∈ st := by
          cases hi with
          | inl h => exact Or.inl h
          | inr h =>
            rw [hst] at h
            cases List.mem_cons.mp h with
            | inl h => exact Or.inl (h ▸ hnd')
            | inr h => exact Or.inr h
        have hpop := tinv_pop hw inv hst' hnd'
        split at h
        · rename_i hnf
          have hnf' : nx ∉ d.fin := by simpa using hnf
          simp at h
          obtain ⟨h1, h2⟩ := h
          subst h1; subst h2
          refine ⟨fun _ h => h, hi', (fun h => by cases h), ?_⟩
          intro x hx
          have : x = nx := by simpa using hx.symm
          subst this
          exact hpop.2 hnf'
        · rename_i hnf
          have hnf' : nx ∈ d.fin := by simpa using hnf
          exact ih { d with stack := st } acc r d' (hpop.1 hnf') hi' h

theorem drain_post (w : View) (hw : ViewOk w) (N : List Nat) (hN : ∀ x ∈ N, ∀ y ∈ w.succ x, y ∈ N) (i f : Nat) :
    ∀ (k : Nat) (d : Post) (acc out : List Nat) (d' : Post),
    drain (postNext w f) k d acc = some (out, d') → TInv w false N (toTS d acc) → (i ∈ d.disc ∨ i ∈ d.stack) →
    TInv w false N (toTS d' out) ∧ d'.stack = [] ∧ (∀ x ∈ d.disc, x ∈ d'.disc) ∧ i ∈ d'.disc := by
  intro k
  induction k with
  | zero => intro d acc out d' h; simp [drain] at h
  | succ k ih =>
    intro d acc out d' h inv hi
    rw [drain_succ] at h
    cases hn : postNext w f d with
    | none => simp [hn] at h
    | some p =>
      obtain ⟨o, d1⟩ := p
      obtain ⟨hmono, hi1, hnone, hsome⟩ := postNext_spec w hw N hN i f d acc o d1 inv hi hn
      cases o with
      | none =>
        simp [hn] at h
        obtain ⟨h1, h2⟩ := h
        subst h1; subst h2
        obtain ⟨hs, inv1⟩ := hnone rfl
        refine ⟨inv1, hs, hmono, ?_⟩
        cases hi1 with
        | inl h => exact h
        | inr h => rw [hs] at h; cases h
      | some x =>
        simp only [hn] at h
        obtain ⟨i1, i2, i3, i4⟩ := ih d1 (acc ++ [x]) out d' h (hsome x rfl) hi1
        exact ⟨i1, i2, fun y hy => i3 y (hmono y hy), i4⟩

theorem finish_fold (v : View) (hw : ViewOk (rev v)) (N : List Nat)
    (hN : ∀ x ∈ N, ∀ y ∈ (rev v).succ x, y ∈ N) : ∀ (l : List Nat) (d : Post) (acc : List Nat) (d' : Post)
    (out : List Nat), l.foldlM (finishStep v) (d, acc) = some (d', out) →
    TInv (rev v) false N (toTS d acc) → d.stack = [] → (∀ x ∈ l, x ∈ N) →
    TInv (rev v) false N (toTS d' out) ∧ d'.stack = [] ∧ (∀ x ∈ d.disc, x ∈ d'.disc) ∧ ∀ x ∈ l, x ∈ d'.disc := by
  intro l
  induction l with
  | nil =>
    intro d acc d' out h inv hst _
    simp at h
    obtain ⟨h1, h2⟩ := h
    subst h1; subst h2
    exact ⟨inv, hst, fun _ h => h, by simp⟩
  | cons i l ih =>
    intro d acc d' out h inv hst hl
    have hl' : ∀ x ∈ l, x ∈ N := fun x hx => hl x (List.mem_cons_of_mem _ hx)
    rw [List.foldlM_cons] at h
    cases hstep : finishStep v (d, acc) i with
    | none => rw [hstep] at h; cases h
    | some st1 =>
      rw [hstep] at h
      have h' : l.foldlM (finishStep v) st1 = some (d', out) := h
      obtain ⟨d1, acc1⟩ := st1
      unfold finishStep at hstep
      by_cases hi : d.disc.contains i = true
      · rw [if_pos hi] at hstep
        cases hstep
        obtain ⟨h1, h2, h3, h4⟩ := ih d acc d' out h' inv hst hl'
        refine ⟨h1, h2, h3, ?_⟩
        intro x hx
        cases List.mem_cons.mp hx with
        | inl h => exact h ▸ h3 i (by simpa using hi)
        | inr h => exact h4 x h
      · rw [if_neg hi] at hstep
        have hi' : i ∉ d.disc := by simpa using hi
        cases hdr : drain (postNext (rev v) (2 * fuel v)) (2 * fuel v + 4) (Post.moveTo d i) acc with
        | none => rw [hdr] at hstep; cases hstep
        | some p =>
          obtain ⟨out1, dd⟩ := p
          rw [hdr] at hstep
          cases hstep
          -- the root push
          have inv0 : TInv (rev v) false N (toTS (d.moveTo i) acc) := by
            refine ⟨inv.outNodup, inv.outFin, inv.finDisc, ?_, ?_, inv.discN, inv.noLoop, ?_, ?_, inv.finEdge,
              inv.finSucc, inv.sccOpen, inv.sccLate⟩
            · intro x hx hxf
              have := inv.greyStack x hx hxf
              have hst0 : (toTS d acc).stack = [] := hst
              rw [hst0] at this; cases this
            · intro x hx
              have : x = i := by simpa [toTS, Post.moveTo] using hx
              exact this ▸ hl i (List.mem_cons_self ..)
            · intro above x below hsp _ y hyb
              have hsp' : [i] = above ++ x :: below := hsp
              cases above with
              | nil =>
                simp only [List.nil_append, List.cons.injEq] at hsp'
                rw [← hsp'.2] at hyb; cases hyb
              | cons a0 ab =>
                simp only [List.cons_append, List.cons.injEq] at hsp'
                have := hsp'.2
                simp at this
            · intro above x below hsp hxd y _
              have hsp' : [i] = above ++ x :: below := hsp
              cases above with
              | nil =>
                simp only [List.nil_append, List.cons.injEq] at hsp'
                exact absurd (hsp'.1 ▸ hxd) hi'
              | cons a0 ab =>
                simp only [List.cons_append, List.cons.injEq] at hsp'
                have := hsp'.2
                simp at this
          obtain ⟨i1, i2, i3, i4⟩ := drain_post (rev v) hw N hN i _ _ _ _ _ _ hdr inv0
            (Or.inr (by simp [Post.moveTo]))
          obtain ⟨h1, h2, h3, h4⟩ := ih dd out1 d' out h' i1 i2 hl'
          refine ⟨h1, h2, fun x hx => h3 x (i3 x hx), ?_⟩
          intro x hx
          cases List.mem_cons.mp hx with
          | inl h => exact h ▸ h3 i i4
          | inr h => exact h4 x h

/-- what the first phase delivers -/
structure FinishSpec (g : MGraph) (L : List Nat) : Prop where
  nodup : L.Nodup
  cover : ∀ x, x ∈ L ↔ x ∈ g.nodes
  /-- (in the ORIGINAL graph) if `x` is listed before `y` and `y` reaches `x`, some node of the class of
  `x` is not listed before `y` -/
  late : ∀ l1 y l2, L = l1 ++ y :: l2 → ∀ x ∈ l1, Reach g y x → ∃ z, SC g x z ∧ z ∉ l1

theorem kosarajuFinish_spec (v : View) (hp : ∀ a b, b ∈ v.pred a ↔ v.g.Adj b a) (hwf : v.g.WellFormed)
    (L : List Nat) (h : kosarajuFinish v = some L) : FinishSpec v.g L := by
  unfold kosarajuFinish at h
  cases hfold : v.g.nodes.foldlM (finishStep v) (({} : Post), []) with
  | none => rw [hfold] at h; cases h
  | some st =>
    obtain ⟨d', out⟩ := st
    rw [hfold] at h
    cases h
    have hw := viewOk_rev hp
    have hN : ∀ x ∈ v.g.nodes, ∀ y ∈ (rev v).succ x, y ∈ v.g.nodes := by
      intro x _ y hy
      have hadj : v.g.Adj y x := (hp x y).mp hy
      obtain ⟨e, he, hc⟩ := hadj
      rcases hc with ⟨h1, _⟩ | ⟨_, _, h2⟩
      · exact h1 ▸ (hwf.2 e he).1
      · exact h2 ▸ (hwf.2 e he).2
    obtain ⟨inv, hst, _, hall⟩ := finish_fold v hw v.g.nodes hN v.g.nodes {} [] d' out hfold
      (tinv_init (rev v) false _) rfl (fun _ h => h)
    have hdf : ∀ x ∈ d'.disc, x ∈ d'.fin := by
      intro x hx
      apply Classical.byContradiction
      intro hnf
      have := inv.greyStack x hx hnf
      have hst0 : (toTS d' out).stack = [] := hst
      rw [hst0] at this; cases this
    refine ⟨inv.outNodup, ?_, ?_⟩
    · intro x
      show x ∈ (toTS d' out).out ↔ _
      rw [inv.outFin]
      exact ⟨fun h => inv.discN x (inv.finDisc x h), fun h => hdf x (hall x h)⟩
    · intro l1 y l2 hsplit x hx hyx
      obtain ⟨z, hsc, hz⟩ := inv.sccLate l1 y l2 hsplit x hx (reach_reverse.mpr hyx)
      exact ⟨z, sc_reverse.mp hsc, hz⟩

/-! ### `Dfs` restarted on a used walker: reachability through undiscovered nodes -/

/-- `x` is reachable from `a` by a walk all of whose nodes (start included) avoid `D` -/
inductive RA (g : MGraph) (D : List Nat) : Nat → Nat → Prop
  | refl {a : Nat} : a ∉ D → RA g D a a
  | step {a b c : Nat} : RA g D a b → g.Adj b c → c ∉ D → RA g D a c

theorem RA.notMem {g : MGraph} {D : List Nat} {a x : Nat} (h : RA g D a x) : x ∉ D := by
  cases h with
  | refl h => exact h
  | step _ _ h => exact h

theorem RA.toReach {g : MGraph} {D : List Nat} {a x : Nat} (h : RA g D a x) : Reach g a x := by
  induction h with
  | refl => exact Reach.refl _
  | step _ hadj _ ih => exact Reach.step ih hadj

structure DfsInvA (g : MGraph) (D : List Nat) (a : Nat) (d : Dfs) : Prop where
  base : ∀ x ∈ D, x ∈ d.disc
  discReach : ∀ x ∈ d.disc, x ∈ D ∨ RA g D a x
  stReach : ∀ x ∈ d.stack, RA g D a x
  closed : ∀ x ∈ d.disc, x ∉ D → ∀ y, g.Adj x y → y ∈ d.disc ∨ y ∈ d.stack
  start : a ∈ d.disc ∨ a ∈ d.stack

theorem dfsInvA_exhausted {g : MGraph} {D : List Nat} {a : Nat} {d : Dfs} (inv : DfsInvA g D a d)
    (hs : d.stack = []) (y : Nat) (hy : RA g D a y) : y ∈ d.disc := by
  induction hy with
  | refl =>
    cases inv.start with
    | inl h => exact h
    | inr h => rw [hs] at h; cases h
  | step hb hadj _ ih =>
    cases inv.closed _ ih hb.notMem _ hadj with
    | inl h => exact h
    | inr h => rw [hs] at h; cases h

theorem dfsNext_specA (v : View) (hv : ViewOk v) (D : List Nat) (a : Nat) :
    ∀ (f : Nat) (d : Dfs) (r : Option Nat) (d' : Dfs),
    DfsInvA v.g D a d → dfsNext v f d = some (r, d') →
    DfsInvA v.g D a d' ∧ (r = none → d'.stack = []) ∧ (∀ x, r = some x → RA v.g D a x) := by
  intro f
  induction f with
  | zero => intro d r d' _ h; simp [dfsNext] at h
  | succ f ih =>
    intro d r d' inv h
    unfold dfsNext at h
    split at h
    · rename_i hst
      simp at h
      obtain ⟨hr, hd⟩ := h
      subst hr; subst hd
      exact ⟨inv, fun _ => hst, fun x hx => by cases hx⟩
    · rename_i x st hst
      split at h
      · rename_i hx
        have inv' : DfsInvA v.g D a { d with stack := st } := by
          refine ⟨inv.base, inv.discReach, fun y hy => inv.stReach y (by rw [hst]; exact List.mem_cons_of_mem _ hy), ?_, ?_⟩
          · intro z hz hzD y hy
            cases inv.closed z hz hzD y hy with
            | inl h => exact Or.inl h
            | inr h =>
              rw [hst] at h
              cases List.mem_cons.mp h with
              | inl h => exact Or.inl (h ▸ hx)
              | inr h => exact Or.inr h
          · cases inv.start with
            | inl h => exact Or.inl h
            | inr h =>
              rw [hst] at h
              cases List.mem_cons.mp h with
              | inl h => exact Or.inl (h ▸ hx)
              | inr h => exact Or.inr h
        exact ih { d with stack := st } r d' inv' h
      · rename_i hx
        simp at h
        obtain ⟨hr, hd⟩ := h
        subst hr; subst hd
        have hxr : RA v.g D a x := inv.stReach x (by rw [hst]; exact List.mem_cons_self ..)
        refine ⟨⟨?_, ?_, ?_, ?_, ?_⟩, (fun h => by cases h), fun y hy => ?_⟩
        · intro y hy; exact List.mem_cons_of_mem _ (inv.base y hy)
        · intro y hy
          cases List.mem_cons.mp hy with
          | inl h => exact Or.inr (h ▸ hxr)
          | inr h => exact inv.discReach y h
        · intro y hy
          simp only at hy
          cases List.mem_append.mp hy with
          | inl h =>
            have h' := List.mem_filter.mp (List.mem_reverse.mp h)
            have hyD : y ∉ D := by
              intro hyD
              have : y ∈ x :: d.disc := List.mem_cons_of_mem _ (inv.base y hyD)
              have h2 := h'.2
              simp at h2
              exact h2.2 (by
                cases List.mem_cons.mp this with
                | inl h => exact absurd h h2.1
                | inr h => exact h)
            exact RA.step hxr ((hv x y).mp h'.1) hyD
          | inr h => exact inv.stReach y (by rw [hst]; exact List.mem_cons_of_mem _ h)
        · intro z hz hzD y hy
          simp only at hz ⊢
          by_cases hyd : y ∈ x :: d.disc
          · exact Or.inl hyd
          · right
            cases List.mem_cons.mp hz with
            | inl hzx =>
              subst hzx
              apply List.mem_append_left
              apply List.mem_reverse.mpr
              apply List.mem_filter.mpr
              refine ⟨(hv z y).mpr hy, ?_⟩
              simpa using hyd
            | inr hzd =>
              cases inv.closed z hzd hzD y hy with
              | inl h => exact absurd (List.mem_cons_of_mem _ h) hyd
              | inr h =>
                rw [hst] at h
                cases List.mem_cons.mp h with
                | inl h => exact absurd (h ▸ List.mem_cons_self ..) hyd
                | inr h => exact List.mem_append_right _ h
        · simp only
          cases inv.start with
          | inl h => exact Or.inl (List.mem_cons_of_mem _ h)
          | inr h =>
            rw [hst] at h
            cases List.mem_cons.mp h with
            | inl h => exact Or.inl (h ▸ List.mem_cons_self ..)
            | inr h => exact Or.inr (List.mem_append_right _ h)
        · have : y = x := by simpa using hy.symm
          subst this
          exact hxr

theorem drain_dfsA (v : View) (hv : ViewOk v) (D : List Nat) (a f : Nat) :
    ∀ (k : Nat) (d : Dfs) (acc out : List Nat) (d' : Dfs),
    drain (dfsNext v f) k d acc = some (out, d') → DfsInvA v.g D a d →
    ∃ new, out = acc ++ new ∧ (∀ x ∈ new, RA v.g D a x) ∧ DfsInvA v.g D a d' ∧ d'.stack = [] := by
  intro k
  induction k with
  | zero => intro d acc out d' h; simp [drain] at h
  | succ k ih =>
    intro d acc out d' h inv
    rw [drain_succ] at h
    cases hn : dfsNext v f d with
    | none => simp [hn] at h
    | some p =>
      obtain ⟨o, d1⟩ := p
      obtain ⟨inv1, hnone, hsome⟩ := dfsNext_specA v hv D a f d o d1 inv hn
      cases o with
      | none =>
        simp [hn] at h
        obtain ⟨h1, h2⟩ := h
        subst h1; subst h2
        exact ⟨[], by simp, by simp, inv1, hnone rfl⟩
      | some x =>
        simp only [hn] at h
        obtain ⟨new, h1, h2, h3, h4⟩ := ih d1 (acc ++ [x]) out d' h inv1
        refine ⟨x :: new, by rw [h1]; simp, ?_, h3, h4⟩
        intro y hy
        cases List.mem_cons.mp hy with
        | inl h => exact h ▸ hsome x rfl
        | inr h => exact h2 y h

/-- a restart of `Dfs` at an undiscovered node `i` on a walker with discovered set `d.disc` emits, each
once, exactly the nodes reachable from `i` through undiscovered nodes -/
theorem dfs_restart (v : View) (hv : ViewOk v) (d : Dfs) (i : Nat) (hi : i ∉ d.disc) (f k : Nat)
    (out : List Nat) (d' : Dfs) (h : drain (dfsNext v f) k (d.moveTo i) [] = some (out, d')) :
    out.Nodup ∧ (∀ x, x ∈ out ↔ RA v.g d.disc i x) ∧ (∀ x, x ∈ d'.disc ↔ x ∈ out ∨ x ∈ d.disc) := by
  obtain ⟨new, hnew, hnd, hfresh, hdisc⟩ := drain_dfs v f k (d.moveTo i) [] out d' h
  rw [List.nil_append] at hnew; subst hnew
  have inv0 : DfsInvA v.g d.disc i (d.moveTo i) := by
    refine ⟨fun x hx => hx, fun x hx => Or.inl hx, ?_, ?_, Or.inr (by simp [Dfs.moveTo])⟩
    · intro x hx
      have : x = i := by simpa [Dfs.moveTo] using hx
      subst this
      exact RA.refl hi
    · intro x hx hxD; exact absurd hx hxD
  obtain ⟨new', hn', hra, inv', hst'⟩ := drain_dfsA v hv d.disc i f k (d.moveTo i) [] out d' h inv0
  rw [List.nil_append] at hn'; subst hn'
  refine ⟨hnd, ?_, hdisc⟩
  intro x
  constructor
  · exact hra x
  · intro hx
    have := dfsInvA_exhausted inv' hst' x hx
    cases (hdisc x).mp this with
    | inl h => exact h
    | inr h => exact absurd h hx.notMem

/-- the class of `i` is reachable from `i` inside the class, so it avoids any set the class avoids -/
theorem sc_RA {g : MGraph} {D : List Nat} {i x : Nat} (hD : ∀ w, SC g i w → w ∉ D) (h : Reach g i x)
    (hb : Reach g x i) : RA g D i x := by
  induction h with
  | refl => exact RA.refl (hD _ (sc_refl g _))
  | step hr hadj ih =>
    rename_i w y
    have hwi : Reach g w i := reach_trans (reach_of_adj hadj) hb
    exact RA.step (ih hwi) hadj (hD _ ⟨Reach.step hr hadj, hb⟩)

theorem reach_nodes {g : MGraph} (hwf : g.WellFormed) {x y : Nat} (hx : x ∈ g.nodes) (h : Reach g x y) :
    y ∈ g.nodes := by
  induction h with
  | refl => exact hx
  | step _ hadj _ =>
    obtain ⟨e, he, hc⟩ := hadj
    rcases hc with ⟨_, h2⟩ | ⟨_, h1, _⟩
    · exact h2 ▸ (hwf.2 e he).2
    · exact h1 ▸ (hwf.2 e he).1

/-! ### second phase -/

structure K2 (g : MGraph) (d : Dfs) (sccs : List (List Nat)) : Prop where
  discEq : ∀ x, x ∈ d.disc ↔ x ∈ sccs.flatten
  nodup : sccs.flatten.Nodup
  nonempty : ∀ c ∈ sccs, c ≠ []
  classes : ∀ c ∈ sccs, ∀ x ∈ c, ∀ y, y ∈ c ↔ SC g x y
  /-- everything reachable from a collected component is already discovered -/
  closedOut : ∀ c ∈ sccs, ∀ x ∈ c, ∀ y, Reach g x y → y ∈ d.disc
  order : sccs.Pairwise fun ci cj => ∀ x ∈ ci, ∀ y ∈ cj, ¬ Reach g x y
  inNodes : ∀ x ∈ d.disc, x ∈ g.nodes

theorem K2.closedSC {g : MGraph} {d : Dfs} {sccs : List (List Nat)} (k : K2 g d sccs) {x y : Nat}
    (hx : x ∈ d.disc) (hxy : SC g x y) : y ∈ d.disc := by
  obtain ⟨c, hc, hxc⟩ := List.mem_flatten.mp ((k.discEq x).mp hx)
  exact (k.discEq y).mpr (List.mem_flatten.mpr ⟨c, hc, (k.classes c hc x hxc y).mpr hxy⟩)

theorem collect_fold (v : View) (hv : ViewOk v) (hwf : v.g.WellFormed) (L : List Nat) (hL : FinishSpec v.g L) :
    ∀ (rest : List Nat) (d : Dfs) (sccs : List (List Nat)) (d' : Dfs) (sccs' : List (List Nat)) (pre : List Nat),
    rest.foldlM (collectStep v) (d, sccs) = some (d', sccs') → K2 v.g d sccs → L.reverse = pre ++ rest →
    (∀ x ∈ pre, x ∈ d.disc) →
    K2 v.g d' sccs' ∧ (∀ x ∈ d.disc, x ∈ d'.disc) ∧ ∀ x ∈ rest, x ∈ d'.disc := by
  intro rest
  induction rest with
  | nil =>
    intro d sccs d' sccs' pre h k _ _
    simp at h
    obtain ⟨h1, h2⟩ := h
    subst h1; subst h2
    exact ⟨k, fun _ h => h, by simp⟩
  | cons i rest ih =>
    intro d sccs d' sccs' pre h k hrev hpre
    rw [List.foldlM_cons] at h
    have hrev' : L.reverse = (pre ++ [i]) ++ rest := by rw [hrev]; simp
    cases hstep : collectStep v (d, sccs) i with
    | none => rw [hstep] at h; cases h
    | some st1 =>
      rw [hstep] at h
      have h' : rest.foldlM (collectStep v) st1 = some (d', sccs') := h
      obtain ⟨d1, sccs1⟩ := st1
      unfold collectStep at hstep
      by_cases hi : d.disc.contains i = true
      · rw [if_pos hi] at hstep
        cases hstep
        have hid : i ∈ d.disc := by simpa using hi
        obtain ⟨h1, h2, h3⟩ := ih d sccs d' sccs' (pre ++ [i]) h' k hrev'
          (by
            intro x hx
            cases List.mem_append.mp hx with
            | inl h => exact hpre x h
            | inr h => have : x = i := by simpa using h
                       exact this ▸ hid)
        refine ⟨h1, h2, ?_⟩
        intro x hx
        cases List.mem_cons.mp hx with
        | inl h => exact h ▸ h2 i hid
        | inr h => exact h3 x h
      · rw [if_neg hi] at hstep
        have hi' : i ∉ d.disc := by simpa using hi
        cases hdr : drain (dfsNext v (fuel v)) (fuel v + 4) (Dfs.moveTo d i) [] with
        | none => rw [hdr] at hstep; cases hstep
        | some p =>
          obtain ⟨scc, dd⟩ := p
          rw [hdr] at hstep
          cases hstep
          obtain ⟨hnd, hmem, hdisc⟩ := dfs_restart v hv d i hi' _ _ scc dd hdr
          -- the finish list around `i`
          have hLs : L = rest.reverse ++ i :: pre.reverse := by
            have := congrArg List.reverse hrev
            simpa using this
          have hiN : i ∈ v.g.nodes := (hL.cover i).mp (by rw [hLs]; simp)
          have hkey : ∀ y, Reach v.g i y → y ∉ d.disc → SC v.g i y := by
            intro y hy hyd
            by_cases hyi : y = i
            · subst hyi; exact sc_refl _ _
            · have hyL : y ∈ L := (hL.cover y).mpr (reach_nodes hwf hiN hy)
              rw [hLs] at hyL
              cases List.mem_append.mp hyL with
              | inr h2 =>
                cases List.mem_cons.mp h2 with
                | inl h3 => exact absurd h3 hyi
                | inr h3 => exact absurd (hpre y (List.mem_reverse.mp h3)) hyd
              | inl h1 =>
                obtain ⟨z, hsc, hz⟩ := hL.late rest.reverse i pre.reverse hLs y h1 hy
                have hzN : z ∈ v.g.nodes := reach_nodes hwf (reach_nodes hwf hiN hy) hsc.1
                have hzL : z ∈ L := (hL.cover z).mpr hzN
                rw [hLs] at hzL
                cases List.mem_append.mp hzL with
                | inl h => exact absurd h hz
                | inr h =>
                  cases List.mem_cons.mp h with
                  | inl h3 => subst h3; exact sc_symm hsc
                  | inr h3 =>
                    have hzd : z ∈ d.disc := hpre z (List.mem_reverse.mp h3)
                    exact absurd (k.closedSC hzd (sc_symm hsc)) hyd
          have hD : ∀ w, SC v.g i w → w ∉ d.disc := fun w hw hwd => hi' (k.closedSC hwd (sc_symm hw))
          have hscc : ∀ x, x ∈ scc ↔ SC v.g i x := by
            intro x
            rw [hmem]
            exact ⟨fun h => hkey x h.toReach h.notMem, fun h => sc_RA hD h.1 h.2⟩
          have k1 : K2 v.g dd (sccs ++ [scc]) := by
            have hfl : ∀ x, x ∈ (sccs ++ [scc]).flatten ↔ x ∈ sccs.flatten ∨ x ∈ scc := by
              intro x; simp [List.flatten_append]
            refine ⟨?_, ?_, ?_, ?_, ?_, ?_, ?_⟩
            · intro x
              rw [hdisc, hfl, k.discEq]
              exact Or.comm
            · rw [List.flatten_append]
              simp only [List.flatten_cons, List.flatten_nil, List.append_nil]
              refine List.nodup_append.mpr ⟨k.nodup, hnd, ?_⟩
              intro a ha b hb hab
              subst hab
              exact ((hmem a).mp hb).notMem ((k.discEq a).mpr ha)
            · intro c hc
              cases List.mem_append.mp hc with
              | inl h => exact k.nonempty c h
              | inr h =>
                have : c = scc := by simpa using h
                subst this
                exact List.ne_nil_of_mem ((hscc i).mpr (sc_refl _ _))
            · intro c hc x hx y
              cases List.mem_append.mp hc with
              | inl h => exact k.classes c h x hx y
              | inr h =>
                have : c = scc := by simpa using h
                subst this
                have hix := (hscc x).mp hx
                rw [hscc]
                exact ⟨fun h => sc_trans (sc_symm hix) h, fun h => sc_trans hix h⟩
            · intro c hc x hx y hxy
              cases List.mem_append.mp hc with
              | inl h => exact (hdisc y).mpr (Or.inr (k.closedOut c h x hx y hxy))
              | inr h =>
                have : c = scc := by simpa using h
                subst this
                have hiy : Reach v.g i y := reach_trans ((hscc x).mp hx).1 hxy
                by_cases hyd : y ∈ d.disc
                · exact (hdisc y).mpr (Or.inr hyd)
                · exact (hdisc y).mpr (Or.inl ((hscc y).mpr (hkey y hiy hyd)))
            · rw [List.pairwise_append]
              refine ⟨k.order, List.pairwise_singleton _ _, ?_⟩
              intro ci hci cj hcj x hx y hy hxy
              have : cj = scc := by simpa using hcj
              subst this
              exact ((hmem y).mp hy).notMem (k.closedOut ci hci x hx y hxy)
            · intro x hx
              cases (hdisc x).mp hx with
              | inl h => exact reach_nodes hwf hiN ((hscc x).mp h).1
              | inr h => exact k.inNodes x h
          have hmono : ∀ x ∈ d.disc, x ∈ dd.disc := fun x hx => (hdisc x).mpr (Or.inr hx)
          have hidd : i ∈ dd.disc := (hdisc i).mpr (Or.inl ((hscc i).mpr (sc_refl _ _)))
          obtain ⟨h1, h2, h3⟩ := ih dd (sccs ++ [scc]) d' sccs' (pre ++ [i]) h' k1 hrev'
            (by
              intro x hx
              cases List.mem_append.mp hx with
              | inl h => exact hmono x (hpre x h)
              | inr h => have : x = i := by simpa using h
                         exact this ▸ hidd)
          refine ⟨h1, fun x hx => h2 x (hmono x hx), ?_⟩
          intro x hx
          cases List.mem_cons.mp hx with
          | inl h => exact h ▸ h2 i hidd
          | inr h => exact h3 x h

/-- **`kosaraju_scc` is exact** (mirror model, every view with consistent successor / predecessor
iteration over a well-formed graph): the answer lists every node exactly once, every component is a
class of mutual reachability, and no component reaches a later one. -/
theorem kosaraju_spec (v : View) (hv : ViewOk v) (hp : ∀ a b, b ∈ v.pred a ↔ v.g.Adj b a)
    (hwf : v.g.WellFormed) (comps : List (List Nat)) (h : kosaraju v = some comps) : SccSpec v.g comps := by
  unfold kosaraju at h
  cases hfin : kosarajuFinish v with
  | none => rw [hfin] at h; cases h
  | some L =>
    rw [hfin] at h
    have hcol : kosarajuCollect v L = some comps := h
    have hL := kosarajuFinish_spec v hp hwf L hfin
    unfold kosarajuCollect at hcol
    cases hfold : L.reverse.foldlM (collectStep v) (({} : Dfs), []) with
    | none => rw [hfold] at hcol; cases hcol
    | some st =>
      obtain ⟨d', sccs'⟩ := st
      rw [hfold] at hcol
      cases hcol
      have k0 : K2 v.g {} [] := by
        refine ⟨by intro x; simp, by simp, by simp, by simp, by simp, List.Pairwise.nil, by simp⟩
      obtain ⟨k, _, hall⟩ := collect_fold v hv hwf L hL L.reverse {} [] d' sccs' [] hfold k0 (by simp) (by simp)
      refine ⟨k.nonempty, k.nodup, ?_, k.classes, k.order⟩
      intro x
      rw [← k.discEq]
      exact ⟨fun h => k.inNodes x h, fun h => hall x (List.mem_reverse.mpr ((hL.cover x).mpr h))⟩

end PetgraphModel.C09P
