import PetgraphModel.Proofs.CsrRefine
set_option linter.style.nameCheck false
namespace PetgraphModel.CsrProofs
open PetgraphModel.CsrM PetgraphModel.AppendSpec

/-! ### the readers answer what the specification says -/

/-- the ascending list of `(b, f b)` for the `b < n` where `f` is defined -/
def tabulate (f : Nat → Option Int) (n : Nat) : Row :=
  (List.range n).filterMap fun b => (f b).map fun w => (b, w)

theorem tabulate_succ (f : Nat → Option Int) (n : Nat) :
    tabulate f (n + 1) = tabulate f n ++ (match f n with | some w => [(n, w)] | none => []) := by
  simp only [tabulate, List.range_succ, List.filterMap_append, List.filterMap_cons, List.filterMap_nil]
  cases f n <;> rfl

theorem tabulate_keys_lt (f : Nat → Option Int) (n : Nat) : ∀ x ∈ keys (tabulate f n), x < n := by
  induction n with
  | zero => simp [tabulate]
  | succ n ih =>
    intro x hx
    rw [tabulate_succ, keys, List.map_append, List.mem_append] at hx
    rcases hx with hx | hx
    · have := ih x hx; omega
    · cases hf : f n with
      | none => simp [hf] at hx
      | some w => simp [hf] at hx; omega

theorem tabulate_asc (f : Nat → Option Int) (n : Nat) : Asc (keys (tabulate f n)) := by
  induction n with
  | zero => simp [tabulate, Asc]
  | succ n ih =>
    rw [tabulate_succ, keys, List.map_append]
    unfold Asc
    rw [List.pairwise_append]
    refine ⟨ih, ?_, ?_⟩
    · cases f n <;> simp
    · intro x hx y hy
      have := tabulate_keys_lt f n x hx
      cases hf : f n with
      | none => simp [hf] at hy
      | some w => simp [hf] at hy; omega

theorem lookupRow_append (b : Nat) (r1 r2 : Row) :
    lookupRow b (r1 ++ r2) = match lookupRow b r1 with | some v => some v | none => lookupRow b r2 := by
  induction r1 with
  | nil => simp [lookupRow]
  | cons x xs ih =>
    simp only [List.cons_append, lookupRow]
    split
    · rfl
    · exact ih

theorem lookupRow_tabulate (f : Nat → Option Int) (n b : Nat) :
    lookupRow b (tabulate f n) = if b < n then f b else none := by
  induction n with
  | zero => simp [tabulate, lookupRow]
  | succ n ih =>
    rw [tabulate_succ, lookupRow_append, ih]
    have htail : b ≠ n → lookupRow b (match f n with | some w => [(n, w)] | none => []) = none := by
      intro hne
      cases f n with
      | none => rfl
      | some w =>
        have : ¬ n = b := fun e => hne e.symm
        simp [lookupRow, this]
    by_cases h1 : b < n
    · have : b < n + 1 := by omega
      simp only [h1, this, if_true]
      cases f b with
      | none => exact htail (by omega)
      | some v => rfl
    · simp only [h1, if_false]
      by_cases h2 : b = n
      · subst h2
        simp only [Nat.lt_succ_self, if_true]
        cases f b <;> simp [lookupRow]
      · have : ¬ b < n + 1 := by omega
        simp only [this, if_false]
        exact htail h2

theorem lookupKey_filter (k : Nat × Nat) (p : (Nat × Nat) × Int → Bool) (es : List ((Nat × Nat) × Int))
    (h : ∀ e ∈ es, e.1 = k → p e = true) : lookupKey k (es.filter p) = lookupKey k es := by
  induction es with
  | nil => rfl
  | cons e es ih =>
    obtain ⟨k', w⟩ := e
    have ih' := ih (fun e he => h e (List.mem_cons_of_mem _ he))
    by_cases hk : k' = k
    · have hp : p (k', w) = true := h (k', w) (List.mem_cons_self ..) hk
      subst hk
      simp [hp, lookupKey]
    · by_cases hp : p (k', w) = true
      · simp [hp, lookupKey, hk, ih']
      · simp [hp, lookupKey, hk, ih']

theorem SG.succ_eq_tabulate (g : SG) (a : Nat) : g.succ a = tabulate (g.lookup a) g.n := by
  unfold SG.succ tabulate
  show List.filterMap _ _ = _
  congr 1
  funext b
  unfold SG.lookup SG.incident
  rw [lookupKey_filter]
  intro e _ he
  rw [he]
  unfold key
  split <;> simp

/-- under invariant + abstraction, row `a` of the model *is* the specified successor list -/
theorem Abs.row_eq_succ {s : State} {R : List Row} {g : SG} (good : Good s R) (abs : Abs s R g) (a : Nat)
    (ha : a < R.length) : R[a] = g.succ a := by
  have hok := good.ok _ (List.getElem_mem ha)
  rw [SG.succ_eq_tabulate]
  apply row_ext _ _ hok.1 (tabulate_asc _ _)
  intro b
  rw [lookupRow_tabulate, ← look_of_lt R a b ha, Abs.n good abs]
  by_cases hb : b < R.length
  · simp [hb, abs.look]
  · simp only [hb, if_false]; exact good.ok.look_oob a b (by omega)

/-- `neighbors_slice`, `edges_slice`, `out_degree`, `contains_edge`, `edge_count`, `Index` all answer
what the abstract graph says; for every `a ≥ node_count` (a node that does not exist) they panic, as documented
(since /repo commit aadb875, the repair of D32; before it `a = node_count` answered "empty"). -/
theorem readers {s : State} {R : List Row} {g : SG} (good : Good s R) (abs : Abs s R g) (a : Nat) :
    (a < g.n →
      neighborsSlice s a = some ((g.succ a).map (·.1)) ∧
      edgesSlice s a = some ((g.succ a).map (·.2)) ∧
      outDegree s a = some (g.succ a).length ∧
      (∀ b, containsEdge s a b = some (g.has a b)) ∧
      index s a = g.nodes[a]?) ∧
    (g.n ≤ a → neighborsSlice s a = none ∧ edgesSlice s a = none ∧ outDegree s a = none ∧
      (∀ b, containsEdge s a b = none) ∧ (∀ b, findEdgePos s a b = none)) ∧
    s.edgeCountQ = g.edgeCount ∧ s.nodeCount = g.n := by
  have hn := Abs.n good abs
  refine ⟨?_, ?_, abs.count, by rw [good.rep.nodeCount, hn]⟩
  · intro ha
    rw [hn] at ha
    have hrow := Abs.row_eq_succ good abs a ha
    have hst : start R a ≤ start R (a + 1) := by rw [start_succ R a ha]; omega
    refine ⟨?_, ?_, ?_, ?_, ?_⟩
    · simp only [neighborsSlice, good.rep.neighborsOf_lt a ha, Option.map_some, keys, hrow]
    · simp only [edgesSlice, good.rep.range_lt a ha, good.rep.wts, slice_map_rows R _ a ha, hrow]
    · simp only [outDegree, good.rep.range_lt a ha]
      have : ¬ start R (a + 1) < start R a := by omega
      simp only [this, if_false]
      rw [start_succ R a ha, ← hrow]; simp
    · intro b
      simp only [containsEdge, good.rep.findEdgePos_lt good.ok a b ha, Option.map_some]
      congr 1
      unfold SG.has
      rw [← abs.look, look_of_lt R a b ha]
      by_cases hb : b ∈ keys R[a]
      · simp only [hb, if_true, Pos.isFound]
        cases hl : lookupRow b R[a] with
        | none => exact absurd ((lookupRow_none_iff b R[a]).mp hl) (by simpa using hb)
        | some v => rfl
      · simp only [hb, if_false, Pos.isFound]
        rw [(lookupRow_none_iff b R[a]).mpr hb]; rfl
    · simp [index, abs.nodes]
  · intro ha
    rw [hn] at ha
    have hr := good.rep.range_ge a ha
    refine ⟨?_, ?_, ?_, ?_, ?_⟩
    · simp [neighborsSlice, neighborsOf, hr]
    · simp [edgesSlice, hr]
    · simp [outDegree, hr]
    · intro b; simp [containsEdge, findEdgePos, neighborsOf, hr]
    · intro b; simp [findEdgePos, neighborsOf, hr]

end PetgraphModel.CsrProofs
