import PetgraphModel.Spec.C15
/-
C15 wave 5 — vocabulary for the maximality proof of `maximum_matching`: membership of a pair in a
matching given as a list of node pairs, covered nodes, alternating and augmenting paths, and the two
ways of saying "the free node `u` cannot be matched additionally" (no augmenting path starts at `u`;
no matching covers `u` together with everything `M` covers).  Core Lean only.
-/
namespace PetgraphModel.C15W5
open PetgraphModel PetgraphModel.C15

/-- `{a, b}` is a pair of `M` (either way round) -/
def InM (M : List (Nat × Nat)) (a b : Nat) : Prop := (a, b) ∈ M ∨ (b, a) ∈ M

/-- `a` is an endpoint of a pair of `M` -/
def Covered (M : List (Nat × Nat)) (a : Nat) : Prop := ∃ b, InM M a b

instance (M : List (Nat × Nat)) (a b : Nat) : Decidable (InM M a b) := by
  unfold InM; exact inferInstance

/-- consecutive nodes are joined by a non-loop edge of `g`, and the edges are alternately in `M`
(`m = true`: the first edge is a pair of `M`) -/
def AltFrom (g : MGraph) (M : List (Nat × Nat)) : Bool → List Nat → Prop
  | _, [] => True
  | _, [_] => True
  | m, a :: b :: r => Joined g a b ∧ (InM M a b ↔ m = true) ∧ AltFrom g M (!m) (b :: r)

/-- an `M`-augmenting path, as its list of nodes: a simple path with at least one edge, the edges
alternately outside and inside `M` starting outside, both end nodes not covered by `M` (so the last
edge is outside `M` as well and the number of edges is odd) -/
structure AugPath (g : MGraph) (M : List (Nat × Nat)) (p : List Nat) : Prop where
  nodup : p.Nodup
  alt : AltFrom g M false p
  two : 2 ≤ p.length
  headFree : ∀ a, p.head? = some a → ¬ Covered M a
  lastFree : ∀ a, p.getLast? = some a → ¬ Covered M a

/-- no `M`-augmenting path starts at `u` -/
def NoAugFrom (g : MGraph) (M : List (Nat × Nat)) (u : Nat) : Prop :=
  ∀ p, AugPath g M p → p.head? ≠ some u

/-- no matching of `g` covers `u` together with every node that `M` covers -/
def NoExt (g : MGraph) (M : List (Nat × Nat)) (u : Nat) : Prop :=
  ¬ ∃ N, IsMatching g N ∧ (∀ a, Covered M a → Covered N a) ∧ Covered N u

end PetgraphModel.C15W5
