import PetgraphModel.Proofs.C16W2Chk
import PetgraphModel.Proofs.C16W2Post
/-
C16, second wave — full correctness of the mirror model of `simple_fast`: assembling
`postOrder_total` (the `DfsPostOrder` run), `fixLoop_ok` (termination and completeness of the
Cooper–Harvey–Kennedy iteration) and `simpleFast_sound` (soundness of the fixed point).
-/
namespace PetgraphModel.C16P.W2Chk
open PetgraphModel MGraph C16S C16M C16P PetgraphModel.Trav

/-! ### the predecessor sets only contain real predecessors -/

theorem addPred_inv (ps : List (Nat × List Nat)) (s' n s p : Nat) (h : HasPred (addPred ps s' n) s p) :
    HasPred ps s p ∨ (s = s' ∧ p = n) := by
  obtain ⟨l, hl, hp⟩ := h
  unfold addPred at hl
  split at hl
  · rw [lookup_map_upd] at hl
    cases hps : ps.lookup s with
    | none => rw [hps] at hl; cases hl
    | some l0 =>
      rw [hps] at hl
      simp only [Option.map_some, Option.some.injEq] at hl
      subst hl
      split at hp
      · rename_i hss
        rcases (mem_insertSet p n l0).mp hp with e | e
        · exact Or.inr ⟨by simpa using hss, e⟩
        · exact Or.inl ⟨l0, hps, e⟩
      · exact Or.inl ⟨l0, hps, hp⟩
  · rw [List.lookup_append] at hl
    cases hps : ps.lookup s with
    | some l0 =>
      rw [hps] at hl
      simp only [Option.some_or, Option.some.injEq] at hl
      subst hl
      exact Or.inl ⟨l0, hps, hp⟩
    | none =>
      rw [hps] at hl
      simp only [Option.none_or, List.lookup_cons, List.lookup_nil] at hl
      split at hl
      · rename_i hss
        simp only [Option.some.injEq] at hl
        subst hl
        simp only [List.mem_singleton] at hp
        exact Or.inr ⟨by simpa using hss, hp⟩
      · cases hl

theorem inner_fold_inv (node : Nat) : ∀ (succs : List Nat) (ps : List (Nat × List Nat)) (s p : Nat),
    HasPred (succs.foldl (fun ps s => addPred ps s node) ps) s p →
    HasPred ps s p ∨ (s ∈ succs ∧ p = node) := by
  intro succs
  induction succs with
  | nil => intro ps s p h; exact Or.inl h
  | cons y ys ih =>
    intro ps s p h
    simp only [List.foldl_cons] at h
    rcases ih _ s p h with h' | ⟨h1, h2⟩
    · rcases addPred_inv ps y node s p h' with h'' | ⟨h1, h2⟩
      · exact Or.inl h''
      · exact Or.inr ⟨by simp [h1], h2⟩
    · exact Or.inr ⟨List.mem_cons_of_mem _ h1, h2⟩

theorem outer_fold_inv (v : View) : ∀ (post : List Nat) (ps : List (Nat × List Nat)) (s p : Nat),
    HasPred (post.foldl (fun ps node => (v.succ node).foldl (fun ps s => addPred ps s node) ps) ps) s p →
    HasPred ps s p ∨ (p ∈ post ∧ s ∈ v.succ p) := by
  intro post
  induction post with
  | nil => intro ps s p h; exact Or.inl h
  | cons n ns ih =>
    intro ps s p h
    simp only [List.foldl_cons] at h
    rcases ih _ s p h with h' | ⟨h1, h2⟩
    · rcases inner_fold_inv n (v.succ n) ps s p h' with h'' | ⟨h1, h2⟩
      · exact Or.inl h''
      · subst h2; exact Or.inr ⟨List.mem_cons_self .., h1⟩
    · exact Or.inr ⟨List.mem_cons_of_mem _ h1, h2⟩

theorem predSets_inv (v : View) (post : List Nat) (s p : Nat) (h : HasPred (predSets v post) s p) :
    p ∈ post ∧ s ∈ v.succ p := by
  rcases outer_fold_inv v post [] s p h with ⟨l, hl, _⟩ | h'
  · simp at hl
  · exact h'

theorem predVecs_some (v : View) (post : List Nat) :
    ∃ pv, predVecs post (predSets v post) = some pv := by
  unfold predVecs
  simp only
  split
  · exact ⟨_, rfl⟩
  · rename_i hc
    exfalso
    apply hc
    simp only [List.all_eq_true, decide_eq_true_eq]
    intro r hr i hi
    obtain ⟨node, _, rfl⟩ := List.mem_map.mp hr
    obtain ⟨p, hp, rfl⟩ := List.mem_map.mp hi
    cases hl : (predSets v post).lookup node with
    | none => rw [hl] at hp; simp at hp
    | some l =>
      rw [hl] at hp
      simp only [Option.getD_some] at hp
      exact List.idxOf_lt_length_of_mem (predSets_inv v post node p ⟨l, hl, hp⟩).1

/-! ### the accessor chain of the result enumerates the ancestor chain of the table -/

theorem chain_spec (post : List Nat) (doms : List (Option Nat)) (root : Nat) (hnodup : post.Nodup)
    (hU : Up post.length doms) (hdef : ∀ i, i < post.length → Def doms i)
    (hroot : post.getD (post.length - 1) 0 = root) :
    ∀ (F i : Nat), i < post.length → post.length ≤ F + i →
      (Doms.chain { root := root, map := (post.zip doms).map fun x => (x.1, post.getD (x.2.getD 0) 0) } F
        (some (post.getD i 0))).Nodup ∧
      (∀ a ∈ Doms.chain { root := root, map := (post.zip doms).map fun x => (x.1, post.getD (x.2.getD 0) 0) } F
        (some (post.getD i 0)), ∃ x, i ≤ x ∧ x < post.length ∧ a = post.getD x 0) ∧
      ∀ x, Anc doms i x → post.getD x 0 ∈
        Doms.chain { root := root, map := (post.zip doms).map fun x => (x.1, post.getD (x.2.getD 0) 0) } F
          (some (post.getD i 0)) := by
  intro F
  induction F with
  | zero => intro i hi hF; omega
  | succ F ih =>
    intro i hi hF
    simp only [Doms.chain]
    by_cases hlast : i = post.length - 1
    · subst hlast
      have : Doms.immediateDominator { root := root, map := (post.zip doms).map fun x => (x.1, post.getD (x.2.getD 0) 0) }
          (post.getD (post.length - 1) 0) = none := by
        unfold Doms.immediateDominator
        simp only [hroot, if_true]
      rw [this, chain_none]
      refine ⟨by simp, ?_, ?_⟩
      · intro a ha
        simp only [List.mem_singleton] at ha
        exact ⟨_, Nat.le_refl _, hi, ha⟩
      · intro x hx
        have := anc_fixed hU.root hx
        subst this
        simp
    · have hi1 : i < post.length - 1 := by omega
      obtain ⟨j, hj⟩ := def_iff.mp (hdef i hi)
      have hij := hU.up i j hi1 hj
      have hne : post.getD i 0 ≠ root := by
        intro e
        rw [← hroot] at e
        have := getD_inj hnodup hi (by omega) e
        omega
      have himm : Doms.immediateDominator { root := root, map := (post.zip doms).map fun x => (x.1, post.getD (x.2.getD 0) 0) }
          (post.getD i 0) = some (post.getD j 0) := by
        unfold Doms.immediateDominator
        simp only [hne, if_false]
        rw [map_lookup_getD post doms hnodup hU.hlen i hi, hj]
        rfl
      rw [himm]
      obtain ⟨h1, h2, h3⟩ := ih j hij.2 (by omega)
      refine ⟨?_, ?_, ?_⟩
      · refine List.nodup_cons.mpr ⟨?_, h1⟩
        intro hmem
        obtain ⟨x, hjx, hxl, hx⟩ := h2 _ hmem
        have := getD_inj hnodup hi hxl hx
        omega
      · intro a ha
        cases List.mem_cons.mp ha with
        | inl e => exact ⟨i, Nat.le_refl _, hi, e⟩
        | inr e =>
          obtain ⟨x, hjx, hxl, hx⟩ := h2 a e
          exact ⟨x, by omega, hxl, hx⟩
      · intro x hx
        cases hx with
        | refl => exact List.mem_cons_self ..
        | step hd hrest =>
          rw [hj] at hd
          cases hd
          exact List.mem_cons_of_mem _ (h3 x hrest)

/-! ### the initial table -/

theorem getD_replicate_none (len i : Nat) : (List.replicate len (none : Option Nat)).getD i none = none := by
  rw [List.getD_eq_getElem?_getD]
  by_cases h : i < len
  · rw [List.getElem?_eq_getElem (by simpa using h)]; simp
  · rw [List.getElem?_eq_none (by simpa using h)]; rfl

theorem getD_doms0 (len i : Nat) (hpos : 0 < len) :
    ((List.replicate len (none : Option Nat)).set (len - 1) (some (len - 1))).getD i none =
      if i = len - 1 then some (len - 1) else none := by
  rw [getD_set (by simp; omega), getD_replicate_none]

theorem sinv_doms0 (pv : List (List Nat)) (len : Nat) (hpos : 0 < len) :
    SInv pv len ((List.replicate len (none : Option Nat)).set (len - 1) (some (len - 1))) (len - 1) := by
  have hg := fun i => getD_doms0 len i hpos
  have hdef : ∀ i, Def ((List.replicate len (none : Option Nat)).set (len - 1) (some (len - 1))) i ↔ i = len - 1 := by
    intro i
    unfold Def
    rw [hg i]
    by_cases h : i = len - 1 <;> simp [h]
  refine ⟨⟨by simp, hpos, by rw [hg]; simp, ?_⟩, ?_, ?_, ?_, ?_⟩
  · intro i d hi hd
    rw [hg, if_neg (by omega)] at hd; cases hd
  · intro i h1 h2
    exact (hdef i).mpr (by omega)
  · intro i j hi hij hj
    have := (hdef i).mp hi
    exact (hdef j).mpr (by omega)
  · intro k w hk hkw
    rw [hg, if_neg (by omega)] at hkw; cases hkw
  · intro k w p hk hkw
    rw [hg, if_neg (by omega)] at hkw; cases hkw

theorem compl_doms0 (g : MGraph) (root : Nat) (post : List Nat) (hnodup : post.Nodup)
    (hpos : 0 < post.length) (hroot : post.getD (post.length - 1) 0 = root) :
    Compl g root post post.length
      ((List.replicate post.length (none : Option Nat)).set (post.length - 1) (some (post.length - 1))) := by
  intro b x hb hx hdb hdom
  unfold Def at hdb
  rw [getD_doms0 _ _ hpos] at hdb
  by_cases hbl : b = post.length - 1
  · subst hbl
    rw [hroot] at hdom
    have := hdom [root] Walk.start
    simp only [List.mem_singleton] at this
    rw [← hroot] at this
    have := getD_inj hnodup hx (by omega) this
    subst this
    exact Anc.refl _
  · rw [if_neg hbl] at hdb; cases hdb

/-! ### the assembled theorem -/

/-- **full correctness of the mirrored `simple_fast`**, given the three facts about the
`DfsPostOrder` run (`postOrder_total`) -/
theorem simpleFast_total (v : View) (root : Nat) (hv : ViewOk v)
    (hpo : ∃ post, postOrderFrom v (postFuel v) (postFuel v + 4) { stack := [root] } [] = some post ∧
      post.getLast? = some root ∧
      ∀ x ∈ post, x ≠ root → ∃ p ∈ post, v.g.Adj p x ∧ post.idxOf x < post.idxOf p) :
    ∃ d, simpleFast v root = .ok d ∧ d.root = root ∧
      (∀ b, d.dominators b = none ↔ ¬ Reach v.g root b) ∧
      ∀ b l, d.dominators b = some l → l.Nodup ∧ ∀ a, a ∈ l ↔ Dominates v.g root a b := by
  obtain ⟨post, hpost, hlast, hH0⟩ := hpo
  obtain ⟨hnodup, hreach⟩ := postOrderSpec_of_viewOk v hv root post hpost
  have hlen0 : post.length ≠ 0 := by
    intro h
    have : post = [] := List.eq_nil_of_length_eq_zero h
    subst this
    simp at hlast
  have hpos : 0 < post.length := by omega
  have hrootget : post.getD (post.length - 1) 0 = root := by
    rw [List.getLast?_eq_getElem?] at hlast
    rw [List.getD_eq_getElem?_getD, hlast]; rfl
  obtain ⟨pv, hpv⟩ := predVecs_some v post
  have hpvs := predVecs_spec post _ pv hpv
  have hgetmem : ∀ k, k < post.length → post.getD k 0 ∈ post := by
    intro k hk
    rw [getD_eq_getElem' post k 0 hk]; exact List.getElem_mem hk
  have hidx : ∀ k, k < post.length → post.idxOf (post.getD k 0) = k := by
    intro k hk
    rw [getD_eq_getElem' post k 0 hk]; exact hnodup.idxOf_getElem k hk
  have hgetidx : ∀ p, p ∈ post → post.getD (post.idxOf p) 0 = p := by
    intro p hp
    have hi := List.idxOf_lt_length_of_mem hp
    rw [getD_eq_getElem' post _ 0 hi, List.getElem_idxOf hi]
  have hrowmem : ∀ k, k < post.length → ∀ q ∈ pv.getD k [],
      ∃ p, p ∈ post ∧ q = post.idxOf p ∧ v.g.Adj p (post.getD k 0) := by
    intro k hk q hq
    have := hpvs _ (hgetmem k hk)
    rw [hidx k hk] at this
    rw [this] at hq
    obtain ⟨p, hp, rfl⟩ := List.mem_map.mp hq
    cases hl : (predSets v post).lookup (post.getD k 0) with
    | none => rw [hl] at hp; simp at hp
    | some l =>
      rw [hl] at hp
      simp only [Option.getD_some] at hp
      obtain ⟨h1, h2⟩ := predSets_inv v post _ p ⟨l, hl, hp⟩
      exact ⟨p, h1, rfl, (hv _ _).mp h2⟩
  have hP : ∀ k, k < post.length → ∀ p ∈ pv.getD k [], p < post.length := by
    intro k hk q hq
    obtain ⟨p, hp, rfl, _⟩ := hrowmem k hk q hq
    exact List.idxOf_lt_length_of_mem hp
  have hreal : ∀ k, k < post.length → ∀ p ∈ pv.getD k [],
      v.g.Adj (post.getD p 0) (post.getD k 0) := by
    intro k hk q hq
    obtain ⟨p, hp, rfl, hadj⟩ := hrowmem k hk q hq
    rw [hgetidx p hp]; exact hadj
  have hclosed : ∀ x ∈ post, ∀ y, v.g.Adj x y → y ∈ post := fun x hx y hadj =>
    (hreach y).mpr (Reach.step ((hreach x).mp hx) hadj)
  have hpvedge : ∀ x ∈ post, ∀ y, v.g.Adj x y → post.idxOf x ∈ pv.getD (post.idxOf y) [] := by
    intro x hx y hadj
    rw [hpvs y (hclosed x hx y hadj)]
    obtain ⟨l, hl, hxl⟩ := predSets_spec v post x hx y ((hv x y).mpr hadj)
    rw [hl]
    exact List.mem_map.mpr ⟨x, hxl, rfl⟩
  have hH : ∀ k, k < post.length - 1 → ∃ p ∈ pv.getD k [], k < p := by
    intro k hk
    have hkl : k < post.length := by omega
    have hne : post.getD k 0 ≠ root := by
      intro e
      rw [← hrootget] at e
      have := getD_inj hnodup hkl (by omega) e
      omega
    obtain ⟨p, hp, hadj, hlt⟩ := hH0 _ (hgetmem k hkl) hne
    have h1 := hpvedge p hp _ hadj
    rw [hidx k hkl] at h1 hlt
    exact ⟨_, h1, hlt⟩
  obtain ⟨doms, hfl, inv, hcompl⟩ := fixLoop_ok (g := v.g) (root := root) hP hH hreal hnodup rfl
    (post.length * post.length + 4) _ (sinv_doms0 pv post.length hpos)
    (compl_doms0 v.g root post hnodup hpos hrootget) (by omega)
  have hU := inv.up
  have hdef : ∀ i, i < post.length → Def doms i := fun i hi => inv.defd i (Nat.zero_le _) hi
  have hany : doms.any (·.isNone) = false := by
    rw [Bool.eq_false_iff]
    intro h
    obtain ⟨o, ho, hn⟩ := List.any_eq_true.mp h
    obtain ⟨i, hi, rfl⟩ := List.mem_iff_getElem.mp ho
    have := hdef i (by rw [← hU.hlen]; exact hi)
    unfold Def at this
    rw [getD_eq_getElem' doms i none hi] at this
    cases hd : doms[i] with
    | none => rw [hd] at this; cases this
    | some _ => rw [hd] at hn; cases hn
  have hsf : simpleFast v root = .ok (Doms.mk root
      ((post.zip doms).map fun x => (x.1, post.getD (x.2.getD 0) 0))) := by
    unfold simpleFast
    simp only [hpost]
    rw [if_neg (by
      intro h
      rcases h with h | h
      · exact hlen0 h
      · exact h hlast)]
    simp only [hpv, hfl, hany]
    rfl
  refine ⟨_, hsf, rfl, ?_⟩
  obtain ⟨_, hnone, hsound, _⟩ := simpleFast_sound v root _ hv (postOrderSpec_of_viewOk v hv root) hsf
  refine ⟨hnone, fun b l hl => ?_⟩
  have hs := hsound b l hl
  unfold Doms.dominators at hl
  split at hl
  · rename_i hlk
    simp only [Option.some.injEq] at hl
    have hb : b ∈ post := by
      cases hlk' : List.lookup b ((post.zip doms).map fun x => (x.1, post.getD (x.2.getD 0) 0)) with
      | none => simp only at hlk; rw [hlk'] at hlk; cases hlk
      | some c => exact lookup_zip_map_mem (fun dd : Option Nat => post.getD (dd.getD 0) 0) post doms b c hlk'
    have hbi := List.idxOf_lt_length_of_mem hb
    have hfuel : Doms.chainFuel (Doms.mk root
        ((post.zip doms).map fun x => (x.1, post.getD (x.2.getD 0) 0))) + 1 = post.length + 2 := by
      simp [Doms.chainFuel, List.length_zip, hU.hlen]
    rw [hfuel, ← hgetidx b hb] at hl
    obtain ⟨c1, c2, c3⟩ := chain_spec post doms root hnodup hU hdef hrootget (post.length + 2)
      (post.idxOf b) hbi (by omega)
    subst hl
    refine ⟨c1, fun a => ⟨hs a, fun hdom => ?_⟩⟩
    have hra : Reach v.g root a := dominates_reach ((hreach b).mp hb) hdom
    have ha : a ∈ post := (hreach a).mpr hra
    have hai := List.idxOf_lt_length_of_mem ha
    have := hcompl (post.idxOf b) (post.idxOf a) hbi hai (hdef _ hbi) (by
      rw [hgetidx a ha, hgetidx b hb]; exact hdom)
    have := c3 _ this
    rwa [hgetidx a ha] at this
  · cases hl

end PetgraphModel.C16P.W2Chk
