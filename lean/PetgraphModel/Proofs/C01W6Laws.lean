import PetgraphModel.Model.Graph
import PetgraphModel.Proofs.Graph
import PetgraphModel.Spec.C01RunChecks
/-
C01, wave 6 — the corners of the API that the driver treats as "the same call" get a modelled reason:

* `Clone::clone_from` onto an ARBITRARY prior graph (`Vec::clone_from`: truncate, element-wise `clone_from`
  on the common prefix, extend with clones of the rest) is `clone` — for every prior graph, PROVIDED the
  element `clone_from` copies every field; the seeded variant that forgets the endpoints is refuted;
* `into_nodes_edges` followed by re-insertion of the nodes and edges in index order is the model's `rebuild`
  (= `filter_map` keeping everything = `Graph::from(StableGraph::from(g))`), so the driver may judge
  `rebuild 1` with the very op it uses for `rebuild 0`.
-/
namespace PetgraphModel.C01W6
open PetgraphModel PetgraphModel.G

/-! ## `clone_from` -/

/-- `Vec::clone_from` (`<[T]>::clone_into`): `target.truncate(src.len()); let (init, tail) =
src.split_at(target.len()); target.clone_from_slice(init); target.extend_from_slice(tail)` -/
def vecCloneFrom {α : Type} (cf : α → α → α) (dst src : List α) : List α :=
  let dst' := dst.take src.length
  List.zipWith cf dst' (src.take dst'.length) ++ src.drop dst'.length

theorem zipWith_snd {α : Type} : ∀ (l₁ l₂ : List α), l₁.length = l₂.length →
    List.zipWith (fun _ b => b) l₁ l₂ = l₂
  | [], [], _ => rfl
  | [], _ :: _, h => by simp at h
  | _ :: _, [], h => by simp at h
  | _ :: l₁, b :: l₂, h => by
    simp only [List.zipWith_cons_cons, List.cons.injEq, true_and]
    exact zipWith_snd l₁ l₂ (by simpa using h)

/-- if the element `clone_from` is assignment, `Vec::clone_from` is assignment — whatever the destination held -/
theorem vecCloneFrom_assign {α : Type} (cf : α → α → α) (h : ∀ a b, cf a b = b) (dst src : List α) :
    vecCloneFrom cf dst src = src := by
  have hcf : cf = fun _ b => b := funext fun a => funext fun b => h a b
  subst hcf
  unfold vecCloneFrom
  simp only
  rw [zipWith_snd _ _ (by simp only [List.length_take]; omega)]
  exact List.take_append_drop _ _

/-- `Node::clone` field by field (`clone_fields!(Node, weight, next,)`); `clone_from` is the default `*self = rhs.clone()` -/
def nodeCloneFrom (_dst rhs : Node) : Node := { weight := rhs.weight, next0 := rhs.next0, next1 := rhs.next1 }
/-- `Edge::clone` field by field (`clone_fields!(Edge, weight, next, node,)`) -/
def edgeCloneFrom (_dst rhs : Edge) : Edge :=
  { weight := rhs.weight, next0 := rhs.next0, next1 := rhs.next1, src := rhs.src, tgt := rhs.tgt }

/-- `Graph::clone_from`: `self.nodes.clone_from(&rhs.nodes); self.edges.clone_from(&rhs.edges); self.ty = rhs.ty`
(the index type and edge type are type parameters: `endv`, `directed` are the source's) -/
def cloneFrom (dst src : State) : State :=
  { endv := src.endv, directed := src.directed,
    nodes := vecCloneFrom nodeCloneFrom dst.nodes src.nodes,
    edges := vecCloneFrom edgeCloneFrom dst.edges src.edges }

/-- **`a.clone_from(&b)` is `a = b.clone()` for every prior `a`** (no hypothesis on either graph), and that is
what the mirror model's `clone` op — the identity — computes; the driver judges every `clone k` line with it -/
theorem clone_from_is_clone (dst src : State) :
    cloneFrom dst src = src ∧ (G.step src .clone).1 = src := by
  refine ⟨?_, rfl⟩
  unfold cloneFrom
  rw [vecCloneFrom_assign nodeCloneFrom (fun _ b => by cases b; rfl),
      vecCloneFrom_assign edgeCloneFrom (fun _ b => by cases b; rfl)]

/-- the seeded variant (round 5, c01a): an element `clone_from` that reuses the weight and copies `next` but
forgets the endpoints -/
def edgeCloneFromSeeded (dst rhs : Edge) : Edge :=
  { weight := rhs.weight, next0 := rhs.next0, next1 := rhs.next1, src := dst.src, tgt := dst.tgt }

/-- … is not `clone` as soon as the destination already holds an edge with other endpoints: the statement
"`clone_from` = `clone` for every element `clone_from` that copies weight and links" is false -/
theorem clone_from_needs_every_field :
    ∃ dst src : List Edge, vecCloneFrom edgeCloneFromSeeded dst src ≠ src :=
  ⟨[⟨0, 9, 9, 0, 1⟩], [⟨5, 9, 9, 1, 0⟩], by decide⟩

/-- … while onto an edge-free destination the seeded variant is invisible (why a `clone_from` onto a fresh
graph never noticed it): the element `clone_from` is not called at all -/
theorem clone_from_onto_empty_hides (cf : Edge → Edge → Edge) (src : List Edge) : vecCloneFrom cf [] src = src := by
  simp [vecCloneFrom]

/-! ## `into_nodes_edges` + re-insertion = `rebuild` -/

/-- `for nd in nodes { h.add_node(nd.weight) }`; `none` = the capacity panic -/
def addNodes : List Node → State → Option State
  | [], g => some g
  | nd :: rest, g =>
    match tryAddNode g nd.weight with
    | (g', some _) => addNodes rest g'
    | (_, none) => none

/-- `for ed in edges { h.add_edge(ed.source(), ed.target(), ed.weight) }`; `none` = a panic of `add_edge` -/
def addEdges : List Edge → State → Option State
  | [], g => some g
  | ed :: rest, g =>
    match tryAddEdge g ed.src ed.tgt ed.weight with
    | (g', .ok _) => addEdges rest g'
    | (_, .error _) => none

/-- `let (nodes, edges) = g.into_nodes_edges();` then both loops on a fresh graph -/
def reAdd (s : State) : Option State :=
  (addNodes s.nodes (empty s.endv s.directed)).bind (addEdges s.edges)

theorem maskAt_nil (i : Nat) : maskAt [] i = true := by simp [maskAt]

theorem tryAddNode_room (g : State) (w : Nat) (h : g.nodes.length < g.endv) :
    tryAddNode g w = ({ g with nodes := g.nodes ++ [⟨w, g.endv, g.endv⟩] }, some g.nodes.length) := by
  unfold tryAddNode canGrow
  have : (g.endv != g.nodes.length) = true := by simp; omega
  simp [this]

theorem fmNodes_all : ∀ (ns : List Node) (i : Nat) (g : State) (m : List Nat),
    g.nodes.length + ns.length ≤ g.endv →
    ∃ g', addNodes ns g = some g' ∧
      fmNodes [] 0 ns i g m = (g', m ++ List.range' g.nodes.length ns.length) ∧
      g'.nodes.length = g.nodes.length + ns.length ∧ g'.edges = g.edges ∧ g'.endv = g.endv ∧ g'.directed = g.directed
  | [], i, g, m, _ => ⟨g, rfl, by simp [fmNodes], by simp, rfl, rfl, rfl⟩
  | nd :: rest, i, g, m, h => by
    have hlt : g.nodes.length < g.endv := by simp at h; omega
    let g1 : State := { g with nodes := g.nodes ++ [⟨nd.weight, g.endv, g.endv⟩] }
    have h1 : g1.nodes.length + rest.length ≤ g1.endv := by simp [g1] at h ⊢; omega
    obtain ⟨g', ha, hf, hl, he, hv, hd⟩ := fmNodes_all rest (i + 1) g1 (m ++ [g.nodes.length]) h1
    refine ⟨g', ?_, ?_, ?_, ?_, ?_, ?_⟩
    · simp only [addNodes, tryAddNode_room g nd.weight hlt]; exact ha
    · simp only [fmNodes, maskAt_nil, if_true, Nat.add_zero, tryAddNode_room g nd.weight hlt]
      rw [hf]
      simp [g1, List.range'_succ]
    · rw [hl]; simp [g1]; omega
    · rw [he]
    · rw [hv]
    · rw [hd]

theorem tryAddEdge_room (g : State) (a b w : Nat) (he : g.edges.length < g.endv)
    (ha : a < g.nodes.length) (hb : b < g.nodes.length) :
    ∃ g', tryAddEdge g a b w = (g', .ok g.edges.length) ∧ g'.nodes.length = g.nodes.length ∧
      g'.edges.length = g.edges.length + 1 ∧ g'.endv = g.endv := by
  unfold tryAddEdge canGrow
  have h1 : (g.endv != g.edges.length) = true := by simp; omega
  have h2 : ¬ (max a b ≥ g.nodes.length) := by omega
  simp only [h1, Bool.not_true, Bool.false_eq_true, if_false, h2]
  by_cases hab : a = b
  · subst hab
    simp only [if_true]
    rw [List.getElem?_eq_getElem ha]
    exact ⟨_, rfl, by simp, by simp, rfl⟩
  · simp only [hab, if_false]
    rw [List.getElem?_eq_getElem ha, List.getElem?_eq_getElem hb]
    exact ⟨_, rfl, by simp, by simp, rfl⟩

theorem fmEdges_all (n : Nat) : ∀ (es : List Edge) (i : Nat) (g : State),
    g.nodes.length = n → n ≤ g.endv → g.edges.length + es.length ≤ g.endv →
    (∀ ed ∈ es, ed.src < n ∧ ed.tgt < n) →
    ∃ g', addEdges es g = some g' ∧ fmEdges [] 0 (List.range n) es i g = .ok g'
  | [], _, g, _, _, _, _ => ⟨g, rfl, rfl⟩
  | ed :: rest, i, g, hn, hv, hl, hends => by
    obtain ⟨hs, ht⟩ := hends ed (by simp)
    have hlt : g.edges.length < g.endv := by simp at hl; omega
    obtain ⟨g1, h1, h1n, h1e, h1v⟩ := tryAddEdge_room g ed.src ed.tgt ed.weight hlt (by omega) (by omega)
    obtain ⟨g', ha, hf⟩ := fmEdges_all n rest (i + 1) g1 (by omega) (by omega) (by simp at hl; omega)
      (fun e he => hends e (by simp [he]))
    refine ⟨g', ?_, ?_⟩
    · simp only [addEdges, h1]; exact ha
    · have e1 : (List.range n)[ed.src]? = some ed.src := by simp [hs]
      have e2 : (List.range n)[ed.tgt]? = some ed.tgt := by simp [ht]
      have c1 : (ed.src != g.endv) = true := by simp; omega
      have c2 : (ed.tgt != g.endv) = true := by simp; omega
      simp only [fmEdges, e1, e2, c1, c2, Bool.and_self, if_true, maskAt_nil, Nat.add_zero, h1]
      exact hf

/-- **`into_nodes_edges` + re-insertion in index order is `rebuild`**: whenever both vectors fit the index type
and every endpoint is a node (part of `Inv`, which every reachable state has), the two loops succeed and give
exactly the state `rebuild` (`Graph::from(StableGraph::from(g))`, `filter_map` keeping everything) gives -/
theorem into_nodes_edges_readd (s : State) (hn : s.nodes.length ≤ s.endv) (he : s.edges.length ≤ s.endv)
    (hends : ∀ ed ∈ s.edges, ed.src < s.nodes.length ∧ ed.tgt < s.nodes.length) :
    ∃ g, reAdd s = some g ∧ rebuild s = .ok g := by
  obtain ⟨g1, ha, hf, hl, hed, hv, _⟩ := fmNodes_all s.nodes 0 (empty s.endv s.directed) [] (by simpa [empty] using hn)
  have hl' : g1.nodes.length = s.nodes.length := by simpa [empty] using hl
  have hv' : g1.endv = s.endv := by simpa [empty] using hv
  have hed' : g1.edges = [] := by simpa [empty] using hed
  obtain ⟨g, hb, hg⟩ := fmEdges_all s.nodes.length s.edges 0 g1 hl' (by omega) (by simp [hed']; omega) hends
  refine ⟨g, ?_, ?_⟩
  · simp [reAdd, ha, hb]
  · unfold rebuild filterMap
    rw [hf]
    simp only [empty, List.length_nil, List.nil_append]
    rw [← List.range_eq_range']
    exact hg

theorem into_nodes_edges_readd_inv (s : State) (h : GProofs.Inv s) : ∃ g, reAdd s = some g ∧ rebuild s = .ok g :=
  into_nodes_edges_readd s h.szN h.szE fun ed hm => by
    obtain ⟨e, he⟩ := List.getElem?_of_mem hm
    exact h.ends e ed he

/-! ## judges of the new protocol lines -/

theorem lawVerdict_ok (name impl : String) (h : C01Checks.lawVerdict name impl = none) : impl = "ok" := by
  unfold C01Checks.lawVerdict at h
  by_cases hi : (impl == "ok") = true
  · simpa using hi
  · simp [hi] at h

theorem formOk_cases (form : List String) (h : C01Checks.formOkB form = true) :
    form = [] ∨ ∃ f, form = [f] ∧ f ∈ ["f0", "f1", "f2", "f3", "f4", "f5"] := by
  unfold C01Checks.formOkB at h
  match form, h with
  | [], _ => exact Or.inl rfl
  | [f], h =>
    refine Or.inr ⟨f, rfl, ?_⟩
    simp only [Bool.or_eq_true, beq_iff_eq] at h
    simp only [List.mem_cons, List.not_mem_nil, or_false]
    simpa [or_assoc] using h

end PetgraphModel.C01W6
