import PetgraphModel.Proofs.C06W2Base
import PetgraphModel.Model.C06Views
import PetgraphModel.Proofs.C06ExtractedNorm
import PetgraphModel.Theorems.C02
/-
C06 wave 3 — `StableGraph`: the table computed from the C02 storage model (`stableTable`, Model/C06Views.lean)
is consistent in every state that satisfies the C02 representation invariant (`SGProofs.Inv`), hence after every
history of public calls (`C02_all_histories`).  Vacant node and edge slots below the bounds are allowed: the
identifiers are the live indices, `node_bound`/`edge_bound` are "last live index + 1", the type is not
compact-indexable and the adjacency bitmap has `node_bound` columns.
-/
namespace PetgraphModel.Visit.SGW3
open PetgraphModel PetgraphModel.SG PetgraphModel.SGProofs
open PetgraphModel.Visit.SGView
open PetgraphModel.Extracted

/-! ### the live-index enumerations -/

theorem mem_liveIdx {α : Type} : ∀ (l : List (Option α)) (o x : Nat),
    x ∈ liveIdx l o ↔ ∃ i, x = o + i ∧ ∃ v, l[i]? = some (some v)
  | [], o, x => by simp [liveIdx]
  | y :: t, o, x => by
    have ih := mem_liveIdx t (o + 1) x
    have step : (∃ i, x = o + 1 + i ∧ ∃ v, t[i]? = some (some v)) ↔
        ∃ i, 0 < i ∧ x = o + i ∧ ∃ v, (y :: t)[i]? = some (some v) := by
      constructor
      · rintro ⟨i, rfl, v, hv⟩
        exact ⟨i + 1, by omega, by omega, v, by simpa using hv⟩
      · rintro ⟨i, hi, rfl, v, hv⟩
        obtain ⟨j, rfl⟩ : ∃ j, i = j + 1 := ⟨i - 1, by omega⟩
        exact ⟨j, by omega, v, by simpa using hv⟩
    cases y with
    | none =>
      simp only [liveIdx, Option.isSome_none, Bool.false_eq_true, if_false]
      rw [ih, step]
      constructor
      · rintro ⟨i, _, h⟩; exact ⟨i, h⟩
      · rintro ⟨i, h1, v, hv⟩
        refine ⟨i, ?_, h1, v, hv⟩
        cases i with
        | zero => simp at hv
        | succ j => omega
    | some v0 =>
      simp only [liveIdx, Option.isSome_some, if_true, List.mem_cons]
      rw [ih, step]
      constructor
      · rintro (rfl | ⟨i, _, h⟩)
        · exact ⟨0, rfl, v0, rfl⟩
        · exact ⟨i, h⟩
      · rintro ⟨i, h1, v, hv⟩
        cases i with
        | zero => left; simpa using h1
        | succ j => right; exact ⟨j + 1, by omega, h1, v, hv⟩

theorem liveIdx_ge {α : Type} (l : List (Option α)) (o x : Nat) (h : x ∈ liveIdx l o) : o ≤ x := by
  obtain ⟨i, rfl, _⟩ := (mem_liveIdx l o x).1 h; omega

theorem liveIdx_nodup {α : Type} : ∀ (l : List (Option α)) (o : Nat), (liveIdx l o).Nodup
  | [], _ => by simp [liveIdx]
  | y :: t, o => by
    have ih := liveIdx_nodup t (o + 1)
    cases y with
    | none => simpa [liveIdx] using ih
    | some v =>
      simp only [liveIdx, Option.isSome_some, if_true, List.nodup_cons]
      exact ⟨fun h => by have := liveIdx_ge t (o + 1) o h; omega, ih⟩

theorem nodeRefsFrom_ids : ∀ (ns : List Node) (o : Nat), (nodeRefsFrom ns o).map (·.1) = liveIdx (ns.map (·.w)) o
  | [], _ => rfl
  | n :: t, o => by
    have ih := nodeRefsFrom_ids t (o + 1)
    cases hw : n.w with
    | none => simp [nodeRefsFrom, liveIdx, hw, ih]
    | some w => simp [nodeRefsFrom, liveIdx, hw, ih]

theorem edgeRefsFrom_ids : ∀ (es : List Edge) (o : Nat), (edgeRefsFrom es o).map (·.id) = liveIdx (es.map (·.w)) o
  | [], _ => rfl
  | e :: t, o => by
    have ih := edgeRefsFrom_ids t (o + 1)
    cases hw : e.w with
    | none => simp [edgeRefsFrom, liveIdx, hw, ih]
    | some w => simp [edgeRefsFrom, liveIdx, hw, ih]

theorem mem_edgeRefsFrom : ∀ (es : List Edge) (o : Nat) (r : SG.ERef),
    r ∈ edgeRefsFrom es o ↔ ∃ i x w, es[i]? = some x ∧ x.w = some w ∧ r = ⟨o + i, x.a, x.b, w⟩
  | [], o, r => by simp [edgeRefsFrom]
  | e :: t, o, r => by
    have ih := mem_edgeRefsFrom t (o + 1) r
    have step : (∃ i x w, t[i]? = some x ∧ x.w = some w ∧ r = ⟨o + 1 + i, x.a, x.b, w⟩) ↔
        ∃ i x w, 0 < i ∧ (e :: t)[i]? = some x ∧ x.w = some w ∧ r = ⟨o + i, x.a, x.b, w⟩ := by
      constructor
      · rintro ⟨i, x, w, h1, h2, rfl⟩
        exact ⟨i + 1, x, w, by omega, by simpa using h1, h2, by congr 1; omega⟩
      · rintro ⟨i, x, w, hi, h1, h2, rfl⟩
        obtain ⟨j, rfl⟩ : ∃ j, i = j + 1 := ⟨i - 1, by omega⟩
        exact ⟨j, x, w, by simpa using h1, h2, by congr 1; omega⟩
    cases hw : e.w with
    | none =>
      simp only [edgeRefsFrom, hw]
      rw [ih, step]
      constructor
      · rintro ⟨i, x, w, _, h⟩; exact ⟨i, x, w, h⟩
      · rintro ⟨i, x, w, h1, h2, h3⟩
        refine ⟨i, x, w, ?_, h1, h2, h3⟩
        cases i with
        | zero => simp at h1; subst h1; rw [hw] at h2; cases h2
        | succ j => omega
    | some w0 =>
      simp only [edgeRefsFrom, hw, List.mem_cons]
      rw [ih, step]
      constructor
      · rintro (rfl | ⟨i, x, w, _, h⟩)
        · exact ⟨0, e, w0, rfl, hw, rfl⟩
        · exact ⟨i, x, w, h⟩
      · rintro ⟨i, x, w, h1, h2, h3⟩
        cases i with
        | zero =>
          left
          simp at h1; subst h1; rw [hw] at h2; cases h2; exact h3
        | succ j => right; exact ⟨j + 1, x, w, by omega, h1, h2, h3⟩

/-- a live index is below "last live index + 1" -/
theorem lt_boundOf {α : Type} (l : List (Option α)) (i : Nat) (v : α) (h : l[i]? = some (some v)) : i < boundOf l := by
  by_cases hlt : i < boundOf l
  · exact hlt
  · have := boundOf_above l i (by omega)
    rw [h] at this; simp at this

/-! ### the references of the table -/

/-- the reference of the live slot `x` at index `i`, in the harness's code -/
def sE (i : Nat) (x : Edge) (w : Int) : Visit.ERef := ⟨i, x.a, x.b, w⟩

/-- `edge_references` of the table -/
def sERefs (s : State) : List Visit.ERef := (edgeReferences s).map eref

theorem mem_sERefs (s : State) (e : Visit.ERef) :
    e ∈ sERefs s ↔ ∃ i x w, s.edges[i]? = some x ∧ x.w = some w ∧ e = sE i x w := by
  unfold sERefs edgeReferences
  simp only [List.mem_map, mem_edgeRefsFrom]
  constructor
  · rintro ⟨_, ⟨i, x, w, h1, h2, rfl⟩, rfl⟩
    exact ⟨i, x, w, h1, h2, by simp [eref, sE]⟩
  · rintro ⟨i, x, w, h1, h2, rfl⟩
    exact ⟨_, ⟨i, x, w, h1, h2, rfl⟩, by simp [eref, sE]⟩

theorem sERefs_ids (s : State) : (sERefs s).map (·.id) = edgeIndices s := by
  unfold sERefs edgeReferences edgeIndices
  rw [← edgeRefsFrom_ids, List.map_map]
  rfl

theorem sERefs_ids_nodup (s : State) : ((sERefs s).map (·.id)).Nodup := by
  rw [sERefs_ids]; exact liveIdx_nodup _ _

theorem mem_nodeIndices (s : State) (a : Nat) : a ∈ nodeIndices s ↔ (nodeWeight s a).isSome := by
  unfold nodeIndices nodeWeight
  rw [mem_liveIdx]
  simp only [Nat.zero_add, List.getElem?_map]
  constructor
  · rintro ⟨i, rfl, v, hv⟩
    cases hn : s.nodes[a]? with
    | none => rw [hn] at hv; simp at hv
    | some n => rw [hn] at hv; simp at hv; simp [hv]
  · intro h
    cases hn : s.nodes[a]? with
    | none => rw [hn] at h; simp at h
    | some n =>
      rw [hn] at h
      simp only at h
      obtain ⟨v, hv⟩ := Option.isSome_iff_exists.1 h
      exact ⟨a, rfl, v, by rw [hn]; simp [hv]⟩

theorem mem_edgeIndices (s : State) (e : Nat) : e ∈ edgeIndices s ↔ ∃ x w, s.edges[e]? = some x ∧ x.w = some w := by
  unfold edgeIndices
  rw [mem_liveIdx]
  simp only [Nat.zero_add, List.getElem?_map]
  constructor
  · rintro ⟨i, rfl, v, hv⟩
    cases hn : s.edges[e]? with
    | none => rw [hn] at hv; simp at hv
    | some x => rw [hn] at hv; simp at hv; exact ⟨x, v, rfl, hv⟩
  · rintro ⟨x, w, hx, hw⟩
    exact ⟨e, rfl, w, by simp [hx, hw]⟩

theorem nodeIndices_lt_bound (s : State) (a : Nat) (h : a ∈ nodeIndices s) : a < nodeBound s := by
  unfold nodeIndices at h
  obtain ⟨i, hi, v, hv⟩ := (mem_liveIdx _ _ _).1 h
  simp only [Nat.zero_add] at hi; subst hi
  exact lt_boundOf _ _ v hv

theorem edgeIndices_lt_bound (s : State) (e : Nat) (h : e ∈ edgeIndices s) : e < edgeBound s := by
  unfold edgeIndices at h
  obtain ⟨i, hi, v, hv⟩ := (mem_liveIdx _ _ _).1 h
  simp only [Nat.zero_add] at hi; subst hi
  exact lt_boundOf _ _ v hv

theorem nodeIndices_lt_len (s : State) (a : Nat) (h : a ∈ nodeIndices s) : a < s.nodes.length := by
  have := (mem_nodeIndices s a).1 h
  unfold nodeWeight at this
  cases hn : s.nodes[a]? with
  | none => rw [hn] at this; simp at this
  | some n => exact (List.getElem?_eq_some_iff.1 hn).1

theorem mkIx_eq (s : State) {x : Nat} (h : x ≤ s.fin) : mkIx s x = x := by
  unfold mkIx; split
  · rfl
  · exact Nat.mod_eq_of_lt (by omega)

/-- endpoints of a live edge are live nodes -/
theorem live_ends {s : State} (hinv : Inv s) {i : Nat} {x : Edge} {w : Int} (hx : s.edges[i]? = some x)
    (hw : x.w = some w) : x.a ∈ nodeIndices s ∧ x.b ∈ nodeIndices s := by
  have h := hinv.endp i x hx (by simp [hw])
  obtain ⟨n0, hn0, ha0⟩ := h 0 (by omega)
  obtain ⟨n1, hn1, ha1⟩ := h 1 (by omega)
  simp only [Edge.node, if_true] at hn0 ha0
  simp only [Edge.node, Nat.one_ne_zero, if_false] at hn1 ha1
  constructor
  · rw [mem_nodeIndices]; unfold nodeWeight; rw [hn0]
    rcases ha0 with h | h
    · exact h
    · cases h
  · rw [mem_nodeIndices]; unfold nodeWeight; rw [hn1]
    rcases ha1 with h | h
    · exact h
    · cases h

/-! ### node clauses -/

theorem st_ids (s : State) (hinv : Inv s) : idsOk (nodeIndices s) (stableTable s) := by
  simp only [idsOk, stableTable, whenSome_some]
  exact ⟨liveIdx_nodup _ _, fun a ha => ha, (C02T.C02_counts_bounds_iterators s hinv).2.2.2.2.2.2.2.2.1⟩

theorem st_refs (s : State) : refsOk (stableTable s) := by
  simp only [refsOk, stableTable, whenSome_some]
  unfold nodeReferences nodeIndices
  rw [nodeRefsFrom_ids]

theorem st_index (s : State) (hinv : Inv s) : indexOk (stableTable s) := by
  simp only [indexOk, stableTable, whenSome_some]
  refine ⟨?_, ?_, ?_⟩
  · intro a ha
    rw [lookup_map_self (fun q => toIndex s q) _ a ha]
    exact nodeIndices_lt_bound s a ha
  · have : (nodeIndices s).map (fun a => ((nodeIndices s).map fun q => (q, toIndex s q)).lookup a) =
        (nodeIndices s).map (fun a => some a) :=
      List.map_congr_left fun a ha => lookup_map_self (fun q => toIndex s q) _ a ha
    rw [this]
    exact nodup_map_of_inj_on _ _ (liveIdx_nodup _ _) fun a _ b _ e => by simpa using e
  · intro a ha
    rw [lookup_map_self (fun q => fromIndex s (toIndex s q)) _ a ha]
    have h1 := nodeIndices_lt_len s a ha
    have h2 := hinv.lenN
    simp only [fromIndex, toIndex]
    rw [mkIx_eq s (by omega)]

theorem st_compact (s : State) : compactOk (stableTable s) := by
  intro h; simp [stableTable] at h

/-! ### edge clauses -/

theorem st_erefs (s : State) (hinv : Inv s) : erefsOk (stableTable s) := by
  simp only [erefsOk, stableTable, whenSome_some]
  refine ⟨sERefs_ids_nodup s, ?_, ?_⟩
  · have h := (C02T.C02_counts_bounds_iterators s hinv).2.2.2.2.2.2.2.2.2
    have := congrArg List.length (sERefs_ids s)
    simp only [List.length_map] at this
    change (sERefs s).length = s.edgeCount
    rw [this, h]
  · intro e he
    obtain ⟨i, x, w, hx, hw, rfl⟩ := (mem_sERefs s e).1 he
    exact live_ends hinv hx hw

theorem st_eix (s : State) (hinv : Inv s) : eixOk (stableTable s) := by
  simp only [eixOk, stableTable, whenSome_some]
  intro e he
  obtain ⟨i, x, w, hx, hw, rfl⟩ := (mem_sERefs s e).1 he
  have hi : i ∈ edgeIndices s := (mem_edgeIndices s i).2 ⟨x, w, hx, hw⟩
  have hl := lookup_map_self (fun q => (q, fromIndex s q)) (edgeIndices s) i hi
  simp only [sE]
  rw [hl]
  have hlt := (List.getElem?_eq_some_iff.1 hx).1
  have := hinv.lenE
  exact ⟨edgeIndices_lt_bound s i hi, mkIx_eq s (by omega)⟩

/-! ### per-node iterators -/

/-- what `edges_directed(a, dir)` yields in terms of the two adjacency lists of the invariant -/
def sRow (s : State) (a : Nat) (l0 l1 : List Nat) (dirIn : Bool) : List SG.ERef :=
  if s.directed then
    (if dirIn then l1.filterMap (erIn s.edges true true a) else l0.filterMap (erOut s.edges true false))
  else l0.filterMap (erOut s.edges false dirIn) ++ l1.filterMap (erIn s.edges false dirIn a)

theorem edgesDir_eq {s : State} (hinv : Inv s) {a : Nat} {l0 l1 : List Nat} (h : AdjLists s a l0 l1) (dirIn : Bool) :
    edgesDir s a dirIn = (sRow s a l0 l1 dirIn).map eref := by
  simp only [edgesDir, edgesDirected_spec hinv h dirIn, okOr, sRow]

theorem erOut_id {es : List Edge} {d k : Bool} {e : Nat} {r : SG.ERef} (h : erOut es d k e = some r) : r.id = e := by
  unfold erOut at h
  cases hx : es[e]? with
  | none => rw [hx] at h; simp at h
  | some x =>
    rw [hx] at h
    simp only [Option.bind_some] at h
    cases hw : x.w with
    | none => rw [hw] at h; simp at h
    | some w =>
      rw [hw] at h; simp only [Option.map_some, Option.some.injEq] at h
      subst h; split <;> rfl

theorem erIn_id {es : List Edge} {d k : Bool} {a e : Nat} {r : SG.ERef} (h : erIn es d k a e = some r) : r.id = e := by
  unfold erIn at h
  cases hx : es[e]? with
  | none => rw [hx] at h; simp at h
  | some x =>
    rw [hx] at h
    simp only [Option.bind_some] at h
    split at h
    · cases h
    · cases hw : x.w with
      | none => rw [hw] at h; simp at h
      | some w =>
        rw [hw] at h; simp only [Option.map_some, Option.some.injEq] at h
        subst h; split <;> rfl

/-- a `filterMap` whose items carry the list element as id lists each id at most once -/
theorem filterMap_ids_sublist (f : Nat → Option SG.ERef) (hf : ∀ e r, f e = some r → r.id = e) :
    ∀ l : List Nat, ((l.filterMap f).map (·.id)).Sublist l
  | [] => by simp
  | e :: t => by
    have ih := filterMap_ids_sublist f hf t
    cases he : f e with
    | none => simp only [List.filterMap_cons, he]; exact ih.cons _
    | some r =>
      simp only [List.filterMap_cons, he, List.map_cons]
      rw [hf e r he]
      exact ih.cons_cons _

theorem mem_filterMap_ids (f : Nat → Option SG.ERef) (hf : ∀ e r, f e = some r → r.id = e) (l : List Nat) (i : Nat)
    (h : i ∈ (l.filterMap f).map (·.id)) : i ∈ l ∧ ∃ r, f i = some r := by
  obtain ⟨r, hr, rfl⟩ := List.mem_map.1 h
  obtain ⟨e, he, hfe⟩ := List.mem_filterMap.1 hr
  have := hf e r hfe
  subst this
  exact ⟨he, r, hfe⟩

theorem sRow_ids_nodup {s : State} {a : Nat} {l0 l1 : List Nat} (h : AdjLists s a l0 l1) (dirIn : Bool) :
    (((sRow s a l0 l1 dirIn).map eref).map (·.id)).Nodup := by
  have e1 : ∀ l : List SG.ERef, (l.map eref).map (·.id) = l.map (·.id) := fun l => by
    simp [List.map_map, Function.comp_def, eref]
  rw [e1]
  unfold sRow
  split
  · split
    · exact List.Nodup.sublist (filterMap_ids_sublist _ (fun _ _ => erIn_id) l1) h.c1.nodup
    · exact List.Nodup.sublist (filterMap_ids_sublist _ (fun _ _ => erOut_id) l0) h.c0.nodup
  · rw [List.map_append, List.nodup_append]
    refine ⟨List.Nodup.sublist (filterMap_ids_sublist _ (fun _ _ => erOut_id) l0) h.c0.nodup,
      List.Nodup.sublist (filterMap_ids_sublist _ (fun _ _ => erIn_id) l1) h.c1.nodup, ?_⟩
    intro i hi j hj hij
    subst hij
    obtain ⟨hi0, _⟩ := mem_filterMap_ids _ (fun _ _ => erOut_id) l0 i hi
    obtain ⟨_, r, hr⟩ := mem_filterMap_ids _ (fun _ _ => erIn_id) l1 i hj
    obtain ⟨_, x, hx, _, hxa⟩ := (h.m0 i).1 hi0
    unfold erIn at hr
    rw [hx] at hr
    simp [hxa] at hr

theorem sRow_nodup {s : State} {a : Nat} {l0 l1 : List Nat} (h : AdjLists s a l0 l1) (dirIn : Bool) :
    ((sRow s a l0 l1 dirIn).map eref).Nodup :=
  nodup_of_nodup_map _ _ (sRow_ids_nodup h dirIn)

/-- members of the out-list part of a row -/
theorem mem_part_out {s : State} {a : Nat} {l0 l1 : List Nat} (h : AdjLists s a l0 l1) (ha : a ∈ nodeIndices s)
    (d k : Bool) (e : Visit.ERef) : e ∈ (l0.filterMap (erOut s.edges d k)).map eref ↔
      ∃ i x w, s.edges[i]? = some x ∧ x.w = some w ∧ x.a = a ∧
        e = if !d && k then (sE i x w).swap else sE i x w := by
  have hlive := (mem_nodeIndices s a).1 ha
  simp only [List.mem_map, List.mem_filterMap]
  constructor
  · rintro ⟨r, ⟨i, hi, hr⟩, rfl⟩
    obtain ⟨_, x, hx, hl, hxa⟩ := (h.m0 i).1 hi
    obtain ⟨w, hw⟩ := Option.isSome_iff_exists.1 hl
    refine ⟨i, x, w, hx, hw, hxa, ?_⟩
    unfold erOut at hr
    rw [hx] at hr
    simp only [Option.bind_some, hw, Option.map_some, Option.some.injEq] at hr
    subst hr
    split <;> simp [eref, sE, ERef.swap]
  · rintro ⟨i, x, w, hx, hw, hxa, rfl⟩
    refine ⟨if !d && k then ⟨i, x.b, x.a, w⟩ else ⟨i, x.a, x.b, w⟩,
      ⟨i, (h.m0 i).2 ⟨hlive, x, hx, by simp [hw], hxa⟩, ?_⟩, ?_⟩
    · unfold erOut; rw [hx]; simp [hw]
    · split <;> simp [eref, sE, ERef.swap]

/-- members of the in-list part of a row of the directed kind -/
theorem mem_part_in_dir {s : State} {a : Nat} {l0 l1 : List Nat} (h : AdjLists s a l0 l1) (ha : a ∈ nodeIndices s)
    (e : Visit.ERef) : e ∈ (l1.filterMap (erIn s.edges true true a)).map eref ↔
      ∃ i x w, s.edges[i]? = some x ∧ x.w = some w ∧ x.b = a ∧ e = sE i x w := by
  have hlive := (mem_nodeIndices s a).1 ha
  simp only [List.mem_map, List.mem_filterMap]
  constructor
  · rintro ⟨r, ⟨i, hi, hr⟩, rfl⟩
    obtain ⟨_, x, hx, hl, hxb⟩ := (h.m1 i).1 hi
    obtain ⟨w, hw⟩ := Option.isSome_iff_exists.1 hl
    refine ⟨i, x, w, hx, hw, hxb, ?_⟩
    unfold erIn at hr
    rw [hx] at hr
    simp [hw] at hr
    subst hr
    simp [eref, sE]
  · rintro ⟨i, x, w, hx, hw, hxb, rfl⟩
    refine ⟨⟨i, x.a, x.b, w⟩, ⟨i, (h.m1 i).2 ⟨hlive, x, hx, by simp [hw], hxb⟩, ?_⟩, ?_⟩
    · unfold erIn; rw [hx]; simp [hw]
    · simp [eref, sE]

/-- members of the in-list part of a row of the undirected kind: self-loops are skipped -/
theorem mem_part_in_und {s : State} {a : Nat} {l0 l1 : List Nat} (h : AdjLists s a l0 l1) (ha : a ∈ nodeIndices s)
    (k : Bool) (e : Visit.ERef) : e ∈ (l1.filterMap (erIn s.edges false k a)).map eref ↔
      ∃ i x w, s.edges[i]? = some x ∧ x.w = some w ∧ x.b = a ∧ x.a ≠ a ∧
        e = if !k then (sE i x w).swap else sE i x w := by
  have hlive := (mem_nodeIndices s a).1 ha
  simp only [List.mem_map, List.mem_filterMap]
  constructor
  · rintro ⟨r, ⟨i, hi, hr⟩, rfl⟩
    obtain ⟨_, x, hx, hl, hxb⟩ := (h.m1 i).1 hi
    obtain ⟨w, hw⟩ := Option.isSome_iff_exists.1 hl
    unfold erIn at hr
    rw [hx] at hr
    simp only [Option.bind_some, Bool.not_false, Bool.true_and, hw, Option.map_some] at hr
    split at hr
    · cases hr
    · rename_i hne
      simp only [Option.some.injEq] at hr
      subst hr
      refine ⟨i, x, w, hx, hw, hxb, by simpa using hne, ?_⟩
      cases k <;> simp [eref, sE, ERef.swap]
  · rintro ⟨i, x, w, hx, hw, hxb, hne, rfl⟩
    refine ⟨if !k then ⟨i, x.b, x.a, w⟩ else ⟨i, x.a, x.b, w⟩,
      ⟨i, (h.m1 i).2 ⟨hlive, x, hx, by simp [hw], hxb⟩, ?_⟩, ?_⟩
    · unfold erIn; rw [hx]
      simp [hw, hne]
    · cases k <;> simp [eref, sE, ERef.swap]

theorem sE_swap_loop {i : Nat} {x : Edge} {w : Int} (h : x.a = x.b) : (sE i x w).swap = sE i x w := by
  simp [sE, ERef.swap, h]

/-- `edges_directed(a, Outgoing)` is, as a multiset, what the specification prescribes from `edge_references` -/
theorem st_out_perm (s : State) (hinv : Inv s) (a : Nat) (ha : a ∈ nodeIndices s) :
    (edgesDir s a false).Perm (expOut s.directed (sERefs s) a) := by
  obtain ⟨l0, l1, h⟩ := adjLists_exist hinv a
  rw [edgesDir_eq hinv h]
  apply perm_of_nodup_mem (sRow_nodup h false) (expOut_nodup (sERefs_ids_nodup s) a)
  intro e
  cases hd : s.directed with
  | true =>
    simp only [sRow, hd, if_true, Bool.false_eq_true, if_false]
    rw [mem_part_out h ha]
    simp only [expOut, if_true, List.mem_filter, mem_sERefs, beq_iff_eq, Bool.not_true, Bool.false_and,
      Bool.false_eq_true, if_false]
    constructor
    · rintro ⟨i, x, w, h1, h2, h3, rfl⟩
      exact ⟨⟨i, x, w, h1, h2, rfl⟩, by simpa [sE] using h3⟩
    · rintro ⟨⟨i, x, w, h1, h2, rfl⟩, h3⟩
      exact ⟨i, x, w, h1, h2, by simpa [sE] using h3, rfl⟩
  | false =>
    simp only [sRow, hd, Bool.false_eq_true, if_false, List.map_append, List.mem_append]
    rw [mem_part_out h ha, mem_part_in_und h ha]
    simp only [expOut, Bool.false_eq_true, if_false, List.mem_map, List.mem_filter, mem_sERefs, Bool.not_false,
      Bool.true_and, if_true]
    constructor
    · rintro (⟨i, x, w, h1, h2, h3, rfl⟩ | ⟨i, x, w, h1, h2, h3, h4, rfl⟩)
      · exact ⟨sE i x w, ⟨⟨i, x, w, h1, h2, rfl⟩, by simp [incident, sE, h3]⟩, by simp [orientOut, sE, h3]⟩
      · exact ⟨sE i x w, ⟨⟨i, x, w, h1, h2, rfl⟩, by simp [incident, sE, h3]⟩, by simp [orientOut, sE, h4]⟩
    · rintro ⟨_, ⟨⟨i, x, w, h1, h2, rfl⟩, hinc⟩, rfl⟩
      by_cases hs : x.a = a
      · left; exact ⟨i, x, w, h1, h2, hs, by simp [orientOut, sE, hs]⟩
      · right
        have ht : x.b = a := by simpa [incident, sE, hs] using hinc
        exact ⟨i, x, w, h1, h2, ht, hs, by simp [orientOut, sE, hs]⟩

/-- `edges_directed(a, Incoming)` -/
theorem st_in_perm (s : State) (hinv : Inv s) (a : Nat) (ha : a ∈ nodeIndices s) :
    (edgesDir s a true).Perm (expIn s.directed (sERefs s) a) := by
  obtain ⟨l0, l1, h⟩ := adjLists_exist hinv a
  rw [edgesDir_eq hinv h]
  apply perm_of_nodup_mem (sRow_nodup h true) (expIn_nodup (sERefs_ids_nodup s) a)
  intro e
  cases hd : s.directed with
  | true =>
    simp only [sRow, hd, if_true]
    rw [mem_part_in_dir h ha]
    simp only [expIn, if_true, List.mem_filter, mem_sERefs, beq_iff_eq]
    constructor
    · rintro ⟨i, x, w, h1, h2, h3, rfl⟩
      exact ⟨⟨i, x, w, h1, h2, rfl⟩, by simpa [sE] using h3⟩
    · rintro ⟨⟨i, x, w, h1, h2, rfl⟩, h3⟩
      exact ⟨i, x, w, h1, h2, by simpa [sE] using h3, rfl⟩
  | false =>
    simp only [sRow, hd, Bool.false_eq_true, if_false, List.map_append, List.mem_append]
    rw [mem_part_out h ha, mem_part_in_und h ha]
    simp only [expIn, Bool.false_eq_true, if_false, List.mem_map, List.mem_filter, mem_sERefs, Bool.not_false,
      Bool.true_and, if_true, Bool.not_true]
    constructor
    · rintro (⟨i, x, w, h1, h2, h3, rfl⟩ | ⟨i, x, w, h1, h2, h3, h4, rfl⟩)
      · refine ⟨sE i x w, ⟨⟨i, x, w, h1, h2, rfl⟩, by simp [incident, sE, h3]⟩, ?_⟩
        by_cases ht : x.b = a
        · rw [sE_swap_loop (by rw [h3, ht])]; simp [orientIn, sE, ht]
        · simp [orientIn, sE, ht]
      · exact ⟨sE i x w, ⟨⟨i, x, w, h1, h2, rfl⟩, by simp [incident, sE, h3]⟩, by simp [orientIn, sE, h3]⟩
    · rintro ⟨_, ⟨⟨i, x, w, h1, h2, rfl⟩, hinc⟩, rfl⟩
      by_cases hs : x.a = a
      · left
        refine ⟨i, x, w, h1, h2, hs, ?_⟩
        by_cases ht : x.b = a
        · rw [sE_swap_loop (by rw [hs, ht])]; simp [orientIn, sE, ht]
        · simp [orientIn, sE, ht]
      · right
        have ht : x.b = a := by simpa [incident, sE, hs] using hinc
        exact ⟨i, x, w, h1, h2, ht, hs, by simp [orientIn, sE, ht]⟩

theorem st_edgesOut (s : State) (hinv : Inv s) : edgesOutOk (nodeIndices s) (stableTable s) := by
  simp only [edgesOutOk, stableTable, whenSome_some]
  exact rowsMatch_rowsOver fun a ha => st_out_perm s hinv a ha

theorem st_edges (s : State) (hinv : Inv s) : edgesOk (nodeIndices s) (stableTable s) := by
  simp only [edgesOk, stableTable, whenSome_some]
  exact rowsMatch_rowsOver fun a ha => st_out_perm s hinv a ha

theorem st_edgesIn (s : State) (hinv : Inv s) : edgesInOk (nodeIndices s) (stableTable s) := by
  simp only [edgesInOk, stableTable, whenSome_some]
  exact rowsMatch_rowsOver fun a ha => st_in_perm s hinv a ha

/-! ### neighbours are the far ends of the listed edges -/

theorem filterMap_map_live {β γ : Type} (f : Nat → Option β) (g : β → γ) (h : Nat → Option γ) (l : List Nat)
    (hl : ∀ e ∈ l, (f e).map g = h e) : (l.filterMap f).map g = l.filterMap h := by
  rw [List.map_filterMap]
  induction l with
  | nil => rfl
  | cons e t ih =>
    have h1 := hl e (by simp)
    have h2 := ih (fun e he => hl e (List.mem_cons_of_mem _ he))
    simp only [List.filterMap_cons, h1, h2]

theorem nbrs_out_eq {s : State} (hinv : Inv s) {a : Nat} {l0 l1 : List Nat} (h : AdjLists s a l0 l1) :
    nbrsDir s a 0 = (edgesDir s a false).map (·.tgt) := by
  rw [edgesDir_eq hinv h]
  simp only [nbrsDir, (neighborsDirected_spec hinv h).1, okOr, sRow]
  have p0 : ∀ d, ((l0.filterMap (erOut s.edges d false)).map eref).map (·.tgt) = l0.filterMap (nbOut s.edges) := by
    intro d
    rw [List.map_map]
    apply filterMap_map_live
    intro e he
    obtain ⟨x, hx, hl⟩ := h.live0 e he
    obtain ⟨w, hw⟩ := Option.isSome_iff_exists.1 hl
    simp [erOut, nbOut, hx, hw, eref]
  have p1 : ((l1.filterMap (erIn s.edges false false a)).map eref).map (·.tgt) = l1.filterMap (nbIn s.edges a) := by
    rw [List.map_map]
    apply filterMap_map_live
    intro e he
    obtain ⟨x, hx, hl⟩ := h.live1 e he
    obtain ⟨w, hw⟩ := Option.isSome_iff_exists.1 hl
    by_cases hxa : x.a = a
    · simp [erIn, nbIn, hx, hxa]
    · simp [erIn, nbIn, hx, hw, hxa, eref]
  cases hd : s.directed
  · simp only [Bool.false_eq_true, if_false, List.map_append, p0, p1]
  · simp only [if_true, Bool.false_eq_true, if_false, p0]

theorem nbrs_in_eq {s : State} (hinv : Inv s) {a : Nat} {l0 l1 : List Nat} (h : AdjLists s a l0 l1) :
    nbrsDir s a 1 = (edgesDir s a true).map (·.src) := by
  rw [edgesDir_eq hinv h]
  simp only [nbrsDir, (neighborsDirected_spec hinv h).2, okOr, sRow]
  have p0 : ((l0.filterMap (erOut s.edges false true)).map eref).map (·.src) = l0.filterMap (nbOut s.edges) := by
    rw [List.map_map]
    apply filterMap_map_live
    intro e he
    obtain ⟨x, hx, hl⟩ := h.live0 e he
    obtain ⟨w, hw⟩ := Option.isSome_iff_exists.1 hl
    simp [erOut, nbOut, hx, hw, eref]
  have p1 : ((l1.filterMap (erIn s.edges false true a)).map eref).map (·.src) = l1.filterMap (nbIn s.edges a) := by
    rw [List.map_map]
    apply filterMap_map_live
    intro e he
    obtain ⟨x, hx, hl⟩ := h.live1 e he
    obtain ⟨w, hw⟩ := Option.isSome_iff_exists.1 hl
    by_cases hxa : x.a = a
    · simp [erIn, nbIn, hx, hxa]
    · simp [erIn, nbIn, hx, hw, hxa, eref]
  have p2 : ((l1.filterMap (erIn s.edges true true a)).map eref).map (·.src) = l1.filterMap (nbIn s.edges s.fin) := by
    rw [List.map_map]
    apply filterMap_map_live
    intro e he
    obtain ⟨x, hx, hl⟩ := h.live1 e he
    obtain ⟨w, hw⟩ := Option.isSome_iff_exists.1 hl
    have hne : x.a ≠ s.fin := by
      have := nodeIndices_lt_len s x.a (live_ends hinv hx hw).1
      have := hinv.lenN
      omega
    simp [erIn, nbIn, hx, hw, hne, eref]
  cases hd : s.directed
  · simp only [Bool.false_eq_true, if_false, List.map_append, p0, p1]
  · simp only [if_true, p2]

theorem st_nbrs_out_perm (s : State) (hinv : Inv s) (a : Nat) (ha : a ∈ nodeIndices s) :
    (nbrsDir s a 0).Perm ((expOut s.directed (sERefs s) a).map (·.tgt)) := by
  obtain ⟨l0, l1, h⟩ := adjLists_exist hinv a
  rw [nbrs_out_eq hinv h]
  exact (st_out_perm s hinv a ha).map _

theorem st_nbrs_in_perm (s : State) (hinv : Inv s) (a : Nat) (ha : a ∈ nodeIndices s) :
    (nbrsDir s a 1).Perm ((expIn s.directed (sERefs s) a).map (·.src)) := by
  obtain ⟨l0, l1, h⟩ := adjLists_exist hinv a
  rw [nbrs_in_eq hinv h]
  exact (st_in_perm s hinv a ha).map _

theorem st_nbrsOut (s : State) (hinv : Inv s) : nbrsOutOk (nodeIndices s) (stableTable s) := by
  simp only [nbrsOutOk, stableTable, whenSome_some]
  exact rowsMatch_rowsOver fun a ha => st_nbrs_out_perm s hinv a ha

theorem st_nbrs (s : State) (hinv : Inv s) : nbrsOk (nodeIndices s) (stableTable s) := by
  simp only [nbrsOk, stableTable, whenSome_some]
  exact rowsMatch_rowsOver fun a ha => st_nbrs_out_perm s hinv a ha

theorem st_nbrsIn (s : State) (hinv : Inv s) : nbrsInOk (nodeIndices s) (stableTable s) := by
  simp only [nbrsInOk, stableTable, whenSome_some]
  exact rowsMatch_rowsOver fun a ha => st_nbrs_in_perm s hinv a ha

/-! ### adjacency matrix (width `node_bound`) -/

theorem mem_sgAdjMatrix (s : State) (p : Nat) :
    p ∈ adjMatrix s ↔ ∃ (i : Nat) (x : Edge) (w : Int), s.edges[i]? = some x ∧ x.w = some w ∧
      (p = x.a * nodeBound s + x.b ∨ (s.directed = false ∧ p = x.a + nodeBound s * x.b)) := by
  unfold adjMatrix edgeReferences
  simp only [List.mem_flatMap, mem_edgeRefsFrom, AdjWidth.bitBuild_StableGraph_eq, AdjWidth.bitBuildSym_StableGraph_eq]
  constructor
  · rintro ⟨_, ⟨i, x, w, hx, hw, rfl⟩, hp⟩
    refine ⟨i, x, w, hx, hw, ?_⟩
    cases hd : s.directed <;> simp [hd] at hp ⊢ <;> exact hp
  · rintro ⟨i, x, w, hx, hw, hp⟩
    refine ⟨_, ⟨i, x, w, hx, hw, rfl⟩, ?_⟩
    cases hd : s.directed <;> simp [hd] at hp ⊢ <;> exact hp

/-- no `put` of `adjacency_matrix` is out of the bit set's range (no panic): every endpoint of a live edge is a
live node, hence below `node_bound` -/
theorem sgAdjMatrix_in_range (s : State) (hinv : Inv s) : ∀ p ∈ adjMatrix s, p < nodeBound s * nodeBound s := by
  intro p hp
  obtain ⟨i, x, w, hx, hw, hp⟩ := (mem_sgAdjMatrix s p).1 hp
  obtain ⟨h1, h2⟩ := live_ends hinv hx hw
  have h1 := nodeIndices_lt_bound s _ h1
  have h2 := nodeIndices_lt_bound s _ h2
  have k1 : (x.a + 1) * nodeBound s ≤ nodeBound s * nodeBound s := Nat.mul_le_mul_right _ h1
  have k2 : nodeBound s * (x.b + 1) ≤ nodeBound s * nodeBound s := Nat.mul_le_mul_left _ h2
  rw [Nat.add_mul] at k1
  rw [Nat.mul_add] at k2
  rcases hp with rfl | ⟨_, rfl⟩ <;> omega

theorem pos_inj' {n a b c d : Nat} (hb : b < n) (hd : d < n) (h : n * a + b = n * c + d) : a = c ∧ b = d := by
  have hn : 0 < n := by omega
  have h1 := congrArg (· % n) h
  simp only [Nat.mul_add_mod, Nat.mod_eq_of_lt hb, Nat.mod_eq_of_lt hd] at h1
  have h2 := congrArg (· / n) h
  simp only [Nat.mul_add_div hn, Nat.div_eq_of_lt hb, Nat.div_eq_of_lt hd, Nat.add_zero] at h2
  exact ⟨h2, h1⟩

theorem st_adj (s : State) (hinv : Inv s) : adjOk (nodeIndices s) (stableTable s) := by
  simp only [adjOk, stableTable, whenSome_some]
  refine ⟨rowsOver_keys _ _, fun a ha b hb => ?_⟩
  rw [rowOf_rowsOver _ _ a ha]
  have hbn := nodeIndices_lt_bound s b hb
  have han := nodeIndices_lt_bound s a ha
  have hrange : nodeBound s * a + b < nodeBound s * nodeBound s := by
    have k : nodeBound s * (a + 1) ≤ nodeBound s * nodeBound s := Nat.mul_le_mul_left _ han
    rw [Nat.mul_add] at k
    omega
  simp only [List.mem_filter, hb, true_and, expAdj, List.any_eq_true, isAdjacent, List.contains_iff_mem,
    mem_sgAdjMatrix, AdjWidth.bitRead_StableGraph_eq, Bool.and_eq_true, decide_eq_true_eq, hrange]
  change _ ↔ ∃ e, e ∈ sERefs s ∧ _
  constructor
  · rintro ⟨i, x, w, hx, hw, hp⟩
    obtain ⟨h1, h2⟩ := live_ends hinv hx hw
    have h1 := nodeIndices_lt_bound s _ h1
    have h2 := nodeIndices_lt_bound s _ h2
    refine ⟨sE i x w, (mem_sERefs s _).2 ⟨i, x, w, hx, hw, rfl⟩, ?_⟩
    rcases hp with hp | ⟨hd, hp⟩
    · rw [Nat.mul_comm x.a] at hp
      obtain ⟨rfl, rfl⟩ := pos_inj' hbn h2 hp
      simp [sE]
    · rw [Nat.add_comm x.a] at hp
      obtain ⟨rfl, rfl⟩ := pos_inj' hbn h1 hp
      simp [sE, hd]
  · rintro ⟨e, hm, hc⟩
    obtain ⟨i, x, w, hx, hw, rfl⟩ := (mem_sERefs s e).1 hm
    refine ⟨i, x, w, hx, hw, ?_⟩
    simp only [sE, Bool.or_eq_true, Bool.and_eq_true, beq_iff_eq, Bool.not_eq_true'] at hc
    rcases hc with ⟨rfl, rfl⟩ | ⟨⟨hd, rfl⟩, rfl⟩
    · left; rw [Nat.mul_comm]
    · right; exact ⟨hd, by rw [Nat.add_comm]⟩

/-! ### the table of `StableGraph` is consistent -/

theorem stableTable_consistent (s : State) (hinv : Inv s) :
    TableConsistent (nodeIndices s) (stableTable s) where
  ids := st_ids s hinv
  refs := st_refs s
  index := st_index s hinv
  compact := st_compact s
  erefs := st_erefs s hinv
  eix := st_eix s hinv
  nbrs := st_nbrs s hinv
  nbrsOut := st_nbrsOut s hinv
  nbrsIn := st_nbrsIn s hinv
  edges := st_edges s hinv
  edgesOut := st_edgesOut s hinv
  edgesIn := st_edgesIn s hinv
  adj := st_adj s hinv

/-- the iterators behind the rows never fault (no out-of-bounds access, every `next` walk terminates, no failing
`debug_assert!`), for ANY queried index, so the empty-row default of `SGView.okOr` is never used; and
`adjacency_matrix` stays inside its bitmap -/
theorem stableTable_no_fault (s : State) (hinv : Inv s) (a : Nat) :
    (∃ l, neighborsDirected s a 0 = .ok l) ∧ (∃ l, neighborsDirected s a 1 = .ok l) ∧
    (∀ dirIn, ∃ l, edgesDirected s a dirIn = .ok l) ∧
    ∀ p ∈ adjMatrix s, p < nodeBound s * nodeBound s := by
  obtain ⟨l0, l1, h⟩ := adjLists_exist hinv a
  exact ⟨⟨_, (neighborsDirected_spec hinv h).1⟩, ⟨_, (neighborsDirected_spec hinv h).2⟩,
    fun dirIn => ⟨_, edgesDirected_spec hinv h dirIn⟩, sgAdjMatrix_in_range s hinv⟩

/-- **C06 for `StableGraph`, all histories**: after every finite history of public calls of the C02 alphabet
(adds, removals, `update_edge`, `reverse`, `clear*`, `retain_*`, `map`, `filter_map`, `extend_with_edges`, the `Graph`
round trip, …, with arbitrary arguments), for every index width, both edge types, debug and release, the history runs
without a fault and the `visit` traits of the resulting graph describe one consistent graph -/
theorem stableTable_consistent_all_histories (directed : Bool) (fin : Nat) (noLimit debug : Bool) (ops : List SG.Op) :
    ∃ s outs, run (SG.empty directed fin noLimit debug) ops = .ok (s, outs) ∧
      TableConsistent (nodeIndices s) (stableTable s) := by
  obtain ⟨s, outs, hrun, hinv, _⟩ := C02T.C02_all_histories directed fin noLimit debug ops
  exact ⟨s, outs, hrun, stableTable_consistent s hinv⟩

end PetgraphModel.Visit.SGW3
