import PetgraphModel.Proofs.C09Models
/-
Partial results about the mirror models whose full correctness is only stated (`Theorems/C09.lean`):
kosaraju_scc (second phase), toposort (first-pass `Cycle`), TarjanScc (no empty component),
condensation (one node per component, one edge per original edge).  Core Lean only.
-/
namespace PetgraphModel.C09P
open PetgraphModel PetgraphModel.MGraph PetgraphModel.C09J PetgraphModel.C09M PetgraphModel.Trav

/-! ### `Dfs::next` bookkeeping (no assumption on the walker's state) -/

theorem dfsNext_disc (v : View) : ∀ (f : Nat) (d : Dfs) (r : Option Nat) (d' : Dfs),
    dfsNext v f d = some (r, d') →
    (r = none → d'.disc = d.disc) ∧ (∀ x, r = some x → x ∉ d.disc ∧ d'.disc = x :: d.disc) := by
  intro f
  induction f with
  | zero => intro d r d' h; simp [dfsNext] at h
  | succ f ih =>
    intro d r d' h
    unfold dfsNext at h
    split at h
    · simp at h
      obtain ⟨h1, h2⟩ := h
      subst h1; subst h2
      exact ⟨(fun _ => rfl), (fun x hx => by cases hx)⟩
    · rename_i x st _
      split at h
      · exact ih { d with stack := st } r d' h
      · rename_i hx
        simp at h
        obtain ⟨h1, h2⟩ := h
        subst h1; subst h2
        refine ⟨(fun h => by cases h), fun y hy => ?_⟩
        have : y = x := by simpa using hy.symm
        subst this
        exact ⟨hx, rfl⟩

/-- a restart at an undiscovered node emits that node first -/
theorem dfsNext_moveTo (v : View) (f : Nat) (d : Dfs) (i : Nat) (hi : i ∉ d.disc) :
    ∃ d', dfsNext v (f + 1) (d.moveTo i) = some (some i, d') ∧ d'.disc = i :: d.disc := by
  simp [dfsNext, Dfs.moveTo, hi]

theorem drain_succ {σ : Type} (next : σ → Option (Option Nat × σ)) (k : Nat) (s : σ) (acc : List Nat) :
    drain next (k + 1) s acc = (match next s with
      | none => none
      | some (none, s') => some (acc, s')
      | some (some x, s') => drain next k s' (acc ++ [x])) := rfl

theorem drain_dfs (v : View) (f : Nat) : ∀ (k : Nat) (d : Dfs) (acc out : List Nat) (d' : Dfs),
    drain (dfsNext v f) k d acc = some (out, d') →
    ∃ new, out = acc ++ new ∧ new.Nodup ∧ (∀ x ∈ new, x ∉ d.disc) ∧ (∀ x, x ∈ d'.disc ↔ x ∈ new ∨ x ∈ d.disc) := by
  intro k
  induction k with
  | zero => intro d acc out d' h; simp [drain] at h
  | succ k ih =>
    intro d acc out d' h
    rw [drain_succ] at h
    cases hn : dfsNext v f d with
    | none => simp [hn] at h
    | some p =>
      obtain ⟨o, d1⟩ := p
      obtain ⟨hnone, hsome⟩ := dfsNext_disc v f d o d1 hn
      cases o with
      | none =>
        simp [hn] at h
        obtain ⟨h1, h2⟩ := h
        subst h1; subst h2
        exact ⟨[], by simp, List.nodup_nil, by simp, fun x => by rw [hnone rfl]; simp⟩
      | some x =>
        simp only [hn] at h
        obtain ⟨hx, hd1⟩ := hsome x rfl
        obtain ⟨new, h1, h2, h3, h4⟩ := ih d1 (acc ++ [x]) out d' h
        refine ⟨x :: new, by rw [h1]; simp, ?_, ?_, ?_⟩
        · refine List.nodup_cons.mpr ⟨fun hxn => ?_, h2⟩
          exact h3 x hxn (by rw [hd1]; exact List.mem_cons_self ..)
        · intro y hy
          cases List.mem_cons.mp hy with
          | inl h => exact h ▸ hx
          | inr h => exact fun hyd => h3 y h (by rw [hd1]; exact List.mem_cons_of_mem _ hyd)
        · intro y
          rw [h4 y, hd1]
          simp only [List.mem_cons]
          constructor
          · rintro (h | h | h)
            · exact Or.inl (Or.inr h)
            · exact Or.inl (Or.inl h)
            · exact Or.inr h
          · rintro ((h | h) | h)
            · exact Or.inr (Or.inl h)
            · exact Or.inl h
            · exact Or.inr (Or.inr h)

/-! ### kosaraju_scc, second phase: for ANY finish list -/

structure CollectInv (d : Dfs) (sccs : List (List Nat)) : Prop where
  nonempty : ∀ c ∈ sccs, c ≠ []
  nodup : sccs.flatten.Nodup
  disc : ∀ x, x ∈ sccs.flatten ↔ x ∈ d.disc

theorem kosarajuCollect_fold (v : View) : ∀ (l : List Nat) (d : Dfs) (sccs : List (List Nat))
    (d' : Dfs) (sccs' : List (List Nat)),
    l.foldlM (collectStep v) (d, sccs) = some (d', sccs') →
    CollectInv d sccs → CollectInv d' sccs' ∧ (∀ x ∈ l, x ∈ d'.disc) ∧ ∀ x ∈ d.disc, x ∈ d'.disc := by
  intro l
  induction l with
  | nil =>
    intro d sccs d' sccs' h inv
    simp at h
    obtain ⟨h1, h2⟩ := h
    subst h1; subst h2
    exact ⟨inv, by simp, fun _ h => h⟩
  | cons i l ih =>
    intro d sccs d' sccs' h inv
    rw [List.foldlM_cons] at h
    cases hstep : collectStep v (d, sccs) i with
    | none => rw [hstep] at h; cases h
    | some st1 =>
      rw [hstep] at h
      have h' : l.foldlM (collectStep v) st1 = some (d', sccs') := h
      obtain ⟨d1, sccs1⟩ := st1
      unfold collectStep at hstep
      by_cases hi : d.disc.contains i = true
      · rw [if_pos hi] at hstep
        cases hstep
        obtain ⟨h1, h2, h3⟩ := ih d sccs d' sccs' h' inv
        refine ⟨h1, ?_, h3⟩
        intro x hx
        cases List.mem_cons.mp hx with
        | inl h => exact h ▸ h3 i (by simpa using hi)
        | inr h => exact h2 x h
      · rw [if_neg hi] at hstep
        have hi' : i ∉ d.disc := by simpa using hi
        cases hdr : drain (dfsNext v (fuel v)) (fuel v + 4) (Dfs.moveTo d i) [] with
        | none => rw [hdr] at hstep; cases hstep
        | some p =>
          obtain ⟨scc, dd⟩ := p
          rw [hdr] at hstep
          cases hstep
          obtain ⟨new, hnew, hnd, hfresh, hdisc⟩ := drain_dfs v (fuel v) _ _ _ _ _ hdr
          rw [List.nil_append] at hnew; subst hnew
          have hd0 : (d.moveTo i).disc = d.disc := rfl
          rw [hd0] at hfresh hdisc
          -- the first emitted node is `i`
          have hi1 : i ∈ scc := by
            have hf : fuel v = (fuel v - 1) + 1 := by unfold fuel; omega
            obtain ⟨dm, hm, _⟩ := dfsNext_moveTo v (fuel v - 1) d i hi'
            rw [← hf] at hm
            have hk : fuel v + 4 = (fuel v + 3) + 1 := rfl
            rw [hk, drain_succ, hm] at hdr
            obtain ⟨new', hn', _⟩ := drain_dfs v (fuel v) _ _ _ _ _ hdr
            rw [hn']; simp
          have inv1 : CollectInv dd (sccs ++ [scc]) := by
            refine ⟨?_, ?_, ?_⟩
            · intro c hc
              cases List.mem_append.mp hc with
              | inl h => exact inv.nonempty c h
              | inr h =>
                have : c = scc := by simpa using h
                subst this
                exact List.ne_nil_of_mem hi1
            · rw [List.flatten_append]
              simp only [List.flatten_cons, List.flatten_nil, List.append_nil]
              refine List.nodup_append.mpr ⟨inv.nodup, hnd, ?_⟩
              intro a ha b hb hab
              subst hab
              exact hfresh a hb ((inv.disc a).mp ha)
            · intro x
              rw [List.flatten_append]
              simp only [List.flatten_cons, List.flatten_nil, List.append_nil, List.mem_append]
              rw [hdisc x, inv.disc x]
              exact Or.comm
          obtain ⟨h1, h2, h3⟩ := ih dd (sccs ++ [scc]) d' sccs' h' inv1
          have hmono : ∀ x ∈ d.disc, x ∈ d'.disc := fun x hx => h3 x ((hdisc x).mpr (Or.inr hx))
          refine ⟨h1, ?_, hmono⟩
          intro x hx
          cases List.mem_cons.mp hx with
          | inl h => exact h ▸ h3 i ((hdisc i).mpr (Or.inl hi1))
          | inr h => exact h2 x h

/-- second phase of `kosaraju_scc`, for any finish list: no empty component, no node in two components
(or twice in one), and every node of the finish list is placed. -/
theorem kosarajuCollect_partial (v : View) (finish : List Nat) (sccs : List (List Nat))
    (h : kosarajuCollect v finish = some sccs) :
    (∀ c ∈ sccs, c ≠ []) ∧ sccs.flatten.Nodup ∧ ∀ x ∈ finish, x ∈ sccs.flatten := by
  unfold kosarajuCollect at h
  cases hfold : finish.reverse.foldlM (collectStep v) (({} : Dfs), []) with
  | none => rw [hfold] at h; cases h
  | some st =>
  obtain ⟨d', sccs'⟩ := st
  rw [hfold] at h
  cases h
  obtain ⟨inv, hall, _⟩ := kosarajuCollect_fold v finish.reverse {} [] d' sccs' hfold
    ⟨by simp, by simp, by intro x; simp⟩
  exact ⟨inv.nonempty, inv.nodup, fun x hx => (inv.disc x).mpr (hall x (List.mem_reverse.mpr hx))⟩

/-! ### toposort: a `Cycle` found by the first pass names a node with a self-loop -/

theorem topoWhile_error (v : View) : ∀ (f : Nat) (s : TS) (x : Nat),
    topoWhile v f s = some (.error x) → x ∈ v.succ x := by
  intro f
  induction f with
  | zero => intro s x h; simp [topoWhile] at h
  | succ f ih =>
    intro s x h
    unfold topoWhile at h
    split at h
    · simp at h
    · rename_i nx st _
      split at h
      · split at h
        · rename_i hself
          simp at h
          subst h
          simpa using hself
        · exact ih _ x h
      · split at h
        · exact ih _ x h
        · exact ih _ x h

theorem topoFirst_error (v : View) (f : Nat) : ∀ (l : List Nat) (s : TS) (x : Nat),
    topoFirst v f l s = some (.error x) → x ∈ v.succ x := by
  intro l
  induction l with
  | nil => intro s x h; simp [topoFirst] at h
  | cons i rest ih =>
    intro s x h
    simp only [topoFirst] at h
    split at h
    · exact ih s x h
    · split at h
      · cases h
      · rename_i y hy
        simp at h; subst h
        exact topoWhile_error v f _ _ hy
      · rename_i s' _
        exact ih s' x h

/-! ### TarjanScc never emits an empty component -/

def OutOk (t : TJ) : Prop := ∀ c ∈ t.out, c ≠ []

theorem TJ.set_out (t : TJ) (v : View) (x : Nat) (r : Option Nat) : (t.set v x r).out = t.out := by
  cases r <;> rfl

theorem foldl_setcc_out (v : View) : ∀ (l : List Nat) (t : TJ),
    (l.foldl (fun (t : TJ) w => t.set v w (some t.cc)) t).out = t.out := by
  intro l
  induction l with
  | nil => intro t; rfl
  | cons a l ih => intro t; rw [List.foldl_cons, ih]; exact TJ.set_out ..

theorem tarjan_contract (v : View) : ∀ (f : Nat),
    (∀ x t t', tjVisit v f x t = some t' → OutOk t → OutOk t') ∧
    (∀ x ws t lr t' lr', tjNeigh v f x ws t lr = some (t', lr') → OutOk t → OutOk t') := by
  intro f
  induction f with
  | zero =>
    exact ⟨fun x t t' h => by simp [tjVisit] at h, fun x ws t lr t' lr' h => by simp [tjNeigh] at h⟩
  | succ f ih =>
    obtain ⟨ihV, ihN⟩ := ih
    constructor
    · intro x t t' h hok
      simp only [tjVisit] at h
      split at h
      · cases h
      · rename_i t1 lr hn
        have hok1 : OutOk t1 := ihN _ _ _ _ _ _ hn (by
          intro c hc
          rw [TJ.set_out] at hc
          exact hok c hc)
        split at h
        · cases h
          intro c hc
          have hc2 : c ∈ ((List.takeWhile (fun w => !optLt (t1.get v w) (t1.get v x)) t1.stack ++ [x]).foldl
              (fun (t : TJ) w => t.set v w (some t.cc)) t1).out ++
              [(List.takeWhile (fun w => !optLt (t1.get v w) (t1.get v x)) t1.stack).reverse ++ [x]] := hc
          rw [foldl_setcc_out] at hc2
          cases List.mem_append.mp hc2 with
          | inl hc' => exact hok1 c hc'
          | inr hc' =>
            have : c = (List.takeWhile (fun w => !optLt (t1.get v w) (t1.get v x)) t1.stack).reverse ++ [x] := by
              simpa using hc'
            rw [this]; simp
        · cases h
          exact hok1
    · intro x ws t lr t' lr' h hok
      cases ws with
      | nil => simp [tjNeigh] at h; exact h.1 ▸ hok
      | cons w ws =>
        simp only [tjNeigh] at h
        split at h
        · cases h
        · rename_i t1 ht1
          have hok1 : OutOk t1 := by
            split at ht1
            · exact ihV _ _ _ ht1 hok
            · simp at ht1; exact ht1 ▸ hok
          split at h
          · exact ihN _ _ _ _ _ _ h (by intro c hc; rw [TJ.set_out] at hc; exact hok1 c hc)
          · exact ihN _ _ _ _ _ _ h hok1

theorem tjRun_nonempty (v : View) (t t' : TJ) (h : tjRun v t = some t') : ∀ c ∈ t'.out, c ≠ [] := by
  unfold tjRun at h
  have key : ∀ (l : List Nat) (t0 t1 : TJ), l.foldlM (tjRunStep v) t0 = some t1 → OutOk t0 → OutOk t1 := by
    intro l
    induction l with
    | nil => intro t0 t1 h hok; simp at h; exact h ▸ hok
    | cons n l ih =>
      intro t0 t1 h hok
      rw [List.foldlM_cons] at h
      cases hs : tjRunStep v t0 n with
      | none => rw [hs] at h; cases h
      | some t2 =>
        rw [hs] at h
        have h' : l.foldlM (tjRunStep v) t2 = some t1 := h
        refine ih t2 t1 h' ?_
        unfold tjRunStep at hs
        split at hs
        · exact (tarjan_contract v _).1 _ _ _ hs hok
        · cases hs; exact hok
  exact key _ _ _ h (by intro c hc; cases hc)

/-! ### condensation: one node per component; without `make_acyclic` one edge per original edge -/

theorem condEdge_length (v : View) (comp : Nat → Nat) : ∀ (l : List Nat) (es : List (Nat × Nat × Int)),
    (l.foldl (condEdgeStep v comp false) es).length = es.length + (l.filter fun k => (v.edge? k).isSome).length := by
  intro l
  induction l with
  | nil => intro es; simp
  | cons k l ih =>
    intro es
    rw [List.foldl_cons, ih, List.filter_cons]
    unfold condEdgeStep
    cases hek : v.edge? k with
    | none => simp
    | some e => simp; omega

theorem condensation_counts (v : View) (eo : List Nat) (acyc : Bool) (c : Cond)
    (h : condensation v eo acyc = some c) :
    ∃ sccs, kosaraju v = some sccs ∧ c.nodes.length = sccs.length ∧
      (acyc = false → c.edges.length = (eo.filter fun k => (v.edge? k).isSome).length) := by
  unfold condensation at h
  cases hk : kosaraju v with
  | none => rw [hk] at h; cases h
  | some sccs =>
    rw [hk] at h
    cases h
    refine ⟨sccs, rfl, by simp, ?_⟩
    intro ha
    subst ha
    have := condEdge_length v (compOf sccs) eo []
    simpa using this

end PetgraphModel.C09P
