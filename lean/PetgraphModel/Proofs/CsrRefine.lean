import PetgraphModel.Proofs.CsrOps2
import PetgraphModel.Spec.AppendOnly
set_option linter.style.nameCheck false
namespace PetgraphModel.CsrProofs
open PetgraphModel.CsrM PetgraphModel.AppendSpec

/-! ### the specification side -/

theorem key_eq_iff (d : Bool) (x y a b : Nat) :
    key d x y = key d a b ↔ (x = a ∧ y = b) ∨ (d = false ∧ x = b ∧ y = a) := by
  unfold key
  cases d
  · simp only [Bool.false_or, decide_eq_true_eq, true_and]
    by_cases h1 : x ≤ y <;> by_cases h2 : a ≤ b <;> simp [h1, h2, Prod.ext_iff] <;> omega
  · simp [Prod.ext_iff]

theorem lookupKey_append (k k' : Nat × Nat) (w : Int) (es : List ((Nat × Nat) × Int)) :
    lookupKey k (es ++ [(k', w)]) =
      match lookupKey k es with
      | some v => some v
      | none => if k' = k then some w else none := by
  induction es with
  | nil => simp [lookupKey]
  | cons e es ih =>
    obtain ⟨k2, w2⟩ := e
    simp only [List.cons_append, lookupKey]
    split
    · rfl
    · exact ih

/-- abstract effect and answer of one mutating call; `m` = number of values of the node index type
(`0`: unbounded): `add_node` on a `full` graph is the documented panic and changes nothing -/
def specStep (m : Nat) (g : SG) : Op → SG × Out
  | .addNode w =>
    match g.addNodeCap m w with
    | some (g', i) => (g', .ix i)
    | none => (g, .panic)
  | .addEdge a b w =>
    match g.addEdge a b w with
    | (g', .ok r) => (g', .bool r)
    | (g', .error _) => (g', .panic)
  | .tryAddEdge a b w => let (g', r) := g.addEdge a b w; (g', .res r)
  | .clearEdges => (g.clearEdges, .unit)
  | .setWeight a w =>
    match g.setWeight a w with
    | some g' => (g', .unit)
    | none => (g, .panic)

def specRun (m : Nat) (g : SG) : List Op → SG × List Out
  | [] => (g, [])
  | op :: ops =>
    let (g1, o) := specStep m g op
    let (g2, os) := specRun m g1 ops
    (g2, o :: os)

theorem full_iff (m n : Nat) : full m n = true ↔ ¬ (m = 0 ∨ n < m) := by
  simp [full]

theorem SG.addNodeCap_fit (m : Nat) (g : SG) (w : Int) (h : m = 0 ∨ g.n < m) :
    g.addNodeCap m w = some (g.addNode w) := by
  have : full m g.n = false := by rw [← Bool.not_eq_true, full_iff]; exact fun hh => hh h
  simp [SG.addNodeCap, this]

theorem SG.addNodeCap_full (m : Nat) (g : SG) (w : Int) (h : ¬ (m = 0 ∨ g.n < m)) :
    g.addNodeCap m w = none := by
  have : full m g.n = true := (full_iff m g.n).mpr h
  simp [SG.addNodeCap, this]

/-- the model state `s` (with rows `R`) represents the abstract simple graph `g` -/
structure Abs (s : State) (R : List Row) (g : SG) : Prop where
  dir : g.directed = s.directed
  nodes : g.nodes = s.nodeWeights
  look : ∀ a b, look R a b = g.lookup a b
  count : s.edgeCountQ = g.edgeCount

theorem Abs.n {s : State} {R : List Row} {g : SG} (good : Good s R) (abs : Abs s R g) : g.n = R.length := by
  rw [SG.n, abs.nodes, good.rep.nw]

theorem SG.addEdge_oob (g : SG) (a b : Nat) (w : Int) (h : ¬ (a < g.n ∧ b < g.n)) :
    g.addEdge a b w = (g, .error (a, b)) := by
  simp [SG.addEdge, h]

theorem SG.addEdge_present (g : SG) (a b : Nat) (w : Int) (h : a < g.n ∧ b < g.n) (hp : g.lookup a b ≠ none) :
    g.addEdge a b w = (g, .ok false) := by
  have : g.has a b = true := by
    unfold SG.has; cases hh : g.lookup a b with
    | none => exact absurd hh hp
    | some v => rfl
  simp [SG.addEdge, h, this]

theorem SG.addEdge_absent (g : SG) (a b : Nat) (w : Int) (h : a < g.n ∧ b < g.n) (hp : g.lookup a b = none) :
    g.addEdge a b w = ({ g with edges := g.edges ++ [(key g.directed a b, w)] }, .ok true) := by
  have : g.has a b = false := by unfold SG.has; rw [hp]; rfl
  simp [SG.addEdge, h, this]

theorem SG.lookup_after_add (g : SG) (a b : Nat) (w : Int) (hp : g.lookup a b = none) (x y : Nat) :
    ({ g with edges := g.edges ++ [(key g.directed a b, w)] } : SG).lookup x y =
      if (x = a ∧ y = b) ∨ (g.directed = false ∧ x = b ∧ y = a) then some w else g.lookup x y := by
  unfold SG.lookup at *
  simp only [lookupKey_append]
  by_cases hk : key g.directed x y = key g.directed a b
  · rw [hk, hp]
    have := (key_eq_iff g.directed x y a b).mp hk
    simp [this]
  · have h1 : ¬ ((x = a ∧ y = b) ∨ (g.directed = false ∧ x = b ∧ y = a)) :=
      fun hh => hk ((key_eq_iff g.directed x y a b).mpr hh)
    have h2 : ¬ key g.directed a b = key g.directed x y := fun e => hk e.symm
    simp only [h1, if_false, h2]
    cases lookupKey (key g.directed x y) g.edges <;> rfl

/-- node count after a call that does not panic -/
def nodesAfter (n : Nat) : Op → Nat
  | .addNode _ => n + 1
  | _ => n

/-- node count after a call (`m` = capacity of the index type, `0` = unbounded): `add_node` on a full graph
panics and adds nothing -/
def nodesAfterC (m n : Nat) : Op → Nat
  | .addNode _ => if m = 0 ∨ n < m then n + 1 else n
  | _ => n

/-- **refinement of one call**: invariant and abstraction are preserved, the answer is the specified one —
for EVERY call, including `add_node` at the capacity of the index type (documented panic, unchanged). -/
theorem step_refines {s : State} {R : List Row} {g : SG} (good : Good s R) (abs : Abs s R g) (op : Op) :
    ∃ R', Good (step s op).1 R' ∧ Abs (step s op).1 R' (specStep s.modulus g op).1 ∧
      (step s op).2 = (specStep s.modulus g op).2 ∧ SameParams (step s op).1 s ∧
      R'.length = nodesAfterC s.modulus R.length op := by
  have hn := Abs.n good abs
  cases op with
  | addNode w =>
    by_cases hfit : s.modulus = 0 ∨ R.length < s.modulus
    · obtain ⟨s', e, good', sp, hnw, hec⟩ := good.addNode w hfit
      have hs := SG.addNodeCap_fit s.modulus g w (by rw [hn]; exact hfit)
      refine ⟨R ++ [[]], ?_, ?_, ?_, ?_, by simp [nodesAfterC, hfit]⟩
      all_goals simp only [step, e, specStep, hs, SG.addNode]
      · exact good'
      · refine ⟨?_, ?_, ?_, ?_⟩
        · show g.directed = s'.directed; rw [sp.1]; exact abs.dir
        · show g.nodes ++ [w] = s'.nodeWeights; rw [hnw, abs.nodes]
        · intro a b; rw [look_snoc_nil]; exact abs.look a b
        · rw [hec]; exact abs.count
      · rw [hn]
      · exact sp
    · have e := good.addNode_full w hfit
      have hs := SG.addNodeCap_full s.modulus g w (by rw [hn]; exact hfit)
      refine ⟨R, ?_, ?_, ?_, ?_, by simp [nodesAfterC, hfit]⟩
      all_goals simp only [step, e, specStep, hs]
      · exact good
      · exact abs
      · exact SameParams.refl s
  | clearEdges =>
    refine ⟨List.replicate R.length [], good.clearEdges, ⟨?_, ?_, ?_, ?_⟩, rfl, ⟨rfl, rfl, rfl, rfl⟩, by simp [nodesAfterC]⟩
    · exact abs.dir
    · exact abs.nodes
    · intro a b; rw [look_replicate_nil]; rfl
    · show (CsrM.clearEdges s).edgeCountQ = 0
      unfold State.edgeCountQ CsrM.clearEdges
      cases s.directed <;> simp
  | setWeight a w =>
    by_cases ha : a < R.length
    · obtain ⟨s', e, good', sp, hnw, hec⟩ := good.setWeight a w ha
      have hs : g.setWeight a w = some { g with nodes := g.nodes.set a w } := by
        simp [SG.setWeight, hn, ha]
      refine ⟨R, ?_, ?_, ?_, ?_, rfl⟩
      all_goals simp only [step, e, specStep, hs]
      · exact good'
      · refine ⟨?_, ?_, abs.look, ?_⟩
        · show g.directed = s'.directed; rw [sp.1]; exact abs.dir
        · show g.nodes.set a w = s'.nodeWeights; rw [hnw, abs.nodes]
        · rw [hec]; exact abs.count
      · exact sp
    · have e := good.setWeight_oob a w ha
      have hs : g.setWeight a w = none := by simp [SG.setWeight, hn, ha]
      refine ⟨R, ?_, ?_, ?_, ?_, rfl⟩
      all_goals simp only [step, e, specStep, hs]
      · exact good
      · exact abs
      · exact SameParams.refl s
  | tryAddEdge a b w =>
    by_cases hr : a < R.length ∧ b < R.length
    · by_cases hp : look R a b = none
      · obtain ⟨s', R', e, good', sp, hnw, hl, hec, hlook⟩ := good.tryAddEdge_absent a b w hr.1 hr.2 hp
        have hs := SG.addEdge_absent g a b w (by rw [hn]; exact hr) (by rw [← abs.look]; exact hp)
        refine ⟨R', ?_, ?_, ?_, ?_, hl⟩
        all_goals simp only [step, e, specStep, hs]
        · exact good'
        · refine ⟨?_, ?_, ?_, ?_⟩
          · show g.directed = s'.directed; rw [sp.1]; exact abs.dir
          · show g.nodes = s'.nodeWeights; rw [hnw]; exact abs.nodes
          · intro x y
            rw [hlook, SG.lookup_after_add g a b w (by rw [← abs.look]; exact hp), abs.dir, abs.look]
          · rw [hec, abs.count]; simp [SG.edgeCount]
        · exact sp
      · have e := good.tryAddEdge_present a b w hr.1 hr.2 hp
        have hs := SG.addEdge_present g a b w (by rw [hn]; exact hr) (by rw [← abs.look]; exact hp)
        refine ⟨R, ?_, ?_, ?_, ?_, rfl⟩
        all_goals simp only [step, e, specStep, hs]
        · exact good
        · exact abs
        · exact SameParams.refl s
    · have e := good.tryAddEdge_oob a b w hr
      have hs := SG.addEdge_oob g a b w (by rw [hn]; exact hr)
      refine ⟨R, ?_, ?_, ?_, ?_, rfl⟩
      all_goals simp only [step, e, specStep, hs]
      · exact good
      · exact abs
      · exact SameParams.refl s
  | addEdge a b w =>
    by_cases hr : a < R.length ∧ b < R.length
    · by_cases hp : look R a b = none
      · obtain ⟨s', R', e, good', sp, hnw, hl, hec, hlook⟩ := good.tryAddEdge_absent a b w hr.1 hr.2 hp
        have hs := SG.addEdge_absent g a b w (by rw [hn]; exact hr) (by rw [← abs.look]; exact hp)
        refine ⟨R', ?_, ?_, ?_, ?_, hl⟩
        all_goals simp only [step, CsrM.addEdge, e, specStep, hs]
        · exact good'
        · refine ⟨?_, ?_, ?_, ?_⟩
          · show g.directed = s'.directed; rw [sp.1]; exact abs.dir
          · show g.nodes = s'.nodeWeights; rw [hnw]; exact abs.nodes
          · intro x y
            rw [hlook, SG.lookup_after_add g a b w (by rw [← abs.look]; exact hp), abs.dir, abs.look]
          · rw [hec, abs.count]; simp [SG.edgeCount]
        · exact sp
      · have e := good.tryAddEdge_present a b w hr.1 hr.2 hp
        have hs := SG.addEdge_present g a b w (by rw [hn]; exact hr) (by rw [← abs.look]; exact hp)
        refine ⟨R, ?_, ?_, ?_, ?_, rfl⟩
        all_goals simp only [step, CsrM.addEdge, e, specStep, hs]
        · exact good
        · exact abs
        · exact SameParams.refl s
    · have e := good.tryAddEdge_oob a b w hr
      have hs := SG.addEdge_oob g a b w (by rw [hn]; exact hr)
      refine ⟨R, ?_, ?_, ?_, ?_, rfl⟩
      all_goals simp only [step, CsrM.addEdge, e, specStep, hs]
      · exact good
      · exact abs
      · exact SameParams.refl s

/-- no `add_node` is issued while the graph is `full` (`u8`: 256 nodes), i.e. the history never runs into the
capacity panic of `add_node`.  (Before commit 8cab180 — finding D31 — the refinement theorems needed this
hypothesis; now they hold for every history and `Fits` only serves the callers that still state it.) -/
def Fits (m : Nat) : Nat → List Op → Prop
  | _, [] => True
  | n, op :: ops => (∀ w, op = .addNode w → m = 0 ∨ n < m) ∧ Fits m (nodesAfter n op) ops

/-- **refinement of every history** (no restriction on the history) -/
theorem run_refines {s : State} {R : List Row} {g : SG} (good : Good s R) (abs : Abs s R g) (ops : List Op) :
    ∃ R', Good (run s ops).1 R' ∧ Abs (run s ops).1 R' (specRun s.modulus g ops).1 ∧
      (run s ops).2 = (specRun s.modulus g ops).2 ∧ SameParams (run s ops).1 s := by
  induction ops generalizing s R g with
  | nil => exact ⟨R, good, abs, rfl, SameParams.refl s⟩
  | cons op ops ih =>
    obtain ⟨R1, good1, abs1, hout, sp1, hl1⟩ := step_refines good abs op
    obtain ⟨R2, good2, abs2, houts, sp2⟩ := ih good1 abs1
    rw [sp1.2.1] at abs2 houts
    refine ⟨R2, ?_, ?_, ?_, ?_⟩
    · simpa [run] using good2
    · simpa [run, specRun] using abs2
    · simp only [run, specRun]; rw [hout, houts]
    · simp only [run]
      exact ⟨sp2.1.trans sp1.1, sp2.2.1.trans sp1.2.1, sp2.2.2.1.trans sp1.2.2.1, sp2.2.2.2.trans sp1.2.2.2⟩

end PetgraphModel.CsrProofs
