import PetgraphModel.Proofs.CsrOps2
import PetgraphModel.Spec.AppendOnly
set_option linter.style.nameCheck false
namespace PetgraphModel.CsrProofs
open PetgraphModel.CsrM PetgraphModel.AppendSpec

/-! ### the specification side -/

theorem key_eq_iff (d : Bool) (x y a b : Nat) :
    key d x y = key d a b ↔ (x = a ∧ y = b) ∨ (d = false ∧ x = b ∧ y = a) := by
  unfold key
  cases d
  · simp only [Bool.false_or, decide_eq_true_eq, true_and]
    by_cases h1 : x ≤ y <;> by_cases h2 : a ≤ b <;> simp [h1, h2, Prod.ext_iff] <;> omega
  · simp [Prod.ext_iff]

theorem lookupKey_append (k k' : Nat × Nat) (w : Int) (es : List ((Nat × Nat) × Int)) :
    lookupKey k (es ++ [(k', w)]) =
      match lookupKey k es with
      | some v => some v
      | none => if k' = k then some w else none := by
  induction es with
  | nil => simp [lookupKey]
  | cons e es ih =>
    obtain ⟨k2, w2⟩ := e
    simp only [List.cons_append, lookupKey]
    split
    · rfl
    · exact ih

/-- abstract effect and answer of one mutating call -/
def specStep (g : SG) : Op → SG × Out
  | .addNode w => let (g', i) := g.addNode w; (g', .ix i)
  | .addEdge a b w =>
    match g.addEdge a b w with
    | (g', .ok r) => (g', .bool r)
    | (g', .error _) => (g', .panic)
  | .tryAddEdge a b w => let (g', r) := g.addEdge a b w; (g', .res r)
  | .clearEdges => (g.clearEdges, .unit)
  | .setWeight a w =>
    match g.setWeight a w with
    | some g' => (g', .unit)
    | none => (g, .panic)

def specRun (g : SG) : List Op → SG × List Out
  | [] => (g, [])
  | op :: ops =>
    let (g1, o) := specStep g op
    let (g2, os) := specRun g1 ops
    (g2, o :: os)

/-- the model state `s` (with rows `R`) represents the abstract simple graph `g` -/
structure Abs (s : State) (R : List Row) (g : SG) : Prop where
  dir : g.directed = s.directed
  nodes : g.nodes = s.nodeWeights
  look : ∀ a b, look R a b = g.lookup a b
  count : s.edgeCountQ = g.edgeCount

theorem Abs.n {s : State} {R : List Row} {g : SG} (good : Good s R) (abs : Abs s R g) : g.n = R.length := by
  rw [SG.n, abs.nodes, good.rep.nw]

theorem SG.addEdge_oob (g : SG) (a b : Nat) (w : Int) (h : ¬ (a < g.n ∧ b < g.n)) :
    g.addEdge a b w = (g, .error (a, b)) := by
  simp [SG.addEdge, h]

theorem SG.addEdge_present (g : SG) (a b : Nat) (w : Int) (h : a < g.n ∧ b < g.n) (hp : g.lookup a b ≠ none) :
    g.addEdge a b w = (g, .ok false) := by
  have : g.has a b = true := by
    unfold SG.has; cases hh : g.lookup a b with
    | none => exact absurd hh hp
    | some v => rfl
  simp [SG.addEdge, h, this]

theorem SG.addEdge_absent (g : SG) (a b : Nat) (w : Int) (h : a < g.n ∧ b < g.n) (hp : g.lookup a b = none) :
    g.addEdge a b w = ({ g with edges := g.edges ++ [(key g.directed a b, w)] }, .ok true) := by
  have : g.has a b = false := by unfold SG.has; rw [hp]; rfl
  simp [SG.addEdge, h, this]

theorem SG.lookup_after_add (g : SG) (a b : Nat) (w : Int) (hp : g.lookup a b = none) (x y : Nat) :
    ({ g with edges := g.edges ++ [(key g.directed a b, w)] } : SG).lookup x y =
      if (x = a ∧ y = b) ∨ (g.directed = false ∧ x = b ∧ y = a) then some w else g.lookup x y := by
  unfold SG.lookup at *
  simp only [lookupKey_append]
  by_cases hk : key g.directed x y = key g.directed a b
  · rw [hk, hp]
    have := (key_eq_iff g.directed x y a b).mp hk
    simp [this]
  · have h1 : ¬ ((x = a ∧ y = b) ∨ (g.directed = false ∧ x = b ∧ y = a)) :=
      fun hh => hk ((key_eq_iff g.directed x y a b).mpr hh)
    have h2 : ¬ key g.directed a b = key g.directed x y := fun e => hk e.symm
    simp only [h1, if_false, h2]
    cases lookupKey (key g.directed x y) g.edges <;> rfl

/-- node count after a call -/
def nodesAfter (n : Nat) : Op → Nat
  | .addNode _ => n + 1
  | _ => n

/-- **refinement of one call**: invariant and abstraction are preserved, the answer is the specified one.
`hfit`: an `add_node` stays within the capacity of the index type. -/
theorem step_refines {s : State} {R : List Row} {g : SG} (good : Good s R) (abs : Abs s R g) (op : Op)
    (hfit : ∀ w, op = .addNode w → s.modulus = 0 ∨ R.length < s.modulus) :
    ∃ R', Good (step s op).1 R' ∧ Abs (step s op).1 R' (specStep g op).1 ∧
      (step s op).2 = (specStep g op).2 ∧ SameParams (step s op).1 s ∧ R'.length = nodesAfter R.length op := by
  have hn := Abs.n good abs
  cases op with
  | addNode w =>
    obtain ⟨s', e, good', sp, hnw, hec⟩ := good.addNode w
    have hmk : mkIx s.modulus R.length = R.length := by
      unfold mkIx
      rcases hfit w rfl with h | h
      · simp [h]
      · have : ¬ s.modulus = 0 := by omega
        simp [this, Nat.mod_eq_of_lt h]
    refine ⟨R ++ [[]], ?_, ?_, ?_, ?_, by simp [nodesAfter]⟩
    all_goals simp only [step, e, specStep, SG.addNode]
    · exact good'
    · refine ⟨?_, ?_, ?_, ?_⟩
      · show g.directed = s'.directed; rw [sp.1]; exact abs.dir
      · show g.nodes ++ [w] = s'.nodeWeights; rw [hnw, abs.nodes]
      · intro a b; rw [look_snoc_nil]; exact abs.look a b
      · rw [hec]; exact abs.count
    · rw [hmk, hn]
    · exact sp
  | clearEdges =>
    refine ⟨List.replicate R.length [], good.clearEdges, ⟨?_, ?_, ?_, ?_⟩, rfl, ⟨rfl, rfl, rfl, rfl⟩, by simp [nodesAfter]⟩
    · exact abs.dir
    · exact abs.nodes
    · intro a b; rw [look_replicate_nil]; rfl
    · show (CsrM.clearEdges s).edgeCountQ = 0
      unfold State.edgeCountQ CsrM.clearEdges
      cases s.directed <;> simp
  | setWeight a w =>
    by_cases ha : a < R.length
    · obtain ⟨s', e, good', sp, hnw, hec⟩ := good.setWeight a w ha
      have hs : g.setWeight a w = some { g with nodes := g.nodes.set a w } := by
        simp [SG.setWeight, hn, ha]
      refine ⟨R, ?_, ?_, ?_, ?_, rfl⟩
      all_goals simp only [step, e, specStep, hs]
      · exact good'
      · refine ⟨?_, ?_, abs.look, ?_⟩
        · show g.directed = s'.directed; rw [sp.1]; exact abs.dir
        · show g.nodes.set a w = s'.nodeWeights; rw [hnw, abs.nodes]
        · rw [hec]; exact abs.count
      · exact sp
    · have e := good.setWeight_oob a w ha
      have hs : g.setWeight a w = none := by simp [SG.setWeight, hn, ha]
      refine ⟨R, ?_, ?_, ?_, ?_, rfl⟩
      all_goals simp only [step, e, specStep, hs]
      · exact good
      · exact abs
      · exact SameParams.refl s
  | tryAddEdge a b w =>
    by_cases hr : a < R.length ∧ b < R.length
    · by_cases hp : look R a b = none
      · obtain ⟨s', R', e, good', sp, hnw, hl, hec, hlook⟩ := good.tryAddEdge_absent a b w hr.1 hr.2 hp
        have hs := SG.addEdge_absent g a b w (by rw [hn]; exact hr) (by rw [← abs.look]; exact hp)
        refine ⟨R', ?_, ?_, ?_, ?_, hl⟩
        all_goals simp only [step, e, specStep, hs]
        · exact good'
        · refine ⟨?_, ?_, ?_, ?_⟩
          · show g.directed = s'.directed; rw [sp.1]; exact abs.dir
          · show g.nodes = s'.nodeWeights; rw [hnw]; exact abs.nodes
          · intro x y
            rw [hlook, SG.lookup_after_add g a b w (by rw [← abs.look]; exact hp), abs.dir, abs.look]
          · rw [hec, abs.count]; simp [SG.edgeCount]
        · exact sp
      · have e := good.tryAddEdge_present a b w hr.1 hr.2 hp
        have hs := SG.addEdge_present g a b w (by rw [hn]; exact hr) (by rw [← abs.look]; exact hp)
        refine ⟨R, ?_, ?_, ?_, ?_, rfl⟩
        all_goals simp only [step, e, specStep, hs]
        · exact good
        · exact abs
        · exact SameParams.refl s
    · have e := good.tryAddEdge_oob a b w hr
      have hs := SG.addEdge_oob g a b w (by rw [hn]; exact hr)
      refine ⟨R, ?_, ?_, ?_, ?_, rfl⟩
      all_goals simp only [step, e, specStep, hs]
      · exact good
      · exact abs
      · exact SameParams.refl s
  | addEdge a b w =>
    by_cases hr : a < R.length ∧ b < R.length
    · by_cases hp : look R a b = none
      · obtain ⟨s', R', e, good', sp, hnw, hl, hec, hlook⟩ := good.tryAddEdge_absent a b w hr.1 hr.2 hp
        have hs := SG.addEdge_absent g a b w (by rw [hn]; exact hr) (by rw [← abs.look]; exact hp)
        refine ⟨R', ?_, ?_, ?_, ?_, hl⟩
        all_goals simp only [step, CsrM.addEdge, e, specStep, hs]
        · exact good'
        · refine ⟨?_, ?_, ?_, ?_⟩
          · show g.directed = s'.directed; rw [sp.1]; exact abs.dir
          · show g.nodes = s'.nodeWeights; rw [hnw]; exact abs.nodes
          · intro x y
            rw [hlook, SG.lookup_after_add g a b w (by rw [← abs.look]; exact hp), abs.dir, abs.look]
          · rw [hec, abs.count]; simp [SG.edgeCount]
        · exact sp
      · have e := good.tryAddEdge_present a b w hr.1 hr.2 hp
        have hs := SG.addEdge_present g a b w (by rw [hn]; exact hr) (by rw [← abs.look]; exact hp)
        refine ⟨R, ?_, ?_, ?_, ?_, rfl⟩
        all_goals simp only [step, CsrM.addEdge, e, specStep, hs]
        · exact good
        · exact abs
        · exact SameParams.refl s
    · have e := good.tryAddEdge_oob a b w hr
      have hs := SG.addEdge_oob g a b w (by rw [hn]; exact hr)
      refine ⟨R, ?_, ?_, ?_, ?_, rfl⟩
      all_goals simp only [step, CsrM.addEdge, e, specStep, hs]
      · exact good
      · exact abs
      · exact SameParams.refl s

/-- no `add_node` beyond the capacity of the index type (`u8`: 256 nodes) -/
def Fits (m : Nat) : Nat → List Op → Prop
  | _, [] => True
  | n, op :: ops => (∀ w, op = .addNode w → m = 0 ∨ n < m) ∧ Fits m (nodesAfter n op) ops

/-- **refinement of every history** -/
theorem run_refines {s : State} {R : List Row} {g : SG} (good : Good s R) (abs : Abs s R g) (ops : List Op)
    (hfit : Fits s.modulus R.length ops) :
    ∃ R', Good (run s ops).1 R' ∧ Abs (run s ops).1 R' (specRun g ops).1 ∧
      (run s ops).2 = (specRun g ops).2 ∧ SameParams (run s ops).1 s := by
  induction ops generalizing s R g with
  | nil => exact ⟨R, good, abs, rfl, SameParams.refl s⟩
  | cons op ops ih =>
    obtain ⟨R1, good1, abs1, hout, sp1, hl1⟩ := step_refines good abs op hfit.1
    have hfit' : Fits (step s op).1.modulus R1.length ops := by
      rw [sp1.2.1, hl1]; exact hfit.2
    obtain ⟨R2, good2, abs2, houts, sp2⟩ := ih good1 abs1 hfit'
    refine ⟨R2, ?_, ?_, ?_, ?_⟩
    · simpa [run] using good2
    · simpa [run, specRun] using abs2
    · simp only [run, specRun]; rw [hout, houts]
    · simp only [run]
      exact ⟨sp2.1.trans sp1.1, sp2.2.1.trans sp1.2.1, sp2.2.2.1.trans sp1.2.2.1, sp2.2.2.2.trans sp1.2.2.2⟩

end PetgraphModel.CsrProofs
