import PetgraphModel.Model.C15Flow
import PetgraphModel.Proofs.C15Flow
import PetgraphModel.Proofs.C15Matching
import PetgraphModel.Proofs.C15Greedy
/-
C15 — the Edmonds–Karp mirror model (`Model/C15Flow.lean`): capacity and conservation are
invariants of augmentation, the value is the net flow out of the source, and when the last BFS
fails its visited set is a saturated cut (so the flow is maximum).
-/
namespace PetgraphModel.C15P
open PetgraphModel PetgraphModel.C15 PetgraphModel.C15F PetgraphModel.MGraph

/-! ### hypotheses on the view -/

structure FlowView (v : View) : Prop where
  /-- edge ids are distinct -/
  ids : (v.g.edges.map (·.id)).Nodup
  /-- every entry of a node's out/in rows names an edge incident to that node -/
  rows : ∀ x o eid, (o, eid) ∈ v.outOf x ++ v.innOf x →
    ∃ e ∈ v.g.edges, e.id = eid ∧ (e.src = x ∨ e.tgt = x)
  /-- every edge is listed at both of its endpoints -/
  complete : ∀ e ∈ v.g.edges, (∃ o, (o, e.id) ∈ v.outOf e.src ++ v.innOf e.src) ∧
    (∃ o, (o, e.id) ∈ v.outOf e.tgt ++ v.innOf e.tgt)

theorem edge?_some {v : View} {eid : Nat} {e : Edge} (h : v.edge? eid = some e) :
    e ∈ v.g.edges ∧ e.id = eid := by
  unfold View.edge? at h
  exact ⟨List.mem_of_find?_eq_some h, by simpa using List.find?_some h⟩

theorem find?_id_of_nodup : ∀ (es : List Edge), (es.map (·.id)).Nodup → ∀ e ∈ es,
    es.find? (fun a => decide (a.id = e.id)) = some e
  | [], _, _, h => by cases h
  | a :: es, hn, e, he => by
    simp only [List.map_cons, List.nodup_cons, List.mem_map, not_exists, not_and] at hn
    rw [List.find?_cons]
    cases List.mem_cons.mp he with
    | inl h => subst h; simp
    | inr h =>
      have : ¬ a.id = e.id := fun heq => hn.1 e h heq.symm
      simp only [this, decide_false]
      exact find?_id_of_nodup es hn.2 e h

theorem edge?_of_mem {v : View} (hv : FlowView v) {e : Edge} (he : e ∈ v.g.edges) :
    v.edge? e.id = some e := by
  unfold View.edge?
  exact find?_id_of_nodup v.g.edges hv.ids e he

/-! ### the flow table -/

def Keys (v : View) (fl : Flows) : Prop := fl.map (·.1) = v.g.edges.map (·.id)

theorem setFlow_keys (fl : Flows) (k : Nat) (y : Int) : (setFlow fl k y).map (·.1) = fl.map (·.1) := by
  induction fl with
  | nil => rfl
  | cons p r ih =>
    obtain ⟨a, x⟩ := p
    simp only [setFlow]
    split <;> simp [ih]

theorem lookup_setFlow (fl : Flows) (k j : Nat) (y : Int) :
    (setFlow fl k y).lookup j = if j = k then (fl.lookup k).map (fun _ => y) else fl.lookup j := by
  induction fl with
  | nil => simp [setFlow]
  | cons p r ih =>
    obtain ⟨a, x⟩ := p
    simp only [setFlow]
    by_cases hak : a = k
    · subst hak
      simp only [if_true, List.lookup_cons]
      by_cases hja : j = a
      · subst hja; simp
      · have : (j == a) = false := by simpa using hja
        simp [this, hja]
    · simp only [hak, if_false, List.lookup_cons]
      by_cases hja : j = a
      · subst hja
        have : ¬ j = k := hak
        simp [this]
      · have h1 : (j == a) = false := by simpa using hja
        have h2 : (k == a) = false := by simpa using (fun h : k = a => hak h.symm)
        simp only [h1, h2, ih]

theorem lookup_isSome_of_mem_keys (fl : Flows) (k : Nat) (h : k ∈ fl.map (·.1)) : (fl.lookup k).isSome = true := by
  induction fl with
  | nil => simp at h
  | cons p r ih =>
    obtain ⟨a, x⟩ := p
    simp only [List.lookup_cons]
    by_cases hka : k = a
    · subst hka; simp
    · have h1 : (k == a) = false := by simpa using hka
      simp only [h1]
      apply ih
      simp only [List.map_cons, List.mem_cons] at h
      cases h with
      | inl h => exact absurd h hka
      | inr h => exact h

/-- `f` with the value at `k` replaced -/
def upd (f : Nat → Int) (k : Nat) (y : Int) : Nat → Int := fun j => if j = k then y else f j

theorem getFlow_setFlow (fl : Flows) (k : Nat) (y : Int) (hk : k ∈ fl.map (·.1)) :
    getFlow (setFlow fl k y) = upd (getFlow fl) k y := by
  funext j
  unfold getFlow upd
  rw [lookup_setFlow]
  by_cases hjk : j = k
  · subst hjk
    have := lookup_isSome_of_mem_keys fl j hk
    obtain ⟨z, hz⟩ := Option.isSome_iff_exists.mp this
    simp [hz]
  · simp [hjk]

/-! ### changing the flow on one edge -/

theorem esum_upd (c : Edge → Bool) (f : Nat → Int) (e : Edge) (y : Int) :
    ∀ (es : List Edge), (es.map (·.id)).Nodup → e ∈ es →
      esum (fun a => if c a = true then upd f e.id y a.id else 0) es =
      esum (fun a => if c a = true then f a.id else 0) es + (if c e = true then y - f e.id else 0)
  | [], _, h => by cases h
  | a :: es, hn, he => by
    simp only [List.map_cons, List.nodup_cons, List.mem_map, not_exists, not_and] at hn
    simp only [esum]
    cases List.mem_cons.mp he with
    | inl h =>
      subst h
      have hrest : esum (fun a => if c a = true then upd f e.id y a.id else 0) es =
          esum (fun a => if c a = true then f a.id else 0) es := by
        apply esum_congr
        intro b hb
        have : ¬ b.id = e.id := fun heq => hn.1 b hb heq
        simp [upd, this]
      rw [hrest]
      by_cases hc : c e = true <;> simp [hc, upd] <;> omega
    | inr h =>
      have : ¬ a.id = e.id := fun heq => hn.1 e h heq.symm
      rw [esum_upd c f e y es hn.2 h]
      simp only [upd, this, if_false]
      omega

/-- changing the flow on `e` by `δ` moves `δ` units of net outflow from `e.tgt` to `e.src` -/
theorem excess_upd (g : MGraph) (hids : (g.edges.map (·.id)).Nodup) (f : Nat → Int) (e : Edge)
    (he : e ∈ g.edges) (y : Int) (x : Nat) :
    excess g (upd f e.id y) x =
      excess g f x + (if e.src = x then y - f e.id else 0) - (if e.tgt = x then y - f e.id else 0) := by
  unfold excess outflow inflow
  have h1 := esum_upd (fun a => decide (a.src = x)) f e y g.edges hids he
  have h2 := esum_upd (fun a => decide (a.tgt = x)) f e y g.edges hids he
  simp only [decide_eq_true_eq] at h1 h2
  rw [h1, h2]
  omega

/-! ### walking `edge_to` back to the source -/

/-- `PathTo v et s x path`: following `edge_to` from `x` visits `path` (node, tree edge) and stops
at `s`, which has no entry -/
inductive PathTo (v : View) (et : List (Nat × Nat)) (s : Nat) : Nat → List (Nat × Edge) → Prop
  | nil : et.lookup s = none → PathTo v et s s []
  | cons {x p : Nat} {e : Edge} {rest : List (Nat × Edge)} :
      et.lookup x = some e.id → v.edge? e.id = some e → otherEndpoint e x = some p →
      PathTo v et s p rest → PathTo v et s x ((x, e) :: rest)

/-- the total version of `residual_capacity` at an endpoint -/
def rcOf (f : Nat → Int) (e : Edge) (x : Nat) : Int := if x = e.src then f e.id else e.w - f e.id

theorem endpoint_of_other {e : Edge} {x p : Nat} (h : otherEndpoint e x = some p) : x = e.src ∨ x = e.tgt := by
  unfold otherEndpoint at h
  by_cases h1 : x = e.src
  · exact Or.inl h1
  · by_cases h2 : x = e.tgt
    · exact Or.inr h2
    · simp [h1, h2] at h

theorem residualCap_eq {e : Edge} {x p : Nat} (h : otherEndpoint e x = some p) (y : Int) :
    residualCap e x y = some (if x = e.src then y else e.w - y) := by
  unfold residualCap
  rcases endpoint_of_other h with h1 | h1
  · simp [h1]
  · by_cases h2 : x = e.src
    · simp [h2]
    · subst h1; simp [h2]

theorem adjustFlow_eq {e : Edge} {x p : Nat} (h : otherEndpoint e x = some p) (y d : Int) :
    adjustFlow e x y d = some (if x = e.src then y - d else y + d) := by
  unfold adjustFlow
  rcases endpoint_of_other h with h1 | h1
  · simp [h1]
  · by_cases h2 : x = e.src
    · simp [h2]
    · subst h1; simp [h2]

/-- the bottleneck accumulated along a path -/
def pathMin (f : Nat → Int) : Option Int → List (Nat × Edge) → Option Int
  | acc, [] => acc
  | acc, (x, e) :: rest => pathMin f (minOpt acc (rcOf f e x)) rest

theorem bottleneck_spec (v : View) (fl : Flows) (et : List (Nat × Nat)) (s : Nat) :
    ∀ (x : Nat) (path : List (Nat × Edge)), PathTo v et s x path → ∀ (fuel : Nat) (acc : Option Int),
      path.length < fuel → bottleneck v fl et fuel x acc = some (pathMin (getFlow fl) acc path) := by
  intro x path hp
  induction hp with
  | nil h =>
    intro fuel acc hf
    cases fuel with
    | zero => simp at hf
    | succ f => simp [bottleneck, h, pathMin]
  | @cons x p e rest h1 h2 h3 _ ih =>
    intro fuel acc hf
    cases fuel with
    | zero => simp at hf
    | succ f =>
      simp only [bottleneck, h1, h2, residualCap_eq h3, h3, pathMin, rcOf]
      exact ih f _ (by simp at hf; omega)

/-- the flow function after pushing `d` along a path -/
def pushed (d : Int) : (Nat → Int) → List (Nat × Edge) → (Nat → Int)
  | f, [] => f
  | f, (x, e) :: rest => pushed d (upd f e.id (if x = e.src then f e.id - d else f e.id + d)) rest

theorem pushPath_spec (v : View) (et : List (Nat × Nat)) (s : Nat) (d : Int) :
    ∀ (x : Nat) (path : List (Nat × Edge)), PathTo v et s x path → ∀ (fuel : Nat) (fl : Flows),
      Keys v fl → path.length < fuel →
      ∃ fl', pushPath v et d fuel x fl = some fl' ∧ Keys v fl' ∧ getFlow fl' = pushed d (getFlow fl) path := by
  intro x path hp
  induction hp with
  | nil h =>
    intro fuel fl hk hf
    cases fuel with
    | zero => simp at hf
    | succ f => exact ⟨fl, by simp [pushPath, h], hk, rfl⟩
  | @cons x p e rest h1 h2 h3 _ ih =>
    intro fuel fl hk hf
    cases fuel with
    | zero => simp at hf
    | succ f =>
      have hmem : e.id ∈ fl.map (·.1) := by
        rw [hk]; exact List.mem_map.mpr ⟨e, (edge?_some h2).1, rfl⟩
      have hk' : Keys v (setFlow fl e.id (if x = e.src then getFlow fl e.id - d else getFlow fl e.id + d)) := by
        unfold Keys; rw [setFlow_keys]; exact hk
      obtain ⟨fl', h4, h5, h6⟩ := ih f _ hk' (by simp at hf; omega)
      refine ⟨fl', ?_, h5, ?_⟩
      · simp only [pushPath, h1, h2, adjustFlow_eq h3, h3]
        exact h4
      · rw [h6, getFlow_setFlow _ _ _ hmem]
        rfl

theorem pushed_other (d : Int) : ∀ (path : List (Nat × Edge)) (f : Nat → Int) (k : Nat),
    (∀ q ∈ path, q.2.id ≠ k) → pushed d f path k = f k
  | [], _, _, _ => rfl
  | (x, e) :: rest, f, k, h => by
    simp only [pushed]
    rw [pushed_other d rest _ k (fun q hq => h q (List.mem_cons_of_mem _ hq))]
    have : ¬ k = e.id := fun heq => h (x, e) (List.mem_cons_self ..) heq.symm
    simp [upd, this]

/-- net outflow after pushing `d` along a path from `x` back to `s` -/
theorem excess_pushed (v : View) (hv : FlowView v) (et : List (Nat × Nat)) (s : Nat) (d : Int) :
    ∀ (x : Nat) (path : List (Nat × Edge)), PathTo v et s x path → ∀ (f : Nat → Int) (y : Nat),
      excess v.g (pushed d f path) y =
        excess v.g f y + (if y = s then d else 0) - (if y = x then d else 0) := by
  intro x path hp
  induction hp with
  | nil _ => intro f y; simp [pushed]
  | @cons x p e rest h1 h2 h3 _ ih =>
    intro f y
    simp only [pushed]
    rw [ih, excess_upd v.g hv.ids f e (edge?_some h2).1]
    unfold otherEndpoint at h3
    by_cases hx : x = e.src
    · simp only [hx, if_true] at h3 ⊢
      have hp : p = e.tgt := by simpa using h3.symm
      subst hp
      by_cases a1 : e.src = y <;> by_cases a2 : e.tgt = y <;> by_cases a3 : y = s <;>
        simp [a1, a2, a3, eq_comm] <;> omega
    · by_cases hx2 : x = e.tgt
      · subst hx2
        have hne : ¬ e.tgt = e.src := hx
        simp only [hne, if_false, if_true] at h3 ⊢
        have hp : p = e.src := by simpa using h3.symm
        subst hp
        by_cases a1 : e.src = y <;> by_cases a2 : e.tgt = y <;> by_cases a3 : y = s <;>
          simp [a1, a2, a3, eq_comm] <;> omega
      · simp [hx, hx2] at h3

/-! ### capacities after a push -/

theorem edge_eq_of_id {es : List Edge} (hn : (es.map (·.id)).Nodup) {a e : Edge} (ha : a ∈ es) (he : e ∈ es)
    (h : a.id = e.id) : a = e := by
  have h1 := find?_id_of_nodup es hn e he
  have h2 := find?_id_of_nodup es hn a ha
  rw [h] at h2
  rw [h1] at h2
  exact (Option.some.inj h2).symm

theorem cap_pushed (g : MGraph) (hids : (g.edges.map (·.id)).Nodup) (d : Int) (hd : 0 ≤ d) :
    ∀ (path : List (Nat × Edge)) (f : Nat → Int), (∀ a ∈ g.edges, 0 ≤ f a.id ∧ f a.id ≤ a.w) →
      (∀ q ∈ path, q.2 ∈ g.edges) → (path.map (·.2.id)).Nodup → (∀ q ∈ path, d ≤ rcOf f q.2 q.1) →
      ∀ a ∈ g.edges, 0 ≤ pushed d f path a.id ∧ pushed d f path a.id ≤ a.w
  | [], f, hf, _, _, _ => by simpa [pushed] using hf
  | (x, e) :: rest, f, hf, hmem, hnd, hroom => by
    simp only [pushed]
    have he : e ∈ g.edges := hmem (x, e) (List.mem_cons_self ..)
    have hr := hroom (x, e) (List.mem_cons_self ..)
    simp only [List.map_cons, List.nodup_cons, List.mem_map, not_exists, not_and] at hnd
    apply cap_pushed g hids d hd rest
    · intro a ha
      unfold upd
      by_cases hae : a.id = e.id
      · have := edge_eq_of_id hids ha he hae
        subst this
        have hb := hf a ha
        simp only [if_true]
        unfold rcOf at hr
        by_cases hx : x = a.src
        · simp only [hx, if_true] at hr ⊢; omega
        · simp only [hx, if_false] at hr ⊢; omega
      · simp only [hae, if_false]; exact hf a ha
    · intro q hq; exact hmem q (List.mem_cons_of_mem _ hq)
    · exact hnd.2
    · intro q hq
      have hne : ¬ q.2.id = e.id := fun h => hnd.1 q hq h
      have := hroom q (List.mem_cons_of_mem _ hq)
      unfold rcOf upd at *
      simp only [hne, if_false]
      exact this

/-! ### the BFS tree -/

/-- the visit map and `edge_to` built by one BFS: every visited node other than the source has a tree
edge with positive residual capacity to a node visited earlier -/
inductive Tree (v : View) (f : Nat → Int) (s : Nat) (et0 : List (Nat × Nat)) :
    List Nat → List (Nat × Nat) → Prop
  | root : Tree v f s et0 [s] et0
  | grow {vis : List Nat} {et : List (Nat × Nat)} {next p : Nat} {e : Edge} :
      Tree v f s et0 vis et → next ∉ vis → v.edge? e.id = some e → otherEndpoint e next = some p →
      p ∈ vis → 0 < rcOf f e next → Tree v f s et0 (next :: vis) ((next, e.id) :: et)

theorem Tree.source_mem {v : View} {f : Nat → Int} {s : Nat} {et0 vis et} (h : Tree v f s et0 vis et) :
    s ∈ vis := by
  induction h with
  | root => exact List.mem_cons_self ..
  | grow _ _ _ _ _ _ ih => exact List.mem_cons_of_mem _ ih

theorem Tree.nodup {v : View} {f : Nat → Int} {s : Nat} {et0 vis et} (h : Tree v f s et0 vis et) :
    vis.Nodup := by
  induction h with
  | root => simp
  | grow _ hn _ _ _ _ ih => exact List.nodup_cons.mpr ⟨hn, ih⟩

theorem Tree.lookup_source {v : View} {f : Nat → Int} {s : Nat} {et0 vis et} (h : Tree v f s et0 vis et)
    (h0 : et0.lookup s = none) : et.lookup s = none := by
  induction h with
  | root => exact h0
  | @grow vis et next p e ht hn _ _ _ _ ih =>
    have : s ≠ next := fun heq => hn (heq ▸ ht.source_mem)
    have hb : (s == next) = false := by simpa using this
    simp [List.lookup_cons, hb, ih]

theorem pathTo_mono {v : View} {et : List (Nat × Nat)} {s x : Nat} {path : List (Nat × Edge)}
    (h : PathTo v et s x path) (next eid : Nat) (hs : s ≠ next) (hp : ∀ q ∈ path, q.1 ≠ next) :
    PathTo v ((next, eid) :: et) s x path := by
  induction h with
  | nil h0 =>
    have hb : (s == next) = false := by simpa using hs
    exact PathTo.nil (by simp [List.lookup_cons, hb, h0])
  | @cons x p e rest h1 h2 h3 _ ih =>
    have hx : x ≠ next := hp (x, e) (List.mem_cons_self ..)
    have hb : (x == next) = false := by simpa using hx
    exact PathTo.cons (by simp [List.lookup_cons, hb, h1]) h2 h3
      (ih (fun q hq => hp q (List.mem_cons_of_mem _ hq)))

/-- what the walk back from a visited node looks like -/
structure GoodPath (v : View) (f : Nat → Int) (vis : List Nat) (path : List (Nat × Edge)) : Prop where
  room : ∀ q ∈ path, 0 < rcOf f q.2 q.1
  inside : ∀ q ∈ path, q.1 ∈ vis ∧ q.2.src ∈ vis ∧ q.2.tgt ∈ vis
  isEdge : ∀ q ∈ path, v.edge? q.2.id = some q.2
  distinct : (path.map (·.2.id)).Nodup
  short : path.length < vis.length

theorem other_endpoints {e : Edge} {x p : Nat} (h : otherEndpoint e x = some p) :
    (e.src = x ∧ e.tgt = p) ∨ (e.tgt = x ∧ e.src = p) := by
  unfold otherEndpoint at h
  by_cases h1 : x = e.src
  · simp only [h1, if_true, Option.some.injEq] at h; exact Or.inl ⟨h1.symm, h⟩
  · by_cases h2 : x = e.tgt
    · subst h2
      have hne : ¬ e.tgt = e.src := h1
      simp only [hne, if_false, if_true, Option.some.injEq] at h; exact Or.inr ⟨rfl, h⟩
    · simp [h1, h2] at h

theorem Tree.path {v : View} {f : Nat → Int} {s : Nat} {et0 vis et} (h : Tree v f s et0 vis et)
    (h0 : et0.lookup s = none) : ∀ x ∈ vis, ∃ path, PathTo v et s x path ∧ GoodPath v f vis path := by
  induction h with
  | root =>
    intro x hx
    have : x = s := by simpa using hx
    subst this
    exact ⟨[], PathTo.nil h0, ⟨by simp, by simp, by simp, by simp, by simp⟩⟩
  | @grow vis et next p e ht hn hedge hother hp hroom ih =>
    have hsn : s ≠ next := fun heq => hn (heq ▸ ht.source_mem)
    have lift : ∀ y ∈ vis, ∃ path, PathTo v ((next, e.id) :: et) s y path ∧ GoodPath v f (next :: vis) path := by
      intro y hy
      obtain ⟨path, hpt, hg⟩ := ih y hy
      refine ⟨path, pathTo_mono hpt next e.id hsn (fun q hq heq => hn (heq ▸ (hg.inside q hq).1)), ?_⟩
      exact ⟨hg.room, fun q hq => ⟨List.mem_cons_of_mem _ (hg.inside q hq).1,
        List.mem_cons_of_mem _ (hg.inside q hq).2.1, List.mem_cons_of_mem _ (hg.inside q hq).2.2⟩,
        hg.isEdge, hg.distinct, by have := hg.short; simp; omega⟩
    intro x hx
    cases List.mem_cons.mp hx with
    | inr hxv => exact lift x hxv
    | inl hxn =>
      subst hxn
      obtain ⟨path, hpt, hg⟩ := ih p hp
      have hpt' := pathTo_mono hpt x e.id hsn (fun q hq heq => hn (heq ▸ (hg.inside q hq).1))
      refine ⟨(x, e) :: path, PathTo.cons (by simp) hedge hother hpt', ?_⟩
      have hends := other_endpoints hother
      refine ⟨?_, ?_, ?_, ?_, ?_⟩
      · intro q hq
        cases List.mem_cons.mp hq with
        | inl h => subst h; exact hroom
        | inr h => exact hg.room q h
      · intro q hq
        cases List.mem_cons.mp hq with
        | inl h =>
          subst h
          rcases hends with ⟨h1, h2⟩ | ⟨h1, h2⟩
          · exact ⟨List.mem_cons_self .., by simp [h1], by simp [h2, hp]⟩
          · exact ⟨List.mem_cons_self .., by simp [h2, hp], by simp [h1]⟩
        | inr h => exact ⟨List.mem_cons_of_mem _ (hg.inside q h).1,
            List.mem_cons_of_mem _ (hg.inside q h).2.1, List.mem_cons_of_mem _ (hg.inside q h).2.2⟩
      · intro q hq
        cases List.mem_cons.mp hq with
        | inl h => subst h; exact hedge
        | inr h => exact hg.isEdge q h
      · simp only [List.map_cons, List.nodup_cons, List.mem_map, not_exists, not_and]
        refine ⟨?_, hg.distinct⟩
        intro q hq heq
        -- the same id names the same edge, whose endpoints are old nodes; but `x` is new
        have h1 := hg.isEdge q hq
        rw [heq, hedge] at h1
        have : e = q.2 := Option.some.inj h1
        have hin := hg.inside q hq
        rw [← this] at hin
        rcases hends with ⟨h2, _⟩ | ⟨h2, _⟩
        · exact hn (h2 ▸ hin.2.1)
        · exact hn (h2 ▸ hin.2.2)
      · have := hg.short; simp; omega

theorem Tree.sub {v : View} {f : Nat → Int} {s : Nat} {et0 vis et} (h : Tree v f s et0 vis et)
    (hwf : ∀ e ∈ v.g.edges, e.src ∈ v.g.nodes ∧ e.tgt ∈ v.g.nodes) : ∀ x ∈ vis, x ∈ s :: v.g.nodes := by
  induction h with
  | root => intro x hx; simp at hx; simp [hx]
  | @grow vis et next p e _ _ hedge hother _ _ ih =>
    intro x hx
    cases List.mem_cons.mp hx with
    | inr h => exact ih x h
    | inl h =>
      subst h
      have he := (edge?_some hedge).1
      rcases other_endpoints hother with ⟨h1, _⟩ | ⟨h1, _⟩
      · exact List.mem_cons_of_mem _ (h1 ▸ (hwf e he).1)
      · exact List.mem_cons_of_mem _ (h1 ▸ (hwf e he).2)

theorem Tree.length_le {v : View} {f : Nat → Int} {s : Nat} {et0 vis et} (h : Tree v f s et0 vis et)
    (hwf : ∀ e ∈ v.g.edges, e.src ∈ v.g.nodes ∧ e.tgt ∈ v.g.nodes) : vis.length ≤ v.g.nodes.length + 1 := by
  have := List.Nodup.length_le_of_subset h.nodup (fun x hx => h.sub hwf x hx)
  simpa using this

/-! ### one BFS (`has_augmented_path`) -/

/-- the residual arc of row entry `q` at `vertex` (if any) leads into `vis` -/
def Proc (v : View) (f : Nat → Int) (vertex : Nat) (vis : List Nat) (q : Nat × Nat) : Prop :=
  ∀ e, v.edge? q.2 = some e → ∀ nxt, otherEndpoint e vertex = some nxt → 0 < rcOf f e nxt → nxt ∈ vis

/-- all residual arcs out of `x` lead into `vis` -/
def Scanned (v : View) (f : Nat → Int) (vis : List Nat) (x : Nat) : Prop :=
  ∀ q ∈ v.outOf x ++ v.innOf x, Proc v f x vis q

theorem Proc.mono {v : View} {f : Nat → Int} {vertex : Nat} {vis vis' : List Nat} {q : Nat × Nat}
    (h : Proc v f vertex vis q) (hsub : ∀ x ∈ vis, x ∈ vis') : Proc v f vertex vis' q :=
  fun e he nxt hn hr => hsub _ (h e he nxt hn hr)

theorem Scanned.mono {v : View} {f : Nat → Int} {vis vis' : List Nat} {x : Nat}
    (h : Scanned v f vis x) (hsub : ∀ x ∈ vis, x ∈ vis') : Scanned v f vis' x :=
  fun q hq => (h q hq).mono hsub

structure BInv (v : View) (f : Nat → Int) (s : Nat) (et0 : List (Nat × Nat)) (dst : Nat) (b : Bfs) : Prop where
  tree : Tree v f s et0 b.visited b.edgeTo
  qsub : ∀ x ∈ b.queue, x ∈ b.visited
  nofault : b.fault = false
  dstFound : b.found = true → dst ∈ b.visited
  dstNot : b.found = false → dst ∉ b.visited

theorem residualCap_endpoint {e : Edge} {x : Nat} (h : x = e.src ∨ x = e.tgt) (f : Nat → Int) :
    residualCap e x (f e.id) = some (rcOf f e x) := by
  unfold residualCap rcOf
  rcases h with h1 | h1
  · simp [h1]
  · by_cases h2 : x = e.src
    · simp [h2]
    · subst h1; simp [h2]

theorem scanEdges_spec (v : View) (hv : FlowView v) (fl : Flows) (s dst vertex : Nat) (et0 : List (Nat × Nat)) :
    ∀ (rest done : List (Nat × Nat)) (b : Bfs), done ++ rest = v.outOf vertex ++ v.innOf vertex →
      BInv v (getFlow fl) s et0 dst b → vertex ∈ b.visited → b.found = false →
      (∀ x ∈ b.visited, x ∈ b.queue ∨ x = vertex ∨ Scanned v (getFlow fl) b.visited x) →
      (∀ q ∈ done, Proc v (getFlow fl) vertex b.visited q) →
      BInv v (getFlow fl) s et0 dst (scanEdges v fl dst vertex rest b) ∧
      ((scanEdges v fl dst vertex rest b).found = false →
        (∀ x ∈ (scanEdges v fl dst vertex rest b).visited,
          x ∈ (scanEdges v fl dst vertex rest b).queue ∨
          Scanned v (getFlow fl) (scanEdges v fl dst vertex rest b).visited x) ∧
        (scanEdges v fl dst vertex rest b).visited.length + b.queue.length =
          b.visited.length + (scanEdges v fl dst vertex rest b).queue.length) := by
  intro rest
  induction rest with
  | nil =>
    intro done b hrow hb hvis _ hsc hdone
    simp only [scanEdges]
    refine ⟨hb, fun _ => ⟨?_, by simp⟩⟩
    intro x hx
    rcases hsc x hx with h | h | h
    · exact Or.inl h
    · subst h
      right
      intro q hq
      rw [← hrow] at hq
      simp only [List.append_nil] at hq
      exact hdone q hq
    · exact Or.inr h
  | cons q0 rest ih =>
    obtain ⟨o, eid⟩ := q0
    intro done b hrow hb hvis hnf hsc hdone
    have hq0 : (o, eid) ∈ v.outOf vertex ++ v.innOf vertex := by
      rw [← hrow]; exact List.mem_append.mpr (Or.inr (List.mem_cons_self ..))
    obtain ⟨e, he, hid, hinc⟩ := hv.rows vertex o eid hq0
    subst hid
    have hedge : v.edge? e.id = some e := edge?_of_mem hv he
    -- the other endpoint
    obtain ⟨next, hother⟩ : ∃ next, otherEndpoint e vertex = some next := by
      unfold otherEndpoint
      rcases hinc with h | h
      · exact ⟨e.tgt, by simp [h]⟩
      · by_cases h1 : vertex = e.src
        · exact ⟨e.tgt, by simp [h1]⟩
        · exact ⟨e.src, by simp [h1, h]⟩
    have hends := other_endpoints hother
    have hnext : next = e.src ∨ next = e.tgt := by
      rcases hends with ⟨_, h2⟩ | ⟨_, h2⟩
      · exact Or.inr h2.symm
      · exact Or.inl h2.symm
    have hrc := residualCap_endpoint hnext (getFlow fl)
    have hrow' : (done ++ [(o, e.id)]) ++ rest = v.outOf vertex ++ v.innOf vertex := by
      rw [← hrow]; simp
    simp only [scanEdges, hedge, hother, hrc]
    split
    · rename_i hcond
      simp only [Bool.and_eq_true, Bool.not_eq_true', decide_eq_true_eq] at hcond
      have hnv : next ∉ b.visited := by
        have := hcond.1
        simpa using this
      have hpos : 0 < rcOf (getFlow fl) e next := hcond.2
      have hne : next ≠ vertex := fun h => hnv (h ▸ hvis)
      have hback : otherEndpoint e next = some vertex := by
        unfold otherEndpoint
        rcases hends with ⟨h1, h2⟩ | ⟨h1, h2⟩
        · have : ¬ next = e.src := fun h => hne (h.trans h1)
          simp [h2, h1]
        · simp [h2, h1]
      have htree := Tree.grow hb.tree hnv hedge hback hvis hpos
      split
      · rename_i hd
        refine ⟨⟨htree, fun x hx => List.mem_cons_of_mem _ (hb.qsub x hx), hb.nofault,
          fun _ => (hd ▸ List.mem_cons_self), fun h => (by simp at h)⟩, fun h => (by simp at h)⟩
      · rename_i hd
        have hb2 : BInv v (getFlow fl) s et0 dst
            { queue := b.queue ++ [next], visited := next :: b.visited, edgeTo := (next, e.id) :: b.edgeTo,
              found := b.found, fault := b.fault } := by
          refine ⟨htree, ?_, hb.nofault, fun h => (by rw [hnf] at h; cases h), ?_⟩
          · intro x hx
            cases List.mem_append.mp hx with
            | inl h => exact List.mem_cons_of_mem _ (hb.qsub x h)
            | inr h => simp at h; subst h; exact List.mem_cons_self ..
          · intro _ hmem
            cases List.mem_cons.mp hmem with
            | inl h => exact hd h
            | inr h => exact hb.dstNot hnf h
        have hres := ih (done ++ [(o, e.id)])
          { queue := b.queue ++ [next], visited := next :: b.visited, edgeTo := (next, e.id) :: b.edgeTo,
            found := b.found, fault := b.fault } hrow' hb2 (List.mem_cons_of_mem _ hvis) hnf
          (by
            intro x hx
            cases List.mem_cons.mp hx with
            | inl h => subst h; exact Or.inl (List.mem_append.mpr (Or.inr (List.mem_cons_self ..)))
            | inr h =>
              rcases hsc x h with h' | h' | h'
              · exact Or.inl (List.mem_append.mpr (Or.inl h'))
              · exact Or.inr (Or.inl h')
              · exact Or.inr (Or.inr (h'.mono (fun y hy => List.mem_cons_of_mem _ hy))))
          (by
            intro q hq
            cases List.mem_append.mp hq with
            | inl h => exact (hdone q h).mono (fun y hy => List.mem_cons_of_mem _ hy)
            | inr h =>
              simp at h; subst h
              intro e' he' nxt hn _
              simp only at he'
              rw [hedge] at he'
              have : e = e' := Option.some.inj he'
              subst this
              rw [hother] at hn
              have : next = nxt := Option.some.inj hn
              subst this
              exact List.mem_cons_self ..)
        refine ⟨hres.1, fun hf => ?_⟩
        obtain ⟨r1, r2⟩ := hres.2 hf
        refine ⟨r1, ?_⟩
        simp only [List.length_cons, List.length_append, List.length_nil] at r2
        omega
    · rename_i hcond
      have himp : 0 < rcOf (getFlow fl) e next → next ∈ b.visited := by
        intro hpos
        simp only [Bool.and_eq_true, Bool.not_eq_true', decide_eq_true_eq, not_and] at hcond
        by_cases hc : b.visited.contains next = true
        · simpa using hc
        · have : b.visited.contains next = false := by simpa using hc
          exact absurd hpos (hcond this)
      exact ih (done ++ [(o, e.id)]) b hrow' hb hvis hnf hsc
        (by
          intro q hq
          cases List.mem_append.mp hq with
          | inl h => exact hdone q h
          | inr h =>
            simp at h; subst h
            intro e' he' nxt hn hpos
            simp only at he'
            rw [hedge] at he'
            have : e = e' := Option.some.inj he'
            subst this
            rw [hother] at hn
            have : next = nxt := Option.some.inj hn
            subst this
            exact himp hpos)

theorem bfsLoop_spec (v : View) (hv : FlowView v) (fl : Flows) (s dst : Nat) (et0 : List (Nat × Nat))
    (B : Nat) (hB : ∀ vis et, Tree v (getFlow fl) s et0 vis et → vis.length ≤ B) :
    ∀ (fuel : Nat) (b : Bfs), BInv v (getFlow fl) s et0 dst b → b.found = false →
      (∀ x ∈ b.visited, x ∈ b.queue ∨ Scanned v (getFlow fl) b.visited x) →
      B + 1 + b.queue.length ≤ fuel + b.visited.length →
      BInv v (getFlow fl) s et0 dst (bfsLoop v fl dst fuel b) ∧
      ((bfsLoop v fl dst fuel b).found = false →
        ∀ x ∈ (bfsLoop v fl dst fuel b).visited, Scanned v (getFlow fl) (bfsLoop v fl dst fuel b).visited x) := by
  intro fuel
  induction fuel with
  | zero =>
    intro b hb _ _ hfuel
    have := hB _ _ hb.tree
    omega
  | succ f ih =>
    intro b hb hnf hsc hfuel
    simp only [bfsLoop]
    cases hq : b.queue with
    | nil =>
      simp only
      refine ⟨hb, fun _ x hx => ?_⟩
      rcases hsc x hx with h | h
      · rw [hq] at h; cases h
      · exact h
    | cons vertex q =>
      simp only
      have hvis : vertex ∈ b.visited := hb.qsub vertex (by rw [hq]; exact List.mem_cons_self ..)
      have hb0 : BInv v (getFlow fl) s et0 dst { b with queue := q } :=
        ⟨hb.tree, fun x hx => hb.qsub x (by rw [hq]; exact List.mem_cons_of_mem _ hx), hb.nofault,
          hb.dstFound, hb.dstNot⟩
      have hres := scanEdges_spec v hv fl s dst vertex et0 (v.outOf vertex ++ v.innOf vertex) []
        { b with queue := q } (by simp) hb0 hvis hnf
        (by
          intro x hx
          rcases hsc x hx with h | h
          · rw [hq] at h
            cases List.mem_cons.mp h with
            | inl h' => exact Or.inr (Or.inl h')
            | inr h' => exact Or.inl h'
          · exact Or.inr (Or.inr h))
        (by simp)
      split
      · rename_i hstop
        refine ⟨hres.1, fun hf => ?_⟩
        rw [hres.1.nofault, hf] at hstop
        simp at hstop
      · rename_i hstop
        have hf' : (scanEdges v fl dst vertex (v.outOf vertex ++ v.innOf vertex) { b with queue := q }).found = false := by
          simp only [Bool.or_eq_true, not_or] at hstop
          simpa using hstop.1
        obtain ⟨r1, r2⟩ := hres.2 hf'
        apply ih _ hres.1 hf' r1
        simp only at r2
        rw [hq] at hfuel
        simp only [List.length_cons] at hfuel
        omega

/-! ### the bottleneck -/

theorem pathMin_some (f : Nat → Int) : ∀ (path : List (Nat × Edge)) (a : Int),
    ∃ d, pathMin f (some a) path = some d ∧ d ≤ a ∧ (∀ q ∈ path, d ≤ rcOf f q.2 q.1) ∧
      (d = a ∨ ∃ q ∈ path, d = rcOf f q.2 q.1)
  | [], a => ⟨a, rfl, Int.le_refl _, by simp, Or.inl rfl⟩
  | (x, e) :: rest, a => by
    simp only [pathMin, minOpt]
    by_cases h : a > rcOf f e x
    · simp only [h, if_true]
      obtain ⟨d, h1, h2, h3, h4⟩ := pathMin_some f rest (rcOf f e x)
      refine ⟨d, h1, by omega, ?_, ?_⟩
      · intro q hq
        cases List.mem_cons.mp hq with
        | inl hh => subst hh; exact h2
        | inr hh => exact h3 q hh
      · rcases h4 with h4 | ⟨q, hq, h4⟩
        · exact Or.inr ⟨(x, e), List.mem_cons_self .., h4⟩
        · exact Or.inr ⟨q, List.mem_cons_of_mem _ hq, h4⟩
    · simp only [h, if_false]
      obtain ⟨d, h1, h2, h3, h4⟩ := pathMin_some f rest a
      refine ⟨d, h1, h2, ?_, ?_⟩
      · intro q hq
        cases List.mem_cons.mp hq with
        | inl hh => subst hh; simp only; omega
        | inr hh => exact h3 q hh
      · rcases h4 with h4 | ⟨q, hq, h4⟩
        · exact Or.inl h4
        · exact Or.inr ⟨q, List.mem_cons_of_mem _ hq, h4⟩

/-- the bottleneck of a non-empty path with positive residual capacities: positive and within every
residual capacity of the path -/
theorem pathMin_none (f : Nat → Int) (path : List (Nat × Edge)) (hne : path ≠ [])
    (hpos : ∀ q ∈ path, 0 < rcOf f q.2 q.1) :
    ∃ d, pathMin f none path = some d ∧ 0 < d ∧ ∀ q ∈ path, d ≤ rcOf f q.2 q.1 := by
  cases path with
  | nil => exact absurd rfl hne
  | cons q rest =>
    obtain ⟨x, e⟩ := q
    simp only [pathMin, minOpt]
    obtain ⟨d, h1, h2, h3, h4⟩ := pathMin_some f rest (rcOf f e x)
    refine ⟨d, h1, ?_, ?_⟩
    · rcases h4 with h4 | ⟨q, hq, h4⟩
      · rw [h4]; exact hpos (x, e) (List.mem_cons_self ..)
      · rw [h4]; exact hpos q (List.mem_cons_of_mem _ hq)
    · intro q hq
      cases List.mem_cons.mp hq with
      | inl hh => subst hh; exact h2
      | inr hh => exact h3 q hh

/-! ### the main loop -/

def totalCap (g : MGraph) : Int := esum (fun e => e.w) g.edges

theorem foldl_cap (es : List Edge) (hw : ∀ e ∈ es, 0 ≤ e.w) : ∀ k : Nat,
    ((es.foldl (fun acc e => acc + e.w.toNat) k : Nat) : Int) = k + esum (fun e => e.w) es := by
  induction es with
  | nil => intro k; simp [esum]
  | cons e es ih =>
    intro k
    simp only [List.foldl_cons, esum]
    rw [ih (fun a ha => hw a (List.mem_cons_of_mem _ ha))]
    have := hw e (List.mem_cons_self ..)
    have h2 : ((e.w.toNat : Nat) : Int) = e.w := Int.toNat_of_nonneg this
    simp only [Int.natCast_add, h2]
    omega

theorem ffFuel_eq (v : View) (hw : ∀ e ∈ v.g.edges, 0 ≤ e.w) : ((ffFuel v : Nat) : Int) = totalCap v.g + 2 := by
  unfold ffFuel totalCap
  have := foldl_cap v.g.edges hw 0
  simp only [Int.natCast_add, this]
  simp

theorem value_le_total (g : MGraph) (s t : Nat) (hne : s ≠ t) (hw : ∀ e ∈ g.edges, 0 ≤ e.w)
    (f : Nat → Int) (hf : Feasible g s t f) : excess g f s ≤ totalCap g := by
  have h1 := value_le_cut g s t f [s] hf (by simp) (by simp) (by simpa using fun h => hne h.symm)
  have h2 : cutCap g [s] ≤ totalCap g := by
    unfold cutCap totalCap
    apply esum_le
    intro e he
    have := hw e he
    split <;> omega
  omega

structure FInv (v : View) (src dst : Nat) (st : FF) : Prop where
  keys : Keys v st.flows
  feas : Feasible v.g src dst (getFlow st.flows)
  value : st.maxFlow = excess v.g (getFlow st.flows) src
  etSrc : st.edgeTo.lookup src = none
  nofault : st.fault = false

/-- the result of the model: a feasible flow, its value, and a cut of the same capacity -/
structure MaxCert (v : View) (src dst : Nat) (st : FF) : Prop where
  inv : FInv v src dst st
  cut : ∃ S : List Nat, S.Nodup ∧ IsCut src dst S ∧ cutCap v.g S = st.maxFlow

theorem scanned_closed (v : View) (hv : FlowView v) (f : Nat → Int) (vis : List Nat)
    (hsc : ∀ x ∈ vis, Scanned v f vis x) (e : Edge) (he : e ∈ v.g.edges) :
    (e.src ∈ vis → f e.id < e.w → e.tgt ∈ vis) ∧ (e.tgt ∈ vis → 0 < f e.id → e.src ∈ vis) := by
  have hedge := edge?_of_mem hv he
  obtain ⟨⟨o1, h1⟩, ⟨o2, h2⟩⟩ := hv.complete e he
  constructor
  · intro hs hlt
    by_cases hloop : e.tgt = e.src
    · rw [hloop]; exact hs
    · have := hsc e.src hs (o1, e.id) h1 e hedge e.tgt (by simp [otherEndpoint])
      apply this
      simp only [rcOf, hloop, if_false]; omega
  · intro ht hpos
    by_cases hloop : e.tgt = e.src
    · rw [← hloop]; exact ht
    · have := hsc e.tgt ht (o2, e.id) h2 e hedge e.src (by simp [otherEndpoint, hloop])
      apply this
      simp only [rcOf, if_true]; exact hpos

theorem ffLoop_spec (v : View) (hv : FlowView v)
    (hwf : ∀ e ∈ v.g.edges, e.src ∈ v.g.nodes ∧ e.tgt ∈ v.g.nodes) (hw : ∀ e ∈ v.g.edges, 0 ≤ e.w)
    (src dst : Nat) (hne : src ≠ dst) :
    ∀ (fuel : Nat) (st : FF), FInv v src dst st → totalCap v.g + 2 ≤ (fuel : Int) + st.maxFlow →
      MaxCert v src dst (ffLoop v src dst fuel st) := by
  intro fuel
  induction fuel with
  | zero =>
    intro st hst hfuel
    have := value_le_total v.g src dst hne hw _ hst.feas
    rw [← hst.value] at this
    simp at hfuel
    omega
  | succ fu ih =>
    intro st hst hfuel
    simp only [ffLoop]
    -- the BFS
    have hb0 : BInv v (getFlow st.flows) src st.edgeTo dst
        { queue := [src], visited := [src], edgeTo := st.edgeTo } :=
      ⟨Tree.root, by simp, rfl, fun h => (by cases h), fun _ => (by simpa using fun h => hne h.symm)⟩
    have hbfs := bfsLoop_spec v hv st.flows src dst st.edgeTo (v.g.nodes.length + 1)
      (fun vis et ht => ht.length_le hwf) (v.g.nodes.length + 2)
      { queue := [src], visited := [src], edgeTo := st.edgeTo } hb0 rfl
      (by intro x hx; exact Or.inl hx) (by simp)
    generalize bfsLoop v st.flows dst (v.g.nodes.length + 2)
      { queue := [src], visited := [src], edgeTo := st.edgeTo } = b at hbfs
    obtain ⟨hb, hclosed⟩ := hbfs
    have hetsrc := hb.tree.lookup_source hst.etSrc
    simp only [hb.nofault, Bool.false_eq_true, if_false]
    split
    · -- no augmenting path: the visited set is a saturated cut
      rename_i hnf
      have hnf' : b.found = false := by simpa using hnf
      refine ⟨⟨hst.keys, hst.feas, hst.value, hetsrc, hst.nofault⟩, b.visited, hb.tree.nodup,
        ⟨hb.tree.source_mem, hb.dstNot hnf'⟩, ?_⟩
      have hsc := hclosed hnf'
      show cutCap v.g b.visited = st.maxFlow
      rw [hst.value]
      symm
      apply value_eq_cut v.g src dst _ b.visited hst.feas hb.tree.nodup hb.tree.source_mem (hb.dstNot hnf')
      · intro e he h1 h2
        have := (scanned_closed v hv _ b.visited hsc e he).1 h1
        have hc := hst.feas.cap e he
        by_cases hlt : getFlow st.flows e.id < e.w
        · exact absurd (this hlt) h2
        · omega
      · intro e he h1 h2
        have := (scanned_closed v hv _ b.visited hsc e he).2 h1
        have hc := hst.feas.cap e he
        by_cases hlt : 0 < getFlow st.flows e.id
        · exact absurd (this hlt) h2
        · omega
    · -- an augmenting path
      rename_i hfound
      have hfound' : b.found = true := by simpa using hfound
      obtain ⟨path, hpt, hg⟩ := hb.tree.path hst.etSrc dst (hb.dstFound hfound')
      have hlen : path.length < v.g.nodes.length + 2 := by
        have := hb.tree.length_le hwf
        have := hg.short
        omega
      have hpne : path ≠ [] := by
        intro h
        subst h
        cases hpt
        exact hne rfl
      obtain ⟨d, hd1, hd2, hd3⟩ := pathMin_none (getFlow st.flows) path hpne hg.room
      have hbn := bottleneck_spec v st.flows b.edgeTo src dst path hpt (v.g.nodes.length + 2) none hlen
      rw [hd1] at hbn
      obtain ⟨fl', hpp, hk', hgf⟩ := pushPath_spec v b.edgeTo src d dst path hpt (v.g.nodes.length + 2)
        st.flows hst.keys hlen
      simp only [hbn, hpp]
      apply ih
      · refine ⟨hk', ⟨?_, ?_⟩, ?_, hetsrc, rfl⟩
        · rw [hgf]
          exact cap_pushed v.g hv.ids d (by omega) path _ hst.feas.cap
            (fun q hq => (edge?_some (hg.isEdge q hq)).1) hg.distinct hd3
        · intro x hx1 hx2
          have h1 := excess_pushed v hv b.edgeTo src d dst path hpt (getFlow st.flows) x
          have h2 := hst.feas.cons x hx1 hx2
          rw [hgf]
          unfold excess at h1
          simp only [hx1, hx2, if_false] at h1
          omega
        · show st.maxFlow + d = excess v.g (getFlow fl') src
          have h1 := excess_pushed v hv b.edgeTo src d dst path hpt (getFlow st.flows) src
          rw [hgf, h1, hst.value]
          simp [hne]
      · show totalCap v.g + 2 ≤ (fu : Int) + (st.maxFlow + d)
        simp only [Int.natCast_add, Int.natCast_one] at hfuel
        omega

theorem getFlow_zero (es : List Edge) (j : Nat) : getFlow (es.map fun e => (e.id, (0 : Int))) j = 0 := by
  unfold getFlow
  induction es with
  | nil => simp
  | cons e es ih =>
    simp only [List.map_cons, List.lookup_cons]
    by_cases h : j = e.id
    · simp [h]
    · have : (j == e.id) = false := by simpa using h
      simp only [this]; exact ih

/-- **the Edmonds–Karp model is correct**: it never faults, runs within its fuel, returns a feasible
flow, the value is the net flow out of the source, and that value is the capacity of a cut -/
theorem fordFulkerson_spec (v : View) (hv : FlowView v)
    (hwf : ∀ e ∈ v.g.edges, e.src ∈ v.g.nodes ∧ e.tgt ∈ v.g.nodes) (hw : ∀ e ∈ v.g.edges, 0 ≤ e.w)
    (src dst : Nat) (hne : src ≠ dst) : MaxCert v src dst (fordFulkerson v src dst) := by
  unfold fordFulkerson
  apply ffLoop_spec v hv hwf hw src dst hne
  · have hz : getFlow (v.g.edges.map fun e => (e.id, (0 : Int))) = fun _ => 0 := by
      funext j; exact getFlow_zero _ j
    refine ⟨by simp [Keys, List.map_map, Function.comp_def], ⟨?_, ?_⟩, ?_, rfl, rfl⟩
    · intro e he; rw [hz]; exact ⟨Int.le_refl _, hw e he⟩
    · intro x _ _
      rw [hz]
      unfold inflow outflow
      rw [esum_congr (ψ := fun _ => 0) (fun e _ => by simp), esum_congr (φ := fun e => if e.src = x then (0 : Int) else 0) (ψ := fun _ => 0) (fun e _ => by simp)]
    · show (0 : Int) = _
      rw [hz]
      unfold excess inflow outflow
      rw [esum_congr (ψ := fun _ => 0) (fun e _ => by simp), esum_congr (φ := fun e => if e.tgt = src then (0 : Int) else 0) (ψ := fun _ => 0) (fun e _ => by simp)]
      simp
  · rw [ffFuel_eq v hw]
    simp

/-! ### the driver's executable check establishes `FlowView` -/

theorem mem_row_of_mem_of {l : List (Nat × List (Nat × Nat))} {x : Nat} {q : Nat × Nat}
    (h : q ∈ (l.lookup x).getD []) : ∃ row, (x, row) ∈ l ∧ q ∈ row := by
  cases hl : l.lookup x with
  | none => simp [hl] at h
  | some row =>
    simp only [hl, Option.getD_some] at h
    exact ⟨row, mem_of_lookup l x row hl, h⟩

theorem flowViewB_sound (v : View) (h : flowViewB v = true) : FlowView v := by
  unfold flowViewB at h
  simp only [Bool.and_eq_true, List.all_eq_true, List.any_eq_true, beq_iff_eq, Bool.or_eq_true,
    List.mem_append] at h
  obtain ⟨⟨h1, h2⟩, h3⟩ := h
  refine ⟨nodupB_nodup _ h1, ?_, ?_⟩
  · intro x o eid hmem
    have : ∃ row, ((x, row) ∈ v.out ∨ (x, row) ∈ v.inn) ∧ (o, eid) ∈ row := by
      cases List.mem_append.mp hmem with
      | inl hh =>
        obtain ⟨row, hr, hq⟩ := mem_row_of_mem_of (l := v.out) hh
        exact ⟨row, Or.inl hr, hq⟩
      | inr hh =>
        obtain ⟨row, hr, hq⟩ := mem_row_of_mem_of (l := v.inn) hh
        exact ⟨row, Or.inr hr, hq⟩
    obtain ⟨row, hr, hq⟩ := this
    obtain ⟨e, he, hid, hinc⟩ := h2 (x, row) hr (o, eid) hq
    exact ⟨e, he, hid, hinc⟩
  · intro e he
    obtain ⟨⟨p1, hp1, hi1⟩, ⟨p2, hp2, hi2⟩⟩ := h3 e he
    refine ⟨⟨p1.1, ?_⟩, ⟨p2.1, ?_⟩⟩
    · rw [← hi1]; exact List.mem_append.mpr hp1
    · rw [← hi2]; exact List.mem_append.mpr hp2

theorem capsNonnegB_sound (g : MGraph) (h : capsNonnegB g = true) : ∀ e ∈ g.edges, 0 ≤ e.w := by
  unfold capsNonnegB at h
  simpa using h

end PetgraphModel.C15P
