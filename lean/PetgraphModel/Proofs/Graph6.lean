import PetgraphModel.Model.Graph6
import PetgraphModel.Spec.Graph6
import Mathlib.Tactic.Ring
/-
Lemmas behind the graph6 theorems of `Theorems/C18.lean`: bit/number conversions, groups of six,
the encoder against the format specification, decode ∘ encode, the triangular position of a pair,
the adjacency bitmap of `traits_graph.rs`.
-/
namespace PetgraphModel.G6P
open PetgraphModel.G6

theorem foldl_numberBits (n k acc : Nat) :
    (numberBits n k).foldl (fun acc b => 2 * acc + b.toNat) acc = acc * 2 ^ k + n % 2 ^ k := by
  induction k generalizing acc with
  | zero => simp [numberBits, Nat.mod_one]
  | succ k ih =>
    simp only [numberBits, List.foldl_cons, ih]
    rw [Nat.mod_pow_succ, Nat.toNat_testBit]
    ring

theorem bitsToNat_numberBits (n k : Nat) : bitsToNat (numberBits n k) = n % 2 ^ k := by
  simp [bitsToNat, foldl_numberBits]

@[simp] theorem numberBits_length (n k : Nat) : (numberBits n k).length = k := by
  induction k with
  | zero => rfl
  | succ k ih => simp [numberBits, ih]

/-- the bits of the upper part followed by the bits of the lower part -/
theorem numberBits_add (n a b : Nat) :
    numberBits n (a + b) = numberBits (n / 2 ^ b) a ++ numberBits n b := by
  induction a with
  | zero => simp [numberBits]
  | succ a ih =>
    rw [show a + 1 + b = (a + b) + 1 by omega]
    simp only [numberBits, ih, List.cons_append, Nat.testBit_div_two_pow]

theorem numberBits_congr (m n k : Nat) (h : m % 2 ^ k = n % 2 ^ k) : numberBits m k = numberBits n k := by
  induction k with
  | zero => rfl
  | succ k ih =>
    have hk : m % 2 ^ k = n % 2 ^ k := by
      have := congrArg (· % 2 ^ k) h
      simpa [Nat.mod_mod_of_dvd, Nat.pow_succ, Nat.dvd_mul_right] using this
    have hb : m.testBit k = n.testBit k := by
      have h1 : (m % 2 ^ (k + 1)).testBit k = m.testBit k := by
        rw [Nat.testBit_mod_two_pow]; simp
      have h2 : (n % 2 ^ (k + 1)).testBit k = n.testBit k := by
        rw [Nat.testBit_mod_two_pow]; simp
      rw [← h1, ← h2, h]
    simp [numberBits, ih hk, hb]

theorem foldl_bits (l : List Bool) (acc : Nat) :
    l.foldl (fun acc b => 2 * acc + b.toNat) acc = acc * 2 ^ l.length + bitsToNat l := by
  induction l generalizing acc with
  | nil => simp [bitsToNat]
  | cons b l ih =>
    simp only [bitsToNat, List.foldl_cons, List.length_cons]
    rw [ih, ih (2 * 0 + b.toNat)]
    simp only [bitsToNat]
    ring

theorem bitsToNat_cons (b : Bool) (l : List Bool) :
    bitsToNat (b :: l) = b.toNat * 2 ^ l.length + bitsToNat l := by
  simp only [bitsToNat, List.foldl_cons]
  rw [foldl_bits]; simp [bitsToNat]

theorem bitsToNat_lt (l : List Bool) : bitsToNat l < 2 ^ l.length := by
  induction l with
  | nil => simp [bitsToNat]
  | cons b l ih =>
    rw [bitsToNat_cons, List.length_cons, Nat.pow_succ]
    cases b <;> simp <;> omega

/-- the decoder's `get_number_as_bits` undoes the encoder's `from_str_radix` -/
theorem numberBits_bitsToNat (l : List Bool) : numberBits (bitsToNat l) l.length = l := by
  induction l with
  | nil => rfl
  | cons b l ih =>
    have hlt := bitsToNat_lt l
    simp only [List.length_cons, numberBits]
    congr 1
    · rw [bitsToNat_cons, Nat.mul_comm]
      rw [Nat.testBit_two_pow_mul_add _ hlt]
      cases b <;> simp
    · rw [numberBits_congr (bitsToNat (b :: l)) (bitsToNat l) l.length ?_, ih]
      rw [bitsToNat_cons, Nat.add_comm, Nat.add_mul_mod_self_right]
@[simp] theorem chunks6_nil : chunks6 [] = [] := by rw [chunks6]

theorem chunks6_append (a b : List Bool) (ha : a.length = 6) : chunks6 (a ++ b) = a :: chunks6 b := by
  match a, ha with
  | x :: a', ha =>
    rw [List.cons_append, chunks6]
    have h1 : (x :: (a' ++ b)).take 6 = x :: a' := by
      rw [← List.cons_append, List.take_append_of_le_length (by simp [ha])]
      rw [List.take_of_length_le (by simp [ha])]
    have h2 : (x :: (a' ++ b)).drop 6 = b := by
      rw [← List.cons_append, ← ha, List.drop_left]
    rw [h1, h2]

theorem padTo6_append (a b : List Bool) (ha : a.length % 6 = 0) : padTo6 (a ++ b) = a ++ padTo6 b := by
  have : (a.length + b.length) % 6 = b.length % 6 := by omega
  simp only [padTo6, List.length_append, List.append_assoc, this]

theorem padTo6_length (l : List Bool) : (padTo6 l).length % 6 = 0 := by
  simp only [padTo6, List.length_append, List.length_replicate]; omega

theorem padTo6_of_mod (l : List Bool) (h : l.length % 6 = 0) : padTo6 l = l := by
  simp [padTo6, h]

/-- induction in steps of six -/
theorem six_induction {P : List Bool → Prop} (nil : P [])
    (step : ∀ a b, a.length = 6 → b.length % 6 = 0 → P b → P (a ++ b)) :
    ∀ l : List Bool, l.length % 6 = 0 → P l := by
  intro l
  induction h : l.length using Nat.strong_induction_on generalizing l with
  | _ n ih =>
    intro hm
    by_cases h0 : n = 0
    · have : l = [] := List.eq_nil_of_length_eq_zero (h0 ▸ h)
      subst this; exact nil
    · have h6 : 6 ≤ l.length := by omega
      have := step (l.take 6) (l.drop 6) (by simp; omega) (by simp; omega)
        (ih (l.drop 6).length (by simp; omega) (l.drop 6) rfl (by simp; omega))
      rwa [List.take_append_drop] at this

/-- cutting into groups, reading every group as a number and writing the numbers as 6 bits again is the identity -/
theorem bits_of_chunks (l : List Bool) (h : l.length % 6 = 0) :
    bytesToBits ((chunks6 l).map bitsToNat) = l := by
  refine six_induction (P := fun l => bytesToBits ((chunks6 l).map bitsToNat) = l) ?_ ?_ l h
  · simp [bytesToBits]
  · intro a b ha hb ih
    rw [chunks6_append a b ha]
    simp only [bytesToBits, List.map_cons, List.flatMap_cons] at ih ⊢
    rw [ih, ← ha, numberBits_bitsToNat]

theorem chunks6_append_of_mod (a b : List Bool) (ha : a.length % 6 = 0) :
    chunks6 (a ++ b) = chunks6 a ++ chunks6 b := by
  refine six_induction (P := fun a => chunks6 (a ++ b) = chunks6 a ++ chunks6 b) ?_ ?_ a ha
  · simp
  · intro a a' h6 _ ih
    rw [List.append_assoc, chunks6_append _ _ h6, chunks6_append _ _ h6, ih, List.cons_append]

theorem chunks6_length_eq (l : List Bool) (h : l.length % 6 = 0) :
    (chunks6 l).length = l.length / 6 ∧ ∀ c ∈ chunks6 l, c.length = 6 := by
  refine six_induction (P := fun l => (chunks6 l).length = l.length / 6 ∧ ∀ c ∈ chunks6 l, c.length = 6) ?_ ?_ l h
  · simp
  · intro a b ha hb ih
    rw [chunks6_append _ _ ha]
    refine ⟨?_, ?_⟩
    · simp only [List.length_cons, List.length_append, ih.1, ha]; omega
    · intro c hc
      rcases List.mem_cons.1 hc with rfl | hc
      · exact ha
      · exact ih.2 c hc

theorem char_byte : ∀ v, v < 64 → (Char.ofNat (N + v)).toNat = N + v := by decide

theorem charsToBytes_map (vs : List Nat) (h : ∀ v ∈ vs, v < 64) :
    charsToBytes (vs.map fun v => Char.ofNat (N + v)) = some vs := by
  induction vs with
  | nil => rfl
  | cons v vs ih =>
    have hv := char_byte v (h v (by simp))
    simp only [List.map_cons, charsToBytes, hv]
    rw [ih (fun w hw => h w (by simp [hw]))]
    simp

theorem takeEdges_map (ps : List (Nat × Nat)) (f : Nat × Nat → Bool) (extra : List Bool) :
    takeEdges ps (ps.map f ++ extra) = some (ps.filter f) := by
  induction ps with
  | nil => simp [takeEdges]
  | cons p ps ih =>
    simp only [List.map_cons, List.cons_append, takeEdges, ih, Option.map_some, List.filter_cons]

theorem positions_eq (n : Nat) : positions n = Spec.Graph6.pairs n := by
  unfold positions Spec.Graph6.pairs
  cases n with
  | zero => simp
  | succ m =>
    rw [List.range_succ_eq_map, List.flatMap_cons]
    simp [List.range'_eq_map_range, List.flatMap_map, Nat.add_comm]

theorem upperBits_eq (adj : Nat → Nat → Bool) (n : Nat) :
    upperBits adj n = Spec.Graph6.x n adj := by
  unfold upperBits Spec.Graph6.x Spec.Graph6.pairs
  rw [List.map_flatMap]
  congr 1; funext c
  simp [List.range'_eq_map_range, Function.comp_def, Nat.add_comm]

/-- the byte values of the string `encode` produces -/
def vals (bits : List Bool) : List Nat := (chunks6 (padTo6 bits)).map bitsToNat

theorem bitsToAscii_eq (bits : List Bool) :
    bitsToAscii bits = (vals bits).map fun v => Char.ofNat (N + v) := by
  simp [bitsToAscii, vals, List.map_map, Function.comp_def]

theorem vals_lt (bits : List Bool) : ∀ v ∈ vals bits, v < 64 := by
  intro v hv
  simp only [vals, List.mem_map] at hv
  obtain ⟨c, hc, rfl⟩ := hv
  have := (chunks6_length_eq _ (padTo6_length bits)).2 c hc
  have h2 := bitsToNat_lt c
  rw [this] at h2; exact h2

theorem vals_append (hb u : List Bool) (h : hb.length % 6 = 0) :
    vals (hb ++ u) = (chunks6 hb).map bitsToNat ++ vals u := by
  simp only [vals]
  rw [padTo6_append _ _ h, chunks6_append_of_mod _ _ h, List.map_append]

theorem bits_of_vals (u : List Bool) : bytesToBits (vals u) = padTo6 u :=
  bits_of_chunks _ (padTo6_length u)

theorem getEdges_padded (adj : Nat → Nat → Bool) (n : Nat) :
    getEdges n (padTo6 (upperBits adj n)) = some (Spec.Graph6.edges n adj) := by
  rw [getEdges, positions_eq, upperBits_eq, Spec.Graph6.x, padTo6, takeEdges_map]
  rfl

theorem decode_encode (n : Nat) (hn : n ≤ maxOrder) (adj : Nat → Nat → Bool) :
    (encode n adj).bind decode = some (n, Spec.Graph6.edges n adj) := by
  unfold encode orderBits
  by_cases h1 : n < N
  · simp only [h1, if_true, Option.bind_some]
    rw [bitsToAscii_eq, decode, charsToBytes_map _ (vals_lt _)]
    simp only
    rw [vals_append _ _ (by simp)]
    have hc : chunks6 (numberBits n 6) = [numberBits n 6] := by
      have := chunks6_append (numberBits n 6) [] (by simp)
      simpa using this
    have hv : bitsToNat (numberBits n 6) = n := by
      rw [bitsToNat_numberBits]; simp only [N] at h1; omega
    rw [hc]
    simp only [List.map_cons, List.map_nil, List.cons_append, List.nil_append, splitHeader, hv]
    have hne : n ≠ N := by omega
    simp only [hne, if_false]
    have ho : bitsToNat (bytesToBits [n]) = n := by
      simp [bytesToBits, hv]
    rw [ho, bits_of_vals, getEdges_padded]
  · have h2 : n ≤ maxOrder := hn
    simp only [h1, if_false, h2, if_true, Option.bind_some]
    rw [bitsToAscii_eq, decode, charsToBytes_map _ (vals_lt _)]
    simp only
    rw [vals_append _ _ (by simp)]
    have hN : chunks6 (numberBits N 6 ++ numberBits n 18) = numberBits N 6 :: chunks6 (numberBits n 18) :=
      chunks6_append _ _ (by simp)
    have hvN : bitsToNat (numberBits N 6) = N := by decide
    rw [hN]
    simp only [List.map_cons, List.cons_append, splitHeader, hvN, if_true]
    have hlen : ((chunks6 (numberBits n 18)).map bitsToNat).length = 3 := by
      rw [List.length_map, (chunks6_length_eq _ (by simp)).1]; simp
    have hlt : ¬ ((chunks6 (numberBits n 18)).map bitsToNat ++ vals (upperBits adj n)).length < 3 := by
      rw [List.length_append, hlen]; omega
    simp only [hlt, if_false]
    rw [← hlen, List.take_left, List.drop_left, bits_of_chunks _ (by simp), bitsToNat_numberBits]
    have hmod : n % 2 ^ 18 = n := Nat.mod_eq_of_lt (by simp only [maxOrder] at h2; omega)
    rw [hmod, bits_of_vals, getEdges_padded]

open Spec.Graph6 in
theorem bitAt_list (l : List Bool) (k : Nat) : bitAt l.toArray k = (l.getD k false).toNat := by
  simp only [bitAt, Array.getD, List.size_toArray, List.getD_eq_getElem?_getD]
  by_cases h : k < l.length
  · simp [h]; cases l[k] <;> rfl
  · simp [h]

open Spec.Graph6 in
theorem group_append (a u : List Bool) (ha : a.length = 6) (g : Nat) :
    group (a ++ u).toArray (g + 1) = group u.toArray g := by
  simp only [group, bitAt_list]
  have : ∀ t, (a ++ u).getD (6 * (g + 1) + t) false = u.getD (6 * g + t) false := by
    intro t
    simp only [List.getD_eq_getElem?_getD]
    rw [List.getElem?_append_right (by omega)]
    congr 2; omega
  have h0 := this 0
  simp only [Nat.add_zero] at h0
  rw [h0, this 1, this 2, this 3, this 4, this 5]

open Spec.Graph6 in
theorem group_six (b0 b1 b2 b3 b4 b5 : Bool) (u : List Bool) :
    group (b0 :: b1 :: b2 :: b3 :: b4 :: b5 :: u).toArray 0 = bitsToNat [b0, b1, b2, b3, b4, b5] := by
  simp only [group, bitAt_list]
  cases b0 <;> cases b1 <;> cases b2 <;> cases b3 <;> cases b4 <;> cases b5 <;> rfl

open Spec.Graph6 in
theorem vals_short (u : List Bool) (h0 : 0 < u.length) (h6 : u.length < 6) :
    vals u = [group u.toArray 0] := by
  have hp : (padTo6 u).length = 6 := by
    simp only [padTo6, List.length_append, List.length_replicate]; omega
  have hc : chunks6 (padTo6 u) = [padTo6 u] := by
    have := chunks6_append (padTo6 u) [] hp
    simpa using this
  simp only [vals, hc, List.map_cons, List.map_nil, List.cons.injEq, and_true]
  match u, h0, h6 with
  | [b0], _, _ => simp only [group, bitAt_list]; cases b0 <;> rfl
  | [b0, b1], _, _ => simp only [group, bitAt_list]; cases b0 <;> cases b1 <;> rfl
  | [b0, b1, b2], _, _ => simp only [group, bitAt_list]; cases b0 <;> cases b1 <;> cases b2 <;> rfl
  | [b0, b1, b2, b3], _, _ =>
    simp only [group, bitAt_list]; cases b0 <;> cases b1 <;> cases b2 <;> cases b3 <;> rfl
  | [b0, b1, b2, b3, b4], _, _ =>
    simp only [group, bitAt_list]; cases b0 <;> cases b1 <;> cases b2 <;> cases b3 <;> cases b4 <;> rfl

theorem exists_six : ∀ (u : List Bool), 6 ≤ u.length →
    ∃ b0 b1 b2 b3 b4 b5 u', u = b0 :: b1 :: b2 :: b3 :: b4 :: b5 :: u'
  | b0 :: b1 :: b2 :: b3 :: b4 :: b5 :: u', _ => ⟨_, _, _, _, _, _, _, rfl⟩
  | [], h | [_], h | [_, _], h | [_, _, _], h | [_, _, _, _], h | [_, _, _, _, _], h => by simp at h

open Spec.Graph6 in
theorem vals_eq_groups (u : List Bool) :
    vals u = (List.range ((u.length + 5) / 6)).map fun g => group u.toArray g := by
  induction hlen : u.length using Nat.strong_induction_on generalizing u with
  | _ n ih =>
    by_cases h0 : n = 0
    · subst h0
      have : u = [] := List.eq_nil_of_length_eq_zero hlen
      subst this; simp [vals, padTo6]
    · by_cases h6 : n < 6
      · rw [vals_short u (by omega) (by omega)]
        have : (n + 5) / 6 = 1 := by omega
        rw [this]; rfl
      · obtain ⟨b0, b1, b2, b3, b4, b5, u', rfl⟩ := exists_six u (by omega)
        have hu' : u'.length + 6 = n := by simpa using hlen
        have := vals_append [b0, b1, b2, b3, b4, b5] u' (by simp)
        simp only [List.cons_append, List.nil_append] at this
        rw [this]
        have hc : chunks6 [b0, b1, b2, b3, b4, b5] = [[b0, b1, b2, b3, b4, b5]] := by
          have := chunks6_append [b0, b1, b2, b3, b4, b5] [] (by simp)
          simpa using this
        rw [hc, ih u'.length (by omega) u' rfl]
        have hk : (n + 5) / 6 = (u'.length + 5) / 6 + 1 := by omega
        rw [hk, List.range_succ_eq_map]
        simp only [List.map_cons, List.map_nil, List.cons_append, List.nil_append, List.map_map, group_six]
        congr 1
        apply List.map_congr_left
        intro g _
        simp only [Function.comp]
        exact (group_append [b0, b1, b2, b3, b4, b5] u' (by simp) g).symm

open Spec.Graph6 in
theorem vals_eq_R (u : List Bool) : (vals u).map (· + 63) = R u := by
  rw [vals_eq_groups, R, groups, List.map_map]
  simp [Function.comp_def]

theorem chunks6_single (a : List Bool) (h : a.length = 6) : chunks6 a = [a] := by
  have := chunks6_append a [] h
  simpa using this

theorem header_short (n : Nat) (h : n < 63) : (chunks6 (numberBits n 6)).map bitsToNat = [n] := by
  rw [chunks6_single _ (by simp)]
  simp only [List.map_cons, List.map_nil, bitsToNat_numberBits]
  congr 1; omega

theorem header_long (n : Nat) :
    (chunks6 (numberBits N 6 ++ numberBits n 18)).map bitsToNat = [63, n / 4096 % 64, n / 64 % 64, n % 64] := by
  have e1 : numberBits n 18 = numberBits (n / 2 ^ 6) 12 ++ numberBits n 6 := numberBits_add n 12 6
  have e2 : numberBits (n / 2 ^ 6) 12 = numberBits (n / 2 ^ 6 / 2 ^ 6) 6 ++ numberBits (n / 2 ^ 6) 6 :=
    numberBits_add (n / 2 ^ 6) 6 6
  rw [e1, e2, chunks6_append _ _ (by simp), List.append_assoc, chunks6_append _ _ (by simp),
    chunks6_append _ _ (by simp), chunks6_single _ (by simp)]
  simp only [List.map_cons, List.map_nil, bitsToNat_numberBits, N]
  rw [Nat.div_div_eq_div_mul]
  norm_num

open Spec.Graph6 in
/-- the encoder is the format: for every order the format's 18-bit form covers, and it panics beyond -/
theorem encode_spec (n : Nat) (adj : Nat → Nat → Bool) :
    encode n adj = if n ≤ maxOrder then some ((graph6 n adj).map Char.ofNat) else none := by
  unfold encode orderBits
  by_cases h1 : n < N
  · have hle : n ≤ maxOrder := by simp only [N, maxOrder] at *; omega
    simp only [h1, if_true, hle]
    rw [bitsToAscii_eq, vals_append _ _ (by simp), header_short n h1, upperBits_eq]
    have hN : Nn n = [n + 63] := by simp only [N] at h1; simp [Nn]; omega
    rw [graph6, hN, ← vals_eq_R]
    simp [N, Nat.add_comm]
  · by_cases h2 : n ≤ maxOrder
    · simp only [h1, if_false, h2, if_true]
      rw [bitsToAscii_eq, vals_append _ _ (by simp), header_long n, upperBits_eq]
      have hN : Nn n = [126, n / 4096 % 64 + 63, n / 64 % 64 + 63, n % 64 + 63] := by
        simp only [N, maxOrder] at h1 h2
        have : ¬ n ≤ 62 := by omega
        simp [Nn, this, h2]
      rw [graph6, hN, ← vals_eq_R]
      simp [N, Nat.add_comm]
    · simp [h1, h2]

open Spec.Graph6 in
theorem mem_pairs (n i j : Nat) : (i, j) ∈ pairs n ↔ i < j ∧ j < n := by
  simp only [pairs, List.mem_flatMap, List.mem_range, List.mem_map, Prod.mk.injEq]
  constructor
  · rintro ⟨c, hc, r, hr, rfl, rfl⟩; exact ⟨hr, hc⟩
  · rintro ⟨h1, h2⟩; exact ⟨j, h2, i, h1, rfl, rfl⟩

open Spec.Graph6 in
theorem pairs_succ (n : Nat) : pairs (n + 1) = pairs n ++ (List.range n).map fun i => (i, n) := by
  simp [pairs, List.range_succ, List.flatMap_append]

open Spec.Graph6 in
theorem pairs_length (n : Nat) : 2 * (pairs n).length = n * (n - 1) := by
  induction n with
  | zero => rfl
  | succ n ih =>
    rw [pairs_succ, List.length_append, List.length_map, List.length_range, Nat.mul_add, ih]
    cases n with
    | zero => rfl
    | succ m => simp; ring

open Spec.Graph6 in
theorem pairs_nodup (n : Nat) : (pairs n).Nodup := by
  induction n with
  | zero => simp [pairs]
  | succ n ih =>
    rw [pairs_succ, List.nodup_append]
    refine ⟨ih, ?_, ?_⟩
    · exact List.Pairwise.map _ (fun a b h => by simpa using h) List.nodup_range
    · intro a ha b hb hab
      subst hab
      obtain ⟨i, j⟩ := a
      rw [mem_pairs] at ha
      simp only [List.mem_map, List.mem_range, Prod.mk.injEq] at hb
      obtain ⟨_, _, _, rfl⟩ := hb
      omega

open Spec.Graph6 in
/-- bit `j(j-1)/2 + i` of the vector is the adjacency of the pair `i < j` -/
theorem x_getElem (n : Nat) (adj : Nat → Nat → Bool) (i j : Nat) (hij : i < j) (hj : j < n) :
    (x n adj)[j * (j - 1) / 2 + i]? = some (adj i j) := by
  induction n with
  | zero => omega
  | succ n ih =>
    have hl := pairs_length n
    simp only [x] at ih ⊢
    rw [pairs_succ, List.map_append]
    by_cases hjn : j < n
    · have hl2 := pairs_length (j + 1)
      have : j * (j - 1) / 2 + i < (pairs n).length := by
        have h3 := pairs_length j
        have hmono : (pairs (j + 1)).length ≤ (pairs n).length := by
          have : 2 * (pairs (j + 1)).length ≤ 2 * (pairs n).length := by
            rw [hl2, hl]
            have : j + 1 ≤ n := hjn
            calc (j + 1) * (j + 1 - 1) ≤ n * (j + 1 - 1) := Nat.mul_le_mul_right _ this
              _ ≤ n * (n - 1) := Nat.mul_le_mul_left _ (by omega)
          omega
        rw [pairs_succ, List.length_append, List.length_map, List.length_range] at hmono
        have : j * (j - 1) / 2 = (pairs j).length := by omega
        omega
      rw [List.getElem?_append_left (by simpa using this)]
      exact ih hjn
    · have hjn' : j = n := by omega
      subst hjn'
      have : j * (j - 1) / 2 = (pairs j).length := by omega
      rw [this, List.getElem?_append_right (by simp)]
      simp [hij]

open Spec.Graph6 in
theorem x_length (n : Nat) (adj : Nat → Nat → Bool) : (x n adj).length = n * (n - 1) / 2 := by
  have := pairs_length n
  simp only [x, List.length_map]; omega

open Spec.Graph6 in
theorem mem_edges (n : Nat) (adj : Nat → Nat → Bool) (i j : Nat) :
    (i, j) ∈ edges n adj ↔ i < j ∧ j < n ∧ adj i j = true := by
  simp [edges, mem_pairs, and_assoc]

open Spec.Graph6 in
theorem edges_nodup (n : Nat) (adj : Nat → Nat → Bool) : (edges n adj).Nodup :=
  (pairs_nodup n).filter _

theorem pos_inj (w a b s t : Nat) (hb : b < w) (ht : t < w) (h : w * a + b = w * s + t) : a = s ∧ b = t := by
  have hw : 0 < w := by omega
  have h1 := congrArg (· % w) h
  have h2 := congrArg (· / w) h
  simp only [Nat.mul_add_mod, Nat.mod_eq_of_lt hb, Nat.mod_eq_of_lt ht] at h1
  simp only [Nat.mul_add_div hw, Nat.div_eq_of_lt hb, Nat.div_eq_of_lt ht, Nat.add_zero] at h2
  exact ⟨h2, h1⟩

theorem putBit_spec (m : Array Bool) (i : Nat) (h : i < m.size) :
    ∃ m', putBit m i = some m' ∧ m'.size = m.size ∧
      ∀ j, m'.getD j false = (decide (j = i) || m.getD j false) := by
  refine ⟨m.setIfInBounds i true, by simp [putBit, h], by simp, ?_⟩
  intro j
  simp only [Array.getD_eq_getD_getElem?, Array.getElem?_setIfInBounds]
  by_cases hji : i = j
  · subst hji; simp [h]
  · have : ¬ j = i := fun e => hji e.symm
    simp [hji, this]

/-- the fold of `adjacency_matrix` from any bitmap of the right size -/
theorem fold_adjMatrix (w : Nat) (es : List (Nat × Nat)) (h : ∀ e ∈ es, e.1 < w ∧ e.2 < w)
    (m0 : Array Bool) (hm0 : m0.size = w * w) :
    ∃ m, es.foldlM (fun m e => (putBit m (e.1 * w + e.2)).bind fun m' => putBit m' (e.1 + w * e.2)) m0 = some m ∧
      m.size = w * w ∧
      ∀ j, m.getD j false = (m0.getD j false || es.any fun e => j = e.1 * w + e.2 || j = e.1 + w * e.2) := by
  induction es generalizing m0 with
  | nil => exact ⟨m0, rfl, hm0, by simp⟩
  | cons e es ih =>
    have he := h e (by simp)
    have hlt1 : e.1 * w + e.2 < m0.size := by
      rw [hm0]
      calc e.1 * w + e.2 < e.1 * w + w := by omega
        _ = (e.1 + 1) * w := by ring
        _ ≤ w * w := Nat.mul_le_mul_right _ he.1
    obtain ⟨m1, e1, s1, g1⟩ := putBit_spec m0 _ hlt1
    have hlt2 : e.1 + w * e.2 < m1.size := by
      rw [s1, hm0]
      calc e.1 + w * e.2 < w + w * e.2 := by omega
        _ = w * (e.2 + 1) := by ring
        _ ≤ w * w := Nat.mul_le_mul_left _ he.2
    obtain ⟨m2, e2, s2, g2⟩ := putBit_spec m1 _ hlt2
    obtain ⟨m, em, sm, gm⟩ := ih (fun e' he' => h e' (by simp [he'])) m2 (by rw [s2, s1, hm0])
    refine ⟨m, ?_, sm, ?_⟩
    · simp only [List.foldlM_cons, e1, Option.bind_some, e2]
      exact em
    · intro j
      rw [gm j, g2 j, g1 j]
      simp only [List.any_cons, Bool.or_assoc, Bool.or_comm, Bool.or_left_comm]

/-- `adjacency_matrix` does not panic when every endpoint is below the width the bitmap was built with,
and `is_adjacent` read with the same width is exactly "some edge joins the two nodes" -/
theorem adjMatrix_spec (w : Nat) (es : List (Nat × Nat)) (h : ∀ e ∈ es, e.1 < w ∧ e.2 < w) :
    ∃ m, adjMatrix w es = some m ∧ ∀ a b, a < w → b < w →
      (isAdjacent w m a b = true ↔ ∃ e ∈ es, (e.1 = a ∧ e.2 = b) ∨ (e.1 = b ∧ e.2 = a)) := by
  obtain ⟨m, em, _, gm⟩ := fold_adjMatrix w es h (Array.replicate (w * w) false) (by simp)
  refine ⟨m, em, ?_⟩
  intro a b ha hb
  rw [isAdjacent, gm]
  have h0 : (Array.replicate (w * w) false).getD (w * a + b) false = false := by
    simp only [Array.getD_eq_getD_getElem?, Array.getElem?_replicate]
    split <;> rfl
  rw [h0, Bool.false_or, List.any_eq_true]
  constructor
  · rintro ⟨e, he, hp⟩
    refine ⟨e, he, ?_⟩
    have hew := h e he
    simp only [Bool.or_eq_true, decide_eq_true_eq] at hp
    rcases hp with hp | hp
    · left
      have := pos_inj w a b e.1 e.2 hb hew.2 (by rw [hp]; ring)
      exact ⟨this.1.symm, this.2.symm⟩
    · right
      have := pos_inj w a b e.2 e.1 hb hew.1 (by rw [hp]; ring)
      exact ⟨this.2.symm, this.1.symm⟩
  · rintro ⟨e, he, hp⟩
    refine ⟨e, he, ?_⟩
    simp only [Bool.or_eq_true, decide_eq_true_eq]
    rcases hp with ⟨rfl, rfl⟩ | ⟨rfl, rfl⟩
    · left; ring
    · right; ring

/-- the encoder reads the adjacency only at positions `p < q < n` -/
theorem encode_congr (n : Nat) (adj adj' : Nat → Nat → Bool)
    (h : ∀ p q, p < q → q < n → adj p q = adj' p q) : encode n adj = encode n adj' := by
  have hu : upperBits adj n = upperBits adj' n := by
    rw [upperBits_eq, upperBits_eq, Spec.Graph6.x, Spec.Graph6.x]
    apply List.map_congr_left
    rintro ⟨p, q⟩ hp
    rw [mem_pairs] at hp
    exact h p q hp.1 hp.2
  simp [encode, hu]

open Spec.Graph6 in
/-- decode ∘ encode on a symmetric loop-free adjacency: two distinct nodes are joined in the decoded graph
(the pair, smaller endpoint first, is in its edge list) iff they are adjacent -/
theorem roundtrip_adjacency (n : Nat) (adj : Nat → Nat → Bool) (sym : ∀ i j, adj i j = adj j i)
    (i j : Nat) (hi : i < n) (hj : j < n) (hij : i ≠ j) :
    adj i j = true ↔ (min i j, max i j) ∈ edges n adj := by
  rw [mem_edges]
  by_cases h : i < j
  · rw [Nat.min_eq_left (by omega), Nat.max_eq_right (by omega)]
    exact ⟨fun ha => ⟨h, hj, ha⟩, fun ha => ha.2.2⟩
  · have h' : j < i := by omega
    rw [Nat.min_eq_right (by omega), Nat.max_eq_left (by omega), sym i j]
    exact ⟨fun ha => ⟨h', hi, ha⟩, fun ha => ha.2.2⟩


/-- "some edge joins `a` and `b`", as the Boolean the encoder consumes -/
def joined (es : List (Nat × Nat)) (a b : Nat) : Bool :=
  es.any fun e => (e.1 == a && e.2 == b) || (e.1 == b && e.2 == a)

theorem joined_iff (es : List (Nat × Nat)) (a b : Nat) :
    joined es a b = true ↔ ∃ e ∈ es, (e.1 = a ∧ e.2 = b) ∨ (e.1 = b ∧ e.2 = a) := by
  simp [joined, List.any_eq_true]

open Spec.Graph6 in
/-- `graph6_string()` of a bitmap type: node indices `ix` in iteration order, edges by node index, bitmap
width `w` above every index -/
theorem graph6_of_bitmap (w : Nat) (es : List (Nat × Nat)) (ix : List Nat)
    (hes : ∀ e ∈ es, e.1 < w ∧ e.2 < w) (hix : ∀ i ∈ ix, i < w) (hn : ix.length ≤ maxOrder) :
    ∃ m, adjMatrix w es = some m ∧
      encode ix.length (fun p q => isAdjacent w m (ix.getD p 0) (ix.getD q 0)) =
        some ((graph6 ix.length fun p q => joined es (ix.getD p 0) (ix.getD q 0)).map Char.ofNat) := by
  obtain ⟨m, hm, hadj⟩ := adjMatrix_spec w es hes
  refine ⟨m, hm, ?_⟩
  have hc := encode_congr ix.length (fun p q => isAdjacent w m (ix.getD p 0) (ix.getD q 0))
    (fun p q => joined es (ix.getD p 0) (ix.getD q 0)) (by
      intro p q hpq hq
      have hp : p < ix.length := by omega
      have h1 : ix.getD p 0 < w := by
        rw [List.getD_eq_getElem?_getD, List.getElem?_eq_getElem hp]; exact hix _ (List.getElem_mem hp)
      have h2 : ix.getD q 0 < w := by
        rw [List.getD_eq_getElem?_getD, List.getElem?_eq_getElem hq]; exact hix _ (List.getElem_mem hq)
      rw [Bool.eq_iff_iff, hadj _ _ h1 h2, joined_iff])
  rw [hc, encode_spec, if_pos hn]

end PetgraphModel.G6P
