import PetgraphModel.Oracle.Dist
/-
Soundness of the distance certificate checker and of the negative-closed-walk checker.
-/
namespace PetgraphModel.DistProofs
open PetgraphModel PetgraphModel.MGraph PetgraphModel.Oracle

/-- accepted labels are exact shortest-walk costs -/
theorem checkDist_exact (g : MGraph) (s : Nat) (d : List (Nat × Int)) (h : checkDist g s d = true)
    (v : Nat) (y : Int) (hv : labelOf d v = some y) : IsShortest g s v y := by sorry

/-- unlabelled nodes are exactly the nodes no walk reaches -/
theorem checkDist_unreachable (g : MGraph) (s : Nat) (d : List (Nat × Int)) (h : checkDist g s d = true)
    (v : Nat) : labelOf d v = none ↔ ¬ ∃ c, WalkCost g s v c := by sorry

/-- an accepted certificate excludes a negative closed walk through any node reachable from `s` -/
theorem checkDist_no_neg_cycle (g : MGraph) (s : Nat) (d : List (Nat × Int)) (h : checkDist g s d = true)
    (u : Nat) (c0 c : Int) (hu : WalkCost g s u c0) (hc : WalkCost g u u c) : 0 ≤ c := by sorry

/-- walks and `Reach` agree (ties the weighted notions to the unweighted ones) -/
theorem walk_iff_reach (g : MGraph) (a b : Nat) : (∃ c, WalkCost g a b c) ↔ Reach g a b := by sorry

/-- an accepted sequence witnesses a closed walk of negative cost through its first node -/
theorem checkNegClosedWalk_sound (g : MGraph) (seq : List Nat) (h : checkNegClosedWalk g seq = true) :
    ∃ v c, v ∈ seq ∧ WalkCost g v v c ∧ c < 0 := by sorry

end PetgraphModel.DistProofs
