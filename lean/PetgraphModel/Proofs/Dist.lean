import PetgraphModel.Oracle.Dist
/-
Soundness of the distance certificate checker and of the negative-closed-walk checker.
-/
namespace PetgraphModel.DistProofs
open PetgraphModel PetgraphModel.MGraph PetgraphModel.Oracle

/-! ### generic helpers -/

theorem walk_trans {g : MGraph} {a b x : Nat} {c c' : Int}
    (h1 : WalkCost g a b c) (h2 : WalkCost g b x c') : WalkCost g a x (c + c') := by
  induction h2 with
  | nil => simpa using h1
  | snoc _ harc ih => rw [← Int.add_assoc]; exact WalkCost.snoc ih harc

theorem mem_of_lookup {d : List (Nat × Int)} {v : Nat} {y : Int} (h : d.lookup v = some y) :
    (v, y) ∈ d := by
  induction d with
  | nil => simp at h
  | cons p d ih =>
    obtain ⟨a, b⟩ := p
    rw [List.lookup_cons] at h
    by_cases hva : v = a
    · subst hva; simp at h; subst h; exact List.mem_cons_self ..
    · have : (v == a) = false := by simpa using hva
      rw [this] at h
      exact List.mem_cons_of_mem _ (ih h)

/-- what `checkDist` establishes -/
structure Cert (g : MGraph) (s : Nat) (d : List (Nat × Int)) : Prop where
  src : labelOf d s = some 0
  relax : ∀ u v w, (u, v, w) ∈ g.arcs → ∀ x, labelOf d u = some x →
    ∃ y, labelOf d v = some y ∧ y ≤ x + w
  tight : ∀ v y, labelOf d v = some y → Reach (tightGraph g d) s v

theorem cert_of_check {g : MGraph} {s : Nat} {d : List (Nat × Int)} (h : checkDist g s d = true) :
    Cert g s d := by
  unfold checkDist at h
  simp only [Bool.and_eq_true, List.all_eq_true] at h
  obtain ⟨⟨⟨h1, _⟩, h3⟩, h4⟩ := h
  refine ⟨by simpa using h1, ?_, ?_⟩
  · intro u v w harc x hx
    have := h3 (u, v, w) harc
    simp only [hx] at this
    cases hv : labelOf d v with
    | none => simp [hv] at this
    | some y => simp [hv] at this; exact ⟨y, rfl, this⟩
  · intro v y hv
    cases hr : reachFrom (tightGraph g d) s with
    | none => simp [hr] at h4
    | some r =>
      simp only [hr, List.all_eq_true] at h4
      have hmem : (v, y) ∈ d := mem_of_lookup hv
      have := h4 (v, y) hmem
      simp at this
      exact ((reachFrom_spec _ _ _ hr).2 v).1 this

/-- (a) labels are lower bounds and the labelled set is closed under walks -/
theorem lower {g : MGraph} {s : Nat} {d : List (Nat × Int)} (C : Cert g s d) {v : Nat} {c : Int}
    (hw : WalkCost g s v c) : ∃ y, labelOf d v = some y ∧ y ≤ c := by
  induction hw with
  | nil => exact ⟨0, C.src, Int.le_refl _⟩
  | snoc _ harc ih =>
    obtain ⟨x, hx, hxc⟩ := ih
    obtain ⟨y, hy, hyx⟩ := C.relax _ _ _ harc x hx
    exact ⟨y, hy, by omega⟩

/-- a step of the tight graph is a tight arc -/
theorem tight_adj {g : MGraph} {d : List (Nat × Int)} {u v : Nat} (h : Adj (tightGraph g d) u v) :
    ∃ w x y, (u, v, w) ∈ g.arcs ∧ labelOf d u = some x ∧ labelOf d v = some y ∧ y = x + w := by
  obtain ⟨e, he, hor⟩ := h
  have hdir : (tightGraph g d).directed = true := rfl
  rcases hor with ⟨h1, h2⟩ | ⟨h0, _⟩
  · simp only [tightGraph, List.mem_filterMap] at he
    obtain ⟨⟨a, b, w⟩, harc, hm⟩ := he
    simp only at hm
    split at hm
    · rename_i x y hx hy
      split at hm
      · rename_i hyx
        simp at hm
        subst hm
        simp at h1 h2
        subst h1; subst h2
        exact ⟨w, x, y, harc, hx, hy, hyx⟩
      · simp at hm
    · simp at hm
  · rw [hdir] at h0; cases h0

/-- (b) attainment along tight arcs -/
theorem attain {g : MGraph} {s : Nat} {d : List (Nat × Int)} (C : Cert g s d) {v : Nat}
    (hr : Reach (tightGraph g d) s v) : ∃ y, labelOf d v = some y ∧ WalkCost g s v y := by
  induction hr with
  | refl => exact ⟨0, C.src, WalkCost.nil _⟩
  | step _ hadj ih =>
    obtain ⟨x, hx, hwx⟩ := ih
    obtain ⟨w, x', y, harc, hx', hy, hyx⟩ := tight_adj hadj
    rw [hx] at hx'; cases hx'
    exact ⟨y, hy, hyx ▸ WalkCost.snoc hwx harc⟩

/-- accepted labels are exact shortest-walk costs -/
theorem checkDist_exact (g : MGraph) (s : Nat) (d : List (Nat × Int)) (h : checkDist g s d = true)
    (v : Nat) (y : Int) (hv : labelOf d v = some y) : IsShortest g s v y := by
  have C := cert_of_check h
  obtain ⟨y', hy', hw⟩ := attain C (C.tight v y hv)
  rw [hv] at hy'; cases hy'
  refine ⟨hw, fun c hc => ?_⟩
  obtain ⟨y', hy', hle⟩ := lower C hc
  rw [hv] at hy'; cases hy'; exact hle

/-- unlabelled nodes are exactly the nodes no walk reaches -/
theorem checkDist_unreachable (g : MGraph) (s : Nat) (d : List (Nat × Int)) (h : checkDist g s d = true)
    (v : Nat) : labelOf d v = none ↔ ¬ ∃ c, WalkCost g s v c := by
  have C := cert_of_check h
  constructor
  · rintro hn ⟨c, hc⟩
    obtain ⟨y, hy, _⟩ := lower C hc
    rw [hn] at hy; cases hy
  · intro hn
    cases hv : labelOf d v with
    | none => rfl
    | some y =>
      exact absurd ⟨y, (checkDist_exact g s d h v y hv).1⟩ hn

/-- an accepted certificate excludes a negative closed walk through any node reachable from `s` -/
theorem checkDist_no_neg_cycle (g : MGraph) (s : Nat) (d : List (Nat × Int)) (h : checkDist g s d = true)
    (u : Nat) (c0 c : Int) (hu : WalkCost g s u c0) (hc : WalkCost g u u c) : 0 ≤ c := by
  have C := cert_of_check h
  obtain ⟨y, hy, _⟩ := lower C hu
  obtain ⟨hw, hmin⟩ := checkDist_exact g s d h u y hy
  have := hmin _ (walk_trans hw hc)
  omega

/-! ### arcs versus `Adj` -/

theorem mem_arcs {g : MGraph} {a b : Nat} {w : Int} :
    (a, b, w) ∈ g.arcs ↔ ∃ e ∈ g.edges, e.w = w ∧
      ((e.src = a ∧ e.tgt = b) ∨ (g.directed = false ∧ e.src = b ∧ e.tgt = a)) := by
  unfold arcs
  simp only [List.mem_flatMap]
  constructor
  · rintro ⟨e, he, hm⟩
    refine ⟨e, he, ?_⟩
    split at hm
    · simp at hm
      obtain ⟨h1, h2, h3⟩ := hm
      exact ⟨h3.symm, Or.inl ⟨h1.symm, h2.symm⟩⟩
    · rename_i hc
      simp at hc
      simp at hm
      rcases hm with ⟨h1, h2, h3⟩ | ⟨h1, h2, h3⟩
      · exact ⟨h3.symm, Or.inl ⟨h1.symm, h2.symm⟩⟩
      · exact ⟨h3.symm, Or.inr ⟨hc.1, h2.symm, h1.symm⟩⟩
  · rintro ⟨e, he, hw, hor⟩
    refine ⟨e, he, ?_⟩
    rcases hor with ⟨h1, h2⟩ | ⟨h0, h1, h2⟩
    · split <;> simp [h1, h2, hw]
    · by_cases hst : e.src = e.tgt
      · have hab : a = b := by rw [← h2, ← h1, hst]
        subst hab
        simp [hst, h0, h2, hw]
      · have hba : ¬ b = a := fun hba => hst (by rw [h1, h2, hba])
        subst h1; subst h2; subst hw
        simp [hst, h0]

/-- walks and `Reach` agree (ties the weighted notions to the unweighted ones) -/
theorem walk_iff_reach (g : MGraph) (a b : Nat) : (∃ c, WalkCost g a b c) ↔ Reach g a b := by
  constructor
  · rintro ⟨c, hc⟩
    induction hc with
    | nil => exact Reach.refl _
    | snoc _ harc ih =>
      obtain ⟨e, he, _, hor⟩ := mem_arcs.mp harc
      exact Reach.step ih ⟨e, he, hor⟩
  · intro hr
    induction hr with
    | refl => exact ⟨0, WalkCost.nil _⟩
    | step _ hadj ih =>
      obtain ⟨c, hc⟩ := ih
      obtain ⟨e, he, hor⟩ := hadj
      exact ⟨c + e.w, WalkCost.snoc hc (mem_arcs.mpr ⟨e, he, rfl, hor⟩)⟩

/-! ### the negative-closed-walk checker -/

theorem foldl_min_mem (l : List Int) (acc : Option Int) (w : Int)
    (h : l.foldl (fun acc w => match acc with | none => some w | some m => some (min m w)) acc = some w) :
    w ∈ l ∨ acc = some w := by
  induction l generalizing acc with
  | nil => exact Or.inr (by simpa using h)
  | cons x l ih =>
    rw [List.foldl_cons] at h
    rcases ih _ h with h' | h'
    · exact Or.inl (List.mem_cons_of_mem _ h')
    · cases acc with
      | none => simp at h'; exact Or.inl (h' ▸ List.mem_cons_self ..)
      | some m =>
        simp only [Option.some.injEq] at h'
        rw [Int.min_def] at h'
        split at h'
        · exact Or.inr (by rw [h'])
        · exact Or.inl (h' ▸ List.mem_cons_self ..)

theorem minArc_mem {g : MGraph} {u v : Nat} {w : Int} (h : minArc g u v = some w) :
    (u, v, w) ∈ g.arcs := by
  unfold minArc at h
  rcases foldl_min_mem _ _ _ h with h' | h'
  · simp only [List.mem_filterMap] at h'
    obtain ⟨⟨a, b, w'⟩, harc, hm⟩ := h'
    simp only at hm
    split at hm
    · rename_i hab
      simp at hm
      obtain ⟨rfl, rfl⟩ := hab
      exact hm ▸ harc
    · cases hm
  · cases h'

/-- the accumulator step of `checkNegClosedWalk` -/
abbrev stepF (g : MGraph) : Option Int → Nat × Nat → Option Int :=
  fun acc (u, v) => match acc, minArc g u v with
    | some t, some w => some (t + w)
    | _, _ => none

theorem foldl_stepF_none (g : MGraph) (l : List (Nat × Nat)) : l.foldl (stepF g) none = none := by
  induction l with
  | nil => rfl
  | cons p l ih => obtain ⟨u, v⟩ := p; rw [List.foldl_cons]; exact ih

theorem fold_walk (g : MGraph) (seq : List Nat) : ∀ (a last : Nat) (t0 t : Int),
    ((a :: seq).zip (seq ++ [last])).foldl (stepF g) (some t0) = some t →
      WalkCost g a last (t - t0) := by
  induction seq with
  | nil =>
    intro a last t0 t h
    simp only [List.nil_append, List.zip_cons_cons, List.zip_nil_right, List.foldl_cons,
      List.foldl_nil, stepF] at h
    cases hm : minArc g a last with
    | none => simp [hm] at h
    | some w =>
      simp only [hm, Option.some.injEq] at h
      have hw := WalkCost.snoc (WalkCost.nil a) (minArc_mem hm)
      have e : t - t0 = 0 + w := by omega
      rw [e]; exact hw
  | cons b seq ih =>
    intro a last t0 t h
    simp only [List.cons_append, List.zip_cons_cons, List.foldl_cons] at h
    cases hm : minArc g a b with
    | none =>
      have : stepF g (some t0) (a, b) = none := by simp [stepF, hm]
      rw [this, foldl_stepF_none] at h; cases h
    | some w =>
      have : stepF g (some t0) (a, b) = some (t0 + w) := by simp [stepF, hm]
      rw [this] at h
      have h1 := ih b last (t0 + w) t h
      have hw := WalkCost.snoc (WalkCost.nil a) (minArc_mem hm)
      have h2 := walk_trans hw h1
      have e : t - t0 = 0 + w + (t - (t0 + w)) := by omega
      rw [e]; exact h2

/-- an accepted sequence witnesses a closed walk of negative cost through its first node -/
theorem checkNegClosedWalk_sound (g : MGraph) (seq : List Nat) (h : checkNegClosedWalk g seq = true) :
    ∃ v c, v ∈ seq ∧ WalkCost g v v c ∧ c < 0 := by
  cases seq with
  | nil => simp [checkNegClosedWalk] at h
  | cons v0 rest =>
    simp only [checkNegClosedWalk, List.drop_succ_cons, List.drop_zero] at h
    split at h
    · rename_i t ht
      have hw := fold_walk g rest v0 v0 0 t ht
      refine ⟨v0, t, List.mem_cons_self .., by simpa using hw, by simpa using h⟩
    · cases h

end PetgraphModel.DistProofs
