import PetgraphModel.Proofs.C08W3Clauses
import PetgraphModel.Proofs.C08W3Driver
import PetgraphModel.Proofs.ReachTotal
/-
C08 (wave 4): soundness of the remaining run-time judges of `Driver/C08.lean`:
`judgeSetFrom` / `judgeBfs` (reachable set, each once, non-decreasing hop distance — the distances come
from an unverified layered search and are *certified*), `judgeTopoAll` (exactly the nodes neither on nor
downstream of a cycle, each after all its predecessors) and `judgeTopoInit` (`with_initials`: each
emitted node after all its predecessors, all of which were emitted).
-/
namespace PetgraphModel.TravProofs
open PetgraphModel PetgraphModel.Trav PetgraphModel.MGraph PetgraphModel.C08 PetgraphModel.Oracle

/-! ### lists -/

theorem eraseDups_len_le : ∀ (n : Nat) (l : List Nat), l.length ≤ n → l.eraseDups.length ≤ l.length := by
  intro n
  induction n with
  | zero => intro l h; cases l with
    | nil => simp
    | cons => simp at h
  | succ n ih =>
    intro l h
    cases l with
    | nil => simp
    | cons a as =>
      rw [List.eraseDups_cons]
      simp only [List.length_cons] at h ⊢
      have h1 := List.length_filter_le (fun b => !b == a) as
      have h2 := ih (as.filter fun b => !b == a) (by omega)
      omega

theorem nodup_of_eraseDups_len : ∀ (n : Nat) (l : List Nat), l.length ≤ n →
    l.eraseDups.length = l.length → l.Nodup := by
  intro n
  induction n with
  | zero => intro l h _; cases l with
    | nil => exact List.nodup_nil
    | cons => simp at h
  | succ n ih =>
    intro l h hl
    cases l with
    | nil => exact List.nodup_nil
    | cons a as =>
      rw [List.eraseDups_cons] at hl
      simp only [List.length_cons] at h hl
      have h1 := List.length_filter_le (fun b => !b == a) as
      have h2 := eraseDups_len_le _ (as.filter fun b => !b == a) (Nat.le_refl _)
      have hf : (as.filter fun b => !b == a).length = as.length := by omega
      have hall : ∀ x ∈ as, (!x == a) = true := List.length_filter_eq_length_iff.mp hf
      have hfe : as.filter (fun b => !b == a) = as := List.filter_eq_self.mpr hall
      rw [hfe] at hl
      have hnd : as.Nodup := ih as (by omega) (by omega)
      refine List.nodup_cons.mpr ⟨?_, hnd⟩
      intro hmem
      have := hall a hmem
      simp at this

theorem nodupCheck {l : List Nat} (h : (l.eraseDups.length == l.length) = true) : l.Nodup :=
  nodup_of_eraseDups_len l.length l (Nat.le_refl _) (by simpa using h)

theorem nondecB_sound : ∀ (l : List Nat), nondecB l = true →
    ∀ i j (hi : i < l.length) (hj : j < l.length), i ≤ j → l[i] ≤ l[j] := by
  intro l
  induction l with
  | nil => intro _ i j hi; simp at hi
  | cons a t ih =>
    intro h i j hi hj hij
    cases t with
    | nil =>
      simp only [List.length_cons, List.length_nil] at hi hj
      have : i = 0 := by omega
      have : j = 0 := by omega
      subst_vars
      exact Nat.le_refl _
    | cons b t =>
      simp only [nondecB, Bool.and_eq_true, decide_eq_true_eq] at h
      have ih' := ih h.2
      cases i with
      | zero =>
        cases j with
        | zero => exact Nat.le_refl _
        | succ j =>
          simp only [List.getElem_cons_zero, List.getElem_cons_succ]
          have := ih' 0 j (by simp) (by simpa using hj) (Nat.zero_le _)
          simp only [List.getElem_cons_zero] at this
          omega
      | succ i =>
        cases j with
        | zero => omega
        | succ j =>
          simp only [List.getElem_cons_succ]
          exact ih' i j (by simpa using hi) (by simpa using hj) (by omega)

/-! ### reachable set -/

theorem judgeSetFrom_sound (g : MGraph) (s : Nat) (out : List Nat) (h : judgeSetFrom g s out = none) :
    out.Nodup ∧ ∀ x, x ∈ out ↔ Reach g s x := by
  unfold judgeSetFrom at h
  split at h
  · cases h
  rename_i hnd
  have hnd' : out.Nodup := nodupCheck (by simpa using hnd)
  obtain ⟨r, hr⟩ := reachFrom_total g s
  rw [hr] at h
  simp only at h
  split at h
  · rename_i hss
    refine ⟨hnd', fun x => ?_⟩
    rw [← (reachFrom_spec g s r hr).2 x]
    exact ((sameSet_perm hss).mem_iff).symm
  · cases h

/-! ### hop distances: the certificate -/

theorem distCert_sound (g : MGraph) (s : Nat) (out ds : List Nat)
    (hout : ∀ x, x ∈ out ↔ Reach g s x) (h : distCertBad g s out ds = none) :
    ∀ x, x ∈ out → IsDist g s x (distOf out ds x) := by
  unfold distCertBad at h
  split at h
  · cases h
  rename_i h0
  have h0' : distOf out ds s = 0 := by simpa using h0
  split at h
  · cases h
  rename_i hedge
  split at h
  · cases h
  rename_i hpred
  have hE : ∀ u, u ∈ out → ∀ w, g.Adj u w → distOf out ds w ≤ distOf out ds u + 1 := by
    intro u hu w hw
    have := List.find?_eq_none.mp hedge u hu
    simp only [List.any_eq_true, not_exists, not_and, Bool.not_eq_true', Bool.not_eq_false,
      Bool.and_eq_true, List.contains_eq_mem, decide_eq_true_eq] at this
    exact (this w (MGraph.mem_succ.mpr hw)).2
  have hP : ∀ x, x ∈ out → x ≠ s → ∃ p, g.Adj p x ∧ p ∈ out ∧ distOf out ds p + 1 = distOf out ds x := by
    intro x hx hxs
    have := List.find?_eq_none.mp hpred x hx
    simp only [Bool.and_eq_true, bne_iff_ne, ne_eq, Bool.not_eq_true', not_and, Bool.not_eq_false,
      List.any_eq_true, List.contains_eq_mem, decide_eq_true_eq, beq_iff_eq] at this
    obtain ⟨p, hp, hpo, hd⟩ := this hxs
    exact ⟨p, mem_gpred.mp hp, hpo, hd⟩
  -- a walk of the claimed length exists
  have hwalk : ∀ n x, x ∈ out → distOf out ds x = n → WalkLen g s x n := by
    intro n
    induction n with
    | zero =>
      intro x hx hd
      by_cases hxs : x = s
      · subst hxs; exact WalkLen.zero _
      · obtain ⟨p, _, _, hpd⟩ := hP x hx hxs
        omega
    | succ n ih =>
      intro x hx hd
      have hxs : x ≠ s := fun e => by rw [e, h0'] at hd; omega
      obtain ⟨p, hadj, hpo, hpd⟩ := hP x hx hxs
      exact WalkLen.succ (ih p hpo (by omega)) hadj
  -- no shorter walk exists
  have hmin : ∀ x m, WalkLen g s x m → x ∈ out ∧ distOf out ds x ≤ m := by
    intro x m hw
    induction hw with
    | zero => exact ⟨(hout s).mpr (Reach.refl s), by omega⟩
    | @succ b c n _ hadj ih =>
      refine ⟨(hout c).mpr (Reach.step ((hout b).mp ih.1) hadj), ?_⟩
      have := hE b ih.1 c hadj
      omega
  intro x hx
  exact ⟨hwalk _ x hx rfl, fun m hm => (hmin x m hm).2⟩

theorem judgeBfs_sound (g : MGraph) (s : Nat) (out : List Nat) (h : judgeBfs g s out = none) :
    out.Nodup ∧ (∀ x, x ∈ out ↔ Reach g s x) ∧
    ∀ i j (hi : i < out.length) (hj : j < out.length), i ≤ j →
      ∀ di dj, IsDist g s out[i] di → IsDist g s out[j] dj → di ≤ dj := by
  unfold judgeBfs at h
  split at h
  · cases h
  rename_i hset
  obtain ⟨hnd, hout⟩ := judgeSetFrom_sound g s out hset
  simp only at h
  generalize hds : (out.map fun x => (hopDist g s (g.nodes.length + 2) [s] [] 0 x).getD 0) = ds at h
  have hlen : ds.length = out.length := by rw [← hds]; simp
  split at h
  · cases h
  rename_i hcert
  split at h
  · rename_i hnd2
    refine ⟨hnd, hout, ?_⟩
    intro i j hi hj hij di dj hdi hdj
    have hd := distCert_sound g s out ds hout hcert
    have e1 := hdi.unique (hd out[i] (List.getElem_mem hi))
    have e2 := hdj.unique (hd out[j] (List.getElem_mem hj))
    have idx : ∀ k (hk : k < out.length), distOf out ds out[k] = ds[k]'(by omega) := by
      intro k hk
      unfold distOf
      rw [hnd.idxOf_getElem k hk, List.getD_eq_getElem?_getD, List.getElem?_eq_getElem (by omega)]
      rfl
    rw [e1, e2, idx i hi, idx j hj]
    exact nondecB_sound ds hnd2 i j (by omega) (by omega) hij
  · cases h

/-! ### `Topo` -/

theorem reach1_head' {g : MGraph} {a c : Nat} (h : Reach1 g a c) : ∃ b, g.Adj a b ∧ Reach g b c := by
  induction h with
  | single hadj => exact ⟨_, hadj, Reach.refl _⟩
  | step _ hadj ih =>
    obtain ⟨b, h1, h2⟩ := ih
    exact ⟨b, h1, Reach.step h2 hadj⟩

theorem mem_cyclicOrDownstream (g : MGraph) (x : Nat) :
    x ∈ cyclicOrDownstream g ↔ x ∈ g.nodes ∧ ∃ c, c ∈ g.nodes ∧ Reach1 g c c ∧ Reach g c x := by
  unfold cyclicOrDownstream
  simp only [List.mem_filter, List.any_eq_true, beq_iff_eq]
  constructor
  · rintro ⟨hx, c, ⟨hc, y, hy, hyc⟩, hcx⟩
    refine ⟨hx, c, hc, ?_, (reachB_spec g c x true hcx).mp rfl⟩
    exact reach1_of_adj_reach (MGraph.mem_succ.mp hy) ((reachB_spec g y c true hyc).mp rfl)
  · rintro ⟨hx, c, hc, hcc, hcx⟩
    obtain ⟨y, hy, hyc⟩ := reach1_head' hcc
    exact ⟨hx, c, ⟨hc, y, MGraph.mem_succ.mpr hy, (reachB_iff g y c).mpr hyc⟩, (reachB_iff g c x).mpr hcx⟩

theorem topo_order_check {g : MGraph} {out : List Nat}
    (h : (out.find? fun x => (g.pred x).any fun p => !(decide (out.idxOf p < out.idxOf x)))= none) :
    ∀ x, x ∈ out → ∀ p, g.Adj p x → p ∈ out ∧ out.idxOf p < out.idxOf x := by
  intro x hx p hp
  have := List.find?_eq_none.mp h x hx
  simp only [List.any_eq_true, Bool.not_eq_true', decide_eq_false_iff_not, not_exists, not_and,
    Decidable.not_not] at this
  have hlt := this p (mem_gpred.mpr hp)
  refine ⟨?_, hlt⟩
  have := List.idxOf_lt_length_of_mem hx
  exact List.idxOf_lt_length_iff.mp (by omega)

/-- **`judgeTopoAll` is sound** (well-formed graph): the accepted output lists exactly the nodes neither
on nor downstream of a cycle, each once, each after all its predecessors. -/
theorem judgeTopoAll_sound (g : MGraph) (hwf : g.WellFormed) (out : List Nat) (h : judgeTopoAll g out = none) :
    out.Nodup ∧ (∀ x, x ∈ out ↔ x ∈ g.nodes ∧ ∀ c, Reach1 g c c → ¬ Reach g c x) ∧
    ∀ x, x ∈ out → ∀ p, g.Adj p x → p ∈ out ∧ out.idxOf p < out.idxOf x := by
  unfold judgeTopoAll at h
  split at h
  · cases h
  rename_i hnd
  have hnd' : out.Nodup := nodupCheck (by simpa using hnd)
  simp only at h
  split at h
  · cases h
  rename_i hss
  have hperm := sameSet_perm (by simpa using hss)
  split at h
  · cases h
  rename_i hord
  refine ⟨hnd', ?_, ?_⟩
  · intro x
    rw [← hperm.mem_iff]
    simp only [List.mem_filter, Bool.not_eq_true', decide_eq_false_iff_not,
      mem_cyclicOrDownstream]
    constructor
    · rintro ⟨hx, hn⟩
      refine ⟨hx, fun c hcc hcx => hn ⟨hx, c, reach1_mem_nodes hwf hcc, hcc, hcx⟩⟩
    · rintro ⟨hx, hn⟩
      exact ⟨hx, fun ⟨_, c, _, hcc, hcx⟩ => hn c hcc hcx⟩
  · exact topo_order_check hord

/-- **`judgeTopoInit` is sound**: nothing twice, every emitted node after all its predecessors, all of
which were emitted. -/
theorem judgeTopoInit_sound (g : MGraph) (out : List Nat) (h : judgeTopoInit g out = none) :
    out.Nodup ∧ ∀ x, x ∈ out → ∀ p, g.Adj p x → p ∈ out ∧ out.idxOf p < out.idxOf x := by
  unfold judgeTopoInit at h
  split at h
  · cases h
  rename_i hnd
  have hnd' : out.Nodup := nodupCheck (by simpa using hnd)
  simp only at h
  split at h
  · cases h
  rename_i hord
  refine ⟨hnd', ?_⟩
  intro x hx p hp
  have := List.find?_eq_none.mp hord x hx
  simp only [List.any_eq_true, Bool.not_eq_true', not_exists, not_and, Bool.not_eq_false,
    Bool.and_eq_true, List.contains_eq_mem, decide_eq_true_eq] at this
  exact this p (mem_gpred.mpr hp)

end PetgraphModel.TravProofs
