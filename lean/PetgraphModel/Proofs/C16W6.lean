import PetgraphModel.Model.C16Iter
import PetgraphModel.Proofs.C16Judge
import PetgraphModel.Proofs.C16Cut
import PetgraphModel.Proofs.C16W2Post
/-
C16, sixth wave — the corners.

* the lazy iterators `DominatorsIter` / `DominatedByIter` (`Model/C16Iter.lean`) yield, step by step,
  exactly the collected lists of `Model/C16Dom.lean`; both are fused; the overridden `size_hint` of
  `DominatedByIter` brackets the number of items still to come in every state;
* an id that is not a node of the graph is unreachable from a root that is one (absent / stale ids have no
  entry and dominate nothing);
* two graphs with the same nodes and the same adjacency relation have the same dominators and the same
  cut vertices — the justification for the abstract graphs the harness assigns to the adaptors
  (`UndirectedAdaptor` meets every self-loop / every undirected edge twice; parallel copies change nothing).
-/
namespace PetgraphModel.C16P.W6
open PetgraphModel MGraph C16S C16M C16P

/-! ### the lazy iterators -/

theorem domIter_take (d : Doms) : ∀ (f : Nat) (node : Option Nat), (DomIter.mk d node).take f = d.chain f node
  | 0, _ => by simp [DomIter.take, Doms.chain]
  | f+1, none => by simp [DomIter.take, DomIter.next, Doms.chain]
  | f+1, some n => by simp [DomIter.take, DomIter.next, Doms.chain, domIter_take d f]

theorem domIter_fused (it it' : DomIter) (h : it.next = (none, it')) : it' = it ∧ it'.next = (none, it') := by
  unfold DomIter.next at h
  split at h
  · cases h; rename_i hn; exact ⟨rfl, by simp [DomIter.next, hn]⟩
  · cases h

theorem scan_some {n : Nat} : ∀ {l r : List (Nat × Nat)} {x : Nat}, IdbIter.scan n l = (some x, r) →
    (l.filterMap fun (k, v) => if v = n ∧ v ≠ k then some k else none) =
      x :: (r.filterMap fun (k, v) => if v = n ∧ v ≠ k then some k else none) ∧ r.length < l.length
  | [], r, x, h => by simp [IdbIter.scan] at h
  | (k, v) :: rest, r, x, h => by
    unfold IdbIter.scan at h
    by_cases hc : v = n ∧ v ≠ k
    · rw [if_pos hc] at h
      cases h
      obtain ⟨h1, h2⟩ := hc
      subst h1
      rw [List.filterMap_cons]
      simp [h2]
    · rw [if_neg hc] at h
      have := scan_some h
      refine ⟨?_, by simp; omega⟩
      rw [List.filterMap_cons]
      simp only [hc, if_false]
      exact this.1

theorem scan_none {n : Nat} : ∀ {l r : List (Nat × Nat)}, IdbIter.scan n l = (none, r) →
    (l.filterMap fun (k, v) => if v = n ∧ v ≠ k then some k else none) = [] ∧ r = []
  | [], r, h => by simp [IdbIter.scan] at h; simp [h]
  | (k, v) :: rest, r, h => by
    unfold IdbIter.scan at h
    by_cases hc : v = n ∧ v ≠ k
    · rw [if_pos hc] at h; cases h
    · rw [if_neg hc] at h
      have := scan_none h
      refine ⟨?_, this.2⟩
      rw [List.filterMap_cons]
      simp only [hc, if_false]
      exact this.1

theorem idbIter_next_some (it it' : IdbIter) (x : Nat) (h : it.next = (some x, it')) :
    it.toList = x :: it'.toList ∧ it'.rest.length < it.rest.length ∧ it'.node = it.node := by
  unfold IdbIter.next at h
  have h1 : (IdbIter.scan it.node it.rest).1 = some x := by
    have := congrArg Prod.fst h; simpa using this
  have h2 : it' = { it with rest := (IdbIter.scan it.node it.rest).2 } := by
    have := congrArg Prod.snd h; simpa using this.symm
  have hs : IdbIter.scan it.node it.rest = (some x, it'.rest) := by
    rw [h2]; exact Prod.ext h1 rfl
  have := scan_some hs
  subst h2
  exact ⟨this.1, this.2, rfl⟩

theorem idbIter_next_none (it it' : IdbIter) (h : it.next = (none, it')) :
    it.toList = [] ∧ it'.rest = [] ∧ it'.next = (none, it') := by
  unfold IdbIter.next at h
  have h1 : (IdbIter.scan it.node it.rest).1 = none := by
    have := congrArg Prod.fst h; simpa using this
  have h2 : it' = { it with rest := (IdbIter.scan it.node it.rest).2 } := by
    have := congrArg Prod.snd h; simpa using this.symm
  have hs : IdbIter.scan it.node it.rest = (none, it'.rest) := by
    rw [h2]; exact Prod.ext h1 rfl
  have := scan_none hs
  refine ⟨this.1, this.2, ?_⟩
  have hit : it' = ⟨[], it'.node⟩ := by
    cases it' with
    | mk r n => simp at this; simp [this.2]
  rw [hit]
  simp [IdbIter.next, IdbIter.scan]

theorem idbIter_take : ∀ (k : Nat) (it : IdbIter), it.take k = it.toList.take k
  | 0, it => by simp [IdbIter.take]
  | k+1, it => by
    unfold IdbIter.take
    cases hn : it.next with
    | mk o it' =>
      cases o with
      | none => simp [(idbIter_next_none it it' hn).1]
      | some x =>
        have := idbIter_next_some it it' x hn
        simp [this.1, idbIter_take k it']

theorem idbIter_toList_le (it : IdbIter) : it.toList.length ≤ it.rest.length := by
  unfold IdbIter.toList
  exact List.length_filterMap_le _ _

/-! ### ids that are not nodes -/

theorem not_reach_of_not_node {g : MGraph} (hwf : g.WellFormed) {root b : Nat} (hroot : root ∈ g.nodes)
    (hb : b ∉ g.nodes) : ¬ Reach g root b :=
  fun h => hb (W2Post.reach_mem_nodes hwf hroot h)

/-- a node that (strictly) dominates a reachable node is itself reachable, hence a node -/
theorem dominator_mem_nodes {g : MGraph} (hwf : g.WellFormed) {root a b : Nat} (hroot : root ∈ g.nodes)
    (hr : Reach g root b) (hd : Dominates g root a b) : a ∈ g.nodes := by
  obtain ⟨p, hp⟩ := reach_walk hr
  exact W2Post.reach_mem_nodes hwf hroot (walk_mem_reach hp a (hd p hp))

/-! ### the answers depend on the adjacency relation only -/

section congr
variable {g g' : MGraph}

theorem walk_congr (ha : ∀ a b, g.Adj a b ↔ g'.Adj a b) {r b : Nat} {p : List Nat} :
    Walk g r b p → Walk g' r b p := by
  intro h
  induction h with
  | start => exact Walk.start
  | step _ hadj ih => exact Walk.step ih ((ha _ _).mp hadj)

theorem walk_iff (ha : ∀ a b, g.Adj a b ↔ g'.Adj a b) {r b : Nat} {p : List Nat} :
    Walk g r b p ↔ Walk g' r b p :=
  ⟨walk_congr ha, walk_congr fun a b => (ha a b).symm⟩

theorem reach_congr (ha : ∀ a b, g.Adj a b ↔ g'.Adj a b) {a b : Nat} : Reach g a b → Reach g' a b := by
  intro h
  induction h with
  | refl => exact Reach.refl _
  | step _ hadj ih => exact Reach.step ih ((ha _ _).mp hadj)

theorem reach_iff (ha : ∀ a b, g.Adj a b ↔ g'.Adj a b) (a b : Nat) : Reach g a b ↔ Reach g' a b :=
  ⟨reach_congr ha, reach_congr fun a b => (ha a b).symm⟩

theorem dominates_iff (ha : ∀ a b, g.Adj a b ↔ g'.Adj a b) (r a b : Nat) :
    Dominates g r a b ↔ Dominates g' r a b := by
  unfold Dominates
  constructor
  · intro h p hp; exact h p ((walk_iff ha).mpr hp)
  · intro h p hp; exact h p ((walk_iff ha).mp hp)

theorem isIdom_iff (ha : ∀ a b, g.Adj a b ↔ g'.Adj a b) (r a b : Nat) :
    IsIdom g r a b ↔ IsIdom g' r a b := by
  unfold IsIdom StrictlyDominates
  rw [reach_iff ha, dominates_iff ha]
  constructor
  · rintro ⟨h1, h2, h3⟩
    exact ⟨h1, h2, fun c hc => (dominates_iff ha r c a).mp (h3 c ⟨hc.1, (dominates_iff ha r c b).mpr hc.2⟩)⟩
  · rintro ⟨h1, h2, h3⟩
    exact ⟨h1, h2, fun c hc => (dominates_iff ha r c a).mpr (h3 c ⟨hc.1, (dominates_iff ha r c b).mp hc.2⟩)⟩

open Classical in
theorem countClasses_congr (hr : ∀ a b, Reach g a b ↔ Reach g' a b) :
    ∀ (l earlier : List Nat), countClasses g earlier l = countClasses g' earlier l
  | [], _ => rfl
  | x :: rest, earlier => by
    unfold countClasses
    rw [countClasses_congr hr rest (x :: earlier)]
    have : (∃ y ∈ earlier, Reach g y x) ↔ (∃ y ∈ earlier, Reach g' y x) := by
      constructor
      · rintro ⟨y, hy, h⟩; exact ⟨y, hy, (hr y x).mp h⟩
      · rintro ⟨y, hy, h⟩; exact ⟨y, hy, (hr y x).mpr h⟩
    simp only [this]

theorem numComponents_congr (hn : g.nodes = g'.nodes) (ha : ∀ a b, g.Adj a b ↔ g'.Adj a b) :
    numComponents g = numComponents g' := by
  unfold numComponents
  rw [hn]
  exact countClasses_congr (reach_iff ha) _ _

theorem cutVertex_iff (hn : g.nodes = g'.nodes) (ha : ∀ a b, g.Adj a b ↔ g'.Adj a b) (x : Nat) :
    CutVertex g x ↔ CutVertex g' x := by
  unfold CutVertex
  have h1 : numComponents (g.removeNode x) = numComponents (g'.removeNode x) := by
    apply numComponents_congr
    · simp [MGraph.removeNode, hn]
    · intro a b
      rw [adj_removeNode, adj_removeNode, ha]
  rw [h1, numComponents_congr hn ha, hn]

end congr

/-- adding edges that run parallel to existing ones (in the given orientation) changes no adjacency -/
theorem adj_addParallel (g : MGraph) (extra : List Edge)
    (h : ∀ e ∈ extra, ∃ e' ∈ g.edges, e'.src = e.src ∧ e'.tgt = e.tgt) (a b : Nat) :
    ({ g with edges := g.edges ++ extra } : MGraph).Adj a b ↔ g.Adj a b := by
  unfold MGraph.Adj
  constructor
  · rintro ⟨e, he, hc⟩
    rcases List.mem_append.mp he with he | he
    · exact ⟨e, he, hc⟩
    · obtain ⟨e', he', hs, ht⟩ := h e he
      exact ⟨e', he', by rw [hs, ht]; exact hc⟩
  · rintro ⟨e, he, hc⟩
    exact ⟨e, List.mem_append.mpr (Or.inl he), hc⟩

end PetgraphModel.C16P.W6
