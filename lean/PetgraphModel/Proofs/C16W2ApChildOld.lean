import PetgraphModel.Proofs.C16W2ApInv
/-
C16, second wave — articulation points, Part I (e): the invariant is preserved by a `child` step
whose target is already visited (edge to the parent: nothing happens; any other edge: low-link
update).
-/
namespace PetgraphModel.C16P.W2Ap
open PetgraphModel MGraph C16M

section
variable {v : View} {u t : Nat} {P R : List Nat} {rest : List (Nat × FS)} {st : AP}

theorem core_adv (C : Core v ((u, .run P (t :: R)) :: rest) st) (ht : t ∈ st.visited) :
    Core v ((u, .run (P ++ [t]) R) :: rest) st := by
  have hmem : (u, FS.run P (t :: R)) ∈ (u, FS.run P (t :: R)) :: rest := List.mem_cons_self ..
  have hfin : ∀ x, Finished ((u, .run (P ++ [t]) R) :: rest) st x ↔ Finished ((u, .run P (t :: R)) :: rest) st x :=
    fun x => finished_head_iff u _ _ (by intro h; cases h) (by intro h; cases h) rest st x
  refine
    { tab := C.tab, gvalid := ?_, gnodup := by simpa using C.gnodup, disc_vis := C.disc_vis,
      disc_lt := C.disc_lt, disc_inj := C.disc_inj, par_vis := C.par_vis, par_lt := C.par_lt,
      par_unvis := ?_, chain := chain_head_state _ _ _ _ _ C.chain,
      pend_unvis := ?_, nonpend_vis := ?_, run_split := ?_, proc_vis := ?_, done_vis := ?_,
      desc := ?_, done_desc := ?_ }
  · intro x s hm
    cases List.mem_cons.mp hm with
    | inl h => cases h; exact C.gvalid u _ hmem
    | inr h => exact C.gvalid x s (List.mem_cons_of_mem _ h)
  · intro i p hp hiv
    obtain ⟨r', hr'⟩ := C.par_unvis i p hp hiv
    cases hr'
  · intro x hm
    cases List.mem_cons.mp hm with
    | inl h => cases h
    | inr h => exact C.pend_unvis x (List.mem_cons_of_mem _ h)
  · intro x s hm hs
    cases List.mem_cons.mp hm with
    | inl h => cases h; exact C.nonpend_vis u _ hmem (by intro h; cases h)
    | inr h => exact C.nonpend_vis x s (List.mem_cons_of_mem _ h) hs
  · intro x P' R' hm
    cases List.mem_cons.mp hm with
    | inl h => cases h; rw [C.run_split u P (t :: R) hmem]; simp
    | inr h => exact C.run_split x P' R' (List.mem_cons_of_mem _ h)
  · intro x P' R' w hm hw
    have key : ∀ P0 R0, (x, FS.run P0 R0) ∈ (u, FS.run P (t :: R)) :: rest → w ∈ P0 →
        w ∈ st.visited ∨ (w, FS.pend) ∈ (u, FS.run (P ++ [t]) R) :: rest := by
      intro P0 R0 h0 hw0
      rcases C.proc_vis x P0 R0 w h0 hw0 with h1 | h1
      · exact Or.inl h1
      · cases List.mem_cons.mp h1 with
        | inl h => cases h
        | inr h => exact Or.inr (List.mem_cons_of_mem _ h)
    cases List.mem_cons.mp hm with
    | inl h =>
      cases h
      rcases List.mem_append.mp hw with hw' | hw'
      · exact key P (t :: R) hmem hw'
      · simp only [List.mem_singleton] at hw'; subst hw'; exact Or.inl ht
    | inr h => exact key P' R' (List.mem_cons_of_mem _ h) hw
  · intro x w hf hw
    exact C.done_vis x w ((hfin x).mp hf) hw
  · intro x u' s hx hm hu' hle
    cases List.mem_cons.mp hm with
    | inl h => cases h; exact C.desc x u _ hx hmem hu' hle
    | inr h => exact C.desc x u' s hx (List.mem_cons_of_mem _ h) hu' hle
  · intro x w hf hw hlt
    exact C.done_desc x w ((hfin x).mp hf) hw hlt

theorem low_adv_same (L : LowInv v ((u, .run P (t :: R)) :: rest) st) (hp : pO st u = some t) :
    LowInv v ((u, .run (P ++ [t]) R) :: rest) st := by
  have hmem : (u, FS.run P (t :: R)) ∈ (u, FS.run P (t :: R)) :: rest := List.mem_cons_self ..
  have hfin : ∀ x, Finished ((u, .run (P ++ [t]) R) :: rest) st x ↔ Finished ((u, .run P (t :: R)) :: rest) st x :=
    fun x => finished_head_iff u _ _ (by intro h; cases h) (by intro h; cases h) rest st x
  have hfold : ∀ x, Folded ((u, .run (P ++ [t]) R) :: rest) st x ↔ Folded ((u, .run P (t :: R)) :: rest) st x :=
    fun x => folded_head_iff u _ _ rest st x
  refine { low_le := L.low_le, proc_low := ?_, done_low := ?_, low_fold := ?_, low_att := ?_ }
  · intro x P' R' w hm hw hwv hwp
    cases List.mem_cons.mp hm with
    | inl h =>
      cases h
      rcases List.mem_append.mp hw with hw' | hw'
      · exact L.proc_low u P (t :: R) w hmem hw' hwv hwp
      · simp only [List.mem_singleton] at hw'; subst hw'; exact (hwp hp.symm).elim
    | inr h => exact L.proc_low x P' R' w (List.mem_cons_of_mem _ h) hw hwv hwp
  · intro x w hf hw hwp
    exact L.done_low x w ((hfin x).mp hf) hw hwp
  · intro c u' hp' hf
    exact L.low_fold c u' hp' ((hfold c).mp hf)
  · intro x hxv
    rcases L.low_att x hxv with h1 | ⟨w, hw, hwv, h1⟩ | ⟨c', hc', hf, h1⟩
    · exact Or.inl h1
    · exact Or.inr (Or.inl ⟨w, hw, hwv, h1⟩)
    · exact Or.inr (Or.inr ⟨c', hc', (hfold c').mpr hf, h1⟩)

theorem minU_some (a b : Nat) : minU (some a) (some b) = some (min a b) := rfl

theorem low_adv_back (hi : IndexOk v) (C : Core v ((u, .run P (t :: R)) :: rest) st)
    (L : LowInv v ((u, .run P (t :: R)) :: rest) st) (ht : t ∈ st.visited) :
    LowInv v ((u, .run (P ++ [t]) R) :: rest) (stLow st u (minU (lO st u) (dO st t))) := by
  have hmem : (u, FS.run P (t :: R)) ∈ (u, FS.run P (t :: R)) :: rest := List.mem_cons_self ..
  have huv : u ∈ st.visited := C.nonpend_vis u _ hmem (by intro h; cases h)
  have hul : u < st.low.length := (C.lt_nb hi (C.gvalid u _ hmem)).2.2.1
  have hmin : minU (lO st u) (dO st t) = some (min (lN st u) (dN st t)) := by
    rw [(L.lO_some huv).1, C.dO_some ht]; rfl
  have hule := (L.lO_some huv).2
  rw [hmin]
  have hlO : ∀ j, lO (stLow st u (some (min (lN st u) (dN st t)))) j =
      if j = u then some (min (lN st u) (dN st t)) else lO st j := fun j => lO_stLow st u j _ hul
  have hlN : ∀ j, lN (stLow st u (some (min (lN st u) (dN st t)))) j =
      if j = u then min (lN st u) (dN st t) else lN st j := by
    intro j; rw [lN_stLow st u j _ hul]; rfl
  have hlNle : ∀ j, lN (stLow st u (some (min (lN st u) (dN st t)))) j ≤ lN st j := by
    intro j; rw [hlN]; split
    · subst_vars; exact Nat.min_le_left _ _
    · exact Nat.le_refl _
  have hfin : ∀ x, Finished ((u, .run (P ++ [t]) R) :: rest) st x ↔ Finished ((u, .run P (t :: R)) :: rest) st x :=
    fun x => finished_head_iff u _ _ (by intro h; cases h) (by intro h; cases h) rest st x
  have hfold : ∀ x, Folded ((u, .run (P ++ [t]) R) :: rest) st x ↔ Folded ((u, .run P (t :: R)) :: rest) st x :=
    fun x => folded_head_iff u _ _ rest st x
  refine { low_le := ?_, proc_low := ?_, done_low := ?_, low_fold := ?_, low_att := ?_ }
  · intro i hiv
    by_cases hiu : i = u
    · subst hiu
      refine ⟨min (lN st i) (dN st t), by rw [hlO, if_pos rfl], ?_⟩
      show _ ≤ dN st i
      have := Nat.min_le_left (lN st i) (dN st t)
      omega
    · obtain ⟨l, h1, h2⟩ := L.low_le i hiv
      exact ⟨l, by rw [hlO, if_neg hiu]; exact h1, h2⟩
  · intro x P' R' w hm hw hwv hwp
    show _ ≤ dN st w
    cases List.mem_cons.mp hm with
    | inl h =>
      cases h
      rcases List.mem_append.mp hw with hw' | hw'
      · have := L.proc_low u P (t :: R) w hmem hw' hwv hwp
        have := hlNle u
        omega
      · simp only [List.mem_singleton] at hw'; subst hw'
        rw [hlN, if_pos rfl]; exact Nat.min_le_right _ _
    | inr h =>
      have := L.proc_low x P' R' w (List.mem_cons_of_mem _ h) hw hwv hwp
      have := hlNle x
      omega
  · intro x w hf hw hwp
    show _ ≤ dN st w
    have := L.done_low x w ((hfin x).mp hf) hw hwp
    have := hlNle x
    omega
  · intro c u' hp' hf
    have hf' := (hfold c).mp hf
    have hcu : c ≠ u := folded_ne_head hf'
    rw [hlN c, if_neg hcu]
    have := L.low_fold c u' hp' hf'
    have := hlNle u'
    omega
  · intro x hxv
    show _ = dN st x ∨ (∃ w, _ ∧ _ ∧ _ = dN st w) ∨ _
    by_cases hxu : x = u
    · subst hxu
      rw [hlN, if_pos rfl]
      by_cases hle : lN st x ≤ dN st t
      · have hm : min (lN st x) (dN st t) = lN st x := Nat.min_eq_left hle
        rcases L.low_att x hxv with h1 | ⟨w, hw, hwv, h1⟩ | ⟨c', hc', hf, h1⟩
        · exact Or.inl (hm.trans h1)
        · exact Or.inr (Or.inl ⟨w, hw, hwv, hm.trans h1⟩)
        · refine Or.inr (Or.inr ⟨c', hc', (hfold c').mpr hf, ?_⟩)
          rw [hlN c', if_neg (folded_ne_head hf)]; exact hm.trans h1
      · have hm : min (lN st x) (dN st t) = dN st t := Nat.min_eq_right (by omega)
        refine Or.inr (Or.inl ⟨t, ?_, ht, hm⟩)
        rw [← List.mem_reverse, C.run_split x P (t :: R) hmem]; simp
    · rw [hlN, if_neg hxu]
      rcases L.low_att x hxv with h1 | ⟨w, hw, hwv, h1⟩ | ⟨c', hc', hf, h1⟩
      · exact Or.inl h1
      · exact Or.inr (Or.inl ⟨w, hw, hwv, h1⟩)
      · refine Or.inr (Or.inr ⟨c', hc', (hfold c').mpr hf, ?_⟩)
        rw [hlN, if_neg (folded_ne_head hf)]; exact h1

theorem aps_adv (A : ApsInv ((u, .run P (t :: R)) :: rest) st) :
    ApsInv ((u, .run (P ++ [t]) R) :: rest) st := by
  have hfin : ∀ x, Finished ((u, .run (P ++ [t]) R) :: rest) st x ↔ Finished ((u, .run P (t :: R)) :: rest) st x :=
    fun x => finished_head_iff u _ _ (by intro h; cases h) (by intro h; cases h) rest st x
  have hfold : ∀ x, Folded ((u, .run (P ++ [t]) R) :: rest) st x ↔ Folded ((u, .run P (t :: R)) :: rest) st x :=
    fun x => folded_head_iff u _ _ rest st x
  refine { aps_vis := A.aps_vis, aps_sound := ?_, aps_nonroot := ?_, aps_root := ?_ }
  · intro i hia
    rcases A.aps_sound i hia with ⟨q, c', h1, h2, h3, h4⟩ | h
    · exact Or.inl ⟨q, c', h1, h2, (hfold c').mpr h3, h4⟩
    · exact Or.inr h
  · intro u' q c' h1 h2 hf hle
    exact A.aps_nonroot u' q c' h1 h2 ((hfold c').mp hf) hle
  · intro r c1 c2 h0 hf hne h1 h2
    exact A.aps_root r c1 c2 h0 ((hfin r).mp hf) hne h1 h2

end

/-- a low-link update of the head of the gray path does not disturb `ApsInv` -/
theorem aps_stLow_head {u : Nat} {s : FS} {rest : List (Nat × FS)} {st : AP}
    (A : ApsInv ((u, s) :: rest) st) (x : Option Nat) (hul : u < st.low.length) :
    ApsInv ((u, s) :: rest) (stLow st u x) := by
  have hlN : ∀ c, Folded ((u, s) :: rest) st c → lN (stLow st u x) c = lN st c := by
    intro c hf
    rw [lN_stLow st u c x hul, if_neg (folded_ne_head hf)]
  refine { aps_vis := A.aps_vis, aps_sound := ?_, aps_nonroot := ?_, aps_root := A.aps_root }
  · intro i hia
    rcases A.aps_sound i hia with ⟨q, c', h1, h2, h3, h4⟩ | h
    · exact Or.inl ⟨q, c', h1, h2, h3, by rw [hlN c' h3]; exact h4⟩
    · exact Or.inr h
  · intro u' q c' h1 h2 hf hle
    rw [hlN c' hf] at hle
    exact A.aps_nonroot u' q c' h1 h2 hf hle

end PetgraphModel.C16P.W2Ap
