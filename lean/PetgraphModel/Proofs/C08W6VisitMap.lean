import PetgraphModel.Model.C08VisitMap
import PetgraphModel.Driver.C08
/-
Wave 6 (corners of C08): the list model of `VisitMap` + `Visitable::reset_map` refines the set
specification for every op sequence; the result normalisation of `dfsvx` (visitor return types
`()`, `Control<B>`, `Result<Control<B>, E>`, `Result<(), E>`) and the script/kind check.
-/
namespace PetgraphModel.TravProofs
open PetgraphModel PetgraphModel.Trav

/-- the model state `m` represents the set `s` -/
def VRel (m : List Nat) (s : Nat → Bool) : Prop := ∀ x, x ∈ m ↔ s x = true

theorem vrel_nil : VRel [] (fun _ => false) := fun _ => by simp

theorem vrel_contains {m : List Nat} {s : Nat → Bool} (h : VRel m s) (x : Nat) : m.contains x = s x := by
  by_cases hx : x ∈ m
  · have := (h x).mp hx; simp [hx, this]
  · have : s x = false := by
      cases hs : s x with
      | false => rfl
      | true => exact absurd ((h x).mpr hs) hx
    simp [hx, this]

/-- one op: same answer, and the states stay related -/
theorem vstep_refines (m : List Nat) (s : Nat → Bool) (h : VRel m s) (op : VMap.Op) :
    (VMap.step m op).2 = (VMap.specStep s op).2 ∧ VRel (VMap.step m op).1 (VMap.specStep s op).1 := by
  cases op with
  | visit a =>
    have hca := vrel_contains h a
    by_cases hm : a ∈ m
    · have hs : s a = true := (h a).mp hm
      refine ⟨by simp [VMap.step, VMap.specStep, hm, hs], fun x => ?_⟩
      simp only [VMap.step, List.contains_eq_mem, hm, decide_true, if_true, VMap.specStep, Bool.or_eq_true, beq_iff_eq]
      constructor
      · intro hx; exact Or.inr ((h x).mp hx)
      · rintro (rfl | hx)
        · exact hm
        · exact (h x).mpr hx
    · have hs : s a = false := by
        cases hs : s a with
        | false => rfl
        | true => exact absurd ((h a).mpr hs) hm
      refine ⟨by simp [VMap.step, VMap.specStep, hm, hs], fun x => ?_⟩
      simp only [VMap.step, List.contains_eq_mem, hm, decide_false, Bool.false_eq_true, if_false, VMap.specStep,
        List.mem_cons, Bool.or_eq_true, beq_iff_eq]
      constructor
      · rintro (rfl | hx)
        · exact Or.inl rfl
        · exact Or.inr ((h x).mp hx)
      · rintro (rfl | hx)
        · exact Or.inl rfl
        · exact Or.inr ((h x).mpr hx)
  | isVisited a =>
    refine ⟨?_, ?_⟩
    · simp only [VMap.step, VMap.specStep]; rw [vrel_contains h a]
    · simpa [VMap.step, VMap.specStep] using h
  | unvisit a =>
    by_cases hm : a ∈ m
    · have hs : s a = true := (h a).mp hm
      refine ⟨by simp [VMap.step, VMap.specStep, hm, hs], fun x => ?_⟩
      simp only [VMap.step, List.contains_eq_mem, hm, decide_true, if_true, VMap.specStep, List.mem_filter,
        Bool.and_eq_true, bne_iff_ne, ne_eq]
      constructor
      · rintro ⟨hx, hne⟩; exact ⟨hne, (h x).mp hx⟩
      · rintro ⟨hne, hx⟩; exact ⟨(h x).mpr hx, hne⟩
    · have hs : s a = false := by
        cases hs : s a with
        | false => rfl
        | true => exact absurd ((h a).mpr hs) hm
      refine ⟨by simp [VMap.step, VMap.specStep, hm, hs], fun x => ?_⟩
      simp only [VMap.step, List.contains_eq_mem, hm, decide_false, Bool.false_eq_true, if_false, VMap.specStep,
        Bool.and_eq_true, bne_iff_ne, ne_eq]
      constructor
      · intro hx; exact ⟨fun hxa => hm (hxa ▸ hx), (h x).mp hx⟩
      · rintro ⟨_, hx⟩; exact (h x).mpr hx
  | reset => exact ⟨rfl, fun _ => by simp [VMap.step, VMap.specStep]⟩

theorem vrun_refines (ops : List VMap.Op) : ∀ (m : List Nat) (s : Nat → Bool), VRel m s →
    VMap.run m ops = VMap.specRun s ops := by
  induction ops with
  | nil => intro m s _; rfl
  | cons op t ih =>
    intro m s h
    obtain ⟨h1, h2⟩ := vstep_refines m s h op
    simp only [VMap.run, VMap.specRun, h1, ih _ _ h2]

/-- the model keeps its list duplicate-free (what `Nodup` of the walkers' `disc` lists rests on) -/
theorem vstep_nodup (m : List Nat) (h : m.Nodup) (op : VMap.Op) : (VMap.step m op).1.Nodup := by
  cases op with
  | visit a =>
    by_cases hm : a ∈ m
    · simpa [VMap.step, hm] using h
    · simpa [VMap.step, hm] using h
  | isVisited a => simpa [VMap.step] using h
  | unvisit a =>
    by_cases hm : a ∈ m
    · have e : (VMap.step m (.unvisit a)).1 = m.filter (· != a) := by simp [VMap.step, hm]
      rw [e]; exact h.filter _
    · simpa [VMap.step, hm] using h
  | reset => simp [VMap.step]

/-! ### `dfsvx` -/

def ctlChar (c : Char) : Bool := c == 'c' || c == 'p' || c == 'b' || c == 'e'

def ctlOf (c : Char) : Option Ctl :=
  if c == 'c' then some Ctl.cont else if c == 'p' then some Ctl.prune
  else if c == 'b' || c == 'e' then some Ctl.brk else none

theorem ctlOf_some (c : Char) (h : ctlChar c = true) : ∃ k, ctlOf c = some k := by
  unfold ctlChar at h
  unfold ctlOf
  by_cases h1 : (c == 'c') = true
  · exact ⟨_, by rw [if_pos h1]⟩
  · by_cases h2 : (c == 'p') = true
    · exact ⟨_, by rw [if_neg h1, if_pos h2]⟩
    · have h3 : (c == 'b' || c == 'e') = true := by
        simp only [Bool.or_eq_true] at h ⊢
        rcases h with ((hc | hc) | hc) | hc
        · exact absurd hc h1
        · exact absurd hc h2
        · exact Or.inl hc
        · exact Or.inr hc
      exact ⟨_, by rw [if_neg h1, if_neg h2, if_pos h3]⟩

theorem filterMap_ctl_length (l : List Char) (h : l.all ctlChar = true) :
    (l.filterMap ctlOf).length = l.length := by
  induction l with
  | nil => rfl
  | cons c t ih =>
    simp only [List.all_cons, Bool.and_eq_true] at h
    obtain ⟨k, hk⟩ := ctlOf_some c h.1
    rw [List.filterMap_cons_some hk, List.length_cons, List.length_cons, ih h.2]

theorem all_imp {α} (p q : α → Bool) (l : List α) (hpq : ∀ x, p x = true → q x = true) (h : l.all p = true) :
    l.all q = true := by
  rw [List.all_eq_true] at h ⊢
  exact fun x hx => hpq x (h x hx)

theorem kindOk_chars (kind script : String) (h : C08.kindOkB kind script = true) :
    script.toList.all ctlChar = true := by
  unfold C08.kindOkB at h
  split at h
  · exact all_imp _ _ _ (fun x hx => by unfold ctlChar; simp [hx]) h
  · exact all_imp _ _ _ (fun x hx => by
      unfold ctlChar; simp only [Bool.or_eq_true] at hx ⊢; rcases hx with hx | hx <;> simp [hx]) h
  · exact all_imp _ _ _ (fun x hx => by
      unfold ctlChar; simp only [Bool.or_eq_true] at hx ⊢; rcases hx with (hx | hx) | hx <;> simp [hx]) h
  · exact all_imp _ _ _ (fun x hx => by unfold ctlChar; exact hx) h
  · exact absurd h (by simp)

/-- every character of an accepted script is interpreted: the `k`-th control is the `k`-th character -/
theorem parseCtlX_length (kind script : String) (h : C08.kindOkB kind script = true) :
    (C08.parseCtlX script).length = script.toList.length := by
  have e : C08.parseCtlX script = script.toList.filterMap ctlOf := rfl
  rw [e]
  exact filterMap_ctl_length _ (kindOk_chars kind script h)

theorem normResult_cases (script : String) (ctl : List Ctl) (n : Nat) (ri res : String)
    (h : C08.normResult script ctl n ri = some res) :
    (res = ri ∧ (ri = "cont" ∨ ri = "panic")) ∨
    (res = "break" ∧ 0 < n ∧ ri = C08.breakTok script (n - 1) ∧ ctlAt ctl (n - 1) = .brk) := by
  unfold C08.normResult at h
  split at h
  · rename_i h1
    simp only [Option.some.injEq] at h
    simp only [Bool.or_eq_true, beq_iff_eq] at h1
    exact Or.inl ⟨h.symm, h1⟩
  · split at h
    · rename_i h2
      simp only [Option.some.injEq] at h
      simp only [Bool.and_eq_true, decide_eq_true_eq, beq_iff_eq] at h2
      exact Or.inr ⟨h.symm, h2.1.1, h2.1.2, h2.2⟩
    · exact absurd h (by simp)

end PetgraphModel.TravProofs
