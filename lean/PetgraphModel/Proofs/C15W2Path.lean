import PetgraphModel.Proofs.C15W2Base
/-
C15 wave 2 — alternating paths as lists of matched pairs `(outer position, inner position)`; the
terminal vertex (the start of the search) is kept separately.  `Core`/`Flipped` describe the `mate`
entries after `augment_path` has re-matched such a path.
-/
namespace PetgraphModel.C15W2
open PetgraphModel

abbrev PL := List (Nat × Nat)

/-- the vertices of a path, in order -/
def verts : PL → List Nat
  | [] => []
  | (p, q) :: r => p :: q :: verts r

/-- the first vertex of a path followed by the vertex `z` -/
def fstOr : PL → Nat → Nat
  | [], z => z
  | (p, _) :: _, _ => p

/-- the last vertex of a path preceded by the vertex `w` -/
def lastSnd : PL → Nat → Nat
  | [], w => w
  | (_, q) :: r, _ => lastSnd r q

/-- the path walked backwards -/
def revswap : PL → PL
  | [] => []
  | (p, q) :: r => revswap r ++ [(q, p)]

@[simp] theorem verts_nil : verts [] = [] := rfl
@[simp] theorem verts_cons (p q : Nat) (r : PL) : verts ((p, q) :: r) = p :: q :: verts r := rfl
@[simp] theorem fstOr_nil (z : Nat) : fstOr [] z = z := rfl
@[simp] theorem fstOr_cons (p q : Nat) (r : PL) (z : Nat) : fstOr ((p, q) :: r) z = p := rfl
@[simp] theorem lastSnd_nil (w : Nat) : lastSnd [] w = w := rfl
@[simp] theorem lastSnd_cons (p q : Nat) (r : PL) (w : Nat) : lastSnd ((p, q) :: r) w = lastSnd r q := rfl
@[simp] theorem revswap_nil : revswap [] = [] := rfl
@[simp] theorem revswap_cons (p q : Nat) (r : PL) : revswap ((p, q) :: r) = revswap r ++ [(q, p)] := rfl

theorem verts_append : ∀ (l1 l2 : PL), verts (l1 ++ l2) = verts l1 ++ verts l2
  | [], _ => rfl
  | (p, q) :: r, l2 => by simp [verts_append r l2]

theorem fstOr_append : ∀ (l1 l2 : PL) (z : Nat), fstOr (l1 ++ l2) z = fstOr l1 (fstOr l2 z)
  | [], _, _ => rfl
  | (_, _) :: _, _, _ => rfl

theorem lastSnd_append : ∀ (l1 l2 : PL) (w : Nat), lastSnd (l1 ++ l2) w = lastSnd l2 (lastSnd l1 w)
  | [], _, _ => rfl
  | (p, q) :: r, l2, w => by simp [lastSnd_append r l2 q]

theorem mem_verts_revswap : ∀ (l : PL) (x : Nat), x ∈ verts (revswap l) ↔ x ∈ verts l
  | [], _ => Iff.rfl
  | (p, q) :: r, x => by
    rw [revswap_cons, verts_append, List.mem_append, mem_verts_revswap r x]
    simp only [verts_cons, verts_nil, List.mem_cons, List.not_mem_nil, or_false]
    constructor
    · rintro (h | h | h)
      · exact Or.inr (Or.inr h)
      · exact Or.inr (Or.inl h)
      · exact Or.inl h
    · rintro (h | h | h)
      · exact Or.inr (Or.inr h)
      · exact Or.inr (Or.inl h)
      · exact Or.inl h

theorem mem_revswap : ∀ (l : PL) (p q : Nat), (p, q) ∈ revswap l ↔ (q, p) ∈ l
  | [], _, _ => by simp
  | (a, b) :: r, p, q => by
    rw [revswap_cons, List.mem_append, mem_revswap r p q]
    simp only [List.mem_cons, List.not_mem_nil, or_false, Prod.mk.injEq]
    constructor
    · rintro (h | ⟨h1, h2⟩)
      · exact Or.inr h
      · exact Or.inl ⟨h2, h1⟩
    · rintro (⟨h1, h2⟩ | h)
      · exact Or.inr ⟨h2, h1⟩
      · exact Or.inl h

theorem fstOr_revswap : ∀ (l : PL) (z : Nat), fstOr (revswap l) z = lastSnd l z
  | [], _ => rfl
  | (p, q) :: r, z => by
    rw [revswap_cons, fstOr_append, lastSnd_cons, fstOr_cons, fstOr_revswap r q]

theorem lastSnd_revswap : ∀ (l : PL) (w : Nat), lastSnd (revswap l) w = fstOr l w
  | [], _ => rfl
  | (p, q) :: r, w => by
    rw [revswap_cons, lastSnd_append]; rfl

theorem revswap_length : ∀ (l : PL), (revswap l).length = l.length
  | [] => rfl
  | (p, q) :: r => by simp [revswap_length r]

theorem mem_verts_of_mem {l : PL} {p q : Nat} (h : (p, q) ∈ l) : p ∈ verts l ∧ q ∈ verts l := by
  induction l with
  | nil => cases h
  | cons a r ih =>
    obtain ⟨a1, a2⟩ := a
    cases List.mem_cons.mp h with
    | inl e =>
      obtain ⟨rfl, rfl⟩ := Prod.mk.inj e
      simp
    | inr e =>
      have := ih e
      simp [this.1, this.2]

theorem mem_verts_iff {l : PL} {x : Nat} : x ∈ verts l ↔ ∃ p q, (p, q) ∈ l ∧ (x = p ∨ x = q) := by
  induction l with
  | nil => simp
  | cons a r ih =>
    obtain ⟨a1, a2⟩ := a
    simp only [verts_cons, List.mem_cons, ih]
    constructor
    · rintro (h | h | ⟨p, q, hm, hx⟩)
      · exact ⟨a1, a2, Or.inl rfl, Or.inl h⟩
      · exact ⟨a1, a2, Or.inl rfl, Or.inr h⟩
      · exact ⟨p, q, Or.inr hm, hx⟩
    · rintro ⟨p, q, hm | hm, hx⟩
      · obtain ⟨rfl, rfl⟩ := Prod.mk.inj hm
        cases hx with
        | inl h => exact Or.inl h
        | inr h => exact Or.inr (Or.inl h)
      · exact Or.inr (Or.inr ⟨p, q, hm, hx⟩)

theorem fstOr_mem (l : PL) (z : Nat) : fstOr l z = z ∨ (l ≠ [] ∧ fstOr l z ∈ verts l) := by
  cases l with
  | nil => exact Or.inl rfl
  | cons a r => obtain ⟨p, q⟩ := a; right; simp

theorem lastSnd_mem : ∀ (l : PL) (w : Nat), lastSnd l w = w ∨ (l ≠ [] ∧ lastSnd l w ∈ verts l)
  | [], _ => Or.inl rfl
  | (p, q) :: r, w => by
    right
    refine ⟨by simp, ?_⟩
    rw [lastSnd_cons, verts_cons]
    cases lastSnd_mem r q with
    | inl h => rw [h]; simp
    | inr h => exact List.mem_cons_of_mem _ (List.mem_cons_of_mem _ h.2)

theorem disj_of_nodup_append {l1 l2 : List Nat} (h : (l1 ++ l2).Nodup) {a : Nat} (h1 : a ∈ l1)
    (h2 : a ∈ l2) : False :=
  (List.nodup_append.mp h).2.2 a h1 a h2 rfl

theorem fstOr_mem' (l : PL) (z : Nat) : fstOr l z ∈ verts l ++ [z] := by
  cases fstOr_mem l z with
  | inl h => rw [h]; simp
  | inr h => exact List.mem_append_left _ h.2

/-! ### the re-matched path -/

/-- the new `mate` entries along the path `l` when its first vertex is matched to `w` and the vertex
after the path is `z`: `p₀ ↦ w`, `q₀ ↦ p₁`, `p₁ ↦ q₀`, …, `q_last ↦ z` (the entry of `z` is not part
of it) -/
def Core (c : Nat → Option Nat) : Nat → PL → Nat → Prop
  | _, [], _ => True
  | w, (p, q) :: r, z => c p = some w ∧ c q = some (fstOr r z) ∧ Core c q r z

theorem Core_append (c : Nat → Option Nat) : ∀ (l1 l2 : PL) (w z : Nat),
    Core c w (l1 ++ l2) z ↔ Core c w l1 (fstOr l2 z) ∧ Core c (lastSnd l1 w) l2 z
  | [], _, _, _ => by simp [Core]
  | (p, q) :: r, l2, w, z => by
    simp only [List.cons_append, Core, lastSnd_cons, Core_append c r l2 q z, fstOr_append]
    constructor
    · rintro ⟨h1, h2, h3, h4⟩; exact ⟨⟨h1, h2, h3⟩, h4⟩
    · rintro ⟨⟨h1, h2, h3⟩, h4⟩; exact ⟨h1, h2, h3, h4⟩

theorem Core_revswap (c : Nat → Option Nat) : ∀ (l : PL) (w z : Nat),
    Core c w l z ↔ Core c z (revswap l) w
  | [], _, _ => by simp [Core]
  | (p, q) :: r, w, z => by
    rw [revswap_cons, Core_append, fstOr_cons, lastSnd_revswap]
    simp only [Core, fstOr_nil, and_true]
    rw [← Core_revswap c r q z]
    constructor
    · rintro ⟨h1, h2, h3⟩; exact ⟨h3, h2, h1⟩
    · rintro ⟨h3, h2, h1⟩; exact ⟨h1, h2, h3⟩

/-- `Core` only speaks about the vertices of the path -/
theorem Core_congr (c c' : Nat → Option Nat) : ∀ (l : PL) (w z : Nat),
    (∀ x ∈ verts l, c' x = c x) → Core c w l z → Core c' w l z
  | [], _, _, _, _ => trivial
  | (p, q) :: r, w, z, h, hc => by
    obtain ⟨h1, h2, h3⟩ := hc
    refine ⟨?_, ?_, Core_congr c c' r q z (fun x hx => h x (by simp [hx])) h3⟩
    · rw [h p (by simp)]; exact h1
    · rw [h q (by simp)]; exact h2

/-! ### alternation -/

/-- every pair is matched (both ways) and the inner vertex of a pair is joined to the next outer
vertex (`sv` after the last pair) -/
def Alt (μ : Nat → Option Nat) (J : Nat → Nat → Prop) : PL → Nat → Prop
  | [], _ => True
  | (p, q) :: r, sv => μ p = some q ∧ μ q = some p ∧ J q (fstOr r sv) ∧ Alt μ J r sv

theorem Alt_append (μ : Nat → Option Nat) (J : Nat → Nat → Prop) : ∀ (l1 l2 : PL) (sv : Nat),
    Alt μ J (l1 ++ l2) sv ↔ Alt μ J l1 (fstOr l2 sv) ∧ Alt μ J l2 sv
  | [], _, _ => by simp [Alt]
  | (p, q) :: r, l2, sv => by
    simp only [List.cons_append, Alt, Alt_append μ J r l2 sv, fstOr_append]
    constructor
    · rintro ⟨h1, h2, h3, h4, h5⟩; exact ⟨⟨h1, h2, h3, h4⟩, h5⟩
    · rintro ⟨⟨h1, h2, h3, h4⟩, h5⟩; exact ⟨h1, h2, h3, h4, h5⟩

theorem Alt_revswap (μ : Nat → Option Nat) (J : Nat → Nat → Prop) (hJ : ∀ a b, J a b → J b a) :
    ∀ (l : PL) (z w : Nat), Alt μ J l z → (l ≠ [] → J (fstOr l z) w) → Alt μ J (revswap l) w
  | [], _, _, _, _ => trivial
  | (p, q) :: r, z, w, h, hl => by
    obtain ⟨h1, h2, h3, h4⟩ := h
    rw [revswap_cons, Alt_append]
    refine ⟨Alt_revswap μ J hJ r z q h4 (fun _ => hJ _ _ h3), h2, h1, ?_, trivial⟩
    simpa using hl (by simp)

theorem Alt_mem (μ : Nat → Option Nat) (J : Nat → Nat → Prop) : ∀ (l : PL) (sv : Nat), Alt μ J l sv →
    ∀ p q, (p, q) ∈ l → μ p = some q ∧ μ q = some p
  | [], _, _, _, _, h => by cases h
  | (a, b) :: r, sv, hA, p, q, h => by
    cases List.mem_cons.mp h with
    | inl e => obtain ⟨rfl, rfl⟩ := Prod.mk.inj e; exact ⟨hA.1, hA.2.1⟩
    | inr e => exact Alt_mem μ J r sv hA.2.2.2 p q e

/-! ### the first inner (non-outer) vertex of a path -/

/-- the index of the first non-outer vertex of the path (`nb` = the dummy if there is none); only the
second components can be non-outer -/
def firstInner (nb : Nat) (idx : Nat → Nat) (out : Nat → Bool) : PL → Nat
  | [] => nb
  | (_, u) :: r => if out u then firstInner nb idx out r else idx u

theorem firstInner_append_outer (nb : Nat) (idx : Nat → Nat) (out : Nat → Bool) :
    ∀ (l1 l2 : PL), (∀ p u, (p, u) ∈ l1 → out u = true) →
      firstInner nb idx out (l1 ++ l2) = firstInner nb idx out l2
  | [], _, _ => rfl
  | (p, u) :: r, l2, h => by
    simp only [List.cons_append, firstInner, h p u (List.mem_cons_self ..), if_true]
    exact firstInner_append_outer nb idx out r l2 (fun p' u' hm => h p' u' (List.mem_cons_of_mem _ hm))

/-- the first inner vertex splits the path -/
theorem firstInner_split (nb : Nat) (idx : Nat → Nat) (out : Nat → Bool) :
    ∀ (l : PL), (firstInner nb idx out l = nb ∧ ∀ p u, (p, u) ∈ l → out u = true) ∨
      ∃ pre p u rest, l = pre ++ (p, u) :: rest ∧ out u = false ∧ firstInner nb idx out l = idx u ∧
        ∀ p' u', (p', u') ∈ pre → out u' = true
  | [] => Or.inl ⟨rfl, fun _ _ h => by cases h⟩
  | (p, u) :: r => by
    by_cases hu : out u = true
    · cases firstInner_split nb idx out r with
      | inl h =>
        left
        refine ⟨by simp [firstInner, hu, h.1], ?_⟩
        intro p' u' hm
        cases List.mem_cons.mp hm with
        | inl e => obtain ⟨rfl, rfl⟩ := Prod.mk.inj e; exact hu
        | inr e => exact h.2 p' u' e
      | inr h =>
        obtain ⟨pre, p1, u1, rest, hl, hu1, hf, hpre⟩ := h
        right
        refine ⟨(p, u) :: pre, p1, u1, rest, by simp [hl], hu1, by simp [firstInner, hu, hf], ?_⟩
        intro p' u' hm
        cases List.mem_cons.mp hm with
        | inl e => obtain ⟨rfl, rfl⟩ := Prod.mk.inj e; exact hu
        | inr e => exact hpre p' u' e
    · right
      have hu' : out u = false := by simpa using hu
      exact ⟨[], p, u, r, rfl, hu', by simp [firstInner, hu'], fun _ _ h => by cases h⟩

theorem firstInner_congr (nb : Nat) (idx : Nat → Nat) (out out' : Nat → Bool) :
    ∀ (l : PL), (∀ p u, (p, u) ∈ l → out' u = out u) →
      firstInner nb idx out' l = firstInner nb idx out l
  | [], _ => rfl
  | (p, u) :: r, h => by
    simp only [firstInner, h p u (List.mem_cons_self ..)]
    rw [firstInner_congr nb idx out out' r (fun p' u' hm => h p' u' (List.mem_cons_of_mem _ hm))]

end PetgraphModel.C15W2
