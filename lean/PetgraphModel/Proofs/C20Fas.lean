import PetgraphModel.Proofs.C20Base
import PetgraphModel.Model.C20
/-
C20 — feedback arc sets and DSatur colourings: the order argument and the judges' soundness.
-/
namespace PetgraphModel.C20
open PetgraphModel PetgraphModel.MGraph PetgraphModel.Oracle

/-- the arcs kept for a position function: strictly forward ones -/
def keepForward (g : MGraph) (seq : Nat → Nat) : MGraph :=
  { g with edges := g.edges.filter fun e => seq e.src < seq e.tgt }

theorem forward_adj {g : MGraph} (hd : g.directed = true) (seq : Nat → Nat) {a b : Nat}
    (h : (keepForward g seq).Adj a b) : seq a < seq b := by
  obtain ⟨e, he, h⟩ := h
  simp only [keepForward, List.mem_filter, decide_eq_true_eq] at he
  rcases h with ⟨h1, h2⟩ | ⟨h0, _, _⟩
  · rw [← h1, ← h2]; exact he.2
  · simp [keepForward, hd] at h0

theorem forward_reach1 {g : MGraph} (hd : g.directed = true) (seq : Nat → Nat) {a b : Nat}
    (h : Reach1 (keepForward g seq) a b) : seq a < seq b := by
  induction h with
  | single hadj => exact forward_adj hd seq hadj
  | step _ hadj ih => exact Nat.lt_trans ih (forward_adj hd seq hadj)

/-- any node sequence: the forward arcs admit no cycle -/
theorem fas_acyclic (g : MGraph) (hd : g.directed = true) (seq : Nat → Nat) (x : Nat) :
    ¬ Reach1 (keepForward g seq) x x :=
  fun h => Nat.lt_irrefl _ (forward_reach1 hd seq h)

/-- a graph whose every arc goes strictly upwards for some position function has no cycle -/
theorem acyclic_of_increasing (k : MGraph) (pos : Nat → Nat) (h : ∀ a b, k.Adj a b → pos a < pos b) (x : Nat) :
    ¬ Reach1 k x x := by
  have : ∀ a b, Reach1 k a b → pos a < pos b := by
    intro a b hr
    induction hr with
    | single hadj => exact h _ _ hadj
    | step _ hadj ih => exact Nat.lt_trans ih (h _ _ hadj)
  exact fun hx => Nat.lt_irrefl _ (this x x hx)

/-- **the mirror model's answer is a feedback arc set, for every input**: whatever node sequence the
bucket machinery produces (`order` = the graph's edges in `edge_references()` order), removing the
returned arcs leaves no cycle -/
theorem fas_model_acyclic (g : MGraph) (hd : g.directed = true) (order : List Edge)
    (hall : ∀ e ∈ g.edges, e ∈ order) (x : Nat) :
    ¬ Reach1 (removeEdges g (Fas.feedbackArcSet (order.map fun e => (e.id, e.src, e.tgt)))) x x := by
  let seq := Fas.goodSequence (order.map fun e => (e.src, e.tgt))
  apply acyclic_of_increasing _ (fun x => seq.idxOf x)
  intro a b hadj
  obtain ⟨e, he, hcase⟩ := hadj
  simp only [removeEdges, List.mem_filter, Bool.not_eq_true', List.contains_eq_mem, decide_eq_false_iff_not] at he
  rcases hcase with ⟨hs, ht⟩ | ⟨h0, _, _⟩
  · have hseq : Fas.goodSequence ((order.map fun e => (e.id, e.src, e.tgt)).map fun e => (e.2.1, e.2.2)) = seq := by
      simp [seq, List.map_map, Function.comp_def]
    apply Classical.byContradiction
    intro hnot
    apply he.2
    simp only [Fas.feedbackArcSet, hseq, List.mem_map, List.mem_filter, decide_eq_true_eq]
    refine ⟨(e.id, e.src, e.tgt), ⟨⟨e, hall e he.1, rfl⟩, ?_⟩, rfl⟩
    simp only
    rw [hs, ht]
    omega
  · simp [removeEdges, hd] at h0

/-- every self-loop handed in is part of the model's answer -/
theorem fas_model_loops (order : List Edge) (e : Edge) (he : e ∈ order) (hl : e.src = e.tgt) :
    e.id ∈ Fas.feedbackArcSet (order.map fun e => (e.id, e.src, e.tgt)) := by
  simp only [Fas.feedbackArcSet, List.mem_map, List.mem_filter, decide_eq_true_eq]
  exact ⟨(e.id, e.src, e.tgt), ⟨⟨e, he, rfl⟩, by simp [hl]⟩, rfl⟩

/-! ### soundness of the feedback-arc-set judge -/

theorem judgeFas_sound (g : MGraph) (removed : List Nat) (h : judgeFas g removed = none) :
    g.directed = true ∧ (∀ i ∈ removed, ∃ e ∈ g.edges, e.id = i) ∧ removed.Nodup ∧
    (∀ e ∈ g.edges, e.src = e.tgt → e.id ∈ removed) ∧
    ∀ x, ¬ Reach1 (removeEdges g removed) x x := by
  unfold judgeFas at h
  have hd : g.directed = true := clause_holds h (by mem_lit)
  have h1 : ∀ i ∈ removed, ∃ e ∈ g.edges, e.id = i := clause_holds h (by mem_lit)
  have h2 : removed.Nodup := clause_holds h (by mem_lit)
  have h3 : ∀ e ∈ g.edges, e.src = e.tgt → e.id ∈ removed := clause_holds h (by mem_lit)
  have h4 : ∀ e ∈ (removeEdges g removed).edges,
      reachB (removeEdges g removed) e.tgt e.src = some false := clause_holds h (by mem_lit)
  refine ⟨hd, h1, h2, h3, ?_⟩
  intro x hx
  obtain ⟨w, hadj, hr⟩ := reach1_head hx
  obtain ⟨e, he, hcase⟩ := hadj
  rcases hcase with ⟨hs, ht⟩ | ⟨h0, _, _⟩
  · have := h4 e he
    have := (reachB_spec _ _ _ _ this).mpr (by rw [hs, ht]; exact hr)
    simp at this
  · simp [removeEdges, hd] at h0

/-! ### soundness of the DSatur judge -/

theorem bipartiteB_complete (g : MGraph) (hg : EndpointsOk g) (hb : Bipartite g) : bipartiteB g = true := by
  obtain ⟨f, hf⟩ := hb
  unfold bipartiteB
  rw [List.any_eq_true]
  refine ⟨g.nodes.filter f, mem_subsets.mpr List.filter_sublist, ?_⟩
  rw [List.all_eq_true]
  intro e he
  have hn := hg e he
  have h1 : (g.nodes.filter f).contains e.src = f e.src := by
    rw [Bool.eq_iff_iff]; simp [List.mem_filter, hn.1]
  have h2 : (g.nodes.filter f).contains e.tgt = f e.tgt := by
    rw [Bool.eq_iff_iff]; simp [List.mem_filter, hn.2]
  rw [h1, h2]
  have := hf e he
  cases h3 : f e.src <;> cases h4 : f e.tgt <;> simp_all

theorem judgeDsatur_sound (g : MGraph) (col : List (Nat × Nat)) (k : Nat)
    (h : judgeDsatur g col k = none) (hne : g.nodes ≠ []) :
    ColouringOk g col k ∧ (Bipartite g → k ≤ 2) := by
  unfold judgeDsatur at h
  rw [if_neg hne] at h
  have c0 : EndpointsOk g := clause_holds h (by mem_lit)
  have c7 : bipartiteB g = true → k ≤ 2 := clause_holds h (by mem_lit)
  exact ⟨⟨clause_holds h (by mem_lit), clause_holds h (by mem_lit), clause_holds h (by mem_lit),
    clause_holds h (by mem_lit), clause_holds h (by mem_lit), clause_holds h (by mem_lit)⟩,
    fun hb => c7 (bipartiteB_complete g c0 hb)⟩

end PetgraphModel.C20
