import PetgraphModel.Spec.Graph
import PetgraphModel.Model.C09Algo
/-
C09 (wave 4): the RUN-TIME CHECKS of the hypotheses of the C09 theorems (core Lean only; linked into
the driver).  Every hypothesis of a property theorem that concerns the concrete case has an executable
Boolean here which the driver evaluates on every case it judges; `Theorems/C09.lean` (section
"run-time checks of the hypotheses") proves `…B = true → hypothesis`.

  wfB        `MGraph.WellFormed`: node ids distinct, edge endpoints are nodes
  houtB      the view lists no neighbours for a non-node
  ixOkB      `to_index` below `node_bound` and injective on the nodes (`NodeIndexable`)
  sizeB      `2·|nodes| + 1 ≤ usize::MAX` (Tarjan's counters do not meet)
  compactB   every index below `node_bound` belongs to a node (`NodeCompactIndexable`)
  erSetOkB   `edge_references()` = the edges of the graph, orientation ignored, as a set
  erOkB      … as a multiset
  eoOkB      the edge-index order of `condensation`'s input enumerates the edges
  nodeB      a start node is a node
  acrossB    a `TarjanScc` used on a graph with `m` nodes before: `1 + m + |nodes| ≤ usize::MAX` (wave 6)
-/
namespace PetgraphModel.C09J
open PetgraphModel

/-- the endpoint pairs of the edges -/
def prs (g : MGraph) : List (Nat × Nat) := g.edges.map fun e => (e.src, e.tgt)

/-- orientation ignored -/
def normP (p : Nat × Nat) : Nat × Nat := if p.1 ≤ p.2 then p else (p.2, p.1)

def wfB (g : MGraph) : Bool :=
  decide g.nodes.Nodup && g.edges.all fun e => g.nodes.contains e.src && g.nodes.contains e.tgt

def houtB (v : View) : Bool :=
  v.out.all (fun r => v.g.nodes.contains r.1 || r.2.isEmpty) &&
  v.inn.all (fun r => v.g.nodes.contains r.1 || r.2.isEmpty)

def ixOkB (v : View) : Bool :=
  v.g.nodes.all (fun a => decide (v.toIndex a < v.nb)) &&
  v.g.nodes.all fun a => v.g.nodes.all fun b => v.toIndex a != v.toIndex b || a == b

def sizeB (v : View) : Bool := decide (2 * v.g.nodes.length + 1 ≤ C09M.usizeMax)

def compactB (v : View) : Bool :=
  (List.range v.nb).all fun i => v.g.nodes.any fun a => v.toIndex a == i

def erSetOkB (g : MGraph) (er : List (Nat × Nat)) : Bool :=
  er.all (fun p => (prs g).any fun q => normP q == normP p) &&
  (prs g).all fun q => er.any fun p => normP p == normP q

def erOkB (g : MGraph) (er : List (Nat × Nat)) : Bool :=
  (er.map normP).isPerm ((prs g).map normP)

def eoOkB (v : View) (eo : List Nat) : Bool := (eo.filterMap v.edge?).isPerm v.g.edges

def nodeB (g : MGraph) (a : Nat) : Bool := g.nodes.contains a

/-- room for the counters of a new `TarjanScc` that runs on a graph with `m` nodes and then on this one -/
def acrossB (m : Nat) (v : View) : Bool := decide (1 + m + v.g.nodes.length ≤ C09M.usizeMax)

end PetgraphModel.C09J
