import PetgraphModel.Spec.C16
import PetgraphModel.Oracle.Reach
/-
C16 — executable spec-level checkers (core Lean only; linked into the driver).

Everything is computed from the proved reachability oracle `reachFrom`:

* `domTable g r` : the set `R` reachable from the root and, for every `a ∈ R`, the set reachable
  from the root in `g.removeNode a`.  `DomTable.dom a b` decides "`b` is reachable and `a` dominates
  `b`", `DomTable.idom a b` decides `IsIdom`.
* `compCount g`  : the number of connected components (`numComponents`), `cutSet g` the cut vertices.

Soundness (and completeness) of the table predicates and of the `check…` functions is proved in
`Proofs/C16Judge.lean`; the statements are the first theorems of `Theorems/C16.lean`.
`none` always means "oracle fuel exhausted" and is never accepted.
-/
namespace PetgraphModel.C16O
open PetgraphModel MGraph Oracle

/-- `l.mapM f` for `Option`, written out so that it is easy to reason about -/
def mapOpt {α β : Type} (f : α → Option β) : List α → Option (List β)
  | [] => some []
  | x :: xs => match f x, mapOpt f xs with
    | some y, some ys => some (y :: ys)
    | _, _ => none

def nodupB : List Nat → Bool
  | [] => true
  | x :: xs => !xs.contains x && nodupB xs

/-- same elements (as sets) -/
def setEq (a b : List Nat) : Bool := a.all (fun x => b.contains x) && b.all (fun x => a.contains x)

structure DomTable where
  root : Nat
  R : List Nat                          -- reachable from the root
  avoid : List (Nat × List Nat)         -- a ↦ reachable from the root in `g.removeNode a`, for a ∈ R
  deriving Repr, Inhabited

def domTable (g : MGraph) (r : Nat) : Option DomTable :=
  match reachFrom g r with
  | none => none
  | some R =>
    match mapOpt (fun a => (reachFrom (g.removeNode a) r).map fun S => (a, S)) R with
    | none => none
    | some av => some { root := r, R := R, avoid := av }

namespace DomTable

/-- `b` is reachable from the root and `a` dominates `b` -/
def dom (T : DomTable) (a b : Nat) : Bool :=
  T.R.contains b && (a == b || match T.avoid.lookup a with
    | some S => !S.contains b
    | none => false)

/-- `a` is the immediate dominator of `b` -/
def idom (T : DomTable) (a b : Nat) : Bool :=
  a != b && T.dom a b && T.R.all fun c => c == b || !T.dom c b || T.dom c a

/-- the dominators of `b` (as a set) -/
def domsOf (T : DomTable) (b : Nat) : List Nat := T.R.filter fun a => T.dom a b
def strictOf (T : DomTable) (b : Nat) : List Nat := T.R.filter fun a => a != b && T.dom a b
def idomOf (T : DomTable) (b : Nat) : List Nat := T.R.filter fun a => T.idom a b
def idbOf (T : DomTable) (a : Nat) : List Nat := T.R.filter fun m => T.idom a m

/-- answer of `dominators(b)` -/
def checkDominators (T : DomTable) (b : Nat) : Option (List Nat) → Bool
  | none => !T.R.contains b
  | some o => T.R.contains b && nodupB o && setEq o (T.domsOf b)

/-- answer of `strict_dominators(b)` -/
def checkStrict (T : DomTable) (b : Nat) : Option (List Nat) → Bool
  | none => !T.R.contains b
  | some o => T.R.contains b && nodupB o && setEq o (T.strictOf b)

/-- answer of `immediate_dominator(b)` -/
def checkIdom (T : DomTable) (b : Nat) : Option Nat → Bool
  | none => b == T.root || !T.R.contains b
  | some a => T.idom a b

/-- answer of `immediately_dominated_by(a)` -/
def checkIdb (T : DomTable) (a : Nat) (o : List Nat) : Bool := nodupB o && setEq o (T.idbOf a)

end DomTable

/-! ### connected components and cut vertices -/

/-- `seen` = everything reachable from the nodes processed so far -/
def compLoop (g : MGraph) : List Nat → List Nat → Option Nat
  | _, [] => some 0
  | seen, x :: rest =>
    if seen.contains x then compLoop g seen rest
    else match reachFrom g x with
      | none => none
      | some r => (compLoop g (r ++ seen) rest).map (· + 1)

def compCount (g : MGraph) : Option Nat := compLoop g [] g.nodes

def cutB (g : MGraph) (x : Nat) : Option Bool :=
  match compCount g, compCount (g.removeNode x) with
  | some c, some c' => some (decide (c' > c))
  | _, _ => none

def cutSet (g : MGraph) : Option (List Nat) :=
  (mapOpt (fun x => (cutB g x).map fun b => (x, b)) g.nodes).map fun l => (l.filter (·.2)).map (·.1)

/-- answer of `articulation_points(g)` (as a list without duplicates) -/
def checkAP (g : MGraph) (o : List Nat) : Bool :=
  match cutSet g with
  | none => false
  | some l => nodupB o && setEq o l

end PetgraphModel.C16O
