import PetgraphModel.Spec.C15
import PetgraphModel.Oracle.Reach
/-
C15 — maximum-flow certificate checker (core Lean only; linked into the driver).

Given the per-edge flows `f` and the value `v` an implementation returned for `(g, s, t)`:
  1. `s ≠ t`;
  2. `0 ≤ f e ≤ cap e` for every edge;
  3. inflow = outflow at every node other than `s`, `t` (all listed nodes and all edge endpoints);
  4. `v` = net flow out of `s`;
  5. `t` is not reachable from `s` in the residual graph (forward arc while `f e < cap e`, backward
     arc while `0 < f e`), decided by the proved `reachFrom`.
`Proofs/C15Flow.lean`: an accepted `(f, v)` is a feasible flow whose value equals the capacity of the
cut (S, V∖S), S = the residual-reachable set; no feasible flow has a larger value and no `s`-`t` cut
a smaller capacity (weak duality, integers).
-/
namespace PetgraphModel.C15
open PetgraphModel PetgraphModel.Oracle

/-- residual graph of `f` -/
def residual (g : MGraph) (f : Nat → Int) : MGraph :=
  { directed := true, nodes := g.nodes,
    edges := g.edges.flatMap fun e =>
      (if f e.id < e.w then [({ id := e.id, src := e.src, tgt := e.tgt, w := 0 } : Edge)] else []) ++
      (if 0 < f e.id then [({ id := e.id, src := e.tgt, tgt := e.src, w := 0 } : Edge)] else []) }

def capOkB (g : MGraph) (f : Nat → Int) : Bool :=
  g.edges.all fun e => decide (0 ≤ f e.id) && decide (f e.id ≤ e.w)

/-- nodes at which conservation is checked: listed nodes and every edge endpoint -/
def consNodes (g : MGraph) : List Nat := g.nodes ++ g.edges.flatMap fun e => [e.src, e.tgt]

def consOkB (g : MGraph) (s t : Nat) (f : Nat → Int) : Bool :=
  (consNodes g).all fun x => x == s || x == t || decide (inflow g f x = outflow g f x)

/-- the residual-reachable side of the cut (`none`: fuel exhausted, never accepted) -/
def residualSide (g : MGraph) (s : Nat) (f : Nat → Int) : Option (List Nat) := reachFrom (residual g f) s

/-- the flow table as a function on edge ids (absent = 0) -/
def flowFn (fl : List (Nat × Int)) : Nat → Int := fun id => (fl.lookup id).getD 0

/-- the complete judge; `none` = accepted, otherwise the violated clause -/
def judgeFlow (g : MGraph) (s t : Nat) (fl : List (Nat × Int)) (v : Int) : Option String :=
  let f := flowFn fl
  if s = t then some "source equals sink" else
  match g.edges.find? (fun e => (fl.lookup e.id).isNone) with
  | some e => some s!"edge {e.id} has no flow entry"
  | none =>
  match g.edges.find? (fun e => !(decide (0 ≤ f e.id) && decide (f e.id ≤ e.w))) with
  | some e => some s!"capacity violated on edge {e.id} ({e.src}->{e.tgt}): flow {f e.id}, capacity {e.w}"
  | none =>
  match (consNodes g).find? (fun x => !(x == s || x == t || decide (inflow g f x = outflow g f x))) with
  | some x => some s!"conservation violated at node {x}: inflow {inflow g f x}, outflow {outflow g f x}"
  | none =>
  if v ≠ excess g f s then some s!"value {v} differs from the net flow out of the source {excess g f s}" else
  match residualSide g s f with
  | none => some "residual search ran out of fuel"
  | some S =>
    if S.contains t then some s!"not maximum: the sink is reachable in the residual graph (value {v})"
    else none

/-! ### the exact range of the capacity type -/

/-- the largest value up to which the arithmetic of the capacity type named in a `flow` request is
exact: the maximum of the unsigned types, `2^53` / `2^24` for `f64` / `f32` on integers (`f64q`: on
multiples of 1/4, which the harness prints multiplied by 4) -/
def typeMax (w : String) : Option Int :=
  if w == "u32" then some 4294967295
  else if w == "u64" || w == "usize" then some 18446744073709551615
  else if w == "f64" || w == "f64q" then some 9007199254740992
  else if w == "f32" || w == "f32q" then some 16777216
  else none

/-- every capacity is in `0..M` and the capacity of the cut `({s}, V ∖ {s})` — the sum of the
capacities of the non-loop edges out of the source — is at most `M`: the hypothesis of
`C15_bounded_capacities` -/
def capsFitB (M : Int) (g : MGraph) (s : Nat) : Bool :=
  g.edges.all (fun e => decide (0 ≤ e.w ∧ e.w ≤ M)) && decide (cutCap g [s] ≤ M)

end PetgraphModel.C15
