import PetgraphModel.Spec.Graph
import PetgraphModel.GraphProto
/-
C09 (wave 6): the abstract graph a petgraph ADAPTOR presents, as a function of the abstract graph of
its base (core Lean only; linked into the driver).

  Reversed(g)            `g.reverse`                 every edge turned around
  EdgeFiltered(g, f)     `filterEdges g thr`         the edges the filter keeps (the harness filters `weight >= thr`)
  NodeFiltered(g, f)     `induced g keep`            the kept nodes and the edges between them
  UndirectedAdaptor(g)   `undAdaptor g`              what its `neighbors` list: incoming chained with outgoing —
                                                     over a directed base every self-loop twice, over an undirected
                                                     base every edge twice (`Theorems/C09.lean`: same adjacency as
                                                     `g.undirect`, hence the same answer to every clause but the
                                                     multigraph one)
  … its edge_references  `g.undirect`                every edge once, direction ignored
  &Frozen(g)             `g`

The `graph` line of an adaptor case carries the chain (`ad=`) and the base graph (`bd= bnodes= bedges=`);
`adaptOkB` recomputes the graph of the view from them and compares it with the line's own graph, so the
graph the answers are judged against IS the adaptor's documented graph (no trust in the harness's own
computation of it).
-/
namespace PetgraphModel.C09J
open PetgraphModel

inductive Ad where
  | rev | ef (thr : Int) | nf (keep : List Nat) | und | unde | frz
  deriving Repr, DecidableEq, Inhabited

def filterEdges (g : MGraph) (thr : Int) : MGraph :=
  { g with edges := g.edges.filter fun e => decide (thr ≤ e.w) }

def induced (g : MGraph) (keep : List Nat) : MGraph :=
  { g with nodes := g.nodes.filter fun x => keep.contains x,
           edges := g.edges.filter fun e => keep.contains e.src && keep.contains e.tgt }

/-- the first edge id not in use -/
def nextId (es : List Edge) : Nat := es.foldl (fun m e => max m (e.id + 1)) 0

/-- the same edges with the ids `k, k+1, …` -/
def renumber : Nat → List Edge → List Edge
  | _, [] => []
  | k, e :: es => { e with id := k } :: renumber (k + 1) es

/-- the edges `UndirectedAdaptor::neighbors` lists a second time -/
def twice (g : MGraph) : List Edge := g.edges.filter fun e => !g.directed || e.src == e.tgt

def undAdaptor (g : MGraph) : MGraph :=
  { directed := false, nodes := g.nodes, edges := g.edges ++ renumber (nextId g.edges) (twice g) }

def applyAd (g : MGraph) : Ad → MGraph
  | .rev => g.reverse
  | .ef t => filterEdges g t
  | .nf k => induced g k
  | .und => undAdaptor g
  | .unde => g.undirect
  | .frz => g

def applyAds (g : MGraph) (ads : List Ad) : MGraph := ads.foldl applyAd g

def parseAd (s : String) : Option Ad :=
  if s == "rev" then some .rev
  else if s == "und" then some .und
  else if s == "unde" then some .unde
  else if s == "frz" then some .frz
  else match s.splitOn ":" with
    | ["ef", t] => t.toInt?.map .ef
    | ["nf", k] => some (.nf (if k == "-" then [] else (k.splitOn ".").filterMap (·.toNat?)))
    | _ => none

def parseAds (s : String) : Option (List Ad) := (s.splitOn "+").mapM parseAd

/-- the line's graph is the graph the adaptor chain presents over the base (nodes as a set, edges exactly) -/
def adaptOkB (base : MGraph) (ads : List Ad) (g : MGraph) : Bool :=
  let want := applyAds base ads
  (want.directed == g.directed) && decide (want.edges = g.edges) && sameSet want.nodes g.nodes

end PetgraphModel.C09J
