import PetgraphModel.Common
import PetgraphModel.GraphProto
import PetgraphModel.Spec.Graph
import PetgraphModel.Oracle.Reach
/-
C20 — specifications of the seven algorithms (as propositions over the ABSTRACT graph `MGraph`) and
their executable judges.  Core Lean only (linked into the driver).

Every judge returns `none` = accepted, `some why` = the clause `why` of the property is violated.
A judge is built only from
  * decidable clauses that *are* the specification (bounded quantifiers over the lists involved),
  * the proved reachability oracle `Oracle.reachFrom` (`Oracle/Reach.lean`),
  * the definitional enumerators `subsets` (all sublists) and `seqs` (all duplicate-free sequences),
so that its soundness (`Theorems/C20.lean`) is unfolding + `reachFrom_spec` + enumerator completeness.
-/
namespace PetgraphModel.C20
open PetgraphModel PetgraphModel.MGraph PetgraphModel.Oracle

/-! ### enumerators -/

/-- all sublists of a list (subsets, in the list's order) -/
def subsets {α : Type} : List α → List (List α)
  | [] => [[]]
  | x :: xs => subsets xs ++ (subsets xs).map (x :: ·)

/-- all duplicate-free sequences of length ≤ `f` over `pool` -/
def seqs : Nat → List Nat → List (List Nat)
  | 0, _ => [[]]
  | f+1, pool => [] :: pool.flatMap fun x => (seqs f (pool.erase x)).map (x :: ·)

/-! ### shared -/

/-- one decidable clause of a specification with the message reported when it fails (both lazy) -/
structure Clause where
  ok : Unit → Bool
  why : Unit → String

def clause (p : Prop) [Decidable p] (why : Unit → String) : Clause := ⟨fun _ => decide p, why⟩

/-- clauses are checked in order; the first failing one is reported, `none` = all hold -/
def firstFail : List Clause → Option String
  | [] => none
  | c :: t => if c.ok () then firstFail t else some (c.why ())


/-- every edge joins two listed nodes -/
def EndpointsOk (g : MGraph) : Prop := ∀ e ∈ g.edges, e.src ∈ g.nodes ∧ e.tgt ∈ g.nodes

instance (g : MGraph) : Decidable (EndpointsOk g) := by unfold EndpointsOk; infer_instance

/-- `Reach1 g u v` decided through the proved oracle: some successor of `u` reaches `v`.
`none` = the oracle ran out of fuel somewhere (never trusted). -/
def reach1B (g : MGraph) (u v : Nat) : Option Bool :=
  if (g.succ u).all fun w => (reachFrom g w).isSome then
    some ((g.succ u).any fun w => ((reachFrom g w).getD []).contains v)
  else none

/-! ### (1) greedy_feedback_arc_set -/

/-- the graph without the edges whose ids are listed -/
def removeEdges (g : MGraph) (ids : List Nat) : MGraph :=
  { g with edges := g.edges.filter fun e => !ids.contains e.id }

def judgeFas (g : MGraph) (removed : List Nat) : Option String :=
  let k := removeEdges g removed
  firstFail [
    clause (g.directed = true) fun _ => "feedback arc set of an undirected graph requested",
    clause (∀ i ∈ removed, ∃ e ∈ g.edges, e.id = i) fun _ => s!"returned an edge that is not in the graph: {showNats removed}",
    clause removed.Nodup fun _ => s!"an edge is returned twice: {showNats removed}",
    clause (∀ e ∈ g.edges, e.src = e.tgt → e.id ∈ removed) fun _ => s!"a self-loop is missing from the feedback arc set {showNats removed}",
    clause (∀ e ∈ k.edges, reachB k e.tgt e.src = some false) fun _ =>
      s!"the graph without the arcs {showNats removed} still has a cycle"]

/-! ### (2) dsatur_coloring -/

def colourOf (col : List (Nat × Nat)) (a : Nat) : Option Nat := col.lookup a

/-- the graph has a 2-colouring (`f` = side of each node) -/
def Bipartite (g : MGraph) : Prop := ∃ f : Nat → Bool, ∀ e ∈ g.edges, f e.src ≠ f e.tgt

/-- searched over all subsets of the node list -/
def bipartiteB (g : MGraph) : Bool :=
  (subsets g.nodes).any fun S => g.edges.all fun e => S.contains e.src != S.contains e.tgt

/-- the clauses for `dsatur_coloring` on a non-empty graph -/
structure ColouringOk (g : MGraph) (col : List (Nat × Nat)) (k : Nat) : Prop where
  keysNodup : (col.map (·.1)).Nodup
  keysNodes : ∀ p ∈ col, p.1 ∈ g.nodes
  total : ∀ a ∈ g.nodes, (colourOf col a).isSome
  proper : ∀ e ∈ g.edges, e.src ≠ e.tgt → colourOf col e.src ≠ colourOf col e.tgt
  below : ∀ p ∈ col, p.2 < k
  allUsed : ∀ c ∈ List.range k, ∃ p ∈ col, p.2 = c

def judgeDsatur (g : MGraph) (col : List (Nat × Nat)) (k : Nat) : Option String :=
  if g.nodes = [] then
    -- degenerate case recorded in DESIGN §5: k = 1 with nothing coloured (k = 0 would be accepted too)
    if col = [] ∧ k ≤ 1 then none else some s!"empty graph: {col.length} nodes coloured, k = {k}"
  else firstFail [
    clause (EndpointsOk g) fun _ => "malformed graph line",
    clause (col.map (·.1)).Nodup fun _ => "a node is coloured twice",
    clause (∀ p ∈ col, p.1 ∈ g.nodes) fun _ => "a colour is assigned to something that is not a node",
    clause (∀ a ∈ g.nodes, (colourOf col a).isSome) fun _ => "a node has no colour",
    clause (∀ e ∈ g.edges, e.src ≠ e.tgt → colourOf col e.src ≠ colourOf col e.tgt) fun _ =>
      "not a proper colouring: an edge joins two nodes of the same colour",
    clause (∀ p ∈ col, p.2 < k) fun _ => s!"a colour is not below the reported count k = {k}",
    clause (∀ c ∈ List.range k, ∃ p ∈ col, p.2 = c) fun _ => s!"not all of the colours 0..{k}-1 are used",
    clause (bipartiteB g = true → k ≤ 2) fun _ => s!"bipartite graph coloured with k = {k} > 2 colours"]

/-! ### (3) dag_to_toposorted_adjacency_list + dag_transitive_reduction_closure -/

/-- adjacency rows `(i, [x…])` as pairs, renamed through `f` -/
def rowPairs (f : Nat → Nat) (rows : List (Nat × List Nat)) : List (Nat × Nat) :=
  rows.flatMap fun r => r.2.map fun x => (f r.1, f x)

structure TredAnswer where
  revmap : List (Nat × Nat)          -- abstract node ↦ rank
  res : List (Nat × List Nat)        -- in ranks
  red : List (Nat × List Nat)
  clo : List (Nat × List Nat)
  deriving Inhabited

/-- rank ↦ abstract node of the toposort handed in -/
def unrank (topo : List Nat) (r : Nat) : Nat := topo.getD r 0

def sortPairs (l : List (Nat × Nat)) : List (Nat × Nat) :=
  l.mergeSort fun a b => a.1 < b.1 || (a.1 == b.1 && a.2 ≤ b.2)

def ascending : List Nat → Bool
  | a :: b :: t => a ≤ b && ascending (b :: t)
  | _ => true

/-- covering relation: `u` reaches `v` by ≥ 1 edge and no node lies strictly between -/
def coverB (g : MGraph) (u v : Nat) : Option Bool :=
  match reach1B g u v with
  | none => none
  | some false => some false
  | some true =>
    if g.nodes.all fun w => (reach1B g u w).isSome && (reach1B g w v).isSome then
      some (g.nodes.all fun w => !(reach1B g u w == some true && reach1B g w v == some true))
    else none

/-- closure pairs of an answer, in abstract ids -/
def cloPairs (topo : List Nat) (a : TredAnswer) : List (Nat × Nat) := rowPairs (unrank topo) a.clo
def redPairs (topo : List Nat) (a : TredAnswer) : List (Nat × Nat) := rowPairs (unrank topo) a.red

def simpleB (g : MGraph) : Bool := decide (g.edges.map fun e => (e.src, e.tgt)).Nodup

def judgeTred (g : MGraph) (topo : List Nat) (a : TredAnswer) : Option String :=
  let clo := cloPairs topo a
  let red := redPairs topo a
  firstFail [
    clause (EndpointsOk g) fun _ => "malformed graph line",
    clause (∀ x ∈ g.nodes, colourOf a.revmap x = some (topo.idxOf x)) fun _ => "revmap is not the inverse of the toposort",
    clause (sortPairs (rowPairs id a.res) = sortPairs (g.edges.map fun e => (topo.idxOf e.src, topo.idxOf e.tgt))) fun _ =>
      "the toposorted adjacency list is not the input graph renumbered",
    clause (a.res.all fun r => ascending r.2) fun _ => "neighbours in the toposorted adjacency list are not in topological order",
    clause (∀ p ∈ clo, reach1B g p.1 p.2 = some true) fun _ => "closure contains a pair (u,v) with v not reachable from u",
    clause (∀ u ∈ g.nodes, ∀ v ∈ g.nodes, reach1B g u v = some false ∨ (u, v) ∈ clo) fun _ => "closure misses a reachable pair",
    clause (∀ p ∈ red, coverB g p.1 p.2 = some true) fun _ => "reduction contains a pair that is not a covering pair",
    clause (∀ u ∈ g.nodes, ∀ v ∈ g.nodes, coverB g u v = some false ∨ (u, v) ∈ red) fun _ => "reduction misses a covering pair",
    clause (simpleB g = true → clo.Nodup ∧ red.Nodup) fun _ => "closure or reduction of a simple DAG lists a pair twice"]

/-! ### (4) maximal_cliques -/

def IsClique (g : MGraph) (S : List Nat) : Prop := ∀ a ∈ S, ∀ b ∈ S, a ≠ b → g.Adj a b

/-- a clique of listed nodes that no further node extends -/
def IsMaxClique (g : MGraph) (S : List Nat) : Prop :=
  (∀ a ∈ S, a ∈ g.nodes) ∧ IsClique g S ∧ ∀ v ∈ g.nodes, v ∉ S → ∃ a ∈ S, ¬ g.Adj v a

instance (g : MGraph) (S : List Nat) : Decidable (IsMaxClique g S) := by
  unfold IsMaxClique IsClique; infer_instance

/-- the node set `c` written in the order of `g.nodes` -/
def canon (g : MGraph) (c : List Nat) : List Nat := g.nodes.filter fun x => c.contains x

/-- definitional oracle: all sublists of the node list that are maximal cliques -/
def maxCliques (g : MGraph) : List (List Nat) := (subsets g.nodes).filter fun S => decide (IsMaxClique g S)

def judgeCliques (g : MGraph) (out : List (List Nat)) : Option String :=
  let outc := out.map (canon g)
  firstFail [
    clause g.nodes.Nodup fun _ => "malformed graph line",
    clause (∀ c ∈ out, c.Nodup ∧ ∀ x ∈ c, x ∈ g.nodes) fun _ => "a clique lists a node twice or something that is not a node",
    clause outc.Nodup fun _ => "a clique is returned twice",
    clause (∀ c ∈ outc, IsMaxClique g c) fun _ =>
      s!"returned a set that is not a maximal clique; maximal cliques are {showNatLists (maxCliques g)}",
    clause (∀ S ∈ maxCliques g, S ∈ outc) fun _ => s!"a maximal clique is missing; maximal cliques are {showNatLists (maxCliques g)}"]

/-! ### (5) all_simple_paths -/

def IsWalk (g : MGraph) : List Nat → Prop
  | [] => True
  | [_] => True
  | a :: b :: t => g.Adj a b ∧ IsWalk g (b :: t)

instance instDecIsWalk (g : MGraph) : (p : List Nat) → Decidable (IsWalk g p)
  | [] => isTrue trivial
  | [_] => isTrue trivial
  | a :: b :: t =>
    have := instDecIsWalk g (b :: t)
    by unfold IsWalk; infer_instance

/-- a simple path from `a` to `b` (`a ≠ b`) whose number of intermediate nodes is within the bounds -/
def IsSimplePathIn (g : MGraph) (a b lo : Nat) (hi : Option Nat) (p : List Nat) : Prop :=
  p.Nodup ∧ p.head? = some a ∧ p.getLast? = some b ∧ IsWalk g p ∧ lo + 2 ≤ p.length ∧
    (∀ h, hi = some h → p.length ≤ h + 2)

instance (g : MGraph) (a b lo : Nat) (hi : Option Nat) (p : List Nat) : Decidable (IsSimplePathIn g a b lo hi p) := by
  unfold IsSimplePathIn
  cases hi with
  | none => simp; infer_instance
  | some h => simp; infer_instance

/-- definitional oracle: every duplicate-free sequence `a, mid…, b` over the other nodes, filtered by the definition -/
def simplePaths (g : MGraph) (a b lo : Nat) (hi : Option Nat) : List (List Nat) :=
  ((seqs g.nodes.length ((g.nodes.erase a).erase b)).map fun mid => a :: (mid ++ [b])).filter
    fun p => decide (IsSimplePathIn g a b lo hi p)

def judgePaths (g : MGraph) (a b lo : Nat) (hi : Option Nat) (out : List (List Nat)) : Option String :=
  firstFail [
    clause (g.directed = true ∧ EndpointsOk g ∧ g.nodes.Nodup ∧ a ≠ b) fun _ => "outside the judged domain",
    clause (∀ p ∈ out, IsSimplePathIn g a b lo hi p) fun _ =>
      s!"yielded something that is not a simple path {a}->{b} within the bounds; expected {showNatLists (simplePaths g a b lo hi)}",
    clause (∀ p ∈ simplePaths g a b lo hi, p ∈ out) fun _ => s!"a simple path is missing; expected {showNatLists (simplePaths g a b lo hi)}",
    clause (simpleB g = true → out.Nodup) fun _ => "a path is yielded twice on a simple graph"]

/-! ### (5') all_simple_paths with `from = to` (wave 4)

For `from = to = a` the iterator yields closed sequences `a, mid…, a`.  `IsCycleIn` is the decidable
reading (over `cycleMid p` = `p` without its first and last element) of `Paths.IsSimpleCycleIn`, the
statement of `C20_paths_from_eq_to` (`Proofs/C20W3PathsCycle.lean`); `Proofs/C20W4Cycles.lean` proves the
two equivalent and the judge sound. -/

/-- `p` without its first and last element -/
def cycleMid (p : List Nat) : List Nat := p.tail.dropLast

/-- a simple cycle through `a`, written `a, mid…, a` with `a :: mid` duplicate-free, `lo ≤ |mid| ≤ hi`;
without an upper bound `|mid| + 2 ≤ max n 2` (the depth limit `node_count() − 1` of the code) -/
def IsCycleIn (g : MGraph) (a lo : Nat) (hi : Option Nat) (p : List Nat) : Prop :=
  p = a :: (cycleMid p ++ [a]) ∧ (a :: cycleMid p).Nodup ∧ IsWalk g p ∧ lo ≤ (cycleMid p).length ∧
    (∀ h, hi = some h → (cycleMid p).length ≤ h) ∧ (hi = none → (cycleMid p).length + 2 ≤ max g.nodes.length 2)

instance (g : MGraph) (a lo : Nat) (hi : Option Nat) (p : List Nat) : Decidable (IsCycleIn g a lo hi p) :=
  match hi with
  | none =>
    decidable_of_iff (p = a :: (cycleMid p ++ [a]) ∧ (a :: cycleMid p).Nodup ∧ IsWalk g p ∧
        lo ≤ (cycleMid p).length ∧ (cycleMid p).length + 2 ≤ max g.nodes.length 2)
      ⟨fun ⟨h1, h2, h3, h4, h6⟩ => ⟨h1, h2, h3, h4, fun _ h => (nomatch h), fun _ => h6⟩,
       fun ⟨h1, h2, h3, h4, _, h6⟩ => ⟨h1, h2, h3, h4, h6 rfl⟩⟩
  | some b =>
    decidable_of_iff (p = a :: (cycleMid p ++ [a]) ∧ (a :: cycleMid p).Nodup ∧ IsWalk g p ∧
        lo ≤ (cycleMid p).length ∧ (cycleMid p).length ≤ b)
      ⟨fun ⟨h1, h2, h3, h4, h5⟩ => ⟨h1, h2, h3, h4, fun _ h => (by cases h; exact h5), fun h => (nomatch h)⟩,
       fun ⟨h1, h2, h3, h4, h5, _⟩ => ⟨h1, h2, h3, h4, h5 b rfl⟩⟩

/-- definitional oracle: every duplicate-free sequence `a, mid…, a` over the other nodes, filtered by the definition -/
def simpleCycles (g : MGraph) (a lo : Nat) (hi : Option Nat) : List (List Nat) :=
  ((seqs g.nodes.length (g.nodes.erase a)).map fun mid => a :: (mid ++ [a])).filter
    fun p => decide (IsCycleIn g a lo hi p)

def judgeCycles (g : MGraph) (a lo : Nat) (hi : Option Nat) (out : List (List Nat)) : Option String :=
  firstFail [
    clause (g.directed = true ∧ EndpointsOk g ∧ g.nodes.Nodup ∧ a ∈ g.nodes) fun _ => "outside the judged domain",
    clause (∀ p ∈ out, IsCycleIn g a lo hi p) fun _ =>
      s!"yielded something that is not a simple cycle through {a} within the bounds; expected {showNatLists (simpleCycles g a lo hi)}",
    clause (∀ p ∈ simpleCycles g a lo hi, p ∈ out) fun _ => s!"a simple cycle is missing; expected {showNatLists (simpleCycles g a lo hi)}",
    clause (simpleB g = true → out.Nodup) fun _ => "a cycle is yielded twice on a simple graph"]

/-! ### (6) steiner_tree -/

def weightOf (es : List Edge) : Int := (es.map (·.w)).sum

/-- the undirected graph on the same nodes with the given edges -/
def withEdges (nodes : List Nat) (es : List Edge) : MGraph :=
  { directed := false, nodes := nodes, edges := es }

/-- all of `ts` lie in one connected component of `h` (decided by the proved oracle; `none` of the
oracle is answered conservatively: "connected") -/
def connectsB (h : MGraph) (ts : List Nat) : Bool :=
  match ts with
  | [] => true
  | t0 :: rest =>
    match reachFrom h t0 with
    | none => true
    | some r => rest.all fun t => r.contains t

def degreeIn (es : List Edge) (x : Nat) : Nat :=
  (es.filter fun e => e.src = x).length + (es.filter fun e => e.tgt = x).length

/-- the result's edges -/
def resultEdges (g : MGraph) (E : List Nat) : List Edge := g.edges.filter fun e => E.contains e.id

/-- connected: every result node is reached from the first one -/
def connectedB (h : MGraph) : Bool :=
  match h.nodes with
  | [] => true
  | x :: _ => match reachFrom h x with
    | none => false
    | some r => h.nodes.all fun y => r.contains y

/-- every clause of the Steiner specification except "exactly |V|-1 edges" -/
def steinerClauses (g : MGraph) (terms N E : List Nat) : List Clause :=
  let es := resultEdges g E
  [ clause (g.edges.map (·.id)).Nodup fun _ => "malformed graph line",
    clause (N.Nodup ∧ ∀ x ∈ N, x ∈ g.nodes) fun _ => "result nodes are not distinct nodes of the graph",
    clause (E.Nodup ∧ ∀ i ∈ E, ∃ e ∈ g.edges, e.id = i) fun _ => "result edges are not distinct edges of the graph",
    clause (∀ e ∈ g.edges, e.id ∈ E → e.src ∈ N ∧ e.tgt ∈ N) fun _ => "a result edge ends outside the result nodes",
    clause (∀ t ∈ terms, t ∈ N) fun _ => s!"a terminal is missing from the result nodes {showNats N}",
    clause (∀ x ∈ N, degreeIn es x ≤ 1 → x ∈ terms) fun _ => s!"a leaf of the result is not a terminal (nodes {showNats N}, edges {showNats E})",
    clause (∀ S ∈ subsets g.edges, connectsB (withEdges g.nodes S) terms = true → weightOf es ≤ 2 * weightOf S) fun _ =>
      s!"result weighs {weightOf es}, more than twice the optimum",
    clause (connectedB (withEdges N es) = true) fun _ => s!"result is not connected (nodes {showNats N}, edges {showNats E})" ]

inductive SteinerVerdict where
  | ok
  | fail (why : String)
  | cycleOnly (why : String)      -- every clause holds except tree-ness: connected with ≥ |V| edges

def judgeSteiner (g : MGraph) (terms N E : List Nat) : SteinerVerdict :=
  let es := resultEdges g E
  match firstFail (steinerClauses g terms N E) with
  | some why => .fail why
  | none =>
    if es.length + 1 = N.length then .ok
    else if N ≠ [] ∧ N.length ≤ es.length then .cycleOnly s!"result has {N.length} nodes and {es.length} edges: it contains a cycle"
    else .fail s!"result has {N.length} nodes and {es.length} edges: not a tree"

end PetgraphModel.C20
