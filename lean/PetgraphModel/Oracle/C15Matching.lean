import PetgraphModel.Spec.C15
/-
C15 — executable checkers for matchings (core Lean only; linked into the driver).

* `checkMate g mate`: the `mate` table is a function, symmetric, and every entry is joined by a
  non-loop edge of `g` (direction ignored).  Soundness: `Proofs/C15Matching.lean`.
* `maxMatchingSize g`: the *definitional* maximum — exhaustive search over all sub-lists of the edge
  list that form a matching (an edge is taken only if it is not a loop and both endpoints are still
  free).  Exponential; used on graphs with ≤ 10 nodes and on the sparse large matching families
  (≤ 18 nodes, about 1.1–1.5 edges per node; 1–2 ms per case).  `Proofs/C15Matching.lean` proves that
  every matching has at most that many pairs and that some matching attains it.
-/
namespace PetgraphModel.C15
open PetgraphModel

def joinedInB (es : List Edge) (a b : Nat) : Bool :=
  a != b && es.any fun e => (e.src == a && e.tgt == b) || (e.src == b && e.tgt == a)

/-- no element occurs twice -/
def nodupB : List Nat → Bool
  | [] => true
  | x :: xs => !xs.contains x && nodupB xs

/-- the `mate` table is a valid matching of `g` -/
def checkMate (g : MGraph) (mate : List (Nat × Nat)) : Bool :=
  nodupB (mate.map (·.1)) &&
  mate.all (fun p => mate.contains (p.2, p.1)) &&
  mate.all (fun p => joinedInB g.edges p.1 p.2)

/-- exhaustive search: the largest matching that uses only edges of the list and avoids `used` -/
def maxMatch : List Edge → List Nat → Nat
  | [], _ => 0
  | e :: es, used =>
    if e.src ≠ e.tgt ∧ e.src ∉ used ∧ e.tgt ∉ used then
      max (maxMatch es used) (1 + maxMatch es (e.src :: e.tgt :: used))
    else maxMatch es used

def maxMatchingSize (g : MGraph) : Nat := maxMatch g.edges []

end PetgraphModel.C15
