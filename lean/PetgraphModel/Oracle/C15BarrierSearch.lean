import PetgraphModel.Oracle.C15Barrier
import PetgraphModel.Model.C15Matching
/-
C15 — run-time side conditions of the Gabow theorems, the *canonical undirected view* of an abstract
graph, and an UNTRUSTED polynomial search for a Tutte–Berge barrier (core Lean only; linked into the
driver).

* `viewExactB`, `vacOkB`: the executable forms of `ViewExact` / `VacOk`, the hypotheses of
  `C15_maximum_valid` and `C15_maximum_maximum` (`Theorems/C15.lean`: `C15_viewExact_check`,
  `C15_vacOk_check`).  The driver evaluates them on every matching case.
* `uview g`: `g` with the direction flag cleared, index = position in the node list, one row per node
  in edge-list order.  On it the proved Gabow model computes the definitional maximum for graphs of ANY
  size (`C15_canonical_maximum`): the driver's complete judge where the exhaustive search is too slow.
* `findBarrierFast g M`: nothing is proved about it and nothing needs to be — its answer is checked by
  the proved-sound `checkBarrier`.  Gallai–Edmonds: for a maximum matching `M` let `D` be the set of
  nodes that some even-length alternating path from a free node reaches (= the outer vertices of the
  failed Gabow searches from the free nodes, blossoms included); then `A = N(D) ∖ D` is a barrier.
  The search re-uses the mirror model's `findJoin` on `uview g`; a search that meets a second free node
  has found an augmenting path, and then there is no barrier (`none`).
-/
namespace PetgraphModel.C15M
open PetgraphModel PetgraphModel.C15

/-- executable form of `VacOk`: `from_index` of an index below `node_bound` that no live node has is
not a live node -/
def vacOkB (v : View) : Bool :=
  (List.range v.nb).all fun i =>
    v.g.nodes.any (fun a => v.toIndex a == i) || !v.g.nodes.contains (fromIndex v i)

/-- executable form of `ViewExact`: distinct edge ids; every row entry is an edge at this node with
this other endpoint and this id; every edge is listed in the rows of its endpoints -/
def viewExactB (v : View) : Bool :=
  nodupB (v.g.edges.map (·.id)) &&
  v.out.all (fun r => r.2.all fun be => v.g.edges.any fun e =>
    e.id == be.2 && ((e.src == r.1 && e.tgt == be.1) || (!v.g.directed && e.src == be.1 && e.tgt == r.1))) &&
  v.g.edges.all (fun e => (v.outOf e.src).contains (e.tgt, e.id) &&
    (v.g.directed || (v.outOf e.tgt).contains (e.src, e.id))) &&
  v.inn.all (fun r => r.2.all fun be => v.g.edges.any fun e =>
    e.id == be.2 && ((e.src == be.1 && e.tgt == r.1) || (!v.g.directed && e.src == r.1 && e.tgt == be.1))) &&
  v.g.edges.all (fun e => (v.innOf e.tgt).contains (e.src, e.id))

/-- all side conditions of `C15_maximum_valid_checked` / `C15_maximum_maximum_checked` -/
def gabowChecksB (v : View) : Bool := ixOkB v && wfB v.g && viewExactB v && vacOkB v

/-! ### the canonical undirected view -/

def enumFrom : Nat → List Nat → List (Nat × Nat)
  | _, [] => []
  | i, a :: r => (a, i) :: enumFrom (i + 1) r

/-- the row of node `a`: every incident edge once, in edge-list order, with the other endpoint -/
def urow (es : List Edge) (a : Nat) : List (Nat × Nat) :=
  es.filterMap fun e =>
    if e.src == a then some (e.tgt, e.id) else if e.tgt == a then some (e.src, e.id) else none

/-- `g` as undirected storage with the identity-like index map -/
def uview (g : MGraph) : View :=
  let rows := g.nodes.map fun a => (a, urow g.edges a)
  { g := { directed := false, nodes := g.nodes, edges := g.edges },
    nb := g.nodes.length, ix := enumFrom 0 g.nodes, out := rows, inn := rows }

/-- the number of pairs of a maximum matching of `g`, by the proved Gabow model on the canonical view
(`none`: a side condition fails — the graph is not well formed or its edge ids repeat) -/
def canonicalMax (g : MGraph) : Option Nat :=
  let v := uview g
  if gabowChecksB v then
    let m := maximumMatching v 0
    if m.fault then none else some m.len
  else none

/-- graphs with at most this many nodes are judged by the exhaustive definitional maximum -/
def exhaustiveLimit : Nat := 18

/-- the size of a maximum matching as the driver determines it: the exhaustive search
`maxMatchingSize` on small graphs, the proved Gabow model on the canonical view otherwise
(`C15_maxSizeJudge_sound`: any `some k` is `maxMatchingSize g`) -/
def maxSizeJudge (g : MGraph) : Option Nat :=
  if g.nodes.length ≤ exhaustiveLimit then some (maxMatchingSize g) else canonicalMax g

/-! ### untrusted barrier search -/

/-- Gabow state for the matching `M` on the view `v` (labels empty) -/
def stateOf (v : View) (M : List (Nat × Nat)) : GS :=
  let mateOfNode := fun (a : Nat) =>
    match M.find? (fun p => p.1 == a || p.2 == a) with
    | some p => some (if p.1 == a then p.2 else p.1)
    | none => none
  let len := v.nb + 1
  { mate := (List.range v.nb).map (fun i => match v.ix.find? (fun p => p.2 == i) with
                                            | some p => mateOfNode p.1
                                            | none => none) ++ [none],
    label := List.replicate len .none, fi := List.replicate len usizeMax }

/-- the labelling phase of one search of `gabowSearch` from the free node `start`, without the
augmentation: `(true, _)` = a second free node was met (an augmenting path exists), otherwise the
outer vertices the search labelled -/
def outerSearch (v : View) (start : Nat) (s0 : GS) : Bool × List Nat := Id.run do
  let dummy := v.nb
  let mut s := s0
  let startIdx := v.toIndex start
  s := s.setLabel startIdx .start
  s := s.setFi startIdx dummy
  let mut queue : List Nat := [start]
  let mut visited : List Nat := [start]
  let mut aug := false
  for _ in [0:v.nb + 2] do
    if aug || s.fault then break
    match queue with
    | [] => break
    | outerVertex :: q =>
      queue := q
      for (otherVertex, eid) in v.outOf outerVertex do
        if s.fault then break
        if outerVertex == otherVertex then continue
        let otherIdx := v.toIndex otherVertex
        let (mo, b) := s.getMate otherIdx
        let (lo, b') := s.getLabel otherIdx
        s := s.flt (b || b')
        if mo.isNone && otherVertex != start then
          aug := true
          break
        else if lo.isOuter then
          let (s', calls) := findJoin v (edgeKey 0 eid outerVertex otherVertex) outerVertex otherVertex s
          s := s'
          for c in calls do
            if !visited.contains c then
              visited := c :: visited
              queue := queue ++ [c]
        else
          let mateIdx := match mo with | some m => v.toIndex m | Option.none => dummy
          let (lm, b) := s.getLabel mateIdx
          s := s.flt b
          if !lm.isOuter then
            s := s.setLabel mateIdx (.vertex outerVertex)
            s := s.setFi mateIdx otherIdx
          match mo with
          | some m =>
            if !visited.contains m then
              visited := m :: visited
              queue := queue ++ [m]
          | Option.none => pure ()
  return (aug || s.fault, visited)

/-- UNTRUSTED: a candidate barrier for the matching `M` of `g` (to be checked by `checkBarrier`);
`none` = an augmenting path was met, `M` is not maximum -/
def findBarrierFast (g : MGraph) (M : List (Nat × Nat)) : Option (List Nat) := Id.run do
  let v := uview g
  let s0 := stateOf v M
  let covered := M.flatMap fun p => [p.1, p.2]
  let mut D : List Nat := []
  for u in g.nodes do
    if covered.contains u then continue
    let (aug, outer) := outerSearch v u s0
    if aug then return none
    for x in outer do
      if !D.contains x then D := x :: D
  let A := g.nodes.filter fun x =>
    !D.contains x && g.edges.any fun e => (e.src == x && D.contains e.tgt) || (e.tgt == x && D.contains e.src)
  return some A

/-- the barrier certificate for `M`, found by the untrusted search and accepted by the proved checker -/
def barrierCertB (g : MGraph) (M : List (Nat × Nat)) : Bool :=
  match findBarrierFast g M with
  | some A => checkBarrier g M A
  | none => false

end PetgraphModel.C15M
