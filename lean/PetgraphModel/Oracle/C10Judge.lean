import PetgraphModel.Spec.Graph
import PetgraphModel.Oracle.Reach
import PetgraphModel.Oracle.Dist
import PetgraphModel.Model.C10ShortestPaths
/-
Spec-level judges of C10 (core Lean only; linked into the driver).  Each judge decides the clauses
of the property statement for an implementation answer against the ABSTRACT graph:

* reference distances come from a plain Bellman–Ford (`refDist`) and are used only after the shared
  certificate checker `Oracle.checkDist` (soundness: `Proofs/Dist.lean`) has accepted them in this
  very run (`certDist`);
* `okDijAll` is the certificate checker applied to the implementation's map itself;
* k-th cheapest walk costs come from the definitional dynamic programme `kWalks`: row `i` holds, for
  every node, the `k` smallest costs of walks from `s` with at most `i` arcs; it is iterated to a
  fixed point (`none` = no fixed point within the fuel, never trusted).
`Proofs/C10Judge.lean` proves: judge accepts ⇒ the clause of the property holds (all graphs, all
answers).
-/
namespace PetgraphModel.C10
open PetgraphModel MGraph Oracle

/-! ### the view -/

/-- the view's `edges(a)` rows describe exactly the arcs of the abstract graph out of `a`, with
their weights, and all weights are non-negative (the property's precondition) -/
def viewOkB (v : View) : Bool :=
  v.g.arcs.all (fun a => decide (0 ≤ a.2.2)) &&
  v.g.nodes.all (fun a =>
    let arcsA := v.g.arcs.filter (·.1 == a)
    let row := v.outOf a
    row.length == arcsA.length &&
    row.all (fun te => arcsA.contains (a, te.1, v.weight te.2)) &&
    arcsA.all (fun x => row.any fun te => te.1 == x.2.1 && v.weight te.2 == x.2.2)) &&
  v.g.arcs.all (fun a => v.g.nodes.contains a.1 && v.g.nodes.contains a.2.1) &&
  v.out.all (fun r => v.g.nodes.contains r.1)

/-- multiset version: per node, the `(target, weight)` pairs of its `edges(a)` row and of its arcs
have the same multiplicities (parallel arcs matter for the k-th cheapest walk) -/
def viewOkMB (v : View) : Bool :=
  v.g.nodes.all fun a =>
    let l1 := (v.outOf a).map fun te => (te.1, v.weight te.2)
    let l2 := (v.g.arcs.filter fun x => x.1 == a).map fun x => (x.2.1, x.2.2)
    l1.all (fun x => l1.count x == l2.count x) && l2.all (fun x => l1.count x == l2.count x)

/-- `to_index` of every node is below `node_bound`, and injective (what `k_shortest_path` relies on) -/
def ixOkB (v : View) : Bool :=
  (v.g.nodes.all fun a => decide (v.toIndex a < v.nb)) &&
  ((v.g.nodes.map v.toIndex).eraseDups.length == v.g.nodes.length)

/-! ### reference distances, certified per run -/

def setLabel : List (Nat × Int) → Nat → Int → List (Nat × Int)
  | [], v, x => [(v, x)]
  | (u, y) :: r, v, x => if u = v then (u, x) :: r else (u, y) :: setLabel r v x

def relaxArc (d : List (Nat × Int)) (a : Nat × Nat × Int) : List (Nat × Int) :=
  match labelOf d a.1 with
  | none => d
  | some x =>
    match labelOf d a.2.1 with
    | none => setLabel d a.2.1 (x + a.2.2)
    | some y => if x + a.2.2 < y then setLabel d a.2.1 (x + a.2.2) else d

/-- plain Bellman–Ford: `|nodes| + 1` passes over all arcs -/
def refDist (g : MGraph) (s : Nat) : List (Nat × Int) :=
  (List.range (g.nodes.length + 1)).foldl (fun d _ => g.arcs.foldl relaxArc d) [(s, 0)]

/-- the reference labelling, only if the proved certificate checker accepts it -/
def certDist (g : MGraph) (s : Nat) : Option (List (Nat × Int)) :=
  let d := refDist g s
  if checkDist g s d then some d else none

def keysNodup (m : List (Nat × Int)) : Bool := (m.map (·.1)).eraseDups.length == m.length

/-! ### dijkstra -/

/-- no goal: the returned map is itself an accepted distance certificate -/
def okDijAll (g : MGraph) (s : Nat) (m : List (Nat × Int)) : Bool := checkDist g s m

/-- with goal `t`: goal entry exact (absent iff unreachable); every entry an upper bound of the true
distance of a reachable node; exact and present for nodes strictly closer than the goal (all
reachable nodes when the goal is unreachable) -/
def okDijGoal (g : MGraph) (s t : Nat) (m : List (Nat × Int)) : Bool :=
  match certDist g s with
  | none => false
  | some d =>
    keysNodup m &&
    (labelOf m t == labelOf d t) &&
    m.all (fun vc => match labelOf d vc.1 with
      | some y => decide (y ≤ vc.2)
      | none => false) &&
    d.all (fun vy => match labelOf d t with
      | some yt => if vy.2 < yt then labelOf m vy.1 == some vy.2 else true
      | none => labelOf m vy.1 == some vy.2)

/-! ### astar -/

/-- cost of a node sequence along the cheapest parallel arcs (`none`: a step without an arc, or `[]`) -/
def pathCost (g : MGraph) : List Nat → Option Int
  | [] => none
  | [_] => some 0
  | u :: v :: rest =>
    match minArc g u v, pathCost g (v :: rest) with
    | some w, some c => some (w + c)
    | _, _ => none

/-- `None` ⇔ no goal reachable; otherwise the path starts at `s`, ends at a goal, follows arcs, its
cost (cheapest parallel arcs) is the reported cost, and no goal is closer -/
def okAstar (g : MGraph) (s : Nat) (goals : List Nat) (ans : Option (Int × List Nat)) : Bool :=
  match certDist g s with
  | none => false
  | some d =>
    match ans with
    | none => goals.all fun t => (labelOf d t).isNone
    | some (c, p) =>
      (p.head? == some s) &&
      (match p.getLast? with
       | some t => goals.contains t
       | none => false) &&
      (pathCost g p == some c) &&
      goals.all fun t => match labelOf d t with
        | none => true
        | some y => decide (c ≤ y)

/-- admissibility of the harness's heuristic: `h v ≤` the distance from `v` to every goal
(distances to `t` = certified distances from `t` in the reversed graph) -/
def admissible (g : MGraph) (goals : List Nat) (h : List (Nat × Int)) : Bool :=
  goals.all fun t =>
    match certDist g.reverse t with
    | none => false
    | some d => d.all fun vy => match labelOf h vy.1 with
      | some x => decide (x ≤ vy.2)
      | none => true

/-! ### k-th cheapest walk -/

def insSorted (x : Int) : List Int → List Int
  | [] => [x]
  | y :: r => if x ≤ y then x :: y :: r else y :: insSorted x r

def sortInts (l : List Int) : List Int := l.foldr insSorted []

/-- the `k` smallest elements (with multiplicity), ascending -/
def kSmallest (k : Nat) (l : List Int) : List Int := (sortInts l).take k

abbrev KTable := List (Nat × List Int)

def kRow (T : KTable) (v : Nat) : List Int := (T.lookup v).getD []

/-- costs of the walks to `v` with at most `i+1` arcs, from the rows for at most `i` arcs: the empty
walk (for `v = s`) and every walk to a predecessor extended by one arc -/
def kCands (g : MGraph) (s : Nat) (T : KTable) (v : Nat) : List Int :=
  (if v = s then [0] else []) ++
    g.arcs.flatMap fun a => if a.2.1 = v then (kRow T a.1).map (· + a.2.2) else []

def kStep (g : MGraph) (s k : Nat) (dom : List Nat) (T : KTable) : KTable :=
  dom.map fun v => (v, kSmallest k (kCands g s T v))

def kIter (g : MGraph) (s k : Nat) (dom : List Nat) : Nat → KTable → Option KTable
  | 0, _ => none
  | f+1, T =>
    let T' := kStep g s k dom T
    if T' == T then some T else kIter g s k dom f T'

/-- nodes that can carry a walk from `s`: `s` and the arc targets -/
def kDom (g : MGraph) (s : Nat) : List Nat := (s :: g.arcs.map (·.2.1)).eraseDups

def kInit (s k : Nat) (dom : List Nat) : KTable := dom.map fun v => (v, kSmallest k (if v = s then [0] else []))

/-- the table of the `k` smallest walk costs from `s`, iterated at most `fuel` times (`none`: no fixed
point within the fuel).  The iteration stops at the FIRST fixed point, so a larger fuel never changes
an answer `some T`; `Proofs/C10W4Oracle.lean` shows that `kspFuel v k + 1` always suffices. -/
def kWalksF (fuel : Nat) (g : MGraph) (s k : Nat) : Option KTable :=
  let dom := kDom g s
  kIter g s k dom fuel (kInit s k dom)

/-- the default fuel (a function of the abstract graph only) -/
def kWalksFuel (g : MGraph) (k : Nat) : Nat := k * (g.nodes.length + 2) + 8

def kWalks (g : MGraph) (s k : Nat) : Option KTable := kWalksF (kWalksFuel g k) g s k

/-- `k ≥ 1`.  Every entry is the k-th smallest walk cost of its node; without goal exactly the nodes
with at least `k` walks have an entry, with goal the goal has an entry iff it has `k` walks;
`k = 1` without goal must be an accepted distance certificate (coincides with dijkstra). -/
def okKspF (fuel : Nat) (g : MGraph) (s : Nat) (goal : Option Nat) (k : Nat) (m : List (Nat × Int)) : Bool :=
  match kWalksF fuel g s k with
  | none => false
  | some T =>
    decide (1 ≤ k) &&
    keysNodup m &&
    m.all (fun vc => (kRow T vc.1)[k - 1]? == some vc.2) &&
    (match goal with
     | none => T.all fun vr => if k ≤ vr.2.length then (labelOf m vr.1).isSome else true
     | some t => ((kRow T t)[k - 1]?).isSome == (labelOf m t).isSome) &&
    (if k = 1 ∧ goal = none then checkDist g s m else true)

/-- the judge with the default fuel of the oracle -/
def okKsp (g : MGraph) (s : Nat) (goal : Option Nat) (k : Nat) (m : List (Nat × Int)) : Bool :=
  okKspF (kWalksFuel g k) g s goal k m

/-! ### +infinity (wave 6)

Float costs may be `+∞`.  The harness encodes `+∞` as a sentinel weight `S` (far above every finite sum of the
case) in the abstract graph and passes `f64::INFINITY` to the real call; the implementation's `inf` answers are
read as `S`.  An answer is accepted iff it is the image under `canonInf S` (everything `≥ S` is `+∞`) of an answer
the ordinary judge accepts: the `S` entries are lifted to the oracle's own value (which must be `≥ S`). -/

def canonInf (S c : Int) : Int := if S ≤ c then S else c

def liftVal (S : Int) (r : Option Int) : Int :=
  match r with
  | some y => if S ≤ y then y else S
  | none => S

/-- replace every entry `S` by the reference value of its node (if that is `≥ S`) -/
def liftInf (S : Int) (ref : Nat → Option Int) (m : List (Nat × Int)) : List (Nat × Int) :=
  m.map fun vc => if vc.2 == S then (vc.1, liftVal S (ref vc.1)) else vc

def belowInf (S : Int) (m : List (Nat × Int)) : Bool := m.all fun vc => decide (vc.2 ≤ S)

def okDijInf (S : Int) (g : MGraph) (s : Nat) (m : List (Nat × Int)) : Bool :=
  belowInf S m &&
  match certDist g s with
  | none => false
  | some d => okDijAll g s (liftInf S (labelOf d) m)

def okKspInfF (S : Int) (fuel : Nat) (g : MGraph) (s k : Nat) (m : List (Nat × Int)) : Bool :=
  belowInf S m &&
  match kWalksF fuel g s k with
  | none => false
  | some T => okKspF fuel g s none k (liftInf S (fun v => (kRow T v)[k - 1]?) m)

def okAstarInf (S : Int) (g : MGraph) (s : Nat) (goals : List Nat) (ans : Option (Int × List Nat)) : Bool :=
  match ans with
  | none => okAstar g s goals none
  | some (c, p) =>
    if c == S then
      -- every path through a `+∞` arc is as good as any other: the path must be real, cost `≥ S`, and no goal be
      -- reachable below `S`
      match certDist g s with
      | none => false
      | some d =>
        (p.head? == some s) &&
        (match p.getLast? with
         | some t => goals.contains t
         | none => false) &&
        (match pathCost g p with
         | some pc => decide (S ≤ pc)
         | none => false) &&
        goals.all fun t => match labelOf d t with
          | none => true
          | some y => decide (S ≤ y)
    else decide (c < S) && okAstar g s goals (some (c, p))

/-! ### MinScored as a specification: reverse of the numeric order, NaN last -/

/-- numeric `≤` on the non-NaN scores -/
def numLe : SP.Score → SP.Score → Bool
  | .nan, _ => false
  | _, .nan => false
  | .ninf, _ => true
  | .fin _, .ninf => false
  | .fin x, .fin y => decide (x ≤ y)
  | .fin _, .pinf => true
  | .pinf, .pinf => true
  | .pinf, _ => false

/-- `a` leaves a max-heap of `MinScored` no later than `b`: smaller score first, NaN last -/
def popsBefore (a b : SP.Score) : Bool := b == .nan || numLe a b

/-- the specified `cmp`: `Greater` = popped earlier -/
def specCmp (a b : SP.Score) : SP.Ord3 :=
  if popsBefore a b && popsBefore b a then .equal
  else if popsBefore a b then .greater
  else .less

/-- pop order of a heap: a permutation of the pushed scores, ascending, NaN last -/
def okHeapOrder (pushed popped : List SP.Score) : Bool :=
  pushed.all (fun x => pushed.count x == popped.count x) &&
  popped.all (fun x => pushed.count x == popped.count x) &&
  (popped.zip (popped.drop 1)).all fun ab => popsBefore ab.1 ab.2

end PetgraphModel.C10
