import PetgraphModel.Spec.Graph
import PetgraphModel.Oracle.Reach
/-
Shortest-distance *certificate checker* (core Lean only; linked into the driver), shared by C10,
C11 and whoever needs weighted distances.  Works for arbitrary `Int` weights.

`checkDist g s d` accepts a finite labelling `d` (association list node ↦ distance; a node without
an entry is "infinitely far") iff
  1. `s` is labelled `0` and no node is labelled twice;
  2. every arc `u → v` of cost `w` (both directions of an undirected edge) out of a labelled `u`
     leads to a labelled `v` with `d v ≤ d u + w` (feasible potential; also: labelled set is closed);
  3. every labelled node is reachable from `s` through *tight* arcs (`d v = d u + w`), decided by the
     proved `reachFrom` on the tight subgraph (tight zero-cost cycles detached from `s` are thereby
     excluded).
`Proofs/Dist.lean` proves: accepted ⇒ every label is the minimum cost over all walks from `s`,
unlabelled ⇔ unreachable, and no negative closed walk is reachable from `s`.
-/
namespace PetgraphModel
namespace MGraph

/-- arcs `(from, to, cost)`: one per directed edge, two per undirected edge (a loop once) -/
def arcs (g : MGraph) : List (Nat × Nat × Int) :=
  g.edges.flatMap fun e =>
    if g.directed || e.src == e.tgt then [(e.src, e.tgt, e.w)] else [(e.src, e.tgt, e.w), (e.tgt, e.src, e.w)]

/-- `WalkCost g a b c`: there is a walk from `a` to `b` of total cost `c` -/
inductive WalkCost (g : MGraph) : Nat → Nat → Int → Prop
  | nil (a : Nat) : WalkCost g a a 0
  | snoc {a b x : Nat} {c w : Int} : WalkCost g a b c → (b, x, w) ∈ g.arcs → WalkCost g a x (c + w)

/-- `d` is the shortest-walk cost from `s` to `v` -/
def IsShortest (g : MGraph) (s v : Nat) (d : Int) : Prop :=
  WalkCost g s v d ∧ ∀ c, WalkCost g s v c → d ≤ c

end MGraph

namespace Oracle
open MGraph

def labelOf (d : List (Nat × Int)) (v : Nat) : Option Int := d.lookup v

/-- the subgraph of tight arcs, as a directed `MGraph` (edge ids are irrelevant) -/
def tightGraph (g : MGraph) (d : List (Nat × Int)) : MGraph :=
  { directed := true, nodes := g.nodes,
    edges := g.arcs.filterMap fun (u, v, w) =>
      match labelOf d u, labelOf d v with
      | some x, some y => if y = x + w then some ⟨0, u, v, w⟩ else none
      | _, _ => none }

def checkDist (g : MGraph) (s : Nat) (d : List (Nat × Int)) : Bool :=
  labelOf d s == some 0 &&
  (d.map (·.1)).eraseDups.length == d.length &&
  g.arcs.all (fun (u, v, w) =>
    match labelOf d u with
    | none => true
    | some x => match labelOf d v with
      | none => false
      | some y => decide (y ≤ x + w)) &&
  (match reachFrom (tightGraph g d) s with
   | none => false
   | some r => d.all fun (v, _) => r.contains v)

/-- cheapest arc `u → v`, if any -/
def minArc (g : MGraph) (u v : Nat) : Option Int :=
  (g.arcs.filterMap fun (a, b, w) => if a = u ∧ b = v then some w else none).foldl
    (fun acc w => match acc with | none => some w | some m => some (min m w)) none

/-- `seq = [v0, v1, …, vk-1]` read cyclically: consecutive nodes joined by arcs, total (cheapest
parallel arcs) negative.  A single node needs a negative self-loop. -/
def checkNegClosedWalk (g : MGraph) (seq : List Nat) : Bool :=
  match seq with
  | [] => false
  | v0 :: _ =>
    let steps := seq.zip (seq.drop 1 ++ [v0])
    match steps.foldl (fun acc (u, v) => match acc, minArc g u v with
        | some t, some w => some (t + w)
        | _, _ => none) (some (0 : Int)) with
    | some t => decide (t < 0)
    | none => false

end Oracle
end PetgraphModel
