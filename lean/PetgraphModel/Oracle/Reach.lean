import PetgraphModel.Spec.Graph
/-
Proved reachability oracle (core Lean only; linked into the driver).

`reachFrom g s` explores from `s` with an explicit work list.  It returns `none` only when its fuel
runs out; `reachFrom_spec` shows that any `some r` it returns is duplicate-free and contains exactly
the nodes `x` with `Reach g s x`.  All graph-theoretic judges of the algorithm properties
(reachable sets, strongly connected components, acyclicity, dominators, cut vertices, closures)
are built from this one function, so their soundness reduces to this theorem.
-/
namespace PetgraphModel
open MGraph

theorem MGraph.mem_succ {g : MGraph} {a b : Nat} : b ∈ g.succ a ↔ g.Adj a b := by
  unfold MGraph.succ MGraph.Adj
  simp only [List.mem_filterMap]
  constructor
  · rintro ⟨e, he, h⟩
    refine ⟨e, he, ?_⟩
    split at h
    · rename_i h1; simp at h; exact Or.inl ⟨h1, h⟩
    · split at h
      · rename_i h1 h2; simp at h; exact Or.inr ⟨h2.1, h, h2.2⟩
      · simp at h
  · rintro ⟨e, he, h⟩
    refine ⟨e, he, ?_⟩
    rcases h with ⟨h1, h2⟩ | ⟨h0, h1, h2⟩
    · simp [h1, h2]
    · by_cases hs : e.src = a
      · simp [hs]; rw [← h1, hs, ← h2]
      · have hba : ¬ b = a := fun hba => hs (h1.trans hba)
        simp [h0, h2, h1, hba]

namespace Oracle

/-- work-list exploration; `disc` is the set discovered so far (most recent first) -/
def reachLoop (g : MGraph) : Nat → List Nat → List Nat → Option (List Nat)
  | 0, _, _ => none
  | _+1, [], disc => some disc
  | f+1, x :: st, disc =>
      if x ∈ disc then reachLoop g f st disc
      else reachLoop g f (g.succ x ++ st) (x :: disc)

def fuelFor (g : MGraph) : Nat := 4 * g.edges.length + g.nodes.length + 8

/-- nodes reachable from `s` (in reverse discovery order) -/
def reachFrom (g : MGraph) (s : Nat) : Option (List Nat) := reachLoop g (fuelFor g) [s] []

structure ReachInv (g : MGraph) (s : Nat) (st disc : List Nat) : Prop where
  nodup : disc.Nodup
  discReach : ∀ x, x ∈ disc → Reach g s x
  stReach : ∀ x, x ∈ st → Reach g s x
  closed : ∀ x, x ∈ disc → ∀ y, g.Adj x y → y ∈ disc ∨ y ∈ st
  start : s ∈ disc ∨ s ∈ st

theorem reachLoop_spec (g : MGraph) (s : Nat) :
    ∀ (f : Nat) (st disc r : List Nat), ReachInv g s st disc → reachLoop g f st disc = some r →
      r.Nodup ∧ ∀ v, v ∈ r ↔ Reach g s v := by
  intro f
  induction f with
  | zero => intro st disc r _ h; simp [reachLoop] at h
  | succ f ih =>
    intro st disc r inv h
    cases st with
    | nil =>
      simp [reachLoop] at h; subst h
      refine ⟨inv.nodup, fun v => ⟨inv.discReach v, ?_⟩⟩
      intro hv
      induction hv with
      | refl => cases inv.start with
        | inl h => exact h
        | inr h => cases h
      | step _ hc ihb =>
        cases inv.closed _ ihb _ hc with
        | inl h => exact h
        | inr h => cases h
    | cons x st =>
      simp only [reachLoop] at h
      split at h
      · rename_i hx
        apply ih st disc r _ h
        refine ⟨inv.nodup, inv.discReach, fun y hy => inv.stReach y (List.mem_cons_of_mem _ hy), ?_, ?_⟩
        · intro a ha y hy
          cases inv.closed a ha y hy with
          | inl h => exact Or.inl h
          | inr h =>
            cases List.mem_cons.mp h with
            | inl h => exact Or.inl (h ▸ hx)
            | inr h => exact Or.inr h
        · cases inv.start with
          | inl h => exact Or.inl h
          | inr h =>
            cases List.mem_cons.mp h with
            | inl h => exact Or.inl (h ▸ hx)
            | inr h => exact Or.inr h
      · rename_i hx
        apply ih _ _ r _ h
        have hxr : Reach g s x := inv.stReach x (List.mem_cons_self ..)
        refine ⟨List.nodup_cons.mpr ⟨hx, inv.nodup⟩, ?_, ?_, ?_, ?_⟩
        · intro y hy
          cases List.mem_cons.mp hy with
          | inl h => exact h ▸ hxr
          | inr h => exact inv.discReach y h
        · intro y hy
          cases List.mem_append.mp hy with
          | inl h => exact Reach.step hxr (MGraph.mem_succ.mp h)
          | inr h => exact inv.stReach y (List.mem_cons_of_mem _ h)
        · intro a ha y hy
          cases List.mem_cons.mp ha with
          | inl h =>
            subst h
            exact Or.inr (List.mem_append.mpr (Or.inl (MGraph.mem_succ.mpr hy)))
          | inr h =>
            cases inv.closed a h y hy with
            | inl h' => exact Or.inl (List.mem_cons_of_mem _ h')
            | inr h' =>
              cases List.mem_cons.mp h' with
              | inl h'' => exact Or.inl (h'' ▸ List.mem_cons_self ..)
              | inr h'' => exact Or.inr (List.mem_append.mpr (Or.inr h''))
        · cases inv.start with
          | inl h => exact Or.inl (List.mem_cons_of_mem _ h)
          | inr h =>
            cases List.mem_cons.mp h with
            | inl h => exact Or.inl (h ▸ List.mem_cons_self ..)
            | inr h => exact Or.inr (List.mem_append.mpr (Or.inr h))

/-- **Soundness and completeness of the reachability oracle.** -/
theorem reachFrom_spec (g : MGraph) (s : Nat) (r : List Nat) (h : reachFrom g s = some r) :
    r.Nodup ∧ ∀ v, v ∈ r ↔ Reach g s v :=
  reachLoop_spec g s _ [s] [] r
    ⟨List.nodup_nil, by simp, by intro x hx; simp at hx; exact hx ▸ Reach.refl _, by simp, Or.inr (by simp)⟩ h

/-- `b` reachable from `a`?  (`none` = fuel exhausted, never trusted) -/
def reachB (g : MGraph) (a b : Nat) : Option Bool := (reachFrom g a).map (·.contains b)

theorem reachB_spec (g : MGraph) (a b : Nat) (r : Bool) (h : reachB g a b = some r) :
    r = true ↔ Reach g a b := by
  unfold reachB at h
  cases hr : reachFrom g a with
  | none => simp [hr] at h
  | some l =>
    simp [hr] at h
    have := (reachFrom_spec g a l hr).2 b
    rw [← h]; simpa using this

end Oracle
end PetgraphModel
