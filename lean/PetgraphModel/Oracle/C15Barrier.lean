import PetgraphModel.Oracle.C15Matching
/-
C15 — a *maximality certificate* checker for matchings: the easy direction of the Tutte–Berge
formula (core Lean only; can be linked into the driver).

For a node set `A` ("barrier") let `odd` be the number of components of `G − A` with an odd number
of nodes.  Every matching leaves at least `odd − |A|` nodes uncovered, so a matching `M` with
`|V| + |A| ≤ 2|M| + odd` is a maximum matching.  The checker does not trust the component labelling:
it takes any labelling `lab` of the nodes outside `A`, re-checks the only property that the proof
needs (no non-loop edge of `G − A` joins two different labels) and counts the label classes of odd
size.  Soundness (`checkBarrierWith_sound`, `checkBarrier_sound`): `Proofs/C15W5Barrier.lean`.

* `isMatchingB g M` decides `IsMatching g M`.
* `compLabels g A`: component labelling of `G − A` (label = smallest node id of the component),
  computed by merging the two label classes of every edge of `G − A`, one pass over the edge list.
* `checkBarrierWith g M A lab`, `checkBarrier g M A` (= with the labelling `compLabels g A`).
* `findBarrier g M`: brute force over all sub-lists `A` of the node list (tests on small graphs).
-/
namespace PetgraphModel.C15
open PetgraphModel

def disjoint2B (p q : Nat × Nat) : Bool :=
  p.1 != q.1 && p.1 != q.2 && p.2 != q.1 && p.2 != q.2

/-- every two different positions of the list hold disjoint pairs -/
def pairwiseDisjointB : List (Nat × Nat) → Bool
  | [] => true
  | p :: r => r.all (disjoint2B p) && pairwiseDisjointB r

/-- decides `IsMatching g M` -/
def isMatchingB (g : MGraph) (M : List (Nat × Nat)) : Bool :=
  M.all (fun p => joinedInB g.edges p.1 p.2) && pairwiseDisjointB M

/-- distinct node ids, edge endpoints are nodes (the same property as `C15M.wfB`) -/
def wfGraphB (g : MGraph) : Bool :=
  nodupB g.nodes && g.edges.all fun e => g.nodes.contains e.src && g.nodes.contains e.tgt

/-- the list without repetitions (keeps the last occurrence of every element) -/
def dedupNat : List Nat → List Nat
  | [] => []
  | x :: xs => if (dedupNat xs).contains x then dedupNat xs else x :: dedupNat xs

/-! ### a component labelling of `G − A` -/

/-- the label of `x` in a labelling given as an association list (`x` itself when not listed) -/
def labOf (l : List (Nat × Nat)) (x : Nat) : Nat := (l.lookup x).getD x

/-- merge the label classes of the two endpoints of `e` (the smaller label wins) -/
def mergeEdge (l : List (Nat × Nat)) (e : Edge) : List (Nat × Nat) :=
  let la := labOf l e.src
  let lb := labOf l e.tgt
  if la == lb then l
  else l.map fun p => if p.2 == la || p.2 == lb then (p.1, min la lb) else p

/-- the nodes outside `A` -/
def outside (g : MGraph) (A : List Nat) : List Nat := g.nodes.filter fun x => !A.contains x

/-- `node ↦ label` for the nodes outside `A`: start with `label = node id`, then merge along every
non-loop edge with both ends outside `A`; two nodes outside `A` get the same label iff they are in the
same component of `G − A` (not needed — and not proved — for the soundness of the checker) -/
def compLabels (g : MGraph) (A : List Nat) : List (Nat × Nat) :=
  g.edges.foldl
    (fun l e => if e.src == e.tgt || A.contains e.src || A.contains e.tgt then l else mergeEdge l e)
    ((outside g A).map fun x => (x, x))

/-! ### the checker -/

/-- the label values `ℓ` (each once) whose class `{x ∈ nodes ∖ A, lab x = ℓ}` has odd size -/
def oddLabels (g : MGraph) (A : List Nat) (lab : Nat → Nat) : List Nat :=
  (dedupNat ((outside g A).map lab)).filter fun ℓ =>
    ((outside g A).filter fun x => lab x == ℓ).length % 2 == 1

/-- no non-loop edge with both ends outside `A` joins two different labels -/
def labelsClosedB (g : MGraph) (A : List Nat) (lab : Nat → Nat) : Bool :=
  g.edges.all fun e =>
    e.src == e.tgt || A.contains e.src || A.contains e.tgt || lab e.src == lab e.tgt

/-- **Tutte–Berge certificate**: `g` is well formed, `M` is a matching, `A` is a duplicate-free list
of nodes, `lab` is constant along the edges of `G − A`, and
`|V| + |A| ≤ 2|M| + #(odd label classes of G − A)`.  Accepts only maximum matchings. -/
def checkBarrierWith (g : MGraph) (M : List (Nat × Nat)) (A : List Nat) (lab : Nat → Nat) : Bool :=
  wfGraphB g && isMatchingB g M &&
  nodupB A && A.all (fun a => g.nodes.contains a) &&
  labelsClosedB g A lab &&
  decide (g.nodes.length + A.length ≤ 2 * M.length + (oddLabels g A lab).length)

def checkBarrier (g : MGraph) (M : List (Nat × Nat)) (A : List Nat) : Bool :=
  checkBarrierWith g M A (labOf (compLabels g A))

/-- all sub-lists (2^n of them) -/
def sublistsOf : List Nat → List (List Nat)
  | [] => [[]]
  | x :: xs => let r := sublistsOf xs; r ++ r.map (x :: ·)

/-- brute force: the first sub-list `A` of the node list that certifies `M` (tests only) -/
def findBarrier (g : MGraph) (M : List (Nat × Nat)) : Option (List Nat) :=
  (sublistsOf g.nodes).find? fun A => checkBarrier g M A

end PetgraphModel.C15
