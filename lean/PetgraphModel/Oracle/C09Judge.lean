import PetgraphModel.Spec.Graph
import PetgraphModel.Oracle.Reach
/-
C09: what the property's clauses MEAN on the abstract graph (`Prop`s over `MGraph`), and executable
checkers for them (core Lean only; linked into the driver).  Every checker is built from the proved
reachability oracle (`Oracle.reachFrom` / `reachB`) or is a definitional brute-force enumeration;
`Proofs/C09Judge.lean` proves, for ALL graphs and ALL candidate outputs,

    checker accepts  →  the clause holds

(`Theorems/C09.lean` lists these as property theorems).  A `none` of the oracle (fuel) is never
trusted: `reachT`/`reachF` are `true` only for a definite answer.
-/
namespace PetgraphModel.C09J
open PetgraphModel PetgraphModel.MGraph PetgraphModel.Oracle

/-! ## specification -/

/-- mutual reachability -/
def SC (g : MGraph) (a b : Nat) : Prop := Reach g a b ∧ Reach g b a

/-- `comps` is the partition of the nodes into classes of mutual reachability, listed so that no
component can reach a later one -/
structure SccSpec (g : MGraph) (comps : List (List Nat)) : Prop where
  nonempty : ∀ c ∈ comps, c ≠ []
  nodup : comps.flatten.Nodup
  cover : ∀ x, x ∈ comps.flatten ↔ x ∈ g.nodes
  classes : ∀ c ∈ comps, ∀ x ∈ c, ∀ y, y ∈ c ↔ SC g x y
  order : comps.Pairwise fun ci cj => ∀ x ∈ ci, ∀ y ∈ cj, ¬ Reach g x y

/-- the same without the order clause (condensation) -/
structure PartSpec (g : MGraph) (comps : List (List Nat)) : Prop where
  nonempty : ∀ c ∈ comps, c ≠ []
  nodup : comps.flatten.Nodup
  cover : ∀ x, x ∈ comps.flatten ↔ x ∈ g.nodes
  classes : ∀ c ∈ comps, ∀ x ∈ c, ∀ y, y ∈ c ↔ SC g x y

/-- `node_component_index` is consistent with the partition: equal index ⇔ same component -/
def IndexSpec (comps : List (List Nat)) (idx : List (Nat × Nat)) : Prop :=
  (∀ c ∈ comps, ∀ x ∈ c, ∃ i, (x, i) ∈ idx) ∧
  ∀ x i y j, (x, i) ∈ idx → (y, j) ∈ idx → (i = j ↔ ∃ c ∈ comps, x ∈ c ∧ y ∈ c)

/-- `k` is the number of weakly connected components: there is a system of `k` representatives,
pairwise unconnected, reaching every node when direction is ignored -/
def IsWccCount (g : MGraph) (k : Nat) : Prop :=
  ∃ reps : List Nat, reps.length = k ∧ (∀ r ∈ reps, r ∈ g.nodes) ∧
    (∀ x ∈ g.nodes, ∃ r ∈ reps, Reach g.undirect r x) ∧
    reps.Pairwise fun a b => ¬ Reach g.undirect a b

/-- some node lies on a directed cycle (a self-loop is a cycle) -/
def CyclicD (g : MGraph) : Prop := ∃ x, Reach1 g x x

/-- the graph without the edge occurrence at position `i` of the edge list -/
def eraseEdge (g : MGraph) (i : Nat) : MGraph := { g with edges := g.edges.eraseIdx i }

/-- direction ignored, the multigraph has a cycle: some edge occurrence whose endpoints are still
connected when that ONE occurrence is removed (a self-loop trivially; a parallel edge by its twin) -/
def CyclicU (g : MGraph) : Prop :=
  ∃ i e, g.edges[i]? = some e ∧ Reach (eraseEdge g i).undirect e.src e.tgt

/-- the component of `s` is 2-colourable -/
def TwoCol (g : MGraph) (s : Nat) : Prop :=
  ∃ col : Nat → Bool, ∀ x y, Reach g s x → Adj g x y → col x ≠ col y

/-- every node exactly once and every edge pointing forward -/
structure TopoOrder (g : MGraph) (ord : List Nat) : Prop where
  nodup : ord.Nodup
  cover : ∀ x, x ∈ ord ↔ x ∈ g.nodes
  forward : ∀ a b, Adj g a b → ord.idxOf a < ord.idxOf b

/-! ## checkers -/

/-- definitely reachable / definitely not reachable -/
def reachT (g : MGraph) (a b : Nat) : Bool := reachB g a b == some true
def reachF (g : MGraph) (a b : Nat) : Bool := reachB g a b == some false

/-- `c` (non-empty, head `h`) is exactly the mutual-reachability class of `h` -/
def classOkB (g : MGraph) (c : List Nat) : Bool :=
  match c with
  | [] => false
  | h :: _ =>
    c.all (fun y => reachT g h y && reachT g y h) &&
    match reachFrom g h with
    | none => false
    | some r => r.all fun y => c.contains y || reachF g y h

def coverOkB (g : MGraph) (comps : List (List Nat)) : Bool :=
  decide comps.flatten.Nodup && comps.flatten.all (fun x => g.nodes.contains x) &&
    g.nodes.all (fun x => comps.flatten.contains x)

/-- no earlier component reaches a later one (heads suffice once the classes are checked) -/
def orderOkB (g : MGraph) : List (List Nat) → Bool
  | [] => true
  | c :: rest =>
    rest.all (fun d => match c, d with
      | h :: _, k :: _ => reachF g h k
      | _, _ => false) && orderOkB g rest

def partOkB (g : MGraph) (comps : List (List Nat)) : Bool :=
  coverOkB g comps && comps.all (classOkB g)

def sccOkB (g : MGraph) (comps : List (List Nat)) : Bool :=
  partOkB g comps && orderOkB g comps

def sameComp (comps : List (List Nat)) (x y : Nat) : Bool :=
  comps.any fun c => c.contains x && c.contains y

def indexOkB (comps : List (List Nat)) (idx : List (Nat × Nat)) : Bool :=
  comps.all (fun c => c.all fun x => idx.any fun p => p.1 == x) &&
  idx.all fun p => idx.all fun q => (p.2 == q.2) == sameComp comps p.1 q.1

/-- greedy system of representatives of the weak components (`none` = the oracle gave no answer) -/
def wccReps (g : MGraph) : List Nat → List Nat → Option (List Nat)
  | [], reps => some reps
  | x :: xs, reps =>
    if reps.any (fun r => reachT g.undirect r x) then wccReps g xs reps
    else if reps.all (fun r => reachF g.undirect r x) then wccReps g xs (reps ++ [x])
    else none

def wccCount (g : MGraph) : Option Nat := (wccReps g g.nodes []).map (·.length)

def cycDYes (g : MGraph) : Bool := g.edges.any fun e => reachT g e.tgt e.src
def cycDNo (g : MGraph) : Bool := g.edges.all fun e => reachF g e.tgt e.src

def cycUYes (g : MGraph) : Bool :=
  (List.range g.edges.length).any fun i =>
    match g.edges[i]? with
    | some e => reachT (eraseEdge g i).undirect e.src e.tgt
    | none => false
def cycUNo (g : MGraph) : Bool :=
  (List.range g.edges.length).all fun i =>
    match g.edges[i]? with
    | some e => reachF (eraseEdge g i).undirect e.src e.tgt
    | none => false

/-- all sublists (as candidate "colour true" sets) -/
def allSubsets : List Nat → List (List Nat)
  | [] => [[]]
  | x :: xs => let r := allSubsets xs; r ++ r.map (x :: ·)

/-- the colouring "member of `sub`" is proper on every edge leaving `comp` -/
def properOn (g : MGraph) (comp sub : List Nat) : Bool :=
  comp.all fun x => (g.succ x).all fun y => sub.contains x != sub.contains y

/-- 2-colourability of the component of `s`, by enumeration of all colourings of that component -/
def twoColB (g : MGraph) (s : Nat) : Option Bool :=
  (reachFrom g s).map fun comp => (allSubsets comp).any (properOn g comp)

def topoOkB (g : MGraph) (ord : List Nat) : Bool :=
  decide ord.Nodup && ord.all (fun x => g.nodes.contains x) && g.nodes.all (fun x => ord.contains x) &&
  g.edges.all fun e => decide (ord.idxOf e.src < ord.idxOf e.tgt) &&
    (g.directed || decide (ord.idxOf e.tgt < ord.idxOf e.src))

/-- `x` lies on a cycle -/
def onCycleB (g : MGraph) (x : Nat) : Bool := (g.succ x).any fun y => reachT g y x

/-! ## condensation -/

/-- index of the component holding `x` -/
def compIdx (comps : List (List Nat)) (x : Nat) : Nat := comps.findIdx fun c => c.contains x

/-- orientation is irrelevant for an undirected edge -/
def normE (directed : Bool) (e : Nat × Nat × Int) : Nat × Nat × Int :=
  if directed || e.1 ≤ e.2.1 then e else (e.2.1, e.1, e.2.2)

def pairOf (directed : Bool) (e : Nat × Nat × Int) : Nat × Nat := ((normE directed e).1, (normE directed e).2.1)

def mapE (comps : List (List Nat)) (e : Edge) : Nat × Nat × Int := (compIdx comps e.src, compIdx comps e.tgt, e.w)

/-- the condensed graph as an `MGraph` -/
def condGraph (directed : Bool) (k : Nat) (es : List (Nat × Nat × Int)) : MGraph :=
  { directed := directed, nodes := List.range k,
    edges := es.zipIdx.map fun (e, i) => { id := i, src := e.1, tgt := e.2.1, w := e.2.2 } }

/-- `make_acyclic = false`: one node per component, every original edge mapped (as a multiset) -/
structure CondSpec (g : MGraph) (nodes : List (List Nat)) (es : List (Nat × Nat × Int)) : Prop where
  part : PartSpec g nodes
  edges : (g.edges.map fun e => normE g.directed (mapE nodes e)).Perm (es.map (normE g.directed))

/-- `make_acyclic = true`: additionally no self-loops, no parallel edges, no cycle; the edges are exactly
the component pairs joined by an original edge, each carrying the weight of such an edge -/
structure CondAcyclicSpec (g : MGraph) (nodes : List (List Nat)) (es : List (Nat × Nat × Int)) : Prop where
  part : PartSpec g nodes
  noLoop : ∀ e ∈ es, e.1 ≠ e.2.1
  simple : (es.map (pairOf g.directed)).Nodup
  acyclic : ¬ CyclicD (condGraph g.directed nodes.length es)
  complete : ∀ e ∈ g.edges, compIdx nodes e.src ≠ compIdx nodes e.tgt →
    ∃ e' ∈ es, pairOf g.directed e' = pairOf g.directed (mapE nodes e)
  sound : ∀ e' ∈ es, ∃ e ∈ g.edges, normE g.directed (mapE nodes e) = normE g.directed e'

def condOkB (g : MGraph) (nodes : List (List Nat)) (es : List (Nat × Nat × Int)) : Bool :=
  partOkB g nodes &&
  (g.edges.map fun e => normE g.directed (mapE nodes e)).isPerm (es.map (normE g.directed))

def condAcyclicOkB (g : MGraph) (nodes : List (List Nat)) (es : List (Nat × Nat × Int)) : Bool :=
  partOkB g nodes &&
  es.all (fun e => e.1 != e.2.1) &&
  decide (es.map (pairOf g.directed)).Nodup &&
  cycDNo (condGraph g.directed nodes.length es) &&
  g.edges.all (fun e => compIdx nodes e.src == compIdx nodes e.tgt ||
    es.any fun e' => pairOf g.directed e' == pairOf g.directed (mapE nodes e)) &&
  es.all fun e' => g.edges.any fun e => normE g.directed (mapE nodes e) == normE g.directed e'

end PetgraphModel.C09J
