import PetgraphModel.Oracle.C12Forest
/-
C12, wave 4 — what `min_spanning_tree_prim` does on DIRECTED storage, as a specification and as an
executable judge (core Lean only; linked into the driver).

`min_spanning_tree_prim` pushes `g.edges(a)` of every node it takes; on directed storage these are
the OUT-edges of `a` only.  So the graph is *not* treated as if undirected: the iterator grows an
out-tree (arborescence) from the first node reference, always along a lightest stored edge that
leaves the set of taken nodes, until no stored edge leaves it.  The result spans exactly the nodes
reachable from the first node by directed walks; it is in general neither a spanning tree of the
first node's undirected component nor of minimum weight (`Theorems/C12.lean`:
`C12_prim_directed_undirected_reading_false_witness`).
-/
namespace PetgraphModel.MST
open PetgraphModel MGraph

/-- greedy growth of an out-tree: from the taken set `T` the stream `S` leads to the taken set `T'`;
every stream edge `(a, b, w)` is a stored edge `a → b` of weight `w` from a taken node to a node not
yet taken, and no stored edge leaving the taken set is lighter -/
inductive DGrow (E : List Edge) : List Nat → List (Nat × Nat × Int) → List Nat → Prop
  | nil (T : List Nat) : DGrow E T [] T
  | cons {T : List Nat} {a b : Nat} {w : Int} {S : List (Nat × Nat × Int)} {T' : List Nat} :
      a ∈ T → b ∉ T → (∃ e ∈ E, e.src = a ∧ e.tgt = b ∧ e.w = w) →
      (∀ e ∈ E, e.src ∈ T → e.tgt ∉ T → w ≤ e.w) →
      DGrow E (b :: T) S T' → DGrow E T ((a, b, w) :: S) T'

/-- the clause for directed storage: greedy out-tree from the first node `r`, grown until no stored
edge leaves it -/
def DirPrimTree (E : List Edge) (r : Nat) (S : List (Nat × Nat × Int)) : Prop :=
  ∃ T, DGrow E [r] S T ∧ ∀ e ∈ E, e.src ∈ T → e.tgt ∈ T

/-- one step of `DGrow`, executable; `none` = fine -/
def dgrowStep (E : List Edge) (T : List Nat) (s : Nat × Nat × Int) : Option String :=
  if !T.contains s.1 then some s!"the source {s.1} of an edge element is not in the tree yet"
  else if T.contains s.2.1 then some s!"the target {s.2.1} of an edge element is already in the tree"
  else if !(E.any fun e => e.src == s.1 && e.tgt == s.2.1 && e.w == s.2.2) then
    some s!"{s.1}->{s.2.1} with weight {s.2.2} is not a stored edge of g"
  else if !(E.all fun e => !T.contains e.src || T.contains e.tgt || decide (s.2.2 ≤ e.w)) then
    some s!"{s.1}->{s.2.1} with weight {s.2.2} is not a lightest stored edge leaving the tree"
  else none

/-- run the stream; `.ok T` = the final taken set -/
def dgrowRun (E : List Edge) : List Nat → List (Nat × Nat × Int) → Except String (List Nat)
  | T, [] => .ok T
  | T, s :: rest =>
    match dgrowStep E T s with
    | some why => .error why
    | none => dgrowRun E (s.2.1 :: T) rest

/-- Prim's clause on directed storage; `none` = accepted -/
def judgePrimDirected (V : List Nat) (E : List Edge) (S : List (Nat × Nat × Int)) : Option String :=
  match V with
  | [] => if S.isEmpty then none else some "edge elements on the empty graph"
  | r :: _ =>
    match dgrowRun E [r] S with
    | .error why => some why
    | .ok T =>
      if E.all fun e => !T.contains e.src || T.contains e.tgt then none
      else some "a stored edge leaves the tree: a node reachable from the first node was not taken"

end PetgraphModel.MST
