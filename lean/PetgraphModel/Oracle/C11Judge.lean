import PetgraphModel.Spec.Graph
import PetgraphModel.Oracle.Reach
import PetgraphModel.Oracle.Dist
/-
Spec-level judges of C11 (core Lean only; linked into the driver).  They implement the clauses of
the property statement against the ABSTRACT graph and are built from the proved certificate
checkers `Oracle.checkDist` / `Oracle.checkNegClosedWalk` and the proved `Oracle.reachFrom`:

* an `Ok` answer is accepted iff the implementation's own distances pass `checkDist` (so they are
  exact, `∞` exactly for the unreachable nodes, and no negative cycle is reachable: `Ok` was right)
  and the predecessors form a shortest-path tree (`predTreeB`);
* an `Err` answer is accepted iff a *reference search* (`refCert`, a plain Bellman–Ford over the
  arcs; NOT trusted) exhibits a node sequence that `checkNegClosedWalk` accepts and `reachFrom`
  shows reachable from the source; if instead it exhibits distances that `checkDist` accepts, the
  `Err` is wrong.  Whatever the reference search does, an accepted answer is backed by a checked
  certificate; soundness theorems: `Proofs/C11.lean`, `Theorems/C11.lean`.
-/
namespace PetgraphModel.C11J
open PetgraphModel PetgraphModel.MGraph PetgraphModel.Oracle

/-! ### predecessor trees -/

/-- the arc `p → v` exists with a cost that makes it tight for the labelling `d` -/
def tightArcB (g : MGraph) (d : List (Nat × Int)) (p v : Nat) : Bool :=
  match labelOf d p, labelOf d v with
  | some x, some y => g.arcs.any fun a => a.1 == p && a.2.1 == v && y == x + a.2.2
  | _, _ => false

/-- following `pred` from `v` reaches `s` within `fuel` steps, every step along a tight arc -/
def chainB (g : MGraph) (d : List (Nat × Int)) (pred : Nat → Option Nat) (s : Nat) : Nat → Nat → Bool
  | 0, v => v == s
  | f+1, v =>
    if v == s then true
    else match pred v with
      | none => false
      | some p => tightArcB g d p v && chainB g d pred s f p

/-- `pred` is a shortest-path tree for the labelling `d` rooted at `s`: no entry exactly for `s`
and for the unlabelled nodes; every other node's entry is the tail of a tight arc into it and the
chain of entries leads back to `s` -/
def predTreeB (g : MGraph) (s : Nat) (d : List (Nat × Int)) (pred : Nat → Option Nat) : Bool :=
  g.nodes.all fun v =>
    if v == s || (labelOf d v).isNone then (pred v).isNone
    else (pred v).isSome && chainB g d pred s g.nodes.length v

/-! ### the reference search (untrusted; its output is checked) -/

abbrev RTab := List (Nat × Int)

def rget {α : Type} (t : List (Nat × α)) (k : Nat) : Option α := List.lookup k t
def rset {α : Type} (t : List (Nat × α)) (k : Nat) (x : α) : List (Nat × α) := (k, x) :: t.filter fun e => !(e.1 == k)

structure RS where
  d : List (Nat × Int) := []
  p : List (Nat × Nat) := []
  upd : Bool := false

def refRelax (st : RS) (a : Nat × Nat × Int) : RS :=
  match rget st.d a.1 with
  | none => st
  | some x =>
    let better := match rget st.d a.2.1 with
      | none => true
      | some y => decide (x + a.2.2 < y)
    if better then { d := rset st.d a.2.1 (x + a.2.2), p := rset st.p a.2.1 a.1, upd := true } else st

def refPasses (arcs : List (Nat × Nat × Int)) : Nat → RS → RS
  | 0, st => st
  | k+1, st =>
    let st' := arcs.foldl refRelax { st with upd := false }
    if st'.upd then refPasses arcs k st' else st'

def iterPred (p : List (Nat × Nat)) : Nat → Nat → Option Nat
  | 0, v => some v
  | k+1, v => match rget p v with
    | none => none
    | some u => iterPred p k u

/-- the cycle through `y` in the predecessor graph, in predecessor order -/
def collectCycle (p : List (Nat × Nat)) (y : Nat) : Nat → Nat → List Nat → Option (List Nat)
  | 0, _, _ => none
  | f+1, v, acc =>
    match rget p v with
    | none => none
    | some u => if u == y then some (acc ++ [v]) else collectCycle p y f u (acc ++ [v])

inductive Cert where
  | dist (d : List (Nat × Int))
  | negWalk (seq : List Nat)
  | unknown
  deriving Repr

/-- candidate certificate for "is a negative cycle reachable from `s`?" -/
def refCert (g : MGraph) (s : Nat) : Cert :=
  let n := g.nodes.length + 1
  let st := refPasses g.arcs (n + 1) { d := [(s, 0)] }
  if !st.upd then
    .dist st.d
  else
    -- some label still moved in the last pass: the predecessor graph contains a cycle
    let cands := st.d.map (·.1)
    match cands.findSome? fun v =>
      match iterPred st.p n v with
      | none => none
      | some y => match collectCycle st.p y (n + 1) y [] with
        | none => none
        | some cyc => let seq := cyc.reverse
                      if checkNegClosedWalk g seq then some seq else none with
    | some seq => .negWalk seq
    | none => .unknown

/-- checked answer to "is a negative cycle reachable from `s`?": `some true` is backed by an
accepted closed walk all of whose nodes are reachable, `some false` by an accepted distance
certificate; `none` = the reference search produced nothing checkable (never trusted) -/
def negReachable (g : MGraph) (s : Nat) : Option Bool :=
  match refCert g s with
  | .dist d => if checkDist g s d then some false else none
  | .negWalk seq =>
    match reachFrom g s with
    | none => none
    | some r => if checkNegClosedWalk g seq && seq.all (fun x => r.contains x) then some true else none
  | .unknown => none

/-- checked answer to "does the graph contain a negative cycle?" -/
def negAnywhere (g : MGraph) : Option Bool :=
  g.nodes.foldl (fun acc u => match acc with
    | some false => negReachable g u
    | other => other) (some false)

/-! ### judges.  `none` = accepted, `some why` = the clause of the property that fails -/

/-- `Ok(paths)` of bellman_ford / spfa: `d` = finite labels, `pred` = predecessor entries -/
def judgeOk (g : MGraph) (s : Nat) (d : List (Nat × Int)) (pred : Nat → Option Nat) : Option String :=
  if !checkDist g s d then
    some (match negReachable g s with
      | some true => "Ok although a negative cycle is reachable from the source"
      | _ => "distances are not the shortest-walk costs from the source (certificate rejected)")
  else if !predTreeB g s d pred then some "predecessors do not form a shortest-path tree rooted at the source"
  else none

/-- `Err(NegativeCycle)` of bellman_ford / spfa -/
def judgeErr (g : MGraph) (s : Nat) : Option String :=
  match negReachable g s with
  | some true => none
  | some false => some "NegativeCycle reported but no negative cycle is reachable from the source"
  | none => some "judge inconclusive (reference search produced no checkable certificate)"

/-- verdict on a `find_negative_cycle` answer (the former third verdict `d15` — "KNOWN D15" for the
answer `Some([source])` — is gone: D15 is repaired in /repo, a returned sequence is judged by
`checkNegClosedWalk` and by nothing else) -/
inductive FncVerdict where
  | ok
  | fail (why : String)

/-- `find_negative_cycle`: `ans` = returned sequence, `bfErr` = bellman_ford erred on the same input -/
def judgeFnc (g : MGraph) (s : Nat) (ans : Option (List Nat)) (bfErr : Bool) : FncVerdict :=
  match negReachable g s with
  | none => .fail "judge inconclusive (reference search produced no checkable certificate)"
  | some neg =>
    match ans with
    | none =>
      if bfErr then .fail "None although bellman_ford reports a negative cycle"
      else if neg then .fail "None although a negative cycle is reachable from the source"
      else .ok
    | some seq =>
      if !neg then .fail "Some although no negative cycle is reachable from the source"
      else if !bfErr then .fail "Some although bellman_ford returns Ok"
      else if checkNegClosedWalk g seq then .ok
      else .fail "the returned sequence is not a closed walk of negative cost"

/-- all-pairs answers: `entry u v` = finite distance (`none` = `max()`) -/
def rowOf (g : MGraph) (entry : Nat → Nat → Option Int) (u : Nat) : List (Nat × Int) :=
  g.nodes.filterMap fun v => (entry u v).map fun y => (v, y)

/-- `Ok(matrix)` of floyd_warshall: every row is an accepted distance certificate -/
def judgeFwOk (g : MGraph) (entry : Nat → Nat → Option Int) : Option String :=
  match g.nodes.find? fun u => !checkDist g u (rowOf g entry u) with
  | some u => some (match negAnywhere g with
      | some true => "Ok although the graph contains a negative cycle"
      | _ => s!"row {u} is not the shortest-walk costs from {u} (certificate rejected)")
  | none => none

/-- `prev` of floyd_warshall_path: every row `prev[u][·]` is a shortest-path tree rooted at `u`
(the diagonal entry is not constrained here; the mirror model compares it exactly) -/
def judgeFwPrev (g : MGraph) (entry : Nat → Nat → Option Int) (prev : Nat → Nat → Option Nat) : Option String :=
  match g.nodes.find? fun u =>
      !predTreeB g u (rowOf g entry u) (fun v => if v == u then none else prev u v) with
  | some u => some s!"prev entries of row {u} do not spell out shortest paths from {u}"
  | none => none

/-- `Err(NegativeCycle)` of floyd_warshall -/
def judgeFwErr (g : MGraph) : Option String :=
  match negAnywhere g with
  | some true => none
  | some false => some "NegativeCycle reported but the graph has no negative cycle"
  | none => some "judge inconclusive (reference search produced no checkable certificate)"

end PetgraphModel.C11J
