import PetgraphModel.Spec.C12Forest
import PetgraphModel.Oracle.Reach
/-
C12 — executable checkers for "is a minimum spanning forest" (core Lean only; linked into the driver).

All connectivity questions go through the proved `Oracle.reachB` (`connQ`), which answers
`some true` / `some false` (both proved correct) or `none` (fuel exhausted, never trusted).  Two
readings are used:

* *must* checks (`forestMust`, `spanMust`) accept only on definite answers — they are applied to the
  implementation's output, so acceptance proves the clause;
* *may* checks (`forestMay`, `spanMay`) reject only on definite answers — they filter the brute-force
  candidates, so no genuine spanning forest is ever dropped from the minimum.

`Proofs/C12Forest.lean` proves: `judgeForest … = none` ⇒ the stream's edges denote a sub-multiset of
the graph's edges that is acyclic, spanning, has `|V| − c` elements, satisfies the cycle property and
(when the brute-force bound applies) weighs no more than any spanning forest by enumeration;
`Proofs/C12Min.lean` proves that the cycle property alone certifies minimum weight, for every size.
-/
namespace PetgraphModel.MST
open PetgraphModel MGraph Oracle

/-- are `a`, `b` connected over `F`?  (`none` = oracle out of fuel) -/
def connQ (F : List Edge) (a b : Nat) : Option Bool := reachB (ug F) a b

def sameEnds (e : Edge) (a b : Nat) : Bool :=
  (e.src == a && e.tgt == b) || (e.src == b && e.tgt == a)

/-- take the first edge of `pool` with the given endpoints (either orientation) and weight -/
def takeEdge (a b : Nat) (w : Int) : List Edge → Option (Edge × List Edge)
  | [] => none
  | e :: rest =>
    if sameEnds e a b && e.w == w then some (e, rest)
    else match takeEdge a b w rest with
      | none => none
      | some (x, r) => some (x, e :: r)

/-- match every stream edge with a *distinct* edge of the pool; returns (matched, unused) -/
def matchEdges : List (Nat × Nat × Int) → List Edge → Option (List Edge × List Edge)
  | [], pool => some ([], pool)
  | s :: rest, pool =>
    match takeEdge s.1 s.2.1 s.2.2 pool with
    | none => none
    | some (e, pool') =>
      match matchEdges rest pool' with
      | none => none
      | some (m, r) => some (e :: m, r)

/-- inserting the edges one by one never joins two already connected nodes (definite answers only) -/
def forestMust : List Edge → List Edge → Bool
  | _, [] => true
  | acc, e :: rest => connQ acc e.src e.tgt == some false && forestMust (e :: acc) rest

/-- … never *definitely* closes a cycle -/
def forestMay : List Edge → List Edge → Bool
  | _, [] => true
  | acc, e :: rest => connQ acc e.src e.tgt != some true && forestMay (e :: acc) rest

/-- the endpoints of every edge of `E` are (definitely) connected over `F` -/
def spanMust (E F : List Edge) : Bool := E.all fun e => connQ F e.src e.tgt == some true
def spanMay (E F : List Edge) : Bool := E.all fun e => connQ F e.src e.tgt != some false

/-- is `x` connected to one of `reps`? -/
def connAny (E : List Edge) (reps : List Nat) (x : Nat) : Option Bool :=
  (reachFrom (ug E) x).map fun r => reps.any fun y => r.contains y

/-- one representative (the first node in list order) per connected component -/
def compReps (E : List Edge) : List Nat → List Nat → Option (List Nat)
  | reps, [] => some reps
  | reps, x :: xs =>
    match connAny E reps x with
    | none => none
    | some true => compReps E reps xs
    | some false => compReps E (reps ++ [x]) xs

/-- all sublists -/
def subs {α : Type} : List α → List (List α)
  | [] => [[]]
  | x :: xs => subs xs ++ (subs xs).map (x :: ·)

def minOpt : List Int → Option Int
  | [] => none
  | x :: xs => match minOpt xs with
    | none => some x
    | some m => some (if x ≤ m then x else m)

/-- brute force: the least weight among all sublists that are not definitely rejected as spanning
forests (a superset of the genuine spanning forests that are sublists) -/
def bruteMin (E : List Edge) : Option Int :=
  minOpt (((subs E).filter fun F => forestMay [] F && spanMay E F).map weight)

/-- all decompositions `l1 ++ f :: l2` of a list -/
def splits {α : Type} : List α → List (List α × α × List α)
  | [] => []
  | x :: xs => ([], x, xs) :: (splits xs).map fun (l1, f, l2) => (x :: l1, f, l2)

/-- cycle property: for every unused edge `e` (not a loop), no forest edge heavier than `e` lies on
the forest path between `e`'s endpoints (they stay connected when that forest edge is removed) -/
def cycleCert (M R : List Edge) : Bool :=
  R.all fun e => e.src == e.tgt ||
    (splits M).all fun (l1, f, l2) => decide (f.w ≤ e.w) || connQ (l1 ++ l2) e.src e.tgt == some true

/-- The judge: is the edge stream `S` (abstract ids) a minimum spanning forest of `(V, E)`?
`none` = accepted.  Minimality is decided by brute force when `E.length ≤ bound`; the cycle property
is checked for every size. -/
def judgeForest (V : List Nat) (E : List Edge) (bound : Nat) (S : List (Nat × Nat × Int)) : Option String :=
  match matchEdges S E with
  | none => some "an edge element is not an edge of g with that weight (each edge of g usable once)"
  | some (M, R) =>
    if !forestMust [] M then some "the edge elements contain a cycle"
    else if !spanMust E M then some "the edge elements do not span: two nodes connected in g are not connected in the forest"
    else match compReps E [] V with
      | none => some "ORACLE-FUEL"
      | some reps =>
        if M.length + reps.length != V.length then
          some s!"{M.length} edge elements, |V| - c = {V.length} - {reps.length}"
        else if !cycleCert M R then
          some "not minimum: an unused edge is lighter than a forest edge on the cycle it closes"
        else if E.length ≤ bound then
          match bruteMin E with
          | none => some "ORACLE: no spanning forest enumerated"
          | some m =>
            if weight M ≤ m then none
            else some s!"total weight {weight M}, minimum over all spanning forests is {m}"
        else none

/-- the edges lying inside the node set `comp` -/
def edgesWithin (comp : List Nat) (E : List Edge) : List Edge :=
  E.filter fun e => comp.contains e.src && comp.contains e.tgt

/-- Prim's clause: for the component of the first node a minimum spanning tree -/
def judgePrimEdges (V : List Nat) (E : List Edge) (bound : Nat) (S : List (Nat × Nat × Int)) : Option String :=
  match V with
  | [] => if S.isEmpty then none else some "edge elements on the empty graph"
  | s :: _ =>
    match reachFrom (ug E) s with
    | none => some "ORACLE-FUEL"
    | some comp => judgeForest comp (edgesWithin comp E) bound S

end PetgraphModel.MST
