import PetgraphModel.Spec.C13Iso
/-
C13 — the definitional oracle: enumerate every injection of the nodes of `g0` into the nodes of `g1`
(`injections`, complete and duplicate-free: `Proofs/C13Iso.lean`), keep those that satisfy the definition
(`embedsB`).  Exponential — run on small graphs only; the bound applies to the search, not to the theorems.
Core Lean only.

A mapping is a *vector* `l` read against the node list `dom` of `g0`: the i-th node of `dom` is sent to `l[i]`.
-/
namespace PetgraphModel.C13
open PetgraphModel

/-- all duplicate-free lists of length `k` over `cod` (the k-permutations of `cod`) -/
def injections : Nat → List Nat → List (List Nat)
  | 0, _ => [[]]
  | k + 1, cod => cod.flatMap fun x => (injections k (cod.erase x)).map (x :: ·)

/-- the function a vector stands for -/
def mapOf (dom l : List Nat) (a : Nat) : Nat := ((dom.zip l).lookup a).getD 0

def adjB (g : MGraph) (a b : Nat) : Bool := decide (g.Adj a b)

/-- the three clauses of `Embeds` that are not built into `injections` -/
def embedsB (P : Problem) (f : Nat → Nat) : Bool :=
  (P.g0.nodes.all fun a => P.g0.nodes.all fun b => adjB P.g0 a b == adjB P.g1 (f a) (f b))
  && (P.g0.nodes.all fun a => P.nm (P.nw0 a) (P.nw1 (f a)))
  && (P.g0.edges.all fun e0 => P.g1.edges.all fun e1 =>
        !(decide (Connects P.g1 e1 (f e0.src) (f e0.tgt))) || P.em e0.w e1.w)

/-- every embedding, as a vector over `g0.nodes`, each exactly once -/
def subIsoAll (P : Problem) : List (List Nat) :=
  (injections P.g0.nodes.length P.g1.nodes).filter fun l => embedsB P (mapOf P.g0.nodes l)

def subIsoB (P : Problem) : Bool := !(subIsoAll P).isEmpty

def isoB (P : Problem) : Bool := P.g0.nodes.length == P.g1.nodes.length && subIsoB P

instance (g : MGraph) : Decidable (Simple g) := by
  unfold Simple; exact inferInstance

instance (g : MGraph) : Decidable g.WellFormed := by
  unfold MGraph.WellFormed; exact inferInstance

def simpleB (g : MGraph) : Bool := decide (Simple g)

def wfB (g : MGraph) : Bool := decide g.WellFormed

/-- the side conditions of the property: well-formed simple graphs of the same edge type -/
def problemOkB (P : Problem) : Bool :=
  wfB P.g0 && wfB P.g1 && simpleB P.g0 && simpleB P.g1 && P.g0.directed == P.g1.directed

/-! ### judges of implementation answers -/

/-- the two lists are equal as multisets, *provided `r` is duplicate-free* (it is: `subIsoAll_nodup`) -/
def sameMultisetB (l r : List (List Nat)) : Bool :=
  l.length == r.length && r.all (fun x => l.contains x) && l.all (fun x => r.contains x)

/-- verdict on the answer of `subgraph_isomorphisms_iter`: `none` = the function returned `None`,
`some l` = the vectors the iterator yielded.  `none` stands for "no mapping". -/
def judgeIter (P : Problem) (ans : Option (List (List Nat))) : Bool :=
  match ans with
  | none => (subIsoAll P).isEmpty
  | some l => sameMultisetB l (subIsoAll P)

def judgeSub (P : Problem) (ans : Bool) : Bool := ans == subIsoB P

def judgeIso (P : Problem) (ans : Bool) : Bool := ans == isoB P

end PetgraphModel.C13
