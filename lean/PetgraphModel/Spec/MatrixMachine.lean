import PetgraphModel.Model.Matrix
import PetgraphModel.Spec.MatrixSimpleGraph
/-
The abstract machine of property C04, core Lean only (the driver links it; the theorems are about it).

* `specStep` — what the property says one call does to the simple graph `MatrixSpec.G` and what it
  answers.  `Valid` — the property's quantifier ("operations between existing nodes"), `validB` — the
  executable check of it that the driver evaluates on every call it judges.
  (These four definitions used to live in `Proofs/MatrixGraph.lean`; the names are unchanged.)
* ordered observers (wave 5): a `MatrixGraph` iterates in a *determined* order — `node_identifiers`,
  `node_references` ascending by id; `neighbors(a)`, `edges(a)`, `edges_directed(a, ·)` ascending by the
  other endpoint; `edge_references` row-major = lexicographic by `(source, target)` with
  `target ≤ source` in an undirected graph.  `G.idsAsc`, `G.nodesAsc`, `G.succAsc`, `G.predAsc`,
  `G.edgeRefsAsc` say this about the simple graph alone (no matrix, no capacity).
* `specExtend` — `extend_with_edges` / `from_edges` on a graph without vacancies (ids `0..n`): per
  element, the nodes `n, n+1, …, max(a, b)` are added with the default weight, then `add_edge`.
-/
namespace PetgraphModel.MatrixProofs
open PetgraphModel.Matrix PetgraphModel.MatrixSpec

/-- `Nullable::new` rejects the weight (the documented assertion of `NotZero::new`) -/
def zeroRejected (nz : Bool) (w : Int) : Bool := nz && w == 0

/-- What the property says a call does to the simple graph, and what it answers.  `id` is the id an
`add_node` hands out (the property leaves the choice open; it only must not be a live id). -/
def specStep (nz : Bool) (ixMax : Nat) (g : G) (op : Op) (id : Nat) : G × Out :=
  match op with
  | .addNode w => if g.nodeCount = ixMax then (g, .panic) else (g.addNode id w, .id id)
  | .tryAddNode w => if g.nodeCount = ixMax then (g, .resErr .nodeIxLimit) else (g.addNode id w, .resIdOk id)
  | .removeNode a => match g.nodeWeight a with
    | some w => (g.removeNode a, .w w)
    | none => (g, .panic)
  | .addEdge a b w => if zeroRejected nz w then (g, .panic)
    else (g.setEdge a b w, if (g.weight a b).isSome then .panic else .unit)
  | .updateEdge a b w => if zeroRejected nz w then (g, .panic) else (g.setEdge a b w, .optW (g.weight a b))
  | .tryUpdateEdge a b w | .addOrUpdateEdge a b w =>
    if zeroRejected nz w then (g, .panic) else (g.setEdge a b w, .resOk (g.weight a b))
  | .removeEdge a b => match g.weight a b with
    | some w => (g.removeEdge a b, .w w)
    | none => (g, .panic)
  | .tryRemoveEdge a b => match g.weight a b with
    | some w => (g.removeEdge a b, .optW (some w))
    | none => (g, .optW none)
  | .setNodeWeight a w => if g.live a then (g.setNodeWeight a w, .unit) else (g, .panic)
  | .setEdgeWeight a b w => if (g.weight a b).isSome then (g.setEdge a b w, .unit) else (g, .panic)
  | .buildAddEdge a b w => if (g.weight a b).isSome then (g, .bool false)
    else if zeroRejected nz w then (g, .panic) else (g.setEdge a b w, .bool true)
  | .buildUpdateEdge a b w => if zeroRejected nz w then (g, .panic) else (g.setEdge a b w, .unit)
  | .clear => (g.clear, .unit)

/-- the property's quantifier: edge-writing calls are between existing nodes (and the sentinel is not
written through `edge_weight_mut` of a `NotZero` graph); every other call takes arbitrary arguments -/
def Valid (nz : Bool) (g : G) : Op → Prop
  | .addEdge a b _ | .updateEdge a b _ | .tryUpdateEdge a b _ | .addOrUpdateEdge a b _
  | .buildAddEdge a b _ | .buildUpdateEdge a b _ => g.live a = true ∧ g.live b = true
  | .setEdgeWeight _ _ w => nz = true → w ≠ 0
  | _ => True

/-- the id a model answer hands out -/
def idOf : Out → Nat
  | .id n => n
  | .resIdOk n => n
  | _ => 0

instance instDecidableValid (nz : Bool) (g : G) (op : Op) : Decidable (Valid nz g op) := by
  cases op <;> unfold Valid <;> infer_instance

/-- **run-time check of `Valid`** (the driver evaluates it on every mutating call it judges) -/
def validB (nz : Bool) (g : G) (op : Op) : Bool := decide (Valid nz g op)

end PetgraphModel.MatrixProofs

namespace PetgraphModel.MatrixSpec
open PetgraphModel.Matrix

/-! ### ordered observers of the simple graph -/

/-- lexicographic order on `(key, weight)` (total, antisymmetric) -/
def leKW (a b : (Nat × Nat) × Int) : Bool :=
  a.1.1 < b.1.1 || (a.1.1 == b.1.1 && (a.1.2 < b.1.2 || (a.1.2 == b.1.2 && a.2 ≤ b.2)))

namespace G

/-- `node_identifiers()`: the live ids, ascending -/
def idsAsc (g : G) : List Nat := g.ids.mergeSort (fun a b => decide (a ≤ b))

/-- `node_references()`: the live ids, ascending, with their weights -/
def nodesAsc (g : G) : List (Nat × Int) :=
  g.idsAsc.filterMap fun i => (g.nodeWeight i).map fun w => (i, w)

/-- `edges(a)` / `neighbors(a)` / `edges_directed(a, Outgoing)`: the successors of `a`, ascending -/
def succAsc (g : G) (a : Nat) : List (Nat × Int) :=
  g.idsAsc.filterMap fun b => (g.weight a b).map fun w => (b, w)

/-- `edges_directed(a, Incoming)` / `neighbors_directed(a, Incoming)`: the predecessors, ascending -/
def predAsc (g : G) (a : Nat) : List (Nat × Int) :=
  g.idsAsc.filterMap fun b => (g.weight b a).map fun w => (b, w)

/-- `edge_references()`: the edges sorted by their normalised key — row-major; an undirected edge
once, as `(max, min)` -/
def edgeRefsAsc (g : G) : List (Nat × Nat × Int) :=
  (g.edges.mergeSort leKW).map fun e => (e.1.1, e.1.2, e.2)

end G

/-! ### `extend_with_edges` / `from_edges` -/

/-- `while nx >= node_count { add_node(default) }` on a graph whose live ids are `0..n`: adds the ids
`n, n+1, …`; `none` = `add_node` panicked at the index limit (the nodes added before stay) -/
def addUpTo (ixMax : Nat) (nx : Nat) : Nat → G → G × Bool
  | 0, g => (g, true)
  | f + 1, g =>
    if nx ≥ g.nodeCount then
      if g.nodeCount = ixMax then (g, false) else addUpTo ixMax nx f (g.addNode g.nodeCount 0)
    else (g, true)

/-- spec of `extend_with_edges` on a graph without vacancies: graph afterwards and answer (`unit`, or
`panic` — at the node limit, on a rejected zero, or on an edge that exists already, whose weight
`add_edge` has overwritten before its assertion fails: `specStep` of `.addEdge`) -/
def specExtend (nz : Bool) (ixMax : Nat) : G → List (Nat × Nat × Int) → G × Out
  | g, [] => (g, .unit)
  | g, (a, b, w) :: rest =>
    match addUpTo ixMax (max a b) (max a b + 1 - g.nodeCount) g with
    | (g1, false) => (g1, .panic)
    | (g1, true) =>
      match MatrixProofs.specStep nz ixMax g1 (.addEdge a b w) 0 with
      | (g2, .unit) => specExtend nz ixMax g2 rest
      | r => r

/-- the element at which `extend_with_edges` panics because the edge exists already, with the old and the
new weight (same recursion as `specExtend`; only used by the driver, which does not demand that the weight
was overwritten before the assertion failed) -/
def extendPanicEdge (nz : Bool) (ixMax : Nat) : G → List (Nat × Nat × Int) → Option ((Nat × Nat) × Int × Int)
  | _, [] => none
  | g, (a, b, w) :: rest =>
    match addUpTo ixMax (max a b) (max a b + 1 - g.nodeCount) g with
    | (_, false) => none
    | (g1, true) =>
      if MatrixProofs.zeroRejected nz w then none
      else match g1.weight a b with
        | some old => some (key g1.directed a b, old, w)
        | none => extendPanicEdge nz ixMax (g1.setEdge a b w) rest

/-- the live ids are `0..nodeCount` -/
def contigB (g : G) : Bool := g.idsAsc == List.range g.nodeCount

end PetgraphModel.MatrixSpec

/-! ### run-time checks of the hypotheses of the C04 theorems (evaluated by `Driver/C04.lean`;
`Theorems/C04.lean`, section "run-time checks of the hypotheses", proves each of them sound) -/
namespace PetgraphModel.MatrixProofs
open PetgraphModel.Matrix PetgraphModel.MatrixSpec

/-- every call of a history is inside the quantifier (`ValidHist`) -/
def validHistB (s : State) (g : G) : List Op → Bool
  | [] => true
  | op :: ops => validB s.nz g op &&
      validHistB (step s op).1 (specStep s.nz s.ixMax g op (idOf (step s op).2)).1 ops

/-- `node_bound() = node_count()`: no vacancy (hypothesis of the `extend_with_edges` theorem) -/
def noVacancyB (s : State) : Bool := s.nodes.removed.isEmpty

/-- the pair is not an edge (hypothesis of `C04_probe_undone`) -/
def notEdgeB (g : G) (a b : Nat) : Bool := (g.weight a b).isNone

/-- a `NotZero` graph and an existing edge (hypotheses of `C04_zero_through_mut`) -/
def zeroMutB (nz : Bool) (g : G) (a b : Nat) : Bool := nz && (g.weight a b).isSome

/-- `debug_assert!(node_capacity <= Ix::max)` of `with_capacity` (not modelled: generator range) -/
def capacityFitsB (ixMax k : Nat) : Bool := decide (k ≤ ixMax)

end PetgraphModel.MatrixProofs
