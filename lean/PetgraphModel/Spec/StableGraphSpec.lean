/-
The abstract specification `StableGraph` is measured against (property C02): a reference multigraph
given by two *partial maps*  index ↦ node weight  and  index ↦ (source, target, weight).

* each live element keeps the index it received until it is itself removed; removed indices are absent;
* insertion may hand out ANY index that is not live (`addNodeAt`/`addEdgeAt` take the index as an
  argument — the spec does not fix LIFO reuse of vacancies; it only demands freshness);
* counts are the numbers of live elements, bounds are "last live index + 1", every query is a filter over
  the two maps.  Where `petgraph` leaves an order unspecified the per-run judge compares multisets.

Core Lean only: the executable layer is linked into the driver; `Theorems/C02.lean` relates the mirror
model to it (`abs`).
-/
namespace PetgraphModel.SGSpec

structure SEdge where
  a : Nat
  b : Nat
  w : Int
  deriving Repr, DecidableEq

structure Spec where
  directed : Bool
  nodes : List (Option Int)
  edges : List (Option SEdge)
  deriving Repr, DecidableEq

def empty (directed : Bool) : Spec := { directed, nodes := [], edges := [] }

/-- partial-map update on a list representation (pads with `none`) -/
def setAt {α : Type} (l : List (Option α)) (i : Nat) (v : Option α) : List (Option α) :=
  if i < l.length then l.set i v else l ++ List.replicate (i - l.length) none ++ [v]

def Spec.node (sp : Spec) (i : Nat) : Option Int := (sp.nodes[i]?).join
def Spec.edge (sp : Spec) (e : Nat) : Option SEdge := (sp.edges[e]?).join
def Spec.nodeLive (sp : Spec) (i : Nat) : Bool := (sp.node i).isSome
def Spec.edgeLive (sp : Spec) (e : Nat) : Bool := (sp.edge e).isSome

/-- ids of the `some` entries, ascending -/
def liveIds {α : Type} : List (Option α) → Nat → List Nat
  | [], _ => []
  | x :: xs, i => if x.isSome then i :: liveIds xs (i + 1) else liveIds xs (i + 1)

def Spec.nodeIds (sp : Spec) : List Nat := liveIds sp.nodes 0
def Spec.edgeIds (sp : Spec) : List Nat := liveIds sp.edges 0
def Spec.nodeCount (sp : Spec) : Nat := sp.nodeIds.length
def Spec.edgeCount (sp : Spec) : Nat := sp.edgeIds.length

def lastPlus1 : List Nat → Nat
  | [] => 0
  | [x] => x + 1
  | _ :: xs => lastPlus1 xs

/-- "last live index + 1" -/
def Spec.nodeBound (sp : Spec) : Nat := lastPlus1 sp.nodeIds
def Spec.edgeBound (sp : Spec) : Nat := lastPlus1 sp.edgeIds

/-- live edges as `(id, edge)`, ascending id -/
def edgeList : List (Option SEdge) → Nat → List (Nat × SEdge)
  | [], _ => []
  | x :: xs, i => match x with
    | some e => (i, e) :: edgeList xs (i + 1)
    | none => edgeList xs (i + 1)

def Spec.edgeRefs (sp : Spec) : List (Nat × SEdge) := edgeList sp.edges 0

def nodeList : List (Option Int) → Nat → List (Nat × Int)
  | [], _ => []
  | x :: xs, i => match x with
    | some w => (i, w) :: nodeList xs (i + 1)
    | none => nodeList xs (i + 1)

def Spec.nodeRefs (sp : Spec) : List (Nat × Int) := nodeList sp.nodes 0

/-! ### transitions (deterministic once the handed-out index is known) -/

/-- is `i` an admissible answer of `add_node`? (`fin` = number of valid indices) -/
def Spec.freshNode (sp : Spec) (fin i : Nat) : Bool := i < fin && !sp.nodeLive i
def Spec.freshEdge (sp : Spec) (fin e : Nat) : Bool := e < fin && !sp.edgeLive e

def Spec.addNodeAt (sp : Spec) (i : Nat) (w : Int) : Spec := { sp with nodes := setAt sp.nodes i (some w) }

def Spec.addEdgeAt (sp : Spec) (e a b : Nat) (w : Int) : Spec :=
  { sp with edges := setAt sp.edges e (some ⟨a, b, w⟩) }

def Spec.removeEdge (sp : Spec) (e : Nat) : Spec :=
  if sp.edgeLive e then { sp with edges := sp.edges.set e none } else sp

/-- removing a node removes every edge with an endpoint in it -/
def Spec.removeNode (sp : Spec) (a : Nat) : Spec :=
  if sp.nodeLive a then
    { sp with nodes := sp.nodes.set a none,
              edges := sp.edges.map (fun oe => match oe with
                | some e => if e.a = a || e.b = a then none else some e
                | none => none) }
  else sp

def Spec.setNodeWeight (sp : Spec) (a : Nat) (w : Int) : Spec :=
  if sp.nodeLive a then { sp with nodes := sp.nodes.set a (some w) } else sp

def Spec.setEdgeWeight (sp : Spec) (e : Nat) (w : Int) : Spec :=
  match sp.edge e with
  | some ed => { sp with edges := sp.edges.set e (some { ed with w := w }) }
  | none => sp

def Spec.reverse (sp : Spec) : Spec :=
  { sp with edges := sp.edges.map (fun oe => oe.map (fun e => ⟨e.b, e.a, e.w⟩)) }

def Spec.clear (sp : Spec) : Spec := { sp with nodes := [], edges := [] }
def Spec.clearEdges (sp : Spec) : Spec := { sp with edges := [] }

/-- `retain_nodes` with the closure `|_, ix| !rm.contains(ix)`: every index below the bound that is in `rm` is
removed (removing an index that is not live is a no-op) -/
def Spec.retainNodes (sp : Spec) (rm : List Nat) : Spec :=
  ((List.range sp.nodeBound).filter (fun i => rm.contains i)).foldl (fun s a => s.removeNode a) sp
def Spec.retainEdges (sp : Spec) (rm : List Nat) : Spec :=
  ((List.range sp.edgeBound).filter (fun i => rm.contains i)).foldl (fun s e => s.removeEdge e) sp

def Spec.mapWeights (sp : Spec) (cn ce : Int) : Spec :=
  { sp with nodes := sp.nodes.map (fun o => o.map (· + cn)),
            edges := sp.edges.map (fun o => o.map (fun e => { e with w := e.w + ce })) }

/-- `filter_map` with closures `|i, w| if dropN.contains(i) { None } else { Some(w + cn) }` (edges alike): dropped nodes
take their incident edges with them; every survivor keeps its index -/
def Spec.filterMap (sp : Spec) (dropN dropE : List Nat) (cn ce : Int) : Spec :=
  { sp with
    nodes := sp.nodes.mapIdx (fun i o => if dropN.contains i then none else o.map (· + cn)),
    edges := sp.edges.mapIdx (fun e o => o.bind fun x =>
      if dropN.contains x.a || dropN.contains x.b || dropE.contains e then none else some { x with w := x.w + ce }) }

/-- the edges `edge_map` of `filter_map` is documented to be called for: the live edges both of whose endpoints survived -/
def Spec.filterMapEdgeCalls (sp : Spec) (dropN : List Nat) : List Nat :=
  (sp.edgeRefs.filter fun p => !dropN.contains p.2.a && !dropN.contains p.2.b).map (·.1)

/-- number of live nodes below index `i` -/
def Spec.rank (sp : Spec) (i : Nat) : Nat := (sp.nodes.take i).countP Option.isSome

/-- `StableGraph::from(Graph::from(g))`: nodes and edges are compacted in index order (a node's new index is its rank
among the live nodes), weights are kept, endpoints renamed accordingly -/
def Spec.compact (sp : Spec) : Spec :=
  { directed := sp.directed,
    nodes := sp.nodeRefs.map (fun p => some p.2),
    edges := sp.edgeRefs.map (fun p => some ⟨sp.rank p.2.a, sp.rank p.2.b, p.2.w⟩) }

/-! ### queries (as multisets; the lists below are in ascending edge id) -/

/-- does edge `e` lead from `a` to `b` (directed), resp. connect `a` and `b` (undirected)? -/
def Spec.connects (sp : Spec) (e : SEdge) (a b : Nat) : Bool :=
  (e.a == a && e.b == b) || (!sp.directed && e.a == b && e.b == a)

/-- `(edge id, other endpoint)` for the incident edges of `i` seen in direction `k`
(`0` out, `1` in, `2` both; a self-loop is listed once) -/
def Spec.incident (sp : Spec) (i k : Nat) : List (Nat × Nat) :=
  let k := if sp.directed then k else 2
  sp.edgeRefs.filterMap fun (id, e) =>
    if (k = 0 || k = 2) && e.a = i then some (id, e.b)
    else if (k = 1 || k = 2) && e.b = i then some (id, e.a)
    else none

/-- `externals(dir)`, `k = dir.index()` -/
def Spec.externals (sp : Spec) (k : Nat) : List Nat :=
  sp.nodeIds.filter fun i => (sp.incident i k).isEmpty

/-- two specs describe the same partial maps (trailing `none`s are immaterial) -/
def Spec.equiv (x y : Spec) : Prop :=
  x.directed = y.directed ∧ (∀ i, x.node i = y.node i) ∧ (∀ e, x.edge e = y.edge e)

end PetgraphModel.SGSpec
