import PetgraphModel.Spec.Graph
import PetgraphModel.Oracle.Reach
import PetgraphModel.GraphProto
/-
What property C14 *means* (abstract, independent of `acyclic.rs`) and the executable judges the
driver applies to every answer of the implementation.  Core Lean only.

* `Acyclic g` — no closed walk with at least one edge.
* `TopoOrder g order` — `order` lists exactly the nodes of `g`, each once, and every edge goes from
  an earlier to a later place.
* the dynamic part: an insertion `a → b` into an acyclic graph must be rejected exactly when
  `a = b` or `b` already reaches `a` (`mustReject`), and the graph after an accepted insertion is
  the old graph plus that edge (`addEdge`).

The judges return `none` for "accepted" and `some why` for a violation; their soundness
(`judge … = none → the clause`) is proved in `Proofs/Acyclic.lean` and stated in `Theorems/C14.lean`.
They are built on the proved reachability oracle `Oracle.reachB`.
-/
namespace PetgraphModel.Dag
open PetgraphModel PetgraphModel.MGraph PetgraphModel.Oracle

def Acyclic (g : MGraph) : Prop := ∀ x, ¬ Reach1 g x x

def TopoOrder (g : MGraph) (order : List Nat) : Prop :=
  order.Nodup ∧ (∀ x, x ∈ order ↔ x ∈ g.nodes) ∧
  ∀ e ∈ g.edges, e.src ∈ order ∧ e.tgt ∈ order ∧ order.idxOf e.src < order.idxOf e.tgt

/-- the graph after inserting the edge `a → b` -/
def addEdge (g : MGraph) (id a b : Nat) (w : Int) : MGraph :=
  { g with edges := g.edges ++ [⟨id, a, b, w⟩] }

/-- the specification's verdict on an insertion `a → b` into an acyclic graph -/
def MustReject (g : MGraph) (a b : Nat) : Prop := a = b ∨ Reach g b a

/-! ### executable judges -/

def nodupB : List Nat → Bool
  | [] => true
  | x :: xs => !xs.contains x && nodupB xs

/-- does every edge go forward in `order`, and does `order` list exactly the nodes once? -/
def judgeOrder (g : MGraph) (order : List Nat) : Option String :=
  if !(nodupB order) then some s!"a node is listed twice in the order {showNats order}"
  else if !(order.all fun x => g.nodes.contains x) then some s!"the order {showNats order} lists a node that is not live (live: {showNats g.nodes})"
  else if !(g.nodes.all fun x => order.contains x) then some s!"the order {showNats order} misses a live node (live: {showNats g.nodes})"
  else match g.edges.find? fun e => !(order.contains e.src && order.contains e.tgt && order.idxOf e.src < order.idxOf e.tgt) with
    | some e => some s!"edge {e.src}->{e.tgt} does not go from an earlier to a later position in {showNats order}"
    | none => none

/-- an edge that lies on a cycle, by the reachability oracle (`some none` = acyclic, `none` = oracle
out of fuel) -/
def cycleEdge (g : MGraph) : Option (Option Edge) :=
  g.edges.foldl (fun acc e =>
    match acc with
    | some none =>
      match reachB g e.tgt e.src with
      | some true => some (some e)
      | some false => some none
      | none => none
    | r => r) (some none)

/-- the specification's verdict on inserting `a → b` (`none` = oracle out of fuel) -/
def mustRejectB (g : MGraph) (a b : Nat) : Option Bool :=
  if a = b then some true else reachB g b a

/-- `is_valid_edge` answers against the specification: `valid` = list of `(a, b, answer)` -/
def judgeValid (g : MGraph) (valid : List (Nat × Nat × Bool)) : Option String :=
  match valid.find? fun (a, b, r) => mustRejectB g a b == some r with
  | some (a, b, r) => some s!"is_valid_edge({a},{b}) = {r} but the insertion {if r then "closes a cycle or is a self-loop" else "is neither a self-loop nor closes a cycle"}"
  | none => none

/-- positions against the order: `pos` has exactly one entry per listed node and sorting the nodes
by position gives `order` -/
def judgePos (order : List Nat) (pos : List (Nat × Nat)) : Option String :=
  let ks := pos.map (·.1)
  if !(nodupB ks) then some "get_position reported twice for a node"
  else if !(sameSet ks order) then some s!"positions are reported for {showNats ks}, the order lists {showNats order}"
  else
    let ps := order.map fun n => (pos.lookup n).getD 0
    if (ps.zip (ps.drop 1)).all fun (a, b) => a < b then none
    else some s!"positions {showNats ps} along the order {showNats order} are not strictly increasing"

/-- the node at position `p` according to the reported positions -/
def nodeAt (pos : List (Nat × Nat)) (p : Nat) : Option Nat := (pos.find? fun e => e.2 == p).map (·.1)

def judgeAt (pos : List (Nat × Nat)) (lo : Nat) (ans : List (Option Nat)) : Option String :=
  let bad := (List.range ans.length).find? fun i => ans[i]? != some (nodeAt pos (lo + i))
  bad.map fun i => s!"at_position({lo + i}) disagrees with get_position"

/-- `range(lo, hi)` = the order restricted to positions within the bounds -/
def rangeSpec (order : List Nat) (pos : List (Nat × Nat)) (inLo inHi : Nat → Bool) : List Nat :=
  order.filter fun n => match pos.lookup n with
    | some p => inLo p && inHi p
    | none => false

/-! ### the labelled graph: what must happen to the inner graph

Nodes are identified by their labels (node weights, unique), edges by `(source label, target label,
weight)`; `LG` is compared as a set of nodes and a multiset of edges. -/
structure LG where
  nodes : List Nat
  edges : List (Nat × Nat × Int)
  deriving Repr, Inhabited

def sortTriples (l : List (Nat × Nat × Int)) : List (Nat × Nat × Int) :=
  l.foldl (fun acc x =>
    let le := fun (y : Nat × Nat × Int) => y.1 < x.1 || (y.1 == x.1 && (y.2.1 < x.2.1 || (y.2.1 == x.2.1 && y.2.2 ≤ x.2.2)))
    let (a, b) := acc.span le; a ++ x :: b) []

def LG.same (a b : LG) : Bool := sameSet a.nodes b.nodes && sortTriples a.edges == sortTriples b.edges

def LG.addNode (g : LG) (l : Nat) : LG := { g with nodes := g.nodes ++ [l] }
def LG.addEdge (g : LG) (a b : Nat) (w : Int) : LG := { g with edges := g.edges ++ [(a, b, w)] }
def LG.removeEdge (g : LG) (e : Nat × Nat × Int) : LG := { g with edges := g.edges.erase e }
def LG.removeNode (g : LG) (l : Nat) : LG :=
  { nodes := g.nodes.filter (· != l), edges := g.edges.filter fun e => e.1 != l && e.2.1 != l }

/-- `update_edge(a, b, w)`: some existing `a → b` edge gets weight `w`, or a new edge is added -/
def LG.updateOk (old new : LG) (a b : Nat) (w : Int) : Bool :=
  if old.edges.any fun e => e.1 == a && e.2.1 == b then
    sameSet old.nodes new.nodes &&
    old.edges.any fun e => e.1 == a && e.2.1 == b && LG.same { old with edges := (old.edges.erase e) ++ [(a, b, w)] } new
  else LG.same (old.addEdge a b w) new

end PetgraphModel.Dag
