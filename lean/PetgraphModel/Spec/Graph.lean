/-
The abstract graph every algorithm property is stated against, and the *view* (iteration orders of
one concrete encoding) the mirrored algorithm models run on.  Core Lean only.

All identifiers are *abstract* node ids (`Nat`); the harness maps concrete indices back before
printing.  `MGraph` is "a plain mathematical multigraph": a direction flag, the live node ids and
an edge list (parallel edges and self-loops allowed).
-/
namespace PetgraphModel

structure Edge where
  id : Nat
  src : Nat
  tgt : Nat
  w : Int
  deriving Repr, DecidableEq, Inhabited

structure MGraph where
  directed : Bool
  nodes : List Nat
  edges : List Edge
  deriving Repr, Inhabited

namespace MGraph

/-- one step of the successor relation: along an edge, either way when undirected -/
def Adj (g : MGraph) (a b : Nat) : Prop :=
  ∃ e ∈ g.edges, (e.src = a ∧ e.tgt = b) ∨ (g.directed = false ∧ e.src = b ∧ e.tgt = a)

/-- successors of `a`, one entry per edge (multiplicity kept), executable -/
def succ (g : MGraph) (a : Nat) : List Nat :=
  g.edges.filterMap fun e =>
    if e.src = a then some e.tgt
    else if g.directed = false ∧ e.tgt = a then some e.src
    else none

/-- predecessors of `a` -/
def pred (g : MGraph) (a : Nat) : List Nat :=
  g.edges.filterMap fun e =>
    if e.tgt = a then some e.src
    else if g.directed = false ∧ e.src = a then some e.tgt
    else none

/-- reachability: reflexive-transitive closure of `Adj` -/
inductive Reach (g : MGraph) : Nat → Nat → Prop
  | refl (a : Nat) : Reach g a a
  | step {a b c : Nat} : Reach g a b → Adj g b c → Reach g a c

/-- reachability by a walk with at least one edge -/
inductive Reach1 (g : MGraph) : Nat → Nat → Prop
  | single {a b : Nat} : Adj g a b → Reach1 g a b
  | step {a b c : Nat} : Reach1 g a b → Adj g b c → Reach1 g a c

/-- the graph with edge directions ignored -/
def undirect (g : MGraph) : MGraph := { g with directed := false }

/-- the graph with every edge reversed -/
def reverse (g : MGraph) : MGraph :=
  { g with edges := g.edges.map fun e => { e with src := e.tgt, tgt := e.src } }

/-- the graph without node `x` and its incident edges -/
def removeNode (g : MGraph) (x : Nat) : MGraph :=
  { g with nodes := g.nodes.filter (· ≠ x), edges := g.edges.filter fun e => e.src ≠ x ∧ e.tgt ≠ x }

def WellFormed (g : MGraph) : Prop :=
  g.nodes.Nodup ∧ ∀ e ∈ g.edges, e.src ∈ g.nodes ∧ e.tgt ∈ g.nodes

instance (g : MGraph) (a b : Nat) : Decidable (g.Adj a b) := by
  unfold Adj; exact List.decidableBEx _ _

end MGraph

/-- A *view*: the abstract graph plus the iteration orders of one concrete encoding —
`order` = `node_identifiers()`, `out a` / `inn a` = `edges_directed(a, Outgoing / Incoming)` as
`(other endpoint, edge id)` in iteration order.  `nb` = `node_bound()`, `ix` = `to_index`. -/
structure View where
  g : MGraph
  nb : Nat
  ix : List (Nat × Nat)          -- abstract id ↦ concrete `to_index`
  out : List (Nat × List (Nat × Nat))
  inn : List (Nat × List (Nat × Nat))
  deriving Repr, Inhabited

namespace View
def outOf (v : View) (a : Nat) : List (Nat × Nat) := (v.out.lookup a).getD []
def innOf (v : View) (a : Nat) : List (Nat × Nat) := (v.inn.lookup a).getD []
def succ (v : View) (a : Nat) : List Nat := (v.outOf a).map (·.1)
def pred (v : View) (a : Nat) : List Nat := (v.innOf a).map (·.1)
def toIndex (v : View) (a : Nat) : Nat := (v.ix.lookup a).getD a
def edge? (v : View) (eid : Nat) : Option Edge := v.g.edges.find? (·.id = eid)
def weight (v : View) (eid : Nat) : Int := ((v.edge? eid).map (·.w)).getD 0
end View

end PetgraphModel
