import PetgraphModel.Spec.Graph
/-
C15 — what "matching", "maximum matching", "flow", "cut" mean on the abstract multigraph.
Core Lean only (linked into the driver together with the checkers of `Oracle/C15*.lean`).
-/
namespace PetgraphModel.C15
open PetgraphModel

/-! ### matchings (direction of the edges is ignored) -/

/-- `a` and `b` are joined by an edge `e` of the list, either way round -/
def JoinedIn (es : List Edge) (a b : Nat) : Prop :=
  a ≠ b ∧ ∃ e ∈ es, (e.src = a ∧ e.tgt = b) ∨ (e.src = b ∧ e.tgt = a)

/-- joined by a non-loop edge of the graph, direction ignored -/
def Joined (g : MGraph) (a b : Nat) : Prop := JoinedIn g.edges a b

/-- two pairs share no node -/
def Disjoint2 (p q : Nat × Nat) : Prop := p.1 ≠ q.1 ∧ p.1 ≠ q.2 ∧ p.2 ≠ q.1 ∧ p.2 ≠ q.2

/-- a matching, as a list of node pairs: every pair is joined by a non-loop edge and two different
pairs share no node (so no node is matched twice) -/
def IsMatching (g : MGraph) (M : List (Nat × Nat)) : Prop :=
  (∀ p ∈ M, Joined g p.1 p.2) ∧ M.Pairwise Disjoint2

/-- a matching with the largest possible number of edges -/
def IsMaximumMatching (g : MGraph) (M : List (Nat × Nat)) : Prop :=
  IsMatching g M ∧ ∀ M', IsMatching g M' → M'.length ≤ M.length

/-- a `mate` table (`a ↦ b`, as the list of its entries): a function, symmetric, every entry joined
by a non-loop edge -/
structure MateValid (g : MGraph) (mate : List (Nat × Nat)) : Prop where
  functional : (mate.map (·.1)).Nodup
  symmetric : ∀ a b, (a, b) ∈ mate → (b, a) ∈ mate
  joined : ∀ a b, (a, b) ∈ mate → Joined g a b

/-- the matched pairs of a `mate` table, each once -/
def pairsOf (mate : List (Nat × Nat)) : List (Nat × Nat) := mate.filter fun p => p.1 < p.2

/-! ### flows (directed; `f` maps an edge id to the flow on that edge; capacities are the edge weights) -/

/-- sum of `φ e` over an edge list -/
def esum (φ : Edge → Int) : List Edge → Int
  | [] => 0
  | e :: es => φ e + esum φ es

/-- sum of `ψ x` over a node list -/
def nsum (ψ : Nat → Int) : List Nat → Int
  | [] => 0
  | x :: xs => ψ x + nsum ψ xs

def outflow (g : MGraph) (f : Nat → Int) (x : Nat) : Int :=
  esum (fun e => if e.src = x then f e.id else 0) g.edges

def inflow (g : MGraph) (f : Nat → Int) (x : Nat) : Int :=
  esum (fun e => if e.tgt = x then f e.id else 0) g.edges

/-- net flow out of `x` -/
def excess (g : MGraph) (f : Nat → Int) (x : Nat) : Int := outflow g f x - inflow g f x

/-- a feasible `s`-`t` flow: every capacity respected, conservation everywhere except at `s`, `t` -/
structure Feasible (g : MGraph) (s t : Nat) (f : Nat → Int) : Prop where
  cap : ∀ e ∈ g.edges, 0 ≤ f e.id ∧ f e.id ≤ e.w
  cons : ∀ x, x ≠ s → x ≠ t → inflow g f x = outflow g f x

/-- capacity of the cut `(S, V ∖ S)` -/
def cutCap (g : MGraph) (S : List Nat) : Int :=
  esum (fun e => if e.src ∈ S ∧ e.tgt ∉ S then e.w else 0) g.edges

/-- `S` is (the source side of) an `s`-`t` cut -/
def IsCut (s t : Nat) (S : List Nat) : Prop := s ∈ S ∧ t ∉ S

end PetgraphModel.C15
