import PetgraphModel.Spec.Graph
/-
C13 — what "(sub)graph isomorphism" means.  Core Lean only.

A *problem* is a pair of abstract graphs `g0` (the pattern) and `g1` (the target) with node weights,
plus the two semantic predicates of the `_matching` variants (`nm` on node weights, `em` on edge
weights; the plain functions are the instance `nm = em = fun _ _ => true`).

`Embeds P f`   : `f` maps the nodes of `g0` injectively into the nodes of `g1`, preserves adjacency AND
                 non-adjacency (so the image is a NODE-INDUCED subgraph of `g1`), and the predicates hold
                 on every matched node pair and every matched edge pair.
`SubIso P`     : some `f` embeds            (`is_isomorphic_subgraph[_matching]`, `subgraph_isomorphisms_iter`)
`Iso P`        : some embedding is onto the nodes of `g1`   (`is_isomorphic[_matching]`)

The property restricts to *simple* graphs (`Simple`: no two edges join the same ordered — unordered
when undirected — pair; self-loops allowed).
-/
namespace PetgraphModel.C13
open PetgraphModel

/-- edge `e` of `g` leads from `a` to `b` (either way round when `g` is undirected) -/
def Connects (g : MGraph) (e : Edge) (a b : Nat) : Prop :=
  (e.src = a ∧ e.tgt = b) ∨ (g.directed = false ∧ e.src = b ∧ e.tgt = a)

instance (g : MGraph) (e : Edge) (a b : Nat) : Decidable (Connects g e a b) := by
  unfold Connects; exact inferInstance

/-- no parallel edges: no later edge joins the endpoints of an earlier one -/
def Simple (g : MGraph) : Prop :=
  g.edges.Pairwise fun e e' => ¬ Connects g e' e.src e.tgt

structure Problem where
  g0 : MGraph
  g1 : MGraph
  nw0 : Nat → Int := fun _ => 0
  nw1 : Nat → Int := fun _ => 0
  nm : Int → Int → Bool := fun _ _ => true
  em : Int → Int → Bool := fun _ _ => true

/-- the side conditions of the property: well-formed simple graphs of the same edge type -/
structure Problem.Ok (P : Problem) : Prop where
  wf0 : P.g0.WellFormed
  wf1 : P.g1.WellFormed
  simple0 : Simple P.g0
  simple1 : Simple P.g1
  sameType : P.g0.directed = P.g1.directed

/-- `f` is an isomorphism of `g0` onto the subgraph of `g1` induced by its image, respecting the predicates -/
structure Embeds (P : Problem) (f : Nat → Nat) : Prop where
  mapsTo : ∀ a ∈ P.g0.nodes, f a ∈ P.g1.nodes
  inj : ∀ a ∈ P.g0.nodes, ∀ b ∈ P.g0.nodes, f a = f b → a = b
  adj : ∀ a ∈ P.g0.nodes, ∀ b ∈ P.g0.nodes, (P.g0.Adj a b ↔ P.g1.Adj (f a) (f b))
  nodeOk : ∀ a ∈ P.g0.nodes, P.nm (P.nw0 a) (P.nw1 (f a)) = true
  edgeOk : ∀ e0 ∈ P.g0.edges, ∀ e1 ∈ P.g1.edges, Connects P.g1 e1 (f e0.src) (f e0.tgt) → P.em e0.w e1.w = true

/-- `g0` is isomorphic to a node-induced subgraph of `g1` -/
def SubIso (P : Problem) : Prop := ∃ f, Embeds P f

/-- `g0` and `g1` are isomorphic: an embedding that is onto -/
def Iso (P : Problem) : Prop := ∃ f, Embeds P f ∧ ∀ b ∈ P.g1.nodes, ∃ a ∈ P.g0.nodes, f a = b

/-- relabeling of a graph: node `a` becomes `σ a` -/
def relabel (σ : Nat → Nat) (g : MGraph) : MGraph :=
  { g with nodes := g.nodes.map σ, edges := g.edges.map fun e => { e with src := σ e.src, tgt := σ e.tgt } }

/-- the problem with `g0` relabeled by `σ0` and `g1` by `σ1`; `τ0`/`τ1` (their inverses) carry the node
weights along -/
def Problem.relabel (P : Problem) (σ0 τ0 σ1 τ1 : Nat → Nat) : Problem :=
  { P with g0 := C13.relabel σ0 P.g0, g1 := C13.relabel σ1 P.g1,
           nw0 := fun a => P.nw0 (τ0 a), nw1 := fun a => P.nw1 (τ1 a) }

end PetgraphModel.C13
