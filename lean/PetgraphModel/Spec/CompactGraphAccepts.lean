import PetgraphModel.Model.Graph
import PetgraphModel.Spec.CompactGraph
/-
C01 — the TRUSTED meaning of "behaves as a plain compact-indexed multigraph": the acceptance
relations between a call of the model alphabet `G.Op`, an answer `G.Out` and the plain multigraph
`CGS.Spec` before / after the call.  Definitions only (core Lean, no proofs); the refinement proofs
are in `Proofs/GraphRefine.lean` and `Proofs/C01W2*.lean`, the property theorems in
`Theorems/C01.lean`.

* `SpecAccepts`  — the relation for the calls that never renumber (stage 1); `False` elsewhere.
* `SpecAccepts2` — `SpecAccepts` extended by `remove_node` / `remove_edge` (the reference
  renumbering: `swap_remove`; `remove_node` drops out-edges then in-edges, most recent first),
  `retain_*` (descending index), `filter_map`, the conversion through `StableGraph`, the atomic
  detached walk, `first_edge` / `next_edge`.
* `SpecRun` / `SpecRun2` — runs of these relations over a history.

Deterministic except where the property leaves a choice (`find_edge` / `update_edge` among parallel
edges; adjacency order of undirected graphs, `ListAcc false` = permutation).

(The namespace is `GProofs` for historical reasons: the definitions were moved here unchanged from
`Proofs/GraphRefine.lean` and `Proofs/C01W2Base.lean` so that the whole trusted specification of C01
lives under `Spec/`.)
-/
namespace PetgraphModel.GProofs
open PetgraphModel PetgraphModel.G

def toERef (r : CGS.Ref) : ERef := ⟨r.ix, r.src, r.tgt, r.weight⟩

/-- `from_elements` on the specification -/
def specFromElements (sp : CGS.Spec) : List Elem → Option CGS.Spec
  | [] => some sp
  | .node w :: rest =>
    match CGS.addNode sp w with
    | some sp' => specFromElements sp' rest
    | none => none
  | .edge a b w :: rest =>
    match CGS.addEdge sp a b w with
    | .ok sp' => specFromElements sp' rest
    | .error _ => none

def spSetNode (sp : CGS.Spec) (a w : Nat) : CGS.Spec := { sp with nodes := sp.nodes.set a w }
def spSetEdge (sp : CGS.Spec) (e w : Nat) : CGS.Spec :=
  { sp with edges := sp.edges.set e { CGS.edgeAt sp e with weight := w } }
def spPut (sp : CGS.Spec) (k : Bool) (x w : Nat) : CGS.Spec := if k then spSetEdge sp x w else spSetNode sp x w
def spInBounds (sp : CGS.Spec) (k : Bool) (x : Nat) : Bool :=
  if k then x < sp.edges.length else x < sp.nodes.length

/-- order-sensitive or multiset comparison, as the property prescribes -/
def ListAcc {α : Type} (ordered : Bool) (l want : List α) : Prop := if ordered then l = want else l.Perm want

def spAllRefs (sp : CGS.Spec) : List ERef :=
  (List.range sp.edges.length).zipWith (fun i (ed : CGS.SEdge) => (⟨i, ed.src, ed.tgt, ed.weight⟩ : ERef)) sp.edges

/-- answer and effect of `add_edge` (`isTry = false`) / `try_add_edge` on the specification -/
def AddEdgeAcc (sp : CGS.Spec) (isTry : Bool) (a b w : Nat) (o : Out) (sp' : CGS.Spec) : Prop :=
  match CGS.addEdge sp a b w with
  | .ok g => o = (if isTry then .res (.ok sp.edges.length) else .nat sp.edges.length) ∧ sp' = g
  | .error e =>
    sp' = sp ∧
    (if isTry then
      match e with
      | .limit => o = .res (.error .edgeIxLimit)
      | .absent => o = .res (.error .nodeOutBounds)
      | .both => ∃ x, o = .res (.error x)
    else o = .panic)

/-- `update_edge`: some edge joining `a` to `b` gets the weight (which one among parallel edges is
not specified); otherwise as `add_edge` -/
def UpdateEdgeAcc (sp : CGS.Spec) (isTry : Bool) (a b w : Nat) (o : Out) (sp' : CGS.Spec) : Prop :=
  if CGS.hasEdge sp a b then
    ∃ e, o = (if isTry then .res (.ok e) else .nat e) ∧ e < sp.edges.length ∧
      CGS.connects sp a b (CGS.edgeAt sp e) = true ∧ sp' = spSetEdge sp e w
  else AddEdgeAcc sp isTry a b w o sp'

/-- The specification as a transition relation: `SpecAccepts sp op o sp'` — on the plain multigraph
`sp` the call `op` may answer `o` and lead to `sp'`.  Deterministic except where the property leaves
a choice (`find_edge`/`update_edge` among parallel edges, adjacency order of undirected graphs).
`False` for the calls outside stage 1's core (removals, `retain_*`, `filter_map`, conversion, walkers
and the two raw-chain accessors). -/
def SpecAccepts (sp : CGS.Spec) : Op → Out → CGS.Spec → Prop
  | .new d, o, sp' => o = .unit ∧ sp' = CGS.empty sp.cap d
  | .fromEdges l, o, sp' =>
    if (CGS.extendWithEdges (CGS.empty sp.cap sp.directed) l).2
    then o = .unit ∧ sp' = (CGS.extendWithEdges (CGS.empty sp.cap sp.directed) l).1
    else o = .panic ∧ sp' = sp
  | .fromElements l, o, sp' =>
    match specFromElements (CGS.empty sp.cap sp.directed) l with
    | some g => o = .unit ∧ sp' = g
    | none => o = .panic ∧ sp' = sp
  | .addNode w, o, sp' =>
    match CGS.addNode sp w with
    | some g => o = .nat sp.nodes.length ∧ sp' = g
    | none => o = .panic ∧ sp' = sp
  | .tryAddNode w, o, sp' =>
    match CGS.addNode sp w with
    | some g => o = .res (.ok sp.nodes.length) ∧ sp' = g
    | none => o = .res (.error .nodeIxLimit) ∧ sp' = sp
  | .addEdge a b w, o, sp' => AddEdgeAcc sp false a b w o sp'
  | .tryAddEdge a b w, o, sp' => AddEdgeAcc sp true a b w o sp'
  | .updateEdge a b w, o, sp' => UpdateEdgeAcc sp false a b w o sp'
  | .tryUpdateEdge a b w, o, sp' => UpdateEdgeAcc sp true a b w o sp'
  | .nodeWeightMut a w, o, sp' =>
    match sp.nodes[a]? with
    | some old => o = .optNat (some old) ∧ sp' = spSetNode sp a w
    | none => o = .optNat none ∧ sp' = sp
  | .edgeWeightMut e w, o, sp' =>
    match sp.edges[e]? with
    | some old => o = .optNat (some old.weight) ∧ sp' = spSetEdge sp e w
    | none => o = .optNat none ∧ sp' = sp
  | .indexMutNode a w, o, sp' =>
    if a < sp.nodes.length then o = .unit ∧ sp' = spSetNode sp a w else o = .panic ∧ sp' = sp
  | .indexMutEdge e w, o, sp' =>
    if e < sp.edges.length then o = .unit ∧ sp' = spSetEdge sp e w else o = .panic ∧ sp' = sp
  | .indexTwiceMut ki kj i j wi wj, o, sp' =>
    if (ki ≠ kj ∨ i ≠ j) ∧ spInBounds sp ki i = true ∧ spInBounds sp kj j = true
    then o = .unit ∧ sp' = spPut (spPut sp ki i wi) kj j wj
    else o = .panic ∧ sp' = sp
  | .bumpNodes d, o, sp' => o = .unit ∧ sp' = { sp with nodes := sp.nodes.map (· + d) }
  | .bumpEdges d, o, sp' =>
    o = .unit ∧ sp' = { sp with edges := sp.edges.map fun ed => { ed with weight := ed.weight + d } }
  | .reverse, o, sp' => o = .unit ∧ sp' = CGS.reverse sp
  | .clear, o, sp' => o = .unit ∧ sp' = CGS.clear sp
  | .clearEdges, o, sp' => o = .unit ∧ sp' = CGS.clearEdges sp
  | .extendWithEdges l, o, sp' =>
    sp' = (CGS.extendWithEdges sp l).1 ∧ o = (if (CGS.extendWithEdges sp l).2 then .unit else .panic)
  | .map dn de, o, sp' => o = .unit ∧ sp' = CGS.mapWeights sp dn de
  | .intoEdgeType d, o, sp' => o = .unit ∧ sp' = { sp with directed := d }
  | .clone, o, sp' => o = .unit ∧ sp' = sp
  | .capacityOp, o, sp' => o = .unit ∧ sp' = sp
  | .nodeCount, o, sp' => o = .nat sp.nodes.length ∧ sp' = sp
  | .edgeCount, o, sp' => o = .nat sp.edges.length ∧ sp' = sp
  | .isDirected, o, sp' => o = .bool sp.directed ∧ sp' = sp
  | .nodeWeight a, o, sp' => o = .optNat sp.nodes[a]? ∧ sp' = sp
  | .edgeWeight e, o, sp' => o = .optNat (sp.edges[e]?.map (·.weight)) ∧ sp' = sp
  | .indexNode a, o, sp' =>
    o = (match sp.nodes[a]? with | some w => .nat w | none => .panic) ∧ sp' = sp
  | .indexEdge e, o, sp' =>
    o = (match sp.edges[e]? with | some ed => .nat ed.weight | none => .panic) ∧ sp' = sp
  | .edgeEndpoints e, o, sp' => o = .optPair (sp.edges[e]?.map fun ed => (ed.src, ed.tgt)) ∧ sp' = sp
  | .findEdge a b, o, sp' =>
    sp' = sp ∧ ((o = .optNat none ∧ CGS.hasEdge sp a b = false) ∨
      ∃ e, o = .optNat (some e) ∧ e < sp.edges.length ∧ CGS.connects sp a b (CGS.edgeAt sp e) = true)
  | .containsEdge a b, o, sp' => o = .bool (CGS.hasEdge sp a b) ∧ sp' = sp
  | .findEdgeUndirected a b, o, sp' =>
    sp' = sp ∧ ((o = .optEdgeDir none ∧ ∀ ed ∈ sp.edges, ¬ ((ed.src = a ∧ ed.tgt = b) ∨ (ed.src = b ∧ ed.tgt = a))) ∨
      ∃ e k, o = .optEdgeDir (some (e, k)) ∧ e < sp.edges.length ∧
        (if k then (CGS.edgeAt sp e).src = b ∧ (CGS.edgeAt sp e).tgt = a
         else (CGS.edgeAt sp e).src = a ∧ (CGS.edgeAt sp e).tgt = b))
  | .neighbors a, o, sp' =>
    sp' = sp ∧ ∃ l, o = .nats l ∧ ListAcc (CGS.nbrOrdered sp 0) l ((CGS.nbr sp a 0).map (·.2))
  | .neighborsDirected a k, o, sp' =>
    sp' = sp ∧ ∃ l, o = .nats l ∧
      ListAcc (CGS.nbrOrdered sp (if k then 1 else 0)) l ((CGS.nbr sp a (if k then 1 else 0)).map (·.2))
  | .neighborsUndirected a, o, sp' =>
    sp' = sp ∧ ∃ l, o = .nats l ∧ ListAcc false l ((CGS.nbr sp a 2).map (·.2))
  | .edges a, o, sp' =>
    sp' = sp ∧ ∃ l, o = .erefs l ∧ ListAcc sp.directed l ((CGS.refs sp a false).map toERef)
  | .edgesDirected a k, o, sp' =>
    sp' = sp ∧ ∃ l, o = .erefs l ∧ ListAcc sp.directed l ((CGS.refs sp a k).map toERef)
  | .edgesConnecting a b, o, sp' =>
    sp' = sp ∧ ∃ l, o = .erefs l ∧ ListAcc sp.directed l ((CGS.connecting sp a b).map toERef)
  | .externals k, o, sp' => o = .nats (CGS.externals sp k) ∧ sp' = sp
  | .nodeWeights, o, sp' => o = .nats sp.nodes ∧ sp' = sp
  | .edgeRefs, o, sp' => o = .erefs (spAllRefs sp) ∧ sp' = sp
  | _, _, _ => False

/-- the calls `SpecAccepts` speaks about -/
def isCore : Op → Bool
  | .removeNode _ | .removeEdge _ | .retainNodes _ _ | .retainEdges _ _
  | .filterMap .. | .rebuild | .walk .. | .firstEdge .. | .nextEdge .. => false
  | _ => true

/-- runs of the specification relation -/
inductive SpecRun : CGS.Spec → List Op → List Out → CGS.Spec → Prop
  | nil (sp : CGS.Spec) : SpecRun sp [] [] sp
  | cons {sp sp1 sp2 : CGS.Spec} {op : Op} {o : Out} {ops : List Op} {os : List Out} :
      SpecAccepts sp op o sp1 → SpecRun sp1 ops os sp2 → SpecRun sp (op :: ops) (o :: os) sp2

/-! ### the relation for *all* calls -/

/-- the walk mode as the model reads it: `2` both lists, `1` incoming, anything else outgoing -/
def normMode (m : Nat) : CGS.Mode := if m = 2 then 2 else if m = 1 then 1 else 0

/-- the element following `e` in `l` -/
def spNext (l : List Nat) (e : Nat) : Option Nat := (l.dropWhile (· != e)).tail.head?

/-- `SpecAccepts` extended by the calls stage 1 left out: `remove_node` / `remove_edge` (the
specification's `swap_remove` renumbering, `remove_node` dropping the incident edges in the reference
order), `retain_nodes` / `retain_edges`, `filter_map`, the conversion through `StableGraph`, detached
walkers (answers as for `neighbors*`, the optional weight bump applied to every listed edge) and the
raw chain accessors `first_edge` / `next_edge` (head / successor in the most-recently-added-first
list).  On every other call it *is* `SpecAccepts`. -/
def SpecAccepts2 (sp : CGS.Spec) : Op → Out → CGS.Spec → Prop
  | .removeNode a, o, sp' => o = .optNat sp.nodes[a]? ∧ sp' = CGS.removeNode sp a
  | .removeEdge e, o, sp' => o = .optNat (sp.edges[e]?.map (·.weight)) ∧ sp' = CGS.removeEdge sp e
  | .retainNodes mask bump, o, sp' => o = .unit ∧ sp' = CGS.retainNodes mask bump sp.nodes.length sp
  | .retainEdges mask bump, o, sp' => o = .unit ∧ sp' = CGS.retainEdges mask bump sp.edges.length sp
  | .filterMap nm em dn de, o, sp' => o = .unit ∧ sp' = CGS.filterMap sp nm em dn de
  | .rebuild, o, sp' => o = .unit ∧ sp' = CGS.filterMap sp [] [] 0 0
  | .walk a mode bump, o, sp' =>
    ∃ l, o = .pairs l ∧ ListAcc (CGS.nbrOrdered sp (normMode mode)) l (CGS.nbr sp a (normMode mode)) ∧
      sp' = (if bump then (CGS.nbr sp a (normMode mode)).foldl (fun g p => CGS.bumpEdge g p.1) sp else sp)
  | .firstEdge a k, o, sp' =>
    sp' = sp ∧ o = .optNat (if a < sp.nodes.length then (if k then CGS.inEdges sp a else CGS.outEdges sp a).head? else none)
  | .nextEdge e k, o, sp' =>
    sp' = sp ∧ o = .optNat (if e < sp.edges.length then
      spNext (if k then CGS.inEdges sp (CGS.edgeAt sp e).tgt else CGS.outEdges sp (CGS.edgeAt sp e).src) e else none)
  | op, o, sp' => SpecAccepts sp op o sp'

/-- runs of the extended specification relation -/
inductive SpecRun2 : CGS.Spec → List Op → List Out → CGS.Spec → Prop
  | nil (sp : CGS.Spec) : SpecRun2 sp [] [] sp
  | cons {sp sp1 sp2 : CGS.Spec} {op : Op} {o : Out} {ops : List Op} {os : List Out} :
      SpecAccepts2 sp op o sp1 → SpecRun2 sp1 ops os sp2 → SpecRun2 sp (op :: ops) (o :: os) sp2

end PetgraphModel.GProofs
