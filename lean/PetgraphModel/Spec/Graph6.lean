/-
The graph6 format, written from its description (B. McKay, `formats.txt`) and from nothing else — in
particular not from petgraph's code.  Core Lean only; it is also the per-run judge.

    Bit vectors.  A bit vector x of length k can be represented as follows.
      (1) Pad on the right with 0 to make the length a multiple of 6.
      (2) Split into groups of 6 bits each.
      (3) Add 63 to each group, considering them as bigendian binary numbers.
    These values are then stored one per byte: R(x).

    Small nonnegative integers.  N(n):
      0 <= n <= 62:           the single byte n+63.
      63 <= n <= 258047:      the four bytes 126 R(x), x the bigendian 18-bit binary form of n.
      258048 <= n <= 68719476735:  the eight bytes 126 126 R(x), x the bigendian 36-bit form.

    graph6.  Suppose G has n vertices.  Write the upper triangle of the adjacency matrix of G as a
    bit vector x of length n(n-1)/2, using the ordering (0,1),(0,2),(1,2),(0,3),(1,3),(2,3),...,(n-2,n-1).
    Then the graph is represented as N(n) R(x).
-/
namespace PetgraphModel.Spec.Graph6

/-- the ordering (0,1),(0,2),(1,2),(0,3),(1,3),(2,3),…,(n-2,n-1): column `j` lists the rows `i < j` -/
def pairs (n : Nat) : List (Nat × Nat) :=
  (List.range n).flatMap fun j => (List.range j).map fun i => (i, j)

/-- the bit vector x of a graph on `n` vertices with adjacency predicate `adj` -/
def x (n : Nat) (adj : Nat → Nat → Bool) : List Bool :=
  (pairs n).map fun p => adj p.1 p.2

/-- bit `k` of a vector, 0 beyond its end ("pad on the right with 0") -/
def bitAt (v : Array Bool) (k : Nat) : Nat := if v.getD k false then 1 else 0

/-- group `g` of six bits as a big-endian number -/
def group (v : Array Bool) (g : Nat) : Nat :=
  32 * bitAt v (6 * g) + 16 * bitAt v (6 * g + 1) + 8 * bitAt v (6 * g + 2) +
  4 * bitAt v (6 * g + 3) + 2 * bitAt v (6 * g + 4) + bitAt v (6 * g + 5)

/-- the bytes of R for a vector given as an array -/
def groups (a : Array Bool) : List Nat :=
  (List.range ((a.size + 5) / 6)).map fun g => group a g + 63

/-- R(x): ⌈k/6⌉ bytes -/
def R (v : List Bool) : List Nat := groups v.toArray

/-- N(n) -/
def Nn (n : Nat) : List Nat :=
  if n ≤ 62 then [n + 63]
  else if n ≤ 258047 then [126, n / 4096 % 64 + 63, n / 64 % 64 + 63, n % 64 + 63]
  else [126, 126, n / 1073741824 % 64 + 63, n / 16777216 % 64 + 63, n / 262144 % 64 + 63,
        n / 4096 % 64 + 63, n / 64 % 64 + 63, n % 64 + 63]

/-- the graph6 representation (byte values) of the graph `(n, adj)` -/
def graph6 (n : Nat) (adj : Nat → Nat → Bool) : List Nat :=
  Nn n ++ R (x n adj)

/-- the edges of a simple undirected graph, each once, as the format orders them -/
def edges (n : Nat) (adj : Nat → Nat → Bool) : List (Nat × Nat) :=
  (pairs n).filter fun p => adj p.1 p.2

end PetgraphModel.Spec.Graph6
