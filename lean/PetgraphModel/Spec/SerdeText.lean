import PetgraphModel.Model.Serde
/-
C17 — the two transports, modelled down to characters / bytes (core Lean only: linked into the driver).

* JSON: the exact text `serde_json::to_string` emits for the wire struct of `graph_impl/serialization.rs`
  (`{"nodes":[…],"node_holes":[…],"edge_property":"directed","edges":[[a,b,w],null,…]}`: compact, fields in
  declaration order, integers in decimal without leading zeros, `null` for a vacant edge) — `printWire` — and a
  recursive-descent reader of that grammar — `parseWire`.  `Proofs/C17W4Text.lean` proves
  `parseWire (printWire w) = some w` for every wire value.
* bincode (`with_fixint_encoding`, little endian): `u64` sequence lengths, `i32` weights in two's complement, indices
  in the width of the index type, the `u32` variant tag of `EdgeProperty` (`Undirected = 0`, `Directed = 1`), one tag
  byte per `Option` — `binWire` / `parseBin`; proved `parseBin iw (binWire iw w) = some w` for every wire value whose
  numbers fit their fields.

The driver compares the implementation's actual JSON text / bincode bytes with `printWire` / `binWire` of the mirror
model's wire value, and reads the implementation's text / bytes with `parseWire` / `parseBin` (not with the
harness's reader) before judging it.
-/
namespace PetgraphModel.SerdeText
open PetgraphModel.Serde

abbrev Parser (α : Type) := List Char → Option (α × List Char)

/-! ## numbers -/

def digitChar (d : Nat) : Char := Char.ofNat (48 + d)

/-- decimal digits with fuel (`n` itself is always enough: `C17W4Text.natChars_eq_wf`) -/
def natCharsF : Nat → Nat → List Char
  | 0, n => [digitChar (n % 10)]
  | f + 1, n => if n < 10 then [digitChar n] else natCharsF f (n / 10) ++ [digitChar (n % 10)]

/-- decimal digits, no leading zeros (`itoa`) -/
def natChars (n : Nat) : List Char := natCharsF n n

def intChars : Int → List Char
  | .ofNat n => natChars n
  | .negSucc n => '-' :: natChars (n + 1)

def digitVal (c : Char) : Nat := c.toNat - 48

def readDigits (acc : Nat) : List Char → Nat × List Char
  | [] => (acc, [])
  | c :: cs => if c.isDigit then readDigits (acc * 10 + digitVal c) cs else (acc, c :: cs)

def readNat : Parser Nat
  | [] => none
  | c :: cs => if c.isDigit then some (readDigits 0 (c :: cs)) else none

def readInt : Parser Int
  | [] => none
  | c :: cs =>
    if c = '-' then
      match readNat cs with
      | some (n, r) => some (-(n : Int), r)
      | none => none
    else
      match readNat (c :: cs) with
      | some (n, r) => some ((n : Int), r)
      | none => none

/-! ## fixed text, arrays -/

/-- strip the prefix `p` -/
def expect : List Char → List Char → Option (List Char)
  | [], cs => some cs
  | _ :: _, [] => none
  | p :: ps, c :: cs => if p = c then expect ps cs else none

def commaSep : List (List Char) → List Char
  | [] => []
  | [x] => x
  | x :: y :: rest => x ++ ',' :: commaSep (y :: rest)

def arrChars (items : List (List Char)) : List Char := '[' :: commaSep items ++ [']']

/-- the items after the first one: `,item` … up to the closing bracket -/
def readMore {α} (item : Parser α) : Nat → List Char → Option (List α × List Char)
  | 0, _ => none
  | _ + 1, [] => none
  | f + 1, c :: cs =>
    if c = ']' then some ([], cs)
    else if c = ',' then
      match item cs with
      | some (a, r) =>
        match readMore item f r with
        | some (l, r') => some (a :: l, r')
        | none => none
      | none => none
    else none

def readArr {α} (item : Parser α) (fuel : Nat) : Parser (List α)
  | [] => none
  | c :: cs =>
    if c = '[' then
      match cs with
      | [] => none
      | d :: ds =>
        if d = ']' then some ([], ds)
        else
          match item (d :: ds) with
          | some (a, r) =>
            match readMore item fuel r with
            | some (l, r') => some (a :: l, r')
            | none => none
          | none => none
    else none

/-! ## the wire struct -/

def kNull : List Char := ['n', 'u', 'l', 'l']

def edgeChars : Option (Nat × Nat × Int) → List Char
  | none => kNull
  | some (a, b, x) => '[' :: natChars a ++ ',' :: natChars b ++ ',' :: intChars x ++ [']']

def readEdge : Parser (Option (Nat × Nat × Int))
  | [] => none
  | c :: cs =>
    if c = 'n' then
      match expect kNull (c :: cs) with
      | some r => some (none, r)
      | none => none
    else if c = '[' then
      match readNat cs with
      | none => none
      | some (a, r1) =>
        match expect [','] r1 with
        | none => none
        | some r2 =>
          match readNat r2 with
          | none => none
          | some (b, r3) =>
            match expect [','] r3 with
            | none => none
            | some r4 =>
              match readInt r4 with
              | none => none
              | some (x, r5) =>
                match expect [']'] r5 with
                | none => none
                | some r6 => some (some (a, b, x), r6)
    else none

def sDirected : List Char := ['d', 'i', 'r', 'e', 'c', 't', 'e', 'd']
def sUndirected : List Char := ['u', 'n', 'd', 'i', 'r', 'e', 'c', 't', 'e', 'd']
/-- stands for "any other variant name" (what the harness writes for the tag `x`) -/
def sOther : List Char := ['D', 'i', 'r', 'e', 'c', 't', 'e', 'd']

def propChars : Option Bool → List Char
  | some true => '"' :: sDirected ++ ['"']
  | some false => '"' :: sUndirected ++ ['"']
  | none => '"' :: sOther ++ ['"']

/-- a string without escapes -/
def readStr : Parser (List Char)
  | [] => none
  | c :: cs =>
    if c = '"' then
      match cs.dropWhile (fun x => x != '"') with
      | [] => none
      | _ :: r => some (cs.takeWhile (fun x => x != '"'), r)
    else none

def propOfStr (s : List Char) : Option Bool :=
  if s = sDirected then some true else if s = sUndirected then some false else none

def readProp : Parser (Option Bool) := fun cs =>
  match readStr cs with
  | some (s, r) => some (propOfStr s, r)
  | none => none

def kNodes : List Char := ['{', '"', 'n', 'o', 'd', 'e', 's', '"', ':']
def kHoles : List Char := [',', '"', 'n', 'o', 'd', 'e', '_', 'h', 'o', 'l', 'e', 's', '"', ':']
def kProp : List Char := [',', '"', 'e', 'd', 'g', 'e', '_', 'p', 'r', 'o', 'p', 'e', 'r', 't', 'y', '"', ':']
def kEdges : List Char := [',', '"', 'e', 'd', 'g', 'e', 's', '"', ':']

/-- the text `serde_json::to_string` emits for a wire value -/
def printWire (w : Wire) : List Char :=
  kNodes ++ (arrChars (w.nodes.map intChars) ++ (kHoles ++ (arrChars (w.holes.map natChars) ++
    (kProp ++ (propChars w.prop ++ (kEdges ++ (arrChars (w.edges.map edgeChars) ++ ['}'])))))))

/-- reader of exactly that grammar (no white space, fields in declaration order) -/
def parseWire (cs : List Char) : Option Wire :=
  let fuel := cs.length
  match expect kNodes cs with
  | none => none
  | some r =>
    match readArr readInt fuel r with
    | none => none
    | some (ns, r) =>
      match expect kHoles r with
      | none => none
      | some r =>
        match readArr readNat fuel r with
        | none => none
        | some (hs, r) =>
          match expect kProp r with
          | none => none
          | some r =>
            match readProp r with
            | none => none
            | some (p, r) =>
              match expect kEdges r with
              | none => none
              | some r =>
                match readArr readEdge fuel r with
                | none => none
                | some (es, r) =>
                  match r with
                  | ['}'] => some { nodes := ns, holes := hs, prop := p, edges := es }
                  | _ => none

def printWireS (w : Wire) : String := String.ofList (printWire w)
def parseWireS (s : String) : Option Wire := parseWire s.toList

/-! ## bincode, fixed-width little endian; a byte is a `Nat` below 256 -/

/-- `k` little-endian bytes of `n` (the low `8k` bits) -/
def leBytes : Nat → Nat → List Nat
  | 0, _ => []
  | k + 1, n => n % 256 :: leBytes k (n / 256)

def leVal : List Nat → Nat
  | [] => 0
  | b :: bs => b + 256 * leVal bs

/-- `i32` in two's complement -/
def i32Bytes (x : Int) : List Nat := leBytes 4 (x % 4294967296).toNat

def i32Val (bs : List Nat) : Int :=
  let n := leVal bs
  if n < 2147483648 then (n : Int) else (n : Int) - 4294967296

def tagOfProp : Option Bool → Nat
  | some false => 0
  | some true => 1
  | none => 7

def propOfTag (t : Nat) : Option Bool := if t = 0 then some false else if t = 1 then some true else none

def binEdge (iw : Nat) : Option (Nat × Nat × Int) → List Nat
  | none => [0]
  | some (a, b, x) => 1 :: (leBytes iw a ++ (leBytes iw b ++ i32Bytes x))

/-- the bytes bincode emits for a wire value whose indices are `iw` bytes wide -/
def binWire (iw : Nat) (w : Wire) : List Nat :=
  leBytes 8 w.nodes.length ++ ((w.nodes.flatMap i32Bytes) ++ (leBytes 8 w.holes.length ++ ((w.holes.flatMap (leBytes iw)) ++
    (leBytes 4 (tagOfProp w.prop) ++ (leBytes 8 w.edges.length ++ (w.edges.flatMap (binEdge iw)))))))

abbrev BParser (α : Type) := List Nat → Option (α × List Nat)

def takeN (k : Nat) (bs : List Nat) : Option (List Nat × List Nat) :=
  if k ≤ bs.length then some (bs.take k, bs.drop k) else none

def readLE (k : Nat) : BParser Nat := fun bs =>
  match takeN k bs with
  | some (x, r) => some (leVal x, r)
  | none => none

def readI32 : BParser Int := fun bs =>
  match takeN 4 bs with
  | some (x, r) => some (i32Val x, r)
  | none => none

def readBinEdge (iw : Nat) : BParser (Option (Nat × Nat × Int))
  | [] => none
  | t :: bs =>
    if t = 0 then some (none, bs)
    else if t = 1 then
      match readLE iw bs with
      | none => none
      | some (a, r1) =>
        match readLE iw r1 with
        | none => none
        | some (b, r2) =>
          match readI32 r2 with
          | none => none
          | some (x, r3) => some (some (a, b, x), r3)
    else none

/-- `n` items -/
def readN {α} (item : BParser α) : Nat → BParser (List α)
  | 0, bs => some ([], bs)
  | n + 1, bs =>
    match item bs with
    | none => none
    | some (a, r) =>
      match readN item n r with
      | none => none
      | some (l, r') => some (a :: l, r')

/-- a length-prefixed sequence; the announced length cannot exceed the bytes that are left (every item takes at
    least one byte) — keeps the reader total on mutated prefixes -/
def readSeq {α} (item : BParser α) : BParser (List α) := fun bs =>
  match readLE 8 bs with
  | none => none
  | some (n, r) => if n ≤ r.length then readN item n r else none

/-- reader of the whole stream; returns the wire value and the unread rest (bincode allows trailing bytes) -/
def parseBin (iw : Nat) (bs : List Nat) : Option (Wire × List Nat) :=
  match readSeq readI32 bs with
  | none => none
  | some (ns, r) =>
    match readSeq (readLE iw) r with
    | none => none
    | some (hs, r) =>
      match readLE 4 r with
      | none => none
      | some (t, r) =>
        match readSeq (readBinEdge iw) r with
        | none => none
        | some (es, r) => some ({ nodes := ns, holes := hs, prop := propOfTag t, edges := es }, r)

/-- do the numbers of a wire value fit their bincode fields? (weights are `i32`, indices `iw` bytes, lengths `u64`) -/
def binFits (iw : Nat) (w : Wire) : Bool :=
  w.nodes.all (fun x => decide (-2147483648 ≤ x) && decide (x < 2147483648)) &&
  w.holes.all (fun h => decide (h < 256 ^ iw)) &&
  w.edges.all (fun e => match e with
    | none => true
    | some (a, b, x) => decide (a < 256 ^ iw) && decide (b < 256 ^ iw) && decide (-2147483648 ≤ x) && decide (x < 2147483648)) &&
  decide (w.nodes.length < 18446744073709551616) && decide (w.holes.length < 18446744073709551616) &&
  decide (w.edges.length < 18446744073709551616) && decide (0 < iw)

def hexVal (c : Char) : Option Nat :=
  if '0' ≤ c ∧ c ≤ '9' then some (c.toNat - 48)
  else if 'a' ≤ c ∧ c ≤ 'f' then some (c.toNat - 87)
  else none

/-- `0a1b…` → bytes -/
def parseHex : List Char → Option (List Nat)
  | [] => some []
  | [_] => none
  | a :: b :: rest =>
    match hexVal a, hexVal b, parseHex rest with
    | some x, some y, some l => some ((16 * x + y) :: l)
    | _, _, _ => none

def hexDigit (n : Nat) : Char := if n < 10 then Char.ofNat (48 + n) else Char.ofNat (87 + n)

def showHex (bs : List Nat) : String :=
  String.ofList (bs.flatMap fun b => [hexDigit (b / 16), hexDigit (b % 16)])

end PetgraphModel.SerdeText
