import PetgraphModel.Model.Serde
/-
C17 — what the property *says*, independent of linked lists and free lists.

* `AGraph`: the plain mathematical multigraph a `Graph`/`StableGraph` denotes (live node ids with weights, live edge
  ids with endpoints and weights); `AMap`: the simple graph keyed by node value a `GraphMap` denotes.
* `absWire`: the abstract graph a wire value denotes; `wireValid`: "this wire value is the serialization of some valid
  graph of the target type" (capacity: at most `END = Ix::max()` nodes/edges — the last index is `END - 1`).
* `obsConsistent` / `obsMatches`: the order-insensitive judge of an observation dump against an abstract graph: every
  edge endpoint live, the per-node edge lists are exactly the incident edges, counts and bounds agree.
* `Spec.*`: the abstract state machine of the further operations (fresh index = any index that is not live).

Only sets/multisets are compared here; list orders, free-list order and which vacant index is reused first are the
business of the exact comparison with the mirror model.
-/
namespace PetgraphModel.SerdeSpec
open PetgraphModel.Serde

inductive Kind where
  | graph | stable | map
  deriving Repr, DecidableEq

/-- abstract state of one graph value (fields of the kinds not in use stay empty) -/
structure AGraph where
  kind : Kind
  END : Nat
  directed : Bool
  nodes : List (Nat × Int) := []
  edges : List (Nat × Nat × Nat × Int) := []
  /-- `Graph::remove_node` removes the incident edges "as by remove_edge" in an unspecified order: the edge
      *ids* afterwards are not determined by the documentation; they are re-read from the next dump -/
  looseEdgeIds : Bool := false
  mnodes : List Int := []
  medges : List ((Int × Int) × Int) := []
  deriving Repr

def sameMultiset {α} [BEq α] (a b : List α) : Bool :=
  a.length == b.length && a.all fun x => a.count x == b.count x

def strictlyIncreasing : List Nat → Bool
  | [] => true
  | [_] => true
  | a :: b :: rest => a < b && strictlyIncreasing (b :: rest)

/-! ### wire values -/

/-- positions `0..total` that are not holes -/
def livePositions (total : Nat) (holes : List Nat) : List Nat :=
  (List.range total).filter fun i => !holes.contains i

def wireNodes (w : Wire) : List (Nat × Int) :=
  (livePositions (w.nodes.length + w.holes.length) w.holes).zip w.nodes

def wireEdges (w : Wire) : List (Nat × Nat × Nat × Int) :=
  (enumFrom 0 w.edges).filterMap fun (i, e) => e.map fun (a, b, x) => (i, a, b, x)

/-- the holes a deserializer sees: none when the `node_holes` field does not arrive -/
def effWire (order : List Field) (w : Wire) : Wire := if order.contains .h then w else { w with holes := [] }

/-- the conditions common to all three kinds, on the wire value the deserializer sees -/
def wireCommon (END : Nat) (directed : Bool) (order : List Field) (w : Wire) : Bool :=
  let total := w.nodes.length + w.holes.length
  order.contains .n && order.contains .p && order.contains .e &&
  w.prop == some directed &&
  decide (total ≤ END) && decide (w.edges.length ≤ END) &&
  strictlyIncreasing w.holes && w.holes.all (· < total) &&
  w.edges.all fun e => match e with
    | none => true
    | some (a, b, _) => decide (a < total) && decide (b < total) && !w.holes.contains a && !w.holes.contains b

/-- is the wire the serialization of a valid graph of the target kind (index type maximum `END`)? -/
def wireValid (kind : Kind) (END : Nat) (directed : Bool) (order : List Field) (w0 : Wire) : Bool :=
  let w := effWire order w0
  match kind with
  | .stable => wireCommon END directed order w
  | _ => wireCommon END directed order w && w.holes.isEmpty && w.edges.all (·.isSome)

/-- `from_graph`: nodes with the same weight are merged, the last parallel edge wins -/
def mapOfGraph (directed : Bool) (nodes : List (Nat × Int)) (edges : List (Nat × Nat × Nat × Int)) :
    List Int × List ((Int × Int) × Int) :=
  let ns := nodes.foldl (fun acc (_, w) => if acc.contains w then acc else acc ++ [w]) ([] : List Int)
  let es := edges.foldl (fun (acc : List ((Int × Int) × Int)) (_, a, b, w) =>
    match nodes.lookup a, nodes.lookup b with
    | some wa, some wb =>
      let key := if directed || wa ≤ wb then (wa, wb) else (wb, wa)
      if acc.any (·.1 == key) then acc.map fun (k, v) => if k == key then (k, w) else (k, v) else acc ++ [(key, w)]
    | _, _ => acc) []
  (ns, es)

def absWire (kind : Kind) (END : Nat) (directed : Bool) (order : List Field) (w0 : Wire) : AGraph :=
  let w := effWire order w0
  match kind with
  | .map =>
    let (ns, es) := mapOfGraph directed (wireNodes w) (wireEdges w)
    { kind, END, directed, mnodes := ns, medges := es }
  | _ => { kind, END, directed, nodes := wireNodes w, edges := wireEdges w }

/-! ### judging an observation -/

def expectedOut (directed : Bool) (edges : List (Nat × Nat × Nat × Int)) (a : Nat) : List (Nat × Nat × Nat) :=
  edges.filterMap fun (e, s, t, _) =>
    if directed then (if s = a then some (e, s, t) else none)
    else if s = a then some (e, a, t) else if t = a then some (e, a, s) else none

def expectedIn (directed : Bool) (edges : List (Nat × Nat × Nat × Int)) (a : Nat) : List (Nat × Nat × Nat) :=
  edges.filterMap fun (e, s, t, _) =>
    if directed then (if t = a then some (e, s, t) else none)
    else if s = a then some (e, t, a) else if t = a then some (e, s, a) else none

def expectedNbrs (edges : List (Nat × Nat × Nat × Int)) (a : Nat) : List Nat :=
  (edges.filterMap fun (_, s, t, _) => if s = a then some t else none) ++
  (edges.filterMap fun (_, s, t, _) => if t = a ∧ s ≠ a then some s else none)

/-- the first check that fails, with its message (`conds` and `msgs` are parallel lists) -/
def firstFalse : List Bool → List String → Option String
  | [], _ => none
  | true :: cs, ms => firstFalse cs ms.tail
  | false :: _, ms => some (ms.headD "")

/-- every consistency guarantee of `Graph` / `StableGraph` that shows in a dump, as a list of checks … -/
def obsConds (kind : Kind) (END : Nat) (directed : Bool) (o : Obs) : List Bool :=
  let nids := o.nodes.map (·.1)
  let eids := o.edges.map (·.1)
  [ o.nc == o.nodes.length,
    o.ec == o.edges.length,
    strictlyIncreasing nids,
    strictlyIncreasing eids,
    !(kind == .graph && (nids != List.range o.nc || eids != List.range o.ec)),
    o.nb == (match nids.getLast? with | some x => x + 1 | none => 0),
    o.eb == (match eids.getLast? with | some x => x + 1 | none => 0),
    decide (o.nb ≤ END),
    decide (o.eb ≤ END),
    o.edges.all (fun (_, s, t, _) => nids.contains s && nids.contains t),
    sameMultiset (o.adj.map (·.1)) nids,
    o.adj.all (fun (a, out, inn, nb) =>
      sameMultiset out (expectedOut directed o.edges a) &&
      sameMultiset inn (expectedIn directed o.edges a) &&
      sameMultiset nb (expectedNbrs o.edges a)) ]

/-- … and the message of each -/
def obsMsgs (directed : Bool) (END : Nat) (o : Obs) : List String :=
  let nids := o.nodes.map (·.1)
  [ s!"node_count {o.nc} but {o.nodes.length} nodes are listed",
    s!"edge_count {o.ec} but {o.edges.length} edges are listed",
    "node indices not strictly increasing",
    "edge indices not strictly increasing",
    "Graph indices are not compact",
    s!"node_bound {o.nb} is not last node index + 1",
    s!"edge_bound {o.eb} is not last edge index + 1",
    s!"node index space {o.nb} exceeds the index type's capacity {END}",
    s!"edge index space {o.eb} exceeds the index type's capacity {END}",
    (match o.edges.find? (fun (_, s, t, _) => !nids.contains s || !nids.contains t) with
      | some (e, s, t, _) => s!"edge {e} = ({s},{t}) has an endpoint that is not a live node"
      | none => ""),
    "adjacency listed for a different node set",
    (match o.adj.find? (fun (a, out, inn, nb) =>
        !sameMultiset out (expectedOut directed o.edges a) ||
        !sameMultiset inn (expectedIn directed o.edges a) ||
        !sameMultiset nb (expectedNbrs o.edges a)) with
      | some (a, _, _, _) => s!"edge lists of node {a} are not its incident edges"
      | none => "") ]

/-- every consistency guarantee of `Graph` / `StableGraph` that shows in a dump: the first violated one -/
def obsConsistent (kind : Kind) (END : Nat) (directed : Bool) (o : Obs) : Option String :=
  firstFalse (obsConds kind END directed o) (obsMsgs directed END o)

/-- the observation shows exactly the abstract graph -/
def obsMatches (a : AGraph) (o : Obs) : Option String :=
  if !sameMultiset o.nodes a.nodes then some "nodes (index, weight) differ from the expected graph"
  else if a.looseEdgeIds then
    (if sameMultiset (o.edges.map fun (_, s, t, w) => (s, t, w)) (a.edges.map fun (_, s, t, w) => (s, t, w)) then none
     else some "edges (source, target, weight) differ from the expected graph")
  else if !sameMultiset o.edges a.edges then some "edges (index, source, target, weight) differ from the expected graph"
  else none

structure MapObs where
  nc : Nat
  ec : Nat
  nodes : List Int
  edges : List ((Int × Int) × Int)
  adj : List (Int × List Int × List Int)
  deriving Repr

def mapExpected (directed : Bool) (keys : List (Int × Int)) (a : Int) : List Int × List Int :=
  let eo := if directed then keys.filterMap fun (x, y) => if x = a then some y else none
            else keys.filterMap fun (x, y) => if x = a then some y else if y = a then some x else none
  let ei := if directed then keys.filterMap fun (x, y) => if y = a then some x else none else eo
  (eo, ei)

def mapObsConds (directed : Bool) (o : MapObs) : List Bool :=
  let keys := o.edges.map (·.1)
  [ o.nc == o.nodes.length,
    o.ec == o.edges.length,
    o.nodes.all (fun n => o.nodes.count n == 1),
    o.edges.all (fun (k, _) => keys.count k == 1),
    directed || o.edges.all (fun ((a, b), _) => a ≤ b),
    o.edges.all (fun ((a, b), _) => o.nodes.contains a && o.nodes.contains b),
    sameMultiset (o.adj.map (·.1)) o.nodes,
    o.adj.all (fun (a, out, inn) =>
      sameMultiset out (mapExpected directed keys a).1 && sameMultiset inn (mapExpected directed keys a).2) ]

def mapObsMsgs (directed : Bool) (o : MapObs) : List String :=
  let keys := o.edges.map (·.1)
  [ "GraphMap node_count differs from the nodes listed",
    "GraphMap edge_count differs from the edges listed",
    "GraphMap lists a node twice",
    "GraphMap lists an edge key twice",
    "undirected GraphMap edge key not canonical",
    "GraphMap edge with an absent endpoint",
    "GraphMap adjacency for a different node set",
    (match o.adj.find? (fun (a, out, inn) =>
        !sameMultiset out (mapExpected directed keys a).1 || !sameMultiset inn (mapExpected directed keys a).2) with
      | some (a, _, _) => s!"GraphMap neighbours of {a} are not its incident edges"
      | none => "") ]

def mapObsConsistent (directed : Bool) (o : MapObs) : Option String :=
  firstFalse (mapObsConds directed o) (mapObsMsgs directed o)

def mapObsMatches (a : AGraph) (o : MapObs) : Option String :=
  if !sameMultiset o.nodes a.mnodes then some "GraphMap nodes differ from the expected graph"
  else if !sameMultiset o.edges a.medges then some "GraphMap edges differ from the expected graph"
  else none

/-! ### the abstract machine of the further operations

Each function takes the abstract state and the implementation's answer and returns either the reason the answer is
not one the specification allows, or the next abstract state. -/

def AGraph.liveNode (a : AGraph) (i : Nat) : Bool := a.nodes.any (·.1 == i)
def AGraph.liveEdge (a : AGraph) (e : Nat) : Bool := a.edges.any (·.1 == e)

inductive Ans where
  | okIx (i : Nat) | err (what : String) (payload : Option Nat) | someW (w : Int) | none | bool (b : Bool) | unit | other (s : String)
  deriving Repr

def specAddNode (a : AGraph) (w : Int) (ans : Ans) : Except String AGraph :=
  match a.kind, ans with
  | .map, .unit => .ok (if a.mnodes.contains w then a else { a with mnodes := a.mnodes ++ [w] })
  | .map, _ => .error "GraphMap::add_node must succeed"
  | k, .okIx i =>
    if a.liveNode i then .error s!"add_node returned the live index {i}"
    else if i ≥ a.END then .error s!"add_node returned index {i} beyond the index type"
    else if k == .graph && i ≠ a.nodes.length then .error s!"Graph::add_node returned {i}, node count was {a.nodes.length}"
    else .ok { a with nodes := a.nodes ++ [(i, w)] }
  | _, .err "NodeIxLimit" _ =>
    if a.nodes.length ≥ a.END then .ok a else .error "add_node refused although an index is free"
  | _, _ => .error "add_node: unexpected answer"

def specAddEdge (a : AGraph) (x y : Nat) (w : Int) (ans : Ans) : Except String AGraph :=
  let full := a.edges.length ≥ a.END
  let missing := !a.liveNode x || !a.liveNode y
  match ans with
  | .okIx e =>
    if missing then .error s!"add_edge({x},{y}) succeeded although an endpoint is not a node"
    else if a.liveEdge e then .error s!"add_edge returned the live index {e}"
    else if e ≥ a.END then .error s!"add_edge returned index {e} beyond the index type"
    else if a.kind == .graph && e ≠ a.edges.length then .error s!"Graph::add_edge returned {e}, edge count was {a.edges.length}"
    else .ok { a with edges := a.edges ++ [(e, x, y, w)] }
  | .err "EdgeIxLimit" _ => if full then .ok a else .error "add_edge refused with EdgeIxLimit although an index is free"
  | .err "NodeOutBounds" _ => if missing && a.kind == .graph then .ok a else .error "add_edge: NodeOutBounds for existing nodes"
  | .err "NodeMissed" (some i) =>
    if a.kind == .stable && (i = x || i = y) && !a.liveNode i then .ok a else .error s!"add_edge: NodeMissed({i}) is not a missing endpoint"
  | _ => .error "add_edge: unexpected answer"

def specRemoveEdge (a : AGraph) (e : Nat) (ans : Ans) : Except String AGraph :=
  match a.edges.find? (·.1 == e), ans with
  | none, .none => .ok a
  | none, _ => .error s!"remove_edge({e}) of an absent edge did not answer None"
  | some (_, _, _, w), .someW w' =>
    if w ≠ w' then .error s!"remove_edge({e}) returned weight {w'}, the edge's weight is {w}"
    else
      let rest := a.edges.filter (·.1 != e)
      match a.kind with
      | .graph =>
        -- documented: the last edge adopts the removed index
        let last := a.edges.length - 1
        .ok { a with edges := rest.map fun (i, s, t, x) => if i = last then (e, s, t, x) else (i, s, t, x) }
      | _ => .ok { a with edges := rest }
  | some _, _ => .error s!"remove_edge({e}) of a live edge did not return its weight"

def specRemoveNode (a : AGraph) (n : Nat) (ans : Ans) : Except String AGraph :=
  match a.nodes.find? (·.1 == n), ans with
  | none, .none => .ok a
  | none, _ => .error s!"remove_node({n}) of an absent node did not answer None"
  | some (_, w), .someW w' =>
    if w ≠ w' then .error s!"remove_node({n}) returned weight {w'}, the node's weight is {w}"
    else
      let es := a.edges.filter fun (_, s, t, _) => s ≠ n ∧ t ≠ n
      let ns := a.nodes.filter (·.1 != n)
      match a.kind with
      | .graph =>
        -- documented: the last node adopts the removed index; edge ids as after remove_edge of each incident edge
        let last := a.nodes.length - 1
        let rn := fun (i : Nat) => if i = last then n else i
        .ok { a with nodes := ns.map (fun (i, x) => (rn i, x)),
                     edges := if es.length ≠ a.edges.length || a.looseEdgeIds
                              then (enumFrom 0 es).map (fun (j, _, s, t, x) => (j, rn s, rn t, x))   -- ids open: any compact numbering
                              else es.map (fun (i, s, t, x) => (i, rn s, rn t, x)),
                     looseEdgeIds := a.looseEdgeIds || es.length ≠ a.edges.length }
      | _ => .ok { a with nodes := ns, edges := es }
  | some _, _ => .error s!"remove_node({n}) of a live node did not return its weight"

def mkey (directed : Bool) (x y : Int) : Int × Int := if directed || x ≤ y then (x, y) else (y, x)

def specMapAddEdge (a : AGraph) (x y w : Int) (ans : Ans) : Except String AGraph :=
  let key := mkey a.directed x y
  let addN := fun (l : List Int) (v : Int) => if l.contains v then l else l ++ [v]
  match a.medges.find? (·.1 == key), ans with
  | some (_, old), .someW o =>
    if o ≠ old then .error s!"GraphMap::add_edge returned old weight {o}, it was {old}"
    else .ok { a with medges := a.medges.map fun (k, v) => if k == key then (k, w) else (k, v) }
  | none, .none => .ok { a with mnodes := addN (addN a.mnodes x) y, medges := a.medges ++ [(key, w)] }
  | _, _ => .error "GraphMap::add_edge: answer does not say whether the edge existed"

def specMapRemoveEdge (a : AGraph) (x y : Int) (ans : Ans) : Except String AGraph :=
  let key := mkey a.directed x y
  match a.medges.find? (·.1 == key), ans with
  | some (_, old), .someW o =>
    if o ≠ old then .error "GraphMap::remove_edge returned a different weight"
    else .ok { a with medges := a.medges.filter (·.1 != key) }
  | none, .none => .ok a
  | _, _ => .error "GraphMap::remove_edge: answer does not say whether the edge existed"

def specMapRemoveNode (a : AGraph) (x : Int) (ans : Ans) : Except String AGraph :=
  match a.mnodes.contains x, ans with
  | true, .bool true =>
    .ok { a with mnodes := a.mnodes.filter (· != x), medges := a.medges.filter fun ((p, q), _) => p ≠ x ∧ q ≠ x }
  | false, .bool false => .ok a
  | _, _ => .error "GraphMap::remove_node: answer does not say whether the node existed"

end PetgraphModel.SerdeSpec
