import PetgraphModel.Model.GraphMap
import PetgraphModel.Spec.SimpleGraph
import PetgraphModel.Spec.SimpleGraphJudge
/-
C03 — the `dump` observation as a value.

After every mutating call the harness prints a *dump*: everything the public API shows about the
current `GraphMap`, all at once (counts, bounds, the three node iterators, the two edge iterators,
the compact numbering in both directions for nodes and edges, the iterators' own `rev`/`len`/
`count`/`last`/`nth`, and per node value `v < k` the six incidence iterators, a row of `edge_weight`
and a row of `contains_edge`).

This file gives

* `Dump` / `NodeSec` — the parsed dump (a `none` entry is a panic caught by the harness);
* `modelDumpS s k`   — the mirror model's dump of state `s` (rendered by `Driver/C03.lean`);
* `DumpOk g k d`     — what the property says about a dump in the abstract simple graph `g`:
  every listing is a duplicate-free enumeration of the set it names, the counts are the cardinalities,
  `from_index` enumerates the nodes (edges) over `0..count` and `to_index` is its inverse on the ids the
  iterators hand out (*the compact numbering describes the same graph*), and `rev`/`last`/`nth` of an
  iterator agree with what the same iterator yields front to back;
* `dumpOkB g k d`    — the executable check the driver runs on every dump of the implementation.

`Proofs/C03W4Dump.lean` proves `dumpOkB g k d = true ↔ DumpOk g k d` (graphs bounded by `k`) and that
the mirror model's dump satisfies `DumpOk` in every reachable state.  Core Lean only.
-/
namespace PetgraphModel.C03Dump
open PetgraphModel.GM PetgraphModel.SimpleGraphSpec

abbrev T3 := Nat × Nat × Nat

/-- the observations at one node value `v` -/
structure NodeSec where
  v : Nat
  /-- `contains_node(v)` -/
  c : Bool
  /-- `neighbors(v)`, `neighbors_directed(v, Outgoing)`, `neighbors_directed(v, Incoming)` -/
  nb : Option (List Nat)
  nbO : Option (List Nat)
  nbI : Option (List Nat)
  /-- `edges(v)`, `edges_directed(v, Outgoing)`, `edges_directed(v, Incoming)` -/
  ed : Option (List T3)
  edO : Option (List T3)
  edI : Option (List T3)
  /-- `edge_weight(v, b)` for `b < k` -/
  w : List (Option Nat)
  /-- `contains_edge(v, b)` for `b < k` -/
  adj : List Bool
  deriving Repr, DecidableEq

structure Dump where
  /-- `node_count`, `edge_count`, `node_bound`, `edge_bound` -/
  nc : Nat
  ec : Nat
  nb : Nat
  eb : Nat
  /-- `nodes()`, `node_identifiers()`, `node_references()` -/
  nodes : List Nat
  ids : List Nat
  refs : List Nat
  /-- `all_edges()`, `edge_references()` -/
  edges : List T3
  erefs : List T3
  /-- `NodeIndexable::to_index(n)` for `n` in `nodes()` order; `from_index(i)` for `i < node_count` -/
  ni : List (Option Nat)
  nf : List (Option Nat)
  /-- `EdgeIndexable::to_index((a, b))` for `(a, b, _)` in `all_edges()` order; `from_index(i)`, `i < edge_count` -/
  ei : List (Option Nat)
  ef : List (Option (Nat × Nat))
  /-- `is_directed` -/
  dir : Bool
  /-- `nodes().rev()`, `nodes().len()`, `all_edges().rev()`, `all_edges().count()`, `.last()`, `.nth(edge_count / 2)` -/
  rnodes : List Nat
  nlen : Nat
  redges : List T3
  ecnt : Nat
  elast : Option T3
  enth : Option T3
  per : List NodeSec
  deriving Repr, DecidableEq

/-! ### the mirror model's dump -/

def modelSec (s : State) (k : Nat) (v : Nat) : NodeSec where
  v := v
  c := containsNode s v
  nb := some (neighbors s v)
  nbO := some (neighborsDirected s v .out)
  nbI := some (neighborsDirected s v .inc)
  ed := allSome (edgesOf s v)
  edO := allSome (edgesDirected s v .out)
  edI := allSome (edgesDirected s v .inc)
  w := (univ k).map fun b => edgeWeight s v b
  adj := (univ k).map fun b => containsEdge s v b

/-- field for field what `harness/src/c03.rs::dump` observes, computed on the mirror model -/
def modelDumpS (s : State) (k : Nat) : Dump where
  nc := nodeCount s
  ec := edgeCount s
  nb := nodeCount s
  eb := edgeCount s
  nodes := nodesOf s
  ids := nodesOf s
  refs := nodesOf s
  edges := allEdges s
  erefs := allEdges s
  ni := (nodesOf s).map fun n => IMap.indexOf? s.nodes n
  nf := (List.range (nodesOf s).length).map fun i => s.nodes[i]?.map (·.1)
  -- `to_index` looks the id up under `edge_key` (either orientation of an undirected edge, D33 repaired)
  ei := (allEdges s).map fun e => IMap.indexOf? s.edges (edgeKey s.directed e.1 e.2.1)
  ef := (List.range (allEdges s).length).map fun i => s.edges[i]?.map (·.1)
  dir := s.directed
  rnodes := (nodesOf s).reverse
  nlen := nodeCount s
  redges := (allEdges s).reverse
  ecnt := edgeCount s
  elast := (allEdges s).getLast?
  enth := (allEdges s)[(allEdges s).length / 2]?
  per := (univ k).map (modelSec s k)

/-! ### what the property says about a dump -/

/-- `n` is the number of nodes / of edges (an undirected edge counted once) -/
def NodeCountOk (g : SG) (n : Nat) : Prop := ∃ l, NodesOk g l ∧ n = l.length
def EdgeCountOk (g : SG) (n : Nat) : Prop := ∃ l, AllEdgesOk g l ∧ n = l.length

/-- every entry is an answer (no caught panic) -/
def allSomes {α : Type} : List (Option α) → Option (List α)
  | [] => some []
  | some x :: t => (allSomes t).map (x :: ·)
  | none :: _ => none

/-- `to` (the answers of `to_index` on the ids `ids`, in that order) is the inverse of the
enumeration `from` (the answers of `from_index` on `0, 1, …`) -/
def InverseOn {α : Type} (ids : List α) (to : List Nat) (frm : List α) : Prop :=
  to.length = ids.length ∧ ∀ (j : Nat) (x : α) (i : Nat), ids[j]? = some x → to[j]? = some i → frm[i]? = some x

/-- the edge ids with the weights the abstract graph gives them -/
def withWeights (g : SG) (l : List (Nat × Nat)) : List T3 := l.map fun p => (p.1, p.2, (g.w p.1 p.2).getD 0)

def edgeId (e : T3) : Nat × Nat := (e.1, e.2.1)

structure SecOk (g : SG) (k : Nat) (v : Nat) (sec : NodeSec) : Prop where
  v_eq : sec.v = v
  c : sec.c = g.node v
  nb : ∃ l, sec.nb = some l ∧ NeighborsOk g v .out l
  nbO : ∃ l, sec.nbO = some l ∧ NeighborsOk g v .out l
  nbI : ∃ l, sec.nbI = some l ∧ NeighborsOk g v .inc l
  ed : ∃ t, sec.ed = some t ∧ EdgesOk g v .out t
  edO : ∃ t, sec.edO = some t ∧ EdgesOk g v .out t
  edI : ∃ t, sec.edI = some t ∧ EdgesOk g v .inc t
  w : sec.w = (univ k).map fun b => g.w v b
  adj : sec.adj = (univ k).map fun b => g.hasEdge v b

structure DumpOk (g : SG) (k : Nat) (d : Dump) : Prop where
  nc : NodeCountOk g d.nc
  nb : NodeCountOk g d.nb
  nlen : NodeCountOk g d.nlen
  ec : EdgeCountOk g d.ec
  eb : EdgeCountOk g d.eb
  ecnt : EdgeCountOk g d.ecnt
  nodes : NodesOk g d.nodes
  ids : NodesOk g d.ids
  refs : NodesOk g d.refs
  edges : AllEdgesOk g d.edges
  erefs : AllEdgesOk g d.erefs
  /-- compact node numbering: `from_index` enumerates the node set over `0..node_count` without
  repetition and `to_index` is its inverse on the ids `nodes()` hands out -/
  nnum : ∃ nf ni, allSomes d.nf = some nf ∧ allSomes d.ni = some ni ∧ NodesOk g nf ∧ InverseOn d.nodes ni nf
  /-- compact edge numbering: `from_index` enumerates the edges (each once) and `to_index` is its
  inverse on the ids `all_edges()` hands out -/
  enum : ∃ ef ei, allSomes d.ef = some ef ∧ allSomes d.ei = some ei ∧ AllEdgesOk g (withWeights g ef) ∧
    InverseOn (d.edges.map edgeId) ei ef
  dir : d.dir = g.directed
  /-- the iterators' own `rev` / `last` / `nth` agree with their forward sequence -/
  rnodes : d.rnodes = d.nodes.reverse
  redges : d.redges = d.edges.reverse
  elast : d.elast = d.edges.getLast?
  enth : d.enth = d.edges[d.edges.length / 2]?
  per_len : d.per.length = k
  per : ∀ v sec, d.per[v]? = some sec → SecOk g k v sec

/-! ### the executable check -/

def inverseOnB {α : Type} [DecidableEq α] (ids : List α) (to : List Nat) (frm : List α) : Bool :=
  to.length == ids.length && (ids.zip to).all fun p => frm[p.2]? == some p.1

def optListB {α : Type} (o : Option (List α)) (f : List α → Bool) : Bool :=
  match o with
  | some l => f l
  | none => false

def secOkB (g : SG) (k : Nat) (v : Nat) (sec : NodeSec) : Bool :=
  sec.v == v && sec.c == g.node v &&
  optListB sec.nb (neighborsB g k v .out) && optListB sec.nbO (neighborsB g k v .out) &&
  optListB sec.nbI (neighborsB g k v .inc) &&
  optListB sec.ed (edgesB g k v .out) && optListB sec.edO (edgesB g k v .out) &&
  optListB sec.edI (edgesB g k v .inc) &&
  sec.w == (univ k).map (fun b => g.w v b) && sec.adj == (univ k).map (fun b => g.hasEdge v b)

def allIdx {α : Type} (f : Nat → α → Bool) : Nat → List α → Bool
  | _, [] => true
  | i, x :: t => f i x && allIdx f (i + 1) t

def nodeNumB (g : SG) (k : Nat) (d : Dump) : Bool :=
  match allSomes d.nf, allSomes d.ni with
  | some nf, some ni => nodesB g k nf && inverseOnB d.nodes ni nf
  | _, _ => false

def edgeNumB (g : SG) (k : Nat) (d : Dump) : Bool :=
  match allSomes d.ef, allSomes d.ei with
  | some ef, some ei => allEdgesB g k (withWeights g ef) && inverseOnB (d.edges.map edgeId) ei ef
  | _, _ => false

def dumpOkB (g : SG) (k : Nat) (d : Dump) : Bool :=
  let nc := specNodeCount g k
  let ec := (specEdgeKeys g k).length
  d.nc == nc && d.nb == nc && d.nlen == nc && d.ec == ec && d.eb == ec && d.ecnt == ec &&
  nodesB g k d.nodes && nodesB g k d.ids && nodesB g k d.refs &&
  allEdgesB g k d.edges && allEdgesB g k d.erefs &&
  nodeNumB g k d && edgeNumB g k d &&
  d.dir == g.directed &&
  d.rnodes == d.nodes.reverse && d.redges == d.edges.reverse &&
  d.elast == d.edges.getLast? && d.enth == d.edges[d.edges.length / 2]? &&
  d.per.length == k && allIdx (secOkB g k) 0 d.per

end PetgraphModel.C03Dump
