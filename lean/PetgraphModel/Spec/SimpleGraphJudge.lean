import PetgraphModel.Spec.SimpleGraph
/-
Executable decision procedure for `SimpleGraphSpec.OutOk` (property C03): `judgeB g k op o` decides
whether answer `o` of call `op` is the one the property prescribes in the abstract graph `g`, for
graphs whose node values are below `k` (the abstract sets are enumerated over `List.range k`).

This is the per-run judge of the implementation's answers (`Driver/C03.lean` only adds the wording of
the verdict).  `Theorems/C03.lean` proves `judgeB g k op o = true ↔ OutOk g op o` for well-formed
graphs bounded by `k`.  Core Lean only.
-/
namespace PetgraphModel.SimpleGraphSpec
open PetgraphModel.GM (Op Out Dir)

def nodupB {α : Type} [DecidableEq α] : List α → Bool
  | [] => true
  | x :: t => !(t.contains x) && nodupB t

def univ (k : Nat) : List Nat := List.range k

def pairs (k : Nat) : List (Nat × Nat) := (univ k).flatMap fun a => (univ k).map fun b => (a, b)

/-- `l` enumerates `{x ∈ dom | P x}` without repetition -/
def enumOk {α : Type} [DecidableEq α] (P : α → Bool) (dom l : List α) : Bool :=
  nodupB l && l.all P && l.length == (dom.filter P).length

def specNodeCount (g : SG) (k : Nat) : Nat := ((univ k).filter g.node).length

def nodesB (g : SG) (k : Nat) (l : List Nat) : Bool := enumOk g.node (univ k) l

/-- is `b` an out-neighbour (`d = out`) / in-neighbour (`d = inc`) of `a`? -/
def hasDir (g : SG) (a : Nat) (d : Dir) (b : Nat) : Bool :=
  match d with
  | .out => g.hasEdge a b
  | .inc => g.hasEdge b a

def neighborsB (g : SG) (k : Nat) (a : Nat) (d : Dir) (l : List Nat) : Bool :=
  enumOk (hasDir g a d) (univ k) l

/-- the endpoint of an edge at `a` that is not the queried one -/
def otherEnd (d : Dir) (e : Nat × Nat × Nat) : Nat :=
  match d with
  | .out => e.2.1
  | .inc => e.1

/-- `e` is an edge of `g` with `a` as the source (`out`) / target (`inc`) and the right weight -/
def goodEdge (g : SG) (a : Nat) (d : Dir) (e : Nat × Nat × Nat) : Bool :=
  match d with
  | .out => e.1 == a && g.w a e.2.1 == some e.2.2
  | .inc => e.2.1 == a && g.w e.1 a == some e.2.2

def edgesB (g : SG) (k : Nat) (a : Nat) (d : Dir) (t : List (Nat × Nat × Nat)) : Bool :=
  t.all (goodEdge g a d) && enumOk (hasDir g a d) (univ k) (t.map (otherEnd d))

def canon (directed : Bool) (p : Nat × Nat) : Nat × Nat :=
  if directed || p.1 ≤ p.2 then p else (p.2, p.1)

/-- `p` is the canonical name of an edge of `g` -/
def isKey (g : SG) (p : Nat × Nat) : Bool := (g.directed || decide (p.1 ≤ p.2)) && (g.w p.1 p.2).isSome

/-- all edges of the abstract graph, an undirected edge once -/
def specEdgeKeys (g : SG) (k : Nat) : List (Nat × Nat) := (pairs k).filter (isKey g)

def specEdges (g : SG) (k : Nat) : List (Nat × Nat × Nat) :=
  (specEdgeKeys g k).map fun p => (p.1, p.2, (g.w p.1 p.2).getD 0)

def validEdge (g : SG) (e : Nat × Nat × Nat) : Bool := g.w e.1 e.2.1 == some e.2.2

def allEdgesB (g : SG) (k : Nat) (l : List (Nat × Nat × Nat)) : Bool :=
  l.all (validEdge g) && enumOk (isKey g) (pairs k) (l.map fun e => canon g.directed (e.1, e.2.1))

/-- weights of an `edges`/`edges_directed` answer; `none` = the `unreachable!()` arm was reached -/
def allSome : List (Nat × Nat × Option Nat) → Option (List (Nat × Nat × Nat))
  | [] => some []
  | (a, b, some w) :: t => (allSome t).map ((a, b, w) :: ·)
  | _ :: _ => none

/-- the edges of an `into_graph` result as node-value triples (`none`: a failed `unwrap()` or an
endpoint position outside the node list) -/
def resolveVia (ws : List Nat) : List (Option Nat × Option Nat × Nat) → Option (List (Nat × Nat × Nat))
  | [] => some []
  | (some i, some j, w) :: r =>
    match ws[i]?, ws[j]? with
    | some a, some b => (resolveVia ws r).map ((a, b, w) :: ·)
    | _, _ => none
  | _ :: _ => none

def indexOut (g : SG) (a b : Nat) : Out :=
  match g.w a b with
  | some x => .nat x
  | none => .panic

def judgeB (g : SG) (k : Nat) : Op → Out → Bool
  | .addNode n, o => o == .nat n
  | .addEdge a b _, o => o == .optNat (g.w a b)
  | .removeNode n, o => o == .bool (g.node n)
  | .removeEdge a b, o => o == .optNat (g.w a b)
  | .setWeight a b _, o => o == .optNat (g.w a b)
  | .indexSet a b _, o => o == indexOut g a b
  | .index a b, o => o == indexOut g a b
  | .bumpAll _, .triples l => allEdgesB g k l
  | .allEdges, .triples l => allEdgesB g k l
  | .clear, o => o == .unit
  | .extend _, o => o == .unit
  | .roundTrip, o => o == .unit
  | .fromEdges _, o => o == .unit
  | .clone, o => o == .unit
  | .fromGraph ws es, o => o == (if (SG.fromGraph g.directed ws es).isSome then .unit else .panic)
  | .buildAddEdge a b _, o =>
    if g.hasEdge a b then o == .optPair none
    else match o with
      | .optPair (some p) => samePair g.directed a b p.1 p.2
      | _ => false
  | .buildUpdateEdge a b _, .pair x y => samePair g.directed a b x y
  | .containsNode n, o => o == .bool (g.node n)
  | .containsEdge a b, o => o == .bool (g.hasEdge a b)
  | .isAdjacent a b, o => o == .bool (g.hasEdge a b)
  | .edgeWeight a b, o => o == .optNat (g.w a b)
  | .neighbors a, .natList l => neighborsB g k a .out l
  | .neighborsDirected a d, .natList l => neighborsB g k a d l
  | .edges a, .wtriples l =>
    match allSome l with
    | some t => edgesB g k a .out t
    | none => false
  | .edgesDirected a d, .wtriples l =>
    match allSome l with
    | some t => edgesB g k a d t
    | none => false
  | .nodes, .natList l => nodesB g k l
  | .nodeCount, o => o == .nat (specNodeCount g k)
  | .edgeCount, o => o == .nat (specEdgeKeys g k).length
  | .toIndex n, o =>
    if g.node n then
      match o with
      | .nat i => decide (i < specNodeCount g k)
      | _ => false
    else o == .panic
  | .fromIndex i, o =>
    if i < specNodeCount g k then
      match o with
      | .nat n => g.node n
      | _ => false
    else o == .panic
  | .edgeToIndex a b, o =>
    if g.hasEdge a b then
      match o with
      | .nat i => decide (i < (specEdgeKeys g k).length)
      | _ => false
    else o == .panic
  | .edgeFromIndex i, o =>
    if i < (specEdgeKeys g k).length then
      match o with
      | .pair a b => g.hasEdge a b
      | _ => false
    else o == .panic
  | .intoGraph, .graph ws es =>
    nodesB g k ws && (match resolveVia ws es with
      | some t => allEdgesB g k t
      | none => false)
  | _, _ => false

/-- run-time check of the side condition of the judge theorems: every node value a call mentions is
below `k` (`GMJudge.OpBounded`; `C03_opBounded_check`) -/
def opBoundedB (k : Nat) : Op → Bool
  | .addNode n => decide (n < k)
  | .addEdge a b _ | .buildAddEdge a b _ | .buildUpdateEdge a b _ => decide (a < k) && decide (b < k)
  | .extend es | .fromEdges es => es.all fun e => decide (e.1 < k) && decide (e.2.1 < k)
  | .fromGraph ws _ => ws.all fun n => decide (n < k)
  | _ => true

end PetgraphModel.SimpleGraphSpec
