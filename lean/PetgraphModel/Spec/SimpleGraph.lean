import PetgraphModel.Model.GraphMap
/-
The abstract specification `GraphMap` is measured against (property C03): a *simple graph on node
values* — a node set and a partial weight function on ordered pairs (symmetric when undirected), so
there is at most one edge per ordered pair (per unordered pair when undirected) and a self-loop is
just the pair `(a, a)`.

Two layers:
* the spec machine `SG` with one transition per public call (`specStep`) — plain function updates;
* `OutOk g op out`: what the property statement says about the answer `out` of call `op` in the
  abstract graph `g` (order-insensitive wherever the property is: lists are judged as duplicate-free
  enumerations of the set the statement names).

Only the *types* `Op`/`Out`/`Dir` are taken from the model file.
-/
namespace PetgraphModel.SimpleGraphSpec
open PetgraphModel.GM (Op Out Dir)

structure SG where
  directed : Bool
  /-- node set -/
  node : Nat → Bool
  /-- weight of the edge `a → b` (of the edge `{a, b}` when undirected) -/
  w : Nat → Nat → Option Nat

def SG.empty (directed : Bool) : SG := ⟨directed, fun _ => false, fun _ _ => none⟩

/-- all node values of the graph are below `k` -/
structure SG.Bounded (g : SG) (k : Nat) : Prop where
  node_lt : ∀ n, g.node n = true → n < k
  w_lt : ∀ a b, (g.w a b).isSome = true → a < k ∧ b < k

/-- well-formedness: edges join nodes; undirected graphs are symmetric -/
structure SG.WF (g : SG) : Prop where
  ends : ∀ a b, (g.w a b).isSome → g.node a = true ∧ g.node b = true
  symm : g.directed = false → ∀ a b, g.w a b = g.w b a

/-- does the pair `(x, y)` denote the edge `(a, b)`? -/
def samePair (directed : Bool) (a b x y : Nat) : Bool :=
  (x == a && y == b) || (!directed && x == b && y == a)

def SG.hasEdge (g : SG) (a b : Nat) : Bool := (g.w a b).isSome

def SG.addNode (g : SG) (n : Nat) : SG := { g with node := fun x => x == n || g.node x }

def SG.addEdge (g : SG) (a b wt : Nat) : SG :=
  { g with
    node := fun x => x == a || x == b || g.node x
    w := fun x y => if samePair g.directed a b x y then some wt else g.w x y }

def SG.removeEdge (g : SG) (a b : Nat) : SG :=
  { g with w := fun x y => if samePair g.directed a b x y then none else g.w x y }

/-- removes the node and exactly its incident edges -/
def SG.removeNode (g : SG) (n : Nat) : SG :=
  { g with
    node := fun x => x != n && g.node x
    w := fun x y => if x == n || y == n then none else g.w x y }

def SG.setWeight (g : SG) (a b wt : Nat) : SG :=
  if g.hasEdge a b then { g with w := fun x y => if samePair g.directed a b x y then some wt else g.w x y }
  else g

def SG.bumpAll (g : SG) (k : Nat) : SG := { g with w := fun x y => (g.w x y).map (· + k) }

def SG.clear (g : SG) : SG := SG.empty g.directed

def SG.extend (g : SG) : List (Nat × Nat × Nat) → SG
  | [] => g
  | (a, b, wt) :: rest => SG.extend (g.addEdge a b wt) rest

def SG.addNodes (g : SG) : List Nat → SG
  | [] => g
  | n :: rest => SG.addNodes (g.addNode n) rest

/-- `from_graph`: node weights are merged, the last parallel edge wins (its documentation) -/
def SG.fromGraphEdges (g : SG) (ws : List Nat) : List (Nat × Nat × Nat) → Option SG
  | [] => some g
  | (i, j, wt) :: rest =>
    match ws[i]?, ws[j]? with
    | some a, some b => SG.fromGraphEdges (g.addEdge a b wt) ws rest
    | _, _ => none

def SG.fromGraph (directed : Bool) (ws : List Nat) (es : List (Nat × Nat × Nat)) : Option SG :=
  SG.fromGraphEdges ((SG.empty directed).addNodes ws) ws es

/-- the transition of the abstract graph for every public call (queries: identity) -/
def specStep (g : SG) : Op → SG
  | .addNode n => g.addNode n
  | .addEdge a b wt => g.addEdge a b wt
  | .removeNode n => g.removeNode n
  | .removeEdge a b => g.removeEdge a b
  | .setWeight a b wt => g.setWeight a b wt
  | .indexSet a b wt => g.setWeight a b wt
  | .bumpAll k => g.bumpAll k
  | .clear => g.clear
  | .extend es => g.extend es
  | .buildAddEdge a b wt => if g.hasEdge a b then g else g.addEdge a b wt
  | .buildUpdateEdge a b wt => g.addEdge a b wt
  | .roundTrip => g          -- `into_graph` ∘ `from_graph` describe the same graph
  | .fromGraph ws es => (SG.fromGraph g.directed ws es).getD g
  | .fromEdges es => (SG.empty g.directed).extend es
  | _ => g

def specRun (g : SG) : List Op → SG
  | [] => g
  | op :: ops => specRun (specStep g op) ops

/-! ### what the property says about each answer -/

/-- `l` enumerates the node set, once each -/
def NodesOk (g : SG) (l : List Nat) : Prop := l.Nodup ∧ ∀ n, n ∈ l ↔ g.node n = true

/-- `l` enumerates the edges with their weights: each edge once — for an undirected graph under
exactly one of its two orientations -/
def AllEdgesOk (g : SG) (l : List (Nat × Nat × Nat)) : Prop :=
  l.Nodup ∧
  (∀ a b wt, (a, b, wt) ∈ l → g.w a b = some wt) ∧
  (∀ a b wt, g.w a b = some wt → (a, b, wt) ∈ l ∨ (g.directed = false ∧ (b, a, wt) ∈ l)) ∧
  (g.directed = false → ∀ a b wt wt', a ≠ b → (a, b, wt) ∈ l → (b, a, wt') ∉ l)

/-- `l` enumerates the out-neighbours (`d = out`) / in-neighbours (`d = inc`) of `a`, once each;
for an undirected graph both are the neighbours -/
def NeighborsOk (g : SG) (a : Nat) (d : Dir) (l : List Nat) : Prop :=
  l.Nodup ∧ ∀ b, b ∈ l ↔ (match d with | .out => g.hasEdge a b | .inc => g.hasEdge b a) = true

/-- `l` enumerates the edges at `a` with `a` as the source (`d = out`) / as the target (`d = inc`),
a self-loop once -/
def EdgesOk (g : SG) (a : Nat) (d : Dir) (l : List (Nat × Nat × Nat)) : Prop :=
  l.Nodup ∧ ∀ x y wt, (x, y, wt) ∈ l ↔
    (match d with
     | .out => x = a ∧ g.w a y = some wt
     | .inc => y = a ∧ g.w x a = some wt)

def someWeights (t : List (Nat × Nat × Nat)) : List (Nat × Nat × Option Nat) :=
  t.map fun e => (e.1, e.2.1, some e.2.2)

/-- the abstract answer of every call; `g` is the abstract graph *before* the call -/
def OutOk (g : SG) : Op → Out → Prop
  | .addNode n, o => o = .nat n
  | .addEdge a b _, o => o = .optNat (g.w a b)          -- the previous weight
  | .removeNode n, o => o = .bool (g.node n)
  | .removeEdge a b, o => o = .optNat (g.w a b)
  | .setWeight a b _, o => o = .optNat (g.w a b)
  | .indexSet a b _, o => o = (match g.w a b with | some x => .nat x | none => .panic)
  | .bumpAll _, o => ∃ l, o = .triples l ∧ AllEdgesOk g l
  | .clear, o => o = .unit
  | .extend _, o => o = .unit
  | .buildAddEdge a b _, o =>
    if g.hasEdge a b then o = .optPair none
    else ∃ p : Nat × Nat, o = .optPair (some p) ∧ samePair g.directed a b p.1 p.2 = true
  | .buildUpdateEdge a b _, o => ∃ p : Nat × Nat, o = .pair p.1 p.2 ∧ samePair g.directed a b p.1 p.2 = true
  | .roundTrip, o => o = .unit
  | .fromGraph ws es, o => o = if (SG.fromGraph g.directed ws es).isSome then .unit else .panic
  | .fromEdges _, o => o = .unit
  | .clone, o => o = .unit
  | .containsNode n, o => o = .bool (g.node n)
  | .containsEdge a b, o => o = .bool (g.hasEdge a b)
  | .isAdjacent a b, o => o = .bool (g.hasEdge a b)
  | .edgeWeight a b, o => o = .optNat (g.w a b)
  | .index a b, o => o = (match g.w a b with | some x => .nat x | none => .panic)
  | .neighbors a, o => ∃ l, o = .natList l ∧ NeighborsOk g a .out l
  | .neighborsDirected a d, o => ∃ l, o = .natList l ∧ NeighborsOk g a d l
  | .edges a, o => ∃ t, o = .wtriples (someWeights t) ∧ EdgesOk g a .out t
  | .edgesDirected a d, o => ∃ t, o = .wtriples (someWeights t) ∧ EdgesOk g a d t
  | .nodes, o => ∃ l, o = .natList l ∧ NodesOk g l
  | .allEdges, o => ∃ l, o = .triples l ∧ AllEdgesOk g l
  | .nodeCount, o => ∃ l, NodesOk g l ∧ o = .nat l.length
  | .edgeCount, o => ∃ l, AllEdgesOk g l ∧ o = .nat l.length
  -- compact numbering: a position below the count for a node, a panic otherwise (that the two
  -- directions are inverse to each other is a statement about two calls: `C03_index_roundtrip`)
  | .toIndex n, o =>
    if g.node n then ∃ i l, o = .nat i ∧ NodesOk g l ∧ i < l.length else o = .panic
  | .fromIndex i, o =>
    ∃ l, NodesOk g l ∧ if i < l.length then ∃ n, o = .nat n ∧ g.node n = true else o = .panic
  | .edgeToIndex a b, o =>
    -- an edge (named in either orientation when undirected: `g.w` is symmetric then) answers a position
    -- below the count, a pair that is not an edge panics ("edge not found"); nothing else is accepted
    if g.hasEdge a b then ∃ i l, o = .nat i ∧ AllEdgesOk g l ∧ i < l.length else o = .panic
  | .edgeFromIndex i, o =>
    ∃ l, AllEdgesOk g l ∧ if i < l.length then ∃ a b, o = .pair a b ∧ g.hasEdge a b = true else o = .panic
  | .intoGraph, o =>
    -- the `Graph` has the same nodes (weights = node values, once each) and the same edges between
    -- the positions of their endpoints
    ∃ (ws : List Nat) (es : List (Nat × Nat × Nat)),
      o = .graph ws (es.map fun e => (some e.1, some e.2.1, e.2.2)) ∧ NodesOk g ws ∧
      ∃ t, AllEdgesOk g t ∧ es.map (fun e => (ws[e.1]?, ws[e.2.1]?, e.2.2)) = t.map (fun e => (some e.1, some e.2.1, e.2.2))

end PetgraphModel.SimpleGraphSpec
