import PetgraphModel.Model.GraphWalkers
import PetgraphModel.Spec.CompactGraphAccepts
/-
C01 — the TRUSTED specification of detached walkers that are interleaved with other calls
(definitions only, core Lean; the executable part is also the per-run judge of `Driver/C01.lean`).

What the plain multigraph knows about a `WalkNeighbors` value:

* `rest = some l` — the walker was detached from `neighbors_directed(a, dir)` / `neighbors_undirected(a)`
  and since then only calls that keep the structure (queries, weight mutation — the use the rustdoc
  of `WalkNeighbors` documents —, `map`, `into_edge_type`, other walkers) have happened: `l` is what it
  still has to list, i.e. `CGS.nbr` at the time of creation minus what it has listed already — as a
  sequence (`ordered`: directed graph, one direction: most recently added first) or as a multiset;
* `rest = none` — the structure of the graph was changed under the walker.  The documentation is
  silent about what it lists then; what remains specified is memory safety and the shape of an
  answer: `next` never panics, and a `Some((e, n))` names an edge `e` that is live *now* with `n` one
  of its endpoints.
-/
namespace PetgraphModel.GProofs
open PetgraphModel PetgraphModel.G
open PetgraphModel.GW (WState WOp WOut keepsLinks)

structure SWalker where
  rest : Option (List (Nat × Nat))
  ordered : Bool
  deriving Repr, DecidableEq

/-- a structural change of the graph happened while the walker was alive -/
def SWalker.disturb (w : SWalker) : SWalker := { w with rest := none }

/-- `.neighbors_directed(a, dir).detach()` / `.neighbors_undirected(a).detach()` on the plain multigraph -/
def specWalkerNew (sp : CGS.Spec) (a mode : Nat) : SWalker :=
  ⟨some (CGS.nbr sp a (normMode mode)), CGS.nbrOrdered sp (normMode mode)⟩

/-- is `ans` an admissible answer of `next(&g)`?  `some w'` = yes, the walker continues as `w'`
(executable: this function *is* the judge of the driver) -/
def specWalkerNext (sp : CGS.Spec) (w : SWalker) (ans : Option (Nat × Nat)) : Option SWalker :=
  match w.rest with
  | some rest =>
    if w.ordered then (if ans = rest.head? then some { w with rest := some rest.tail } else none)
    else
      match ans with
      | none => if rest.isEmpty then some w else none
      | some p => if rest.contains p then some { w with rest := some (rest.erase p) } else none
  | none =>
    match ans with
    | none => some w
    | some (e, n) =>
      if e < sp.edges.length && (n == (CGS.edgeAt sp e).src || n == (CGS.edgeAt sp e).tgt) then some w
      else none

/-- the plain multigraph together with what it knows about the walkers created so far -/
structure WSpec where
  sp : CGS.Spec
  ws : List SWalker
  deriving Repr

/-- the specification as a transition relation for the walker layer `GW`: a call of the `Graph`
alphabet is judged by `SpecAccepts2` and disturbs every walker unless it keeps the structure
(`GW.keepsLinks`); `walkerNew` names the new walker with the next free number; `walkerNext` must
answer what `specWalkerNext` admits.  A fault is never accepted. -/
def WAccepts (x : WSpec) : WOp → WOut → WSpec → Prop
  | .base op, .base o, x' =>
    SpecAccepts2 x.sp op o x'.sp ∧ x'.ws = (if keepsLinks op then x.ws else x.ws.map SWalker.disturb)
  | .walkerNew a mode, .walkerId w, x' =>
    w = x.ws.length ∧ x' = { x with ws := x.ws ++ [specWalkerNew x.sp a mode] }
  | .walkerNext w, o, x' =>
    match x.ws[w]? with
    | none => o = .noWalker ∧ x' = x
    | some sw => ∃ ans sw', o = .item ans ∧ specWalkerNext x.sp sw ans = some sw' ∧
        x' = { x with ws := x.ws.set w sw' }
  | _, _, _ => False

/-- runs of the walker-layer specification -/
inductive SpecRunW : WSpec → List WOp → List WOut → WSpec → Prop
  | nil (x : WSpec) : SpecRunW x [] [] x
  | cons {x x1 x2 : WSpec} {op : WOp} {o : WOut} {ops : List WOp} {os : List WOut} :
      WAccepts x op o x1 → SpecRunW x1 ops os x2 → SpecRunW x (op :: ops) (o :: os) x2

end PetgraphModel.GProofs
