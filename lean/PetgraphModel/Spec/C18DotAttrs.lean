import PetgraphModel.Spec.Dot
/-
C18 (wave 5) — attribute-getter strings.  `Dot::with_attr_getters` writes what the two getters return VERBATIM between
the label and the closing bracket of a statement (`write!(f, "{}]", get_node_attributes(..))`, src/dot/mod.rs): petgraph
neither escapes nor checks that text.  What the DOT grammar then needs of it is exactly this:

  the string, read from a position between tokens, must be a (possibly empty) `a_list`:
      ( ID '=' (ID | quoted string) [ ';' | ',' ] )*
  and must end between tokens or in a name (which the `]` that follows ends).

`attrFrag` decides that and returns the attribute pairs; `Theorems/C18.lean` (`C18_dot_parse_getters`) proves that
under this condition the text still parses to exactly the expected statements, each carrying its label followed by
the getter's pairs, and (`C18_dot_getter_injection_witness`) that without it statements can be injected.
Core Lean only; the driver evaluates `attrFrag` on every getter string of a judged case.
-/
namespace PetgraphModel.Spec.Dot

/-- `a_list` on tokens: the pairs the statement parser accumulates between `[` and `]` -/
def attrPairs : List Tok → Option Attrs
  | [] => some []
  | .comma :: r => attrPairs r
  | .semi :: r => attrPairs r
  | .id k :: .eq :: .id v :: r => (attrPairs r).map fun ps => (k, .id v) :: ps
  | .id k :: .eq :: .str v :: r => (attrPairs r).map fun ps => (k, .str v) :: ps
  | _ => none

/-- the attribute pairs of a getter string; `none` = not an `a_list` fragment -/
def attrFrag (a : List Char) : Option Attrs := (lex a).bind attrPairs

end PetgraphModel.Spec.Dot
