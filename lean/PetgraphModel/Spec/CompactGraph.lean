/-
The abstract specification `Graph` is measured against (property C01): a plain compact-indexed
multigraph.  Two plain lists — node weights and edges `(src, tgt, weight, stamp)` — whose positions
*are* the indices `0..n` / `0..m`; removal is `swap_remove` (the last index adopts the removed one);
`stamp` is a global insertion counter, used only for the documented "most recently added first".
There are no links, no sentinels and no lists to keep consistent: every query is a `filter`.
Core Lean only (the spec machine is also the per-run judge inside `pgmodel`).
-/
namespace PetgraphModel.CGS

structure SEdge where
  src : Nat
  tgt : Nat
  weight : Nat
  stamp : Nat
  deriving Repr, DecidableEq

structure Spec where
  /-- largest admissible element count of each kind: `2^w - 1` (for `usize` a bound no `Vec` reaches) -/
  cap : Nat
  directed : Bool
  nodes : List Nat
  edges : List SEdge
  clock : Nat
  deriving Repr, DecidableEq

def empty (cap : Nat) (directed : Bool) : Spec :=
  { cap, directed, nodes := [], edges := [], clock := 0 }

def full (sp : Spec) (len : Nat) : Bool := len ≥ sp.cap

inductive AddErr where
  | limit | absent | both
  deriving Repr, DecidableEq

def addNode (sp : Spec) (w : Nat) : Option Spec :=
  if full sp sp.nodes.length then none else some { sp with nodes := sp.nodes ++ [w] }

/-- `absent`: an endpoint is not a node; `limit`: the edge capacity is exhausted -/
def addEdge (sp : Spec) (a b w : Nat) : Except AddErr Spec :=
  let lim := full sp sp.edges.length
  let abs := !(a < sp.nodes.length && b < sp.nodes.length)
  if lim && abs then .error .both
  else if lim then .error .limit
  else if abs then .error .absent
  else .ok { sp with edges := sp.edges ++ [⟨a, b, w, sp.clock⟩], clock := sp.clock + 1 }

def swapRemove {α : Type} (l : List α) (i : Nat) : List α :=
  match l.getLast? with
  | none => l
  | some last => (l.set i last).dropLast

def removeEdge (sp : Spec) (e : Nat) : Spec :=
  if e < sp.edges.length then { sp with edges := swapRemove sp.edges e } else sp

/-- indices of the edges satisfying `p`, most recently added first (descending stamp; the stable
sort starts from the descending-index enumeration) -/
def select (sp : Spec) (p : SEdge → Bool) : List Nat :=
  let idx := (List.range sp.edges.length).reverse.filter fun i =>
    match sp.edges[i]? with
    | some ed => p ed
    | none => false
  idx.mergeSort fun i j =>
    match sp.edges[i]?, sp.edges[j]? with
    | some x, some y => x.stamp ≥ y.stamp
    | _, _ => true

def outEdges (sp : Spec) (a : Nat) : List Nat := select sp (fun ed => ed.src == a)
def inEdges (sp : Spec) (a : Nat) : List Nat := select sp (fun ed => ed.tgt == a)

/-- remove every edge incident with `a`, one `remove_edge` at a time: out-edges most recent first,
then in-edges most recent first.  (The documentation fixes only *that* each incident edge is removed
"as by `remove_edge`"; the order — hence the renumbering of the survivors — is the reference order
of this specification, see `Driver/C01.lean` for how a deviation is judged.) -/
def dropIncident (a : Nat) : Nat → Spec → Spec
  | 0, sp => sp
  | f+1, sp =>
    match outEdges sp a with
    | e :: _ => dropIncident a f (removeEdge sp e)
    | [] =>
      match inEdges sp a with
      | e :: _ => dropIncident a f (removeEdge sp e)
      | [] => sp

def removeNode (sp : Spec) (a : Nat) : Spec :=
  if a < sp.nodes.length then
    let sp1 := dropIncident a (sp.edges.length + 1) sp
    let last := sp1.nodes.length - 1
    let ren (x : Nat) : Nat := if x = last then a else x
    { sp1 with nodes := swapRemove sp1.nodes a,
               edges := sp1.edges.map fun ed => { ed with src := ren ed.src, tgt := ren ed.tgt } }
  else sp

def reverse (sp : Spec) : Spec :=
  { sp with edges := sp.edges.map fun ed => { ed with src := ed.tgt, tgt := ed.src } }

def clear (sp : Spec) : Spec := { sp with nodes := [], edges := [], clock := 0 }
def clearEdges (sp : Spec) : Spec := { sp with edges := [], clock := 0 }

def maskAt (m : List Bool) (i : Nat) : Bool := m[i]?.getD true
def bumpAt (m : List Bool) (i : Nat) : Bool := m[i]?.getD false

def bumpNode (sp : Spec) (i : Nat) : Spec :=
  match sp.nodes[i]? with
  | some w => { sp with nodes := sp.nodes.set i (w + 1) }
  | none => sp

def bumpEdge (sp : Spec) (i : Nat) : Spec :=
  match sp.edges[i]? with
  | some ed => { sp with edges := sp.edges.set i { ed with weight := ed.weight + 1 } }
  | none => sp

/-- reference visiting order of `retain_*`: descending index (documented as unspecified) -/
def retainNodes (mask bump : List Bool) : Nat → Spec → Spec
  | 0, sp => sp
  | i+1, sp =>
    let sp1 := if bumpAt bump i then bumpNode sp i else sp
    retainNodes mask bump i (if maskAt mask i then sp1 else removeNode sp1 i)

def retainEdges (mask bump : List Bool) : Nat → Spec → Spec
  | 0, sp => sp
  | i+1, sp =>
    let sp1 := if bumpAt bump i then bumpEdge sp i else sp
    retainEdges mask bump i (if maskAt mask i then sp1 else removeEdge sp1 i)

/-- first edge from `a` to `b` (either orientation when undirected), if any, by index -/
def connects (sp : Spec) (a b : Nat) (ed : SEdge) : Bool :=
  (ed.src == a && ed.tgt == b) || (!sp.directed && ed.src == b && ed.tgt == a)

/-- `extend_with_edges`: nodes are created on demand; `false` = capacity exhausted on the way -/
def growTo (nx : Nat) : Nat → Spec → Spec × Bool
  | 0, sp => (sp, true)
  | f+1, sp =>
    if nx ≥ sp.nodes.length then
      match addNode sp 0 with
      | some sp' => growTo nx f sp'
      | none => (sp, false)
    else (sp, true)

def extendWithEdges (sp : Spec) : List (Nat × Nat × Nat) → Spec × Bool
  | [] => (sp, true)
  | (a, b, w) :: rest =>
    let nx := max a b
    match growTo nx (nx + 2 - sp.nodes.length) sp with
    | (sp1, false) => (sp1, false)
    | (sp1, true) =>
      match addEdge sp1 a b w with
      | .ok sp2 => extendWithEdges sp2 rest
      | .error _ => (sp1, false)

def mapWeights (sp : Spec) (dn de : Nat) : Spec :=
  { sp with
    nodes := (List.range sp.nodes.length).zipWith (fun i w => w + dn + i) sp.nodes,
    edges := (List.range sp.edges.length).zipWith (fun i ed => { ed with weight := ed.weight + de + i }) sp.edges }

/-- `filter_map`: a *new* graph — kept nodes in index order, then kept edges (both endpoints kept)
in index order; "most recently added" in the result refers to this construction order -/
def filterMap (sp : Spec) (nmask emask : List Bool) (dn de : Nat) : Spec :=
  let n := sp.nodes.length
  let kept := (List.range n).filter (maskAt nmask)
  let newIx (i : Nat) : Option Nat := if maskAt nmask i && i < n then some ((kept.filter (· < i)).length) else none
  let nodes := kept.filterMap fun i => sp.nodes[i]?.map (· + dn)
  let es := (List.range sp.edges.length).filterMap fun i =>
    match sp.edges[i]? with
    | none => none
    | some ed =>
      match newIx ed.src, newIx ed.tgt with
      | some a, some b => if maskAt emask i then some (a, b, ed.weight + de) else none
      | _, _ => none
  { sp with nodes := nodes,
            edges := (List.range es.length).zipWith (fun i (x : Nat × Nat × Nat) => ⟨x.1, x.2.1, x.2.2, i⟩) es,
            clock := es.length }

/-! ### queries: plain filters -/

def edgeAt (sp : Spec) (e : Nat) : SEdge := sp.edges[e]?.getD ⟨0, 0, 0, 0⟩

/-- walk mode: 0 = `Outgoing`, 1 = `Incoming`, 2 = both (`neighbors_undirected`) -/
abbrev Mode := Nat

/-- (edge, other endpoint) pairs of the incident edges of `a`.  Directed graph: out-edges (mode 0),
in-edges (mode 1), most recently added first; mode 2 and every mode of an undirected graph: all
incident edges, each once (a self-loop once) — listed here out-edges first, but only the multiset is
specified. -/
def nbr (sp : Spec) (a : Nat) (mode : Mode) : List (Nat × Nat) :=
  let out := (outEdges sp a).map fun e => (e, (edgeAt sp e).tgt)
  let inn := (inEdges sp a).map fun e => (e, (edgeAt sp e).src)
  let both := out ++ inn.filter fun p => p.2 != a
  if a ≥ sp.nodes.length then []
  else if sp.directed then
    if mode = 0 then out else if mode = 1 then inn else both
  else both

/-- is the order of `nbr sp a mode` part of the specification? -/
def nbrOrdered (sp : Spec) (mode : Mode) : Bool := sp.directed && mode != 2

/-- an edge reference: index, source, target, weight -/
structure Ref where
  ix : Nat
  src : Nat
  tgt : Nat
  weight : Nat
  deriving Repr, DecidableEq

/-- `edges_directed(a, dir)`: directed — the out- (`dir = false`) or in-edges as stored, most recent
first; undirected — every incident edge once, with `a` as source (`dir = false`) / target -/
def refs (sp : Spec) (a : Nat) (dir : Bool) : List Ref :=
  if a ≥ sp.nodes.length then []
  else if sp.directed then
    (if dir then inEdges sp a else outEdges sp a).map fun e =>
      let ed := edgeAt sp e; ⟨e, ed.src, ed.tgt, ed.weight⟩
  else
    (nbr sp a 2).map fun p =>
      let ed := edgeAt sp p.1
      if dir then ⟨p.1, p.2, a, ed.weight⟩ else ⟨p.1, a, p.2, ed.weight⟩

def connecting (sp : Spec) (a b : Nat) : List Ref := (refs sp a false).filter fun r => r.tgt == b

/-- nodes without out-edges (`k = false`) / in-edges (`k = true`); undirected: isolated nodes -/
def externals (sp : Spec) (k : Bool) : List Nat :=
  (List.range sp.nodes.length).filter fun i =>
    sp.edges.all fun ed =>
      if sp.directed then (if k then ed.tgt != i else ed.src != i)
      else ed.src != i && ed.tgt != i

def hasEdge (sp : Spec) (a b : Nat) : Bool := sp.edges.any (connects sp a b)

end PetgraphModel.CGS
