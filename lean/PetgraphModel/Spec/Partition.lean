/-
The abstract specification `UnionFind` is measured against: the partition *generated* by the
unions performed.  Two layers:

* mathematical: `Connected n us x y` — the equivalence closure of the pairs `us` on `0..n`;
* executable ("quick-find"): a class label per element, `union` relabels one class.
  `Theorems/C19.lean` proves the executable layer equal to the mathematical one; the per-run judge
  uses the executable layer on the *implementation's* answers.
-/
namespace PetgraphModel.PartitionSpec

/-- equivalence closure of a list of pairs (core Lean has no `EqvGen` on lists of pairs) -/
inductive Connected (us : List (Nat × Nat)) : Nat → Nat → Prop
  | refl (x : Nat) : Connected us x x
  | edge {x y : Nat} : (x, y) ∈ us → Connected us x y
  | symm {x y : Nat} : Connected us x y → Connected us y x
  | trans {x y z : Nat} : Connected us x y → Connected us y z → Connected us x z

/-- quick-find state: `cls[i]` is the class label of element `i` -/
structure QF where
  cls : List Nat
  deriving Repr, DecidableEq

def QF.new (n : Nat) : QF := ⟨List.range n⟩
def QF.len (q : QF) : Nat := q.cls.length
def QF.newSet (q : QF) : QF := ⟨q.cls ++ [q.cls.length]⟩
def QF.same (q : QF) (x y : Nat) : Bool :=
  match q.cls[x]?, q.cls[y]? with
  | some a, some b => a == b
  | _, _ => false
/-- merge the classes of `x` and `y` (both in range) -/
def QF.union (q : QF) (x y : Nat) : QF :=
  match q.cls[x]?, q.cls[y]? with
  | some a, some b => ⟨q.cls.map (fun c => if c = b then a else c)⟩
  | _, _ => q

end PetgraphModel.PartitionSpec
