/-
C01 — executable run-time checks of the side conditions under which the sampled cases are compared
with the theorems (`Driver/C01.lean` evaluates them on every request; `Theorems/C01.lean`, section
"run-time checks of the hypotheses", proves what a passed check means).  Core Lean only.

Both conditions concern the generated INPUT only (props/C01.json, `assumptions`), so a failing check
is reported as `SPECFAIL generator left the proved range: …` and must never fire:

* `reprB` — every index argument of a request is representable in the index type (`≤ Ix::max()`); a
  larger `usize` would be truncated by `NodeIndex::new` and the request line would not describe the call;
* `usizeOkB` — a `usize` graph stays below `usize::MAX` elements (the model uses the limit test
  `END ≠ len` for every width; the real `usize` code has no limit test, a `Vec` aborts long before).
-/
namespace PetgraphModel.C01Checks

/-- all index arguments are representable in an index type whose `max()` is `endv` -/
def reprB (endv : Nat) (l : List Nat) : Bool := l.all (· ≤ endv)

def usizeMax : Nat := 18446744073709551615

/-- a `usize` graph with `n` nodes and `m` edges is below the (fictitious) limit of the model -/
def usizeOkB (endv n m : Nat) : Bool := endv != usizeMax || (n < endv && m < endv)

/-- the width word of a `case` line names one of the four index types -/
def widthOkB (w : String) : Bool := w == "w=8" || w == "w=16" || w == "w=32" || w == "w=64"

/-- the optional third word of `extend_with_edges` / `from_edges`: absent, or one of the six item forms
`f0` … `f5` of `IntoWeightedEdge` (owned / borrowed triples, raw `Ix` ids, `(a, b, &w)`, owned / borrowed pairs) -/
def formOkB (form : List String) : Bool :=
  match form with
  | [] => true
  | [f] => f == "f0" || f == "f1" || f == "f2" || f == "f3" || f == "f4" || f == "f5"
  | _ => false

/-- judge of a `law <name> … => <answer>` line: the harness checked a law of the public API against the
implementation itself and answers `ok` or `VIOLATED <why>`; only `ok` is accepted -/
def lawVerdict (name impl : String) : Option String :=
  if impl == "ok" then none else some s!"law {name}: {impl}"

end PetgraphModel.C01Checks
