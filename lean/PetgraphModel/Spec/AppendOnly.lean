/-
The abstract specifications the two append-only graphs are measured against (core Lean only: the
executable layer is used by the driver as the per-run judge of the *implementation's* answers).

* `SG` — what `Csr` must be: a *simple* graph on the nodes `0..n` — a finite map from (ordered, or for
  `Undirected` unordered) pairs of nodes to weights, plus one weight per node.  Nothing about arrays,
  offsets, sortedness or search: `succ` lists the successors in ascending order *because the property
  says rows are strictly ascending*, `addEdge` refuses an existing key and an out-of-range endpoint.
* `ML` — what `adj::List` must be: a *multigraph log* — the edges in insertion order, each with the
  index `(from, rank among the edges of from)` it was given, which it keeps until `clear`.
-/
namespace PetgraphModel.AppendSpec

/-! ### simple graph (Csr) -/

structure SG where
  directed : Bool := true
  nodes : List Int := []                       -- node weights; node ids are `0..nodes.length`
  edges : List ((Nat × Nat) × Int) := []       -- insertion order; keys pairwise distinct
  deriving Repr, DecidableEq

/-- the key an edge `a — b` is stored under (unordered pairs are normalised) -/
def key (directed : Bool) (a b : Nat) : Nat × Nat :=
  if directed || a ≤ b then (a, b) else (b, a)

def SG.n (g : SG) : Nat := g.nodes.length

def lookupKey (k : Nat × Nat) : List ((Nat × Nat) × Int) → Option Int
  | [] => none
  | (k', w) :: es => if k' = k then some w else lookupKey k es

/-- weight of the edge `a → b` (`a — b`), if present -/
def SG.lookup (g : SG) (a b : Nat) : Option Int := lookupKey (key g.directed a b) g.edges

def SG.has (g : SG) (a b : Nat) : Bool := (g.lookup a b).isSome

def SG.addNode (g : SG) (w : Int) : SG × Nat := ({ g with nodes := g.nodes ++ [w] }, g.n)

/-- a structure whose node index type has `m` values (`u8`: 256; `m = 0`: `usize`, no bound) is FULL when it
holds `m` nodes: the next node could not be named.  `add_node` then raises the documented panic and leaves the
structure unchanged (commit 8cab180, the repair of finding D31). -/
def full (m n : Nat) : Bool := m != 0 && decide (m ≤ n)

/-- `add_node` for an index type with `m` values: `none` = the documented panic, nothing changes -/
def SG.addNodeCap (m : Nat) (g : SG) (w : Int) : Option (SG × Nat) :=
  if full m g.n then none else some (g.addNode w)

/-- `add_edge`: `Err` (unchanged) for an out-of-range endpoint, `false` (unchanged) for an existing
edge, otherwise the edge is there afterwards -/
def SG.addEdge (g : SG) (a b : Nat) (w : Int) : SG × Except (Nat × Nat) Bool :=
  if a < g.n ∧ b < g.n then
    if g.has a b then (g, .ok false)
    else ({ g with edges := g.edges ++ [(key g.directed a b, w)] }, .ok true)
  else (g, .error (a, b))

def SG.clearEdges (g : SG) : SG := { g with edges := [] }

def SG.setWeight (g : SG) (a : Nat) (w : Int) : Option SG :=
  if a < g.n then some { g with nodes := g.nodes.set a w } else none

def SG.edgeCount (g : SG) : Nat := g.edges.length

/-- the edges that touch `a` (only these can answer a lookup `a → b`; `Proofs/Csr.lean` proves that
restricting to them does not change any lookup from `a`) -/
def SG.incident (g : SG) (a : Nat) : List ((Nat × Nat) × Int) :=
  g.edges.filter fun e => e.1.1 == a || e.1.2 == a

/-- successors of `a` with weights, ascending -/
def SG.succ (g : SG) (a : Nat) : List (Nat × Int) :=
  let inc := g.incident a
  (List.range g.n).filterMap fun b => (lookupKey (key g.directed a b) inc).map fun w => (b, w)

/-- `from_sorted_edges` must accept exactly the strictly (lexicographically) ascending lists -/
def strictlySorted : List (Nat × Nat × Int) → Bool
  | [] => true
  | [_] => true
  | (a, b, _) :: (c, d, w') :: rest =>
    (a < c || (a == c && b < d)) && strictlySorted ((c, d, w') :: rest)

/-- the graph "built edge by edge" on `n` default-weighted nodes -/
def SG.ofEdges (directed : Bool) (n : Nat) (es : List (Nat × Nat × Int)) : SG :=
  es.foldl (fun g e => (g.addEdge e.1 e.2.1 e.2.2).1) { directed, nodes := List.replicate n 0, edges := [] }

/-! ### multigraph log (adj::List) -/

structure MEdge where
  id : Nat × Nat        -- (from, successor_index)
  src : Nat
  tgt : Nat
  w : Int
  deriving Repr, DecidableEq

structure ML where
  n : Nat := 0
  edges : List MEdge := []        -- insertion order
  deriving Repr, DecidableEq

def ML.addNode (g : ML) : ML × Nat := ({ g with n := g.n + 1 }, g.n)

def ML.outOf (g : ML) (a : Nat) : List MEdge := g.edges.filter (fun e => e.src == a)

/-- a new edge gets the index `(a, number of edges already leaving a)` -/
def ML.push (g : ML) (a b : Nat) (w : Int) : ML × (Nat × Nat) :=
  let id := (a, (g.outOf a).length)
  ({ g with edges := g.edges ++ [⟨id, a, b, w⟩] }, id)

/-- `add_edge`: `none` = documented panic, nothing changes -/
def ML.addEdge (g : ML) (a b : Nat) (w : Int) : Option (ML × (Nat × Nat)) :=
  if a < g.n ∧ b < g.n then some (g.push a b w) else none

/-- the first edge `a → b` in insertion order -/
def ML.find (g : ML) (a b : Nat) : Option MEdge := g.edges.find? (fun e => e.src == a && e.tgt == b)

def ML.setW (g : ML) (id : Nat × Nat) (w : Int) : ML :=
  { g with edges := g.edges.map (fun e => if e.id = id then { e with w := w } else e) }

/-- `update_edge`: overwrite the first `a → b`, or add -/
def ML.updateEdge (g : ML) (a b : Nat) (w : Int) : Option (ML × (Nat × Nat)) :=
  if a < g.n ∧ b < g.n then
    match g.find a b with
    | some e => some (g.setW e.id w, e.id)
    | none => some (g.push a b w)
  else none

def ML.get (g : ML) (id : Nat × Nat) : Option MEdge := g.edges.find? (fun e => e.id == id)

/-- `add_node_from_edges`: a new node `i` with successor list `es`; the edges get ids `(i, 0), (i, 1), …` -/
def ML.addNodeFrom (g : ML) (es : List (Nat × Int)) : ML × Nat :=
  let i := g.n
  let g1 : ML := { g with n := g.n + 1 }
  (es.foldl (fun g e => (g.push i e.1 e.2).1) g1, i)

def ML.clear (_ : ML) : ML := {}

/-- `add_node` / `add_node_with_capacity` / `Build::add_node` for an index type with `m` values: `none` = the
documented panic of a `full` list, nothing changes -/
def ML.addNodeCap (m : Nat) (g : ML) : Option (ML × Nat) :=
  if full m g.n then none else some g.addNode

/-- `add_node_from_edges` for an index type with `m` values -/
def ML.addNodeFromCap (m : Nat) (g : ML) (es : List (Nat × Int)) : Option (ML × Nat) :=
  if full m g.n then none else some (g.addNodeFrom es)

end PetgraphModel.AppendSpec
