import PetgraphModel.Spec.Serde
/-
C17, wave 6: what `reverse`, `clear`, `clear_edges` do to the abstract indexed graph (core Lean only).
-/
namespace PetgraphModel.SerdeSpec

/-- `reverse`: same indices and weights, every edge with its endpoints exchanged -/
def specReverse (a : AGraph) : AGraph := { a with edges := a.edges.map fun (i, s, t, w) => (i, t, s, w) }

/-- `clear`: nothing is left -/
def specClear (a : AGraph) : AGraph := { a with nodes := [], edges := [], mnodes := [], medges := [], looseEdgeIds := false }

/-- `clear_edges`: the nodes stay, with their indices -/
def specClearEdges (a : AGraph) : AGraph := { a with edges := [], looseEdgeIds := false }

end PetgraphModel.SerdeSpec
