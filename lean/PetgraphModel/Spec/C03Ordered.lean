import PetgraphModel.Model.GraphMap
import PetgraphModel.Spec.SimpleGraph
/-
C03 — the ORDERED specification machine `OSG`: the simple graph of `Spec/SimpleGraph.lean` together
with the order in which its iterators report nodes, edges and incidences, and the compact numbering.

What is promised, and by whom.  petgraph's own documentation promises NO order (`all_edges`:
"in arbitrary order"; `nodes`, `neighbors`, `edges`: nothing), so the order is not part of property
C03's abstract statement and the run-time judge (`SimpleGraphSpec.judgeB`) never rejects an answer for
its order: a change of order is a `MODELDIFF`, not a `SPECFAIL`.  But `GraphMap` keeps its nodes and
edges in two `IndexMap`s and its incidences in `Vec`s, and THEIR documentation does fix the order:

* insertion order — a new key goes last, an existing key keeps its place when its value is replaced
  (`pushNew`, `overwrite`);
* `swap_remove` — "the element is removed by swapping it with the last element and popping it off;
  this perturbs the position of what used to be the last element" (`swapDel`).

`OSG` states the order those two rules give, as three ordered sets (nodes, edges, incidences of a
node) and one transition per public call.  `ospecOut` is the EXACT answer of every call, including the
numbering (`to_index` = position in `nodes()` order, …) and the edge id `Build::add_edge` /
`update_edge` return.  `Proofs/C03W4Ordered.lean` proves that the mirror model of graphmap.rs refines
this machine for all histories (same state, same answers) and that the machine refines the unordered
one (`toSG`), so every order is a duplicate-free enumeration (a permutation) of the set the property names.

Only the types `Op`/`Out`/`Dir` are taken from the model file.  Core Lean only.
-/
namespace PetgraphModel.OrderedGraphSpec
open PetgraphModel.GM (Op Out Dir)
open PetgraphModel.SimpleGraphSpec (SG)

/-! ### ordered sets as `IndexMap` / `Vec` document them -/

/-- insertion order: a new element goes last, an element already present keeps its place -/
def pushNew {α : Type} [DecidableEq α] (l : List α) (x : α) : List α := if x ∈ l then l else l ++ [x]

/-- `swap_remove` of the first element satisfying `p`: the LAST element takes its place
(nothing happens if there is none) -/
def swapDel {α : Type} (p : α → Bool) : List α → List α
  | [] => []
  | x :: t =>
    if p x then
      match t.getLast? with
      | none => []
      | some z => z :: t.dropLast
    else x :: swapDel p t

/-- position of the first element equal to `x` -/
def pos {α : Type} [DecidableEq α] : List α → α → Option Nat
  | [], _ => none
  | y :: t, x => if y = x then some 0 else (pos t x).map (· + 1)

abbrev EName := Nat × Nat
abbrev Inc := List (Nat × Dir)

/-- value of key `p` in an ordered map -/
def lookup : List (EName × Nat) → EName → Option Nat
  | [], _ => none
  | (q, w) :: t, p => if q = p then some w else lookup t p

/-- the value of key `p` is replaced, every position stays -/
def overwrite (es : List (EName × Nat)) (p : EName) (w : Nat) : List (EName × Nat) :=
  es.map fun e => if e.1 = p then (p, w) else e

/-- the name under which the edge between `a` and `b` is listed: the pair itself when directed, the
ascending pair when undirected -/
def okey (directed : Bool) (a b : Nat) : EName := if directed || a ≤ b then (a, b) else (b, a)

/-- does incidence entry `e` stand for the edge to/from `b` in direction `dir`?  (an undirected graph
has one entry per neighbour, whatever its tag) -/
def isEntry (directed : Bool) (b : Nat) (dir : Dir) (e : Nat × Dir) : Bool :=
  if directed then decide (e = (b, dir)) else decide (e.1 = b)

structure OSG where
  directed : Bool
  /-- the nodes, in the order `nodes()` / `node_identifiers()` / `from_index` report them -/
  ns : List Nat
  /-- the edges with their weights, in `all_edges()` order and under the listed name -/
  es : List (EName × Nat)
  /-- incidence sequence of each node: `(b, Outgoing)` for an edge to `b`, `(b, Incoming)` for an edge
  from `b ≠ a` (a self-loop has the single entry `(a, Outgoing)`) -/
  inc : Nat → Inc

def OSG.empty (directed : Bool) : OSG := ⟨directed, [], [], fun _ => []⟩

def OSG.w (g : OSG) (a b : Nat) : Option Nat := lookup g.es (okey g.directed a b)
def OSG.hasEdge (g : OSG) (a b : Nat) : Bool := (g.w a b).isSome

/-- forgetting the order: the simple graph of `Spec/SimpleGraph.lean` -/
def OSG.toSG (g : OSG) : SG := ⟨g.directed, fun n => decide (n ∈ g.ns), fun a b => g.w a b⟩

/-! ### transitions -/

def OSG.addNode (g : OSG) (n : Nat) : OSG := { g with ns := pushNew g.ns n }

/-- `add_edge`: an existing edge keeps its place (and its incidences); a new one goes last in the edge
order and last in the incidence sequences of both ends, and missing endpoints are appended `a` first -/
def OSG.addEdge (g : OSG) (a b wt : Nat) : OSG :=
  let p := okey g.directed a b
  if (lookup g.es p).isSome then { g with es := overwrite g.es p wt }
  else
    { g with
      ns := pushNew (pushNew g.ns a) b
      es := g.es ++ [(p, wt)]
      inc := fun x =>
        if x = a then g.inc x ++ [(b, .out)]
        else if x = b then g.inc x ++ [(a, .inc)]
        else g.inc x }

/-- `remove_edge`: swap-removal in the edge order and in the incidence sequences of both ends -/
def OSG.removeEdge (g : OSG) (a b : Nat) : OSG :=
  { g with
    es := swapDel (fun e => decide (e.1 = okey g.directed a b)) g.es
    inc := fun x =>
      if x = a then swapDel (isEntry g.directed b .out) (g.inc x)
      else if x = b then swapDel (isEntry g.directed a .inc) (g.inc x)
      else g.inc x }

/-- the name of the edge an incidence entry of `n` stands for -/
def linkKey (directed : Bool) (n : Nat) (l : Nat × Dir) : EName :=
  if l.2 = .out then okey directed n l.1 else okey directed l.1 n

/-- `remove_node`: swap-removal of `n` from the node order; then, walking `n`'s incidence sequence front to
back, each incident edge is swap-removed from the edge order and from the other end's incidence sequence -/
def OSG.removeNode (g : OSG) (n : Nat) : OSG :=
  if n ∈ g.ns then
    let links := g.inc n
    { g with
      ns := swapDel (fun x => decide (x = n)) g.ns
      es := links.foldl (fun es l => swapDel (fun e => decide (e.1 = linkKey g.directed n l)) es) g.es
      inc := fun x =>
        if x = n then []
        else links.foldl (fun acc l => if l.1 = x then swapDel (isEntry g.directed n l.2.opposite) acc else acc) (g.inc x) }
  else g

def OSG.setWeight (g : OSG) (a b wt : Nat) : OSG :=
  if g.hasEdge a b then { g with es := overwrite g.es (okey g.directed a b) wt } else g

def OSG.bumpAll (g : OSG) (k : Nat) : OSG := { g with es := g.es.map fun e => (e.1, e.2 + k) }

def OSG.clear (g : OSG) : OSG := OSG.empty g.directed

def OSG.extend (g : OSG) : List (Nat × Nat × Nat) → OSG
  | [] => g
  | (a, b, wt) :: rest => OSG.extend (g.addEdge a b wt) rest

def OSG.addNodes (g : OSG) : List Nat → OSG
  | [] => g
  | n :: rest => OSG.addNodes (g.addNode n) rest

def OSG.fromGraphEdges (g : OSG) (ws : List Nat) : List (Nat × Nat × Nat) → Option OSG
  | [] => some g
  | (i, j, wt) :: rest =>
    match ws[i]?, ws[j]? with
    | some a, some b => OSG.fromGraphEdges (g.addEdge a b wt) ws rest
    | _, _ => none

/-- `from_graph`: the nodes in node-index order, then the edges in edge-index order -/
def OSG.fromGraph (directed : Bool) (ws : List Nat) (es : List (Nat × Nat × Nat)) : Option OSG :=
  OSG.fromGraphEdges ((OSG.empty directed).addNodes ws) ws es

def OSG.triples (g : OSG) : List (Nat × Nat × Nat) := g.es.map fun e => (e.1.1, e.1.2, e.2)

/-- `from_graph(into_graph(g))`: node and edge order survive, every incidence sequence is rebuilt in
edge order -/
def OSG.roundTrip (g : OSG) : OSG := ((OSG.empty g.directed).addNodes g.ns).extend g.triples

def ospecStep (g : OSG) : Op → OSG
  | .addNode n => g.addNode n
  | .addEdge a b wt => g.addEdge a b wt
  | .removeNode n => g.removeNode n
  | .removeEdge a b => g.removeEdge a b
  | .setWeight a b wt => g.setWeight a b wt
  | .indexSet a b wt => g.setWeight a b wt
  | .bumpAll k => g.bumpAll k
  | .clear => g.clear
  | .extend es => g.extend es
  | .buildAddEdge a b wt => if g.hasEdge a b then g else g.addEdge a b wt
  | .buildUpdateEdge a b wt => g.addEdge a b wt
  | .roundTrip => g.roundTrip
  | .fromGraph ws es => (OSG.fromGraph g.directed ws es).getD g
  | .fromEdges es => (OSG.empty g.directed).extend es
  | _ => g

def ospecRun (g : OSG) : List Op → OSG
  | [] => g
  | op :: ops => ospecRun (ospecStep g op) ops

/-! ### the exact answers -/

/-- `neighbors(a)`: the targets of the `Outgoing` entries in incidence order (all entries when undirected) -/
def OSG.neighbors (g : OSG) (a : Nat) : List Nat :=
  if g.directed then (g.inc a).filterMap fun e => if e.2 = .out then some e.1 else none
  else (g.inc a).map (·.1)

/-- `neighbors_directed(a, d)`: the entries of direction `d`, and a self-loop in either direction -/
def OSG.neighborsDirected (g : OSG) (a : Nat) (d : Dir) : List Nat :=
  if g.directed then (g.inc a).filterMap fun e => if e.2 = d ∨ e.1 = a then some e.1 else none
  else (g.inc a).map (·.1)

/-- `edges(a)`: `(a, b, weight)` along `neighbors(a)` -/
def OSG.edges (g : OSG) (a : Nat) : List (Nat × Nat × Option Nat) :=
  (g.neighbors a).map fun b => (a, b, g.w a b)

/-- `edges_directed(a, d)`: the queried node is the source — the target for `Incoming` -/
def OSG.edgesDirected (g : OSG) (a : Nat) (d : Dir) : List (Nat × Nat × Option Nat) :=
  (g.neighborsDirected a d).map fun b => if d = .inc then (b, a, g.w b a) else (a, b, g.w a b)

def ospecOut (g : OSG) : Op → Out
  | .addNode n => .nat n
  | .addEdge a b _ => .optNat (g.w a b)
  | .removeNode n => .bool (decide (n ∈ g.ns))
  | .removeEdge a b => .optNat (g.w a b)
  | .setWeight a b _ => .optNat (g.w a b)
  | .indexSet a b _ => match g.w a b with | some x => .nat x | none => .panic
  | .bumpAll _ => .triples g.triples
  | .clear => .unit
  | .extend _ => .unit
  | .buildAddEdge a b _ => if g.hasEdge a b then .optPair none else .optPair (some (a, b))
  | .buildUpdateEdge a b _ => .pair a b
  | .roundTrip => .unit
  | .fromGraph ws es => if (OSG.fromGraph g.directed ws es).isSome then .unit else .panic
  | .fromEdges _ => .unit
  | .clone => .unit
  | .containsNode n => .bool (decide (n ∈ g.ns))
  | .containsEdge a b => .bool (g.hasEdge a b)
  | .isAdjacent a b => .bool (g.hasEdge a b)
  | .edgeWeight a b => .optNat (g.w a b)
  | .index a b => match g.w a b with | some x => .nat x | none => .panic
  | .neighbors a => .natList (g.neighbors a)
  | .neighborsDirected a d => .natList (g.neighborsDirected a d)
  | .edges a => .wtriples (g.edges a)
  | .edgesDirected a d => .wtriples (g.edgesDirected a d)
  | .nodes => .natList g.ns
  | .allEdges => .triples g.triples
  | .nodeCount => .nat g.ns.length
  | .edgeCount => .nat g.es.length
  -- the compact numbering IS the iteration order
  | .toIndex n => match pos g.ns n with | some i => .nat i | none => .panic
  | .fromIndex i => match g.ns[i]? with | some n => .nat n | none => .panic
  -- an edge is numbered by the position of the name it is listed with; either orientation of an undirected
  -- edge names it (graphmap.rs looks up `edge_key(a, b)`); a pair that is not an edge is "edge not found"
  | .edgeToIndex a b => match pos (g.es.map (·.1)) (okey g.directed a b) with | some i => .nat i | none => .panic
  | .edgeFromIndex i => match g.es[i]? with | some e => .pair e.1.1 e.1.2 | none => .panic
  -- `into_graph`: node weights in node order, the edges in edge order between the positions of their ends
  | .intoGraph => .graph g.ns (g.es.map fun e => (pos g.ns e.1.1, pos g.ns e.1.2, e.2))

def ospecOuts (g : OSG) : List Op → List Out
  | [] => []
  | op :: ops => ospecOut g op :: ospecOuts (ospecStep g op) ops

end PetgraphModel.OrderedGraphSpec
